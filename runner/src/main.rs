//! Correspondence runner: executes the cteepbd implementation (built from /repo's
//! working tree) on JSON jobs read from stdin (one per line) and dumps every observable
//! field as JSON (one line per job) on stdout.  Every library call is wrapped in
//! catch_unwind so that a panic is reported as data, never as a crash of the runner.
//!
//! Numbers: every f32 is emitted as the JSON number of its exact f64 widening (shortest
//! round-trip printing of an f64 is exact), or as the strings "NaN" / "inf" / "-inf".

use std::collections::HashMap;
use std::io::{BufRead, Write};
use std::panic::{catch_unwind, AssertUnwindSafe};

use serde_json::{json, Map, Value};

use cteepbd::cte;
use cteepbd::error::EpbdError;
use cteepbd::types::*;
use cteepbd::{energy_performance, AsCtePlain, AsCteXml, Components, Factors, UserWF};

fn num(x: f32) -> Value {
    if x.is_nan() {
        json!("NaN")
    } else if x.is_infinite() {
        if x > 0.0 {
            json!("inf")
        } else {
            json!("-inf")
        }
    } else {
        json!(x as f64)
    }
}

fn nums(v: &[f32]) -> Value {
    Value::Array(v.iter().map(|x| num(*x)).collect())
}

fn rnc(v: &RenNrenCo2) -> Value {
    json!([num(v.ren), num(v.nren), num(v.co2)])
}

fn errkind(e: &EpbdError) -> Value {
    match e {
        EpbdError::ParseError(m) => json!({"err": "ParseError", "msg": m}),
        EpbdError::WrongInput(m) => json!({"err": "WrongInput", "msg": m}),
        EpbdError::MissingFactor(m) => json!({"err": "MissingFactor", "msg": m}),
    }
}

fn panic_msg(p: Box<dyn std::any::Any + Send>) -> Value {
    let msg = if let Some(s) = p.downcast_ref::<&str>() {
        s.to_string()
    } else if let Some(s) = p.downcast_ref::<String>() {
        s.clone()
    } else {
        "?".to_string()
    };
    json!({ "panic": msg })
}

fn guarded<T, F: FnOnce() -> Result<T, EpbdError>>(f: F) -> Result<T, Value> {
    match catch_unwind(AssertUnwindSafe(f)) {
        Ok(Ok(v)) => Ok(v),
        Ok(Err(e)) => Err(errkind(&e)),
        Err(p) => Err(panic_msg(p)),
    }
}

fn map_f32<K: std::fmt::Display>(m: &HashMap<K, f32>) -> Value {
    let mut o = Map::new();
    for (k, v) in m {
        o.insert(k.to_string(), num(*v));
    }
    Value::Object(o)
}
fn map_vec<K: std::fmt::Display>(m: &HashMap<K, Vec<f32>>) -> Value {
    let mut o = Map::new();
    for (k, v) in m {
        o.insert(k.to_string(), nums(v));
    }
    Value::Object(o)
}
fn map_rnc<K: std::fmt::Display>(m: &HashMap<K, RenNrenCo2>) -> Value {
    let mut o = Map::new();
    for (k, v) in m {
        o.insert(k.to_string(), rnc(v));
    }
    Value::Object(o)
}
fn map2_f32<K: std::fmt::Display, L: std::fmt::Display>(
    m: &HashMap<K, HashMap<L, f32>>,
) -> Value {
    let mut o = Map::new();
    for (k, v) in m {
        o.insert(k.to_string(), map_f32(v));
    }
    Value::Object(o)
}
fn map2_vec<K: std::fmt::Display, L: std::fmt::Display>(
    m: &HashMap<K, HashMap<L, Vec<f32>>>,
) -> Value {
    let mut o = Map::new();
    for (k, v) in m {
        o.insert(k.to_string(), map_vec(v));
    }
    Value::Object(o)
}

fn dump_energy(e: &Energy) -> Value {
    match e {
        Energy::Used(c) => json!({"kind": "Used", "id": c.id, "carrier": c.carrier.to_string(),
            "service": c.service.to_string(), "values": nums(&c.values), "comment": c.comment}),
        Energy::Prod(c) => json!({"kind": "Prod", "id": c.id, "source": c.source.to_string(),
            "values": nums(&c.values), "comment": c.comment}),
        Energy::Aux(c) => json!({"kind": "Aux", "id": c.id, "service": c.service.to_string(),
            "values": nums(&c.values), "comment": c.comment}),
        Energy::Out(c) => json!({"kind": "Out", "id": c.id, "service": c.service.to_string(),
            "values": nums(&c.values), "comment": c.comment}),
    }
}

fn dump_meta(m: &[Meta]) -> Value {
    Value::Array(m.iter().map(|x| json!([x.key, x.value])).collect())
}

fn dump_components(c: &Components) -> Value {
    json!({
        "meta": dump_meta(&c.meta),
        "data": Value::Array(c.data.iter().map(dump_energy).collect()),
        "needs": {
            "ACS": c.needs.ACS.as_ref().map(|v| nums(v)),
            "CAL": c.needs.CAL.as_ref().map(|v| nums(v)),
            "REF": c.needs.REF.as_ref().map(|v| nums(v)),
        }
    })
}

fn dump_factors(f: &Factors) -> Value {
    json!({
        "wmeta": dump_meta(&f.wmeta),
        "wdata": Value::Array(f.wdata.iter().map(|x| json!({
            "carrier": x.carrier.to_string(), "source": x.source.to_string(),
            "dest": x.dest.to_string(), "step": x.step.to_string(),
            "ren": num(x.ren), "nren": num(x.nren), "co2": num(x.co2), "comment": x.comment
        })).collect())
    })
}

fn dump_balance_carrier(b: &BalanceCarrier) -> Value {
    json!({
        "carrier": b.carrier.to_string(),
        "f_match": nums(&b.f_match),
        "used": {
            "epus_t": nums(&b.used.epus_t), "epus_by_srv_t": map_vec(&b.used.epus_by_srv_t),
            "epus_an": num(b.used.epus_an), "epus_by_srv_an": map_f32(&b.used.epus_by_srv_an),
            "nepus_t": nums(&b.used.nepus_t), "nepus_an": num(b.used.nepus_an),
            "cgnus_t": nums(&b.used.cgnus_t), "cgnus_an": num(b.used.cgnus_an),
        },
        "prod": {
            "t": nums(&b.prod.t), "an": num(b.prod.an),
            "by_src_t": map_vec(&b.prod.by_src_t), "by_src_an": map_f32(&b.prod.by_src_an),
            "epus_t": nums(&b.prod.epus_t), "epus_an": num(b.prod.epus_an),
            "epus_by_src_t": map_vec(&b.prod.epus_by_src_t),
            "epus_by_src_an": map_f32(&b.prod.epus_by_src_an),
            "epus_by_srv_by_src_t": map2_vec(&b.prod.epus_by_srv_by_src_t),
            "epus_by_srv_by_src_an": map2_f32(&b.prod.epus_by_srv_by_src_an),
        },
        "exp": {
            "t": nums(&b.exp.t), "an": num(b.exp.an),
            "grid_t": nums(&b.exp.grid_t), "grid_an": num(b.exp.grid_an),
            "nepus_t": nums(&b.exp.nepus_t), "nepus_an": num(b.exp.nepus_an),
            "by_src_t": map_vec(&b.exp.by_src_t), "by_src_an": map_f32(&b.exp.by_src_an),
        },
        "del": {
            "an": num(b.del.an), "grid_t": nums(&b.del.grid_t), "grid_an": num(b.del.grid_an),
            "onst_t": nums(&b.del.onst_t), "onst_an": num(b.del.onst_an),
            "cgn_t": nums(&b.del.cgn_t), "cgn_an": num(b.del.cgn_an),
        },
        "we": {
            "b": rnc(&b.we.b), "b_by_srv": map_rnc(&b.we.b_by_srv),
            "a": rnc(&b.we.a), "a_by_srv": map_rnc(&b.we.a_by_srv),
            "del": rnc(&b.we.del), "del_grid": rnc(&b.we.del_grid),
            "del_onst": rnc(&b.we.del_onst), "del_cgn": rnc(&b.we.del_cgn),
            "exp": rnc(&b.we.exp), "exp_a": rnc(&b.we.exp_a),
            "exp_nepus_a": rnc(&b.we.exp_nepus_a), "exp_grid_a": rnc(&b.we.exp_grid_a),
            "exp_nepus_ab": rnc(&b.we.exp_nepus_ab), "exp_grid_ab": rnc(&b.we.exp_grid_ab),
            "exp_ab": rnc(&b.we.exp_ab),
        }
    })
}

fn dump_balance(b: &Balance) -> Value {
    json!({
        "needs": {"ACS": b.needs.ACS.map(num), "CAL": b.needs.CAL.map(num), "REF": b.needs.REF.map(num)},
        "used": {
            "epus": num(b.used.epus), "nepus": num(b.used.nepus), "cgnus": num(b.used.cgnus),
            "epus_by_srv": map_f32(&b.used.epus_by_srv), "epus_by_cr": map_f32(&b.used.epus_by_cr),
            "epus_by_cr_by_srv": map2_f32(&b.used.epus_by_cr_by_srv),
        },
        "prod": {
            "an": num(b.prod.an), "by_cr": map_f32(&b.prod.by_cr), "by_src": map_f32(&b.prod.by_src),
            "epus_by_src": map_f32(&b.prod.epus_by_src),
            "epus_by_srv_by_src": map2_f32(&b.prod.epus_by_srv_by_src),
        },
        "del": {"an": num(b.del.an), "onst": num(b.del.onst), "grid": num(b.del.grid),
                "grid_by_cr": map_f32(&b.del.grid_by_cr)},
        "exp": {"an": num(b.exp.an), "grid": num(b.exp.grid), "nepus": num(b.exp.nepus)},
        "we": {
            "a": rnc(&b.we.a), "a_by_srv": map_rnc(&b.we.a_by_srv),
            "b": rnc(&b.we.b), "b_by_srv": map_rnc(&b.we.b_by_srv),
            "del": rnc(&b.we.del), "exp_a": rnc(&b.we.exp_a), "exp": rnc(&b.we.exp),
        }
    })
}

fn dump_ep(ep: &EnergyPerformance) -> Value {
    let mut bcr = Map::new();
    for (k, v) in &ep.balance_cr {
        bcr.insert(k.to_string(), dump_balance_carrier(v));
    }
    json!({
        "components": dump_components(&ep.components),
        "wfactors": dump_factors(&ep.wfactors),
        "k_exp": num(ep.k_exp), "arearef": num(ep.arearef),
        "balance_cr": Value::Object(bcr),
        "balance": dump_balance(&ep.balance),
        "balance_m2": dump_balance(&ep.balance_m2),
        "rer": num(ep.rer), "rer_nrb": num(ep.rer_nrb), "rer_onst": num(ep.rer_onst),
        "misc": ep.misc.as_ref().map(|m| {
            let mut o = Map::new();
            for (k, v) in m.iter() { o.insert(k.clone(), json!(v)); }
            Value::Object(o)
        }),
    })
}

fn parse_rnc(v: &Value) -> Option<RenNrenCo2> {
    let a = v.as_array()?;
    if a.len() != 3 {
        return None;
    }
    Some(RenNrenCo2::new(
        a[0].as_f64()? as f32,
        a[1].as_f64()? as f32,
        a[2].as_f64()? as f32,
    ))
}

fn f32_of(v: &Value, default: f32) -> f32 {
    match v {
        Value::Number(n) => n.as_f64().map(|x| x as f32).unwrap_or(default),
        Value::String(s) => s.parse::<f32>().unwrap_or(default),
        _ => default,
    }
}

/// Run a job. Every stage result is recorded under its own key.
fn run_job(job: &Value) -> Value {
    let mut out = Map::new();
    if let Some(id) = job.get("id") {
        out.insert("id".into(), id.clone());
    }
    let wants = |k: &str| -> bool {
        job.get("want")
            .and_then(|w| w.as_array())
            .map(|a| a.iter().any(|x| x.as_str() == Some(k)))
            .unwrap_or(false)
    };

    // ---- tables: finite behaviour tables of the implementation
    if wants("tables") {
        out.insert("tables".into(), dump_tables());
    }

    // ---- oracle rows: f32 parsing / formatting as done by Rust's std
    if let Some(toks) = job.get("parse_f32").and_then(|v| v.as_array()) {
        let rows: Vec<Value> = toks
            .iter()
            .map(|t| {
                let s = t.as_str().unwrap_or("");
                match s.parse::<f32>() {
                    Ok(x) => json!([s, num(x)]),
                    Err(_) => json!([s, null]),
                }
            })
            .collect();
        out.insert("parse_f32".into(), Value::Array(rows));
    }
    if let Some(toks) = job.get("parse_i32").and_then(|v| v.as_array()) {
        let rows: Vec<Value> = toks
            .iter()
            .map(|t| {
                let s = t.as_str().unwrap_or("");
                match s.parse::<i32>() {
                    Ok(x) => json!([s, x]),
                    Err(_) => json!([s, null]),
                }
            })
            .collect();
        out.insert("parse_i32".into(), Value::Array(rows));
    }
    if let Some(reqs) = job.get("fmt_f32").and_then(|v| v.as_array()) {
        // each request: [precision, number]
        let rows: Vec<Value> = reqs
            .iter()
            .map(|r| {
                let p = r[0].as_u64().unwrap_or(2) as usize;
                let x = f32_of(&r[1], 0.0);
                json!([p, num(x), format!("{:.*}", p, x)])
            })
            .collect();
        out.insert("fmt_f32".into(), Value::Array(rows));
    }

    if let Some(reqs) = job.get("f32_arith").and_then(|v| v.as_array()) {
        // each request: [op, a, b]; the operands are rounded to f32 first
        let rows: Vec<Value> = reqs
            .iter()
            .map(|r| {
                let op = r[0].as_str().unwrap_or("");
                let a = f32_of(&r[1], 0.0);
                let b = f32_of(&r[2], 0.0);
                let v = match op {
                    "add" => a + b,
                    "mul" => a * b,
                    "div" => a / b,
                    "round3" => (a * 1000.0).round() / 1000.0,
                    _ => f32::NAN,
                };
                json!([op, num(a), num(b), num(v)])
            })
            .collect();
        out.insert("f32_arith".into(), Value::Array(rows));
    }

    // ---- single lines through the FromStr of each record type: [[kind, text], ...]
    if let Some(reqs) = job.get("parse_lines").and_then(|v| v.as_array()) {
        let rows: Vec<Value> = reqs
            .iter()
            .map(|r| {
                let kind = r[0].as_str().unwrap_or("");
                let t = r[1].as_str().unwrap_or("").to_string();
                let res: Result<Value, Value> = match kind {
                    "used" => guarded(|| t.parse::<EUsed>()).map(|e| dump_energy(&Energy::Used(e))),
                    "prod" => guarded(|| t.parse::<EProd>()).map(|e| dump_energy(&Energy::Prod(e))),
                    "aux" => guarded(|| t.parse::<EAux>()).map(|e| dump_energy(&Energy::Aux(e))),
                    "out" => guarded(|| t.parse::<EOut>()).map(|e| dump_energy(&Energy::Out(e))),
                    "need" => guarded(|| t.parse::<Needs>())
                        .map(|n| json!({"service": n.service.to_string(), "values": nums(&n.values)})),
                    "meta" => {
                        // the callers only hand over lines that start with #META or #CTE_
                        guarded(|| t.parse::<Meta>()).map(|m| json!([m.key, m.value]))
                    }
                    "factor" => guarded(|| t.parse::<Factor>()).map(|x| json!({
                        "carrier": x.carrier.to_string(), "source": x.source.to_string(),
                        "dest": x.dest.to_string(), "step": x.step.to_string(),
                        "ren": num(x.ren), "nren": num(x.nren), "co2": num(x.co2), "comment": x.comment})),
                    "display_energy" => {
                        // parse as the kind the line announces, write it back
                        guarded(|| t.parse::<Components>()).map(|c| json!(c.to_string()))
                    }
                    _ => Err(json!({"err": "NoKind"})),
                };
                match res {
                    Ok(v) => json!({"ok": v}),
                    Err(e) => e,
                }
            })
            .collect();
        out.insert("parse_lines".into(), Value::Array(rows));
    }

    // ---- components
    let comps: Option<Components> = match job.get("comps") {
        None => None,
        Some(spec) => {
            let r = if let Some(t) = spec.get("text").and_then(|t| t.as_str()) {
                guarded(|| t.parse::<Components>())
            } else if let Some(j) = spec.get("json") {
                let normalize = spec.get("normalize").and_then(|b| b.as_bool()).unwrap_or(false);
                match serde_json::from_value::<Components>(j.clone()) {
                    Ok(c) => {
                        if normalize {
                            guarded(|| c.normalize())
                        } else {
                            Ok(c)
                        }
                    }
                    Err(e) => Err(json!({"err": "Json", "msg": e.to_string()})),
                }
            } else {
                Err(json!({"err": "NoInput"}))
            };
            match r {
                Ok(c) => {
                    out.insert("comps".into(), json!({"ok": dump_components(&c)}));
                    if wants("comps_display") {
                        out.insert("comps_display".into(), json!(c.to_string()));
                    }
                    if wants("comps_roundtrip") {
                        let text = c.to_string();
                        match guarded(|| text.parse::<Components>()) {
                            Ok(c2) => out.insert("comps_roundtrip".into(), json!({"ok": dump_components(&c2), "text2": c2.to_string()})),
                            Err(e) => out.insert("comps_roundtrip".into(), e),
                        };
                    }
                    if wants("normalize_twice") {
                        let c2 = c.clone();
                        match guarded(|| c2.normalize()) {
                            Ok(c2) => out.insert("normalize_twice".into(), json!({"ok": dump_components(&c2)})),
                            Err(e) => out.insert("normalize_twice".into(), e),
                        };
                    }
                    Some(c)
                }
                Err(e) => {
                    out.insert("comps".into(), e);
                    None
                }
            }
        }
    };

    // ---- factors
    let user = UserWF {
        red1: job.get("user").and_then(|u| u.get("red1")).and_then(parse_rnc),
        red2: job.get("user").and_then(|u| u.get("red2")).and_then(parse_rnc),
    };
    let factors: Option<Factors> = match job.get("factors") {
        None => None,
        Some(spec) => {
            let r = if let Some(t) = spec.get("text").and_then(|t| t.as_str()) {
                if spec.get("raw").and_then(|b| b.as_bool()).unwrap_or(false) {
                    guarded(|| t.parse::<Factors>())
                } else {
                    guarded(|| cte::wfactors_from_str(t, user, cte::CTE_USERWF))
                }
            } else if let Some(l) = spec.get("loc").and_then(|t| t.as_str()) {
                guarded(|| cte::wfactors_from_loc(l, &cte::CTE_LOCWF_RITE2014, user, cte::CTE_USERWF))
            } else if let Some(j) = spec.get("json") {
                let prepare = spec.get("prepare").and_then(|b| b.as_bool()).unwrap_or(false);
                match serde_json::from_value::<Factors>(j.clone()) {
                    Ok(f) => {
                        if prepare {
                            guarded(|| f.set_user_wfactors(user).normalize(&cte::CTE_USERWF))
                        } else {
                            Ok(f)
                        }
                    }
                    Err(e) => Err(json!({"err": "Json", "msg": e.to_string()})),
                }
            } else {
                Err(json!({"err": "NoInput"}))
            };
            match r {
                Ok(f) => {
                    out.insert("factors".into(), json!({"ok": dump_factors(&f)}));
                    if wants("factors_display") {
                        out.insert("factors_display".into(), json!(f.to_string()));
                    }
                    if wants("factors_roundtrip") {
                        let text = f.to_string();
                        match guarded(|| text.parse::<Factors>()) {
                            Ok(f2) => out.insert("factors_roundtrip".into(), json!({"ok": dump_factors(&f2), "text2": f2.to_string()})),
                            Err(e) => out.insert("factors_roundtrip".into(), e),
                        };
                    }
                    if wants("prepare_twice") {
                        let f2 = f.clone();
                        match guarded(|| f2.set_user_wfactors(user).normalize(&cte::CTE_USERWF)) {
                            Ok(f2) => out.insert("prepare_twice".into(), json!({"ok": dump_factors(&f2)})),
                            Err(e) => out.insert("prepare_twice".into(), e),
                        };
                    }
                    Some(f)
                }
                Err(e) => {
                    out.insert("factors".into(), e);
                    None
                }
            }
        }
    };

    // ---- strip
    let factors = match (&comps, factors) {
        (Some(c), Some(f)) if job.get("strip").and_then(|b| b.as_bool()).unwrap_or(false) => {
            match catch_unwind(AssertUnwindSafe(|| f.clone().strip(c))) {
                Ok(fs) => {
                    out.insert("stripped".into(), json!({"ok": dump_factors(&fs)}));
                    Some(fs)
                }
                Err(p) => {
                    out.insert("stripped".into(), panic_msg(p));
                    None
                }
            }
        }
        (_, f) => f,
    };

    // ---- energy performance (possibly several evaluations: list of [k_exp, area, lm])
    if let (Some(c), Some(f)) = (&comps, &factors) {
        if let Some(evals) = job.get("evals").and_then(|e| e.as_array()) {
            let mut res = Vec::new();
            for ev in evals {
                let k = f32_of(&ev[0], 0.0);
                let a = f32_of(&ev[1], 1.0);
                let lm = ev[2].as_bool().unwrap_or(false);
                let mut o = Map::new();
                match guarded(|| energy_performance(c, f, k, a, lm)) {
                    Ok(ep) => {
                        o.insert("ep".into(), json!({"ok": dump_ep(&ep)}));
                        if wants("acs") {
                            match guarded(|| cte::fraccion_renovable_acs_nrb(&ep)) {
                                Ok(x) => o.insert("acs".into(), json!({"ok": num(x)})),
                                Err(e) => o.insert("acs".into(), e),
                            };
                        }
                        if wants("render") {
                            let ep2 = match catch_unwind(AssertUnwindSafe(|| {
                                cte::incorpora_demanda_renovable_acs_nrb(ep.clone())
                            })) {
                                Ok(e) => e,
                                Err(_) => ep.clone(),
                            };
                            match catch_unwind(AssertUnwindSafe(|| ep2.to_plain())) {
                                Ok(s) => o.insert("plain".into(), json!(s)),
                                Err(p) => o.insert("plain".into(), panic_msg(p)),
                            };
                            match catch_unwind(AssertUnwindSafe(|| ep2.to_xml())) {
                                Ok(s) => o.insert("xml".into(), json!(s)),
                                Err(p) => o.insert("xml".into(), panic_msg(p)),
                            };
                            match catch_unwind(AssertUnwindSafe(|| serde_json::to_string_pretty(&ep2))) {
                                Ok(Ok(s)) => {
                                    // read back
                                    let back = serde_json::from_str::<EnergyPerformance>(&s);
                                    match back {
                                        Ok(b) => o.insert("json_back".into(), json!({"ok": dump_ep(&b)})),
                                        Err(e) => o.insert("json_back".into(), json!({"err": e.to_string()})),
                                    };
                                    o.insert("json".into(), json!(s));
                                    o.insert("ep_misc".into(), json!({"ok": dump_ep(&ep2)}));
                                }
                                Ok(Err(e)) => {
                                    o.insert("json".into(), json!({"err": e.to_string()}));
                                }
                                Err(p) => {
                                    o.insert("json".into(), panic_msg(p));
                                }
                            };
                        }
                    }
                    Err(e) => {
                        o.insert("ep".into(), e);
                    }
                }
                res.push(Value::Object(o));
            }
            out.insert("evals".into(), Value::Array(res));
        }
    }
    Value::Object(out)
}

fn dump_tables() -> Value {
    use Carrier::*;
    let carriers = [
        EAMBIENTE, BIOCARBURANTE, BIOMASA, BIOMASADENSIFICADA, CARBON, ELECTRICIDAD, GASNATURAL,
        GASOLEO, GLP, RED1, RED2, TERMOSOLAR,
    ];
    let services = Service::SERVICES_ALL;
    let psrcs = [ProdSource::EL_INSITU, ProdSource::EL_COGEN, ProdSource::TERMOSOLAR, ProdSource::EAMBIENTE];
    let srcs = [Source::RED, Source::INSITU, Source::COGEN];
    let dests = [Dest::SUMINISTRO, Dest::A_RED, Dest::A_NEPB];
    let steps = [Step::A, Step::B];
    let ctypes = [CType::CONSUMO, CType::PRODUCCION, CType::AUX, CType::SALIDA, CType::DEMANDA];
    let mut locs = Map::new();
    for loc in cte::CTE_LOCS {
        if let Some(f) = cte::CTE_LOCWF_RITE2014.get(loc) {
            locs.insert(loc.to_string(), dump_factors(f));
        }
    }
    let mut locs_prepared = Map::new();
    for loc in cte::CTE_LOCS {
        let user = UserWF { red1: None, red2: None };
        if let Ok(f) = cte::wfactors_from_loc(loc, &cte::CTE_LOCWF_RITE2014, user, cte::CTE_USERWF) {
            locs_prepared.insert(loc.to_string(), dump_factors(&f));
        }
    }
    json!({
        "carriers": carriers.iter().map(|c| json!({
            "name": c.to_string(), "is_nearby": c.is_nearby(), "is_onsite": c.is_onsite(),
            "parse_ok": c.to_string().parse::<Carrier>().map(|x| x == *c).unwrap_or(false),
            "priorities": {
                "has": ProdSource::get_priorities(*c).0,
                "list": ProdSource::get_priorities(*c).1.iter().map(|p| p.to_string()).collect::<Vec<_>>()
            }
        })).collect::<Vec<_>>(),
        "services": services.iter().map(|s| json!({
            "name": s.to_string(), "is_epb": s.is_epb(), "is_nepb": s.is_nepb(), "is_cogen": s.is_cogen(),
            "parse_ok": s.to_string().parse::<Service>().map(|x| x == *s).unwrap_or(false),
        })).collect::<Vec<_>>(),
        "prodsources": psrcs.iter().map(|p| json!({
            "name": p.to_string(), "carrier": Carrier::from(*p).to_string(), "source": Source::from(*p).to_string(),
            "parse_ok": p.to_string().parse::<ProdSource>().map(|x| x == *p).unwrap_or(false),
        })).collect::<Vec<_>>(),
        "sources": srcs.iter().map(|s| json!({"name": s.to_string(),
            "parse_ok": s.to_string().parse::<Source>().map(|x| x == *s).unwrap_or(false)})).collect::<Vec<_>>(),
        "dests": dests.iter().map(|s| json!({"name": s.to_string(),
            "parse_ok": s.to_string().parse::<Dest>().map(|x| x == *s).unwrap_or(false)})).collect::<Vec<_>>(),
        "steps": steps.iter().map(|s| json!({"name": s.to_string(),
            "parse_ok": s.to_string().parse::<Step>().map(|x| x == *s).unwrap_or(false)})).collect::<Vec<_>>(),
        "ctypes": ctypes.iter().map(|s| json!({"name": s.to_string(),
            "parse_ok": s.to_string().parse::<CType>().map(|x| x == *s).unwrap_or(false)})).collect::<Vec<_>>(),
        "arearef_default": num(cte::AREAREF_DEFAULT),
        "kexp_default": num(cte::KEXP_DEFAULT),
        "userwf_default": {"red1": rnc(&cte::CTE_USERWF.red1), "red2": rnc(&cte::CTE_USERWF.red2)},
        "locs": cte::CTE_LOCS.iter().map(|s| s.to_string()).collect::<Vec<_>>(),
        "locwf": Value::Object(locs),
        "locwf_prepared": Value::Object(locs_prepared),
    })
}

fn main() {
    // silence the default panic hook: panics are data here
    std::panic::set_hook(Box::new(|_| {}));
    let stdin = std::io::stdin();
    let stdout = std::io::stdout();
    let mut real_out = stdout.lock();
    for line in stdin.lock().lines() {
        let line = match line {
            Ok(l) => l,
            Err(_) => break,
        };
        if line.trim().is_empty() {
            continue;
        }
        let res = match serde_json::from_str::<Value>(&line) {
            Ok(job) => match catch_unwind(AssertUnwindSafe(|| run_job(&job))) {
                Ok(v) => v,
                Err(p) => json!({"id": job.get("id"), "runner_panic": panic_msg(p)}),
            },
            Err(e) => json!({"runner_error": e.to_string()}),
        };
        // the library prints debug noise on stdout; result lines carry a unique prefix
        let _ = writeln!(real_out, "@@RESULT@@{}", res);
        let _ = real_out.flush();
    }
}
