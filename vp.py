#!/usr/bin/env python3
"""cteepbd verification driver.

  vp.py setup                      build runner, cteepbd binary and the whole Coq development
  vp.py check <Cnn> [--tier quick|thorough]
  vp.py replay <replay.json>       re-run a recorded runner job against /repo's current tree

Environment: VERIF_SEED (int), VERIF_TIER, VERIF_REPO (scratch copy of the repository, self-test only).
"""
import importlib
import json
import os
import sys

sys.path.insert(0, os.path.dirname(os.path.abspath(__file__)))
from lib import core  # noqa: E402


def cmd_setup():
    t = core.build_runner()
    core.log("runner built in %.1fs" % t)
    core.build_cli()
    rc, out = core.coq_make(None, timeout=3000)
    if rc != 0:
        print(out[-3000:])
        return 1
    core.log("coq development built")
    return 0


def cmd_check(prop, tier):
    seed = os.environ.get("VERIF_SEED", "0")
    try:
        seed = int(seed)
    except ValueError:
        seed = abs(hash(seed)) % (2 ** 31)
    mod = importlib.import_module("lib.props.%s" % prop.lower())
    return mod.run(tier, seed)


def cmd_replay(path):
    j = json.load(open(path))
    job = j.get("runner_job")
    if not job:
        print(json.dumps(j, indent=1)[:4000])
        return 0
    core.build_runner()
    res = core.run_jobs([job])[0]
    print(json.dumps(res, indent=1)[:20000])
    return 0


def main(argv):
    if len(argv) < 2:
        print(__doc__)
        return 2
    if argv[1] == "setup":
        return cmd_setup()
    if argv[1] == "check":
        prop = argv[2]
        tier = os.environ.get("VERIF_TIER", "quick")
        if "--tier" in argv:
            tier = argv[argv.index("--tier") + 1]
        return cmd_check(prop, tier)
    if argv[1] == "replay":
        return cmd_replay(argv[2])
    print(__doc__)
    return 2


if __name__ == "__main__":
    sys.exit(main(sys.argv))
