#!/usr/bin/env python3
"""cteepbd verification driver.

  vp.py setup                      build runner, cteepbd binary and the whole Coq development
  vp.py check <Cnn> [--tier quick|thorough]
  vp.py replay <replay.json>       re-run a recorded runner job against /repo's current tree

Environment: VERIF_SEED (int), VERIF_TIER, VERIF_REPO (scratch copy of the repository, self-test only).
"""
import importlib
import json
import os
import sys

sys.path.insert(0, os.path.dirname(os.path.abspath(__file__)))
from lib import core  # noqa: E402


def cmd_setup():
    t = core.build_runner()
    core.log("runner built in %.1fs" % t)
    core.build_cli()
    rc, out = core.coq_make(None, timeout=3000)
    if rc != 0:
        print(out[-3000:])
        return 1
    core.log("coq development built")
    return 0


def cmd_check(prop, tier):
    seed = os.environ.get("VERIF_SEED", "0")
    try:
        seed = int(seed)
    except ValueError:
        seed = abs(hash(seed)) % (2 ** 31)
    mod = importlib.import_module("lib.props.%s" % prop.lower())
    try:
        return mod.run(tier, seed)
    except Exception:
        # the machinery itself failed on what the implementation answered (an answer of a shape it has never seen): the property is
        # not shown to hold by this run; say so in the interface's terms instead of dying without a VIOLATION line
        import traceback
        tb = traceback.format_exc()
        path = core.write_replay(prop, {"property": prop, "what": "the check could not be completed: its harness failed on the implementation's answers",
                                        "no_longer_checks": "harness of lib/props/%s.py (traceback below)" % prop.lower(), "traceback": tb[-4000:],
                                        "tier": tier, "seed": seed})
        sys.stderr.write(tb)
        print("VIOLATION property=%s replay=%s no-failing-input-found" % (prop, path))
        return 1


def cmd_replay(path):
    """prints the recorded failure and re-runs its input against /repo's current tree: the in-process job through the runner,
    the command line through the cteepbd binary"""
    j = json.load(open(path))
    print("recorded:", json.dumps({k: v for k, v in j.items() if k in ("property", "what", "detail", "no_longer_checks")}, indent=1, ensure_ascii=False)[:3000])
    job = j.get("runner_job") or j.get("job")
    if isinstance(job, dict):
        core.build_runner()
        res = core.run_jobs([dict(job, id="replay")])[0]
        print("runner answer now:", json.dumps(res, ensure_ascii=False)[:6000])
    if isinstance(j.get("args"), list) and isinstance(j.get("components"), str):
        from lib import cliflow
        core.build_cli()
        d = cliflow.workdir("replay")
        try:
            open(os.path.join(d, "c.csv"), "w", encoding="utf-8", errors="surrogatepass").write(j["components"])
            if isinstance(j.get("factors"), str):
                open(os.path.join(d, "f.csv"), "w", encoding="utf-8", errors="surrogatepass").write(j["factors"])
            args, skip = [], False
            for a in j["args"]:
                a = a.replace("<dir>", d)
                args.append(a)
            # the first -c / -f arguments point at the recorded files
            for i, a in enumerate(args):
                if a == "-c" and i + 1 < len(args):
                    args[i + 1] = os.path.join(d, "c.csv")
                if a == "-f" and i + 1 < len(args):
                    args[i + 1] = os.path.join(d, "f.csv")
            r = cliflow.run_cli(args, d, timeout=30)
            print("binary now: exit=%s hang=%s stderr=%s" % (r["exit"], r["hang"], r["stderr"][-800:]))
        finally:
            cliflow.cleanup(d)
    if not isinstance(job, dict) and "args" not in j:
        print(json.dumps(j, indent=1, ensure_ascii=False)[:6000])
    return 0


def main(argv):
    if len(argv) < 2:
        print(__doc__)
        return 2
    if argv[1] == "setup":
        return cmd_setup()
    if argv[1] == "check":
        prop = argv[2]
        tier = os.environ.get("VERIF_TIER", "quick")
        if "--tier" in argv:
            tier = argv[argv.index("--tier") + 1]
        return cmd_check(prop, tier)
    if argv[1] == "replay":
        return cmd_replay(argv[2])
    print(__doc__)
    return 2


if __name__ == "__main__":
    sys.exit(main(sys.argv))
