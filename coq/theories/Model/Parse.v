(** * Reading and writing the text formats of components and weighting factors

    Strings are sequences of characters (code points, [list N]).  Mirrors the [FromStr] / [Display] pairs of
    src/components.rs, src/types/energy/{used,prod,aux,out}.rs, src/types/needs/mod.rs, src/types/tmeta.rs,
    src/types/factor.rs, src/wfactors.rs and the std routines they rely on ([str::trim], [split], [splitn],
    [lines], [i32::from_str], [f32::from_str]).

    Every indexing or slicing operation of the code is written with an explicit bound test whose failure is
    the outcome [PPanic]; that no input reaches it is a theorem (Props/C16.v), not a convention. *)
From Coq Require Import String List NArith ZArith QArith Qcanon Bool.
From Cteepbd Require Import Base.Num Model.Types Model.Components Model.Dump Model.Text.
Import ListNotations.
Open Scope list_scope. Open Scope N_scope.

(** ** outcomes *)
Inductive pres (T : Type) :=
| POk (x : T)
| PErr (k : errkind)
| PNonFinite          (* accepted, but a number is inf / NaN: outside the rational model *)
| PPanic.
Arguments POk {T} x. Arguments PErr {T} k. Arguments PNonFinite {T}. Arguments PPanic {T}.
Definition pbind {A B} (r : pres A) (f : A -> pres B) : pres B :=
  match r with POk x => f x | PErr k => PErr k | PNonFinite => PNonFinite | PPanic => PPanic end.
Notation "'dop' x <- r ; k" := (pbind r (fun x => k)) (at level 200, x name, r at level 100, k at level 200).
Definition of_res {T} (r : res T) : pres T := match r with Ok x => POk x | Err k => PErr k end.

Definition idx {T} (l : list T) (i : nat) : pres T := match nth_error l i with Some x => POk x | None => PPanic end.
Definition slice_from {T} (l : list T) (i : nat) : pres (list T) := if (i <=? length l)%nat then POk (skipn i l) else PPanic.

(** ** std string routines *)
Definition cs (s : string) : str := bs s.          (* ASCII literals: bytes are characters *)
Fixpoint str_eqb (a b : str) : bool :=
  match a, b with [], [] => true | x :: a', y :: b' => (x =? y) && str_eqb a' b' | _, _ => false end.
Fixpoint starts_with (p s : str) : bool :=
  match p, s with [], _ => true | x :: p', y :: s' => (x =? y) && starts_with p' s' | _ :: _, [] => false end.

(** Unicode White_Space *)
Definition is_ws (c : N) : bool :=
  ((9 <=? c) && (c <=? 13)) || (c =? 32) || (c =? 133) || (c =? 160) || (c =? 5760)
  || ((8192 <=? c) && (c <=? 8202)) || (c =? 8232) || (c =? 8233) || (c =? 8239) || (c =? 8287) || (c =? 12288).
Fixpoint trim_start (s : str) : str := match s with c :: r => if is_ws c then trim_start r else s | [] => [] end.
Definition trim_end (s : str) : str := rev (trim_start (rev s)).
Definition trim (s : str) : str := trim_end (trim_start s).

(** [split(c)]: at least one piece *)
Fixpoint split_on (c : N) (s : str) : list str :=
  match s with
  | [] => [[]]
  | x :: r => if x =? c then [] :: split_on c r
              else match split_on c r with p :: ps => (x :: p) :: ps | [] => [[x]] end
  end.
(** [splitn(2, c)] *)
Fixpoint break_at (c : N) (s : str) : str * option str :=
  match s with
  | [] => ([], None)
  | x :: r => if x =? c then ([], Some r) else let (a, b) := break_at c r in (x :: a, b)
  end.
(** [lines()]: pieces ended by LF lose the LF and one CR before it; a last piece without LF is kept if not empty *)
Definition strip_cr (l : str) : str := match rev l with c :: r => if c =? 13 then rev r else l | [] => l end.
Fixpoint lines_of (pieces : list str) : list str :=
  match pieces with
  | [] => []
  | [lastp] => match lastp with [] => [] | _ => [lastp] end
  | p :: rest => strip_cr p :: lines_of rest
  end.
Definition lines (s : str) : list str := lines_of (split_on 10 s).

(** ** numbers *)
Definition digit_val (c : N) : option N := if (48 <=? c) && (c <=? 57) then Some (c - 48) else None.
Fixpoint digits_val (s : str) (acc : N) : option N :=
  match s with [] => Some acc | c :: r => match digit_val c with Some d => digits_val r (10 * acc + d) | None => None end end.

(** [i32::from_str] *)
Definition parse_i32 (s : str) : option Z :=
  match s with
  | [] => None
  | c :: r =>
      let '(neg, ds) := if c =? 45 then (true, r) else if c =? 43 then (false, r) else (false, s) in
      match ds with
      | [] => None
      | _ => match digits_val ds 0 with
             | Some n => let z := if neg then (- Z.of_N n)%Z else Z.of_N n in
                         if ((-2147483648 <=? z) && (z <=? 2147483647))%Z then Some z else None
             | None => None
             end
      end
  end.

Inductive fval := Fin (q : Qc) | FInf (neg : bool) | FNaN.
Definition lower (c : N) : N := if (65 <=? c) && (c <=? 90) then c + 32 else c.
Fixpoint take_digits (s : str) : str * str :=
  match s with
  | c :: r => match digit_val c with Some _ => let (d, rest) := take_digits r in (c :: d, rest) | None => ([], s) end
  | [] => ([], [])
  end.
Definition dec_of (ds : str) : N := match digits_val ds 0 with Some n => n | None => 0 end.
Definition qpow10 (e : Z) : Qc := if (0 <=? e)%Z then qz (10 ^ e) else (1 / qz (10 ^ (- e)))%Qc.
Definition two128 : Qc := qz (2 ^ 128).

(** [f32::from_str]: [sign] (inf | infinity | nan | digits [. digits] [e [sign] digits]), at least one mantissa digit;
    the decimal is rounded to the nearest f32, overflowing to infinity.  Exponents beyond +-400 are not
    evaluated (the result is infinite or zero for any mantissa of fewer than 300 digits). *)
Definition parse_exp (r2 : str) : option Z :=
  match r2 with
  | [] => Some 0%Z
  | e :: r3 =>
      if (e =? 101) || (e =? 69) then
        match r3 with
        | [] => None
        | c3 :: r4 =>
            let '(eneg, eds) := if c3 =? 45 then (true, r4) else if c3 =? 43 then (false, r4) else (false, r3) in
            match eds with
            | [] => None
            | _ => match digits_val eds 0 with
                   | Some n => Some (if eneg then (- Z.of_N n)%Z else Z.of_N n)
                   | None => None
                   end
            end
        end
      else None
  end.

(** the f32 nearest to m * 10^e, with the sign *)
Definition f32_of_decimal (neg : bool) (m : N) (e : Z) : fval :=
  if m =? 0 then Fin 0%Qc
  else if (400 <? e)%Z then FInf neg
  else if (e <? -400)%Z then Fin 0%Qc
  else
    let v := f32round (qz (Z.of_N m) * qpow10 e)%Qc in
    if qleb two128 v then FInf neg else Fin (if neg then (- v)%Qc else v).

Definition parse_mant (neg : bool) (body : str) : option fval :=
  let lb := map lower body in
  if str_eqb lb (cs "inf") || str_eqb lb (cs "infinity") then Some (FInf neg)
  else if str_eqb lb (cs "nan") then Some FNaN
  else
    let (ip, r1) := take_digits body in
    let '(fp, r2) := match r1 with c1 :: r1' => if c1 =? 46 then take_digits r1' else ([], r1) | [] => ([], []) end in
    match ip ++ fp with
    | [] => None
    | _ => match parse_exp r2 with
           | None => None
           | Some e => Some (f32_of_decimal neg (dec_of (ip ++ fp)) (e - Z.of_nat (length fp)))
           end
    end.

Definition parse_f32 (s : str) : option fval :=
  match s with
  | [] => None
  | c :: r => if c =? 45 then parse_mant true r else if c =? 43 then parse_mant false r else parse_mant false s
  end.

(** a list of number tokens as energies: any unreadable token is an error, any non-finite value leaves the model *)
Fixpoint parse_values (items : list str) : pres (list Qc) :=
  match items with
  | [] => POk []
  | t :: r =>
      match parse_f32 t with
      | None => PErr ParseError
      | Some v => dop vs <- parse_values r;
                  match v with Fin q => POk (q :: vs) | _ => PNonFinite end
      end
  end.
(** the code converts every token first and fails on the first unreadable one: an unreadable token anywhere is
    an error even if an earlier one is not finite *)
Definition parse_values' (items : list str) : pres (list Qc) :=
  if forallb (fun t => match parse_f32 t with Some _ => true | None => false end) items then parse_values items
  else PErr ParseError.

(** ** names *)
Definition parse_name {T} (names : list (string * T)) (s : str) : option T :=
  match find (fun p => str_eqb (cs (fst p)) s) names with Some p => Some (snd p) | None => None end.
Definition parse_ctype := parse_name (map (fun c => (ctype_name c, c)) [CONSUMO; PRODUCCION; CT_AUX; SALIDA; DEMANDA]).
Definition parse_service := parse_name (map (fun c => (service_name c, c)) all_services).
Definition parse_carrier := parse_name (map (fun c => (carrier_name c, c)) all_carriers).
Definition parse_prodsource := parse_name (map (fun c => (prodsource_name c, c)) all_prodsources).
Definition parse_source := parse_name (map (fun c => (source_name c, c)) [RED; INSITU; SRC_COGEN]).
Definition parse_dest := parse_name (map (fun c => (dest_name c, c)) [SUMINISTRO; A_RED; A_NEPB]).
Definition parse_step := parse_name (map (fun c => (step_name c, c)) [STEP_A; STEP_B]).
Definition ctype_is (c : CType) (s : str) : bool :=
  match parse_ctype s with Some c' => str_eqb (cs (ctype_name c)) (cs (ctype_name c')) | None => false end.
Definition need (T : Type) (o : option T) : pres T := match o with Some x => POk x | None => PErr ParseError end.
Arguments need {T} o.

(** ** lines *)
(** the part before the first [#], split at commas, every field trimmed; and the trimmed comment *)
Definition fields (s : str) : list str * str :=
  let (a, b) := break_at 35 (trim s) in
  (map trim (split_on 44 (trim a)), match b with Some c => trim c | None => [] end).

Definition id_and_base (items : list str) : pres (nat * Z) :=
  dop i0 <- idx items 0;
  match parse_i32 i0 with Some z => POk (1%nat, z) | None => POk (0%nat, 0%Z) end.

Definition parse_used (s : str) : pres Energy :=
  let (items, comment) := fields s in
  if (length items <? 4)%nat then PErr ParseError else
  dop bi <- id_and_base items;
  let (b, id) := bi in
  dop t <- idx items b;
  if negb (ctype_is CONSUMO t) then PErr ParseError else
  dop ts <- idx items (b + 1);
  dop srv <- need (parse_service ts);
  dop tc <- idx items (b + 2);
  dop cr <- need (parse_carrier tc);
  dop tv <- slice_from items (b + 3);
  dop vals <- parse_values' tv;
  POk (EUsed id cr srv vals comment).

Definition parse_prod (s : str) : pres Energy :=
  let (items, comment) := fields s in
  if (length items <? 3)%nat then PErr ParseError else
  dop bi <- id_and_base items;
  let (b, id) := bi in
  dop t <- idx items b;
  if negb (ctype_is PRODUCCION t) then PErr ParseError else
  dop ts <- idx items (b + 1);
  dop src <- need (parse_prodsource ts);
  dop tv <- slice_from items (b + 2);
  dop vals <- parse_values' tv;
  POk (EProd id src vals comment).

Definition parse_aux (s : str) : pres Energy :=
  let (items, comment) := fields s in
  if (length items <? 2)%nat then PErr ParseError else
  dop bi <- id_and_base items;
  let (b, id) := bi in
  dop t <- idx items b;
  if negb (ctype_is CT_AUX t) then PErr ParseError else
  dop tv <- slice_from items (b + 1);
  dop vals <- parse_values' tv;
  POk (EAux id NEPB vals comment).

Definition parse_out (s : str) : pres Energy :=
  let (items, comment) := fields s in
  if (length items <? 4)%nat then PErr ParseError else
  dop t <- idx items 1;
  if negb (ctype_is SALIDA t) then PErr ParseError else
  dop t0 <- idx items 0;
  dop id <- need (parse_i32 t0);
  dop ts <- idx items 2;
  dop srv <- need (parse_service ts);
  if negb (srv_is_epb srv) then PErr ParseError else
  dop tv <- slice_from items 3;
  dop vals <- parse_values' tv;
  POk (EOut id srv vals comment).

Definition parse_need (s : str) : pres (Service * list Qc) :=
  let (items, _) := fields s in
  if (length items <? 3)%nat then PErr ParseError else
  dop t <- idx items 0;
  if negb (ctype_is DEMANDA t) then PErr ParseError else
  dop ts <- idx items 1;
  dop srv <- need (parse_service ts);
  if negb (match srv with CAL | REF | ACS => true | _ => false end) then PErr ParseError else
  dop tv <- slice_from items 2;
  dop vals <- parse_values' tv;
  POk (srv, vals).

(** [Meta::from_str]: [s.trim()[5..]] — slicing at byte 5 panics unless the first five bytes are characters *)
Definition legacy_key (k : str) : str :=
  if str_eqb k (cs "Localizacion") then cs "CTE_LOCALIZACION"
  else if str_eqb k (cs "Area_ref") then cs "CTE_AREAREF"
  else if str_eqb k (cs "kexp") then cs "CTE_KEXP" else k.
Definition is_ascii (c : N) : bool := c <? 128.
Definition parse_meta (s : str) : pres Meta :=
  let t := trim s in
  if negb ((5 <=? length t)%nat && forallb is_ascii (firstn 5 t)) then PPanic else
  match break_at 58 (skipn 5 t) with
  | (a, Some b) => POk (mkMeta (legacy_key (trim (trim a))) (trim (trim b)))
  | (_, None) => PErr ParseError
  end.

Definition parse_factor (s : str) : pres Factor :=
  let (items, comment) := fields s in
  if (length items <? 7)%nat then PErr ParseError else
  dop t0 <- idx items 0; dop cr <- need (parse_carrier t0);
  dop t1 <- idx items 1; dop src <- need (parse_source t1);
  dop t2 <- idx items 2; dop dst <- need (parse_dest t2);
  dop t3 <- idx items 3; dop stp <- need (parse_step t3);
  dop t4 <- idx items 4; dop r <- need (parse_f32 t4);
  dop t5 <- idx items 5; dop n <- need (parse_f32 t5);
  dop t6 <- idx items 6; dop c <- need (parse_f32 t6);
  match r, n, c with
  | Fin r', Fin n', Fin c' => POk (mkFactor cr src dst stp (mkRNC r' n' c') comment)
  | _, _, _ => PNonFinite
  end.

(** ** files *)
Definition is_meta_line (l : str) : bool := starts_with (cs "#META") l || starts_with (cs "#CTE_") l.
Definition is_data_line (l : str) : bool :=
  negb (starts_with [35] l || starts_with (cs "vector,") l || match l with [] => true | _ => false end).

Fixpoint pmap {A B} (f : A -> pres B) (l : list A) : pres (list B) :=
  match l with [] => POk [] | x :: r => dop y <- f x; dop ys <- pmap f r; POk (y :: ys) end.

(** first two of [splitn(3, ',')], trimmed; ["", ""] unless there are at least two pieces *)
Definition two_tags (line : str) : str * str :=
  match break_at 44 line with
  | (a, Some r) => let (b, _) := break_at 44 r in (trim a, trim b)
  | (_, None) => ([], [])
  end.

Definition vecadd (a b : list Qc) : list Qc := map (fun p => (fst p + snd p)%Qc) (combine a b).
Definition needs_add (nd : Needs) (srv : Service) (v : list Qc) : pres Needs :=
  let cur := match srv with ACS => nd_ACS nd | CAL => nd_CAL nd | REF => nd_REF nd | _ => None end in
  match cur with
  | Some c => if negb (length c =? length v)%nat then PErr WrongInput else
              let s := Some (vecadd c v) in
              match srv with
              | ACS => POk (mkNeeds s (nd_CAL nd) (nd_REF nd))
              | CAL => POk (mkNeeds (nd_ACS nd) s (nd_REF nd))
              | REF => POk (mkNeeds (nd_ACS nd) (nd_CAL nd) s)
              | _ => PErr WrongInput
              end
  | None => match srv with
            | ACS => POk (mkNeeds (Some v) (nd_CAL nd) (nd_REF nd))
            | CAL => POk (mkNeeds (nd_ACS nd) (Some v) (nd_REF nd))
            | REF => POk (mkNeeds (nd_ACS nd) (nd_CAL nd) (Some v))
            | _ => PErr WrongInput
            end
  end.

Fixpoint parse_data_lines (ls : list str) (data : list Energy) (nd : Needs) : pres (list Energy * Needs) :=
  match ls with
  | [] => POk (rev data, nd)
  | l :: rest =>
      let (t1, t2) := two_tags l in
      match (match parse_ctype t1 with Some c => Some c | None => parse_ctype t2 end) with
      | None => PErr ParseError
      | Some CONSUMO => dop e <- parse_used l; parse_data_lines rest (e :: data) nd
      | Some PRODUCCION => dop e <- parse_prod l; parse_data_lines rest (e :: data) nd
      | Some CT_AUX => dop e <- parse_aux l; parse_data_lines rest (e :: data) nd
      | Some SALIDA => dop e <- parse_out l; parse_data_lines rest (e :: data) nd
      | Some DEMANDA => dop sv <- parse_need l; dop nd' <- needs_add nd (fst sv) (snd sv); parse_data_lines rest data nd'
      end
  end.

Definition strip_bom (s : str) : str := match s with c :: r => if c =? 65279 then r else s | [] => [] end.

Definition parse_components (s : str) : pres Components :=
  let ls := map trim (lines (strip_bom s)) in
  dop metas <- pmap parse_meta (filter is_meta_line ls);
  dop dn <- parse_data_lines (filter is_data_line ls) [] (mkNeeds None None None);
  let (data, nd) := dn in
  let n0 := match data with e :: _ => length (e_vals e) | [] => 12%nat end in
  if negb (forallb (fun e => (length (e_vals e) =? n0)%nat) data) then PErr ParseError else
  of_res (normalize (mkComponents metas data nd)).

Definition parse_factors (s : str) : pres Factors :=
  let ls := map trim (lines s) in
  dop metas <- pmap parse_meta (filter is_meta_line ls);
  dop fs <- pmap parse_factor (filter is_data_line ls);
  POk (mkFactors metas fs).

(** ** writing *)
Definition sp_join (v : list Qc) (d : nat) : str := join (cs ", ") (map (fmt_fixed d) v).
Definition show_comment (c : str) : str := match c with [] => [] | _ => cs " # " ++ c end.
Definition show_energy (e : Energy) : str :=
  match e with
  | EUsed i cr srv v c => sdec i ++ cs ", CONSUMO, " ++ cs (service_name srv) ++ cs ", " ++ cs (carrier_name cr) ++ cs ", "
                          ++ sp_join v 2 ++ show_comment c
  | EProd i src v c => sdec i ++ cs ", PRODUCCION, " ++ cs (prodsource_name src) ++ cs ", " ++ sp_join v 2 ++ show_comment c
  | EAux i _ v c => sdec i ++ cs ", AUX, " ++ sp_join v 2 ++ show_comment c
  | EOut i srv v c => sdec i ++ cs ", SALIDA, " ++ cs (service_name srv) ++ cs ", " ++ sp_join v 2 ++ show_comment c
  end.
Definition show_meta (m : Meta) : str := cs "#META " ++ m_key m ++ cs ": " ++ m_value m.
Definition show_need (name : string) (o : option (list Qc)) : str :=
  match o with Some v => [10] ++ cs "DEMANDA, " ++ cs name ++ cs ", " ++ sp_join v 2 | None => [] end.
Definition show_components (c : Components) : str :=
  join [10] (map show_meta (c_meta c)) ++ [10] ++ join [10] (map show_energy (c_data c))
  ++ show_need "ACS" (nd_ACS (c_needs c)) ++ show_need "CAL" (nd_CAL (c_needs c)) ++ show_need "REF" (nd_REF (c_needs c)).
Definition show_factor (f : Factor) : str :=
  cs (carrier_name (f_cr f)) ++ cs ", " ++ cs (source_name (f_src f)) ++ cs ", " ++ cs (dest_name (f_dest f)) ++ cs ", "
  ++ cs (step_name (f_step f)) ++ cs ", " ++ fmt_fixed 3 (ren (f_val f)) ++ cs ", " ++ fmt_fixed 3 (nren (f_val f)) ++ cs ", "
  ++ fmt_fixed 3 (co2 (f_val f)) ++ show_comment (f_cmt f).
Definition show_factors (f : Factors) : str :=
  join [10] (map show_meta (wmeta f)) ++ [10] ++ join [10] (map show_factor (wdata f)).
