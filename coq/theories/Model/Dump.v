(** * Flattening model results into (path, numerator, denominator) rows

    Paths mirror the JSON emitted by the correspondence runner (/verif/runner), so that
    the comparator is a generic key-by-key diff. *)
From Coq Require Import String DecimalString.
From Cteepbd Require Export Model.Balance Model.Cte.
Open Scope string_scope.
Open Scope Qc_scope.

Definition carrier_name (c : Carrier) : string :=
  match c with EAMBIENTE => "EAMBIENTE" | BIOCARBURANTE => "BIOCARBURANTE" | BIOMASA => "BIOMASA"
  | BIOMASADENSIFICADA => "BIOMASADENSIFICADA" | CARBON => "CARBON" | ELECTRICIDAD => "ELECTRICIDAD"
  | GASNATURAL => "GASNATURAL" | GASOLEO => "GASOLEO" | GLP => "GLP" | RED1 => "RED1" | RED2 => "RED2"
  | TERMOSOLAR => "TERMOSOLAR" end.
Definition service_name (s : Service) : string :=
  match s with ACS => "ACS" | CAL => "CAL" | REF => "REF" | VEN => "VEN" | ILU => "ILU" | NEPB => "NEPB" | COGEN => "COGEN" end.
Definition prodsource_name (p : ProdSource) : string :=
  match p with EL_INSITU => "EL_INSITU" | EL_COGEN => "EL_COGEN" | PS_TERMOSOLAR => "TERMOSOLAR" | PS_EAMBIENTE => "EAMBIENTE" end.
Definition source_name (s : Source) : string :=
  match s with RED => "RED" | INSITU => "INSITU" | SRC_COGEN => "COGEN" end.
Definition dest_name (d : Dest) : string :=
  match d with SUMINISTRO => "SUMINISTRO" | A_RED => "A_RED" | A_NEPB => "A_NEPB" end.
Definition step_name (s : Step) : string := match s with STEP_A => "A" | STEP_B => "B" end.
Definition ctype_name (c : CType) : string :=
  match c with CONSUMO => "CONSUMO" | PRODUCCION => "PRODUCCION" | CT_AUX => "AUX" | SALIDA => "SALIDA" | DEMANDA => "DEMANDA" end.

Definition nat_str (n : nat) : string := NilZero.string_of_uint (Nat.to_uint n).

Definition row := (string * Qc)%type.
Definition pre (p : string) (rs : list row) : list row := map (fun r => (p ++ "/" ++ fst r, snd r)) rs.
Definition sc (name : string) (v : Qc) : list row := [(name, v)].
Fixpoint vec_rows_from (i : nat) (v : list Qc) : list row :=
  match v with [] => [] | x :: v => (nat_str i, x) :: vec_rows_from (S i) v end.
Definition vc (name : string) (v : list Qc) : list row := pre name (vec_rows_from 0 v).
Definition rn (name : string) (r : RNC) : list row := pre name [("0", ren r); ("1", nren r); ("2", co2 r)].
Definition opt_sc (name : string) (o : option Qc) : list row := match o with Some v => sc name v | None => [] end.

Definition dump_balcr (b : BalCr) : list row :=
  let x := bc_ctx b in let w := bc_we b in
  let srvs := srvs_present x in let srcs := srcs_present x in
  vc "f_match" (vec x s_f)
  ++ pre "used" (
       vc "epus_t" (vec x s_u)
    ++ pre "epus_by_srv_t" (flat_map (fun v => vc (service_name v) (vec x (fun s => s_srv s v))) srvs)
    ++ sc "epus_an" (a_epus x)
    ++ pre "epus_by_srv_an" (flat_map (fun v => sc (service_name v) (a_epus_srv x v)) srvs)
    ++ vc "nepus_t" (vec x s_ne) ++ sc "nepus_an" (a_nepus x)
    ++ vc "cgnus_t" (vec x s_cg) ++ sc "cgnus_an" (a_cgnus x))
  ++ pre "prod" (
       vc "t" (vec x s_p) ++ sc "an" (a_prod x)
    ++ pre "by_src_t" (flat_map (fun j => vc (prodsource_name j) (vec x (fun s => s_psrc s j))) srcs)
    ++ pre "by_src_an" (flat_map (fun j => sc (prodsource_name j) (a_prod_src x j)) srcs)
    ++ vc "epus_t" (vec x s_used) ++ sc "epus_an" (a_used x)
    ++ pre "epus_by_src_t" (flat_map (fun j => vc (prodsource_name j) (vec x (fun s => s_used_src s j))) srcs)
    ++ pre "epus_by_src_an" (flat_map (fun j => sc (prodsource_name j) (a_used_src x j)) srcs)
    ++ pre "epus_by_srv_by_src_t" (flat_map (fun j => pre (prodsource_name j)
          (flat_map (fun v => vc (service_name v) (vec x (fun s => s_used_src_srv s j v))) srvs)) srcs)
    ++ pre "epus_by_srv_by_src_an" (flat_map (fun j => pre (prodsource_name j)
          (flat_map (fun v => sc (service_name v) (a_used_src_srv x j v)) srvs)) srcs))
  ++ pre "exp" (
       vc "t" (vec x s_exp) ++ sc "an" (a_exp x)
    ++ vc "grid_t" (vec x s_exp_grid) ++ sc "grid_an" (a_exp_grid x)
    ++ vc "nepus_t" (vec x s_exp_ne) ++ sc "nepus_an" (a_exp_ne x)
    ++ pre "by_src_t" (flat_map (fun j => vc (prodsource_name j) (vec x (fun s => s_exp_src s j))) srcs)
    ++ pre "by_src_an" (flat_map (fun j => sc (prodsource_name j) (a_exp_src x j)) srcs))
  ++ pre "del" (
       sc "an" (a_del x) ++ vc "grid_t" (vec x s_del_grid) ++ sc "grid_an" (a_del_grid x)
    ++ vc "onst_t" (vec x s_del_onst) ++ sc "onst_an" (a_del_onst x)
    ++ vc "cgn_t" (vec x s_cg) ++ sc "cgn_an" (a_cgnus x))
  ++ pre "we" (
       rn "b" (we_b w) ++ pre "b_by_srv" (flat_map (fun s => rn (service_name s) (we_b_srv b s)) srvs)
    ++ rn "a" (we_a w) ++ pre "a_by_srv" (flat_map (fun s => rn (service_name s) (we_a_srv b s)) srvs)
    ++ rn "del" (we_del w) ++ rn "del_grid" (we_del_grid w) ++ rn "del_onst" (we_del_onst w)
    ++ rn "del_cgn" (we_del_cgn w) ++ rn "exp" (we_exp w) ++ rn "exp_a" (we_exp_a w)
    ++ rn "exp_nepus_a" (we_exp_nepus_a w) ++ rn "exp_grid_a" (we_exp_grid_a w)
    ++ rn "exp_nepus_ab" (we_exp_nepus_ab w) ++ rn "exp_grid_ab" (we_exp_grid_ab w)
    ++ rn "exp_ab" (we_exp_ab w)).

Definition nz_cr (ep : EP) (f : BalCr -> Qc) : list row :=
  flat_map (fun b => if qeqb (f b) 0 then [] else sc (carrier_name (cx_cr (bc_ctx b))) (f b)) (ep_bal ep).

(** the absolute balance *)
Definition dump_balance_abs (ep : EP) : list row :=
  let m (v : Qc) := v in let mr (r : RNC) := r in
  let srvs := t_srvs ep in let srcs := t_srcs ep in
  pre "needs" (opt_sc "ACS" (option_map m (needs_sum (nd_ACS (ep_needs ep))))
            ++ opt_sc "CAL" (option_map m (needs_sum (nd_CAL (ep_needs ep))))
            ++ opt_sc "REF" (option_map m (needs_sum (nd_REF (ep_needs ep)))))
  ++ pre "used" (
       sc "epus" (m (t_epus ep)) ++ sc "nepus" (m (t_nepus ep)) ++ sc "cgnus" (m (t_cgnus ep))
    ++ pre "epus_by_srv" (flat_map (fun s => sc (service_name s) (m (t_epus_srv ep s))) srvs)
    ++ pre "epus_by_cr" (map (fun r => (fst r, m (snd r))) (nz_cr ep (fun b => a_epus (bc_ctx b))))
    ++ pre "epus_by_cr_by_srv" (flat_map (fun s => pre (service_name s)
          (map (fun b => (carrier_name (cx_cr (bc_ctx b)), m (a_epus_srv (bc_ctx b) s))) (with_srv ep s))) srvs))
  ++ pre "prod" (
       sc "an" (m (t_prod ep))
    ++ pre "by_cr" (map (fun r => (fst r, m (snd r))) (nz_cr ep (fun b => a_prod (bc_ctx b))))
    ++ pre "by_src" (flat_map (fun j => sc (prodsource_name j) (m (t_prod_src ep j))) srcs)
    ++ pre "epus_by_src" (flat_map (fun j => sc (prodsource_name j) (m (t_used_src ep j))) srcs)
    ++ pre "epus_by_srv_by_src" (flat_map (fun j => pre (prodsource_name j)
          (flat_map (fun s =>
             match filter (fun b => has_srv (bc_ctx b) s) (with_src ep j) with
             | [] => [] | _ => sc (service_name s) (m (t_used_src_srv ep j s)) end) epb_services)) srcs))
  ++ pre "del" (
       sc "an" (m (t_del ep)) ++ sc "onst" (m (t_del_onst ep)) ++ sc "grid" (m (t_del_grid ep))
    ++ pre "grid_by_cr" (map (fun r => (fst r, m (snd r))) (nz_cr ep (fun b => a_del_grid (bc_ctx b)))))
  ++ pre "exp" (sc "an" (m (t_exp ep)) ++ sc "grid" (m (t_exp_grid ep)) ++ sc "nepus" (m (t_exp_ne ep)))
  ++ pre "we" (
       rn "a" (mr (t_we_a ep)) ++ pre "a_by_srv" (flat_map (fun s => rn (service_name s) (mr (t_we_a_srv ep s))) srvs)
    ++ rn "b" (mr (t_we_b ep)) ++ pre "b_by_srv" (flat_map (fun s => rn (service_name s) (mr (t_we_b_srv ep s))) srvs)
    ++ rn "del" (mr (t_we_del ep)) ++ rn "exp_a" (mr (t_we_exp_a ep)) ++ rn "exp" (mr (t_we_exp ep))).

(** balance_m2: every figure of the absolute balance multiplied by 1/area (all_carriers.rs:60-141) *)
Definition scale_rows (ka : Qc) (rs : list row) : list row := map (fun r => (fst r, ka * snd r)) rs.
Definition dump_balance_m2 (ep : EP) : list row := scale_rows (k_area ep) (dump_balance_abs ep).

Definition dump_ep (ep : EP) : list row :=
  sc "k_exp" (ep_k ep) ++ sc "arearef" (ep_area ep)
  ++ pre "balance_cr" (flat_map (fun b => pre (carrier_name (cx_cr (bc_ctx b))) (dump_balcr b)) (ep_bal ep))
  ++ pre "balance" (dump_balance_abs ep)
  ++ pre "balance_m2" (dump_balance_m2 ep)
  ++ sc "rer" (t_rer ep) ++ sc "rer_nrb" (t_rer_nrb ep) ++ sc "rer_onst" (t_rer_onst ep).

Definition errkind_name (k : errkind) : string :=
  match k with ParseError => "ParseError" | WrongInput => "WrongInput" | MissingFactor => "MissingFactor" end.

(** printable form: (path, numerator, denominator) *)
(** paths are printed as integers (base-256 big endian of their bytes): Coq prints numbers much
    faster than strings *)
Fixpoint z_of_string_acc (s : string) (acc : Z) : Z :=
  match s with EmptyString => acc
  | String a s => z_of_string_acc s (acc * 256 + Z.of_N (Ascii.N_of_ascii a))%Z end.
Definition z_of_string (s : string) : Z := z_of_string_acc s 0%Z.

Definition out_row (r : row) : string * Z * Z := (fst r, Qnum (this (snd r)), Zpos (Qden (this (snd r)))).

Inductive outcome := OutOk (rows : list (string * Z * Z)) | OutErr (k : string).
Definition outcome_of {T} (r : res T) (d : T -> list row) : outcome :=
  match r with Ok x => OutOk (map out_row (d x)) | Err k => OutErr (errkind_name k) end.

(** components as rows: i/kind, i/id, i/t1, i/t2 (tag indexes), i/v/t *)
Definition idx_of {A} (beq : A -> A -> bool) (l : list A) (a : A) : Z :=
  (fix go l n := match l with [] => (-1)%Z | b :: l => if beq a b then n else go l (n + 1)%Z end) l 0%Z.
Definition energy_rows (e : Energy) : list row :=
  match e with
  | EUsed i c s v _ => [("kind", qz 0); ("id", qz i); ("t1", qz (idx_of Carrier_beq all_carriers c)); ("t2", qz (idx_of Service_beq all_services s))] ++ vc "v" v
  | EProd i p v _ => [("kind", qz 1); ("id", qz i); ("t1", qz (idx_of ProdSource_beq all_prodsources p)); ("t2", qz 0)] ++ vc "v" v
  | EAux i s v _ => [("kind", qz 2); ("id", qz i); ("t1", qz (idx_of Service_beq all_services s)); ("t2", qz 0)] ++ vc "v" v
  | EOut i s v _ => [("kind", qz 3); ("id", qz i); ("t1", qz (idx_of Service_beq all_services s)); ("t2", qz 0)] ++ vc "v" v
  end.
Fixpoint data_rows_from (n : nat) (l : list Energy) : list row :=
  match l with [] => [] | e :: l => pre (nat_str n) (energy_rows e) ++ data_rows_from (S n) l end.
Definition dump_data (l : list Energy) : list row := data_rows_from 0 l.

(** factors as rows: i/cr, i/src, i/dest, i/step (indexes), i/v/0..2 *)
Definition factor_rows (f : Factor) : list row :=
  [("cr", qz (idx_of Carrier_beq all_carriers (f_cr f))); ("src", qz (idx_of Source_beq all_sources (f_src f)));
   ("dest", qz (idx_of Dest_beq all_dests (f_dest f))); ("step", qz (idx_of Step_beq all_steps (f_step f)))]
  ++ rn "v" (f_val f).
Fixpoint factors_rows_from (n : nat) (l : list Factor) : list row :=
  match l with [] => [] | f :: l => pre (nat_str n) (factor_rows f) ++ factors_rows_from (S n) l end.
Definition dump_factors (l : list Factor) : list row := factors_rows_from 0 l.

(** the DHW renewable fraction of a result *)
Definition acs_outcome (r : res EP) : outcome :=
  match r with
  | Ok ep => outcome_of (fraccion_renovable_acs_nrb ep) (fun q => [("acs", q)])
  | Err k => OutErr ("EP:" ++ errkind_name k)
  end.

(** input helpers used by generated case files *)
Definition Q (n : Z) (d : positive) : Qc := qfrac n d.
Definition QL (l : list (Z * positive)) : list Qc := map (fun p => qfrac (fst p) (snd p)) l.
