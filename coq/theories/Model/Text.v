(** * Text output of results: number formatting, XML escaping, report templates

    Strings are byte sequences ([list N], the UTF-8 bytes of a Rust [String]).  Replacing ASCII
    characters on the UTF-8 bytes is the same as replacing them on the characters, since an ASCII
    byte never occurs inside a multi-byte sequence.

    Mirrors src/asctexml.rs, src/asplain.rs, [round_serialize_3] of src/types/rennrenco2.rs and
    Rust's [{:.N}] formatting of finite [f32] values. *)
From Coq Require Import String Ascii List NArith ZArith QArith Qcanon Qround Bool.
From Cteepbd Require Import Base.Num Model.Types Model.Dump.
Import ListNotations.
Open Scope list_scope. Open Scope N_scope.

Definition bytes := list N.
Definition bs (s : string) : bytes := map N_of_ascii (list_ascii_of_string s).

(** ** Decimal digits *)
Definition digit (n : N) : N := 48 + n.
(** exactly [d] digits, most significant first *)
Fixpoint digits (d : nat) (n : N) : bytes :=
  match d with O => [] | S d' => digits d' (n / 10) ++ [digit (n mod 10)] end.
Fixpoint udec_fuel (fuel : nat) (n : N) : bytes :=
  match fuel with
  | O => [digit (n mod 10)]
  | S f => if n <? 10 then [digit n] else udec_fuel f (n / 10) ++ [digit (n mod 10)]
  end.
Definition udec (n : N) : bytes := udec_fuel (N.to_nat (N.succ (N.log2 n))) n.
(** [Display] of an [i32] *)
Definition sdec (z : Z) : bytes := if (z <? 0)%Z then 45 :: udec (Z.to_N (- z)) else udec (Z.to_N z).

(** value denoted by a digit string *)
Definition dec_value (l : bytes) : N := fold_left (fun a c => 10 * a + (c - 48)) l 0.

(** ** Rounding *)
Definition qhalf : Qc := qfrac 1 2.
(** round to the nearest integer, ties to even *)
Definition rhe (x : Qc) : Z :=
  let f := Qfloor (this x) in
  let r := (x - qz f)%Qc in
  if qltb r qhalf then f else if qltb qhalf r then (f + 1)%Z else if Z.even f then f else (f + 1)%Z.
(** round to the nearest integer, ties away from zero ([f32::round]) *)
Definition rha (x : Qc) : Z :=
  let a := qabs x in
  let f := Qfloor (this a) in
  let m := if qltb (a - qz f)%Qc qhalf then f else (f + 1)%Z in
  if qltb x 0 then (- m)%Z else m.

Definition qpow2 (e : Z) : Qc := if (0 <=? e)%Z then qz (2 ^ e) else (1 / qz (2 ^ (- e)))%Qc.

(** the nearest [f32] (ties to even; subnormals below 2^-126; no overflow to infinity) *)
Definition f32round (q : Qc) : Qc :=
  if qeqb q 0 then 0%Qc else
  let a := qabs q in
  let e0 := (Z.log2 (Qnum (this a)) - Z.log2 (Zpos (Qden (this a))))%Z in
  let e1 := if qltb a (qpow2 e0) then (e0 - 1)%Z else e0 in
  let e := Z.max e1 (-126) in
  let ulp := qpow2 (e - 23) in
  let r := (qz (rhe (a / ulp)) * ulp)%Qc in
  if qltb q 0 then (- r)%Qc else r.

Definition fadd (x y : Qc) : Qc := f32round (x + y).
Definition fmul (x y : Qc) : Qc := f32round (x * y).
Definition fdiv (x y : Qc) : Qc := f32round (x / y).

(** ** [{:.d}] of a finite f32 (sign of a zero that carries one is not modelled) *)
Definition pow10 (d : nat) : N := 10 ^ N.of_nat d.
Definition scaled (d : nat) (q : Qc) : N := Z.to_N (rhe (qabs q * qz (Z.of_N (pow10 d)))).
Definition fmt_fixed (d : nat) (q : Qc) : bytes :=
  let n := scaled d q in
  (if qltb q 0 then [45] else [])
  ++ udec (n / pow10 d)
  ++ match d with O => [] | _ => 46 :: digits d (n mod pow10 d) end.

(** [round_serialize_3]: (x * 1000.0).round() / 1000.0 in f32 arithmetic *)
Definition round3 (x : Qc) : Qc := fdiv (qz (rha (fmul x (qz 1000)))) (qz 1000).

(** ** Small string tools *)
Fixpoint join (sep : bytes) (l : list bytes) : bytes :=
  match l with [] => [] | [x] => x | x :: r => x ++ sep ++ join sep r end.
Fixpoint bytes_leb (a b : bytes) : bool :=
  match a, b with
  | [], _ => true
  | _ :: _, [] => false
  | x :: a', y :: b' => if x <? y then true else if y <? x then false else bytes_leb a' b'
  end.
Fixpoint insert_b (x : bytes) (l : list bytes) : list bytes :=
  match l with [] => [x] | y :: l' => if bytes_leb x y then x :: l else y :: insert_b x l' end.
Definition sort_b (l : list bytes) : list bytes := fold_right insert_b [] l.
Definition nl : bytes := [10].

(** ** XML escaping (asctexml.rs:42-54) *)
Definition bad_c0 (c : N) : bool := (c <? 32) && negb ((c =? 9) || (c =? 10) || (c =? 13)).
Definition repl : bytes := [239; 191; 189].      (* U+FFFD *)
Definition single (c : N) : bytes := if bad_c0 c then repl else [c].
(** characters outside XML 1.0's Char production: C0 controls other than TAB, LF, CR, and U+FFFE / U+FFFF
    (bytes EF BF BE / EF BF BF); surrogates cannot occur in a Rust string *)
Fixpoint fix_chars (s : bytes) : bytes :=
  match s with
  | [] => []
  | a :: r =>
      match r with
      | b1 :: c :: r' =>
          if (a =? 239) && (b1 =? 191) && ((c =? 190) || (c =? 191)) then repl ++ fix_chars r'
          else single a ++ fix_chars r
      | _ => single a ++ fix_chars r
      end
  end.
Definition replace1 (c : N) (by_ : bytes) (s : bytes) : bytes := flat_map (fun x => if x =? c then by_ else [x]) s.
Definition escape_xml (s : bytes) : bytes :=
  replace1 34 (bs "&quot;") (replace1 92 (bs "&apos;") (replace1 62 (bs "&gt;") (replace1 60 (bs "&lt;")
    (replace1 38 (bs "&amp;") (fix_chars s))))).

(** ** XML documents (asctexml.rs:59-303) *)
Definition el (n : string) (inner : bytes) : bytes := [60] ++ bs n ++ [62] ++ inner ++ [60; 47] ++ bs n ++ [62].
Definition values_2f (v : list Qc) : bytes := join [44] (map (fmt_fixed 2) v).
Definition comentario (c : bytes) : bytes := match c with [] => [] | _ => el "Comentario" (escape_xml c) end.

Definition meta_xml (m : Meta) : bytes :=
  el "Metadato" (el "Clave" (escape_xml (m_key m)) ++ el "Valor" (escape_xml (m_value m))).

Definition factor_xml (f : Factor) : bytes :=
  el "Factor" (el "Vector" (bs (carrier_name (f_cr f))) ++ el "Origen" (bs (source_name (f_src f)))
            ++ el "Destino" (bs (dest_name (f_dest f))) ++ el "Paso" (bs (step_name (f_step f)))
            ++ el "ren" (fmt_fixed 3 (ren (f_val f))) ++ el "nren" (fmt_fixed 3 (nren (f_val f)))
            ++ el "co2" (fmt_fixed 3 (co2 (f_val f))) ++ comentario (f_cmt f)).

Definition factors_xml (f : Factors) : bytes :=
  el "FactoresDePaso" (bs "
    " ++ join nl (map meta_xml (wmeta f)) ++ bs "
    " ++ join nl (map factor_xml (wdata f)) ++ nl).

Definition energy_xml (e : Energy) : bytes :=
  match e with
  | EUsed i cr srv v c =>
      el "Consumo" (el "Id" (sdec i) ++ el "Vector" (bs (carrier_name cr)) ++ el "Servicio" (bs (service_name srv))
                    ++ el "Valores" (values_2f v) ++ comentario c)
  | EProd i src v c =>
      el "Produccion" (el "Id" (sdec i) ++ el "Origen" (bs (prodsource_name src)) ++ el "Valores" (values_2f v) ++ comentario c)
  | EAux i srv v c =>
      el "EAux" (el "Id" (sdec i) ++ el "Servicio" (bs (service_name srv)) ++ el "Valores" (values_2f v) ++ comentario c)
  | EOut i srv v c =>
      el "Salida" (el "Id" (sdec i) ++ el "Servicio" (bs (service_name srv)) ++ el "Valores" (values_2f v) ++ comentario c)
  end.

Definition demanda_xml (name : string) (o : option (list Qc)) : list bytes :=
  match o with Some v => [el "Demanda" (el "Servicio" (bs name) ++ el "Valores" (values_2f v))] | None => [] end.

Definition components_xml (c : Components) : bytes :=
  el "Componentes" (bs "
        " ++ join nl (map meta_xml (c_meta c)) ++ bs "
        " ++ join nl (map energy_xml (c_data c)) ++ bs "
        " ++ join nl (demanda_xml "ACS" (nd_ACS (c_needs c)) ++ demanda_xml "CAL" (nd_CAL (c_needs c))
                      ++ demanda_xml "REF" (nd_REF (c_needs c))) ++ bs "
    ").

Definition cm_area : bytes := bs " área de referencia [m2] ".
Definition cm_cep : bytes := bs " C_ep [kWh/m2.an] ".
Definition xml_comment (c : bytes) : bytes := bs "<!--" ++ c ++ bs "-->".

(** [ren], [nren]: balance_m2.we.b *)
Definition ep_xml (f : Factors) (c : Components) (k area ren_ nren_ : Qc) : bytes :=
  el "BalanceEPB" (bs "
        " ++ factors_xml f ++ bs "
        " ++ components_xml c ++ bs "
        " ++ el "kexp" (fmt_fixed 2 k) ++ bs "
        " ++ el "AreaRef" (fmt_fixed 2 area) ++ xml_comment cm_area ++ bs "
        " ++ el "Epm2" (xml_comment cm_cep ++ bs "
            " ++ el "tot" (fmt_fixed 1 (fadd ren_ nren_)) ++ bs "
            " ++ el "nren" (fmt_fixed 1 nren_) ++ bs "
        ") ++ bs "
    ").

(** ** The plain report (asplain.rs:62-205).  The figures are read from the flattened result
    (same paths as [dump_ep]); a map entry that is absent is not listed. *)
Definition sapp := String.append.
Infix "+/+" := sapp (at level 60, right associativity).
Definition lookup (rows : list row) (p : string) : option Qc :=
  match find (fun r => String.eqb (fst r) p) rows with Some r => Some (snd r) | None => None end.
Definition getv (rows : list row) (p : string) : Qc := match lookup rows p with Some v => v | None => 0%Qc end.
Definition getr (rows : list row) (p : string) : RNC :=
  mkRNC (getv rows (p +/+ "/0")) (getv rows (p +/+ "/1")) (getv rows (p +/+ "/2")).

Definition rnc_text (v : RNC) : bytes :=
  bs "ren " ++ fmt_fixed 2 (ren v) ++ bs ", nren " ++ fmt_fixed 2 (nren v) ++ bs ", tot: "
  ++ fmt_fixed 2 (fadd (ren v) (nren v)) ++ bs ", co2: " ++ fmt_fixed 2 (co2 v).
Definition value_or_dash (o : option Qc) (d : nat) : bytes := match o with Some v => fmt_fixed d v | None => bs "-" end.

Definition kv_list (rows : list row) (prefix : string) (names : list string) : bytes :=
  join nl (sort_b (flat_map (fun k => match lookup rows (prefix +/+ "/" +/+ k) with
                                      | Some v => [bs "- " ++ bs k ++ bs ": " ++ fmt_fixed 2 v] | None => [] end) names)).
Definition kr_list (rows : list row) (prefix : string) (names : list string) : bytes :=
  join nl (sort_b (flat_map (fun k => match lookup rows (prefix +/+ "/" +/+ k +/+ "/0") with
                                      | Some _ => [bs "- " ++ bs k ++ bs ": " ++ rnc_text (getr rows (prefix +/+ "/" +/+ k))]
                                      | None => [] end) names)).

Definition srv_names := map service_name all_services.
Definition cr_names := map carrier_name all_carriers.
Definition src_names := map prodsource_name all_prodsources.

(** [misc]: [None] no map; [Some None] no (parseable) fraction; [Some (Some x)]: x is the decimal written
    with 3 digits in the map *)
Definition misc_text (misc : option (option Qc)) : bytes :=
  match misc with
  | None => []
  | Some o => bs "

** Indicadores adicionales
Porcentaje renovable de la demanda de ACS (perímetro próximo): "
      ++ match o with Some x => fmt_fixed 1 (fmul (qz 100) (f32round x)) | None => bs "-" end ++ bs " [%]"
  end.

Definition to_plain (rows : list row) (misc : option (option Qc)) : bytes :=
  let g p := getv rows ("balance_m2/" +/+ p) in
  let we_a := getr rows "balance_m2/we/a" in
  let we_b := getr rows "balance_m2/we/b" in
  let used := fadd (fadd (g "used/epus") (g "used/nepus")) (g "used/cgnus") in
  bs "** Eficiencia energética

Area_ref = " ++ fmt_fixed 2 (getv rows "arearef") ++ bs " [m2]
k_exp = " ++ fmt_fixed 2 (getv rows "k_exp") ++ bs "
C_ep [kWh/m2.an]: ren = " ++ fmt_fixed 1 (ren we_b) ++ bs ", nren = " ++ fmt_fixed 1 (nren we_b)
  ++ bs ", tot = " ++ fmt_fixed 1 (fadd (ren we_b) (nren we_b)) ++ bs "
E_CO2 [kg_CO2e/m2.an]: " ++ fmt_fixed 2 (co2 we_b) ++ bs "
RER = " ++ fmt_fixed 2 (getv rows "rer") ++ bs "
RER_nrb = " ++ fmt_fixed 2 (getv rows "rer_nrb") ++ bs "

** Demanda [kWh/m2.an]:

- ACS: " ++ value_or_dash (lookup rows "balance_m2/needs/ACS") 1 ++ bs "
- CAL: " ++ value_or_dash (lookup rows "balance_m2/needs/CAL") 1 ++ bs "
- REF: " ++ value_or_dash (lookup rows "balance_m2/needs/REF") 1 ++ bs "

** Energía final (todos los vectores) [kWh/m2.an]:

Energía consumida: " ++ fmt_fixed 2 used ++ bs "

+ Consumida en usos EPB: " ++ fmt_fixed 2 (g "used/epus") ++ bs "

* por servicio:
" ++ kv_list rows "balance_m2/used/epus_by_srv" srv_names ++ bs "

* por vector:
" ++ kv_list rows "balance_m2/used/epus_by_cr" cr_names ++ bs "

+ Consumida en usos no EPB: " ++ fmt_fixed 2 (g "used/nepus") ++ bs "

+ Consumida en cogeneración: " ++ fmt_fixed 2 (g "used/cgnus") ++ bs "

Generada: " ++ fmt_fixed 2 (g "prod/an") ++ bs "

* por vector:
" ++ kv_list rows "balance_m2/prod/by_cr" cr_names ++ bs "

* por origen:
" ++ kv_list rows "balance_m2/prod/by_src" src_names ++ bs "

* generada y usada en servicios EPB, por origen:
" ++ kv_list rows "balance_m2/prod/epus_by_src" src_names ++ bs "

Suministrada " ++ fmt_fixed 2 (g "del/an") ++ bs ":

- de red: " ++ fmt_fixed 2 (g "del/grid") ++ bs "
- in situ: " ++ fmt_fixed 2 (g "del/onst") ++ bs "

Exportada: " ++ fmt_fixed 2 (g "exp/an") ++ bs "

- a la red: " ++ fmt_fixed 2 (g "exp/grid") ++ bs "
- a usos no EPB: " ++ fmt_fixed 2 (g "exp/nepus") ++ bs "

** Energía primaria (ren, nren) [kWh/m2.an] y emisiones [kg_CO2e/m2.an]:

Recursos utilizados (paso A): " ++ rnc_text we_a ++ bs "

* por servicio:
" ++ kr_list rows "balance_m2/we/a_by_srv" srv_names ++ bs "

Incluyendo el efecto de la energía exportada (paso B): " ++ rnc_text we_b ++ bs "

* por servicio:
" ++ kr_list rows "balance_m2/we/b_by_srv" srv_names ++ misc_text misc ++ bs "
".

(** ** comparing with the text the implementation produced *)
(** the sign of a zero is not modelled: "-0.00" is read as "0.00" on both sides of the comparison *)
Definition is_dd (c : N) : bool := ((48 <=? c) && (c <=? 57)) || (c =? 46).
Fixpoint zeros_end (s : bytes) : bool :=
  match s with [] => true | c :: r => if c =? 48 then zeros_end r else negb (is_dd c) end.
Definition negzero (r : bytes) : bool :=
  match r with
  | c0 :: r1 =>
      (c0 =? 48) && match r1 with
                    | [] => true
                    | c1 :: r2 => if c1 =? 46 then match r2 with c2 :: r3 => (c2 =? 48) && zeros_end r3 | [] => false end
                                  else negb (is_dd c1)
                    end
  | [] => false
  end.
Fixpoint canon_zero (s : bytes) : bytes :=
  match s with [] => [] | c :: r => if (c =? 45) && negzero r then canon_zero r else c :: canon_zero r end.

Fixpoint first_diff_from (i : N) (a b : bytes) : option (N * option N * option N) :=
  match a, b with
  | [], [] => None
  | x :: a', y :: b' => if x =? y then first_diff_from (i + 1) a' b' else Some (i, Some x, Some y)
  | x :: _, [] => Some (i, Some x, None)
  | [], y :: _ => Some (i, None, Some y)
  end.
Definition first_diff := first_diff_from 0.
Definition same_text (a b : bytes) := first_diff (canon_zero a) (canon_zero b).
