(** * Data types of cteepbd, mirroring src/types *)
From Cteepbd Require Export Base.Sum.
Open Scope Qc_scope.

(** strings are lists of Unicode code points *)
Definition str := list N.

Inductive Carrier := EAMBIENTE | BIOCARBURANTE | BIOMASA | BIOMASADENSIFICADA | CARBON
  | ELECTRICIDAD | GASNATURAL | GASOLEO | GLP | RED1 | RED2 | TERMOSOLAR.
Inductive Service := ACS | CAL | REF | VEN | ILU | NEPB | COGEN.
Inductive ProdSource := EL_INSITU | EL_COGEN | PS_TERMOSOLAR | PS_EAMBIENTE.
Inductive Source := RED | INSITU | SRC_COGEN.
Inductive Dest := SUMINISTRO | A_RED | A_NEPB.
Inductive Step := STEP_A | STEP_B.
Inductive CType := CONSUMO | PRODUCCION | CT_AUX | SALIDA | DEMANDA.

Definition all_carriers := [EAMBIENTE; BIOCARBURANTE; BIOMASA; BIOMASADENSIFICADA; CARBON;
  ELECTRICIDAD; GASNATURAL; GASOLEO; GLP; RED1; RED2; TERMOSOLAR].
Definition all_services := [ACS; CAL; REF; VEN; ILU; NEPB; COGEN].
Definition epb_services := [ACS; CAL; REF; VEN; ILU].
Definition all_prodsources := [EL_INSITU; EL_COGEN; PS_TERMOSOLAR; PS_EAMBIENTE].
Definition all_sources := [RED; INSITU; SRC_COGEN].
Definition all_dests := [SUMINISTRO; A_RED; A_NEPB].
Definition all_steps := [STEP_A; STEP_B].

Scheme Equality for Carrier.
Scheme Equality for Service.
Scheme Equality for ProdSource.
Scheme Equality for Source.
Scheme Equality for Dest.
Scheme Equality for Step.
Scheme Equality for CType.

Lemma Carrier_beq_eq a b : Carrier_beq a b = true <-> a = b.
Proof. split. apply internal_Carrier_dec_bl. apply internal_Carrier_dec_lb. Qed.
Lemma Service_beq_eq a b : Service_beq a b = true <-> a = b.
Proof. split. apply internal_Service_dec_bl. apply internal_Service_dec_lb. Qed.
Lemma ProdSource_beq_eq a b : ProdSource_beq a b = true <-> a = b.
Proof. split. apply internal_ProdSource_dec_bl. apply internal_ProdSource_dec_lb. Qed.
Lemma Source_beq_eq a b : Source_beq a b = true <-> a = b.
Proof. split. apply internal_Source_dec_bl. apply internal_Source_dec_lb. Qed.
Lemma Dest_beq_eq a b : Dest_beq a b = true <-> a = b.
Proof. split. apply internal_Dest_dec_bl. apply internal_Dest_dec_lb. Qed.
Lemma Step_beq_eq a b : Step_beq a b = true <-> a = b.
Proof. split. apply internal_Step_dec_bl. apply internal_Step_dec_lb. Qed.

Lemma all_carriers_complete c : In c all_carriers.
Proof. destruct c; cbn; tauto. Qed.
Lemma all_services_complete s : In s all_services.
Proof. destruct s; cbn; tauto. Qed.
Lemma all_prodsources_complete s : In s all_prodsources.
Proof. destruct s; cbn; tauto. Qed.
Lemma all_carriers_nodup : NoDup all_carriers.
Proof. repeat constructor; cbn; intuition discriminate. Qed.
Lemma all_prodsources_nodup : NoDup all_prodsources.
Proof. repeat constructor; cbn; intuition discriminate. Qed.
Lemma epb_services_nodup : NoDup epb_services.
Proof. repeat constructor; cbn; intuition discriminate. Qed.

(** finite behaviour tables (types/service.rs, carrier.rs, prodsource.rs, factor.rs);
    re-checked against the compiled code through Gen/ImplTables.v *)
Definition srv_is_epb (s : Service) : bool := match s with NEPB | COGEN => false | _ => true end.
Definition srv_is_nepb (s : Service) : bool := match s with NEPB => true | _ => false end.
Definition srv_is_cogen (s : Service) : bool := match s with COGEN => true | _ => false end.
Definition cr_is_nearby (c : Carrier) : bool :=
  match c with BIOMASA | BIOMASADENSIFICADA | RED1 | RED2 | EAMBIENTE | TERMOSOLAR => true | _ => false end.
Definition cr_is_onsite (c : Carrier) : bool :=
  match c with EAMBIENTE | TERMOSOLAR => true | _ => false end.
Definition ps_carrier (p : ProdSource) : Carrier :=
  match p with EL_INSITU | EL_COGEN => ELECTRICIDAD | PS_TERMOSOLAR => TERMOSOLAR | PS_EAMBIENTE => EAMBIENTE end.
Definition ps_source (p : ProdSource) : Source :=
  match p with EL_COGEN => SRC_COGEN | _ => INSITU end.
(** ProdSource::get_priorities *)
Definition priorities (c : Carrier) : bool * list ProdSource :=
  match c with ELECTRICIDAD => (true, [EL_INSITU; EL_COGEN]) | _ => (false, []) end.

(** ** Renewable / non renewable / CO2 triple *)
Record RNC := mkRNC { ren : Qc; nren : Qc; co2 : Qc }.
Definition rnc0 := mkRNC 0 0 0.
Definition radd (a b : RNC) := mkRNC (ren a + ren b) (nren a + nren b) (co2 a + co2 b).
Definition rsub (a b : RNC) := mkRNC (ren a - ren b) (nren a - nren b) (co2 a - co2 b).
Definition rscale (k : Qc) (a : RNC) := mkRNC (k * ren a) (k * nren a) (k * co2 a).
Definition rtot (a : RNC) := ren a + nren a.
Definition rrer (a : RNC) : Qc := if qeqb (rtot a) 0 then 0 else ren a / rtot a.
Definition rsum (l : list RNC) : RNC := fold_right radd rnc0 l.

Lemma rnc_eq a b : ren a = ren b -> nren a = nren b -> co2 a = co2 b -> a = b.
Proof. destruct a, b; cbn; intros -> -> ->; reflexivity. Qed.

Ltac rnc := apply rnc_eq; cbn [ren nren co2 radd rsub rscale rnc0]; try ring.

(** ** Energy components (types/energy/*.rs) *)
Inductive Energy :=
| EUsed (id : Z) (cr : Carrier) (srv : Service) (vals : list Qc) (cmt : str)
| EProd (id : Z) (src : ProdSource) (vals : list Qc) (cmt : str)
| EAux (id : Z) (srv : Service) (vals : list Qc) (cmt : str)
| EOut (id : Z) (srv : Service) (vals : list Qc) (cmt : str).

Definition e_id (e : Energy) : Z :=
  match e with EUsed i _ _ _ _ | EProd i _ _ _ | EAux i _ _ _ | EOut i _ _ _ => i end.
Definition e_vals (e : Energy) : list Qc :=
  match e with EUsed _ _ _ v _ | EProd _ _ v _ | EAux _ _ v _ | EOut _ _ v _ => v end.
Definition e_cmt (e : Energy) : str :=
  match e with EUsed _ _ _ _ c | EProd _ _ _ c | EAux _ _ _ c | EOut _ _ _ c => c end.
Definition e_set_vals (e : Energy) (v : list Qc) : Energy :=
  match e with
  | EUsed i c s _ m => EUsed i c s v m | EProd i p _ m => EProd i p v m
  | EAux i s _ m => EAux i s v m | EOut i s _ m => EOut i s v m end.
Definition e_set_id (e : Energy) (j : Z) : Energy :=
  match e with
  | EUsed _ c s v m => EUsed j c s v m | EProd _ p v m => EProd j p v m
  | EAux _ s v m => EAux j s v m | EOut _ s v m => EOut j s v m end.

Definition is_used e := match e with EUsed _ _ _ _ _ => true | _ => false end.
Definition is_generated e := match e with EProd _ _ _ _ => true | _ => false end.
Definition is_aux e := match e with EAux _ _ _ _ => true | _ => false end.
Definition is_out e := match e with EOut _ _ _ _ => true | _ => false end.
Definition is_epb_use e := match e with EUsed _ _ s _ _ | EAux _ s _ _ => srv_is_epb s | _ => false end.
Definition is_nepb_use e := match e with EUsed _ _ s _ _ | EAux _ s _ _ => srv_is_nepb s | _ => false end.
Definition is_cogen_use e := match e with EUsed _ _ s _ _ => srv_is_cogen s | _ => false end.
Definition is_onsite_pr e := match e with EProd _ p _ _ => negb (ProdSource_beq p EL_COGEN) | _ => false end.
Definition is_cogen_pr e := match e with EProd _ p _ _ => ProdSource_beq p EL_COGEN | _ => false end.
(** [Energy::carrier] is [unreachable!()] on SALIDA: [None] *)
Definition e_carrier (e : Energy) : option Carrier :=
  match e with
  | EProd _ p _ _ => Some (ps_carrier p) | EUsed _ c _ _ _ => Some c
  | EAux _ _ _ _ => Some ELECTRICIDAD | EOut _ _ _ _ => None end.
Definition has_carrier (c : Carrier) (e : Energy) : bool :=
  match e_carrier e with Some c' => Carrier_beq c' c | None => false end.
Definition e_service (e : Energy) : option Service :=
  match e with EProd _ _ _ _ => None | EUsed _ _ s _ _ | EAux _ s _ _ | EOut _ s _ _ => Some s end.
Definition has_service (s : Service) (e : Energy) : bool :=
  match e_service e with Some s' => Service_beq s' s | None => false end.
Definition has_id (i : Z) (e : Energy) : bool := Z.eqb (e_id e) i.
Definition is_prod_src (p : ProdSource) (e : Energy) : bool :=
  match e with EProd _ p' _ _ => ProdSource_beq p' p | _ => false end.
Definition is_epb_use_srv (s : Service) (e : Energy) : bool := is_epb_use e && has_service s e.

Record Meta := mkMeta { m_key : str; m_value : str }.

Record Needs := mkNeeds { nd_ACS : option (list Qc); nd_CAL : option (list Qc); nd_REF : option (list Qc) }.

Record Components := mkComponents { c_meta : list Meta; c_data : list Energy; c_needs : Needs }.

(** ** Weighting factors *)
Record Factor := mkFactor { f_cr : Carrier; f_src : Source; f_dest : Dest; f_step : Step;
                            f_val : RNC; f_cmt : str }.
Record Factors := mkFactors { wmeta : list Meta; wdata : list Factor }.

(** ** Results and errors *)
Inductive errkind := ParseError | WrongInput | MissingFactor.
Inductive res (T : Type) := Ok (x : T) | Err (k : errkind).
Arguments Ok {T} x. Arguments Err {T} k.
Definition bind {A B} (r : res A) (f : A -> res B) : res B :=
  match r with Ok x => f x | Err k => Err k end.
Notation "'do' x <- r ; k" := (bind r (fun x => k)) (at level 200, x name, r at level 100, k at level 200).
