(** * Model of src/balance.rs, src/types/balance/*.rs and Factors::{find,add_cgn_factors}

    The per-carrier balance is written in "column normal form" (DESIGN.md §3.6): for
    every time step [t] the model first computes the record [Col] of column sums
    (EPB use per service, non-EPB use, cogeneration input, production per source), and
    every per-step output of the implementation is a scalar function of that record.
    The implementation accumulates rows with [vecvecsum] instead; that the two agree
    is what the correspondence check establishes on every run. *)
From Cteepbd Require Export Model.Types.
Open Scope Qc_scope.

(** ** Columns *)
Definition val_at (t : nat) (e : Energy) : Qc := nth t (e_vals e) 0.
Definition colsum (p : Energy -> bool) (l : list Energy) (t : nat) : Qc :=
  qsum (map (val_at t) (filter p l)).

(** classification used by compute_used_produced (balance.rs:252-274) *)
Definition is_ne_use (e : Energy) : bool :=
  negb (is_generated e) && negb (is_epb_use e) && negb (is_cogen_use e).

Record Col := mkCol {
  c_acs : Qc; c_cal : Qc; c_ref : Qc; c_ven : Qc; c_ilu : Qc;   (* EPB use by service *)
  c_u : Qc;                                                       (* EPB use, all services *)
  c_ne : Qc;                                                      (* non EPB use *)
  c_cg : Qc;                                                      (* cogeneration input *)
  c_pv : Qc; c_chp : Qc; c_ts : Qc; c_ea : Qc                     (* production by source *)
}.

Definition col_at (l : list Energy) (t : nat) : Col :=
  mkCol (colsum (is_epb_use_srv ACS) l t) (colsum (is_epb_use_srv CAL) l t)
        (colsum (is_epb_use_srv REF) l t) (colsum (is_epb_use_srv VEN) l t)
        (colsum (is_epb_use_srv ILU) l t)
        (colsum is_epb_use l t) (colsum is_ne_use l t) (colsum is_cogen_use l t)
        (colsum (is_prod_src EL_INSITU) l t) (colsum (is_prod_src EL_COGEN) l t)
        (colsum (is_prod_src PS_TERMOSOLAR) l t) (colsum (is_prod_src PS_EAMBIENTE) l t).

Definition cols_idx (l : list Energy) (idx : list nat) : list Col := map (col_at l) idx.

Definition c_srv (c : Col) (s : Service) : Qc :=
  match s with ACS => c_acs c | CAL => c_cal c | REF => c_ref c | VEN => c_ven c | ILU => c_ilu c
             | _ => 0 end.
Definition c_src (c : Col) (j : ProdSource) : Qc :=
  match j with EL_INSITU => c_pv c | EL_COGEN => c_chp c | PS_TERMOSOLAR => c_ts c | PS_EAMBIENTE => c_ea c end.
Definition c_p (c : Col) : Qc := c_pv c + c_chp c + c_ts c + c_ea c.

(** ** Per-step scalar functions *)

(** load matching factor (32), balance.rs:402-423 *)
Definition fmatch (lm : bool) (c : Col) : Qc :=
  if lm then
    let x := if qltb 0 (c_u c) then c_p c / c_u c else 0 in
    if qleb x 0 then 1 else (x + 1 / x - 1) / (x + 1 / x)
  else 1.

(** [pr]: the priority branch is taken (electricity with both EL_INSITU and EL_COGEN declared);
    [f]: load matching factor of the step *)
Definition used_src_f (f : Qc) (pr : bool) (c : Col) (j : ProdSource) : Qc :=
  if pr then
    match j with
    | EL_INSITU => qmin (c_pv c) (c_u c) * f
    | EL_COGEN => qmin (c_chp c) (c_u c - qmin (c_pv c) (c_u c)) * f
    | _ => 0
    end
  else
    (f * qmin (c_u c) (c_p c)) * (if qltb 0 (c_p c) then c_src c j / c_p c else 0).

Definition used_tot_f (f : Qc) (pr : bool) (c : Col) : Qc :=
  if pr then 0 + used_src_f f pr c EL_INSITU + used_src_f f pr c EL_COGEN
  else f * qmin (c_u c) (c_p c).

Definition used_src (pr lm : bool) (c : Col) (j : ProdSource) : Qc := used_src_f (fmatch lm c) pr c j.
Definition used_tot (pr lm : bool) (c : Col) : Qc := used_tot_f (fmatch lm c) pr c.

(** step outputs computed once per step (what the dump and the annual sums read) *)
Record SO := mkSO { so_f : Qc; so_upv : Qc; so_uchp : Qc; so_uts : Qc; so_uea : Qc; so_used : Qc }.
Definition step_out (pr lm : bool) (c : Col) : SO :=
  let f := fmatch lm c in
  mkSO f (used_src_f f pr c EL_INSITU) (used_src_f f pr c EL_COGEN)
         (used_src_f f pr c PS_TERMOSOLAR) (used_src_f f pr c PS_EAMBIENTE) (used_tot_f f pr c).
Definition so_src (o : SO) (j : ProdSource) : Qc :=
  match j with EL_INSITU => so_upv o | EL_COGEN => so_uchp o | PS_TERMOSOLAR => so_uts o | PS_EAMBIENTE => so_uea o end.

(** a step: its column sums and its outputs *)
Definition StepR := (Col * SO)%type.
Definition s_u (s : StepR) := c_u (fst s).
Definition s_srv (s : StepR) (v : Service) := c_srv (fst s) v.
Definition s_ne (s : StepR) := c_ne (fst s).
Definition s_cg (s : StepR) := c_cg (fst s).
Definition s_p (s : StepR) := c_p (fst s).
Definition s_psrc (s : StepR) (j : ProdSource) := c_src (fst s) j.
Definition s_f (s : StepR) := so_f (snd s).
Definition s_used (s : StepR) := so_used (snd s).
Definition s_used_src (s : StepR) (j : ProdSource) := so_src (snd s) j.
Definition s_exp (s : StepR) : Qc := s_p s - s_used s.                 (* balance.rs:431 *)
Definition s_exp_ne (s : StepR) : Qc := qmin (s_exp s) (s_ne s).        (* :432 *)
Definition s_exp_grid (s : StepR) : Qc := s_exp s - s_exp_ne s.         (* :434 *)
Definition s_del_grid (s : StepR) : Qc := s_u s - s_used s.            (* :436 *)
Definition del_onst (c : Col) : Qc := c_pv c + c_ts c + c_ea c.
Definition s_del_onst (s : StepR) : Qc := del_onst (fst s).            (* :440-448 *)
Definition s_exp_src (s : StepR) (j : ProdSource) : Qc := s_psrc s j - s_used_src s j.  (* :453 *)
Definition f_us (c : Col) (v : Service) : Qc := if qltb 0 (c_u c) then c_srv c v / c_u c else 0.
Definition s_used_src_srv (s : StepR) (j : ProdSource) (v : Service) : Qc :=
  f_us (fst s) v * s_used_src s j.                                     (* :354-358 *)

(** ** Per-carrier context *)
Definition num_steps_of (l : list Energy) : nat :=
  match l with [] => 0%nat | e :: _ => length (e_vals e) end.

(** ProdSource::get_priorities + the test of balance.rs:305 *)
Definition prio_of (cr : Carrier) (l : list Energy) : bool :=
  let (hp, ps) := priorities cr in hp && forallb (fun j => existsb (is_prod_src j) l) ps.

Record CrCtx := mkCtx {
  cx_cr : Carrier;
  cx_lm : bool;
  cx_srcs : list ProdSource;      (* production sources declared for the carrier (keys of by_src maps) *)
  cx_srvs : list Service;         (* EPB services declared for the carrier (keys of by_srv maps) *)
  cx_prio : bool;
  cx_steps : list StepR
}.

Definition steps_of (pr lm : bool) (l : list Energy) (idx : list nat) : list StepR :=
  map (fun t => let c := col_at l t in (c, step_out pr lm c)) idx.

Definition mk_ctx (cr : Carrier) (lm : bool) (data : list Energy) : CrCtx :=
  let l := filter (has_carrier cr) data in
  let pr := prio_of cr l in
  mkCtx cr lm (filter (fun j => existsb (is_prod_src j) l) all_prodsources)
        (filter (fun v => existsb (is_epb_use_srv v) l) epb_services)
        pr (steps_of pr lm l (seq 0 (num_steps_of l))).

Definition has_src (x : CrCtx) (j : ProdSource) : bool := existsb (ProdSource_beq j) (cx_srcs x).
Definition has_srv (x : CrCtx) (s : Service) : bool := existsb (Service_beq s) (cx_srvs x).
Definition srcs_present (x : CrCtx) : list ProdSource := cx_srcs x.
Definition srvs_present (x : CrCtx) : list Service := cx_srvs x.

Lemma existsb_beq_filter_ps (p : ProdSource -> bool) j :
  existsb (ProdSource_beq j) (filter p all_prodsources) = p j.
Proof. destruct j; cbn; destruct (p EL_INSITU), (p EL_COGEN), (p PS_TERMOSOLAR), (p PS_EAMBIENTE); reflexivity. Qed.
Lemma existsb_beq_filter_srv (p : Service -> bool) v :
  existsb (Service_beq v) (filter p epb_services) = srv_is_epb v && p v.
Proof. destruct v; cbn; destruct (p ACS), (p CAL), (p REF), (p VEN), (p ILU); reflexivity. Qed.

Lemma has_src_mk cr lm data j :
  has_src (mk_ctx cr lm data) j = existsb (is_prod_src j) (filter (has_carrier cr) data).
Proof. unfold has_src, mk_ctx. cbn [cx_srcs]. apply existsb_beq_filter_ps. Qed.
Lemma is_epb_use_srv_epb v e : is_epb_use_srv v e = true -> srv_is_epb v = true.
Proof.
  unfold is_epb_use_srv, has_service. destruct e as [? ? s ? ?|? ? ? ?|? s ? ?|? s ? ?]; cbn; try discriminate;
    destruct s, v; cbn; try discriminate; reflexivity.
Qed.
Lemma has_srv_mk cr lm data v :
  has_srv (mk_ctx cr lm data) v = existsb (is_epb_use_srv v) (filter (has_carrier cr) data).
Proof.
  unfold has_srv, mk_ctx. cbn [cx_srvs]. rewrite existsb_beq_filter_srv.
  destruct (srv_is_epb v) eqn:E; [reflexivity|]. cbn [andb]. symmetry.
  induction (filter (has_carrier cr) data) as [|e l IH]; [reflexivity|]. cbn [existsb]. rewrite IH.
  destruct (is_epb_use_srv v e) eqn:F; [|reflexivity]. apply is_epb_use_srv_epb in F. congruence.
Qed.

Definition vec (x : CrCtx) (f : StepR -> Qc) : list Qc := map f (cx_steps x).
Definition ann (x : CrCtx) (f : StepR -> Qc) : Qc := qsum (vec x f).

(** annual scalars of a carrier *)
Definition a_epus x := ann x s_u.
Definition a_epus_srv x v := ann x (fun s => s_srv s v).
Definition a_nepus x := ann x s_ne.
Definition a_cgnus x := ann x s_cg.
Definition a_prod x := ann x s_p.
Definition a_prod_src x j := ann x (fun s => s_psrc s j).
Definition a_used x := ann x s_used.
Definition a_used_src x j := ann x (fun s => s_used_src s j).
Definition a_used_src_srv x j v := ann x (fun s => s_used_src_srv s j v).
Definition a_exp_ne x := ann x s_exp_ne.
Definition a_exp_grid x := ann x s_exp_grid.
Definition a_exp x := a_exp_ne x + a_exp_grid x.                 (* balance.rs:459 *)
Definition a_exp_src x j := ann x (fun s => s_exp_src s j).
Definition a_del_grid x := ann x s_del_grid.
Definition a_del_onst x := ann x s_del_onst.
Definition a_del x := a_del_grid x + a_del_onst x + a_cgnus x.   (* balance.rs:473 *)

(** ** Factor lookup (wfactors.rs:66-76) *)
Definition fmatches (cr : Carrier) (src : Source) (dest : Dest) (step : Step) (f : Factor) : bool :=
  Carrier_beq (f_cr f) cr && Source_beq (f_src f) src && Dest_beq (f_dest f) dest && Step_beq (f_step f) step.

Definition look (fs : list Factor) cr src dest step : option RNC :=
  match find (fmatches cr src dest step) fs with Some f => Some (f_val f) | None => None end.

Definition findf (fs : list Factor) cr src dest step : res RNC :=
  match look fs cr src dest step with Some v => Ok v | None => Err MissingFactor end.

(** ** Weighted energy of a carrier (balance.rs:486-627) *)
Record WE := mkWE {
  we_b : RNC; we_a : RNC; we_del : RNC; we_del_grid : RNC; we_del_onst : RNC; we_del_cgn : RNC;
  we_exp : RNC; we_exp_a : RNC; we_exp_nepus_a : RNC; we_exp_grid_a : RNC;
  we_exp_nepus_ab : RNC; we_exp_grid_ab : RNC; we_exp_ab : RNC
}.

(** everything in the weighted energy that does not depend on k_exp *)
Record WParts := mkWParts {
  wp_grid : RNC; wp_onst : RNC; wp_cgn : RNC;       (* weighted delivered: grid, on-site, cogeneration input *)
  wp_xa_ne : RNC; wp_xa_gr : RNC;                   (* step A weighted export to nEPB / grid  (24) (25) *)
  wp_xab_ne : RNC; wp_xab_gr : RNC                  (* step B - step A                        (27) (28) *)
}.

(** mean export factor over the declared sources, weighted by exported share (balance.rs:531-538) *)
Fixpoint f_exp_mean (fs : list Factor) (x : CrCtx) (ea : Qc) (dest : Dest) (step : Step) (js : list ProdSource) : res RNC :=
  match js with
  | [] => Ok rnc0
  | j :: js =>
      do f <- findf fs (cx_cr x) (ps_source j) dest step;
      do r <- f_exp_mean fs x ea dest step js;
      Ok (radd (rscale (a_exp_src x j / ea) f) r)
  end.

Definition weighted_parts (fs : list Factor) (x : CrCtx) : res WParts :=
  let cr := cx_cr x in
  do g <- findf fs cr RED SUMINISTRO STEP_A;
  let dg := a_del_grid x in let cg := a_cgnus x in let don := a_del_onst x in
  let ene := a_exp_ne x in let egr := a_exp_grid x in let ea := ene + egr in
  let w_grid := rscale dg g in
  let w_cgn := if qeqb cg 0 then rnc0 else rscale cg g in
  do w_onst <- (if qeqb don 0 then Ok rnc0
                else do fo <- findf fs cr INSITU SUMINISTRO STEP_A; Ok (rscale don fo));
  if qeqb ea 0 then
    Ok (mkWParts w_grid w_onst w_cgn rnc0 rnc0 rnc0 rnc0)
  else
    let js := srcs_present x in
    let fmean dest step amount :=
      if qeqb amount 0 then Ok rnc0 else f_exp_mean fs x ea dest step js in
    do fa_ne <- fmean A_NEPB STEP_A ene;
    do fa_gr <- fmean A_RED STEP_A egr;
    do fb_ne <- fmean A_NEPB STEP_B ene;
    do fb_gr <- fmean A_RED STEP_B egr;
    Ok (mkWParts w_grid w_onst w_cgn (rscale ene fa_ne) (rscale egr fa_gr)
                 (rscale ene (rsub fb_ne fa_ne)) (rscale egr (rsub fb_gr fa_gr))).

(** (20), (2): the only place where k_exp enters *)
Definition we_of_parts (k : Qc) (p : WParts) : WE :=
  let w_del := radd (radd (wp_grid p) (wp_onst p)) (wp_cgn p) in
  let xa := radd (wp_xa_ne p) (wp_xa_gr p) in
  let xab := radd (wp_xab_ne p) (wp_xab_gr p) in
  let xx := radd xa (rscale k xab) in
  mkWE (rsub w_del xx) (rsub w_del xa) w_del (wp_grid p) (wp_onst p) (wp_cgn p)
       xx xa (wp_xa_ne p) (wp_xa_gr p) (wp_xab_ne p) (wp_xab_gr p) xab.

Definition weighted (fs : list Factor) (k : Qc) (x : CrCtx) : res WE :=
  do p <- weighted_parts fs x; Ok (we_of_parts k p).

(** annual service share, reverse calculation E.3.6 (balance.rs:637-649) *)
Definition f_us_an (x : CrCtx) (s : Service) : Qc :=
  if qltb 0 (a_epus x) then a_epus_srv x s / a_epus x else 0.

(** ** Cogenerated electricity factors (wfactors.rs:382-520) *)
Definition cgn_fuel_carriers (data : list Energy) : list Carrier :=
  filter (fun cr => existsb (fun e => is_cogen_use e && has_carrier cr e) data) all_carriers.

(** annual fuel input of carrier [cr] to cogeneration per unit of annual cogenerated electricity
    (wfactors.rs compute_cgn_exp_fP_A, after fix 55df7f9) *)
Definition cgn_fuel_an (data : list Energy) (cr : Carrier) (n : nat) : Qc :=
  qsum (map (colsum (fun e => is_cogen_use e && has_carrier cr e) data) (seq 0 n)).
Definition cgn_el_an (data : list Energy) (n : nat) : Qc :=
  qsum (map (colsum is_cogen_pr data) (seq 0 n)).
Definition cgn_ratio (data : list Energy) (cr : Carrier) (n : nat) : Qc :=
  let el := cgn_el_an data n in
  if qltb 0 el then cgn_fuel_an data cr n / el else 0.

Fixpoint cgn_sum (fs : list Factor) (data : list Energy) (n : nat) (only_nearby : bool) (crs : list Carrier) : res RNC :=
  match crs with
  | [] => Ok rnc0
  | cr :: crs =>
      if only_nearby && negb (cr_is_nearby cr) then cgn_sum fs data n only_nearby crs else
      do f <- findf fs cr RED SUMINISTRO STEP_A;
      do r <- cgn_sum fs data n only_nearby crs;
      Ok (radd (rscale (cgn_ratio data cr n) f) r)
  end.

Definition cgn_num_steps (data : list Energy) : nat :=
  num_steps_of (filter is_cogen_pr data).

Definition compute_cgn_exp_fP_A (fs : list Factor) (data : list Energy) (only_nearby : bool) : res (option RNC) :=
  let n := cgn_num_steps data in
  match n with
  | O => Ok None
  | _ =>
    match cgn_fuel_carriers data with
    | [] => Err WrongInput
    | crs => do r <- cgn_sum fs data n only_nearby crs; Ok (Some r)
    end
  end.

Definition mkf cr src dest step v : Factor := mkFactor cr src dest step v [].

Definition add_cgn_factors (fs : list Factor) (data : list Energy) : res (list Factor) :=
  do o <- compute_cgn_exp_fP_A fs data false;
  match o with
  | None => Ok fs
  | Some fa =>
      do g <- findf fs ELECTRICIDAD RED SUMINISTRO STEP_A;
      Ok (fs ++ [mkf ELECTRICIDAD SRC_COGEN SUMINISTRO STEP_A fa;
                 mkf ELECTRICIDAD SRC_COGEN A_NEPB STEP_A fa;
                 mkf ELECTRICIDAD SRC_COGEN A_RED STEP_A fa;
                 mkf ELECTRICIDAD SRC_COGEN A_NEPB STEP_B g;
                 mkf ELECTRICIDAD SRC_COGEN A_RED STEP_B g])
  end.

(** ** Whole building *)
Definition avail_carriers (data : list Energy) : list Carrier :=
  filter (fun cr => existsb (fun e => (is_used e || is_generated e || is_aux e) && has_carrier cr e) data) all_carriers.

(** a carrier's balance: flows, k-independent weighted parts, and k_exp *)
Record BalCr := mkBalCr { bc_ctx : CrCtx; bc_parts : WParts; bc_k : Qc }.
Definition bc_we (b : BalCr) : WE := we_of_parts (bc_k b) (bc_parts b).

Definition balance_for_carrier (fs : list Factor) (k : Qc) (lm : bool) (data : list Energy) (cr : Carrier) : res BalCr :=
  let x := mk_ctx cr lm data in
  do p <- weighted_parts fs x; Ok (mkBalCr x p k).

Fixpoint balances (fs : list Factor) k lm data (crs : list Carrier) : res (list BalCr) :=
  match crs with
  | [] => Ok []
  | cr :: crs =>
      do b <- balance_for_carrier fs k lm data cr;
      do bs <- balances fs k lm data crs;
      Ok (b :: bs)
  end.

Record EP := mkEP {
  ep_data : list Energy;
  ep_needs : Needs;
  ep_factors : list Factor;
  ep_k : Qc;
  ep_area : Qc;
  ep_bal : list BalCr
}.

Definition energy_performance (c : Components) (fs : list Factor) (k area : Qc) (lm : bool) : res EP :=
  if qltb area (qfrac 1 1000) then Err WrongInput else
  do fs' <- add_cgn_factors fs (c_data c);
  do bs <- balances fs' k lm (c_data c) (avail_carriers (c_data c));
  Ok (mkEP (c_data c) (c_needs c) fs' k area bs).

(** totals: Balance += BalanceCarrier (all_carriers.rs:144-225) *)
Definition tot (ep : EP) (f : BalCr -> Qc) : Qc := qsum (map f (ep_bal ep)).
Definition rtotal (ep : EP) (f : BalCr -> RNC) : RNC := rsum (map f (ep_bal ep)).

Definition t_epus ep := tot ep (fun b => a_epus (bc_ctx b)).
Definition t_nepus ep := tot ep (fun b => a_nepus (bc_ctx b)).
Definition t_cgnus ep := tot ep (fun b => a_cgnus (bc_ctx b)).
Definition t_prod ep := tot ep (fun b => a_prod (bc_ctx b)).
Definition t_del ep := tot ep (fun b => a_del (bc_ctx b)).
Definition t_del_onst ep := tot ep (fun b => a_del_onst (bc_ctx b)).
Definition t_del_grid ep := tot ep (fun b => a_del_grid (bc_ctx b)).
Definition t_exp ep := tot ep (fun b => a_exp (bc_ctx b)).
Definition t_exp_ne ep := tot ep (fun b => a_exp_ne (bc_ctx b)).
Definition t_exp_grid ep := tot ep (fun b => a_exp_grid (bc_ctx b)).
Definition t_we_a ep := rtotal ep (fun b => we_a (bc_we b)).
Definition t_we_b ep := rtotal ep (fun b => we_b (bc_we b)).
Definition t_we_del ep := rtotal ep (fun b => we_del (bc_we b)).
Definition t_we_exp_a ep := rtotal ep (fun b => we_exp_a (bc_we b)).
Definition t_we_exp ep := rtotal ep (fun b => we_exp (bc_we b)).

(** by service: carriers where the service is present *)
Definition with_srv (ep : EP) (s : Service) : list BalCr := filter (fun b => has_srv (bc_ctx b) s) (ep_bal ep).
Definition with_src (ep : EP) (j : ProdSource) : list BalCr := filter (fun b => has_src (bc_ctx b) j) (ep_bal ep).
Definition t_srvs (ep : EP) : list Service := filter (fun s => negb (match with_srv ep s with [] => true | _ => false end)) epb_services.
Definition t_srcs (ep : EP) : list ProdSource := filter (fun j => negb (match with_src ep j with [] => true | _ => false end)) all_prodsources.

Definition t_epus_srv ep s := qsum (map (fun b => a_epus_srv (bc_ctx b) s) (with_srv ep s)).
Definition we_a_srv (b : BalCr) s := rscale (f_us_an (bc_ctx b) s) (we_a (bc_we b)).
Definition we_b_srv (b : BalCr) s := rscale (f_us_an (bc_ctx b) s) (we_b (bc_we b)).
Definition t_we_a_srv ep s := rsum (map (fun b => we_a_srv b s) (with_srv ep s)).
Definition t_we_b_srv ep s := rsum (map (fun b => we_b_srv b s) (with_srv ep s)).
Definition t_prod_src ep j := qsum (map (fun b => a_prod_src (bc_ctx b) j) (with_src ep j)).
Definition t_used_src ep j := qsum (map (fun b => a_used_src (bc_ctx b) j) (with_src ep j)).
Definition t_used_src_srv ep j s :=
  qsum (map (fun b => a_used_src_srv (bc_ctx b) j s) (filter (fun b => has_srv (bc_ctx b) s) (with_src ep j))).

Definition needs_sum (o : option (list Qc)) : option Qc :=
  match o with Some v => Some (qsum v) | None => None end.

(** RER (balance.rs:101-113, 134-179; rennrenco2.rs:77-85) *)
Definition t_rer ep := rrer (t_we_b ep).
Definition ren_of_el (ep : EP) (f : WE -> RNC) : Qc :=
  match find (fun b => Carrier_beq (cx_cr (bc_ctx b)) ELECTRICIDAD) (ep_bal ep) with
  | Some b => ren (f (bc_we b)) | None => 0 end.
Definition ren_onst ep : Qc :=
  tot ep (fun b => if cr_is_onsite (cx_cr (bc_ctx b)) then ren (we_b (bc_we b)) else 0)
  + ren_of_el ep we_del_onst.
Definition ren_nrb ep : Qc :=
  tot ep (fun b => if cr_is_nearby (cx_cr (bc_ctx b)) then ren (we_b (bc_we b)) else 0)
  + ren_of_el ep we_del_onst + ren_of_el ep we_del_cgn - (1 - ep_k ep) * ren_of_el ep we_exp_a.
Definition t_rer_onst ep : Qc := if qltb 0 (rtot (t_we_b ep)) then ren_onst ep / rtot (t_we_b ep) else 0.
Definition t_rer_nrb ep : Qc := if qltb 0 (rtot (t_we_b ep)) then ren_nrb ep / rtot (t_we_b ep) else 0.

(** per m2: multiply by 1/area (all_carriers.rs:60-141) *)
Definition k_area (ep : EP) : Qc := if qeqb (ep_area ep) 0 then 0 else 1 / ep_area ep.
