(** * Model of Factors::{update_wfactor, ensure_wfactor, set_user_wfactors, normalize, strip}
      (src/wfactors.rs) and cte::wfactors_from_{str,loc} (src/cte.rs) *)
From Cteepbd Require Export Model.Balance.
Open Scope Qc_scope.

Definition fkey := (Carrier * Source * Dest * Step)%type.
Definition key_of (f : Factor) : fkey := (f_cr f, f_src f, f_dest f, f_step f).
Definition kmatch (k : fkey) (f : Factor) : bool :=
  let '(cr, src, dest, step) := k in fmatches cr src dest step f.
Definition lookk (fs : list Factor) (k : fkey) : option RNC :=
  let '(cr, src, dest, step) := k in look fs cr src dest step.

(** update_wfactor: set the values of the first matching factor, or append *)
Fixpoint update_first (k : fkey) (v : RNC) (fs : list Factor) : option (list Factor) :=
  match fs with
  | [] => None
  | f :: fs => if kmatch k f then Some (mkFactor (f_cr f) (f_src f) (f_dest f) (f_step f) v (f_cmt f) :: fs)
               else match update_first k v fs with Some r => Some (f :: r) | None => None end
  end.
Definition new_factor (k : fkey) (v : RNC) (cmt : str) : Factor :=
  let '(cr, src, dest, step) := k in mkFactor cr src dest step v cmt.
Definition update_wfactor (fs : list Factor) (k : fkey) (v : RNC) (cmt : str) : list Factor :=
  match update_first k v fs with Some r => r | None => fs ++ [new_factor k v cmt] end.
Definition ensure_wfactor (fs : list Factor) (k : fkey) (v : RNC) (cmt : str) : list Factor :=
  if existsb (kmatch k) fs then fs else fs ++ [new_factor k v cmt].

Definition one : RNC := mkRNC 1 0 0.
Definition K_EAMB_INSITU : fkey := (EAMBIENTE, INSITU, SUMINISTRO, STEP_A).
Definition K_EAMB_RED : fkey := (EAMBIENTE, RED, SUMINISTRO, STEP_A).
Definition K_TERMO_INSITU : fkey := (TERMOSOLAR, INSITU, SUMINISTRO, STEP_A).
Definition K_TERMO_RED : fkey := (TERMOSOLAR, RED, SUMINISTRO, STEP_A).
Definition K_EL_INSITU : fkey := (ELECTRICIDAD, INSITU, SUMINISTRO, STEP_A).
Definition K_RED1 : fkey := (RED1, RED, SUMINISTRO, STEP_A).
Definition K_RED2 : fkey := (RED2, RED, SUMINISTRO, STEP_A).
Definition grid_key (c : Carrier) : fkey := (c, RED, SUMINISTRO, STEP_A).

(** comments of generated factors are not part of any property; the model leaves them empty and the
    correspondence ignores comments *)
Definition set_user_wfactors (fs : list Factor) (red1 red2 : option RNC) : list Factor :=
  let fs := match red1 with Some v => update_wfactor fs K_RED1 v [] | None => fs end in
  match red2 with Some v => update_wfactor fs K_RED2 v [] | None => fs end.

Definition carriers_of (fs : list Factor) : list Carrier :=
  filter (fun c => existsb (fun f => Carrier_beq (f_cr f) c) fs) all_carriers.

Definition exp_carriers : list (Carrier * Source) := [(ELECTRICIDAD, INSITU); (EAMBIENTE, INSITU); (TERMOSOLAR, INSITU)].

(** [wf]: the carriers of the set before normalisation; a carrier the set does not mention needs no export factors *)
Fixpoint ensure_exports (wf : list Carrier) (fs : list Factor) (cs : list (Carrier * Source)) : res (list Factor) :=
  match cs with
  | [] => Ok fs
  | (c, s) :: cs =>
      let fs1 := match lookk fs (c, s, SUMINISTRO, STEP_A) with
                 | Some v => ensure_wfactor (ensure_wfactor fs (c, s, A_RED, STEP_A) v []) (c, s, A_NEPB, STEP_A) v []
                 | None => fs end in
      match lookk fs1 (grid_key c) with
      | Some g => ensure_exports wf (ensure_wfactor (ensure_wfactor fs1 (c, s, A_RED, STEP_B) g []) (c, s, A_NEPB, STEP_B) g []) cs
      | None => if existsb (Carrier_beq c) wf then Err MissingFactor else ensure_exports wf fs1 cs
      end
  end.

Definition normalize_factors (fs : list Factor) (d1 d2 : RNC) : res (list Factor) :=
  let wf_carriers := carriers_of fs in
  let fs := update_wfactor fs K_EAMB_INSITU one [] in
  let fs := update_wfactor fs K_EAMB_RED one [] in
  let fs := update_wfactor fs K_TERMO_INSITU one [] in
  let fs := update_wfactor fs K_TERMO_RED one [] in
  let fs := if existsb (Carrier_beq ELECTRICIDAD) wf_carriers then update_wfactor fs K_EL_INSITU one [] else fs in
  if negb (forallb (fun c => existsb (kmatch (grid_key c)) fs) wf_carriers) then Err MissingFactor else
  do fs <- ensure_exports wf_carriers fs exp_carriers;
  let fs := ensure_wfactor fs K_RED1 d1 [] in
  Ok (ensure_wfactor fs K_RED2 d2 []).

Definition default_red : RNC := mkRNC 0 (qfrac 13 10) (qfrac 3 10).   (* cte::CTE_USERWF; re-checked against f32 values *)

(** cte::wfactors_from_str / wfactors_from_loc after parsing *)
Definition prepare_factors (fs : list Factor) (red1 red2 : option RNC) (d1 d2 : RNC) : res (list Factor) :=
  normalize_factors (set_user_wfactors fs red1 red2) d1 d2.

(** strip (wfactors.rs:327-347) *)
Definition strip (fs : list Factor) (data : list Energy) : list Factor :=
  let crs := avail_carriers data in
  let has_cogen := existsb is_cogen_pr data in
  let has_nepb := existsb is_nepb_use data in
  let has_el_onsite := existsb (fun e => match e with EOut _ _ _ _ => false | _ => has_carrier ELECTRICIDAD e end && is_onsite_pr e) data in
  filter (fun f =>
            existsb (Carrier_beq (f_cr f)) crs
            && (negb (Source_beq (f_src f) SRC_COGEN) || has_cogen)
            && (negb (Dest_beq (f_dest f) A_NEPB) || has_nepb)
            && (negb (Carrier_beq (f_cr f) ELECTRICIDAD) || negb (Source_beq (f_src f) INSITU) || has_el_onsite)) fs.

(** rows for the correspondence *)
