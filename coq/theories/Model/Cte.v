(** * Model of cte::fraccion_renovable_acs_nrb (src/cte.rs:222-523) *)
From Cteepbd Require Export Model.Balance Model.Factors.
Open Scope Qc_scope.

(** substring test on code-point strings *)
Fixpoint prefix_of (p s : str) : bool :=
  match p, s with
  | [], _ => true
  | a :: p', b :: s' => N.eqb a b && prefix_of p' s'
  | _ :: _, [] => false
  end.
Fixpoint contains (s p : str) : bool :=
  prefix_of p s || match s with [] => false | _ :: s' => contains s' p end.

Definition TAG_EXCLUYE_SCOP : str :=   (* "CTEEPBD_EXCLUYE_SCOP_ACS" *)
  [67;84;69;69;80;66;68;95;69;88;67;76;85;89;69;95;83;67;79;80;95;65;67;83]%N.

Definition f32_epsilon : Qc := qfrac 1 8388608.       (* 2^-23 *)

Definition vals_sum (e : Energy) : Qc := qsum (e_vals e).

(** bal.used.epus_by_cr_by_srv[ACS]: carriers with a declared ACS use, with their annual ACS use *)
Definition dhw_used_by_cr (ep : EP) : list (Carrier * Qc) :=
  map (fun b => (cx_cr (bc_ctx b), a_epus_srv (bc_ctx b) ACS)) (with_srv ep ACS).

Definition amap := list (Carrier * Qc).
Definition aget (m : amap) (c : Carrier) : option Qc :=
  match find (fun p => Carrier_beq (fst p) c) m with Some p => Some (snd p) | None => None end.
Definition amodify (m : amap) (c : Carrier) (f : Qc -> Qc) : amap :=
  map (fun p => if Carrier_beq (fst p) c then (fst p, f (snd p)) else p) m.
Definition aremove (m : amap) (c : Carrier) : amap := filter (fun p => negb (Carrier_beq (fst p) c)) m.
Definition ahas (m : amap) (c : Carrier) : bool := match aget m c with Some _ => true | None => false end.

(** get_fpA_del_ren_fraction *)
Definition ren_fraction (fs : list Factor) (c : Carrier) : res Qc :=
  let src := match c with ELECTRICIDAD => INSITU | _ => RED end in
  match look fs c src SUMINISTRO STEP_A with
  | Some f => Ok (ren f / (ren f + nren f))
  | None => Err WrongInput
  end.

Fixpoint q_nrb_non_biomass (fs : list Factor) (m : amap) : res (Qc * Qc) :=
  match m with
  | [] => Ok (0, 0)
  | (c, us) :: m' =>
      do r <- q_nrb_non_biomass fs m';
      if cr_is_nearby c && negb (Carrier_beq c BIOMASA) && negb (Carrier_beq c BIOMASADENSIFICADA)
      then do fr <- ren_fraction fs c; Ok (fst r + us, snd r + us * fr)
      else Ok r
  end.

(** output energy for ACS of the systems that burn [cr] for ACS; error if one of them declares none *)
Definition biomass_out (data : list Energy) (cr : Carrier) : res Qc :=
  let ids := filter (fun i => true) (map e_id (filter (fun e => is_used e && has_service ACS e && has_carrier cr e) data)) in
  if forallb (fun i => existsb (fun e => has_id i e && is_out e && has_service ACS e) data) ids
  then Ok (qsum (map vals_sum (filter (fun e => existsb (Z.eqb (e_id e)) ids && is_out e && has_service ACS e) data)))
  else Err WrongInput.

Definition t_used_src_srv_opt (ep : EP) (j : ProdSource) (v : Service) : Qc :=
  match filter (fun b => has_srv (bc_ctx b) v) (with_src ep j) with [] => 0 | _ => t_used_src_srv ep j v end.

Definition fraccion_renovable_acs_nrb (ep : EP) : res Qc :=
  match needs_sum (nd_ACS (ep_needs ep)) with
  | None => Err WrongInput
  | Some demanda =>
    if qltb (qabs demanda) f32_epsilon then Err WrongInput else     (* checked first since the fix of the zero-demand case *)
    let data := ep_data ep in
    let fs := ep_factors ep in
    let m0 := dhw_used_by_cr ep in
    let aux := qsum (map vals_sum (filter (fun e => is_aux e && has_service ACS e) data)) in
    let m1 := amodify m0 ELECTRICIDAD (fun v => v - aux) in
    let m2 := match aget m1 ELECTRICIDAD with
              | Some v => if qltb (qabs v) (qfrac 1 100) then aremove m1 ELECTRICIDAD else m1 | None => m1 end in
    let low := qsum (map vals_sum (filter (fun e => is_used e && has_carrier EAMBIENTE e && contains (e_cmt e) TAG_EXCLUYE_SCOP) data)) in
    let m3 := amodify m2 EAMBIENTE (fun v => v - low) in
    match m3 with
    | [] => Ok 0
    | _ =>
      let m4 := match aget m3 EAMBIENTE with
                | Some v => if qltb (qabs v) (qfrac 1 100) then aremove m3 EAMBIENTE else m3 | None => m3 end in
      do nb <- q_nrb_non_biomass fs m4;
      let has_b := ahas m4 BIOMASA in
      let has_d := ahas m4 BIOMASADENSIFICADA in
      let only_one := (has_b || has_d) && negb (has_b && has_d) in
      let only_nearby := forallb (fun p => cr_is_nearby (fst p)) m4 in
      do q_bio <-
        (if only_one && only_nearby then
           do fr <- ren_fraction fs (if has_b then BIOMASA else BIOMASADENSIFICADA);
           Ok ((demanda - fst nb) * fr)
         else if has_b || has_d then
           do qb <- (if has_b then do fr <- ren_fraction fs BIOMASA; do o <- biomass_out data BIOMASA; Ok (o * fr) else Ok 0);
           do qd <- (if has_d then do fr <- ren_fraction fs BIOMASADENSIFICADA; do o <- biomass_out data BIOMASADENSIFICADA; Ok (o * fr) else Ok 0);
           Ok (qb + qd)
         else Ok 0);
      let el0 := match aget m0 ELECTRICIDAD with Some v => v | None => 0 end in
      let frac := if qltb f32_epsilon (qabs el0) then 1 - aux / el0 else 1 in
      let q_onst := t_used_src_srv_opt ep EL_INSITU ACS * frac in
      let cgn_use := t_used_src_srv_opt ep EL_COGEN ACS in
      let el_noaux := match aget m4 ELECTRICIDAD with Some v => v | None => 0 end in
      let cgn_nearby := existsb (fun e => is_cogen_use e && match e_carrier e with Some c => cr_is_nearby c | None => false end) data in
      do q_cgn <-
        (if qltb 0 el_noaux && qltb 0 cgn_use && cgn_nearby then
           do fc <- findf fs ELECTRICIDAD SRC_COGEN SUMINISTRO STEP_A;
           let ftot := ren fc + nren fc in
           do fren <- (if qltb 0 ftot then
                         do o <- compute_cgn_exp_fP_A fs data true;
                         Ok (ren (match o with Some r => r | None => rnc0 end) / ftot)
                       else Ok 0);
           Ok (cgn_use * frac * fren)
         else Ok 0);
      Ok ((snd nb + q_bio + q_onst + q_cgn) / demanda)
    end
  end.
