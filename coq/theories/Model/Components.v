(** * Model of Components::normalize (src/components.rs:188-384)

    complete_produced_for_onsite_generated_use (EAMBIENTE, TERMOSOLAR), then
    assign_aux_nepb_to_epb_services, then a stable sort by system id.

    The implementation iterates the ids of a [HashSet] and the services of a [HashMap]: the
    iteration orders are explicit parameters here ([ids] lists), and the theorems show what does
    not depend on them. *)
From Cteepbd Require Export Model.Balance.
Open Scope Qc_scope.

(** ids of a component list, in order of first appearance *)
Fixpoint ids_of (l : list Energy) : list Z :=
  match l with
  | [] => []
  | e :: l => let r := ids_of l in e_id e :: filter (fun j => negb (Z.eqb j (e_id e))) r
  end.

Definition max_len (l : list Energy) : nat := fold_right (fun e m => Nat.max (length (e_vals e)) m) 0%nat l.
Definition sum_at (l : list Energy) (t : nat) : Qc := qsum (map (val_at t) l).
(** veclistsum (vecops.rs:37-46) of the values of [l] *)
Definition veclistsum (l : list Energy) : list Qc :=
  map (sum_at l) (seq 0 (match l with [] => 1%nat | _ => max_len l end)).

Definition source_of_carrier (cr : Carrier) : option ProdSource :=
  match cr with EAMBIENTE => Some PS_EAMBIENTE | TERMOSOLAR => Some PS_TERMOSOLAR | _ => None end.

Definition comment_completion : str :=   (* "Equilibrado de consumo sin producción declarada" *)
  [69;113;117;105;108;105;98;114;97;100;111;32;100;101;32;99;111;110;115;117;109;111;32;115;105;110;32;112;114;111;100;117;99;99;105;243;110;32;100;101;99;108;97;114;97;100;97]%N.
Definition comment_aux : str :=          (* "Reasignación automática de consumos auxiliares" *)
  [82;101;97;115;105;103;110;97;99;105;243;110;32;97;117;116;111;109;225;116;105;99;97;32;100;101;32;99;111;110;115;117;109;111;115;32;97;117;120;105;108;105;97;114;101;115]%N.

(** uncovered use of system [i] for the carrier, per step (components.rs:236-252) *)
Definition unbalanced (env : list Energy) (i : Z) : option (list Qc) :=
  let used := filter (fun e => has_id i e && is_used e) env in
  let prod := filter (fun e => has_id i e && is_generated e) env in
  match used with
  | [] => None
  | _ =>
    let tot := veclistsum used in
    Some (match prod with
          | [] => tot
          | _ => map (fun p => let d := fst p - snd p in if qltb 0 d then d else 0) (combine tot (veclistsum prod))
          end)
  end.

Definition completion_for (src : ProdSource) (env : list Energy) (i : Z) : list Energy :=
  match unbalanced env i with
  | Some v => if qeqb (qsum v) 0 then [] else [EProd i src v comment_completion]
  | None => []
  end.

Definition complete_with (cr : Carrier) (ids : list Z) (data : list Energy) : list Energy :=
  match source_of_carrier cr with
  | None => data
  | Some src =>
    let env := filter (has_carrier cr) data in
    data ++ flat_map (completion_for src env) ids
  end.

Definition complete (cr : Carrier) (data : list Energy) : list Energy :=
  complete_with cr (ids_of (filter (has_carrier cr) data)) data.

(** ** Auxiliary energy *)
Definition used_services (data : list Energy) (i : Z) : list Service :=
  (* only EPB services count (fix d9ddfb3) *)
  filter (fun s => srv_is_epb s && existsb (fun e => match e with EUsed j _ s' _ _ => Z.eqb j i && Service_beq s' s | _ => false end) data)
         all_services.

Definition set_aux_service (i : Z) (s : Service) (e : Energy) : Energy :=
  match e with EAux j _ v c => if Z.eqb j i then EAux j s v c else e | _ => e end.

Definition is_aux_of (i : Z) (e : Energy) : bool := is_aux e && has_id i e.
Definition is_out_of (i : Z) (s : Service) (e : Energy) : bool :=
  match e with EOut j s' _ _ => Z.eqb j i && Service_beq s' s | _ => false end.

Definition out_services (data : list Energy) (i : Z) : list Service :=
  filter (fun s => existsb (is_out_of i s) data) all_services.

(** output energy of system [i] for service [s] at step [t], as accumulated by the code *)
Definition q_out (data : list Energy) (i : Z) (s : Service) (t : nat) : Qc := sum_at (filter (is_out_of i s) data) t.
(** magnitude used for the shares (after fix: absolute value of each service's output) *)
Definition q_mag (data : list Energy) (i : Z) (s : Service) (t : nat) : Qc := qabs (q_out data i s t).
Definition q_tot (data : list Energy) (i : Z) (t : nat) : Qc := qsum (map (fun s => q_mag data i s t) (out_services data i)).

Definition aux_share (data : list Energy) (i : Z) (s : Service) (t : nat) : Qc :=
  if qltb 0 (q_tot data i t) then q_mag data i s t / q_tot data i t else 0.

Definition assign_aux_id (data : list Energy) (i : Z) : res (list Energy) :=
  match used_services data i with
  | [s] => Ok (map (set_aux_service i s) data)
  | _ =>
    let auxs := filter (is_aux_of i) data in
    let aux_tot := veclistsum auxs in
    let n := num_steps_of data in
    let steps := seq 0 n in
    if qltb 0 (qsum aux_tot) && qeqb (qsum (map (q_tot data i) steps)) 0 then Err WrongInput else
    let kept := filter (fun e => negb (is_aux_of i e)) data in
    let news := map (fun s => EAux i s (map (fun p => aux_share data i s (fst p) * snd p) (combine steps aux_tot)) comment_aux)
                    (out_services data i) in
    Ok (kept ++ news)
  end.

Fixpoint assign_aux_ids (data : list Energy) (ids : list Z) : res (list Energy) :=
  match ids with
  | [] => Ok data
  | i :: ids => do d <- assign_aux_id data i; assign_aux_ids d ids
  end.

Definition assign_aux (data : list Energy) : res (list Energy) :=
  assign_aux_ids data (ids_of (filter is_aux data)).

(** stable sort by id (slice::sort_by_key is stable): insertion from the right *)
Fixpoint insert_by_id (x : Energy) (l : list Energy) : list Energy :=
  match l with
  | [] => [x]
  | y :: l' => if Z.leb (e_id x) (e_id y) then x :: l else y :: insert_by_id x l'
  end.
Definition sort_by_id (l : list Energy) : list Energy := fold_right insert_by_id [] l.

Definition normalize_data (data : list Energy) : res (list Energy) :=
  let d1 := complete EAMBIENTE data in
  let d2 := complete TERMOSOLAR d1 in
  do d3 <- assign_aux d2;
  Ok (sort_by_id d3).

Definition normalize (c : Components) : res Components :=
  do d <- normalize_data (c_data c); Ok (mkComponents (c_meta c) d (c_needs c)).
