(** * Model of the option / metadata / default resolution of the CLI (src/bin/cteepbd.rs:380-500)

    Text is abstracted by the outcome of Rust's number parser: an argument is absent, present but
    not a number, or present with a value. clap's own rejection of malformed command lines (exit 1)
    and file I/O are outside the model. *)
From Cteepbd Require Export Model.Types.
Open Scope Qc_scope.

Inductive arg (T : Type) := Absent | Invalid | Given (v : T).
Arguments Absent {T}. Arguments Invalid {T}. Arguments Given {T} v.

Inductive origin := Usuario | Metadatos | Predefinido.
Inductive fsource := FromFile | FromLocCli | FromLocMeta.

Definition EXIT_USAGE : Z := 64.
Definition EXIT_DATAERR : Z := 65.

(** validate_kexp / validate_arearef: [None] = the program exits with 65 *)
Definition kexp_ok (k : Qc) : bool := qleb 0 k && qleb k 1.
Definition area_ok (a : Qc) : bool := qltb (qfrac 1 1000) a.

Definition validate (ok : Qc -> bool) (a : arg Qc) : option (option Qc) :=
  match a with
  | Absent => Some None
  | Invalid => None
  | Given v => if ok v then Some (Some v) else None
  end.

Record settings := mkSettings {
  st_area : origin * Qc;
  st_kexp : origin * Qc;
  st_red1 : option RNC;          (* user factor handed to the factor preparation *)
  st_red2 : option RNC;
  st_fsource : fsource
}.

Inductive cli_outcome := Exits (code : Z) | Runs (s : settings).

Definition AREAREF_DEFAULT : Qc := 1.
Definition KEXP_DEFAULT : Qc := 0.

(** get_factor: CLI (three numbers; a non-number exits 65) > metadata (consulted only without the option; an
    unreadable value exits 65 since fix b410aff) > none *)
Definition resolve_factor (cli meta : arg RNC) : option (option RNC) :=
  match cli with
  | Invalid => None
  | Given v => Some (Some v)
  | Absent => match meta with Given v => Some (Some v) | Invalid => None | Absent => Some None end
  end.

(** factor source: file > location option > location metadata > exit 64; an unknown location in the
    metadata makes the preparation fail (exit 65) *)
Definition resolve_source (file_given : bool) (loc_cli : bool) (loc_meta : arg unit) : Z + fsource :=
  if file_given then inr FromFile
  else if loc_cli then inr FromLocCli
  else match loc_meta with Given _ => inr FromLocMeta | Invalid => inl EXIT_DATAERR | Absent => inl EXIT_USAGE end.

(** the order of evaluation of main(): CLI k_exp, CLI area, RED1, RED2, factor source, metadata area,
    metadata k_exp; every validation is performed even when its value is overridden *)
Definition resolve (kexp_cli area_cli : arg Qc) (red1_cli red1_meta red2_cli red2_meta : arg RNC)
                   (file_given loc_cli : bool) (loc_meta : arg unit) (area_meta kexp_meta : arg Qc) : cli_outcome :=
  match validate kexp_ok kexp_cli with None => Exits EXIT_DATAERR | Some kc =>
  match validate area_ok area_cli with None => Exits EXIT_DATAERR | Some ac =>
  match resolve_factor red1_cli red1_meta with None => Exits EXIT_DATAERR | Some r1 =>
  match resolve_factor red2_cli red2_meta with None => Exits EXIT_DATAERR | Some r2 =>
  match resolve_source file_given loc_cli loc_meta with inl code => Exits code | inr src =>
  match validate area_ok area_meta with None => Exits EXIT_DATAERR | Some am =>
  match validate kexp_ok kexp_meta with None => Exits EXIT_DATAERR | Some km =>
    let area := match ac, am with Some a, _ => (Usuario, a) | None, Some a => (Metadatos, a) | None, None => (Predefinido, AREAREF_DEFAULT) end in
    let kexp := match kc, km with Some k, _ => (Usuario, k) | None, Some k => (Metadatos, k) | None, None => (Predefinido, KEXP_DEFAULT) end in
    Runs (mkSettings area kexp r1 r2 src)
  end end end end end end end.
