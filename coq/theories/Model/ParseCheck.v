(** * Helpers of the correspondence check for the text formats (not part of the model of the code):
      UTF-8 decoding of harness-supplied literals, equality tests on outcomes *)
From Coq Require Import String List NArith ZArith QArith Qcanon Bool.
From Cteepbd Require Import Base.Num Model.Types Model.Components Model.Dump Model.Text Model.Parse.
Import ListNotations.
Open Scope list_scope. Open Scope N_scope.

Fixpoint utf8_decode_fuel (fuel : nat) (b : list N) : list N :=
  match fuel with
  | O => []
  | S f =>
      match b with
      | [] => []
      | c :: r =>
          if c <? 128 then c :: utf8_decode_fuel f r
          else if c <? 224 then
            match r with c1 :: r' => ((c - 192) * 64 + (c1 - 128)) :: utf8_decode_fuel f r' | _ => [] end
          else if c <? 240 then
            match r with c1 :: c2 :: r' => ((c - 224) * 4096 + (c1 - 128) * 64 + (c2 - 128)) :: utf8_decode_fuel f r' | _ => [] end
          else
            match r with
            | c1 :: c2 :: c3 :: r' => ((c - 240) * 262144 + (c1 - 128) * 4096 + (c2 - 128) * 64 + (c3 - 128)) :: utf8_decode_fuel f r'
            | _ => []
            end
      end
  end.
Definition u8 (b : list N) : str := utf8_decode_fuel (length b) b.

Definition utf8_encode1 (c : N) : list N :=
  if c <? 128 then [c]
  else if c <? 2048 then [192 + c / 64; 128 + c mod 64]
  else if c <? 65536 then [224 + c / 4096; 128 + (c / 64) mod 64; 128 + c mod 64]
  else [240 + c / 262144; 128 + (c / 4096) mod 64; 128 + (c / 64) mod 64; 128 + c mod 64].
Definition utf8_encode (s : str) : list N := flat_map utf8_encode1 s.

Definition qs_eqb (a b : list Qc) : bool := (length a =? length b)%nat && forallb (fun p => qeqb (fst p) (snd p)) (combine a b).
Definition qclose (tol a b : Qc) : bool := qleb (qabs (a - b)) tol.
Definition qs_close (tol : Qc) (a b : list Qc) : bool :=
  (length a =? length b)%nat && forallb (fun p => qclose tol (fst p) (snd p)) (combine a b).

Definition energy_cmp (veq : list Qc -> list Qc -> bool) (a b : Energy) : bool :=
  match a, b with
  | EUsed i c s v m, EUsed i' c' s' v' m' => Z.eqb i i' && Carrier_beq c c' && Service_beq s s' && veq v v' && str_eqb m m'
  | EProd i c v m, EProd i' c' v' m' => Z.eqb i i' && ProdSource_beq c c' && veq v v' && str_eqb m m'
  | EAux i s v m, EAux i' s' v' m' => Z.eqb i i' && Service_beq s s' && veq v v' && str_eqb m m'
  | EOut i s v m, EOut i' s' v' m' => Z.eqb i i' && Service_beq s s' && veq v v' && str_eqb m m'
  | _, _ => false
  end.
Definition meta_eqb (a b : Meta) : bool := str_eqb (m_key a) (m_key b) && str_eqb (m_value a) (m_value b).
Fixpoint list_eqb {T} (eqb : T -> T -> bool) (a b : list T) : bool :=
  match a, b with [], [] => true | x :: a', y :: b' => eqb x y && list_eqb eqb a' b' | _, _ => false end.
Definition opt_cmp (veq : list Qc -> list Qc -> bool) (a b : option (list Qc)) : bool :=
  match a, b with Some x, Some y => veq x y | None, None => true | _, _ => false end.
Definition components_cmp (veq : list Qc -> list Qc -> bool) (a b : Components) : bool :=
  list_eqb meta_eqb (c_meta a) (c_meta b) && list_eqb (energy_cmp veq) (c_data a) (c_data b)
  && opt_cmp veq (nd_ACS (c_needs a)) (nd_ACS (c_needs b)) && opt_cmp veq (nd_CAL (c_needs a)) (nd_CAL (c_needs b))
  && opt_cmp veq (nd_REF (c_needs a)) (nd_REF (c_needs b)).
Definition rnc_eqb (a b : RNC) : bool := qeqb (ren a) (ren b) && qeqb (nren a) (nren b) && qeqb (co2 a) (co2 b).
Definition factor_eqb (a b : Factor) : bool :=
  Carrier_beq (f_cr a) (f_cr b) && Source_beq (f_src a) (f_src b) && Dest_beq (f_dest a) (f_dest b)
  && Step_beq (f_step a) (f_step b) && rnc_eqb (f_val a) (f_val b) && str_eqb (f_cmt a) (f_cmt b).
Definition factors_eqb (a b : Factors) : bool :=
  list_eqb meta_eqb (wmeta a) (wmeta b) && list_eqb factor_eqb (wdata a) (wdata b).
Definition need_eqb (a b : Service * list Qc) : bool := Service_beq (fst a) (fst b) && qs_eqb (snd a) (snd b).

Definition class {T} (r : pres T) : N :=
  match r with POk _ => 0 | PErr ParseError => 1 | PErr WrongInput => 2 | PErr MissingFactor => 3 | PNonFinite => 4 | PPanic => 5 end.
(** (agrees, class of the model's outcome) *)
Definition verdict {T} (eqb : T -> T -> bool) (model expected : pres T) : bool * N :=
  (match model, expected with
   | POk a, POk b => eqb a b
   | _, _ => class model =? class expected
   end, class model).
