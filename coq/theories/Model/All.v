(** Everything a generated case file needs *)
From Cteepbd Require Export Model.Types Model.Balance Model.Components Model.Factors Model.Cte Model.Dump.
