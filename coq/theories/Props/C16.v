(** * C16 — No input makes the library panic or the program crash or hang

    In the model of the readers (Model/Parse.v) every indexing and slicing operation of the code is an explicit
    bound test whose failure is the outcome [PPanic].  For every text whatsoever the outcome is a result, a
    typed error, or (numbers that are infinite or NaN) a value outside the rational model — never [PPanic].
    The model is compared with the implementation line by line and file by file on valid, corrupted and
    token-soup inputs (lib/props/c16.py); the stages after reading (normalisation, balance, formatters) are
    total functions in the model, their panic sites in the code are enumerated and fuzzed by the check. *)
From Coq Require Import String List.
From Cteepbd Require Import Model.Types Model.Parse Proofs.ParseFacts Proofs.DataEquiv Proofs.WfFacts.
Import ListNotations. Open Scope list_scope.

Theorem C16_components_reader_never_panics : forall s : str, parse_components s <> PPanic.
Proof. exact parse_components_no_panic. Qed.

Theorem C16_factors_reader_never_panics : forall s : str, parse_factors s <> PPanic.
Proof. exact parse_factors_no_panic. Qed.

(** whatever the reader accepts has one number of steps for all its components, completed and re-assigned ones included:
    the length assertions of the vector helpers (src/vecops.rs) are met by every component set that comes from a file *)
Theorem C16_accepted_components_have_one_length : forall (s : str) (c : Components), parse_components s = POk c -> exists n, wf n (c_data c).
Proof. exact parse_components_uniform. Qed.

Theorem C16_normalisation_keeps_the_length : forall n data d, wf n data -> Components.normalize_data data = Ok d -> wf n d.
Proof. exact normalize_wf. Qed.

(** the record readers, on any line *)
Theorem C16_line_readers_never_panic :
  forall s : str, parse_used s <> PPanic /\ parse_prod s <> PPanic /\ parse_aux s <> PPanic /\ parse_out s <> PPanic
                  /\ parse_need s <> PPanic /\ parse_factor s <> PPanic.
Proof.
  intros s. repeat split; [apply parse_used_np|apply parse_prod_np|apply parse_aux_np|apply parse_out_np|apply parse_need_np|apply parse_factor_np].
Qed.

(** the metadata reader slices at byte 5: safe exactly because the callers only pass lines that start with "#META" or "#CTE_" *)
Theorem C16_meta_reader_guarded : forall l : str, is_meta_line l = true -> parse_meta l <> PPanic.
Proof. exact parse_meta_np. Qed.

(** the guard is needed: without it the slice is out of bounds (the model's [PPanic], the code's panic) *)
Example C16_meta_reader_unguarded : parse_meta (cs "#ME") = PPanic.
Proof. reflexivity. Qed.

(** non-vacuity: the reader does produce results and both kinds of error *)
Example C16_outcomes :
  (exists c, parse_components (cs "1, CONSUMO, ACS, ELECTRICIDAD, 1, 2") = POk c)
  /\ parse_components (cs "1, CONSUMO, ACS") = PErr ParseError
  /\ parse_components (cs "DEMANDA, ACS, 1, 2" ++ [10%N] ++ cs "DEMANDA, ACS, 1") = PErr WrongInput
  /\ parse_components (cs "1, CONSUMO, ACS, ELECTRICIDAD, inf") = PNonFinite.
Proof. repeat split; try (vm_compute; reflexivity). eexists. vm_compute. reflexivity. Qed.

Print Assumptions C16_components_reader_never_panics.
Print Assumptions C16_factors_reader_never_panics.
Print Assumptions C16_line_readers_never_panic.
Print Assumptions C16_accepted_components_have_one_length.
Print Assumptions C16_normalisation_keeps_the_length.
Print Assumptions C16_meta_reader_guarded.
