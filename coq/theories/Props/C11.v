(** * C11 — Results scale linearly with energy and inversely with area *)
From Cteepbd Require Import Model.Balance Proofs.ColFacts Proofs.EpFacts Proofs.Homog Proofs.Transform Proofs.DataEquiv Proofs.NormLayout Props.C04.
Open Scope Qc_scope.

(** multiplying every energy value (components and demands) by k > 0, with the values of both
    buildings in the domain (zero or >= 0.01 kWh), yields the same error or the scaled result:
    same structure, factors, k_exp and area, every step record and weighted part multiplied by k *)
Theorem C11_energy : forall c fs kx area lm k, 0 < k ->
  dom_data (c_data c) -> dom_data (scale_data k (c_data c)) ->
  energy_performance (comps_scale k c) fs kx area lm =
  match energy_performance c fs kx area lm with Ok ep => Ok (ep_scale k ep) | Err e => Err e end.
Proof.
  intros c fs kx area lm k K D D'. apply energy_performance_scale; [exact K| |]; intros cr; now apply dom_data_cols.
Qed.

(** without a floor on the values (since fix c3bd83b): for every component set with non-negative values *)
Theorem C11_energy_any_values : forall c fs kx area lm k, 0 < k -> nonneg_data (c_data c) ->
  energy_performance (comps_scale k c) fs kx area lm =
  match energy_performance c fs kx area lm with Ok ep => Ok (ep_scale k ep) | Err e => Err e end.
Proof.
  intros c fs kx area lm k K Hn. apply energy_performance_scale; [exact K| |]; intros cr; apply nonneg_cols; [exact Hn|].
  apply nonneg_scale; [|exact Hn]. revert K. generalize k. intros x K. qlra.
Qed.

(** from the declared components: normalisation commutes with the scaling (the completed productions and the
    reassigned auxiliary components of the scaled building are the scaled ones), so C11_energy applies to what a file
    declares *)
Theorem C11_normalize_scale : forall k n data, 0 < k -> wf n data ->
  Components.normalize_data (scale_data k data)
  = match Components.normalize_data data with Ok d => Ok (scale_data k d) | Err e => Err e end.
Proof. exact normalize_scale. Qed.

(** what "scaled result" means for the reported quantities *)
Theorem C11_steps_scale : forall k b,
  cx_steps (bc_ctx (bal_scale k b)) = map (sscale k) (cx_steps (bc_ctx b)) /\
  cx_srcs (bc_ctx (bal_scale k b)) = cx_srcs (bc_ctx b) /\ cx_srvs (bc_ctx (bal_scale k b)) = cx_srvs (bc_ctx b) /\
  cx_prio (bc_ctx (bal_scale k b)) = cx_prio (bc_ctx b).
Proof. intros. repeat split. Qed.

Theorem C11_step_projections : forall k s, 0 < k ->
  s_u (sscale k s) = k * s_u s /\ s_p (sscale k s) = k * s_p s /\ s_used (sscale k s) = k * s_used s /\
  s_exp (sscale k s) = k * s_exp s /\ s_exp_ne (sscale k s) = k * s_exp_ne s /\ s_exp_grid (sscale k s) = k * s_exp_grid s /\
  s_del_grid (sscale k s) = k * s_del_grid s /\ s_f (sscale k s) = s_f s /\
  (forall j, s_used_src (sscale k s) j = k * s_used_src s j) /\
  (forall j v, s_used_src_srv (sscale k s) j v = k * s_used_src_srv s j v).
Proof.
  intros k s K. repeat split; intros.
  - apply s_p_scale. - apply s_exp_scale. - now apply s_exp_ne_scale. - now apply s_exp_grid_scale.
  - apply s_del_grid_scale. - apply s_used_src_scale. - now apply s_used_src_srv_scale.
Qed.

Theorem C11_totals_scale : forall k ep, 0 < k ->
  t_we_a (ep_scale k ep) = rscale k (t_we_a ep) /\ t_we_b (ep_scale k ep) = rscale k (t_we_b ep) /\
  t_epus (ep_scale k ep) = k * t_epus ep /\ t_prod (ep_scale k ep) = k * t_prod ep /\
  t_del_grid (ep_scale k ep) = k * t_del_grid ep /\ t_exp (ep_scale k ep) = k * t_exp ep.
Proof.
  intros k ep K. repeat split; [apply t_we_a_scale|apply t_we_b_scale|apply t_epus_scale|apply t_prod_scale|apply t_del_grid_scale|now apply t_exp_scale].
Qed.

Theorem C11_carrier_scale : forall k b, 0 < k ->
  we_a (bc_we (bal_scale k b)) = rscale k (we_a (bc_we b)) /\ we_b (bc_we (bal_scale k b)) = rscale k (we_b (bc_we b)) /\
  we_del (bc_we (bal_scale k b)) = rscale k (we_del (bc_we b)) /\ we_exp (bc_we (bal_scale k b)) = rscale k (we_exp (bc_we b)) /\
  we_exp_a (bc_we (bal_scale k b)) = rscale k (we_exp_a (bc_we b)) /\
  (forall v, f_us_an (bc_ctx (bal_scale k b)) v = f_us_an (bc_ctx b) v).
Proof.
  intros k b K. destruct (bc_we_scale k b) as (A & B & C & D & E). repeat split; try assumption.
  intros v. now apply f_us_an_scale.
Qed.

(** RER values and load matching factors are unchanged *)
Theorem C11_ratios_unchanged : forall k ep, 0 < k ->
  t_rer (ep_scale k ep) = t_rer ep /\ t_rer_nrb (ep_scale k ep) = t_rer_nrb ep /\ t_rer_onst (ep_scale k ep) = t_rer_onst ep /\
  (forall b, vec (bc_ctx (bal_scale k b)) s_f = vec (bc_ctx b) s_f).
Proof.
  intros k ep K. repeat split; [now apply t_rer_scale|now apply t_rer_nrb_scale|now apply t_rer_onst_scale|intros; apply fmatch_vec_scale].
Qed.

(** reference area: per-m2 rows divide by the area, nothing else changes (from C04) *)
Theorem C11_area : forall c fs k a a' lm, ~ a < qfrac 1 1000 -> ~ a' < qfrac 1 1000 ->
  energy_performance c fs k a lm =
  match energy_performance c fs k a' lm with Ok ep => Ok (set_area a ep) | Err e => Err e end.
Proof. exact C04_area_only. Qed.

(** below the former absolute guard of balance.rs (production of a step under 1e-3 kWh; removed by fix c3bd83b) the
    share of a source is the same ratio: the produced energy used scales like everything else *)
Example C11_guard_note :
  let c1 := mkCol 0 0 0 0 0 (qz 1) 0 0 (qfrac 1 2000) 0 0 0 in
  used_src false false c1 EL_INSITU = qfrac 1 2000 /\ used_src false false (cscale (qz 1000) c1) EL_INSITU = qz 1000 * qfrac 1 2000.
Proof. split; apply Qc_is_canon; vm_compute; reflexivity. Qed.

Print Assumptions C11_energy.
Print Assumptions C11_steps_scale.
Print Assumptions C11_step_projections.
Print Assumptions C11_totals_scale.
Print Assumptions C11_carrier_scale.
Print Assumptions C11_ratios_unchanged.
Print Assumptions C11_area.
Print Assumptions C11_normalize_scale.
Print Assumptions C11_energy_any_values.
