(** * C05 — Parsing keeps declared data and completes ambient/solar production exactly *)
From Cteepbd Require Import Model.Components Proofs.NormFacts Proofs.DataEquiv Proofs.CompleteIdem Proofs.NormIdem Proofs.CompleteWhole.
From Coq Require Import Permutation.
Open Scope Qc_scope.

(** normalisation keeps every declared consumption, production and output component (and the
    metadata and demands), and the only components it adds besides the reassigned auxiliaries are
    completion productions of ambient heat and solar thermal energy *)
Theorem C05_keeps : forall data d, normalize_data data = Ok d ->
  exists added, Permutation (filter (fun e => negb (is_aux e)) d) (filter (fun e => negb (is_aux e)) data ++ added)
    /\ Forall (fun e => is_completion PS_EAMBIENTE e \/ is_completion PS_TERMOSOLAR e) added.
Proof. exact normalize_keeps. Qed.

Theorem C05_keeps_meta_needs : forall c c', normalize c = Ok c' -> c_meta c' = c_meta c /\ c_needs c' = c_needs c.
Proof.
  intros c c'. unfold normalize. destruct (normalize_data (c_data c)); cbn [bind]; [|discriminate].
  intros H. injection H as <-. split; reflexivity.
Qed.

(** completion appends, per system, one production of the completed source *)
Theorem C05_appends : forall cr ids data,
  exists added, complete_with cr ids data = data ++ added /\
    match source_of_carrier cr with Some src => Forall (is_completion src) added | None => added = [] end.
Proof. exact complete_with_appends. Qed.

(** the completed amount of system [i]: its use where it declares no production, otherwise
    max(0, use - declared production), step by step *)
Theorem C05_completion_value : forall env i v, unbalanced env i = Some v ->
  used_of env i <> [] /\
  (prod_of env i = [] -> v = veclistsum (used_of env i)) /\
  (prod_of env i <> [] ->
   v = map (fun p => qmax 0 (fst p - snd p)) (combine (veclistsum (used_of env i)) (veclistsum (prod_of env i)))).
Proof. exact unbalanced_spec. Qed.

(** production declared for one system never offsets another system's use *)
Theorem C05_no_pooling : forall src env env' i,
  filter (has_id i) env = filter (has_id i) env' -> completion_for src env i = completion_for src env' i.
Proof. exact completion_local. Qed.

Theorem C05_no_use_no_completion : forall src env i, used_of env i = [] -> completion_for src env i = [].
Proof. exact completion_none. Qed.

(** the final ordering is a permutation (nothing is lost or duplicated by sorting) *)
Theorem C05_sort_perm : forall l, Permutation (sort_by_id l) l.
Proof. exact sort_by_id_perm. Qed.

(** ... ordered by id, and stable: the components of each system keep their relative order *)
Theorem C05_sort_stable : forall l, sorted_by_id (sort_by_id l) /\ forall i, filter (has_id i) (sort_by_id l) = filter (has_id i) l.
Proof. intros l. split; [apply sort_by_id_sorted|intros i; apply sort_by_id_stable]. Qed.

(** non-vacuity and the documented example: two heat pumps, production declared for a third system *)
Example C05_example :
  let data := [EUsed 1 EAMBIENTE ACS [qz 150] []; EUsed 2 EAMBIENTE CAL [qz 300] [];
               EProd 0 PS_EAMBIENTE [qz 100] []; EProd 1 PS_EAMBIENTE [qz 100] []; EProd 2 PS_EAMBIENTE [qz 100] []] in
  match normalize_data data with
  | Ok d => map (fun e => (e_id e, e_vals e)) (filter (fun e => is_generated e) d)
            = [(0%Z, [qz 100]); (1%Z, [qz 100]); (1%Z, [qz 50]); (2%Z, [qz 100]); (2%Z, [qz 200])]
  | Err _ => False end.
Proof. vm_compute. reflexivity. Qed.

(** "Normalizing an already normalized set changes nothing", completion part: completing a set that has just been
    completed (all value vectors of one length) adds nothing — with the production added the first time, the uncovered
    use of every system is zero at every step *)
Theorem C05_completion_twice_changes_nothing : forall n cr src data,
  source_of_carrier cr = Some src -> wf n data -> complete cr (complete cr data) = complete cr data.
Proof. intros. eapply complete_twice; eassumption. Qed.

(** "Normalizing an already normalized set changes nothing": for every component set whose value vectors have one
    length (every set the reader accepts), normalising the result of a normalisation returns the very same list —
    nothing is left to complete, every system's auxiliary components are recomputed to the same components, the sort
    finds the list sorted.  (In the rational model; the implementation recomputes the shares in f32, which the
    differential run bounds.) *)
Theorem C05_normalize_idempotent : forall n c c', wf n (c_data c) -> normalize c = Ok c' -> normalize c' = Ok c'.
Proof. exact normalize_idempotent. Qed.

(** in particular what the components reader returns is a fixed point of normalisation *)
Theorem C05_read_components_are_normalized : forall s c, Parse.parse_components s = Parse.POk c -> normalize c = Ok c.
Proof. exact parsed_components_are_normalized. Qed.

(** end to end, through the whole normalisation (both completion passes, the reassignment of auxiliary energy, the
    sort): in the normalised list the production of an on-site thermal carrier attributed to system [i] adds up, at every
    step, to the production declared for that system plus what the completion adds for it ... *)
Theorem C05_normalized_production : forall data d cr src i t, normalize_data data = Ok d ->
  source_of_carrier cr = Some src ->
  sum_at (prod_of (filter (has_carrier cr) d) i) t
  = sum_at (prod_of (filter (has_carrier cr) data) i) t + completed_at src (filter (has_carrier cr) data) i t.
Proof. intros data d cr src i t H S. exact (normalized_production data d H cr src i t S). Qed.

(** ... which is max(0, use - declared production) of that same system at that step (a system without use of the carrier
    gets nothing: C05_no_use_no_completion) *)
Theorem C05_completed_value : forall n env i src t, wf n env -> (t < n)%nat -> used_of env i <> [] -> prod_of env i <> [] ->
  completed_at src env i t = qmax 0 (sum_at (used_of env i) t - sum_at (prod_of env i) t).
Proof. exact completed_with_production. Qed.

Theorem C05_completed_value_without_production : forall n env i src t, wf n env -> (t < n)%nat -> used_of env i <> [] ->
  prod_of env i = [] -> Forall (fun e => Forall (fun x => 0 <= x) (e_vals e)) (used_of env i) ->
  completed_at src env i t = sum_at (used_of env i) t.
Proof. exact completed_without_production. Qed.

Print Assumptions C05_keeps.
Print Assumptions C05_completion_twice_changes_nothing.
Print Assumptions C05_keeps_meta_needs.
Print Assumptions C05_appends.
Print Assumptions C05_completion_value.
Print Assumptions C05_no_pooling.
Print Assumptions C05_no_use_no_completion.
Print Assumptions C05_sort_perm.
Print Assumptions C05_sort_stable.
Print Assumptions C05_normalize_idempotent.
Print Assumptions C05_read_components_are_normalized.
Print Assumptions C05_normalized_production.
Print Assumptions C05_completed_value.
Print Assumptions C05_completed_value_without_production.
