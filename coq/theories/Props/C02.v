(** * C02 — Results equal the EN ISO 52000-1 balance equations evaluated independently

    [Spec/Iso52000.v] states the equations (2), (9)-(14), (20)-(28), (32), E.3.6 and the
    cogeneration factor as closed expressions over the component list.  The theorems below say
    that every quantity the model reports is the corresponding expression of the specification;
    [Golden.v] anchors the model on the worked examples J1-J9 of ISO/TR 52000-2. *)
From Cteepbd Require Import Model.Balance Spec.Iso52000 Proofs.EpFacts Proofs.Refine Golden.
Open Scope Qc_scope.

Theorem C02_flows : forall data lm cr, flows_refine data lm cr.
Proof. exact flows_refine_proof. Qed.

Theorem C02_structure : forall data lm cr,
  let x := mk_ctx cr lm data in
  cx_prio x = with_priority data cr /\
  (forall j, has_src x j = declared data cr j) /\ (forall s, has_srv x s = served data cr s).
Proof. intros. repeat split; [apply prio_spec|intros; apply has_src_declared|intros; apply has_srv_served]. Qed.

Theorem C02_weighted : forall data lm cr fs k p,
  let x := mk_ctx cr lm data in
  let n := num_steps_of (filter (has_carrier cr) data) in
  weighted_parts fs x = Ok p ->
  let w := we_of_parts k p in
  we_del w = W_del data (look fs) lm n cr /\
  we_exp_a w = W_exp_A data (look fs) lm n cr /\
  we_exp_ab w = W_exp_AB data (look fs) lm n cr /\
  we_a w = E_we_A data (look fs) lm n cr /\
  we_b w = E_we_B data (look fs) k lm n cr.
Proof. intros data lm cr fs k p x n H. exact (weighted_refines data lm cr fs k p H). Qed.

Theorem C02_service_share : forall data lm cr s, srv_is_epb s = true ->
  f_us_an (mk_ctx cr lm data) s = srv_share data (num_steps_of (filter (has_carrier cr) data)) cr s.
Proof. exact srv_share_spec. Qed.

Theorem C02_cogeneration_factor : forall fs data r,
  compute_cgn_exp_fP_A fs data false = Ok (Some r) ->
  r = spec_cgn_factor data (look fs) (cgn_num_steps data).
Proof. exact cgn_factor_refines. Qed.

(** whole building: the result of [energy_performance] is, carrier by carrier, the specification
    evaluated with the factor set extended by the cogeneration factors *)
Theorem C02_building : forall c fs k area lm ep,
  energy_performance c fs k area lm = Ok ep ->
  Forall (fun b =>
            let cr := cx_cr (bc_ctx b) in
            let n := num_steps_of (filter (has_carrier cr) (c_data c)) in
            bc_ctx b = mk_ctx cr lm (c_data c) /\
            we_a (bc_we b) = E_we_A (c_data c) (look (ep_factors ep)) lm n cr /\
            we_b (bc_we b) = E_we_B (c_data c) (look (ep_factors ep)) k lm n cr)
         (ep_bal ep)
  /\ t_we_b ep = rsum (map (fun b => we_b (bc_we b)) (ep_bal ep))
  /\ t_rer ep = rrer (t_we_b ep).
Proof.
  intros c fs k area lm ep H. destruct (ep_ok _ _ _ _ _ _ H) as (_ & _ & _ & _ & B & _ & K & _).
  split; [|split; reflexivity].
  rewrite Forall_forall in *. intros b Hb. destruct (B b Hb) as [Hc Hw]. cbv zeta. split; [exact Hc|].
  rewrite Hc in Hw. pose proof (weighted_refines (c_data c) lm _ (ep_factors ep) (bc_k b) _ Hw) as R.
  cbv zeta in R. destruct R as (_ & _ & _ & Ra & Rb). unfold bc_we. rewrite (K b Hb) in *. split; assumption.
Qed.

(** the worked examples of ISO/TR 52000-2 (proved in Golden.v by evaluation) *)
Theorem C02_golden :
  golden J1_c J1_f (qfrac (1) 1) (qfrac (50) 1, qfrac (200) 1, qfrac (42) 1) (qfrac (50) 1, qfrac (200) 1, qfrac (42) 1) = true /\
  golden J3_c J3_f (qfrac (1) 1) (qfrac (120) 1, qfrac (-80) 1, qfrac (-84) 5) (qfrac (100) 1, qfrac (0) 1, qfrac (0) 1) = true /\
  golden J9_c J9_f (qfrac (1) 1) (qfrac (2771) 2, qfrac (-662) 1, qfrac (-139) 1) (qfrac (2019) 2, qfrac (842) 1, qfrac (884) 5) = true.
Proof. repeat split; vm_compute; reflexivity. Qed.

Print Assumptions C02_flows.
Print Assumptions C02_structure.
Print Assumptions C02_weighted.
Print Assumptions C02_service_share.
Print Assumptions C02_cogeneration_factor.
Print Assumptions C02_building.
Print Assumptions C02_golden.
