(** * C08 — Simplifying the factor set never changes the result *)
From Cteepbd Require Import Model.Factors Model.Components Proofs.ColFacts Proofs.FactorFacts Proofs.NeededKeys
  Proofs.CtxFacts Proofs.StripFacts.
Open Scope Qc_scope.

(** evaluating with the stripped set gives the same error, or the same carrier balances (hence the
    same totals, per-m2 values and RER, which are functions of them), for every building with
    non-negative values whose auxiliary components carry no COGEN service (true of every normalised
    component set) and every factor set *)
Theorem C08_invisible : forall c fs k area lm,
  nonneg_data (c_data c) -> aux_ok (c_data c) ->
  match energy_performance c fs k area lm, energy_performance c (strip fs (c_data c)) k area lm with
  | Ok e, Ok e' => ep_bal e = ep_bal e' /\ ep_k e = ep_k e' /\ ep_area e = ep_area e' /\ ep_needs e = ep_needs e' /\ ep_data e = ep_data e'
  | Err a, Err b => a = b
  | _, _ => False
  end.
Proof. exact strip_invisible. Qed.

(** in particular a successful evaluation is never turned into an error *)
Corollary C08_no_new_error : forall c fs k area lm e,
  nonneg_data (c_data c) -> aux_ok (c_data c) ->
  energy_performance c fs k area lm = Ok e -> exists e', energy_performance c (strip fs (c_data c)) k area lm = Ok e'.
Proof.
  intros c fs k area lm e Hn Ha H. pose proof (strip_invisible c fs k area lm Hn Ha) as S. rewrite H in S.
  destruct (energy_performance c (strip fs (c_data c)) k area lm); [eauto|contradiction].
Qed.

(** the factors the evaluation of a carrier may look up are kept *)
Theorem C08_needed_kept : forall data lm cr k,
  nonneg_data data -> aux_ok data -> In cr (avail_carriers data) ->
  In k (needed (mk_ctx cr lm data)) -> strip_pred data k = true.
Proof. intros data lm cr k Hn Ha Hc. exact (needed_kept data lm cr Hn Ha Hc k). Qed.

Theorem C08_strip_is_a_key_filter : forall fs data, strip fs data = filter (fun f => strip_pred data (key_of f)) fs.
Proof. exact strip_as_filter. Qed.

(** the hypothesis on auxiliaries is needed: the counter-example found while proving the theorem
    (before fix d9ddfb3 normalisation could produce it) *)
Example C08_aux_cogen_counterexample :
  let data := [EUsed 1 GASNATURAL COGEN [qz 100] []; EProd 1 EL_COGEN [qz 30] []; EAux 1 COGEN [qz 5] [];
               EProd 2 EL_INSITU [qz 50] []; EUsed 2 ELECTRICIDAD ILU [qz 10] []] in
  let c := mkComponents [] data (mkNeeds None None None) in
  let fs := [mkFactor ELECTRICIDAD RED SUMINISTRO STEP_A (mkRNC (qfrac 1 2) (qz 2) (qfrac 42 100)) [];
             mkFactor GASNATURAL RED SUMINISTRO STEP_A (mkRNC 0 (qfrac 11 10) (qfrac 22 100)) []] in
  match normalize_factors fs default_red default_red with
  | Ok fs' => (exists e, energy_performance c fs' 0 (qz 1) false = Ok e) /\
              energy_performance c (strip fs' data) 0 (qz 1) false = Err MissingFactor
  | Err _ => False end.
Proof. vm_compute. split; [eexists; reflexivity|reflexivity]. Qed.

Print Assumptions C08_invisible.
Print Assumptions C08_no_new_error.
Print Assumptions C08_needed_kept.
Print Assumptions C08_strip_is_a_key_filter.
