(** * C03 — k_exp only interpolates between step A and step B *)
From Cteepbd Require Import Model.Balance Proofs.EpFacts.
Open Scope Qc_scope.

(** affine combination on RNC triples: a + k (b - a) *)
Definition raff (k : Qc) (a b : RNC) : RNC := radd a (rscale k (rsub b a)).

(** ** Per carrier *)
Lemma we_affine_parts k p :
  we_b (we_of_parts k p) = raff k (we_a (we_of_parts k p)) (we_b (we_of_parts 1 p)).
Proof. unfold raff, we_of_parts. cbn [we_b we_a]. rnc. Qed.

Lemma we_k_indep k k' p :
  let w := we_of_parts k p in let w' := we_of_parts k' p in
  we_a w = we_a w' /\ we_del w = we_del w' /\ we_del_grid w = we_del_grid w' /\ we_del_onst w = we_del_onst w' /\
  we_del_cgn w = we_del_cgn w' /\ we_exp_a w = we_exp_a w' /\ we_exp_nepus_a w = we_exp_nepus_a w' /\
  we_exp_grid_a w = we_exp_grid_a w' /\ we_exp_ab w = we_exp_ab w' /\ we_exp_nepus_ab w = we_exp_nepus_ab w' /\
  we_exp_grid_ab w = we_exp_grid_ab w'.
Proof. cbv zeta. repeat split; reflexivity. Qed.

Lemma we_b_k0 p : we_b (we_of_parts 0 p) = we_a (we_of_parts 0 p).
Proof. unfold we_of_parts. cbn [we_b we_a]. rnc. Qed.

(** ** Whole building: the evaluation at k is the evaluation at any k' with the field k replaced *)
Lemma C03_structure c fs k k' area lm :
  energy_performance c fs k area lm =
  match energy_performance c fs k' area lm with Ok ep => Ok (set_k k ep) | Err e => Err e end.
Proof. apply ep_k_only. Qed.

(** flows, factors (incl. derived cogeneration factors), step A and all k-independent parts are shared *)
Lemma set_k_flows k ep :
  ep_data (set_k k ep) = ep_data ep /\ ep_factors (set_k k ep) = ep_factors ep /\ ep_area (set_k k ep) = ep_area ep /\
  map bc_ctx (ep_bal (set_k k ep)) = map bc_ctx (ep_bal ep) /\
  map bc_parts (ep_bal (set_k k ep)) = map bc_parts (ep_bal ep).
Proof.
  unfold set_k. cbn. repeat split; rewrite map_map; reflexivity.
Qed.

Lemma t_we_a_set_k k ep : t_we_a (set_k k ep) = t_we_a ep.
Proof. unfold t_we_a, rtotal, set_k. cbn [ep_bal]. rewrite map_map. reflexivity. Qed.

Lemma t_we_b_affine k ep :
  t_we_b (set_k k ep) = raff k (t_we_a ep) (t_we_b (set_k 1 ep)).
Proof.
  unfold t_we_b, t_we_a, rtotal, set_k, raff. cbn [ep_bal]. rewrite !map_map.
  rewrite <- rsum_map_affine. apply rsum_map_ext. intros b _.
  unfold bc_we, set_k_bal. cbn [bc_k bc_parts]. unfold we_of_parts. cbn [we_b we_a]. rnc.
Qed.

(** by service *)
Lemma with_srv_set_k k ep s : with_srv (set_k k ep) s = map (set_k_bal k) (with_srv ep s).
Proof.
  unfold with_srv, set_k. cbn [ep_bal]. induction (ep_bal ep) as [|b l IH]; cbn [map filter]; [reflexivity|].
  change (bc_ctx (set_k_bal k b)) with (bc_ctx b). destruct (has_srv (bc_ctx b) s); cbn [map]; now rewrite IH.
Qed.

Lemma t_we_b_srv_affine k ep s :
  t_we_b_srv (set_k k ep) s = raff k (t_we_a_srv ep s) (t_we_b_srv (set_k 1 ep) s).
Proof.
  unfold t_we_b_srv, t_we_a_srv, raff. rewrite !with_srv_set_k, !map_map.
  rewrite <- rsum_map_affine. apply rsum_map_ext. intros b _.
  unfold we_b_srv, we_a_srv, bc_we, set_k_bal. cbn [bc_k bc_parts bc_ctx]. unfold we_of_parts. cbn [we_b we_a]. rnc.
Qed.

Lemma t_we_a_srv_set_k k ep s : t_we_a_srv (set_k k ep) s = t_we_a_srv ep s.
Proof.
  unfold t_we_a_srv. rewrite with_srv_set_k, map_map. apply rsum_map_ext. intros b _. reflexivity.
Qed.

(** per m2: scaling by 1/area commutes with the affine combination *)
Lemma raff_scale ka k a b : rscale ka (raff k a b) = raff k (rscale ka a) (rscale ka b).
Proof. unfold raff. rnc. Qed.

(** ** No export: the result does not depend on k_exp *)
Lemma parts_no_export fs x p : weighted_parts fs x = Ok p -> a_exp x = 0 ->
  wp_xa_ne p = rnc0 /\ wp_xa_gr p = rnc0 /\ wp_xab_ne p = rnc0 /\ wp_xab_gr p = rnc0.
Proof.
  unfold weighted_parts, a_exp. intros H Z.
  destruct (findf fs (cx_cr x) RED SUMINISTRO STEP_A) as [g|]; cbn [bind] in H; [|discriminate].
  destruct (if qeqb (a_del_onst x) 0 then _ else _) as [wo|]; cbn [bind] in H; [|discriminate].
  rewrite Z in H. destruct (qeqb_spec 0 0) as [_|N]; [|congruence].
  injection H as <-. cbn. repeat split.
Qed.

Lemma no_export_k_indep fs lm data k k' ep :
  Forall (bal_ok fs lm data) (ep_bal ep) ->
  Forall (fun b => a_exp (bc_ctx b) = 0) (ep_bal ep) ->
  t_we_b (set_k k ep) = t_we_b (set_k k' ep) /\
  (forall s, t_we_b_srv (set_k k ep) s = t_we_b_srv (set_k k' ep) s).
Proof.
  intros Hok Hz.
  assert (E : forall b, In b (ep_bal ep) -> we_b (bc_we (set_k_bal k b)) = we_b (bc_we (set_k_bal k' b))).
  { intros b Hb. rewrite Forall_forall in Hok, Hz. destruct (Hok b Hb) as (_ & W).
    destruct (parts_no_export _ _ _ W (Hz b Hb)) as (A & B & C & D).
    unfold bc_we, set_k_bal. cbn [bc_k bc_parts]. unfold we_of_parts. cbn [we_b]. rewrite A, B, C, D. rnc. }
  split.
  - unfold t_we_b, rtotal, set_k. cbn [ep_bal]. rewrite !map_map. apply rsum_map_ext. exact E.
  - intros s. unfold t_we_b_srv. rewrite !with_srv_set_k, !map_map. apply rsum_map_ext.
    intros b Hb. unfold we_b_srv. change (bc_ctx (set_k_bal k b)) with (bc_ctx b). change (bc_ctx (set_k_bal k' b)) with (bc_ctx b).
    rewrite E; [reflexivity|]. unfold with_srv in Hb. apply filter_In in Hb. tauto.
Qed.

(** ** Property theorems *)

Theorem C03_k_only : forall c fs k k' area lm,
  energy_performance c fs k area lm =
  match energy_performance c fs k' area lm with Ok ep => Ok (set_k k ep) | Err e => Err e end.
Proof. exact C03_structure. Qed.

Theorem C03_flows_const : forall k ep,
  ep_data (set_k k ep) = ep_data ep /\ ep_factors (set_k k ep) = ep_factors ep /\ ep_area (set_k k ep) = ep_area ep /\
  map bc_ctx (ep_bal (set_k k ep)) = map bc_ctx (ep_bal ep) /\
  map bc_parts (ep_bal (set_k k ep)) = map bc_parts (ep_bal ep).
Proof. exact set_k_flows. Qed.

Theorem C03_affine_carrier : forall k p,
  we_b (we_of_parts k p) = raff k (we_a (we_of_parts k p)) (we_b (we_of_parts 1 p))
  /\ we_b (we_of_parts 0 p) = we_a (we_of_parts 0 p).
Proof. intros. split; [apply we_affine_parts|apply we_b_k0]. Qed.

Theorem C03_stepA_const : forall k k' p,
  let w := we_of_parts k p in let w' := we_of_parts k' p in
  we_a w = we_a w' /\ we_del w = we_del w' /\ we_del_grid w = we_del_grid w' /\ we_del_onst w = we_del_onst w' /\
  we_del_cgn w = we_del_cgn w' /\ we_exp_a w = we_exp_a w' /\ we_exp_nepus_a w = we_exp_nepus_a w' /\
  we_exp_grid_a w = we_exp_grid_a w' /\ we_exp_ab w = we_exp_ab w' /\ we_exp_nepus_ab w = we_exp_nepus_ab w' /\
  we_exp_grid_ab w = we_exp_grid_ab w'.
Proof. exact we_k_indep. Qed.

Theorem C03_affine_total : forall k ep,
  t_we_b (set_k k ep) = raff k (t_we_a ep) (t_we_b (set_k 1 ep)) /\ t_we_a (set_k k ep) = t_we_a ep.
Proof. intros. split; [apply t_we_b_affine|apply t_we_a_set_k]. Qed.

Theorem C03_affine_service : forall k ep s,
  t_we_b_srv (set_k k ep) s = raff k (t_we_a_srv ep s) (t_we_b_srv (set_k 1 ep) s)
  /\ t_we_a_srv (set_k k ep) s = t_we_a_srv ep s.
Proof. intros. split; [apply t_we_b_srv_affine|apply t_we_a_srv_set_k]. Qed.

Theorem C03_affine_m2 : forall ka k a b, rscale ka (raff k a b) = raff k (rscale ka a) (rscale ka b).
Proof. exact raff_scale. Qed.

Theorem C03_no_export : forall fs lm data k k' ep,
  Forall (bal_ok fs lm data) (ep_bal ep) ->
  Forall (fun b => a_exp (bc_ctx b) = 0) (ep_bal ep) ->
  t_we_b (set_k k ep) = t_we_b (set_k k' ep) /\
  (forall s, t_we_b_srv (set_k k ep) s = t_we_b_srv (set_k k' ep) s).
Proof. exact no_export_k_indep. Qed.

Theorem C03_results_are_ok : forall c fs k area lm ep,
  energy_performance c fs k area lm = Ok ep ->
  Forall (bal_ok (ep_factors ep) lm (c_data c)) (ep_bal ep).
Proof. intros c fs k area lm ep H. now destruct (ep_ok _ _ _ _ _ _ H) as (_ & _ & _ & _ & A & _). Qed.

Print Assumptions C03_k_only.
Print Assumptions C03_flows_const.
Print Assumptions C03_affine_carrier.
Print Assumptions C03_stepA_const.
Print Assumptions C03_affine_total.
Print Assumptions C03_affine_service.
Print Assumptions C03_affine_m2.
Print Assumptions C03_no_export.
Print Assumptions C03_results_are_ok.
