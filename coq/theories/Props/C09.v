(** * C09 — Annual results do not depend on how time is laid out *)
From Cteepbd Require Import Model.Balance Proofs.ColFacts Proofs.EpFacts Proofs.DataEquiv Proofs.Homog Proofs.Transform Proofs.TimeLayout.
Open Scope Qc_scope.

(** reordering the time steps of all components by the same permutation [sigma] of 0..n-1:
    same error, or, carrier by carrier, the same weighted parts (hence the same step A / step B results,
    totals and RER), the same structure, and the same step records in permuted order *)
Theorem C09_perm : forall sigma n meta nd fs k area lm data,
  Permutation sigma (seq 0 n) -> wf n data ->
  ep_rel perm_rel (energy_performance (mkComponents meta data nd) fs k area lm)
                  (energy_performance (mkComponents meta (perm_data sigma data) nd) fs k area lm).
Proof. exact perm_invariant. Qed.

(** the per-step records follow the permutation *)
Theorem C09_perm_steps : forall sigma n cr lm data,
  Permutation sigma (seq 0 n) -> wf n data -> filter (has_carrier cr) data <> [] ->
  cx_steps (mk_ctx cr lm data) = map (stepf cr lm data) (seq 0 n) /\
  cx_steps (mk_ctx cr lm (perm_data sigma data)) = map (stepf cr lm data) sigma.
Proof.
  intros sigma n cr lm data Hs Hwf Hne. split.
  - rewrite (steps_orig cr lm data). now rewrite (num_steps_n n cr data Hwf Hne).
  - now apply (steps_perm sigma n cr lm data Hs Hwf).
Qed.

Theorem C09_perm_annual : forall sigma n cr lm data g,
  Permutation sigma (seq 0 n) -> wf n data -> ann (mk_ctx cr lm (perm_data sigma data)) g = ann (mk_ctx cr lm data) g.
Proof. intros. now apply (ann_perm sigma n). Qed.

(** splitting every step into m equal sub-steps carrying 1/m of its energy (values of both layouts in
    the domain): same error, or the same weighted parts and structure, every step record replaced by m
    copies scaled by 1/m (the load matching factor of the copies is that of the original step) *)
Theorem C09_subdivide : forall m n meta nd fs k area lm data, (0 < m)%nat -> wf n data ->
  dom_data data -> dom_data (sub_data m data) ->
  ep_rel (sub_rel m) (energy_performance (mkComponents meta data nd) fs k area lm)
                     (energy_performance (mkComponents meta (sub_data m data) nd) fs k area lm).
Proof.
  intros m n meta nd fs k area lm data Hm Hwf D D'. apply (sub_invariant m n); try assumption; intros cr; now apply dom_data_cols.
Qed.

Theorem C09_subdivide_annual : forall m n cr lm data g, (0 < m)%nat -> wf n data ->
  dom_data data -> dom_data (sub_data m data) ->
  (forall s, g (sscale (1 / qn m) s) = (1 / qn m) * g s) ->
  ann (mk_ctx cr lm (sub_data m data)) g = ann (mk_ctx cr lm data) g.
Proof. intros m n cr lm data g Hm Hwf D D' Hg. apply (ann_sub m); try assumption; now apply dom_data_cols. Qed.

(** equal weighted parts and k give equal step A / step B weighted energy *)
Theorem C09_same_results : forall R b b', bal_rel R b b' -> bc_we b = bc_we b'.
Proof. intros R b b' (_ & P & K). unfold bc_we. now rewrite P, K. Qed.

Example C09_nonvacuous :
  let data := [EUsed 1 ELECTRICIDAD ACS [qz 100; qz 50; qz 20] []; EProd 1 EL_INSITU [qz 30; qz 80; qz 10] []] in
  map s_used (cx_steps (mk_ctx ELECTRICIDAD false (perm_data [2; 0; 1]%nat data))) = [qz 10; qz 30; qz 50].
Proof. vm_compute. reflexivity. Qed.

Print Assumptions C09_perm.
Print Assumptions C09_perm_steps.
Print Assumptions C09_perm_annual.
Print Assumptions C09_subdivide.
Print Assumptions C09_subdivide_annual.
Print Assumptions C09_same_results.
