(** * C09 — Annual results do not depend on how time is laid out *)
From Cteepbd Require Import Model.Balance Proofs.ColFacts Proofs.EpFacts Proofs.DataEquiv Proofs.Homog Proofs.Transform Proofs.TimeLayout Proofs.WfFacts Proofs.NormLayout.
Open Scope Qc_scope.

(** reordering the time steps of all components by the same permutation [sigma] of 0..n-1:
    same error, or, carrier by carrier, the same weighted parts (hence the same step A / step B results,
    totals and RER), the same structure, and the same step records in permuted order *)
Theorem C09_perm : forall sigma n meta nd fs k area lm data,
  Permutation sigma (seq 0 n) -> wf n data ->
  ep_rel perm_rel (energy_performance (mkComponents meta data nd) fs k area lm)
                  (energy_performance (mkComponents meta (perm_data sigma data) nd) fs k area lm).
Proof. exact perm_invariant. Qed.

(** the per-step records follow the permutation *)
Theorem C09_perm_steps : forall sigma n cr lm data,
  Permutation sigma (seq 0 n) -> wf n data -> filter (has_carrier cr) data <> [] ->
  cx_steps (mk_ctx cr lm data) = map (stepf cr lm data) (seq 0 n) /\
  cx_steps (mk_ctx cr lm (perm_data sigma data)) = map (stepf cr lm data) sigma.
Proof.
  intros sigma n cr lm data Hs Hwf Hne. split.
  - rewrite (steps_orig cr lm data). now rewrite (num_steps_n n cr data Hwf Hne).
  - now apply (steps_perm sigma n cr lm data Hs Hwf).
Qed.

Theorem C09_perm_annual : forall sigma n cr lm data g,
  Permutation sigma (seq 0 n) -> wf n data -> ann (mk_ctx cr lm (perm_data sigma data)) g = ann (mk_ctx cr lm data) g.
Proof. intros. now apply (ann_perm sigma n). Qed.

(** splitting every step into m equal sub-steps carrying 1/m of its energy (values of both layouts in
    the domain): same error, or the same weighted parts and structure, every step record replaced by m
    copies scaled by 1/m (the load matching factor of the copies is that of the original step) *)
Theorem C09_subdivide : forall m n meta nd fs k area lm data, (0 < m)%nat -> wf n data ->
  dom_data data -> dom_data (sub_data m data) ->
  ep_rel (sub_rel m) (energy_performance (mkComponents meta data nd) fs k area lm)
                     (energy_performance (mkComponents meta (sub_data m data) nd) fs k area lm).
Proof.
  intros m n meta nd fs k area lm data Hm Hwf D D'. apply (sub_invariant m n); try assumption; intros cr; now apply dom_data_cols.
Qed.

Theorem C09_subdivide_annual : forall m n cr lm data g, (0 < m)%nat -> wf n data ->
  dom_data data -> dom_data (sub_data m data) ->
  (forall s, g (sscale (1 / qn m) s) = (1 / qn m) * g s) ->
  ann (mk_ctx cr lm (sub_data m data)) g = ann (mk_ctx cr lm data) g.
Proof. intros m n cr lm data g Hm Hwf D D' Hg. apply (ann_sub m); try assumption; now apply dom_data_cols. Qed.

(** ** from the declared components: normalisation (completion of ambient heat / solar thermal energy, assignment of the
    auxiliary energy by output shares, sort) commutes with both re-layouts, so the statements above apply to what a file
    declares and not only to normalised component lists *)
Theorem C09_normalize_perm : forall sigma n data, Permutation sigma (seq 0 n) -> wf n data ->
  Components.normalize_data (perm_data sigma data)
  = match Components.normalize_data data with Ok d => Ok (perm_data sigma d) | Err e => Err e end.
Proof. exact normalize_perm. Qed.

Theorem C09_normalize_subdivide : forall m n data, (0 < m)%nat -> wf n data ->
  Components.normalize_data (sub_data m data)
  = match Components.normalize_data data with Ok d => Ok (sub_data m d) | Err e => Err e end.
Proof. exact normalize_sub. Qed.

Theorem C09_perm_declared : forall sigma n meta nd fs k area lm data d,
  Permutation sigma (seq 0 n) -> wf n data -> Components.normalize_data data = Ok d ->
  Components.normalize_data (perm_data sigma data) = Ok (perm_data sigma d) /\
  ep_rel perm_rel (energy_performance (mkComponents meta d nd) fs k area lm)
                  (energy_performance (mkComponents meta (perm_data sigma d) nd) fs k area lm).
Proof.
  intros sigma n meta nd fs k area lm data d Hs W H. split.
  - rewrite (normalize_perm sigma n data Hs W), H. reflexivity.
  - apply (perm_invariant sigma n); [exact Hs|]. exact (normalize_wf n data d W H).
Qed.

Theorem C09_subdivide_declared : forall m n meta nd fs k area lm data d, (0 < m)%nat -> wf n data ->
  Components.normalize_data data = Ok d -> dom_data d -> dom_data (sub_data m d) ->
  Components.normalize_data (sub_data m data) = Ok (sub_data m d) /\
  ep_rel (sub_rel m) (energy_performance (mkComponents meta d nd) fs k area lm)
                     (energy_performance (mkComponents meta (sub_data m d) nd) fs k area lm).
Proof.
  intros m n meta nd fs k area lm data d Hm W H D D'. split.
  - rewrite (normalize_sub m n data Hm W), H. reflexivity.
  - apply (sub_invariant m n); try assumption; [exact (normalize_wf n data d W H)| |]; intros cr; now apply dom_data_cols.
Qed.

(** without a floor on the values (since fix c3bd83b nothing in the evaluation compares an energy with an absolute
    threshold): subdivision for every component set with non-negative values, also from the declared components *)
Theorem C09_subdivide_any_values : forall m n meta nd fs k area lm data, (0 < m)%nat -> wf n data -> nonneg_data data ->
  ep_rel (sub_rel m) (energy_performance (mkComponents meta data nd) fs k area lm)
                     (energy_performance (mkComponents meta (sub_data m data) nd) fs k area lm).
Proof.
  intros m n meta nd fs k area lm data Hm Hwf Hn. apply (sub_invariant m n); try assumption; intros cr; apply nonneg_cols; [exact Hn|now apply nonneg_sub].
Qed.

(** equal weighted parts and k give equal step A / step B weighted energy *)
Theorem C09_same_results : forall R b b', bal_rel R b b' -> bc_we b = bc_we b'.
Proof. intros R b b' (_ & P & K). unfold bc_we. now rewrite P, K. Qed.

Example C09_nonvacuous :
  let data := [EUsed 1 ELECTRICIDAD ACS [qz 100; qz 50; qz 20] []; EProd 1 EL_INSITU [qz 30; qz 80; qz 10] []] in
  map s_used (cx_steps (mk_ctx ELECTRICIDAD false (perm_data [2; 0; 1]%nat data))) = [qz 10; qz 30; qz 50].
Proof. vm_compute. reflexivity. Qed.

Print Assumptions C09_perm.
Print Assumptions C09_perm_steps.
Print Assumptions C09_perm_annual.
Print Assumptions C09_subdivide.
Print Assumptions C09_subdivide_annual.
Print Assumptions C09_same_results.
Print Assumptions C09_normalize_perm.
Print Assumptions C09_normalize_subdivide.
Print Assumptions C09_perm_declared.
Print Assumptions C09_subdivide_declared.
Print Assumptions C09_subdivide_any_values.
