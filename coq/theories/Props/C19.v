(** * C19 — CLI options beat file metadata, which beats defaults; bad values are refused

    [resolve] (Model/Cli.v) is the decision model of main(): every argument is absent, present but not a
    number ([Invalid]), or present with a value; the values are universally quantified and the
    configuration lattice is analysed exhaustively. *)
From Cteepbd Require Import Model.Cli.
Open Scope Qc_scope.

Definition bad (ok : Qc -> bool) (a : arg Qc) : Prop := a = Invalid \/ exists v, a = Given v /\ ok v = false.
Definition good (ok : Qc -> bool) (a : arg Qc) : Prop := a = Absent \/ exists v, a = Given v /\ ok v = true.

Lemma good_or_bad ok a : good ok a \/ bad ok a.
Proof. destruct a as [| |v]; [left; now left|right; now left|]. destruct (ok v) eqn:E; [left|right]; right; eauto. Qed.

Lemma validate_good ok a : good ok a -> validate ok a = Some (match a with Given v => Some v | _ => None end).
Proof. intros [->|(v & -> & H)]; cbn; [reflexivity|now rewrite H]. Qed.
Lemma validate_bad ok a : bad ok a -> validate ok a = None.
Proof. intros [->|(v & -> & H)]; cbn; [reflexivity|now rewrite H]. Qed.

(** a factor is badly given: an unreadable option, or no option and unreadable metadata *)
Definition badf (cli meta : arg RNC) : Prop := cli = Invalid \/ (cli = Absent /\ meta = Invalid).

Definition source_available (file_given loc_cli : bool) (loc_meta : arg unit) : Prop :=
  file_given = true \/ loc_cli = true \/ exists u, loc_meta = Given u.

Section Any.
  Variables (kexp_cli area_cli : arg Qc) (red1_cli red1_meta red2_cli red2_meta : arg RNC)
            (file_given loc_cli : bool) (loc_meta : arg unit) (area_meta kexp_meta : arg Qc).
  Let out := resolve kexp_cli area_cli red1_cli red1_meta red2_cli red2_meta file_given loc_cli loc_meta area_meta kexp_meta.

  (** the program only ever ends with a result, 64 or 65 *)
  Lemma exit_codes : (exists s, out = Runs s) \/ out = Exits EXIT_USAGE \/ out = Exits EXIT_DATAERR.
  Proof.
    unfold out, resolve, resolve_source.
    destruct (validate kexp_ok kexp_cli); [|tauto]. destruct (validate area_ok area_cli); [|tauto].
    destruct (resolve_factor red1_cli red1_meta); [|tauto]. destruct (resolve_factor red2_cli red2_meta); [|tauto].
    destruct file_given, loc_cli, loc_meta; try tauto;
      destruct (validate area_ok area_meta); try tauto; destruct (validate kexp_ok kexp_meta); try tauto; left; eauto.
  Qed.

  (** a bad number anywhere, in an option or in the metadata, and there is no result *)
  Lemma runs_inv s : out = Runs s ->
    validate kexp_ok kexp_cli <> None /\ validate area_ok area_cli <> None /\
    resolve_factor red1_cli red1_meta <> None /\ resolve_factor red2_cli red2_meta <> None /\
    validate area_ok area_meta <> None /\ validate kexp_ok kexp_meta <> None.
  Proof.
    unfold out, resolve. intros E.
    destruct (validate kexp_ok kexp_cli); [|discriminate]. destruct (validate area_ok area_cli); [|discriminate].
    destruct (resolve_factor red1_cli red1_meta); [|discriminate]. destruct (resolve_factor red2_cli red2_meta); [|discriminate].
    destruct (resolve_source file_given loc_cli loc_meta); [discriminate|].
    destruct (validate area_ok area_meta); [|discriminate]. destruct (validate kexp_ok kexp_meta); [|discriminate].
    repeat split; discriminate.
  Qed.

  Lemma refuses : bad kexp_ok kexp_cli \/ bad area_ok area_cli \/ bad kexp_ok kexp_meta \/ bad area_ok area_meta \/
                  badf red1_cli red1_meta \/ badf red2_cli red2_meta -> forall s, out <> Runs s.
  Proof.
    intros H s E. destruct (runs_inv s E) as (V1 & V2 & F1 & F2 & V3 & V4).
    destruct H as [H|[H|[H|[H|[H|H]]]]].
    - now apply V1, validate_bad. - now apply V2, validate_bad. - now apply V4, validate_bad. - now apply V3, validate_bad.
    - apply F1. destruct H as [->|[-> ->]]; reflexivity. - apply F2. destruct H as [->|[-> ->]]; reflexivity.
  Qed.

  (** with a factor source available the refusal is exit code 65 *)
  Lemma refuses_65 : source_available file_given loc_cli loc_meta ->
    bad kexp_ok kexp_cli \/ bad area_ok area_cli \/ bad kexp_ok kexp_meta \/ bad area_ok area_meta \/
    badf red1_cli red1_meta \/ badf red2_cli red2_meta -> out = Exits EXIT_DATAERR.
  Proof.
    intros Hs H. destruct exit_codes as [[s E]|[E|E]]; [exfalso; exact (refuses H s E)| |exact E].
    exfalso. unfold out, resolve in E.
    destruct (validate kexp_ok kexp_cli); [|discriminate]. destruct (validate area_ok area_cli); [|discriminate].
    destruct (resolve_factor red1_cli red1_meta); [|discriminate]. destruct (resolve_factor red2_cli red2_meta); [|discriminate].
    unfold resolve_source in E.
    destruct file_given, loc_cli; cbn in E;
      try (destruct (validate area_ok area_meta); try discriminate; destruct (validate kexp_ok kexp_meta); discriminate).
    destruct loc_meta as [| |u]; cbn in E.
    - destruct Hs as [Q|[Q|[u Q]]]; discriminate.
    - discriminate.
    - destruct (validate area_ok area_meta); try discriminate; destruct (validate kexp_ok kexp_meta); discriminate.
  Qed.

  (** precedence: option > metadata > documented default; a factors file beats any location *)
  Definition pick (cli meta : arg Qc) (dflt : Qc) : origin * Qc :=
    match cli, meta with
    | Given v, _ => (Usuario, v)
    | _, Given v => (Metadatos, v)
    | _, _ => (Predefinido, dflt)
    end.

  Lemma precedence s : out = Runs s ->
    st_area s = pick area_cli area_meta 1 /\
    st_kexp s = pick kexp_cli kexp_meta 0 /\
    st_red1 s = match red1_cli, red1_meta with Given v, _ => Some v | Absent, Given v => Some v | _, _ => None end /\
    st_red2 s = match red2_cli, red2_meta with Given v, _ => Some v | Absent, Given v => Some v | _, _ => None end /\
    st_fsource s = (if file_given then FromFile else if loc_cli then FromLocCli else FromLocMeta).
  Proof.
    unfold out, resolve. intros E.
    destruct (good_or_bad kexp_ok kexp_cli) as [G1|B1]; [rewrite (validate_good _ _ G1) in E|rewrite (validate_bad _ _ B1) in E; discriminate].
    destruct (good_or_bad area_ok area_cli) as [G2|B2]; [rewrite (validate_good _ _ G2) in E|rewrite (validate_bad _ _ B2) in E; discriminate].
    destruct (resolve_factor red1_cli red1_meta) as [r1|] eqn:R1; [|discriminate].
    destruct (resolve_factor red2_cli red2_meta) as [r2|] eqn:R2; [|discriminate].
    destruct (resolve_source file_given loc_cli loc_meta) as [c|src] eqn:S; [discriminate|].
    destruct (good_or_bad area_ok area_meta) as [G3|B3]; [rewrite (validate_good _ _ G3) in E|rewrite (validate_bad _ _ B3) in E; discriminate].
    destruct (good_or_bad kexp_ok kexp_meta) as [G4|B4]; [rewrite (validate_good _ _ G4) in E|rewrite (validate_bad _ _ B4) in E; discriminate].
    injection E as <-. cbn [st_area st_kexp st_red1 st_red2 st_fsource]. repeat split.
    - unfold pick. destruct area_cli, area_meta; try reflexivity; destruct G2 as [G|(v0 & G & _)], G3 as [G'|(v1 & G' & _)]; try discriminate; reflexivity.
    - unfold pick. destruct kexp_cli, kexp_meta; try reflexivity; destruct G1 as [G|(v0 & G & _)], G4 as [G'|(v1 & G' & _)]; try discriminate; reflexivity.
    - unfold resolve_factor in R1. destruct red1_cli, red1_meta; try discriminate; now injection R1.
    - unfold resolve_factor in R2. destruct red2_cli, red2_meta; try discriminate; now injection R2.
    - unfold resolve_source in S. destruct file_given, loc_cli, loc_meta; try discriminate; now injection S.
  Qed.

  (** a result is produced whenever everything given is valid and a factor source is available *)
  Lemma runs_when_valid : good kexp_ok kexp_cli -> good area_ok area_cli -> good kexp_ok kexp_meta -> good area_ok area_meta ->
    ~ badf red1_cli red1_meta -> ~ badf red2_cli red2_meta -> source_available file_given loc_cli loc_meta -> exists s, out = Runs s.
  Proof.
    intros G1 G2 G4 G3 N1 N2 Hs. unfold out, resolve.
    rewrite (validate_good _ _ G1), (validate_good _ _ G2).
    assert (F1 : exists r, resolve_factor red1_cli red1_meta = Some r).
    { destruct red1_cli; cbn; [destruct red1_meta; eauto; exfalso; apply N1; right; split; reflexivity|exfalso; apply N1; left; reflexivity|eauto]. }
    assert (F2 : exists r, resolve_factor red2_cli red2_meta = Some r).
    { destruct red2_cli; cbn; [destruct red2_meta; eauto; exfalso; apply N2; right; split; reflexivity|exfalso; apply N2; left; reflexivity|eauto]. }
    destruct F1 as [r1 ->], F2 as [r2 ->].
    assert (S : exists src, resolve_source file_given loc_cli loc_meta = inr src).
    { unfold resolve_source. destruct file_given; [eauto|]. destruct loc_cli; [eauto|].
      destruct Hs as [Q|[Q|[u Q]]]; try discriminate. rewrite Q. eauto. }
    destruct S as [src ->]. rewrite (validate_good _ _ G3), (validate_good _ _ G4). eauto.
  Qed.
End Any.

(** ** Property theorems *)

Theorem C19_precedence : forall kexp_cli area_cli red1_cli red1_meta red2_cli red2_meta file_given loc_cli loc_meta area_meta kexp_meta s,
  resolve kexp_cli area_cli red1_cli red1_meta red2_cli red2_meta file_given loc_cli loc_meta area_meta kexp_meta = Runs s ->
  st_area s = pick area_cli area_meta 1 /\
  st_kexp s = pick kexp_cli kexp_meta 0 /\
  st_red1 s = match red1_cli, red1_meta with Given v, _ => Some v | Absent, Given v => Some v | _, _ => None end /\
  st_red2 s = match red2_cli, red2_meta with Given v, _ => Some v | Absent, Given v => Some v | _, _ => None end /\
  st_fsource s = (if file_given then FromFile else if loc_cli then FromLocCli else FromLocMeta).
Proof. intros. eapply precedence. eassumption. Qed.

Theorem C19_refuses : forall kexp_cli area_cli red1_cli red1_meta red2_cli red2_meta file_given loc_cli loc_meta area_meta kexp_meta,
  bad kexp_ok kexp_cli \/ bad area_ok area_cli \/ bad kexp_ok kexp_meta \/ bad area_ok area_meta \/ badf red1_cli red1_meta \/ badf red2_cli red2_meta ->
  (forall s, resolve kexp_cli area_cli red1_cli red1_meta red2_cli red2_meta file_given loc_cli loc_meta area_meta kexp_meta <> Runs s) /\
  (source_available file_given loc_cli loc_meta ->
   resolve kexp_cli area_cli red1_cli red1_meta red2_cli red2_meta file_given loc_cli loc_meta area_meta kexp_meta = Exits EXIT_DATAERR).
Proof. intros. split; [now apply refuses|intros; now apply refuses_65]. Qed.

Theorem C19_exit_codes : forall kexp_cli area_cli red1_cli red1_meta red2_cli red2_meta file_given loc_cli loc_meta area_meta kexp_meta,
  let out := resolve kexp_cli area_cli red1_cli red1_meta red2_cli red2_meta file_given loc_cli loc_meta area_meta kexp_meta in
  (exists s, out = Runs s) \/ out = Exits EXIT_USAGE \/ out = Exits EXIT_DATAERR.
Proof. intros. apply exit_codes. Qed.

Theorem C19_runs_when_valid : forall kexp_cli area_cli red1_cli red1_meta red2_cli red2_meta file_given loc_cli loc_meta area_meta kexp_meta,
  good kexp_ok kexp_cli -> good area_ok area_cli -> good kexp_ok kexp_meta -> good area_ok area_meta ->
  ~ badf red1_cli red1_meta -> ~ badf red2_cli red2_meta -> source_available file_given loc_cli loc_meta ->
  exists s, resolve kexp_cli area_cli red1_cli red1_meta red2_cli red2_meta file_given loc_cli loc_meta area_meta kexp_meta = Runs s.
Proof. intros. now apply runs_when_valid. Qed.

(** the validity ranges *)
Theorem C19_ranges : forall k a, (kexp_ok k = true <-> 0 <= k /\ k <= 1) /\ (area_ok a = true <-> qfrac 1 1000 < a).
Proof.
  intros k a. unfold kexp_ok, area_ok. split.
  - destruct (qleb_spec 0 k), (qleb_spec k 1); cbn; split; try tauto; try discriminate; intros [A B]; contradiction.
  - destruct (qltb_spec (qfrac 1 1000) a); split; try tauto; discriminate.
Qed.

Print Assumptions C19_precedence.
Print Assumptions C19_refuses.
Print Assumptions C19_exit_codes.
Print Assumptions C19_runs_when_valid.
Print Assumptions C19_ranges.
