(** * C13 — Renewable energy ratios are proper fractions and perimeters are nested

    Hypotheses of the theorems: non-negative inputs (zero or >= 0.01 kWh), at least one time step,
    k_exp = 0, and a factor set with the regulatory structure [reg_set] (on-site supply and step A
    export factors (1,0,0), step B export factors = grid supply factor, no user cogeneration factors,
    all factors >= 0).  [reg_setb] decides it; the check evaluates it on the four prepared location
    sets dumped from the compiled code on every run. *)
From Cteepbd Require Import Model.Factors Proofs.StepFacts Proofs.ColFacts Proofs.EpFacts Proofs.DataEquiv Proofs.RerFacts Proofs.RerCogen.
Open Scope Qc_scope.

(** RER = ren / (ren + nren) of the reported step B primary energy, 0 when the total is 0 *)
Theorem C13_rer_def : forall ep,
  t_rer ep = (if qeqb (ren (t_we_b ep) + nren (t_we_b ep)) 0 then 0 else ren (t_we_b ep) / (ren (t_we_b ep) + nren (t_we_b ep))).
Proof. reflexivity. Qed.

Section Hyp.
  Variables (fs0 : list Factor) (c : Components) (area : Qc) (lm : bool) (n : nat) (ep : EP).
  Hypothesis Hrs : reg_set fs0.
  Hypothesis Hn : nonneg_data (c_data c).
  Hypothesis Hd : dom_data (c_data c).
  Hypothesis Hwf : wf n (c_data c).
  Hypothesis Hpos : (0 < n)%nat.
  Hypothesis Hep : energy_performance c fs0 0 area lm = Ok ep.

  Lemma ren_total_nonneg : 0 <= ren (t_we_b ep).
  Proof.
    apply (total_comp_nonneg fs0 c area lm n ep Hrs Hn Hd Hwf Hpos Hep ren); try reflexivity.
    intros r (H & _). exact H.
  Qed.

  Lemma nren_total_nonneg : 0 <= nren (t_we_b ep).
  Proof.
    apply (total_comp_nonneg fs0 c area lm n ep Hrs Hn Hd Hwf Hpos Hep nren); try reflexivity.
    intros r (_ & H & _). exact H.
  Qed.

  Lemma co2_total_nonneg : 0 <= co2 (t_we_b ep).
  Proof.
    apply (total_comp_nonneg fs0 c area lm n ep Hrs Hn Hd Hwf Hpos Hep co2); try reflexivity.
    intros r (_ & _ & H). exact H.
  Qed.

  Lemma rer_range : 0 < rtot (t_we_b ep) -> 0 <= t_rer ep /\ t_rer ep <= 1.
  Proof.
    intros T. pose proof ren_total_nonneg as R. pose proof nren_total_nonneg as N.
    unfold t_rer, rrer, rtot in *. destruct (qeqb_spec (ren (t_we_b ep) + nren (t_we_b ep)) 0) as [Z|NZ]; [rewrite Z in T; exfalso; qlra|].
    revert T R N. generalize (ren (t_we_b ep)) (nren (t_we_b ep)). intros r nr T R N.
    apply frac_le_1; [exact R| |exact T]. revert N. generalize nr. intros. qlra.
  Qed.

  Lemma nested_nrb_le_rer : 0 < rtot (t_we_b ep) -> t_rer_nrb ep <= t_rer ep.
  Proof.
    intros T. pose proof (nrb_le_total fs0 c area lm n ep Hrs Hn Hd Hwf Hpos Hep) as L.
    unfold t_rer_nrb, t_rer, rrer. destruct (qltb_spec 0 (rtot (t_we_b ep))); [|contradiction].
    unfold rtot in *. destruct (qeqb_spec (ren (t_we_b ep) + nren (t_we_b ep)) 0) as [Z|NZ]; [rewrite Z in T; exfalso; qlra|].
    revert T L. generalize (ren_nrb ep) (ren (t_we_b ep)) (ren (t_we_b ep) + nren (t_we_b ep)). intros a b t T L.
    toQ. absQ. cbn in *. unfold Qdiv. assert (0 < / Qt)%Q by (apply Qinv_lt_0_compat; lra). nra.
  Qed.

  Lemma onst_rer_nonneg : 0 <= t_rer_onst ep.
  Proof.
    pose proof (onst_nonneg fs0 c area lm n ep Hrs Hn Hd Hwf Hpos Hep) as L.
    unfold t_rer_onst. destruct (qltb_spec 0 (rtot (t_we_b ep))) as [T|T]; [|apply Qcle_refl].
    now apply qdiv_nonneg.
  Qed.

  Lemma nested_onst_le_nrb_no_export :
    (forall b, In b (ep_bal ep) -> is_el b = true -> we_exp_a (bc_we b) = rnc0) -> t_rer_onst ep <= t_rer_nrb ep.
  Proof.
    intros Hx. pose proof (onst_le_nrb_no_export fs0 c area lm n ep Hrs Hn Hd Hwf Hpos Hep Hx) as L.
    unfold t_rer_onst, t_rer_nrb. destruct (qltb_spec 0 (rtot (t_we_b ep))) as [T|T]; [|apply Qcle_refl].
    revert T L. generalize (ren_onst ep) (ren_nrb ep) (rtot (t_we_b ep)). intros a b t T L.
    toQ. absQ. cbn in *. unfold Qdiv. assert (0 < / Qt)%Q by (apply Qinv_lt_0_compat; lra). nra.
  Qed.

  Lemma nested_onst_le_nrb_nearby_cogen :
    (forall cr, nearby_fuel cr = false -> a_cgnus (mk_ctx cr lm (c_data c)) = 0) ->
    a_exp_src (mk_ctx ELECTRICIDAD lm (c_data c)) EL_INSITU = 0 -> t_rer_onst ep <= t_rer_nrb ep.
  Proof.
    intros Hf Hp. pose proof (onst_le_nrb_nearby_cogen fs0 c area lm n ep Hrs Hn Hd Hwf Hpos Hep Hf Hp) as L.
    unfold t_rer_onst, t_rer_nrb. destruct (qltb_spec 0 (rtot (t_we_b ep))) as [T|T]; [|apply Qcle_refl].
    revert T L. generalize (ren_onst ep) (ren_nrb ep) (rtot (t_we_b ep)). intros a b t T L.
    toQ. absQ. cbn in *. unfold Qdiv. assert (0 < / Qt)%Q by (apply Qinv_lt_0_compat; lra). nra.
  Qed.
End Hyp.

(** ** Property theorems *)

Theorem C13_primary_energy_nonneg : forall fs0 c area lm n ep,
  reg_set fs0 -> nonneg_data (c_data c) -> wf n (c_data c) -> (0 < n)%nat ->
  energy_performance c fs0 0 area lm = Ok ep ->
  0 <= ren (t_we_b ep) /\ 0 <= nren (t_we_b ep) /\ 0 <= co2 (t_we_b ep).
Proof. intros fs0 c area lm n ep Hrs Hn. pose proof (dom_of_nonneg _ Hn). intros. repeat split; [eapply ren_total_nonneg|eapply nren_total_nonneg|eapply co2_total_nonneg]; eassumption. Qed.

Theorem C13_rer_range : forall fs0 c area lm n ep,
  reg_set fs0 -> nonneg_data (c_data c) -> wf n (c_data c) -> (0 < n)%nat ->
  energy_performance c fs0 0 area lm = Ok ep ->
  0 < rtot (t_we_b ep) -> 0 <= t_rer ep /\ t_rer ep <= 1.
Proof. intros fs0 c area lm n ep Hrs Hn. pose proof (dom_of_nonneg _ Hn). intros. eapply rer_range; eassumption. Qed.

Theorem C13_nrb_le_rer : forall fs0 c area lm n ep,
  reg_set fs0 -> nonneg_data (c_data c) -> wf n (c_data c) -> (0 < n)%nat ->
  energy_performance c fs0 0 area lm = Ok ep ->
  0 < rtot (t_we_b ep) -> t_rer_nrb ep <= t_rer ep.
Proof. intros fs0 c area lm n ep Hrs Hn. pose proof (dom_of_nonneg _ Hn). intros. eapply nested_nrb_le_rer; eassumption. Qed.

Theorem C13_onst_nonneg : forall fs0 c area lm n ep,
  reg_set fs0 -> nonneg_data (c_data c) -> wf n (c_data c) -> (0 < n)%nat ->
  energy_performance c fs0 0 area lm = Ok ep -> 0 <= t_rer_onst ep.
Proof. intros fs0 c area lm n ep Hrs Hn. pose proof (dom_of_nonneg _ Hn). intros. eapply onst_rer_nonneg; eassumption. Qed.

(** the full nesting 0 <= RER_onst <= RER_nrb <= RER holds for every building that exports no electricity;
    with exported electricity it fails (known findings, see C13_nested_refuted and C13_nearby_negative_refuted) *)
Theorem C13_nested_partial : forall fs0 c area lm n ep,
  reg_set fs0 -> nonneg_data (c_data c) -> wf n (c_data c) -> (0 < n)%nat ->
  energy_performance c fs0 0 area lm = Ok ep ->
  (forall b, In b (ep_bal ep) -> is_el b = true -> we_exp_a (bc_we b) = rnc0) ->
  0 < rtot (t_we_b ep) ->
  0 <= t_rer_onst ep /\ t_rer_onst ep <= t_rer_nrb ep /\ t_rer_nrb ep <= t_rer ep.
Proof.
  intros fs0 c area lm n ep Hrs Hn. pose proof (dom_of_nonneg _ Hn). intros. repeat split; [eapply onst_rer_nonneg|eapply nested_onst_le_nrb_no_export|eapply nested_nrb_le_rer]; eassumption.
Qed.

(** ... and for every building that may export cogenerated electricity, provided it exports no on-site electricity and
    every cogeneration fuel is a nearby carrier that is not generated on site (biomass, densified biomass, district
    networks): the perimeter then contains the renewable energy of the fuel, which bounds what it subtracts for the
    exported electricity.  The two recorded findings are the two hypotheses failing. *)
Theorem C13_nested_nearby_cogeneration : forall fs0 c area lm n ep,
  reg_set fs0 -> nonneg_data (c_data c) -> wf n (c_data c) -> (0 < n)%nat ->
  energy_performance c fs0 0 area lm = Ok ep ->
  (forall cr, nearby_fuel cr = false -> a_cgnus (mk_ctx cr lm (c_data c)) = 0) ->
  a_exp_src (mk_ctx ELECTRICIDAD lm (c_data c)) EL_INSITU = 0 ->
  0 < rtot (t_we_b ep) ->
  0 <= t_rer_onst ep /\ t_rer_onst ep <= t_rer_nrb ep /\ t_rer_nrb ep <= t_rer ep.
Proof.
  intros fs0 c area lm n ep Hrs Hn. pose proof (dom_of_nonneg _ Hn). intros. repeat split; [eapply onst_rer_nonneg|eapply nested_onst_le_nrb_nearby_cogen|eapply nested_nrb_le_rer]; eassumption.
Qed.

Theorem C13_rer_zero_total : forall ep, rtot (t_we_b ep) = 0 -> t_rer ep = 0 /\ t_rer_nrb ep = 0 /\ t_rer_onst ep = 0.
Proof.
  intros ep Z. unfold t_rer, rrer, t_rer_nrb, t_rer_onst. rewrite Z.
  destruct (qeqb_spec 0 0); [|congruence]. destruct (qltb_spec 0 0) as [L|L]; [exfalso; qlra|]. repeat split.
Qed.

(** a regulatory-structured factor set (PENINSULA values) used by the examples *)
Definition ex_factors : list Factor :=
  match normalize_factors
          [mkFactor ELECTRICIDAD RED SUMINISTRO STEP_A (mkRNC (qfrac 414 1000) (qfrac 1954 1000) (qfrac 331 1000)) [];
           mkFactor GASNATURAL RED SUMINISTRO STEP_A (mkRNC (qfrac 5 1000) (qfrac 1190 1000) (qfrac 252 1000)) []]
          default_red default_red with
  | Ok fs => fs | Err _ => [] end.

Example C13_reg_set_example : reg_set ex_factors.
Proof. apply reg_setb_ok. vm_compute. reflexivity. Qed.

(** known finding: with exported on-site electricity RER_onst counts the exported part too.
    100 kWh of lighting, 200 kWh of PV: RER = RER_nrb = 1 but RER_onst = 2 *)
Theorem C13_nested_refuted :
  exists c ep, nonneg_data (c_data c) /\ energy_performance c ex_factors 0 1 false = Ok ep /\
    t_rer ep = 1 /\ t_rer_nrb ep = 1 /\ t_rer_onst ep = qz 2.
Proof.
  exists (mkComponents [] [EUsed 0 ELECTRICIDAD ILU [qz 100] []; EProd 0 EL_INSITU [qz 200] []] (mkNeeds None None None)).
  eexists. split; [|split; [vm_compute; reflexivity|]].
  - apply nonneg_datab_ok. vm_compute. reflexivity.
  - split; [|split]; apply Qc_is_canon; vm_compute; reflexivity.
Qed.

(** known finding (second mechanism): exported cogenerated electricity whose fuel is not a nearby carrier.  The nearby
    perimeter subtracts the renewable resources of the exported electricity (step A export factor, derived from the fuel)
    while the fuel itself is outside the perimeter: RER_nrb is negative.
    20 kWh of lighting, 48 kWh cogenerated from 108 kWh of biofuel, 100 kWh of gas heating *)
Definition ex_factors_bio : list Factor :=
  match normalize_factors
          [mkFactor ELECTRICIDAD RED SUMINISTRO STEP_A (mkRNC (qfrac 414 1000) (qfrac 1954 1000) (qfrac 331 1000)) [];
           mkFactor GASNATURAL RED SUMINISTRO STEP_A (mkRNC (qfrac 5 1000) (qfrac 1190 1000) (qfrac 252 1000)) [];
           mkFactor BIOCARBURANTE RED SUMINISTRO STEP_A (mkRNC (qfrac 1028 1000) (qfrac 85 1000) (qfrac 18 1000)) []]
          default_red default_red with
  | Ok fs => fs | Err _ => [] end.

Example C13_reg_set_example_bio : reg_set ex_factors_bio.
Proof. apply reg_setb_ok. vm_compute. reflexivity. Qed.

Theorem C13_nearby_negative_refuted :
  exists c ep, nonneg_data (c_data c) /\ energy_performance c ex_factors_bio 0 1 false = Ok ep /\
    0 < rtot (t_we_b ep) /\ t_rer_onst ep = 0 /\ t_rer_nrb ep < 0.
Proof.
  exists (mkComponents [] [EUsed 0 ELECTRICIDAD ILU [qz 20] []; EUsed 0 BIOCARBURANTE COGEN [qz 108] [];
                           EProd 0 EL_COGEN [qz 48] []; EUsed 0 GASNATURAL CAL [qz 100] []] (mkNeeds None None None)).
  eexists. split; [|split; [vm_compute; reflexivity|]].
  - apply nonneg_datab_ok. vm_compute. reflexivity.
  - split; [|split]; [vm_compute; reflexivity|apply Qc_is_canon; vm_compute; reflexivity|vm_compute; reflexivity].
Qed.

(** non-vacuity of C13_nested_nearby_cogeneration: biomass-fuelled cogeneration that exports 28 of its 48 kWh *)
Definition ex_factors_biomass : list Factor :=
  match normalize_factors
          [mkFactor ELECTRICIDAD RED SUMINISTRO STEP_A (mkRNC (qfrac 414 1000) (qfrac 1954 1000) (qfrac 331 1000)) [];
           mkFactor GASNATURAL RED SUMINISTRO STEP_A (mkRNC (qfrac 5 1000) (qfrac 1190 1000) (qfrac 252 1000)) [];
           mkFactor BIOMASA RED SUMINISTRO STEP_A (mkRNC (qfrac 1003 1000) (qfrac 34 1000) (qfrac 18 1000)) []]
          default_red default_red with
  | Ok fs => fs | Err _ => [] end.

Example C13_nearby_cogeneration_example :
  let data := [EUsed 0 ELECTRICIDAD ILU [qz 20] []; EUsed 0 BIOMASA COGEN [qz 108] []; EProd 0 EL_COGEN [qz 48] []; EUsed 0 GASNATURAL CAL [qz 100] []] in
  reg_set ex_factors_biomass /\ nonneg_data data /\
  (forall cr, nearby_fuel cr = false -> a_cgnus (mk_ctx cr false data) = 0) /\
  a_exp_src (mk_ctx ELECTRICIDAD false data) EL_INSITU = 0 /\ 0 < a_exp_src (mk_ctx ELECTRICIDAD false data) EL_COGEN /\
  exists ep, energy_performance (mkComponents [] data (mkNeeds None None None)) ex_factors_biomass 0 1 false = Ok ep /\ 0 < rtot (t_we_b ep).
Proof.
  cbv zeta. split; [apply reg_setb_ok; vm_compute; reflexivity|]. split; [apply nonneg_datab_ok; vm_compute; reflexivity|].
  split; [intros cr Hcr; destruct cr; try discriminate Hcr; apply Qc_is_canon; vm_compute; reflexivity|].
  split; [apply Qc_is_canon; vm_compute; reflexivity|]. split; [vm_compute; reflexivity|].
  eexists. split; [vm_compute; reflexivity|vm_compute; reflexivity].
Qed.

Print Assumptions C13_rer_def.
Print Assumptions C13_primary_energy_nonneg.
Print Assumptions C13_rer_range.
Print Assumptions C13_nrb_le_rer.
Print Assumptions C13_onst_nonneg.
Print Assumptions C13_nested_partial.
Print Assumptions C13_nested_nearby_cogeneration.
Print Assumptions C13_rer_zero_total.
Print Assumptions C13_nested_refuted.
Print Assumptions C13_nearby_negative_refuted.
