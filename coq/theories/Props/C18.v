(** * C18 — Components and factors survive being written out and read back

    [show_*] are the [Display] implementations, [parse_*] the [FromStr] ones (Model/Parse.v), both compared with
    the implementation on the same data and the same texts (lib/props/c18.py).  For every record the text written
    reads back as the same record — same id, tags and comment — with each value replaced by the f32 nearest to
    the decimal that was written ([rb]); that decimal is within half a unit of its last digit of the original
    value (C17_figures_at_precision). *)
From Coq Require Import String List.
From Cteepbd Require Import Base.Num Model.Types Model.Dump Model.Text Model.Parse Model.Components Proofs.RoundTrip Proofs.CompFile.
Import ListNotations. Open Scope list_scope.

(** whatever the tokens (no white space, comma or hash inside) and whatever the trimmed comment, a line made of the
    tokens joined by ", " followed by " # comment" splits back into exactly these tokens and this comment *)
Theorem C18_fields :
  forall (toks : list str) (c : str),
    toks <> [] -> Forall (fun t => clean_tokb t = true) toks -> clean_cmtb c = true ->
    fields (join [44; 32]%N toks ++ show_comment c) = (toks, c).
Proof. exact fields_join. Qed.

(** comments as stored by the readers are in that form: reachable states meet the hypothesis *)
Theorem C18_stored_comments_are_trimmed : forall s : str, clean_cmtb (trim s) = true.
Proof. exact trim_clean. Qed.

Theorem C18_id : forall z : Z, i32 z -> parse_i32 (sdec z) = Some z.
Proof. exact parse_i32_sdec. Qed.

(** a figure written with d >= 1 decimals reads back as the nearest f32 of the written decimal (sign kept) *)
Theorem C18_figure : forall (d : nat) (q : Qc), parse_f32 (fmt_fixed (S d) q) = Some (read_back (S d) q).
Proof. exact parse_f32_fmt_fixed. Qed.

Theorem C18_consumption_line : forall i cr srv v c,
  i32 i -> v <> [] -> forallb (finite2 2) v = true -> clean_cmtb c = true ->
  parse_used (show_energy (EUsed i cr srv v c)) = POk (EUsed i cr srv (map (rb 2) v) c).
Proof. exact used_roundtrip. Qed.

Theorem C18_production_line : forall i src v c,
  i32 i -> v <> [] -> forallb (finite2 2) v = true -> clean_cmtb c = true ->
  parse_prod (show_energy (EProd i src v c)) = POk (EProd i src (map (rb 2) v) c).
Proof. exact prod_roundtrip. Qed.

(** the service of an auxiliary line is not written: it reads back unassigned and [normalize] assigns it again *)
Theorem C18_auxiliary_line : forall i srv v c,
  i32 i -> v <> [] -> forallb (finite2 2) v = true -> clean_cmtb c = true ->
  parse_aux (show_energy (EAux i srv v c)) = POk (EAux i NEPB (map (rb 2) v) c).
Proof. exact aux_roundtrip. Qed.

Theorem C18_output_line : forall i srv v c,
  i32 i -> v <> [] -> forallb (finite2 2) v = true -> clean_cmtb c = true -> srv_is_epb srv = true ->
  parse_out (show_energy (EOut i srv v c)) = POk (EOut i srv (map (rb 2) v) c).
Proof. exact out_roundtrip. Qed.

Theorem C18_demand_line : forall srv v,
  (srv = ACS \/ srv = CAL \/ srv = REF) -> v <> [] -> forallb (finite2 2) v = true ->
  parse_need (cs "DEMANDA, " ++ cs (service_name srv) ++ cs ", " ++ sp_join v 2) = POk (srv, map (rb 2) v).
Proof. exact need_roundtrip. Qed.

Theorem C18_factor_line : forall f,
  forallb (finite2 3) [ren (f_val f); nren (f_val f); co2 (f_val f)] = true -> clean_cmtb (f_cmt f) = true ->
  parse_factor (show_factor f) =
  POk (mkFactor (f_cr f) (f_src f) (f_dest f) (f_step f) (mkRNC (rb 3 (ren (f_val f))) (rb 3 (nren (f_val f))) (rb 3 (co2 (f_val f)))) (f_cmt f)).
Proof. exact factor_roundtrip. Qed.

(** a metadata line, for a key without colon that is not one of the three legacy names *)
Theorem C18_metadata_line : forall m,
  clean_key (m_key m) = true -> clean_cmtb (m_value m) = true -> parse_meta (show_meta m) = POk m.
Proof. exact meta_roundtrip. Qed.

(** a whole factors file (what --of writes): the text of [Display] reads back as the same set — same metadata, same
    factors in the same order with the same tags and comments, every value at the written precision *)
Theorem C18_factors_file : forall f,
  wmeta f <> [] -> wdata f <> [] -> Forall good_meta (wmeta f) -> Forall good_factor (wdata f) ->
  parse_factors (show_factors f) = POk (mkFactors (wmeta f) (map rt_factor (wdata f))).
Proof. exact factors_file_roundtrip. Qed.

Example C18_factors_file_example :
  let f := mkFactors [mkMeta (cs "CTE_FUENTE") (cs "RITE2014, v: 1"); mkMeta (cs "CTE_LOCALIZACION") []]
                     [mkFactor ELECTRICIDAD RED SUMINISTRO STEP_A (mkRNC (qfrac 414 1000) (qfrac 1954 1000) (qfrac 331 1000)) (cs "red, peninsular # 2014");
                      mkFactor ELECTRICIDAD INSITU A_RED STEP_B (mkRNC (qfrac 1 2) (qfrac 2 1) (qfrac 42 100)) []] in
  Forall good_meta (wmeta f) /\ Forall good_factor (wdata f).
Proof. cbv zeta. split; repeat constructor; vm_compute; reflexivity. Qed.

(** a whole components file (what --oc writes, what [Display] gives): the text is read as the records that were
    written — same metadata, same components in the same order with the same ids, tags and comments (an auxiliary line
    does not carry its service: NEPB until assigned again), same demands, every value at the written precision — and
    these records are normalised again.  (What re-normalising can add is the known finding C18-rounding-recompletion.) *)
Theorem C18_components_file : forall c n,
  c_meta c <> [] -> c_data c <> [] -> Forall good_meta (c_meta c) -> Forall good_energy (c_data c) -> good_needs (c_needs c) ->
  Forall (fun e => length (e_vals e) = n) (c_data c) ->
  parse_components (show_components c)
  = of_res (normalize (mkComponents (c_meta c) (map rt_energy (c_data c)) (rt_needs (c_needs c)))).
Proof. exact components_file_roundtrip. Qed.

(** the same with the hypotheses as one computable test (evaluated by the check on every components set the
    implementation writes: how often the theorem speaks is part of the evidence) *)
Theorem C18_components_file_computable : forall c, file_hypb c = true ->
  parse_components (show_components c)
  = of_res (normalize (mkComponents (c_meta c) (map rt_energy (c_data c)) (rt_needs (c_needs c)))).
Proof. exact components_file_roundtrip_b. Qed.

Example C18_components_file_example :
  let c := mkComponents [mkMeta (cs "CTE_AREAREF") (cs "100.00")]
                        [EUsed 1 ELECTRICIDAD ACS [qfrac 1001 8; qfrac 5 2] (cs "bomba, de calor # 1"); EProd 1 EL_INSITU [qfrac 10 1; qfrac 7 3] [];
                         EAux 1 ACS [qfrac 1 2; qfrac 1 4] (cs "Reasignación"); EOut 1 ACS [qfrac 300 1; qfrac 250 1] []]
                        (mkNeeds (Some [qfrac 200 1; qfrac 150 1]) None None) in
  c_meta c <> [] /\ c_data c <> [] /\ Forall good_meta (c_meta c) /\ Forall good_energy (c_data c) /\ good_needs (c_needs c)
  /\ Forall (fun e => length (e_vals e) = 2%nat) (c_data c).
Proof.
  cbv zeta. cbn [c_meta c_data c_needs]. split; [discriminate|]. split; [discriminate|].
  split; [repeat constructor; vm_compute; reflexivity|].
  split; [repeat constructor; try (vm_compute; reflexivity); try (unfold i32; cbn; Lia.lia); discriminate|].
  split; [repeat split; try discriminate; vm_compute; reflexivity|]. repeat constructor.
Qed.

(** a component without values is written with a trailing ", " and does not read back: the hypothesis [v <> []] is needed *)
Example C18_empty_values_refuted :
  parse_used (show_energy (EUsed 1 ELECTRICIDAD ACS [] [])) = PErr ParseError
  /\ exists e, parse_used (cs "1, CONSUMO, ACS, ELECTRICIDAD") = POk e.
Proof. split; [vm_compute; reflexivity|]. eexists. vm_compute. reflexivity. Qed.

(** non-vacuity: a concrete component, with a comment containing commas and hashes, meets the hypotheses *)
Example C18_example :
  let e := EUsed (-3) GASNATURAL CAL [qfrac 1001 8; 0%Qc; qfrac (-5) 2] (cs "caldera, antigua # 2") in
  i32 (-3) /\ forallb (finite2 2) [qfrac 1001 8; 0%Qc; qfrac (-5) 2] = true /\ clean_cmtb (cs "caldera, antigua # 2") = true
  /\ show_energy e = cs "-3, CONSUMO, CAL, GASNATURAL, 125.12, 0.00, -2.50 # caldera, antigua # 2".
Proof. cbv zeta. split; [unfold i32; Lia.lia|]. split; [vm_compute; reflexivity|]. split; vm_compute; reflexivity. Qed.

(** ** the files saved with --of evaluate the building to the same results

    --of writes the prepared factor set simplified for the building ([strip]); reading it with -f prepares it again
    ([normalize_factors], with the defaults [e1 e2] of that run).  For every prepared set [fs'], every component set
    with non-negative values (whose auxiliary components carry no COGEN service: true of every normalised set) whose
    carriers have a grid factor in [fs'], the second preparation succeeds and the evaluation gives the same carrier
    balances, or the same error.  With C18_factors_file (the set read back is the set written when its values have
    three decimals, which the values of the regulatory tables have) this is the factors half of "a building evaluated
    from the saved files gives the same results". *)
From Cteepbd Require Import Model.Factors Model.Components Proofs.ColFacts Proofs.CtxFacts Proofs.ReloadFacts.
Theorem C18_saved_factors_evaluate_the_same : forall c fs fs' d1 d2 e1 e2 k area lm,
  normalize_factors fs d1 d2 = Ok fs' -> nonneg_data (c_data c) -> aux_ok (c_data c) ->
  (forall cr, In cr (avail_carriers (c_data c)) -> lookk fs' (grid_key cr) <> None) ->
  exists fs'', normalize_factors (strip fs' (c_data c)) e1 e2 = Ok fs'' /\
  match energy_performance c fs' k area lm, energy_performance c fs'' k area lm with
  | Ok e, Ok e' => ep_bal e = ep_bal e' /\ ep_k e = ep_k e' /\ ep_area e = ep_area e' /\ ep_needs e = ep_needs e' /\ ep_data e = ep_data e'
  | Err a, Err b => a = b
  | _, _ => False
  end.
Proof. exact saved_factors_evaluate_the_same. Qed.

(** non-vacuity: a gas boiler and nothing else (the case of fix 1505fba): the saved set has no electricity at all *)
Example C18_saved_factors_example :
  let data := [EUsed 1 GASNATURAL CAL [qz 100; qz 120] []] in
  let fs := [mkFactor ELECTRICIDAD RED SUMINISTRO STEP_A (mkRNC (qfrac 414 1000) (qfrac 1954 1000) (qfrac 331 1000)) [];
             mkFactor GASNATURAL RED SUMINISTRO STEP_A (mkRNC (qfrac 5 1000) (qfrac 1190 1000) (qfrac 252 1000)) []] in
  match normalize_factors fs default_red default_red with
  | Ok fs' => nonneg_data data /\ aux_ok data /\ (forall cr, In cr (avail_carriers data) -> lookk fs' (grid_key cr) <> None)
              /\ map f_cr (strip fs' data) = [GASNATURAL]
  | Err _ => False end.
Proof.
  vm_compute. split; [repeat constructor; discriminate|]. split; [repeat constructor|]. split; [|reflexivity].
  intros cr [<-|[]]. discriminate.
Qed.

Print Assumptions C18_fields.
Print Assumptions C18_stored_comments_are_trimmed.
Print Assumptions C18_id.
Print Assumptions C18_figure.
Print Assumptions C18_consumption_line.
Print Assumptions C18_production_line.
Print Assumptions C18_auxiliary_line.
Print Assumptions C18_output_line.
Print Assumptions C18_demand_line.
Print Assumptions C18_factor_line.
Print Assumptions C18_metadata_line.
Print Assumptions C18_factors_file.
Print Assumptions C18_saved_factors_evaluate_the_same.
Print Assumptions C18_components_file.
Print Assumptions C18_components_file_computable.
