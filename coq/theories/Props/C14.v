(** * C14 — More on-site renewable electricity never makes the building look worse

    One more EL_INSITU production component [e] with non-negative values is appended to the components.
    Without load matching, for every regime of every time step (production below or above the use, cogeneration
    present or not, priority branch taken or not — adding the component can switch it on) the electricity carrier
    delivers no more grid electricity, exports no less, and, under any factor set that is regular in the sense of
    Proofs/ClosedForm.v (the regulatory sets are: RerFacts.regular_plain / regular_cgn), its non-renewable primary
    energy and its emissions do not grow, in step A and in step B, for every k_exp in [0, 1].  The other carriers
    do not see the new component.

    RER at k_exp = 0: without cogeneration the renewable primary energy of the carrier does not shrink
    (C14_ren_never_shrinks_without_cogeneration) and a ratio R / (R + N) with R not lower and N not higher is not
    lower (C14_ratio); with renewable-fuelled cogeneration the RER statement is false
    (C14_rer_with_renewable_cogeneration_refuted, a known finding).

    C14_building assembles the carrier statements into the building totals for the regulatory factor sets.

    Load matching: the used production g(u, p) = f(p/u) min(u, p) is non-decreasing and 1-Lipschitz in p
    (C14_load_matching_used_production), and the cogenerated electricity used in a step,
    f((pv + chp)/u) min(chp, u - min(pv, u)), does not grow with pv (C14_load_matching_cogeneration_used), which
    gives the same carrier statements with load matching, with or without cogeneration
    (C14_load_matching_carrier; C14_load_matching_without_cogeneration adds the renewable part), and the building
    statement C14_building for both values of the load matching switch. *)
From Cteepbd Require Import Model.Factors Proofs.StepFacts Proofs.ColFacts Proofs.DataEquiv Proofs.ClosedForm Proofs.RerFacts Proofs.PvFacts Proofs.PvBuilding Proofs.LmMono Proofs.LmCogen.
Open Scope Qc_scope.

Section Statement.
  Variables (data : list Energy) (i : Z) (dv : list Qc) (cm : str).
  Let data' := data ++ [EProd i EL_INSITU dv cm].
  Let x := mk_ctx ELECTRICIDAD false data.
  Let x' := mk_ctx ELECTRICIDAD false data'.

  Hypothesis Hn : nonneg_data data.
  Hypothesis Hdn : Forall (fun v => 0 <= v) dv.
  Let Hd : dom_data data := dom_of_nonneg data Hn.
  Let Hdz : Forall zg dv := zg_all_of_nonneg dv Hdn.
  Hypothesis Hne : filter (has_carrier ELECTRICIDAD) data <> [].

  Theorem C14_grid_delivered_never_grows : a_del_grid x' <= a_del_grid x.
  Proof. exact (del_grid_mono data i dv cm Hn Hd Hdn Hdz Hne). Qed.

  Theorem C14_exported_never_shrinks :
    a_exp_ne x + a_exp_grid x <= a_exp_ne x' + a_exp_grid x' /\ a_exp_src x EL_COGEN <= a_exp_src x' EL_COGEN.
  Proof. split; [exact (exp_total_mono data i dv cm Hn Hd Hdn Hdz Hne)|exact (exp_chp_mono data i dv cm Hn Hd Hdn Hdz Hne)]. Qed.

  Theorem C14_nren_co2_never_grow : forall (fs : list Factor) (g phi : RNC) (k : Qc),
    regular fs ELECTRICIDAD (cx_srcs x) g (fsrc_reg phi) -> regular fs ELECTRICIDAD (cx_srcs x') g (fsrc_reg phi) ->
    rnc_nonneg g -> rnc_nonneg phi -> 0 <= k <= 1 ->
    exists p p', weighted_parts fs x = Ok p /\ weighted_parts fs x' = Ok p'
      /\ nren (we_a (we_of_parts k p')) <= nren (we_a (we_of_parts k p))
      /\ co2 (we_a (we_of_parts k p')) <= co2 (we_a (we_of_parts k p))
      /\ nren (we_b (we_of_parts k p')) <= nren (we_b (we_of_parts k p))
      /\ co2 (we_b (we_of_parts k p')) <= co2 (we_b (we_of_parts k p)).
  Proof. intros fs g phi k R R' G P K. exact (pv_monotone_carrier data i dv cm Hn Hd Hdn Hdz Hne fs g phi k R R' G P K). Qed.

  (** RER at k_exp = 0: when no cogeneration is declared for electricity, the renewable primary energy of the carrier
      does not go down (grid renewable factor at most 1) while the non-renewable one does not go up
      (C14_nren_co2_never_grow), and a ratio R / (R + N) cannot go down then (C14_ratio) *)
  Theorem C14_ren_never_shrinks_without_cogeneration : forall (fs : list Factor) (g phi : RNC) (k : Qc),
    existsb (is_prod_src EL_COGEN) (filter (has_carrier ELECTRICIDAD) data) = false ->
    regular fs ELECTRICIDAD (cx_srcs x) g (fsrc_reg phi) -> regular fs ELECTRICIDAD (cx_srcs x') g (fsrc_reg phi) ->
    rnc_nonneg g -> ren g <= 1 ->
    exists p p', weighted_parts fs x = Ok p /\ weighted_parts fs x' = Ok p'
      /\ ren (we_a (we_of_parts k p)) <= ren (we_a (we_of_parts k p')).
  Proof. intros fs g phi k NC R R' G G1. exact (pv_ren_monotone_no_cogen data i dv cm Hn Hd Hdn Hdz Hne NC fs g phi k R R' G G1). Qed.
End Statement.

Theorem C14_ratio : forall r n r' n' ro no : Qc,
  0 <= ro -> 0 <= no -> 0 <= r -> 0 <= n' -> r <= r' -> n' <= n -> 0 < ro + r + (no + n) -> 0 < ro + r' + (no + n') ->
  (ro + r) / (ro + r + (no + n)) <= (ro + r') / (ro + r' + (no + n')).
Proof. exact ratio_mono. Qed.

(** the whole building, under a regulatory factor set ([reg_set]: what Factors::normalize and the CTE tables give):
    one more EL_INSITU production component — evaluated with the same factors, k_exp in [0,1], any area, with or
    without load matching — and the building's non-renewable primary energy, its emissions (step A and step B) and the energy
    delivered by the grids do not grow.  The other carriers do not see the component; the cogeneration factor is the same. *)
Theorem C14_building : forall (lm : bool) (fs0 : list Factor) (c : Components) (i : Z) (dv : list Qc) (cm : str) (k area : Qc) (n : nat) (ep ep' : EP),
  reg_set fs0 -> nonneg_data (c_data c) -> wf n (c_data c) -> (0 < n)%nat ->
  length dv = n -> Forall (fun v => 0 <= v) dv ->
  In ELECTRICIDAD (avail_carriers (c_data c)) -> filter (has_carrier ELECTRICIDAD) (c_data c) <> nil ->
  0 <= k <= 1 ->
  energy_performance c fs0 k area lm = Ok ep ->
  energy_performance (mkComponents (c_meta c) (c_data c ++ [EProd i EL_INSITU dv cm]) (c_needs c)) fs0 k area lm = Ok ep' ->
  nren (t_we_a ep') <= nren (t_we_a ep) /\ co2 (t_we_a ep') <= co2 (t_we_a ep)
  /\ nren (t_we_b ep') <= nren (t_we_b ep) /\ co2 (t_we_b ep') <= co2 (t_we_b ep)
  /\ t_del_grid ep' <= t_del_grid ep.
Proof.
  intros lm fs0 c i dv cm k area n ep ep' Hrs Hn Hwf Hpos Hlen Hdn. pose proof (dom_of_nonneg _ Hn). pose proof (zg_all_of_nonneg _ Hdn).
  intros. eapply pv_monotone_building; eassumption.
Qed.

(** ** Load matching *)
(** the production used in a step with load matching, g(u, p) = f(p/u) * min(u, p): for a fixed use it grows with the
    production, and never faster than the production (so the exported part grows too) *)
Theorem C14_load_matching_used_production : forall u p p' : Qc,
  0 < u -> 0 < p -> p <= p' -> gl u p <= gl u p' /\ gl u p' - gl u p <= p' - p.
Proof. exact gl_mono. Qed.

Theorem C14_load_matching_factor_is_g : forall u p : Qc, 0 < u -> 0 < p ->
  (p / u + 1 / (p / u) - 1) / (p / u + 1 / (p / u)) * qmin u p = gl u p.
Proof. exact fmatch_times_min. Qed.

(** with load matching, when no cogeneration is declared for electricity: same statements for the electricity carrier *)
Theorem C14_load_matching_without_cogeneration :
  forall (data : list Energy) (i : Z) (dv : list Qc) (cm : str),
  let x := mk_ctx ELECTRICIDAD true data in
  let x' := mk_ctx ELECTRICIDAD true (data ++ [EProd i EL_INSITU dv cm]) in
  nonneg_data data -> Forall (fun v => 0 <= v) dv ->
  filter (has_carrier ELECTRICIDAD) data <> nil ->
  existsb (is_prod_src EL_COGEN) (filter (has_carrier ELECTRICIDAD) data) = false ->
  forall (fs : list Factor) (g phi : RNC) (k : Qc),
  regular fs ELECTRICIDAD (cx_srcs x) g (fsrc_reg phi) -> regular fs ELECTRICIDAD (cx_srcs x') g (fsrc_reg phi) ->
  rnc_nonneg g -> ren g <= 1 -> rnc_nonneg phi -> 0 <= k <= 1 ->
  exists p p', weighted_parts fs x = Ok p /\ weighted_parts fs x' = Ok p'
    /\ nren (we_a (we_of_parts k p')) <= nren (we_a (we_of_parts k p))
    /\ co2 (we_a (we_of_parts k p')) <= co2 (we_a (we_of_parts k p))
    /\ nren (we_b (we_of_parts k p')) <= nren (we_b (we_of_parts k p))
    /\ co2 (we_b (we_of_parts k p')) <= co2 (we_b (we_of_parts k p))
    /\ ren (we_a (we_of_parts k p)) <= ren (we_a (we_of_parts k p'))
    /\ a_del_grid x' <= a_del_grid x.
Proof.
  intros data i dv cm x x' Hn Hdn. pose proof (dom_of_nonneg _ Hn). pose proof (zg_all_of_nonneg _ Hdn). intros. eapply pv_monotone_carrier_lm; eassumption.
Qed.

(** with load matching and cogeneration: the cogenerated electricity used in a step does not grow when the on-site
    production grows (so the exported cogenerated electricity does not shrink) *)
Theorem C14_load_matching_cogeneration_used : forall u pv pv' chp : Qc,
  0 < u -> 0 <= pv -> pv <= pv' -> 0 <= chp -> 0 < pv + chp ->
  Fq u (pv' + chp) * qmin chp (u - qmin pv' u) <= Fq u (pv + chp) * qmin chp (u - qmin pv u).
Proof. exact hc_mono. Qed.

Theorem C14_load_matching_factor_is_F : forall u p : Qc, 0 < u -> 0 < p ->
  (p / u + 1 / (p / u) - 1) / (p / u + 1 / (p / u)) = Fq u p.
Proof. exact fmatch_Fq. Qed.

(** a step with load matching and both electricity sources declared *)
Theorem C14_load_matching_step_both_sources : forall c d, col_ok c -> el_col c -> 0 <= d ->
  s_del_grid (srg true (bump d c)) <= s_del_grid (srg true c) /\ s_exp (srg true c) <= s_exp (srg true (bump d c))
  /\ s_exp_src (srg true c) EL_COGEN <= s_exp_src (srg true (bump d c)) EL_COGEN
  /\ s_used_src (srg true c) EL_INSITU <= s_used_src (srg true (bump d c)) EL_INSITU.
Proof. intros. apply step_lm_prio; assumption. Qed.

(** the electricity carrier with load matching, whatever is declared for it *)
Theorem C14_load_matching_carrier :
  forall (data : list Energy) (i : Z) (dv : list Qc) (cm : str),
  let x := mk_ctx ELECTRICIDAD true data in
  let x' := mk_ctx ELECTRICIDAD true (data ++ [EProd i EL_INSITU dv cm]) in
  nonneg_data data -> Forall (fun v => 0 <= v) dv ->
  filter (has_carrier ELECTRICIDAD) data <> nil ->
  forall (fs : list Factor) (g phi : RNC) (k : Qc),
  regular fs ELECTRICIDAD (cx_srcs x) g (fsrc_reg phi) -> regular fs ELECTRICIDAD (cx_srcs x') g (fsrc_reg phi) ->
  rnc_nonneg g -> rnc_nonneg phi -> 0 <= k <= 1 ->
  exists p p', weighted_parts fs x = Ok p /\ weighted_parts fs x' = Ok p'
    /\ nren (we_a (we_of_parts k p')) <= nren (we_a (we_of_parts k p))
    /\ co2 (we_a (we_of_parts k p')) <= co2 (we_a (we_of_parts k p))
    /\ nren (we_b (we_of_parts k p')) <= nren (we_b (we_of_parts k p))
    /\ co2 (we_b (we_of_parts k p')) <= co2 (we_b (we_of_parts k p))
    /\ a_del_grid x' <= a_del_grid x.
Proof.
  intros data i dv cm x x' Hn Hdn. pose proof (dom_of_nonneg _ Hn). pose proof (zg_all_of_nonneg _ Hdn). intros. eapply pv_monotone_carrier_lm_all; eassumption.
Qed.

(** the three regimes of a time step *)
Theorem C14_step_both_sources : forall c d, col_ok c -> el_col c -> 0 <= d ->
  s_del_grid (sr true (bump d c)) <= s_del_grid (sr true c) /\ s_exp (sr true c) <= s_exp (sr true (bump d c))
  /\ s_exp_src (sr true c) EL_COGEN <= s_exp_src (sr true (bump d c)) EL_COGEN
  /\ s_used_src (sr true c) EL_INSITU <= s_used_src (sr true (bump d c)) EL_INSITU.
Proof. intros c d Hok Hel Hd. apply step_prio; try assumption; apply zg_of_nonneg; first [exact Hd|apply (ok_pv c Hok)|apply (ok_chp c Hok)]. Qed.

(** non-vacuity and the RER counterexample *)
Definition c14_factors : list Factor :=
  match normalize_factors
          [mkFactor ELECTRICIDAD RED SUMINISTRO STEP_A (mkRNC (qfrac 414 1000) (qfrac 1954 1000) (qfrac 331 1000)) [];
           mkFactor GASNATURAL RED SUMINISTRO STEP_A (mkRNC (qfrac 5 1000) (qfrac 1190 1000) (qfrac 252 1000)) [];
           mkFactor BIOMASA RED SUMINISTRO STEP_A (mkRNC (qfrac 1003 1000) (qfrac 34 1000) (qfrac 18 1000)) []]
          default_red default_red with
  | Ok fs => fs | Err _ => [] end.

Definition c14_base : list Energy :=
  [EUsed 1 ELECTRICIDAD ILU [qz 100] []; EProd 2 EL_COGEN [qz 100] []; EUsed 2 BIOMASA COGEN [qz 120] []; EUsed 4 GASNATURAL CAL [qz 1000] []].
Definition c14_more : list Energy := c14_base ++ [EProd 3 EL_INSITU [qz 50] []].

Example C14_hypotheses_met :
  nonneg_data c14_base /\ filter (has_carrier ELECTRICIDAD) c14_base <> nil /\ reg_set c14_factors
  /\ wf 1 c14_base /\ In ELECTRICIDAD (avail_carriers c14_base).
Proof.
  split; [apply nonneg_datab_ok; vm_compute; reflexivity|].
  split; [discriminate|]. split; [apply reg_setb_ok; vm_compute; reflexivity|]. split; [repeat constructor|].
  vm_compute. tauto.
Qed.

(** cogeneration fed with biomass, and a gas boiler: the electricity the cogenerator no longer supplies to the
    building is exported with the (renewable) resources of its fuel; RER goes from 9.5 % down to 8.8 % although
    non-renewable energy goes down too *)
Theorem C14_rer_with_renewable_cogeneration_refuted :
  exists ep ep',
    energy_performance (mkComponents [] c14_base (mkNeeds None None None)) c14_factors 0 1 false = Ok ep /\
    energy_performance (mkComponents [] c14_more (mkNeeds None None None)) c14_factors 0 1 false = Ok ep' /\
    t_rer ep' < t_rer ep /\ nren (t_we_b ep') <= nren (t_we_b ep).
Proof.
  eexists. eexists. split; [vm_compute; reflexivity|]. split; [vm_compute; reflexivity|].
  split; [apply Qclt_alt; vm_compute; reflexivity|apply Qcle_alt; vm_compute; discriminate].
Qed.

Print Assumptions C14_grid_delivered_never_grows.
Print Assumptions C14_exported_never_shrinks.
Print Assumptions C14_nren_co2_never_grow.
Print Assumptions C14_building.
Print Assumptions C14_load_matching_used_production.
Print Assumptions C14_load_matching_factor_is_g.
Print Assumptions C14_load_matching_without_cogeneration.
Print Assumptions C14_step_both_sources.
Print Assumptions C14_load_matching_cogeneration_used.
Print Assumptions C14_load_matching_factor_is_F.
Print Assumptions C14_load_matching_step_both_sources.
Print Assumptions C14_load_matching_carrier.
Print Assumptions C14_ren_never_shrinks_without_cogeneration.
Print Assumptions C14_ratio.
Print Assumptions C14_rer_with_renewable_cogeneration_refuted.
