(** * C07 — Preparing weighting factors: complete, respectful of user values, idempotent

    A factor set is identified with its lookup function [lookk] (first match, duplicates allowed).
    [prepare_factors fs red1 red2 d1 d2] models cte::wfactors_from_str / wfactors_from_loc after
    parsing: set_user_wfactors, then Factors::normalize with the defaults [d1 d2]. *)
From Cteepbd Require Import Model.Factors Proofs.FactorFacts Proofs.CompleteFacts Proofs.IdemFacts Proofs.DataEquiv.
Open Scope Qc_scope.

(** never changes a supplied factor, except the ones fixed by the method; never removes one *)
Theorem C07_respects : forall fs d1 d2 fs' k v,
  normalize_factors fs d1 d2 = Ok fs' -> ~ In k forced_keys -> lookk fs k = Some v -> lookk fs' k = Some v.
Proof. exact normalize_respects. Qed.

Theorem C07_nothing_removed : forall fs d1 d2 fs' k,
  normalize_factors fs d1 d2 = Ok fs' -> lookk fs k <> None -> lookk fs' k <> None.
Proof. exact normalize_keeps_defined. Qed.

(** ambient heat, solar thermal and on-site electricity supply are (1, 0, 0); the last one when the set mentions
    electricity at all (a set that says nothing about electricity stays so: C07_no_electricity_added) *)
Theorem C07_forced : forall fs d1 d2 fs' k,
  normalize_factors fs d1 d2 = Ok fs' -> In k forced_keys -> (k = K_EL_INSITU -> In ELECTRICIDAD (carriers_of fs)) ->
  lookk fs' k = Some one.
Proof. intros fs d1 d2 fs' k H. exact (forced_fixed fs fs' d1 d2 H k). Qed.

Theorem C07_no_electricity_added : forall fs d1 d2 fs',
  normalize_factors fs d1 d2 = Ok fs' -> In ELECTRICIDAD (carriers_of fs') -> In ELECTRICIDAD (carriers_of fs).
Proof. intros fs d1 d2 fs' H. exact (el_back fs fs' d1 d2 H). Qed.

(** default export factors, for each exporting carrier the prepared set has a grid factor for (ambient heat and solar
    thermal always have one) *)
Theorem C07_export_defaults : forall fs d1 d2 fs' c dest,
  normalize_factors fs d1 d2 = Ok fs' -> In (c, INSITU) exp_carriers -> lookk fs' (grid_key c) <> None -> dest <> SUMINISTRO ->
  lookk fs' (c, INSITU, dest, STEP_A) = Some (match lookk fs (c, INSITU, dest, STEP_A) with Some x => x | None => one end) /\
  lookk fs' (c, INSITU, dest, STEP_B) = match lookk fs (c, INSITU, dest, STEP_B) with Some x => Some x | None => lookk fs' (grid_key c) end.
Proof. exact export_defaults. Qed.

(** RED1 / RED2: user value > file value > built-in default *)
Theorem C07_red_precedence : forall fs r1 d1 d2 fs' r2,
  prepare_factors fs r1 r2 d1 d2 = Ok fs' ->
  lookk fs' K_RED1 = Some (match r1 with Some v => v | None => match lookk fs K_RED1 with Some v => v | None => d1 end end) /\
  lookk fs' K_RED2 = Some (match r2 with Some v => v | None => match lookk fs K_RED2 with Some v => v | None => d2 end end).
Proof. exact red_precedence. Qed.

(** any building using only carriers of the set is evaluated without a missing-factor error *)
Theorem C07_complete : forall fs fs' d1 d2 c k area lm n,
  normalize_factors fs d1 d2 = Ok fs' ->
  wf n (c_data c) ->
  (forall cr, In cr (avail_carriers (c_data c)) -> lookk fs' (grid_key cr) <> None) ->
  energy_performance c fs' k area lm <> Err MissingFactor.
Proof. exact prepared_set_complete. Qed.

(** preparing an already prepared set changes nothing (list equality), also with the same user values *)
Theorem C07_idempotent : forall fs fs' d1 d2, normalize_factors fs d1 d2 = Ok fs' -> normalize_factors fs' d1 d2 = Ok fs'.
Proof. exact normalize_idempotent. Qed.

Theorem C07_idempotent_user : forall fs fs' r1 r2 d1 d2,
  prepare_factors fs r1 r2 d1 d2 = Ok fs' -> prepare_factors fs' r1 r2 d1 d2 = Ok fs'.
Proof.
  intros fs fs' r1 r2 d1 d2 H. destruct (red_precedence fs r1 d1 d2 fs' r2 H) as [P1 P2].
  unfold prepare_factors in *. 
  assert (E : set_user_wfactors fs' r1 r2 = fs').
  { unfold set_user_wfactors. destruct r1 as [v1|].
    - rewrite (update_noop fs' K_RED1 v1) by exact P1. destruct r2 as [v2|]; [apply update_noop; exact P2|reflexivity].
    - destruct r2 as [v2|]; [apply update_noop; exact P2|reflexivity]. }
  rewrite E. eapply normalize_idempotent. exact H.
Qed.

(** an unusable set is rejected *)
Theorem C07_rejects : forall fs d1 d2 c,
  In c (carriers_of fs) -> lookk (forced_updates fs) (grid_key c) = None -> normalize_factors fs d1 d2 = Err MissingFactor.
Proof. exact normalize_rejects. Qed.

(** every carrier of the prepared set has its grid supply factor *)
Theorem C07_prepared_carriers_have_grid_factors : forall fs d1 d2 fs' c,
  normalize_factors fs d1 d2 = Ok fs' -> In c (carriers_of fs') -> lookk fs' (grid_key c) <> None.
Proof. intros fs d1 d2 fs' c H. exact (prepared_grid fs fs' d1 d2 H c). Qed.

(** a set that says nothing about electricity is usable (for buildings without electricity): the file written with
    --of for such a building is one *)
Example C07_gas_only_set_is_accepted :
  let fs := [mkFactor GASNATURAL RED SUMINISTRO STEP_A (mkRNC (qfrac 5 1000) (qfrac 1190 1000) (qfrac 252 1000)) []] in
  match normalize_factors fs default_red default_red with
  | Ok fs' => length fs' = 15%nat /\ lookk fs' (grid_key ELECTRICIDAD) = None /\ normalize_factors fs' default_red default_red = Ok fs'
  | Err _ => False end.
Proof. vm_compute. repeat split; reflexivity. Qed.

(** non-vacuity: a two-line file prepares to 22 factors, idempotently *)
Example C07_example :
  let fs := [mkFactor ELECTRICIDAD RED SUMINISTRO STEP_A (mkRNC (qfrac 414 1000) (qfrac 1954 1000) (qfrac 331 1000)) [];
             mkFactor ELECTRICIDAD INSITU SUMINISTRO STEP_A one []] in
  match normalize_factors fs default_red default_red with
  | Ok fs' => length fs' = 20%nat /\ normalize_factors fs' default_red default_red = Ok fs'
  | Err _ => False end.
Proof. vm_compute. split; reflexivity. Qed.

Print Assumptions C07_respects.
Print Assumptions C07_nothing_removed.
Print Assumptions C07_forced.
Print Assumptions C07_export_defaults.
Print Assumptions C07_red_precedence.
Print Assumptions C07_complete.
Print Assumptions C07_idempotent.
Print Assumptions C07_idempotent_user.
Print Assumptions C07_rejects.
Print Assumptions C07_no_electricity_added.
Print Assumptions C07_prepared_carriers_have_grid_factors.
