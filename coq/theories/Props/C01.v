(** * C01 — Energy is conserved per carrier and time step

    For every carrier [cr], both load-matching modes [lm] and every component list
    [data] with non-negative values (zero or >= 0.01 kWh where stated), every step record
    [s] of the carrier's balance — the records whose projections are the per-step vectors
    reported by the implementation (Model/Dump.v) — satisfies the conservation identities
    and bounds; the annual values satisfy the same identities. *)
From Cteepbd Require Import Model.Balance Proofs.StepFacts Proofs.ColFacts.
Open Scope Qc_scope.

Definition step_conserved (s : StepR) : Prop :=
  s_p s = s_used s + s_exp s /\
  s_exp s = s_exp_ne s + s_exp_grid s /\
  s_u s = s_used s + s_del_grid s /\
  0 <= s_p s /\ 0 <= s_u s /\ 0 <= s_used s /\ 0 <= s_exp s /\ 0 <= s_exp_ne s /\
  0 <= s_exp_grid s /\ 0 <= s_del_grid s /\
  s_used s <= qmin (s_u s) (s_p s) /\
  s_exp_ne s <= s_ne s.

Definition step_src_conserved (s : StepR) : Prop :=
  (forall j, s_psrc s j = s_used_src s j + s_exp_src s j /\ 0 <= s_used_src s j <= s_psrc s j /\ 0 <= s_exp_src s j).

Definition step_src_total (s : StepR) : Prop :=
  s_used_src s EL_INSITU + s_used_src s EL_COGEN + s_used_src s PS_TERMOSOLAR + s_used_src s PS_EAMBIENTE
  = s_used s.

Lemma C01_step_proof cr lm data : nonneg_data data ->
  forall s, In s (cx_steps (mk_ctx cr lm data)) -> step_conserved s.
Proof.
  intros Hn s Hs. apply steps_inv in Hs as (t & ->).
  pose proof (col_at_ok cr data t Hn) as Hok.
  set (pr := cx_prio _). set (c := col_at _ t) in *.
  destruct (step_identities pr lm c) as (I1 & I2 & I3).
  destruct (step_nonneg pr lm c Hok) as (N1 & N2 & N3 & N4 & N5 & N6 & N7 & N8).
  destruct (used_tot_bounds pr lm c Hok) as (U1 & U2).
  unfold step_conserved. repeat split; assumption.
Qed.

Lemma C01_src_proof cr lm data : nonneg_data data ->
  forall s, In s (cx_steps (mk_ctx cr lm data)) -> step_src_conserved s.
Proof.
  intros Hn s Hs. apply steps_inv in Hs as (t & ->).
  pose proof (col_at_ok cr data t Hn) as Hok.
  set (pr := cx_prio _). set (c := col_at _ t) in *. intros j.
  destruct (used_src_bounds pr lm c Hok j) as (B1 & B2).
  repeat split; try assumption.
  - apply src_identity.
  - unfold s_exp_src. revert B2. generalize (s_used_src (c, step_out pr lm c) j) (s_psrc (c, step_out pr lm c) j).
    intros a b H. qlra.
Qed.

Lemma C01_src_total_proof cr lm data : nonneg_data data -> dom_data data ->
  forall s, In s (cx_steps (mk_ctx cr lm data)) -> step_src_total s.
Proof.
  intros Hn Hd s Hs. apply steps_inv in Hs as (t & ->).
  unfold step_src_total.
  exact (used_src_sum (cx_prio (mk_ctx cr lm data)) lm _ (col_at_ok cr data t Hn) (col_at_dom cr data t Hd)).
Qed.

Definition annual_conserved (x : CrCtx) : Prop :=
  a_prod x = a_used x + a_exp x /\
  a_exp x = a_exp_ne x + a_exp_grid x /\
  a_epus x = a_used x + a_del_grid x /\
  a_del x = a_del_grid x + a_del_onst x + a_cgnus x /\
  (forall j, a_prod_src x j = a_used_src x j + a_exp_src x j) /\
  0 <= a_used x /\ 0 <= a_exp_ne x /\ 0 <= a_exp_grid x /\ 0 <= a_del_grid x /\
  a_used x <= a_epus x /\ a_used x <= a_prod x /\ a_exp_ne x <= a_nepus x.

Lemma C01_annual_proof cr lm data : nonneg_data data -> annual_conserved (mk_ctx cr lm data).
Proof.
  intros Hn. set (x := mk_ctx cr lm data).
  assert (HS : forall s, In s (cx_steps x) -> step_conserved s) by (apply C01_step_proof; assumption).
  unfold annual_conserved, a_prod, a_used, a_exp, a_exp_ne, a_exp_grid, a_epus, a_del_grid, a_del,
    a_prod_src, a_used_src, a_exp_src, a_nepus.
  repeat split.
  - rewrite <- !ann_add. apply ann_ext. intros s Hs. destruct (HS s Hs) as (I1 & I2 & _). rewrite I1, I2. ring.
  - rewrite <- ann_add. apply ann_ext. intros s Hs. now destruct (HS s Hs) as (_ & _ & I3 & _).
  - intros j. rewrite <- ann_add. apply ann_ext. intros s _. unfold s_exp_src. ring.
  - apply ann_nonneg. intros s Hs. now destruct (HS s Hs) as (_ & _ & _ & _ & _ & N & _).
  - apply ann_nonneg. intros s Hs. now destruct (HS s Hs) as (_ & _ & _ & _ & _ & _ & _ & N & _).
  - apply ann_nonneg. intros s Hs. now destruct (HS s Hs) as (_ & _ & _ & _ & _ & _ & _ & _ & N & _).
  - apply ann_nonneg. intros s Hs. now destruct (HS s Hs) as (_ & _ & _ & _ & _ & _ & _ & _ & _ & N & _).
  - apply ann_le. intros s Hs. destruct (HS s Hs) as (_ & _ & _ & _ & _ & _ & _ & _ & _ & _ & U & _).
    revert U. generalize (s_used s) (s_u s) (s_p s). intros a b c U. qlra.
  - apply ann_le. intros s Hs. destruct (HS s Hs) as (_ & _ & _ & _ & _ & _ & _ & _ & _ & _ & U & _).
    revert U. generalize (s_used s) (s_u s) (s_p s). intros a b c U. qlra.
  - apply ann_le. intros s Hs. now destruct (HS s Hs) as (_ & _ & _ & _ & _ & _ & _ & _ & _ & _ & _ & U).
Qed.

(** ** The property theorems *)

Theorem C01_step : forall cr lm data, nonneg_data data ->
  forall s, In s (cx_steps (mk_ctx cr lm data)) -> step_conserved s.
Proof. exact C01_step_proof. Qed.

Theorem C01_src : forall cr lm data, nonneg_data data ->
  forall s, In s (cx_steps (mk_ctx cr lm data)) -> step_src_conserved s.
Proof. exact C01_src_proof. Qed.

Theorem C01_src_total : forall cr lm data, nonneg_data data -> dom_data data ->
  forall s, In s (cx_steps (mk_ctx cr lm data)) -> step_src_total s.
Proof. exact C01_src_total_proof. Qed.

(** the same for every component set with non-negative values, whatever their size (no floor of 0.01 kWh is needed
    since fix c3bd83b) *)
Theorem C01_src_total_any_values : forall cr lm data, nonneg_data data ->
  forall s, In s (cx_steps (mk_ctx cr lm data)) -> step_src_total s.
Proof.
  intros cr lm data Hn s Hs. apply steps_inv in Hs as (t & ->). unfold step_src_total.
  exact (used_src_sum_any (cx_prio (mk_ctx cr lm data)) lm _ (col_at_ok cr data t Hn)).
Qed.

Theorem C01_annual : forall cr lm data, nonneg_data data -> annual_conserved (mk_ctx cr lm data).
Proof. exact C01_annual_proof. Qed.

(** non-vacuity: a concrete building meets the hypotheses and has steps *)
Example C01_nonvacuous :
  let data := [EUsed 1 ELECTRICIDAD ACS [qz 100; qz 50] []; EProd 1 EL_INSITU [qz 30; qz 80] [];
               EProd 2 EL_COGEN [qz 10; qz 10] []; EUsed 0 ELECTRICIDAD NEPB [qz 5; qz 5] []] in
  nonneg_data data /\ dom_data data /\ length (cx_steps (mk_ctx ELECTRICIDAD true data)) = 2%nat
  /\ cx_prio (mk_ctx ELECTRICIDAD true data) = true.
Proof.
  cbv zeta. split; [|split; [|split]].
  - apply nonneg_datab_ok. vm_compute. reflexivity.
  - apply dom_datab_ok. vm_compute. reflexivity.
  - vm_compute. reflexivity.
  - vm_compute. reflexivity.
Qed.

Print Assumptions C01_step.
Print Assumptions C01_src.
Print Assumptions C01_src_total.
Print Assumptions C01_annual.
Print Assumptions C01_src_total_any_values.
