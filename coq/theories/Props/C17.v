(** * C17 — Every output format is well formed and reports the computed result

    The text model (Model/Text.v) is compared byte for byte with [to_plain] and [to_xml] of the
    implementation on the implementation's own figures (lib/props/c17.py); the statements below hold for
    every result, every metadata and comment text and every figure.  What "well formed" means is the grammar
    of Spec/Xml.v. *)
From Coq Require Import String Permutation.
From Cteepbd Require Import Base.Num Model.Types Model.Dump Model.Text Spec.Xml Proofs.TextFacts.
Open Scope Qc_scope.

(** the XML document is well formed for any factors, components (metadata, comments, values), k_exp, area and figures *)
Theorem C17_xml_well_formed :
  forall (f : Factors) (c : Components) (k area ren_m2 nren_m2 : Qc), document (ep_xml f c k area ren_m2 nren_m2).
Proof. exact ep_xml_document. Qed.

(** any text at all — [<], [>], [&], quotes, backslashes, control characters, any bytes — is written as legal
    character data *)
Theorem C17_escape_any_text : forall s : bytes, chardata (escape_xml s).
Proof. exact escape_chardata. Qed.

(** text without control characters and without the bytes of U+FFFE/U+FFFF is only escaped, not altered *)
Theorem C17_escape_keeps_clean_text :
  forall s, Forall (fun c => bad_c0 c = false) s -> Forall (fun c => c <> 239%N) s -> fix_chars s = s.
Proof. exact fix_chars_id. Qed.

(** reading the escaped text back (undoing the five entity references) recovers every character of the text that
    was written, except that a backslash reads as an apostrophe (the writer escapes '\' as &apos;) *)
Theorem C17_escape_is_reversible : forall s : bytes, unescape (escape_xml s) = map as_read (fix_chars s).
Proof. exact unescape_escape. Qed.

(** a figure written with [d] decimals: sign, integer part, point, exactly [d] digits, and the number these digits
    denote is within half a unit of the last decimal of the figure *)
Theorem C17_figures_at_precision :
  forall (d : nat) (q : Qc),
    (exists I F, fmt_fixed d q = ((if qltb q 0 then [45%N] else []) ++ I ++ (match d with O => [] | _ => 46%N :: F end))%list
                 /\ length F = d
                 /\ (dec_value I * pow10 d + dec_value F = scaled d q)%N)
    /\ qabs (qz (Z.of_N (scaled d q)) - qabs q * qz (Z.of_N (pow10 d))) <= qfrac 1 2.
Proof. intros d q. split; [exact (fmt_fixed_denotes d q)|exact (scaled_close d q)]. Qed.

(** the JSON writer's rounding of weighted figures (x * 1000, rounded, / 1000) moves x * 1000 by at most one half *)
Theorem C17_json_rounding : forall x : Qc, qabs (qz (rha x) - x) <= qfrac 1 2.
Proof. exact rha_close. Qed.

(** the order of a table of the plain report does not depend on the order in which its entries are visited *)
Theorem C17_tables_order_independent : forall l l' : list bytes, Permutation l l' -> sort_b l = sort_b l'.
Proof. exact sort_b_perm. Qed.

(** non-vacuity / sanity: an escaped text with every special character, and a figure at a rounding tie *)
Example C17_escape_example :
  escape_xml (bs "a<b>&""\" ++ [1%N]) = bs "a&lt;b&gt;&amp;&quot;&apos;" ++ [239; 191; 189]%N.
Proof. vm_compute. reflexivity. Qed.
Example C17_fmt_examples :
  fmt_fixed 2 (qfrac 1 8) = bs "0.12" /\ fmt_fixed 2 (qfrac 3 8) = bs "0.38" /\ fmt_fixed 1 (qfrac (-5) 2) = bs "-2.5"
  /\ fmt_fixed 1 (qfrac 12345 100) = bs "123.4" /\ fmt_fixed 0 (qfrac 5 2) = bs "2".
Proof. vm_compute. repeat split; reflexivity. Qed.

Print Assumptions C17_xml_well_formed.
Print Assumptions C17_escape_any_text.
Print Assumptions C17_escape_keeps_clean_text.
Print Assumptions C17_escape_is_reversible.
Print Assumptions C17_figures_at_precision.
Print Assumptions C17_json_rounding.
Print Assumptions C17_tables_order_independent.
