(** * C10 — Results depend on what is declared, not on file layout or on the run (data level)

    The first theorems are about component lists; the text-level rewritings (comments, blank lines, header, BOM,
    white space, CR LF, explicit id 0) are theorems about the reader (Model/Parse.v) further down. *)
From Cteepbd Require Import Model.Balance Model.Components Proofs.ColFacts Proofs.EpFacts Proofs.DataEquiv Proofs.NormFacts Proofs.WfFacts Proofs.NormPerm Proofs.NormRename Proofs.NormSplit.
From Coq Require Import Permutation.
Open Scope Qc_scope.

(** reordering the components *)
Theorem C10_reorder : forall n meta nd fs k area lm d d',
  wf n d -> Permutation d d' ->
  ep_same (energy_performance (mkComponents meta d nd) fs k area lm) (energy_performance (mkComponents meta d' nd) fs k area lm).
Proof. intros. apply (equiv_energy_performance n). now apply perm_equiv. Qed.

(** from the declared components: the normalised list of a reordered list of components is a permutation of the
    normalised list (or the same error) — completions and reassigned auxiliary components only depend on per-system
    sums, the systems can be processed in any order, the final sort is stable — hence the same evaluation *)
Theorem C10_normalize_reorder : forall n data data', Permutation data data' -> wf n data ->
  match normalize_data data, normalize_data data' with
  | Ok d, Ok d' => Permutation d d' | Err a, Err b => a = b | _, _ => False end.
Proof. exact normalize_data_perm. Qed.

Theorem C10_reorder_declared : forall n meta nd fs k area lm data data' d,
  Permutation data data' -> wf n data -> normalize_data data = Ok d ->
  exists d', normalize_data data' = Ok d' /\
    ep_same (energy_performance (mkComponents meta d nd) fs k area lm) (energy_performance (mkComponents meta d' nd) fs k area lm).
Proof.
  intros n meta nd fs k area lm data data' d P W H. pose proof (normalize_data_perm n data data' P W) as R. rewrite H in R.
  destruct (normalize_data data') as [d'|]; [|contradiction]. exists d'. split; [reflexivity|].
  apply (equiv_energy_performance n). apply perm_equiv; [exact (normalize_wf n data d W H)|exact R].
Qed.

(** splitting one component into two with the same tags whose values add up (ids and comments free) *)
Theorem C10_split : forall n meta nd fs k area lm pre post e v1 v2 i1 i2,
  wf n (pre ++ e :: post) -> e_vals e = vadd v1 v2 -> length v1 = n -> length v2 = n ->
  ep_same (energy_performance (mkComponents meta (pre ++ e :: post) nd) fs k area lm)
          (energy_performance (mkComponents meta (pre ++ e_set_id (e_set_vals e v1) i1 :: e_set_id (e_set_vals e v2) i2 :: post) nd) fs k area lm).
Proof. intros. apply (equiv_energy_performance n). now apply split_equiv. Qed.

(** from the declared components: one component written as two lines with the same tags, id and comment whose values
    add up.  Normalisation fails alike or gives component lists with the same tag-selected sums — the completions and the
    reassigned auxiliary energy only see per-system sums (Proofs/NormSplit.v) — hence the same evaluation *)
Theorem C10_normalize_split : forall n pre post e v1 v2,
  wf n (pre ++ e :: post) -> e_vals e = vadd v1 v2 -> length v1 = n -> length v2 = n ->
  match normalize_data (pre ++ e :: post), normalize_data (pre ++ e_set_vals e v1 :: e_set_vals e v2 :: post) with
  | Ok a, Ok b => data_equiv n a b
  | Err x, Err y => x = y
  | _, _ => False
  end.
Proof. exact normalize_data_split. Qed.

Theorem C10_split_declared : forall n meta nd fs k area lm pre post e v1 v2 d,
  wf n (pre ++ e :: post) -> e_vals e = vadd v1 v2 -> length v1 = n -> length v2 = n ->
  normalize_data (pre ++ e :: post) = Ok d ->
  exists d', normalize_data (pre ++ e_set_vals e v1 :: e_set_vals e v2 :: post) = Ok d' /\
    ep_same (energy_performance (mkComponents meta d nd) fs k area lm) (energy_performance (mkComponents meta d' nd) fs k area lm).
Proof.
  intros n meta nd fs k area lm pre post e v1 v2 d W Hv H1 H2 E.
  pose proof (normalize_data_split n pre post e v1 v2 W Hv H1 H2) as R. unfold res_de in R. rewrite E in R.
  destruct (normalize_data (pre ++ e_set_vals e v1 :: e_set_vals e v2 :: post)) as [d'|]; [|contradiction].
  exists d'. split; [reflexivity|]. apply (equiv_energy_performance n). exact R.
Qed.

(** a two-service system with auxiliary energy whose heating output is written on two lines: both layouts normalise, and
    the reassigned auxiliary energy is the same (30 of 40 kWh to heating either way) *)
Example C10_split_example :
  let pre := [EUsed 1 ELECTRICIDAD ACS [qfrac 100 1] []; EUsed 1 ELECTRICIDAD CAL [qfrac 100 1] []; EOut 1 ACS [qfrac 100 1] []] in
  let post := [EAux 1 NEPB [qfrac 40 1] []] in
  let e := EOut 1 CAL [qfrac 300 1] [] in
  wf 1 (pre ++ e :: post) /\ e_vals e = vadd [qfrac 100 1] [qfrac 200 1] /\
  match normalize_data (pre ++ e :: post), normalize_data (pre ++ e_set_vals e [qfrac 100 1] :: e_set_vals e [qfrac 200 1] :: post) with
  | Ok a, Ok b => filter is_aux a = filter is_aux b /\ map (fun x => map this (e_vals x)) (filter is_aux a) = [[10%Q]; [30%Q]]
  | _, _ => False
  end.
Proof. split; [repeat constructor|]. split; vm_compute; [reflexivity|]. split; reflexivity. Qed.

(** more generally: two declared lists with the same per-system tag-selected sums, the same kinds of components per system
    and the same order of first appearance of the systems normalise alike *)
Theorem C10_normalize_same_system_sums : forall n d d', seq_equiv n d d' ->
  match normalize_data d, normalize_data d' with
  | Ok a, Ok b => data_equiv n a b
  | Err x, Err y => x = y
  | _, _ => False
  end.
Proof. exact normalize_data_seq_equiv. Qed.

(** renumbering system ids (any function of the id): the balance never looks at ids *)
Theorem C10_rename_balance : forall n meta nd fs k area lm d f,
  wf n d ->
  ep_same (energy_performance (mkComponents meta d nd) fs k area lm)
          (energy_performance (mkComponents meta (map (fun e => e_set_id e (f (e_id e))) d) nd) fs k area lm).
Proof. intros. apply (equiv_energy_performance n). now apply rename_equiv. Qed.

(** from the declared components: renumbering the systems consistently (any injective renumbering) gives the renumbered
    normalised components, in the order of the new numbers — hence the same evaluation *)
Theorem C10_normalize_rename : forall f data, (forall a b : Z, f a = f b -> a = b) ->
  match normalize_data (rename f data), normalize_data data with
  | Ok d', Ok d => Permutation d' (rename f d) | Err a, Err b => a = b | _, _ => False end.
Proof.
  intros f data Hinj. pose proof (normalize_data_rename f Hinj data) as R. destruct (normalize_data data); exact R.
Qed.

Theorem C10_rename_declared : forall n meta nd fs k area lm f data d,
  (forall a b : Z, f a = f b -> a = b) -> wf n data -> normalize_data data = Ok d ->
  exists d', normalize_data (rename f data) = Ok d' /\
    ep_same (energy_performance (mkComponents meta d nd) fs k area lm) (energy_performance (mkComponents meta d' nd) fs k area lm).
Proof.
  intros n meta nd fs k area lm f data d Hinj W H. pose proof (normalize_data_rename f Hinj data) as R. rewrite H in R.
  destruct (normalize_data (rename f data)) as [d'|]; [|contradiction]. exists d'. split; [reflexivity|].
  cbn in R. pose proof (normalize_wf n data d W H) as Wd.
  pose proof (rename_equiv n d f Wd) as E1. fold (rn f) in E1. fold (rename f d) in E1.
  pose proof (perm_equiv n (rename f d) d' (de_wf' _ _ _ E1) (Permutation_sym R)) as E2.
  apply (equiv_energy_performance n). constructor.
  - exact Wd. - exact (de_wf' _ _ _ E2).
  - intros p Hp t. rewrite (de_sum _ _ _ E1 p Hp t). apply (de_sum _ _ _ E2 p Hp t).
  - intros p Hp. rewrite (de_ex _ _ _ E1 p Hp). apply (de_ex _ _ _ E2 p Hp).
Qed.

(** every model function is a function: repeated evaluation gives the same result; what varies between
    runs in the implementation is the iteration order of hash sets, i.e. the order in which systems are
    processed by normalisation: what each system receives does not depend on it *)
Theorem C10_completion_order_independent : forall src env env' i,
  filter (has_id i) env = filter (has_id i) env' -> completion_for src env i = completion_for src env' i.
Proof. exact completion_local. Qed.

Theorem C10_aux_order_independent : forall data i d, assign_aux_id data i = Ok d ->
  filter (fun e => negb (has_id i e)) d = filter (fun e => negb (has_id i e)) data.
Proof. exact assign_aux_id_others. Qed.

(** the final order is fixed by a stable sort *)
Theorem C10_sorted : forall l, sorted_by_id (sort_by_id l) /\ forall i, filter (has_id i) (sort_by_id l) = filter (has_id i) l.
Proof. intros l. split; [apply sort_by_id_sorted|intros; apply sort_by_id_stable]. Qed.

Print Assumptions C10_reorder.
Print Assumptions C10_normalize_reorder.
Print Assumptions C10_reorder_declared.
Print Assumptions C10_split.
Print Assumptions C10_normalize_split.
Print Assumptions C10_split_declared.
Print Assumptions C10_normalize_same_system_sums.
Print Assumptions C10_rename_balance.
Print Assumptions C10_normalize_rename.
Print Assumptions C10_rename_declared.
Print Assumptions C10_completion_order_independent.
Print Assumptions C10_aux_order_independent.
Print Assumptions C10_sorted.

(** ** Text level: what the components reader (Model/Parse.v, tied to FromStr by the exact correspondence of C16) does
    not look at.  [parse_components s = parse_trimmed (map trim (lines (strip_bom s)))]: the reader sees the text only
    through its trimmed lines. *)
From Coq Require Import String.
From Cteepbd Require Import Model.Text Model.Parse Proofs.ParseFacts.
Open Scope list_scope.

Theorem C10_text_is_read_by_trimmed_lines : forall s, parse_components s = parse_trimmed (map trim (lines (strip_bom s))).
Proof. exact parse_components_lines. Qed.

(** surrounding white space (any Unicode white space, on any line) *)
Theorem C10_text_whitespace : forall ls (w1 w2 : str -> str),
  (forall l, forallb is_ws (w1 l) = true /\ forallb is_ws (w2 l) = true) ->
  map trim (map (fun l => w1 l ++ l ++ w2 l) ls) = map trim ls.
Proof. exact padded_lines_same. Qed.

(** blank lines, comment lines, a header line: any line that is neither metadata nor data, anywhere *)
Theorem C10_text_ignored_line : forall a l b,
  is_meta_line l = false -> is_data_line l = false -> parse_trimmed (a ++ l :: b) = parse_trimmed (a ++ b).
Proof. exact ignored_line_same. Qed.

Example C10_ignored_lines_exist :
  let ign l := (negb (is_meta_line l) && negb (is_data_line l))%bool in
  ign [] = true /\ ign (cs "# un comentario, con comas") = true /\ ign (cs "vector, tipo, src_dst") = true /\ ign (cs "#") = true.
Proof. cbv zeta. repeat split; reflexivity. Qed.

(** a byte order mark *)
Theorem C10_text_bom : forall s, match s with c :: _ => c <> 65279%N | [] => True end -> parse_components (65279%N :: s) = parse_components s.
Proof. exact bom_same. Qed.

(** CR LF line ends: the CR is removed with the LF *)
Theorem C10_text_crlf : forall l, strip_cr (l ++ [13%N]) = l.
Proof. exact strip_cr_crlf. Qed.

(** writing the system id 0 explicitly or omitting it: a trimmed data line without id that the reader accepts reads
    as the same component with "0, " in front, and the reader of data lines takes the same branch (output-energy
    lines always carry their id; a line without values is not accepted without id: C18_empty_values_refuted) *)
From Cteepbd Require Import Proofs.IdZero.
Theorem C10_text_explicit_id0 : forall l rest data nd,
  plain_line l -> no_id l -> (exists a r, break_at 44%N l = (a, Some r)) ->
  match parse_ctype (fst (two_tags l)) with
  | Some CONSUMO => exists e, parse_used l = POk e
  | Some PRODUCCION => exists e, parse_prod l = POk e
  | Some CT_AUX => exists e, parse_aux l = POk e
  | _ => False
  end ->
  parse_data_lines (id0 l :: rest) data nd = parse_data_lines (l :: rest) data nd.
Proof. exact data_line_id0. Qed.

Theorem C10_text_omitted_id_is_zero : forall l e, no_id l -> parse_used l = POk e -> e_id e = 0%Z.
Proof. exact used_no_id_is_zero. Qed.

Example C10_explicit_id0_example :
  let l := cs "CONSUMO, ACS, ELECTRICIDAD, 1.5, 2.0 # bomba" in
  plain_line l /\ no_id l /\ parse_used (id0 l) = parse_used l /\ exists e, parse_used l = POk e.
Proof. exact id0_example. Qed.

Print Assumptions C10_text_is_read_by_trimmed_lines.
Print Assumptions C10_text_whitespace.
Print Assumptions C10_text_ignored_line.
Print Assumptions C10_text_bom.
Print Assumptions C10_text_crlf.
Print Assumptions C10_text_explicit_id0.
Print Assumptions C10_text_omitted_id_is_zero.
