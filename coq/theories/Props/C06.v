(** * C06 — All declared auxiliary electricity is counted once, for the right services *)
From Cteepbd Require Import Model.Components Proofs.NormFacts Proofs.DataEquiv Proofs.AuxWhole.
Open Scope Qc_scope.

(** a system serving one service: all its auxiliaries go to that service, values untouched *)
Theorem C06_single : forall data i s,
  used_services data i = [s] -> assign_aux_id data i = Ok (map (set_aux_service i s) data).
Proof. exact assign_aux_single. Qed.

Theorem C06_single_values : forall i s e, e_vals (set_aux_service i s e) = e_vals e /\ e_id (set_aux_service i s e) = e_id e.
Proof. intros i s e. destruct e; cbn; try (split; reflexivity). destruct (Z.eqb _ _); split; reflexivity. Qed.

(** a system serving several services: shares proportional to the magnitude of the output energy,
    non-negative, adding up to the declared auxiliary energy at every step with some output *)
Theorem C06_shares : forall data i s t,
  0 <= aux_share data i s t /\
  (0 < q_tot data i t -> aux_share data i s t = qabs (q_out data i s t) / q_tot data i t).
Proof.
  intros. split; [apply aux_share_nonneg|]. intros H. unfold aux_share, q_mag.
  destruct (qltb_spec 0 (q_tot data i t)); [reflexivity|contradiction].
Qed.

Theorem C06_conserve : forall data i t w, 0 < q_tot data i t ->
  qsum (map (fun s => aux_share data i s t * w) (out_services data i)) = w.
Proof. exact aux_split_conserves. Qed.

(** other systems' components (auxiliaries included) are untouched *)
Theorem C06_others_untouched : forall data i d, assign_aux_id data i = Ok d ->
  filter (fun e => negb (has_id i e)) d = filter (fun e => negb (has_id i e)) data.
Proof. exact assign_aux_id_others. Qed.

(** no silent loss when a multi-service system has auxiliaries but no output energy at all *)
Theorem C06_error : forall data i,
  (forall s, used_services data i <> [s]) ->
  0 < qsum (veclistsum (filter (is_aux_of i) data)) ->
  qsum (map (q_tot data i) (seq 0 (num_steps_of data))) = 0 ->
  assign_aux_id data i = Err WrongInput.
Proof. exact assign_aux_error. Qed.

(** auxiliary energy is electricity used by an EPB service, and makes ELECTRICIDAD a balanced carrier *)
Theorem C06_counted : forall data, existsb is_aux data = true -> In ELECTRICIDAD (avail_carriers data).
Proof.
  intros data H. unfold avail_carriers. apply filter_In. split; [apply all_carriers_complete|].
  apply existsb_exists in H as (e & He & Ha). apply existsb_exists. exists e. split; [exact He|].
  destruct e; try discriminate. reflexivity.
Qed.

Theorem C06_aux_is_epb_electricity : forall i s v c,
  has_carrier ELECTRICIDAD (EAux i s v c) = true /\ is_epb_use (EAux i s v c) = srv_is_epb s.
Proof. intros. split; reflexivity. Qed.

(** ** Known finding (recorded in /verif/known_findings.json, class "zero-output step"):
    at a step where a multi-service system delivers no output for any service but declares
    auxiliary energy, that energy is dropped (every share is 0). *)
Definition zero_output_step (data : list Energy) (i : Z) (t : nat) : Prop :=
  (forall s, used_services data i <> [s]) /\ q_tot data i t = 0 /\ 0 < sum_at (filter (is_aux_of i) data) t.

Theorem C06_zero_output_refuted :
  exists data i t d, zero_output_step data i t /\ assign_aux_id data i = Ok d /\
    sum_at (filter (is_aux_of i) d) t = 0.
Proof.
  exists [EUsed 1 ELECTRICIDAD CAL [qz 10; qz 10] []; EUsed 1 ELECTRICIDAD ACS [qz 10; qz 10] [];
          EOut 1 CAL [qz 5; 0] []; EOut 1 ACS [qz 5; 0] []; EAux 1 NEPB [qz 2; qz 2] []], 1%Z, 1%nat.
  eexists. split; [|split].
  - split; [|split].
    + intros s. vm_compute. discriminate.
    + vm_compute. reflexivity.
    + vm_compute. reflexivity.
  - vm_compute. reflexivity.
  - vm_compute. reflexivity.
Qed.

(** end to end, through the whole normalisation (completion, the passes of all systems, the final sort): for every
    system that declares auxiliary energy, the auxiliary components of the normalised list add up at each step to the
    declared auxiliary energy of that system — except, for a system with several EPB services, at the steps where it
    delivers no output energy, where they add up to zero (finding C06-zero-output-step, for every input) *)
Theorem C06_normalized_aux_total : forall n data d, wf n data -> normalize_data data = Ok d ->
  forall i t, In i (ids_of (filter is_aux data)) -> (t < n)%nat ->
  sum_at (filter (is_aux_of i) d) t =
  match used_services data i with
  | [_] => sum_at (filter (is_aux_of i) data) t
  | _ => if qltb 0 (q_tot data i t) then sum_at (filter (is_aux_of i) data) t else 0
  end.
Proof. exact normalize_aux_sum. Qed.

Theorem C06_normalized_aux_conserved : forall n data d, wf n data -> normalize_data data = Ok d ->
  forall i t, In i (ids_of (filter is_aux data)) -> (t < n)%nat ->
  (exists s, used_services data i = [s]) \/ 0 < q_tot data i t ->
  sum_at (filter (is_aux_of i) d) t = sum_at (filter (is_aux_of i) data) t.
Proof.
  intros n data d W H i t Hi Ht C. rewrite (normalize_aux_sum n data d W H i t Hi Ht). unfold aux_expected.
  destruct C as [(s & ->)|P]; [reflexivity|].
  destruct (qltb_spec 0 (q_tot data i t)); [|contradiction]. destruct (used_services data i) as [|s [|s' l]]; reflexivity.
Qed.

(** non-vacuity: the two-service system of C06_zero_output_refuted, normalised: 2 kWh at the step with output, 0 at the other *)
Example C06_normalized_example :
  let data := [EUsed 1 ELECTRICIDAD CAL [qz 10; qz 10] []; EUsed 1 ELECTRICIDAD ACS [qz 10; qz 10] [];
               EOut 1 CAL [qz 5; 0] []; EOut 1 ACS [qz 5; 0] []; EAux 1 NEPB [qz 2; qz 2] []] in
  wf 2 data /\ In 1%Z (ids_of (filter is_aux data)) /\
  match normalize_data data with
  | Ok d => sum_at (filter (is_aux_of 1) d) 0 = qz 2 /\ sum_at (filter (is_aux_of 1) d) 1 = 0
  | Err _ => False end.
Proof. cbv zeta. split; [repeat constructor|]. split; [vm_compute; now left|]. vm_compute. split; apply Qc_is_canon; reflexivity. Qed.

Print Assumptions C06_single.
Print Assumptions C06_normalized_aux_total.
Print Assumptions C06_normalized_aux_conserved.
Print Assumptions C06_single_values.
Print Assumptions C06_shares.
Print Assumptions C06_conserve.
Print Assumptions C06_others_untouched.
Print Assumptions C06_error.
Print Assumptions C06_counted.
Print Assumptions C06_aux_is_epb_electricity.
Print Assumptions C06_zero_output_refuted.
