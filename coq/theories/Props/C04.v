(** * C04 — Totals equal the sum of their breakdowns; per-m2 values equal totals / area *)
From Coq Require Import String.
From Cteepbd Require Import Model.Balance Model.Dump Proofs.StepFacts Proofs.ColFacts Proofs.EpFacts Proofs.Breakdown.
Open Scope Qc_scope.

(** In the model every whole-building figure *is* the sum over the available carriers of the
    per-carrier figure ([tot], [rtotal]: the counterpart of [Balance += &BalanceCarrier]); that the
    implementation's accumulators compute those sums is established by the correspondence check.
    What is proved here is that the breakdowns add up to those totals. *)

Definition totals_are_sums (ep : EP) : Prop :=
  t_epus ep = qsum (map (fun b => a_epus (bc_ctx b)) (ep_bal ep)) /\
  t_prod ep = qsum (map (fun b => a_prod (bc_ctx b)) (ep_bal ep)) /\
  t_del ep = qsum (map (fun b => a_del (bc_ctx b)) (ep_bal ep)) /\
  t_exp ep = qsum (map (fun b => a_exp (bc_ctx b)) (ep_bal ep)) /\
  t_we_a ep = rsum (map (fun b => we_a (bc_we b)) (ep_bal ep)) /\
  t_we_b ep = rsum (map (fun b => we_b (bc_we b)) (ep_bal ep)).

Lemma totals_are_sums_proof ep : totals_are_sums ep.
Proof. repeat split. Qed.

(** weighted energy by service *)
Lemma rsum_map_add {A} (f g : A -> RNC) l : rsum (map (fun x => radd (f x) (g x)) l) = radd (rsum (map f l)) (rsum (map g l)).
Proof. induction l as [|x l IH]; cbn [map]; rewrite ?rsum_cons, ?rsum_nil; [rnc|]. rewrite IH. rnc. Qed.

Lemma rsum_filter_zero {A} (p : A -> bool) (f : A -> RNC) l :
  (forall a, In a l -> p a = false -> f a = rnc0) -> rsum (map f (filter p l)) = rsum (map f l).
Proof.
  induction l as [|a l IH]; intros H; [reflexivity|]. cbn [filter map].
  destruct (p a) eqn:E; cbn [map]; rewrite ?rsum_cons, IH.
  - reflexivity. - intros; apply H; [now right|assumption].
  - rewrite (H a) by (now left || assumption). rnc.
  - intros; apply H; [now right|assumption].
Qed.

Section Building.
  Variables (fs : list Factor) (lm : bool) (data : list Energy) (ep : EP).
  Hypothesis Hok : Forall (bal_ok fs lm data) (ep_bal ep).

  Lemma absent_srv_share b v : In b (ep_bal ep) -> has_srv (bc_ctx b) v = false -> f_us_an (bc_ctx b) v = 0.
  Proof.
    intros Hb H. rewrite (bal_ctx fs lm data ep Hok b Hb) in *. unfold f_us_an.
    rewrite absent_srv_zero by assumption. destruct (qltb _ _); unfold Qcdiv; ring.
  Qed.

  Definition we_sel (f : WE -> RNC) (b : BalCr) : RNC :=
    if qltb 0 (a_epus (bc_ctx b)) then f (bc_we b) else rnc0.

  Lemma we_by_srv_total (f : WE -> RNC) :
    let srv v := rsum (map (fun b => rscale (f_us_an (bc_ctx b) v) (f (bc_we b))) (with_srv ep v)) in
    radd (radd (radd (radd (srv ACS) (srv CAL)) (srv REF)) (srv VEN)) (srv ILU)
    = rsum (map (we_sel f) (ep_bal ep)).
  Proof.
    cbv zeta. unfold with_srv. rewrite !rsum_filter_zero.
    - rewrite <- !rsum_map_add. apply rsum_map_ext. intros b Hb.
      pose proof (f_us_an_total (cx_cr (bc_ctx b)) lm data) as T. cbv zeta in T.
      rewrite <- (bal_ctx fs lm data ep Hok b Hb) in T. unfold we_sel.
      destruct (qltb 0 (a_epus (bc_ctx b))).
      + transitivity (rscale (f_us_an (bc_ctx b) ACS + f_us_an (bc_ctx b) CAL + f_us_an (bc_ctx b) REF
                              + f_us_an (bc_ctx b) VEN + f_us_an (bc_ctx b) ILU) (f (bc_we b))); [rnc|].
        rewrite T. rnc.
      + transitivity (rscale (f_us_an (bc_ctx b) ACS + f_us_an (bc_ctx b) CAL + f_us_an (bc_ctx b) REF
                              + f_us_an (bc_ctx b) VEN + f_us_an (bc_ctx b) ILU) (f (bc_we b))); [rnc|].
        rewrite T. rnc.
    - intros b Hb H. rewrite absent_srv_share by assumption. rnc.
    - intros b Hb H. rewrite absent_srv_share by assumption. rnc.
    - intros b Hb H. rewrite absent_srv_share by assumption. rnc.
    - intros b Hb H. rewrite absent_srv_share by assumption. rnc.
    - intros b Hb H. rewrite absent_srv_share by assumption. rnc.
  Qed.
End Building.

(** the reference area only scales the per-m2 rows *)
Definition set_area (a : Qc) (ep : EP) : EP :=
  mkEP (ep_data ep) (ep_needs ep) (ep_factors ep) (ep_k ep) a (ep_bal ep).

Lemma ep_area_only c fs k a a' lm : ~ a < qfrac 1 1000 -> ~ a' < qfrac 1 1000 ->
  energy_performance c fs k a lm =
  match energy_performance c fs k a' lm with Ok ep => Ok (set_area a ep) | Err e => Err e end.
Proof.
  intros Ha Ha'. unfold energy_performance.
  destruct (qltb_spec a (qfrac 1 1000)); [contradiction|]. destruct (qltb_spec a' (qfrac 1 1000)); [contradiction|].
  destruct (add_cgn_factors fs (c_data c)); cbn [bind]; [|reflexivity].
  destruct (balances _ _ _ _ _); cbn [bind]; reflexivity.
Qed.

Lemma area_indep a ep :
  t_rer (set_area a ep) = t_rer ep /\ t_rer_nrb (set_area a ep) = t_rer_nrb ep /\
  t_rer_onst (set_area a ep) = t_rer_onst ep /\ ep_k (set_area a ep) = ep_k ep /\
  ep_data (set_area a ep) = ep_data ep /\ ep_bal (set_area a ep) = ep_bal ep /\
  dump_balance_abs (set_area a ep) = dump_balance_abs ep.
Proof. repeat split. Qed.

Lemma m2_rows ep :
  dump_balance_m2 ep = map (fun r => (fst r, k_area ep * snd r)) (dump_balance_abs ep)
  /\ map fst (dump_balance_m2 ep) = map fst (dump_balance_abs ep).
Proof.
  split; [reflexivity|]. unfold dump_balance_m2, scale_rows. rewrite map_map. reflexivity.
Qed.

Lemma k_area_inv ep v : ~ ep_area ep < qfrac 1 1000 -> k_area ep * v = v / ep_area ep.
Proof.
  intros H. unfold k_area. destruct (qeqb_spec (ep_area ep) 0) as [Z|Z].
  - exfalso. rewrite Z in H. apply H. qlra.
  - field. exact Z.
Qed.

(** ** Property theorems *)

Theorem C04_totals : forall ep, totals_are_sums ep.
Proof. exact totals_are_sums_proof. Qed.

Theorem C04_epus_by_service : forall fs lm data ep, Forall (bal_ok fs lm data) (ep_bal ep) ->
  t_epus_srv ep ACS + t_epus_srv ep CAL + t_epus_srv ep REF + t_epus_srv ep VEN + t_epus_srv ep ILU = t_epus ep.
Proof. exact t_epus_by_srv. Qed.

Theorem C04_epus_by_service_carrier : forall cr lm data,
  let x := mk_ctx cr lm data in
  a_epus_srv x ACS + a_epus_srv x CAL + a_epus_srv x REF + a_epus_srv x VEN + a_epus_srv x ILU = a_epus x.
Proof. exact epus_by_srv_total. Qed.

Theorem C04_prod_by_source : forall fs lm data ep, Forall (bal_ok fs lm data) (ep_bal ep) ->
  t_prod_src ep EL_INSITU + t_prod_src ep EL_COGEN + t_prod_src ep PS_TERMOSOLAR + t_prod_src ep PS_EAMBIENTE = t_prod ep.
Proof. exact t_prod_by_src. Qed.

Theorem C04_used_by_source_by_service : forall fs lm data ep, Forall (bal_ok fs lm data) (ep_bal ep) ->
  forall j, nonneg_data data ->
  t_used_src_srv ep j ACS + t_used_src_srv ep j CAL + t_used_src_srv ep j REF + t_used_src_srv ep j VEN
  + t_used_src_srv ep j ILU = t_used_src ep j.
Proof. exact t_used_src_by_srv. Qed.

(** produced-and-used energy by source adds up to the produced-and-used energy, at every step of every carrier, for every
    component set with non-negative values (values of any size: the by-source share is a plain ratio since fix c3bd83b) *)
Theorem C04_used_by_source_total : forall cr lm data, nonneg_data data ->
  forall s, In s (cx_steps (mk_ctx cr lm data)) ->
  s_used_src s EL_INSITU + s_used_src s EL_COGEN + s_used_src s PS_TERMOSOLAR + s_used_src s PS_EAMBIENTE = s_used s.
Proof.
  intros cr lm data Hn s Hs. apply steps_inv in Hs as (t & ->).
  exact (used_src_sum_any (cx_prio (mk_ctx cr lm data)) lm _ (col_at_ok cr data t Hn)).
Qed.

Theorem C04_delivered_exported : forall ep,
  t_del ep = t_del_grid ep + t_del_onst ep + t_cgnus ep /\ t_exp ep = t_exp_grid ep + t_exp_ne ep.
Proof. intros. split; [apply t_del_parts|apply t_exp_parts]. Qed.

Theorem C04_weighted_by_service : forall fs lm data ep, Forall (bal_ok fs lm data) (ep_bal ep) ->
  radd (radd (radd (radd (t_we_a_srv ep ACS) (t_we_a_srv ep CAL)) (t_we_a_srv ep REF)) (t_we_a_srv ep VEN)) (t_we_a_srv ep ILU)
  = rsum (map (we_sel we_a) (ep_bal ep))
  /\
  radd (radd (radd (radd (t_we_b_srv ep ACS) (t_we_b_srv ep CAL)) (t_we_b_srv ep REF)) (t_we_b_srv ep VEN)) (t_we_b_srv ep ILU)
  = rsum (map (we_sel we_b) (ep_bal ep)).
Proof.
  intros fs lm data ep H. split.
  - exact (we_by_srv_total fs lm data ep H we_a).
  - exact (we_by_srv_total fs lm data ep H we_b).
Qed.

Theorem C04_area_rows : forall ep,
  dump_balance_m2 ep = map (fun r => (fst r, k_area ep * snd r)) (dump_balance_abs ep)
  /\ map fst (dump_balance_m2 ep) = map fst (dump_balance_abs ep).
Proof. exact m2_rows. Qed.

Theorem C04_area_div : forall ep v, ~ ep_area ep < qfrac 1 1000 -> k_area ep * v = v / ep_area ep.
Proof. exact k_area_inv. Qed.

Theorem C04_area_only : forall c fs k a a' lm, ~ a < qfrac 1 1000 -> ~ a' < qfrac 1 1000 ->
  energy_performance c fs k a lm =
  match energy_performance c fs k a' lm with Ok ep => Ok (set_area a ep) | Err e => Err e end.
Proof. exact ep_area_only. Qed.

Theorem C04_area_indep : forall a ep,
  t_rer (set_area a ep) = t_rer ep /\ t_rer_nrb (set_area a ep) = t_rer_nrb ep /\
  t_rer_onst (set_area a ep) = t_rer_onst ep /\ ep_k (set_area a ep) = ep_k ep /\
  ep_data (set_area a ep) = ep_data ep /\ ep_bal (set_area a ep) = ep_bal ep /\
  dump_balance_abs (set_area a ep) = dump_balance_abs ep.
Proof. exact area_indep. Qed.

Print Assumptions C04_totals.
Print Assumptions C04_epus_by_service.
Print Assumptions C04_epus_by_service_carrier.
Print Assumptions C04_prod_by_source.
Print Assumptions C04_used_by_source_by_service.
Print Assumptions C04_delivered_exported.
Print Assumptions C04_weighted_by_service.
Print Assumptions C04_area_rows.
Print Assumptions C04_area_div.
Print Assumptions C04_area_only.
Print Assumptions C04_area_indep.
Print Assumptions C04_used_by_source_total.
