(** * C15 — The renewable share of DHW demand is a fraction that depends only on DHW supply

    The model of cte::fraccion_renovable_acs_nrb is Model/Cte.v.  Proved here: the documented error
    cases that do not depend on the supply mix, and that the fraction reads nothing that depends on
    k_exp or on the reference area, and the closed forms of the canonical supply mixes: any supply without biomass
    (direct electric + PV, heat pumps, solar thermal, district networks, boilers: C15_without_biomass, with the
    special cases C15_nearby_supply_closed_form, C15_direct_electric_closed_form, C15_heat_pump, C15_solar_boiler),
    biomass with nearby carriers only (C15_biomass_nearby) and biomass mixed with a carrier that is not nearby, with
    or without declared output energy (C15_biomass_mixed, C15_biomass_mixed_without_output).  The range [0,1] for
    consistent demands and the invariance under non-EPB / other services' consumption are decided by the
    differential run (partial claim, see MANIFEST). *)
From Cteepbd Require Import Model.Balance Model.Cte Proofs.EpFacts Proofs.CteFacts Props.C04.
Open Scope Qc_scope.

Theorem C15_no_demand : forall ep, nd_ACS (ep_needs ep) = None -> fraccion_renovable_acs_nrb ep = Err WrongInput.
Proof. intros ep H. unfold fraccion_renovable_acs_nrb, needs_sum. now rewrite H. Qed.

Theorem C15_zero_demand : forall ep v, nd_ACS (ep_needs ep) = Some v -> qabs (qsum v) < f32_epsilon ->
  fraccion_renovable_acs_nrb ep = Err WrongInput.
Proof.
  intros ep v H Hz. unfold fraccion_renovable_acs_nrb, needs_sum. rewrite H.
  destruct (qltb_spec (qabs (qsum v)) f32_epsilon); [reflexivity|contradiction].
Qed.

(** the fraction never reads k_exp: evaluating at another k_exp gives the same value or error *)
Lemma with_srv_k k ep s : map bc_ctx (with_srv (set_k k ep) s) = map bc_ctx (with_srv ep s).
Proof.
  unfold with_srv, set_k. cbn [ep_bal]. induction (ep_bal ep) as [|b l IH]; [reflexivity|]. cbn [map filter].
  change (bc_ctx (set_k_bal k b)) with (bc_ctx b). destruct (has_srv (bc_ctx b) s); cbn [map]; now rewrite IH.
Qed.

Lemma filter_srv_src_k k ep j v :
  map bc_ctx (filter (fun b => has_srv (bc_ctx b) v) (with_src (set_k k ep) j)) = map bc_ctx (filter (fun b => has_srv (bc_ctx b) v) (with_src ep j)).
Proof.
  unfold with_src, set_k. cbn [ep_bal]. induction (ep_bal ep) as [|b l IH]; [reflexivity|]. cbn [map filter].
  change (bc_ctx (set_k_bal k b)) with (bc_ctx b). destruct (has_src (bc_ctx b) j); cbn [filter]; [|exact IH].
  change (bc_ctx (set_k_bal k b)) with (bc_ctx b). destruct (has_srv (bc_ctx b) v); cbn [map]; now rewrite IH.
Qed.

Lemma used_src_srv_opt_k k ep j v : t_used_src_srv_opt (set_k k ep) j v = t_used_src_srv_opt ep j v.
Proof.
  unfold t_used_src_srv_opt, t_used_src_srv. pose proof (filter_srv_src_k k ep j v) as E.
  assert (Q : forall l : list BalCr, qsum (map (fun b => a_used_src_srv (bc_ctx b) j v) l) = qsum (map (fun x => a_used_src_srv x j v) (map bc_ctx l))).
  { intros l. now rewrite map_map. }
  rewrite !Q, E.
  destruct (filter (fun b => has_srv (bc_ctx b) v) (with_src (set_k k ep) j)) as [|a l] eqn:A,
           (filter (fun b => has_srv (bc_ctx b) v) (with_src ep j)) as [|a' l'] eqn:B; try reflexivity; discriminate.
Qed.

Theorem C15_k_independent : forall k ep, fraccion_renovable_acs_nrb (set_k k ep) = fraccion_renovable_acs_nrb ep.
Proof.
  intros k ep. unfold fraccion_renovable_acs_nrb.
  change (ep_needs (set_k k ep)) with (ep_needs ep). change (ep_data (set_k k ep)) with (ep_data ep).
  change (ep_factors (set_k k ep)) with (ep_factors ep).
  assert (D : dhw_used_by_cr (set_k k ep) = dhw_used_by_cr ep).
  { unfold dhw_used_by_cr. pose proof (with_srv_k k ep ACS) as E.
    transitivity (map (fun x => (cx_cr x, a_epus_srv x ACS)) (map bc_ctx (with_srv (set_k k ep) ACS))); [now rewrite map_map|].
    rewrite E, map_map. reflexivity. }
  rewrite D, !used_src_srv_opt_k. reflexivity.
Qed.

Theorem C15_area_independent : forall a ep, fraccion_renovable_acs_nrb (set_area a ep) = fraccion_renovable_acs_nrb ep.
Proof. reflexivity. Qed.

(** no DHW consumption at all (and a non-zero demand): the fraction is 0 *)
Theorem C15_no_dhw_use : forall ep v, nd_ACS (ep_needs ep) = Some v -> ~ qabs (qsum v) < f32_epsilon ->
  with_srv ep ACS = [] -> fraccion_renovable_acs_nrb ep = Ok 0.
Proof.
  intros ep v H Hz E. unfold fraccion_renovable_acs_nrb, needs_sum, dhw_used_by_cr. rewrite H, E.
  destruct (qltb_spec (qabs (qsum v)) f32_epsilon); [contradiction|]. reflexivity.
Qed.

(** closed form, for any DHW supply without electricity, ambient heat or biomass (solar thermal, district networks,
    fuel boilers): the fraction is the renewable part of what the nearby carriers supply for DHW, over the demand *)
Theorem C15_nearby_supply_closed_form : forall ep v,
  nd_ACS (ep_needs ep) = Some v -> ~ qabs (qsum v) < f32_epsilon ->
  dhw_used_by_cr ep <> nil ->
  aget (dhw_used_by_cr ep) ELECTRICIDAD = None -> aget (dhw_used_by_cr ep) EAMBIENTE = None ->
  aget (dhw_used_by_cr ep) BIOMASA = None -> aget (dhw_used_by_cr ep) BIOMASADENSIFICADA = None ->
  t_used_src_srv_opt ep EL_INSITU ACS = 0 ->
  fraccion_renovable_acs_nrb ep = (do nb <- q_nrb_non_biomass (ep_factors ep) (dhw_used_by_cr ep); Ok (snd nb / qsum v)).
Proof. intros. eapply dhw_nearby_supply; eassumption. Qed.

(** direct electric DHW (no auxiliaries, no excluded heat pump, no cogenerated electricity used for DHW): the on-site
    electricity used for DHW over the demand *)
Theorem C15_direct_electric_closed_form : forall ep v E,
  nd_ACS (ep_needs ep) = Some v -> ~ qabs (qsum v) < f32_epsilon ->
  dhw_used_by_cr ep = [(ELECTRICIDAD, E)] -> qfrac 1 100 <= E ->
  qsum (map vals_sum (filter (fun e => is_aux e && has_service ACS e) (ep_data ep))) = 0 ->
  qsum (map vals_sum (filter (fun e => is_used e && has_carrier EAMBIENTE e && contains (e_cmt e) TAG_EXCLUYE_SCOP) (ep_data ep))) = 0 ->
  t_used_src_srv_opt ep EL_COGEN ACS = 0 ->
  fraccion_renovable_acs_nrb ep = Ok (t_used_src_srv_opt ep EL_INSITU ACS / qsum v).
Proof. intros. eapply dhw_direct_electric; eassumption. Qed.

(** solar thermal + boiler: solar energy used for DHW / DHW demand *)
Theorem C15_solar_boiler : forall fs S cr G,
  cr_is_nearby cr = false -> look fs TERMOSOLAR RED SUMINISTRO STEP_A = Some (mkRNC 1 0 0) ->
  q_nrb_non_biomass fs [(TERMOSOLAR, S); (cr, G)] = Ok (S, S).
Proof. exact q_nrb_solar_fuel. Qed.

(** any DHW supply without biomass (no auxiliaries counted for DHW, no excluded heat pump, no cogenerated electricity
    used for DHW): the renewable part of what the nearby carriers supply for DHW plus the on-site electricity used for
    DHW, over the demand *)
Theorem C15_without_biomass : forall ep v,
  nd_ACS (ep_needs ep) = Some v -> ~ qabs (qsum v) < f32_epsilon ->
  dhw_used_by_cr ep <> nil ->
  match aget (dhw_used_by_cr ep) ELECTRICIDAD with Some E => qfrac 1 100 <= E | None => True end ->
  match aget (dhw_used_by_cr ep) EAMBIENTE with Some A => qfrac 1 100 <= A | None => True end ->
  aget (dhw_used_by_cr ep) BIOMASA = None -> aget (dhw_used_by_cr ep) BIOMASADENSIFICADA = None ->
  qsum (map vals_sum (filter (fun e => is_aux e && has_service ACS e) (ep_data ep))) = 0 ->
  qsum (map vals_sum (filter (fun e => is_used e && has_carrier EAMBIENTE e && contains (e_cmt e) TAG_EXCLUYE_SCOP) (ep_data ep))) = 0 ->
  t_used_src_srv_opt ep EL_COGEN ACS = 0 ->
  fraccion_renovable_acs_nrb ep
  = (do nb <- q_nrb_non_biomass (ep_factors ep) (dhw_used_by_cr ep); Ok ((snd nb + t_used_src_srv_opt ep EL_INSITU ACS) / qsum v)).
Proof. intros. eapply dhw_no_biomass; eassumption. Qed.

(** heat pump: the ambient heat used for DHW counts in full (factor (1, 0, 0)) *)
Theorem C15_heat_pump : forall fs E A, look fs EAMBIENTE RED SUMINISTRO STEP_A = Some (mkRNC 1 0 0) ->
  q_nrb_non_biomass fs [(ELECTRICIDAD, E); (EAMBIENTE, A)] = Ok (A, A)
  /\ q_nrb_non_biomass fs [(EAMBIENTE, A); (ELECTRICIDAD, E)] = Ok (A, A).
Proof. exact q_nrb_heat_pump. Qed.

(** one kind of biomass and nearby carriers only (no electricity used for DHW): what the other nearby carriers do not
    supply of the demand is attributed to the biomass — declared output energy is not needed *)
Theorem C15_biomass_nearby : forall ep v bio,
  nd_ACS (ep_needs ep) = Some v -> ~ qabs (qsum v) < f32_epsilon ->
  dhw_used_by_cr ep <> nil -> aget (dhw_used_by_cr ep) ELECTRICIDAD = None ->
  match aget (dhw_used_by_cr ep) EAMBIENTE with Some A => qfrac 1 100 <= A | None => True end ->
  (bio = BIOMASA /\ ahas (dhw_used_by_cr ep) BIOMASA = true /\ ahas (dhw_used_by_cr ep) BIOMASADENSIFICADA = false
   \/ bio = BIOMASADENSIFICADA /\ ahas (dhw_used_by_cr ep) BIOMASA = false /\ ahas (dhw_used_by_cr ep) BIOMASADENSIFICADA = true) ->
  forallb (fun p => cr_is_nearby (fst p)) (dhw_used_by_cr ep) = true ->
  qsum (map vals_sum (filter (fun e => is_used e && has_carrier EAMBIENTE e && contains (e_cmt e) TAG_EXCLUYE_SCOP) (ep_data ep))) = 0 ->
  t_used_src_srv_opt ep EL_INSITU ACS = 0 ->
  fraccion_renovable_acs_nrb ep
  = (do nb <- q_nrb_non_biomass (ep_factors ep) (dhw_used_by_cr ep); do fr <- ren_fraction (ep_factors ep) bio;
     Ok ((snd nb + (qsum v - fst nb) * fr) / qsum v)).
Proof. intros. eapply dhw_biomass_nearby; eassumption. Qed.

(** biomass mixed with a carrier that is not nearby: the output energy declared by the biomass systems counts *)
Theorem C15_biomass_mixed : forall ep v,
  nd_ACS (ep_needs ep) = Some v -> ~ qabs (qsum v) < f32_epsilon ->
  dhw_used_by_cr ep <> nil -> aget (dhw_used_by_cr ep) ELECTRICIDAD = None ->
  match aget (dhw_used_by_cr ep) EAMBIENTE with Some A => qfrac 1 100 <= A | None => True end ->
  ahas (dhw_used_by_cr ep) BIOMASA = true -> ahas (dhw_used_by_cr ep) BIOMASADENSIFICADA = false ->
  forallb (fun p => cr_is_nearby (fst p)) (dhw_used_by_cr ep) = false ->
  qsum (map vals_sum (filter (fun e => is_used e && has_carrier EAMBIENTE e && contains (e_cmt e) TAG_EXCLUYE_SCOP) (ep_data ep))) = 0 ->
  t_used_src_srv_opt ep EL_INSITU ACS = 0 ->
  fraccion_renovable_acs_nrb ep
  = (do nb <- q_nrb_non_biomass (ep_factors ep) (dhw_used_by_cr ep); do fr <- ren_fraction (ep_factors ep) BIOMASA;
     do o <- biomass_out (ep_data ep) BIOMASA; Ok ((snd nb + o * fr) / qsum v)).
Proof. intros. eapply dhw_biomass_mixed; eassumption. Qed.

(** ... and without declared output energy there is an error instead of a number *)
Theorem C15_biomass_mixed_without_output : forall ep v nb fr,
  nd_ACS (ep_needs ep) = Some v -> ~ qabs (qsum v) < f32_epsilon ->
  dhw_used_by_cr ep <> nil -> aget (dhw_used_by_cr ep) ELECTRICIDAD = None ->
  match aget (dhw_used_by_cr ep) EAMBIENTE with Some A => qfrac 1 100 <= A | None => True end ->
  ahas (dhw_used_by_cr ep) BIOMASA = true -> ahas (dhw_used_by_cr ep) BIOMASADENSIFICADA = false ->
  forallb (fun p => cr_is_nearby (fst p)) (dhw_used_by_cr ep) = false ->
  qsum (map vals_sum (filter (fun e => is_used e && has_carrier EAMBIENTE e && contains (e_cmt e) TAG_EXCLUYE_SCOP) (ep_data ep))) = 0 ->
  t_used_src_srv_opt ep EL_INSITU ACS = 0 ->
  q_nrb_non_biomass (ep_factors ep) (dhw_used_by_cr ep) = Ok nb -> ren_fraction (ep_factors ep) BIOMASA = Ok fr ->
  biomass_out (ep_data ep) BIOMASA = Err WrongInput -> fraccion_renovable_acs_nrb ep = Err WrongInput.
Proof. intros. eapply dhw_biomass_mixed_without_output; eassumption. Qed.

(** both kinds of biomass (whatever the other carriers): the output energy declared for each kind, weighted with the
    renewable fraction of that kind *)
Theorem C15_two_biomasses : forall ep v,
  nd_ACS (ep_needs ep) = Some v -> ~ qabs (qsum v) < f32_epsilon ->
  dhw_used_by_cr ep <> nil -> aget (dhw_used_by_cr ep) ELECTRICIDAD = None ->
  match aget (dhw_used_by_cr ep) EAMBIENTE with Some A => qfrac 1 100 <= A | None => True end ->
  ahas (dhw_used_by_cr ep) BIOMASA = true -> ahas (dhw_used_by_cr ep) BIOMASADENSIFICADA = true ->
  qsum (map vals_sum (filter (fun e => is_used e && has_carrier EAMBIENTE e && contains (e_cmt e) TAG_EXCLUYE_SCOP) (ep_data ep))) = 0 ->
  t_used_src_srv_opt ep EL_INSITU ACS = 0 ->
  fraccion_renovable_acs_nrb ep
  = (do nb <- q_nrb_non_biomass (ep_factors ep) (dhw_used_by_cr ep);
     do fb <- ren_fraction (ep_factors ep) BIOMASA; do ob <- biomass_out (ep_data ep) BIOMASA;
     do fd <- ren_fraction (ep_factors ep) BIOMASADENSIFICADA; do od <- biomass_out (ep_data ep) BIOMASADENSIFICADA;
     Ok ((snd nb + (ob * fb + od * fd)) / qsum v)).
Proof. intros. eapply dhw_biomass_both; eassumption. Qed.

Theorem C15_two_biomasses_without_output : forall ep v nb fb,
  nd_ACS (ep_needs ep) = Some v -> ~ qabs (qsum v) < f32_epsilon ->
  dhw_used_by_cr ep <> nil -> aget (dhw_used_by_cr ep) ELECTRICIDAD = None ->
  match aget (dhw_used_by_cr ep) EAMBIENTE with Some A => qfrac 1 100 <= A | None => True end ->
  ahas (dhw_used_by_cr ep) BIOMASA = true -> ahas (dhw_used_by_cr ep) BIOMASADENSIFICADA = true ->
  qsum (map vals_sum (filter (fun e => is_used e && has_carrier EAMBIENTE e && contains (e_cmt e) TAG_EXCLUYE_SCOP) (ep_data ep))) = 0 ->
  t_used_src_srv_opt ep EL_INSITU ACS = 0 ->
  q_nrb_non_biomass (ep_factors ep) (dhw_used_by_cr ep) = Ok nb -> ren_fraction (ep_factors ep) BIOMASA = Ok fb ->
  biomass_out (ep_data ep) BIOMASA = Err WrongInput -> fraccion_renovable_acs_nrb ep = Err WrongInput.
Proof. intros. eapply dhw_biomass_both_without_output; eassumption. Qed.

Print Assumptions C15_no_demand.
Print Assumptions C15_zero_demand.
Print Assumptions C15_k_independent.
Print Assumptions C15_area_independent.
Print Assumptions C15_no_dhw_use.
Print Assumptions C15_nearby_supply_closed_form.
Print Assumptions C15_solar_boiler.
Print Assumptions C15_direct_electric_closed_form.
Print Assumptions C15_without_biomass.
Print Assumptions C15_heat_pump.
Print Assumptions C15_biomass_nearby.
Print Assumptions C15_biomass_mixed.
Print Assumptions C15_biomass_mixed_without_output.
Print Assumptions C15_two_biomasses.
Print Assumptions C15_two_biomasses_without_output.
