(** * C12 — On-site electricity is used first; load matching can only lower self-use *)
From Cteepbd Require Import Model.Balance Proofs.StepFacts Proofs.ColFacts.
Open Scope Qc_scope.

(** ** Priority allocation (electricity with on-site and cogenerated production declared) *)

Definition priority_alloc (s : StepR) : Prop :=
  let f := s_f s in let u := s_u s in
  let pv := s_psrc s EL_INSITU in let chp := s_psrc s EL_COGEN in
  s_used_src s EL_INSITU = qmin pv u * f /\
  s_used_src s EL_COGEN = qmin chp (u - qmin pv u) * f /\
  (0 < s_used_src s EL_COGEN -> qmin pv u = pv) /\          (* cogeneration only after PV is fully allocated *)
  s_used_src s EL_INSITU + s_used_src s EL_COGEN <= u /\
  s_used s = s_used_src s EL_INSITU + s_used_src s EL_COGEN.

Lemma priority_alloc_proof cr lm data : nonneg_data data ->
  cx_prio (mk_ctx cr lm data) = true ->
  forall s, In s (cx_steps (mk_ctx cr lm data)) -> priority_alloc s.
Proof.
  intros Hn Hp s Hs. apply steps_inv in Hs as (t & ->). rewrite Hp.
  pose proof (col_at_ok cr data t Hn) as Hok. set (c := col_at _ t) in *.
  destruct (fmatch_range lm c) as [F1 F2]. destruct Hok.
  unfold priority_alloc, s_f, s_u, s_psrc, s_used_src, s_used, step_out, used_tot_f, used_src_f.
  cbn [fst snd so_f so_src so_upv so_uchp so_used c_src].
  revert F1 F2. generalize (fmatch lm c). intros f F1 F2.
  repeat split.
  - intros H. destruct (qleb_spec (c_pv c) (c_u c)) as [L|L]; unfold qmin.
    + destruct (qleb_spec (c_pv c) (c_u c)); [reflexivity|contradiction].
    + exfalso. unfold qmin in H. destruct (qleb_spec (c_pv c) (c_u c)); [contradiction|].
      replace (c_u c - c_u c) with 0 in H by ring.
      destruct (qleb_spec (c_chp c) 0) as [L2|L2].
      * assert (E : c_chp c = 0) by qlra. rewrite E in H. rewrite Qcmult_0_l in H. qlra.
      * rewrite Qcmult_0_l in H. qlra.
  - qcases; toQ; absQ; cbn in *; nra.
  - ring.
Qed.

(** with only one electricity source declared the same closed form holds (proportional branch) *)
Lemma single_source_alloc (lm : bool) (c : Col) : col_ok c -> col_dom c ->
  c_chp c = 0 -> c_ts c = 0 -> c_ea c = 0 ->
  used_src false lm c EL_INSITU = fmatch lm c * qmin (c_u c) (c_pv c).
Proof.
  intros Hok Hd H1 H2 H3. unfold used_src, used_src_f, col_dom, c_p in *. rewrite H1, H2, H3 in *. cbn [c_src].
  replace (c_pv c + 0 + 0 + 0) with (c_pv c) in * by ring.
  destruct (qltb_spec 0 (c_pv c)) as [G|G].
  - field. intro Z. rewrite Z in G. qlra.
  - destruct Hd as [Z|Z]; [|exfalso; apply G; revert Z; generalize (c_pv c); intros x Z; qlra]. rewrite Z.
    assert (M : qmin (c_u c) 0 = 0) by (destruct Hok; qlra). rewrite M. ring.
Qed.

(** ** The load matching factor *)

Definition fmatch_spec (lm : bool) (s : StepR) : Prop :=
  let u := s_u s in let p := s_p s in
  (lm = false -> s_f s = 1) /\
  (lm = true -> 0 < u -> 0 < p -> let x := p / u in s_f s = (x + 1 / x - 1) / (x + 1 / x)) /\
  (lm = true -> (u = 0 \/ p = 0) -> s_f s = 1) /\
  qfrac 1 2 <= s_f s <= 1.

Lemma fmatch_spec_proof cr lm data : nonneg_data data ->
  forall s, In s (cx_steps (mk_ctx cr lm data)) -> fmatch_spec lm s.
Proof.
  intros Hn s Hs. apply steps_inv in Hs as (t & ->).
  pose proof (col_at_ok cr data t Hn) as Hok. set (c := col_at _ t) in *.
  pose proof (c_p_nonneg c Hok) as Hp. destruct Hok.
  unfold fmatch_spec, s_f, s_u, s_p, step_out. cbn [fst snd so_f].
  repeat split.
  - intros ->. reflexivity.
  - intros -> Hu Hpp. unfold fmatch. cbv zeta.
    destruct (qltb_spec 0 (c_u c)); [|contradiction].
    destruct (qleb_spec (c_p c / c_u c) 0) as [L|L]; [|reflexivity].
    exfalso. assert (0 < c_p c / c_u c).
    { revert Hu Hpp. generalize (c_p c) (c_u c). intros p u Hu Hpp. toQ. absQ. cbn in *.
      unfold Qdiv. assert (0 < / Qu)%Q by (apply Qinv_lt_0_compat; lra). nra. }
    revert L H. generalize (c_p c / c_u c). intros. qlra.
  - intros -> [Z|Z]; unfold fmatch.
    + rewrite Z. destruct (qltb_spec 0 0) as [A|A]; [exfalso; qlra|]. destruct (qleb_spec 0 0) as [B|B]; [reflexivity|exfalso; qlra].
    + rewrite Z. destruct (qltb_spec 0 (c_u c)).
      * replace (0 / c_u c) with 0 by (unfold Qcdiv; ring). destruct (qleb_spec 0 0) as [B|B]; [reflexivity|exfalso; qlra].
      * destruct (qleb_spec 0 0) as [B|B]; [reflexivity|exfalso; qlra].
  - apply fmatch_range.
  - apply fmatch_range.
Qed.

(** ** Load matching can only lower self-use and raise grid delivery *)

Lemma used_tot_f_mono (f : Qc) pr c : col_ok c -> qfrac 1 2 <= f -> f <= 1 ->
  used_tot_f f pr c <= used_tot_f 1 pr c.
Proof.
  intros Hok F1 F2. pose proof (c_p_nonneg c Hok) as Hp. destruct Hok.
  unfold used_tot_f, used_src_f. destruct pr.
  - qcases; toQ; absQ; cbn in *; nra.
  - revert Hp. generalize (c_p c). intros. qcases; toQ; absQ; cbn in *; nra.
Qed.

Definition lm_lowers (s1 s0 : StepR) : Prop :=
  s_used s1 <= s_used s0 /\ s_del_grid s0 <= s_del_grid s1 /\ s_exp s0 <= s_exp s1.

Lemma prio_indep_lm cr lm data : cx_prio (mk_ctx cr lm data) = cx_prio (mk_ctx cr false data).
Proof. reflexivity. Qed.

Lemma lm_monotone_steps cr data : nonneg_data data ->
  Forall2 lm_lowers (cx_steps (mk_ctx cr true data)) (cx_steps (mk_ctx cr false data)).
Proof.
  intros Hn. unfold mk_ctx, steps_of. cbn [cx_steps].
  set (l := filter (has_carrier cr) data). set (pr := prio_of cr l).
  induction (seq 0 (num_steps_of l)) as [|t idx IH]; cbn [map]; constructor; [|exact IH].
  pose proof (col_at_ok cr data t Hn) as Hok. fold l in Hok. set (c := col_at l t) in *.
  destruct (fmatch_range true c) as [F1 F2].
  pose proof (used_tot_f_mono (fmatch true c) pr c Hok F1 F2) as M.
  unfold lm_lowers, s_del_grid, s_exp, s_used, s_u, s_p, step_out. cbn [fst snd so_used].
  change (fmatch false c) with (Q2Qc 1).
  revert M. generalize (used_tot_f (fmatch true c) pr c) (used_tot_f 1 pr c) (c_u c) (c_p c). intros a b u p M.
  repeat split; qlra.
Qed.

Lemma Forall2_qsum_le {A} (f g : A -> Qc) l1 l0 :
  Forall2 (fun a b => f a <= g b) l1 l0 -> qsum (map f l1) <= qsum (map g l0).
Proof.
  induction 1 as [|a b l1 l0 H _ IH]; cbn [map]; rewrite ?qsum_cons, ?qsum_nil; [apply Qcle_refl|].
  now apply Qcplus_le_compat.
Qed.

Lemma Forall2_imp {A B} (P Q : A -> B -> Prop) l1 l2 :
  (forall a b, P a b -> Q a b) -> Forall2 P l1 l2 -> Forall2 Q l1 l2.
Proof. intros H. induction 1; constructor; auto. Qed.
Lemma Forall2_swap {A B} (P : A -> B -> Prop) l1 l2 :
  Forall2 P l1 l2 -> Forall2 (fun b a => P a b) l2 l1.
Proof. induction 1; constructor; auto. Qed.

Lemma lm_monotone_annual cr data : nonneg_data data ->
  a_used (mk_ctx cr true data) <= a_used (mk_ctx cr false data) /\
  a_del_grid (mk_ctx cr false data) <= a_del_grid (mk_ctx cr true data).
Proof.
  intros Hn. pose proof (lm_monotone_steps cr data Hn) as H. unfold a_used, a_del_grid, ann, vec. split.
  - apply Forall2_qsum_le. eapply Forall2_imp; [|exact H]. intros a b (U & _). exact U.
  - apply Forall2_qsum_le. apply Forall2_swap. eapply Forall2_imp; [|exact H]. intros a b (_ & D & _). exact D.
Qed.

(** ** Property theorems *)

Theorem C12_priority : forall cr lm data, nonneg_data data ->
  cx_prio (mk_ctx cr lm data) = true ->
  forall s, In s (cx_steps (mk_ctx cr lm data)) -> priority_alloc s.
Proof. exact priority_alloc_proof. Qed.

Theorem C12_priority_table : forall cr, priorities cr = if Carrier_beq cr ELECTRICIDAD then (true, [EL_INSITU; EL_COGEN]) else (false, []).
Proof. intros []; reflexivity. Qed.

Theorem C12_single_source : forall lm c, col_ok c -> col_dom c ->
  c_chp c = 0 -> c_ts c = 0 -> c_ea c = 0 ->
  used_src false lm c EL_INSITU = fmatch lm c * qmin (c_u c) (c_pv c).
Proof. exact single_source_alloc. Qed.

Theorem C12_fmatch : forall cr lm data, nonneg_data data ->
  forall s, In s (cx_steps (mk_ctx cr lm data)) -> fmatch_spec lm s.
Proof. exact fmatch_spec_proof. Qed.

Theorem C12_lm_monotone_step : forall cr data, nonneg_data data ->
  Forall2 lm_lowers (cx_steps (mk_ctx cr true data)) (cx_steps (mk_ctx cr false data)).
Proof. exact lm_monotone_steps. Qed.

Theorem C12_lm_monotone_annual : forall cr data, nonneg_data data ->
  a_used (mk_ctx cr true data) <= a_used (mk_ctx cr false data) /\
  a_del_grid (mk_ctx cr false data) <= a_del_grid (mk_ctx cr true data).
Proof. exact lm_monotone_annual. Qed.

Example C12_nonvacuous :
  let data := [EUsed 1 ELECTRICIDAD ACS [qz 100; qz 50] []; EProd 1 EL_INSITU [qz 30; qz 80] [];
               EProd 2 EL_COGEN [qz 100; qz 10] []] in
  nonneg_data data /\ cx_prio (mk_ctx ELECTRICIDAD true data) = true /\
  map (fun s => s_used_src s EL_COGEN) (cx_steps (mk_ctx ELECTRICIDAD false data)) = [qz 70; 0].
Proof.
  cbv zeta. split; [|split].
  - apply nonneg_datab_ok. vm_compute. reflexivity.
  - vm_compute. reflexivity.
  - vm_compute. reflexivity.
Qed.

Print Assumptions C12_priority.
Print Assumptions C12_priority_table.
Print Assumptions C12_single_source.
Print Assumptions C12_fmatch.
Print Assumptions C12_lm_monotone_step.
Print Assumptions C12_lm_monotone_annual.
