(** * Finite sums over lists of [Qc] and pointwise facts *)
From Cteepbd Require Export Base.Num.
From Coq Require Export Permutation.
Open Scope Qc_scope.

Definition qsum (l : list Qc) : Qc := fold_right Qcplus 0 l.

Lemma qsum_nil : qsum [] = 0. Proof. reflexivity. Qed.
Lemma qsum_cons x l : qsum (x :: l) = x + qsum l. Proof. reflexivity. Qed.

Ltac qs := cbn [app map filter flat_map repeat negb]; rewrite ?qsum_cons, ?qsum_nil.

Lemma qsum_app l1 l2 : qsum (l1 ++ l2) = qsum l1 + qsum l2.
Proof. induction l1 as [|x l1 IH]; qs; [ring|]. fold (qsum (l1 ++ l2)). fold (qsum l1). rewrite IH. ring. Qed.

Lemma qsum_perm l1 l2 : Permutation l1 l2 -> qsum l1 = qsum l2.
Proof.
  induction 1 as [|x l l' _ IH|x y l|l l' l'' _ IH1 _ IH2]; qs.
  - reflexivity. - now rewrite IH. - ring. - now rewrite IH1.
Qed.

Lemma qsum_map_add {A} (f g : A -> Qc) l :
  qsum (map (fun a => f a + g a) l) = qsum (map f l) + qsum (map g l).
Proof. induction l as [|a l IH]; qs; [ring|]. rewrite IH. ring. Qed.

Lemma qsum_map_sub {A} (f g : A -> Qc) l :
  qsum (map (fun a => f a - g a) l) = qsum (map f l) - qsum (map g l).
Proof. induction l as [|a l IH]; qs; [ring|]. rewrite IH. ring. Qed.

Lemma qsum_map_scale {A} k (f : A -> Qc) l :
  qsum (map (fun a => k * f a) l) = k * qsum (map f l).
Proof. induction l as [|a l IH]; qs; [ring|]. rewrite IH. ring. Qed.

Lemma qsum_map_scale_r {A} k (f : A -> Qc) l :
  qsum (map (fun a => f a * k) l) = qsum (map f l) * k.
Proof. induction l as [|a l IH]; qs; [ring|]. rewrite IH. ring. Qed.

Lemma qsum_map_ext {A} (f g : A -> Qc) l :
  (forall a, In a l -> f a = g a) -> qsum (map f l) = qsum (map g l).
Proof.
  induction l as [|a l IH]; intros H; qs; [reflexivity|].
  rewrite H by (left; reflexivity). rewrite IH; [reflexivity|]. intros; apply H; now right.
Qed.

Lemma qsum_map_zero {A} (f : A -> Qc) l :
  (forall a, In a l -> f a = 0) -> qsum (map f l) = 0.
Proof.
  induction l as [|a l IH]; intros H; qs; [reflexivity|].
  rewrite H by (left; reflexivity). rewrite IH; [ring|]. intros; apply H; now right.
Qed.

Lemma qsum_nonneg l : Forall (fun x => 0 <= x) l -> 0 <= qsum l.
Proof.
  induction 1 as [|x l Hx _ IH]; qs.
  - apply Qcle_refl. - now apply Qc_le_0_add.
Qed.

Lemma qsum_map_nonneg {A} (f : A -> Qc) l :
  (forall a, In a l -> 0 <= f a) -> 0 <= qsum (map f l).
Proof. intros H. apply qsum_nonneg. apply Forall_forall. intros x Hx. apply in_map_iff in Hx as (a & <- & Ha). now apply H. Qed.

Lemma qsum_map_le {A} (f g : A -> Qc) l :
  (forall a, In a l -> f a <= g a) -> qsum (map f l) <= qsum (map g l).
Proof.
  induction l as [|a l IH]; intros H; qs; [apply Qcle_refl|].
  apply Qcplus_le_compat. apply H; now left. apply IH. intros; apply H; now right.
Qed.

Lemma qsum_repeat x n : qsum (repeat x n) = qz (Z.of_nat n) * x.
Proof.
  induction n as [|n IH]; qs.
  - toQ. cbn. ring.
  - rewrite IH. toQ. rewrite Nat2Z.inj_succ. unfold Z.succ. rewrite inject_Z_plus. cbn. ring.
Qed.

Lemma qsum_flat_map {A} (f : A -> list Qc) l :
  qsum (flat_map f l) = qsum (map (fun a => qsum (f a)) l).
Proof. induction l as [|a l IH]; qs; [reflexivity|]. now rewrite qsum_app, IH. Qed.

(** a nonnegative sum that is zero has only zero terms *)
Lemma qsum_zero_all l : Forall (fun x => 0 <= x) l -> qsum l = 0 -> Forall (fun x => x = 0) l.
Proof.
  induction 1 as [|x l Hx Hl IH]; intros Hs; constructor; rewrite ?qsum_cons, ?qsum_nil in Hs.
  - pose proof (qsum_nonneg l Hl). qlra.
  - apply IH. pose proof (qsum_nonneg l Hl). qlra.
Qed.

(** sum of a filter-partition *)
Lemma qsum_filter_split {A} (p : A -> bool) (f : A -> Qc) l :
  qsum (map f l) = qsum (map f (filter p l)) + qsum (map f (filter (fun a => negb (p a)) l)).
Proof.
  induction l as [|a l IH]; qs; [ring|].
  destruct (p a); qs; rewrite IH; ring.
Qed.
