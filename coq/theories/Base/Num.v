(** * Numbers: canonical rationals [Qc] with boolean comparisons and a transfer
      tactic to [Q] so that [lra]/[nra]/[field] can be used for scalar facts.

    The implementation computes in f32; the model computes in exact rational
    arithmetic ([Qc]: every operation renormalises with [Qred], equality is Leibniz).
    See DESIGN.md §3.2. *)
From Coq Require Export QArith Qcanon Lqa Lia List Bool ZArith.
Export ListNotations.
Open Scope Qc_scope.

Definition qleb (x y : Qc) : bool := Qle_bool (this x) (this y).
Definition qltb (x y : Qc) : bool := negb (Qle_bool (this y) (this x)).
Definition qeqb (x y : Qc) : bool := Qeq_bool (this x) (this y).
Definition qmin (x y : Qc) : Qc := if qleb x y then x else y.
Definition qmax (x y : Qc) : Qc := if qleb x y then y else x.
Definition qabs (x : Qc) : Qc := if qleb 0 x then x else - x.

(** literal [n/d] *)
Definition qz (n : Z) : Qc := Q2Qc (inject_Z n).
Definition qfrac (n : Z) (d : positive) : Qc := Q2Qc (n # d).

Lemma qleb_spec x y : reflect (x <= y) (qleb x y).
Proof.
  unfold qleb, Qcle. destruct (Qle_bool (this x) (this y)) eqn:E; constructor.
  - now apply Qle_bool_iff.
  - intro H. apply Qle_bool_iff in H. congruence.
Qed.

Lemma qltb_spec x y : reflect (x < y) (qltb x y).
Proof.
  unfold qltb, Qclt. destruct (Qle_bool (this y) (this x)) eqn:E; constructor; simpl.
  - apply Qle_bool_iff in E. now apply Qle_not_lt.
  - apply Qnot_le_lt. intro H. apply Qle_bool_iff in H. congruence.
Qed.

Lemma qeqb_spec x y : reflect (x = y) (qeqb x y).
Proof.
  unfold qeqb. destruct (Qeq_bool (this x) (this y)) eqn:E; constructor.
  - apply Qc_is_canon. now apply Qeq_bool_iff.
  - intros ->. assert (Qeq_bool (this y) (this y) = true) by (apply Qeq_bool_iff; reflexivity).
    congruence.
Qed.

(** ** Transfer Qc -> Q *)
Lemma this_add x y : (this (x + y) == this x + this y)%Q.
Proof. unfold Qcplus, Q2Qc. cbn [this]. apply Qred_correct. Qed.
Lemma this_mul x y : (this (x * y) == this x * this y)%Q.
Proof. unfold Qcmult, Q2Qc. cbn [this]. apply Qred_correct. Qed.
Lemma this_opp x : (this (- x) == - this x)%Q.
Proof. unfold Qcopp, Q2Qc. cbn [this]. apply Qred_correct. Qed.
Lemma this_sub x y : (this (x - y) == this x - this y)%Q.
Proof. unfold Qcminus. rewrite this_add, this_opp. reflexivity. Qed.
Lemma this_inv x : (this (/ x) == / this x)%Q.
Proof. unfold Qcinv, Q2Qc. cbn [this]. apply Qred_correct. Qed.
Lemma this_div x y : (this (x / y) == this x / this y)%Q.
Proof. unfold Qcdiv. rewrite this_mul, this_inv. reflexivity. Qed.
Lemma this_Q2Qc q : (this (Q2Qc q) == q)%Q.
Proof. unfold Q2Qc. cbn [this]. apply Qred_correct. Qed.
Lemma this_qz n : (this (qz n) == inject_Z n)%Q.
Proof. apply this_Q2Qc. Qed.
Lemma this_qfrac n d : (this (qfrac n d) == n # d)%Q.
Proof. apply this_Q2Qc. Qed.
Lemma Qc_eq_this x y : x = y <-> (this x == this y)%Q.
Proof. split. intros ->. reflexivity. apply Qc_is_canon. Qed.

(** destruct every boolean comparison / min / max / abs in goal and context *)
Ltac qcases :=
  unfold qmin, qmax, qabs in *;
  repeat match goal with
  | H : context [qleb ?a ?b] |- _ => destruct (qleb_spec a b)
  | |- context [qleb ?a ?b] => destruct (qleb_spec a b)
  | H : context [qltb ?a ?b] |- _ => destruct (qltb_spec a b)
  | |- context [qltb ?a ?b] => destruct (qltb_spec a b)
  | H : context [qeqb ?a ?b] |- _ => destruct (qeqb_spec a b)
  | |- context [qeqb ?a ?b] => destruct (qeqb_spec a b)
  end.

(** move an arithmetic goal over Qc to Q *)
Ltac toQ :=
  repeat match goal with
  | H : @eq Qc _ _ |- _ => apply Qc_eq_this in H
  | H : ~ @eq Qc _ _ |- _ => rewrite Qc_eq_this in H
  | H : ~ (_ <= _) |- _ => apply Qcnot_le_lt in H
  | H : ~ (_ < _) |- _ => apply Qcnot_lt_le in H
  | |- @eq Qc _ _ => apply Qc_is_canon
  | |- ~ @eq Qc _ _ => rewrite Qc_eq_this
  end;
  unfold Qcle, Qclt in *;
  repeat (rewrite ?this_div, ?this_sub, ?this_add, ?this_mul, ?this_opp, ?this_inv,
                  ?this_qz, ?this_qfrac, ?this_Q2Qc in * ).

(** name every [this x] so that lra sees atoms *)
Ltac absQ :=
  repeat match goal with
  | |- context [this ?x] => is_var x; let X := fresh "Q" x in set (X := this x) in *; clearbody X
  | H : context [this ?x] |- _ => is_var x; let X := fresh "Q" x in set (X := this x) in *; clearbody X
  end.

Ltac qlra := qcases; toQ; absQ; cbn in *; try lra.
Ltac qnra := qcases; toQ; absQ; cbn in *; try nra.

(** ** Basic facts used at the list level (Leibniz equalities, so [ring]/[field] apply) *)
Lemma qmin_comm x y : qmin x y = qmin y x.
Proof. qlra. Qed.
Lemma qmin_le_l x y : qmin x y <= x.
Proof. qlra. Qed.
Lemma qmin_le_r x y : qmin x y <= y.
Proof. qlra. Qed.
Lemma qmin_nonneg x y : 0 <= x -> 0 <= y -> 0 <= qmin x y.
Proof. intros; qlra. Qed.
Lemma qmin_scale k x y : 0 <= k -> qmin (k * x) (k * y) = k * qmin x y.
Proof. intros; qcases; toQ; absQ; cbn in *; try lra; nra. Qed.

Lemma Qc_le_0_add x y : 0 <= x -> 0 <= y -> 0 <= x + y.
Proof. intros; qlra. Qed.
Lemma Qc_le_0_mul x y : 0 <= x -> 0 <= y -> 0 <= x * y.
Proof. intros; toQ; absQ; cbn in *; nra. Qed.

Lemma qdiv_nonneg x y : 0 <= x -> 0 < y -> 0 <= x / y.
Proof.
  intros Hx Hy. toQ. absQ. cbn in *. unfold Qdiv.
  assert (0 < / Qy)%Q by (apply Qinv_lt_0_compat; lra). nra.
Qed.
