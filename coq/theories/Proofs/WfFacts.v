(** * All value vectors of a normalised component set have the same length (the precondition of the
      length assertions of src/vecops.rs) *)
From Coq Require Import Permutation.
From Cteepbd Require Import Model.Components Proofs.DataEquiv Proofs.NormFacts.
Open Scope Qc_scope.

Lemma wf_filter n p l : wf n l -> wf n (filter p l).
Proof. unfold wf. intros H. apply Forall_forall. intros e He. apply filter_In in He as [He _]. rewrite Forall_forall in H. now apply H. Qed.

Lemma max_len_wf n l : wf n l -> l <> [] -> max_len l = n.
Proof.
  intros H Hne. induction H as [|e l He Hl IH]; [contradiction|]. cbn [max_len fold_right]. fold (max_len l).
  destruct l as [|e' l']; [cbn; rewrite He; apply Nat.max_0_r|]. rewrite IH by discriminate. rewrite He. apply Nat.max_id.
Qed.

Lemma veclistsum_len n l : wf n l -> l <> [] -> length (veclistsum l) = n.
Proof.
  intros H Hne. unfold veclistsum. rewrite map_length, seq_length. destruct l; [contradiction|]. now apply max_len_wf.
Qed.

Lemma unbalanced_len n env i v : wf n env -> unbalanced env i = Some v -> length v = n.
Proof.
  intros H. unfold unbalanced.
  set (used := filter (fun e => has_id i e && is_used e) env). set (prod := filter (fun e => has_id i e && is_generated e) env).
  assert (Hu : wf n used) by (apply wf_filter, H). assert (Hp : wf n prod) by (apply wf_filter, H).
  destruct used as [|u0 us] eqn:EU; [discriminate|]. intros E. injection E as <-.
  assert (LU : length (veclistsum (u0 :: us)) = n) by (apply veclistsum_len; [exact Hu|discriminate]).
  destruct prod as [|p0 ps] eqn:EP; [exact LU|].
  rewrite map_length, combine_length, LU. rewrite (veclistsum_len n (p0 :: ps)); [apply Nat.min_id|exact Hp|discriminate].
Qed.

Lemma completion_wf n src env i : wf n env -> wf n (completion_for src env i).
Proof.
  intros H. unfold completion_for. destruct (unbalanced env i) as [v|] eqn:E; [|apply Forall_nil].
  destruct (qeqb (qsum v) 0); [apply Forall_nil|]. apply Forall_cons; [|apply Forall_nil]. cbn [e_vals]. eapply unbalanced_len; eassumption.
Qed.

Lemma complete_wf n cr data : wf n data -> wf n (complete cr data).
Proof.
  intros H. unfold complete, complete_with. destruct (source_of_carrier cr) as [src|]; [|exact H].
  apply Forall_app. split; [exact H|]. apply Forall_forall. intros e He. apply in_flat_map in He as (j & _ & He).
  pose proof (completion_wf n src (filter (has_carrier cr) data) j (wf_filter n _ _ H)) as W. unfold wf in W. rewrite Forall_forall in W. now apply W.
Qed.

Lemma num_steps_wf n l : wf n l -> l <> [] -> num_steps_of l = n.
Proof. intros H Hne. destruct l as [|e l]; [contradiction|]. unfold wf in H. inversion H as [|? ? He _]. exact He. Qed.

Lemma set_aux_vals i s e : e_vals (set_aux_service i s e) = e_vals e.
Proof. destruct e; cbn; try reflexivity. destruct (Z.eqb _ _); reflexivity. Qed.

(** one system: the new auxiliary components have the common length, provided the system has auxiliary components *)
Lemma assign_aux_id_wf n data i d : wf n data -> filter (is_aux_of i) data <> [] ->
  assign_aux_id data i = Ok d -> wf n d.
Proof.
  intros H Ha. unfold assign_aux_id.
  assert (Hne : data <> []) by (intro K; rewrite K in Ha; now apply Ha).
  assert (Single : forall s, wf n (map (set_aux_service i s) data)).
  { intros s. apply Forall_forall. intros e He. apply in_map_iff in He as (e0 & <- & He0). rewrite set_aux_vals.
    unfold wf in H. rewrite Forall_forall in H. now apply H. }
  assert (Multi : forall (auxval := fun s => map (fun p => aux_share data i s (fst p) * snd p)
                                             (combine (seq 0 (num_steps_of data)) (veclistsum (filter (is_aux_of i) data)))),
             wf n (filter (fun e => negb (is_aux_of i e)) data ++ map (fun s => EAux i s (auxval s) comment_aux) (out_services data i))).
  { intros auxval. apply Forall_app. split; [apply wf_filter, H|]. apply Forall_forall. intros e He. apply in_map_iff in He as (s & <- & _).
    cbn [e_vals]. unfold auxval. rewrite map_length, combine_length, seq_length, (num_steps_wf n data H Hne).
    rewrite (veclistsum_len n _ (wf_filter n _ _ H) Ha). apply Nat.min_id. }
  destruct (used_services data i) as [|s [|s' l]].
  - destruct (_ && _); [discriminate|]. intros E. injection E as <-. apply Multi.
  - intros E. injection E as <-. apply Single.
  - destruct (_ && _); [discriminate|]. intros E. injection E as <-. apply Multi.
Qed.

Lemma is_aux_of_other i j d data : j <> i ->
  filter (fun e => negb (has_id i e)) d = filter (fun e => negb (has_id i e)) data ->
  filter (is_aux_of j) d = filter (is_aux_of j) data.
Proof.
  intros N E.
  assert (K : forall l, filter (is_aux_of j) l = filter (is_aux_of j) (filter (fun e => negb (has_id i e)) l)).
  { induction l as [|e l IH]; [reflexivity|]. cbn [filter]. destruct (has_id i e) eqn:Hi; cbn [negb].
    - assert (Z : is_aux_of j e = false).
      { unfold is_aux_of, has_id in *. apply Z.eqb_eq in Hi. destruct (Z.eqb_spec (e_id e) j); [congruence|]. apply andb_false_r. }
      rewrite Z. exact IH.
    - cbn [filter]. destruct (is_aux_of j e); now rewrite IH. }
  rewrite (K d), (K data), E. reflexivity.
Qed.

Lemma assign_aux_ids_wf n ids : forall data d, wf n data -> NoDup ids ->
  (forall j, In j ids -> filter (is_aux_of j) data <> []) -> assign_aux_ids data ids = Ok d -> wf n d.
Proof.
  induction ids as [|i ids IH]; intros data d H ND Hin E; cbn [assign_aux_ids] in E.
  - injection E as <-. exact H.
  - destruct (assign_aux_id data i) as [d1|] eqn:E1; cbn [bind] in E; [|discriminate].
    inversion ND as [|? ? Ni ND']; subst.
    apply (IH d1 d); [|exact ND'| |exact E].
    + apply (assign_aux_id_wf n data i d1 H); [apply Hin; now left|exact E1].
    + intros j Hj. rewrite (is_aux_of_other i j d1 data); [apply Hin; now right| |apply (assign_aux_id_others data i d1 E1)].
      intro K. subst j. contradiction.
Qed.

Lemma ids_of_nodup l : NoDup (ids_of l).
Proof.
  induction l as [|e l IH]; [constructor|]. cbn [ids_of]. constructor.
  - intro H. apply filter_In in H as [_ H]. rewrite Z.eqb_refl in H. discriminate.
  - apply NoDup_filter. exact IH.
Qed.

Lemma ids_of_in l j : In j (ids_of l) -> exists e, In e l /\ e_id e = j.
Proof.
  induction l as [|e l IH]; [contradiction|]. cbn [ids_of]. intros [H|H].
  - exists e. split; [now left|exact H].
  - apply filter_In in H as [H _]. destruct (IH H) as (e' & He' & Ee'). exists e'. split; [now right|exact Ee'].
Qed.

Lemma assign_aux_wf n data d : wf n data -> assign_aux data = Ok d -> wf n d.
Proof.
  intros H. unfold assign_aux. apply assign_aux_ids_wf; [exact H|apply ids_of_nodup|].
  intros j Hj. apply ids_of_in in Hj as (e & He & Ee). apply filter_In in He as [He Ae].
  intro K. assert (In e (filter (is_aux_of j) data)); [|rewrite K in *; contradiction].
  apply filter_In. split; [exact He|]. unfold is_aux_of, has_id. rewrite Ae, Ee, Z.eqb_refl. reflexivity.
Qed.

(** normalisation keeps the common number of steps *)
Theorem normalize_wf n data d : wf n data -> normalize_data data = Ok d -> wf n d.
Proof.
  intros H. unfold normalize_data.
  destruct (assign_aux (complete TERMOSOLAR (complete EAMBIENTE data))) as [d3|] eqn:E; cbn [bind]; [|discriminate].
  intros K. injection K as <-.
  pose proof (assign_aux_wf n _ d3 (complete_wf n TERMOSOLAR _ (complete_wf n EAMBIENTE data H)) E) as W.
  unfold wf in *. eapply Permutation_Forall; [|exact W]. apply Permutation_sym, sort_by_id_perm.
Qed.

(** what the components reader returns has one number of steps *)
From Cteepbd Require Import Model.Parse.
Theorem parse_components_uniform s c : parse_components s = POk c -> exists n, wf n (c_data c).
Proof.
  unfold parse_components.
  destruct (pmap parse_meta _) as [metas| | |]; cbn [pbind]; try discriminate.
  destruct (parse_data_lines _ _ _) as [[data nd]| | |]; cbn [pbind]; try discriminate.
  set (n0 := match data with e :: _ => length (e_vals e) | [] => 12%nat end).
  destruct (forallb (fun e => (length (e_vals e) =? n0)%nat) data) eqn:F; cbn [negb]; [|discriminate].
  unfold normalize. cbn [c_data c_meta c_needs]. destruct (normalize_data data) as [d|] eqn:E; cbn [bind of_res]; [|discriminate].
  intros H. injection H as <-. cbn [c_data]. exists n0. apply (normalize_wf n0 data d); [|exact E].
  unfold wf. apply Forall_forall. intros e He. rewrite forallb_forall in F. apply Nat.eqb_eq. now apply F.
Qed.
