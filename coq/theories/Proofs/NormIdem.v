(** * Normalising a normalised component set changes nothing (C05)

    [normalize_data] = completion of EAMBIENTE, completion of TERMOSOLAR, assignment of the auxiliary energy of every
    system, stable sort by id.  On its own result: nothing is left to complete (Proofs/CompleteIdem.v), every system's
    auxiliary components are already in assigned form and are recomputed to the same components, and a sorted list
    whose per-system blocks are unchanged is unchanged. *)
From Cteepbd Require Import Model.Components Proofs.NormFacts Proofs.DataEquiv Proofs.WfFacts Proofs.CompleteIdem.
From Coq Require Import Permutation.
Open Scope Qc_scope.

(** ** blocks: the components of one system, in order *)
Definition block (i : Z) (d : list Energy) : list Energy := filter (has_id i) d.

Lemma filter_block (p : Energy -> bool) i d : (forall e, p e = true -> has_id i e = true) -> filter p d = filter p (block i d).
Proof.
  intros H. unfold block. induction d as [|e d IH]; [reflexivity|]. cbn [filter]. destruct (has_id i e) eqn:Hi.
  - cbn [filter]. destruct (p e); now rewrite IH.
  - destruct (p e) eqn:P; [rewrite (H e P) in Hi; discriminate|exact IH].
Qed.

Lemma existsb_block (p : Energy -> bool) i d : (forall e, p e = true -> has_id i e = true) -> existsb p d = existsb p (block i d).
Proof.
  intros H. unfold block. induction d as [|e d IH]; [reflexivity|]. cbn [existsb filter]. destruct (has_id i e) eqn:Hi.
  - cbn [existsb]. now rewrite IH.
  - destruct (p e) eqn:P; [rewrite (H e P) in Hi; discriminate|exact IH].
Qed.

Lemma out_of_id i s e : is_out_of i s e = true -> has_id i e = true.
Proof. destruct e; try discriminate. cbn. intros H. apply andb_true_iff in H as [H _]. exact H. Qed.
Lemma aux_of_id i e : is_aux_of i e = true -> has_id i e = true.
Proof. unfold is_aux_of. intros H. now apply andb_true_iff in H as [_ H]. Qed.
Lemma used_srv_id i s e : (match e with EUsed j _ s' _ _ => Z.eqb j i && Service_beq s' s | _ => false end) = true -> has_id i e = true.
Proof. destruct e; try discriminate. cbn. intros H. apply andb_true_iff in H as [H _]. exact H. Qed.

Section SameBlock.
  Variables (i : Z) (d d' : list Energy).
  Hypothesis Hb : block i d = block i d'.

  Lemma used_services_block : used_services d i = used_services d' i.
  Proof.
    unfold used_services. apply filter_ext. intros s. f_equal.
    rewrite (existsb_block _ i d (used_srv_id i s)), (existsb_block _ i d' (used_srv_id i s)), Hb. reflexivity.
  Qed.
  Lemma out_services_block : out_services d i = out_services d' i.
  Proof.
    unfold out_services. apply filter_ext. intros s.
    rewrite (existsb_block _ i d (out_of_id i s)), (existsb_block _ i d' (out_of_id i s)), Hb. reflexivity.
  Qed.
  Lemma q_out_block s t : q_out d i s t = q_out d' i s t.
  Proof. unfold q_out. rewrite (filter_block _ i d (out_of_id i s)), (filter_block _ i d' (out_of_id i s)), Hb. reflexivity. Qed.
  Lemma q_tot_block t : q_tot d i t = q_tot d' i t.
  Proof. unfold q_tot, q_mag. rewrite out_services_block. f_equal. apply map_ext. intros s. now rewrite q_out_block. Qed.
  Lemma aux_share_block s t : aux_share d i s t = aux_share d' i s t.
  Proof. unfold aux_share, q_mag. now rewrite q_tot_block, q_out_block. Qed.
  Lemma auxs_block : filter (is_aux_of i) d = filter (is_aux_of i) d'.
  Proof. rewrite (filter_block _ i d (aux_of_id i)), (filter_block _ i d' (aux_of_id i)), Hb. reflexivity. Qed.
End SameBlock.

(** ** a list sorted by id is determined by its blocks *)
Lemma sorted_head_min x l : sorted_by_id (x :: l) -> forall y, In y l -> (e_id x <= e_id y)%Z.
Proof.
  revert x. induction l as [|z l IH]; intros x H y Hy; [contradiction|]. cbn [sorted_by_id] in H. destruct H as [H1 H2].
  destruct Hy as [<-|Hy]; [exact H1|]. specialize (IH z H2 y Hy). lia.
Qed.

Lemma sorted_tail x l : sorted_by_id (x :: l) -> sorted_by_id l.
Proof. cbn [sorted_by_id]. tauto. Qed.

(** the block of the smallest id is a prefix *)
Lemma sorted_split i l : sorted_by_id l -> (forall y, In y l -> (i <= e_id y)%Z) ->
  l = block i l ++ filter (fun e => negb (has_id i e)) l.
Proof.
  induction l as [|x l IH]; intros S M; [reflexivity|]. unfold block. cbn [filter]. destruct (has_id i x) eqn:Hi; cbn [negb app].
  - f_equal. apply IH; [eapply sorted_tail; exact S|intros; apply M; now right].
  - (* x has a larger id: nothing of id i follows *)
    assert (N : filter (has_id i) l = []).
    { apply filter_map_none. intros y Hy. pose proof (sorted_head_min x l S y Hy) as L. pose proof (M x (or_introl eq_refl)) as Lx.
      unfold has_id in *. apply Z.eqb_neq in Hi. apply Z.eqb_neq. lia. }
    rewrite N. cbn [app]. f_equal. symmetry. apply filter_map_all. intros y Hy.
    assert (F : In y (filter (has_id i) l) -> False) by (rewrite N; tauto).
    destruct (has_id i y) eqn:Hy'; [exfalso; apply F, filter_In; tauto|reflexivity].
Qed.

Lemma sorted_filter p l : sorted_by_id l -> sorted_by_id (filter p l).
Proof.
  induction l as [|x l IH]; intros S; [exact I|]. cbn [filter]. specialize (IH (sorted_tail x l S)). destruct (p x); [|exact IH].
  cbn [sorted_by_id]. split; [|exact IH]. destruct (filter p l) as [|y r] eqn:E; [exact I|].
  apply (sorted_head_min x l S). assert (In y (filter p l)) by (rewrite E; now left). now apply filter_In in H.
Qed.

Lemma filter_comm {A} (p q : A -> bool) l : filter p (filter q l) = filter q (filter p l).
Proof. induction l as [|x l IH]; [reflexivity|]. cbn [filter]. destruct (q x) eqn:Q, (p x) eqn:P; cbn [filter]; rewrite ?Q, ?P, IH; reflexivity. Qed.

Lemma filter_len_le {A} (p : A -> bool) l : (length (filter p l) <= length l)%nat.
Proof. induction l as [|x l IH]; [apply le_n|]. cbn [filter]. destruct (p x); cbn [length]; lia. Qed.

Theorem sorted_blocks_eq : forall l l', sorted_by_id l -> sorted_by_id l' -> (forall i, block i l = block i l') -> l = l'.
Proof.
  intros l. remember (length l) as n eqn:Hn. revert l Hn. induction n as [n IH] using lt_wf_ind. intros l Hn l' S S' B.
  destruct l as [|x r].
  - destruct l' as [|y r']; [reflexivity|]. specialize (B (e_id y)). unfold block in B. cbn [filter] in B. unfold has_id at 1 in B. rewrite Z.eqb_refl in B. discriminate.
  - set (i := e_id x).
    assert (Mx : forall y, In y (x :: r) -> (i <= e_id y)%Z).
    { intros y [<-|Hy]; [unfold i; lia|]. exact (sorted_head_min x r S y Hy). }
    assert (Mx' : forall y, In y l' -> (i <= e_id y)%Z).
    { intros y Hy. assert (Hb : In y (block (e_id y) l')) by (apply filter_In; split; [exact Hy|unfold has_id; apply Z.eqb_refl]).
      rewrite <- B in Hb. apply filter_In in Hb as [Hb _]. now apply Mx. }
    rewrite (sorted_split i (x :: r) S Mx), (sorted_split i l' S' Mx'), (B i). f_equal.
    set (p := fun e => negb (has_id i e)).
    apply (IH (length (filter p (x :: r)))); [|reflexivity|now apply sorted_filter|now apply sorted_filter|].
    + subst n. cbn [filter]. unfold p at 1, has_id at 1, i. rewrite Z.eqb_refl. cbn [negb length].
      pose proof (filter_len_le p r). lia.
    + intros j. unfold block. rewrite !(filter_comm (has_id j) p). f_equal. apply B.
Qed.

(** ** the assigned form of the auxiliary components of a system *)
Definition shares_vec (d : list Energy) (i : Z) (s : Service) (n : nat) (tot : list Qc) : list Qc :=
  map (fun p => aux_share d i s (fst p) * snd p) (combine (seq 0 n) tot).
Definition news_of (d : list Energy) (i : Z) (n : nat) (tot : list Qc) : list Energy :=
  map (fun s => EAux i s (shares_vec d i s n tot) comment_aux) (out_services d i).

Definition AuxForm (n : nat) (d : list Energy) (i : Z) : Prop :=
  match used_services d i with
  | [s] => forall e, In e (block i d) -> set_aux_service i s e = e
  | _ => exists tot, length tot = n /\ block i d = filter (fun e => negb (is_aux e)) (block i d) ++ news_of d i n tot
  end.

Lemma map_combine_seq_ext (g : nat -> Qc -> Qc) : forall A B k,
  length A = length B -> (forall t, (t < length A)%nat -> g (k + t)%nat (nth t A 0) = g (k + t)%nat (nth t B 0)) ->
  map (fun p => g (fst p) (snd p)) (combine (seq k (length A)) A) = map (fun p => g (fst p) (snd p)) (combine (seq k (length B)) B).
Proof.
  induction A as [|a A IH]; intros [|b B] k L H; try discriminate; [reflexivity|].
  cbn [length seq combine map fst snd]. f_equal.
  - specialize (H 0%nat ltac:(cbn; lia)). rewrite Nat.add_0_r in H. exact H.
  - apply IH; [now injection L|]. intros t Ht. specialize (H (S t) ltac:(cbn; lia)). cbn [nth] in H. rewrite Nat.add_succ_r in H. exact H.
Qed.

Lemma shares_vec_ext d i s n A B : length A = n -> length B = n ->
  (forall t, (t < n)%nat -> aux_share d i s t * nth t A 0 = aux_share d i s t * nth t B 0) ->
  shares_vec d i s n A = shares_vec d i s n B.
Proof.
  intros LA LB H. unfold shares_vec. assert (E : length A = length B) by congruence.
  pose proof (map_combine_seq_ext (fun t a => aux_share d i s t * a) A B 0%nat E) as M. rewrite <- E in M. rewrite LA in M. apply M.
  intros t Ht. cbn [Nat.add]. now apply H.
Qed.

Lemma nth_shares_vec d i s n tot t : length tot = n -> (t < n)%nat -> nth t (shares_vec d i s n tot) 0 = aux_share d i s t * nth t tot 0.
Proof.
  intros L Ht. unfold shares_vec.
  rewrite (nth_indep _ 0 (aux_share d i s 0 * 0)) by (rewrite map_length, combine_length, seq_length, L, Nat.min_id; exact Ht).
  rewrite (map_nth (fun p => aux_share d i s (fst p) * snd p) _ (0%nat, 0)), combine_nth by (rewrite seq_length, L; reflexivity).
  cbn [fst snd]. rewrite seq_nth by exact Ht. reflexivity.
Qed.

Lemma shares_vec_len d i s n tot : length tot = n -> length (shares_vec d i s n tot) = n.
Proof. intros L. unfold shares_vec. rewrite map_length, combine_length, seq_length, L. apply Nat.min_id. Qed.

Lemma sum_at_news d i n tot t : length tot = n -> (t < n)%nat ->
  sum_at (news_of d i n tot) t = qsum (map (fun s => aux_share d i s t) (out_services d i)) * nth t tot 0.
Proof.
  intros L Ht. unfold sum_at, news_of. rewrite map_map. rewrite <- qsum_map_scale_r. apply qsum_map_ext. intros s _.
  unfold val_at. cbn [e_vals]. now apply nth_shares_vec.
Qed.

(** where the system has no output at a step, every share is zero *)
Lemma share_zero d i s t : ~ 0 < q_tot d i t -> aux_share d i s t = 0.
Proof. intros H. unfold aux_share. destruct (qltb_spec 0 (q_tot d i t)); [contradiction|reflexivity]. Qed.

Lemma share_times_sum d i s t (w : Qc) :
  aux_share d i s t * (qsum (map (fun s' => aux_share d i s' t) (out_services d i)) * w) = aux_share d i s t * w.
Proof.
  destruct (qltb_spec 0 (q_tot d i t)) as [P|P].
  - rewrite aux_share_total by exact P. ring.
  - rewrite (share_zero d i s t P). ring.
Qed.

Lemma filter_aux_of_block i d : filter (is_aux_of i) d = filter is_aux (block i d).
Proof.
  unfold block. induction d as [|e d IH]; [reflexivity|]. cbn [filter]. unfold is_aux_of at 1.
  destruct (has_id i e); cbn [filter]; [rewrite andb_true_r; destruct (is_aux e); now rewrite IH|rewrite andb_false_r; exact IH].
Qed.

Lemma filter_aux_news d i n tot : filter is_aux (news_of d i n tot) = news_of d i n tot.
Proof. apply filter_map_all. intros e He. unfold news_of in He. apply in_map_iff in He as (s & <- & _). reflexivity. Qed.

Lemma filter_aux_nonaux l : filter is_aux (filter (fun e => negb (is_aux e)) l) = [].
Proof. apply filter_map_none. intros e He. apply filter_In in He as [_ H]. now apply negb_true_iff in H. Qed.

Lemma block_news i d n tot : block i (news_of d i n tot) = news_of d i n tot.
Proof. apply filter_map_all. intros e He. unfold news_of in He. apply in_map_iff in He as (s & <- & _). unfold has_id. cbn. apply Z.eqb_refl. Qed.

Lemma block_other_news i j d n tot : j <> i -> block j (news_of d i n tot) = [].
Proof.
  intros N. apply filter_map_none. intros e He. unfold news_of in He. apply in_map_iff in He as (s & <- & _). unfold has_id. cbn. apply Z.eqb_neq. congruence.
Qed.

Lemma block_kept i j d : block j (filter (fun e => negb (is_aux_of i e)) d)
  = if Z.eqb j i then filter (fun e => negb (is_aux e)) (block i d) else block j d.
Proof.
  unfold block. destruct (Z.eqb_spec j i) as [->|N].
  - rewrite filter_comm. apply filter_ext_in. intros e He. apply filter_In in He as [_ Hi]. unfold is_aux_of. rewrite Hi, andb_true_r. reflexivity.
  - rewrite filter_comm. apply filter_map_all. intros e He. apply filter_In in He as [_ Hj]. unfold is_aux_of.
    assert (has_id i e = false) by (unfold has_id in *; apply Z.eqb_eq in Hj; apply Z.eqb_neq; congruence). rewrite H, andb_false_r. reflexivity.
Qed.

Section Fixed.
  Variables (n : nat) (d : list Energy) (i : Z).
  Hypothesis Hwf : wf n d.
  Hypothesis Hn : num_steps_of d = n.
  Hypothesis Hform : AuxForm n d i.

  (** recomputing the auxiliary components of a system in assigned form gives the same components *)
  Lemma news_recomputed tot : length tot = n ->
    block i d = filter (fun e => negb (is_aux e)) (block i d) ++ news_of d i n tot ->
    news_of d i n (veclistsum (filter (is_aux_of i) d)) = news_of d i n tot
    /\ (qltb 0 (qsum (veclistsum (filter (is_aux_of i) d))) && qeqb (qsum (map (q_tot d i) (seq 0 n))) 0 = false).
  Proof.
    intros L B.
    assert (A : filter (is_aux_of i) d = news_of d i n tot).
    { rewrite filter_aux_of_block, B, filter_app, filter_aux_nonaux, filter_aux_news. reflexivity. }
    rewrite A. destruct (out_services d i) as [|s0 ss] eqn:O.
    - unfold news_of. rewrite O. cbn [map]. split; [reflexivity|]. unfold veclistsum. cbn [map seq sum_at qsum fold_right].
      destruct (qltb_spec 0 (0 + 0)) as [K|K]; [exfalso; qlra|reflexivity].
    - assert (NE : news_of d i n tot <> []) by (unfold news_of; rewrite O; discriminate).
      assert (W : wf n (news_of d i n tot)).
      { apply Forall_forall. intros e He. unfold news_of in He. apply in_map_iff in He as (s & <- & _). cbn [e_vals]. now apply shares_vec_len. }
      assert (LT : length (veclistsum (news_of d i n tot)) = n) by (apply veclistsum_len; assumption).
      assert (NT : forall t, (t < n)%nat -> nth t (veclistsum (news_of d i n tot)) 0
                                           = qsum (map (fun s => aux_share d i s t) (out_services d i)) * nth t tot 0).
      { intros t Ht. rewrite (veclistsum_nth n _ t W NE Ht). now apply sum_at_news. }
      split.
      + unfold news_of at 1 3. apply map_ext. intros s. f_equal. apply shares_vec_ext; [exact LT|exact L|].
        intros t Ht. rewrite (NT t Ht). apply share_times_sum.
      + destruct (qeqb_spec (qsum (map (q_tot d i) (seq 0 n))) 0) as [Z|Z]; [|apply andb_false_r].
        (* no output at any step: all the shares are zero, and so is the total *)
        assert (Zt : forall t, (t < n)%nat -> q_tot d i t = 0).
        { intros t Ht. pose proof (qsum_zero_all (map (q_tot d i) (seq 0 n))) as QA.
          assert (F : Forall (fun x => 0 <= x) (map (q_tot d i) (seq 0 n))) by (apply Forall_forall; intros x Hx; apply in_map_iff in Hx as (t' & <- & _); apply q_tot_nonneg).
          specialize (QA F Z). rewrite Forall_forall in QA. apply QA. apply in_map. apply in_seq. lia. }
        assert (S0 : qsum (veclistsum (news_of d i n tot)) = 0).
        { apply all_zero_sum. intros t. destruct (Nat.lt_ge_cases t n) as [Ht|Ht]; [|apply nth_overflow; rewrite LT; exact Ht].
          rewrite (NT t Ht). assert (E : qsum (map (fun s => aux_share d i s t) (out_services d i)) = 0).
          { apply qsum_map_zero. intros s _. apply share_zero. rewrite (Zt t Ht). qlra. }
          rewrite E. ring. }
        rewrite S0. destruct (qltb_spec 0 0) as [K|K]; [exfalso; qlra|reflexivity].
  Qed.

  (** the assignment of a system in assigned form changes no block *)
  Theorem assign_id_fixed : exists d', assign_aux_id d i = Ok d' /\ forall j, block j d' = block j d.
  Proof.
    unfold AuxForm in Hform. unfold assign_aux_id. rewrite Hn.
    assert (Multi : (exists tot, length tot = n /\ block i d = filter (fun e => negb (is_aux e)) (block i d) ++ news_of d i n tot) ->
              exists d', (if qltb 0 (qsum (veclistsum (filter (is_aux_of i) d))) && qeqb (qsum (map (q_tot d i) (seq 0 n))) 0 then Err WrongInput
                          else Ok (filter (fun e => negb (is_aux_of i e)) d ++ news_of d i n (veclistsum (filter (is_aux_of i) d)))) = Ok d'
                         /\ forall j, block j d' = block j d).
    { intros (tot & L & B). destruct (news_recomputed tot L B) as [R E]. rewrite E, R. eexists. split; [reflexivity|].
      intros j. unfold block at 1. rewrite filter_app. fold (block j (filter (fun e => negb (is_aux_of i e)) d)). fold (block j (news_of d i n tot)).
      rewrite block_kept. destruct (Z.eqb_spec j i) as [->|N].
      - rewrite block_news. symmetry. exact B.
      - rewrite (block_other_news i j d n tot N). apply app_nil_r. }
    destruct (used_services d i) as [|s [|s' l]].
    - apply Multi, Hform.
    - eexists. split; [reflexivity|]. intros j. unfold block.
      assert (E : map (set_aux_service i s) d = d).
      { rewrite <- (map_id d) at 2. apply map_ext_in. intros e He. destruct (has_id i e) eqn:Hi; [|now apply set_aux_other].
        apply Hform. apply filter_In. tauto. }
      now rewrite E.
    - apply Multi, Hform.
  Qed.
End Fixed.

(** ** the first pass puts every system with auxiliary components in assigned form *)
Definition nonaux (l : list Energy) : list Energy := filter (fun e => negb (is_aux e)) l.

Lemma block_nonaux i d : block i (nonaux d) = nonaux (block i d).
Proof. unfold block, nonaux. apply filter_comm. Qed.

(** what the shares are computed from does not involve auxiliary components *)
Section SameNonaux.
  Variables (i : Z) (d d' : list Energy).
  Hypothesis Hk : nonaux d = nonaux d'.

  Lemma existsb_nonaux (p : Energy -> bool) l : (forall e, p e = true -> is_aux e = false) -> existsb p l = existsb p (nonaux l).
  Proof.
    intros H. unfold nonaux. induction l as [|e l IH]; [reflexivity|]. cbn [existsb filter]. destruct (is_aux e) eqn:A; cbn [negb].
    - destruct (p e) eqn:P; [rewrite (H e P) in A; discriminate|exact IH].
    - cbn [existsb]. now rewrite IH.
  Qed.
  Lemma filter_nonaux (p : Energy -> bool) l : (forall e, p e = true -> is_aux e = false) -> filter p l = filter p (nonaux l).
  Proof.
    intros H. unfold nonaux. induction l as [|e l IH]; [reflexivity|]. cbn [filter]. destruct (is_aux e) eqn:A; cbn [negb].
    - destruct (p e) eqn:P; [rewrite (H e P) in A; discriminate|exact IH].
    - cbn [filter]. destruct (p e); now rewrite IH.
  Qed.

  Lemma used_services_nonaux : used_services d i = used_services d' i.
  Proof.
    unfold used_services. apply filter_ext. intros s. f_equal.
    assert (P : forall e, (match e with EUsed j _ s' _ _ => Z.eqb j i && Service_beq s' s | _ => false end) = true -> is_aux e = false) by (intros [] H; try discriminate; reflexivity).
    rewrite (existsb_nonaux _ d P), (existsb_nonaux _ d' P), Hk. reflexivity.
  Qed.
  Lemma out_is_nonaux s e : is_out_of i s e = true -> is_aux e = false.
  Proof. destruct e; try discriminate. reflexivity. Qed.
  Lemma out_services_nonaux : out_services d i = out_services d' i.
  Proof. unfold out_services. apply filter_ext. intros s. rewrite (existsb_nonaux _ d (out_is_nonaux s)), (existsb_nonaux _ d' (out_is_nonaux s)), Hk. reflexivity. Qed.
  Lemma q_out_nonaux s t : q_out d i s t = q_out d' i s t.
  Proof. unfold q_out. rewrite (filter_nonaux _ d (out_is_nonaux s)), (filter_nonaux _ d' (out_is_nonaux s)), Hk. reflexivity. Qed.
  Lemma aux_share_nonaux s t : aux_share d i s t = aux_share d' i s t.
  Proof.
    unfold aux_share, q_tot, q_mag. rewrite out_services_nonaux.
    assert (E : map (fun s0 => qabs (q_out d i s0 t)) (out_services d' i) = map (fun s0 => qabs (q_out d' i s0 t)) (out_services d' i)) by (apply map_ext; intros; now rewrite q_out_nonaux).
    now rewrite E, q_out_nonaux.
  Qed.
  Lemma news_of_nonaux n tot : news_of d i n tot = news_of d' i n tot.
  Proof.
    unfold news_of. rewrite out_services_nonaux. apply map_ext. intros s. f_equal. unfold shares_vec. apply map_ext. intros p. now rewrite aux_share_nonaux.
  Qed.
End SameNonaux.

(** the form only depends on the block of the system *)
Lemma AuxForm_block n d d' i : block i d = block i d' -> AuxForm n d i -> AuxForm n d' i.
Proof.
  intros B. unfold AuxForm. rewrite <- (used_services_block i d d' B), <- B.
  assert (N : forall tot, news_of d' i n tot = news_of d i n tot).
  { intros tot. unfold news_of. rewrite <- (out_services_block i d d' B). apply map_ext. intros s. f_equal. unfold shares_vec. apply map_ext. intros p.
    now rewrite (aux_share_block i d d' B). }
  destruct (used_services d i) as [|s [|s' l]]; try tauto; intros (tot & L & E); exists tot; (split; [exact L|]); now rewrite N.
Qed.

Lemma block_from_others i j d d' : j <> i ->
  filter (fun e => negb (has_id i e)) d' = filter (fun e => negb (has_id i e)) d -> block j d' = block j d.
Proof.
  intros N H. unfold block.
  assert (K : forall l, filter (has_id j) l = filter (has_id j) (filter (fun e => negb (has_id i e)) l)).
  { intros l. rewrite filter_comm. symmetry. apply filter_map_all. intros e He. apply filter_In in He as [_ Hj]. unfold has_id in *.
    apply Z.eqb_eq in Hj. apply negb_true_iff, Z.eqb_neq. congruence. }
  now rewrite (K d'), (K d), H.
Qed.

Lemma set_aux_idem i s e : set_aux_service i s (set_aux_service i s e) = set_aux_service i s e.
Proof. destruct e; cbn; try reflexivity. destruct (Z.eqb _ _) eqn:E; cbn; now rewrite E. Qed.

Section FirstPass.
  Variables (n : nat) (d : list Energy) (k : Z) (d' : list Energy).
  Hypothesis Hwf : wf n d.
  Hypothesis Haux : filter (is_aux_of k) d <> [].
  Hypothesis Hok : assign_aux_id d k = Ok d'.

  Lemma first_nonaux : nonaux d' = nonaux d.
  Proof. exact (assign_aux_id_keeps d k d' Hok). Qed.

  Lemma d_nonempty : d <> [].
  Proof. intro K. rewrite K in Haux. now apply Haux. Qed.

  Theorem first_pass_form : AuxForm n d' k.
  Proof.
    pose proof Hok as H. unfold assign_aux_id in H. rewrite (num_steps_wf n d Hwf d_nonempty) in H.
    unfold AuxForm. rewrite (used_services_nonaux k d' d first_nonaux).
    assert (Multi : forall (tot := veclistsum (filter (is_aux_of k) d)),
               d' = filter (fun e => negb (is_aux_of k e)) d ++ news_of d k n tot ->
               exists tot0, length tot0 = n /\ block k d' = filter (fun e => negb (is_aux e)) (block k d') ++ news_of d' k n tot0).
    { intros tot E. exists tot. split; [apply veclistsum_len; [apply wf_filter, Hwf|exact Haux]|].
      rewrite (news_of_nonaux k d' d first_nonaux). rewrite E at 1. unfold block at 1. rewrite filter_app.
      fold (block k (filter (fun e => negb (is_aux_of k e)) d)). fold (block k (news_of d k n tot)).
      rewrite block_kept, Z.eqb_refl, block_news. f_equal.
      change (nonaux (block k d) = nonaux (block k d')). rewrite <- !block_nonaux, first_nonaux. reflexivity. }
    destruct (used_services d k) as [|s [|s' l]].
    - destruct (_ && _); [discriminate|]. injection H as H. apply Multi. now symmetry.
    - injection H as <-. intros e He. unfold block in He. apply filter_In in He as [He _]. apply in_map_iff in He as (e0 & <- & _). apply set_aux_idem.
    - destruct (_ && _); [discriminate|]. injection H as H. apply Multi. now symmetry.
  Qed.

  Lemma first_pass_others j : j <> k -> block j d' = block j d.
  Proof. intros N. apply (block_from_others k j d d' N). exact (assign_aux_id_others d k d' Hok). Qed.
End FirstPass.

Lemma assign_ids_form n ids : forall d d' done,
  wf n d -> NoDup ids -> (forall k, In k ids -> ~ In k done) -> (forall k, In k ids -> filter (is_aux_of k) d <> []) ->
  (forall j, In j done -> AuxForm n d j) -> assign_aux_ids d ids = Ok d' ->
  (forall j, In j (done ++ ids) -> AuxForm n d' j) /\ wf n d' /\ (forall j, ~ In j ids -> block j d' = block j d).
Proof.
  induction ids as [|k ids IH]; intros d d' done W ND Hd Ha Hf H; cbn [assign_aux_ids] in H.
  - injection H as <-. rewrite app_nil_r. auto.
  - destruct (assign_aux_id d k) as [d1|] eqn:E1; cbn [bind] in H; [|discriminate].
    inversion ND as [|? ? Nk ND']; subst.
    assert (Ak : filter (is_aux_of k) d <> []) by (apply Ha; now left).
    assert (W1 : wf n d1) by (apply (assign_aux_id_wf n d k d1 W Ak E1)).
    destruct (IH d1 d' (done ++ [k]) W1 ND') as (F & W' & B).
    + intros j Hj Hin. apply in_app_iff in Hin as [Hin|[<-|[]]]; [apply (Hd j (or_intror Hj) Hin)|contradiction].
    + intros j Hj. rewrite (is_aux_of_other k j d1 d); [apply Ha; now right| |exact (assign_aux_id_others d k d1 E1)]. intro K. subst j. contradiction.
    + intros j Hj. apply in_app_iff in Hj as [Hj|[<-|[]]].
      * apply (AuxForm_block n d d1 j); [|now apply Hf]. symmetry. apply (first_pass_others d k d1 E1 j). intro K. subst j. apply (Hd k (or_introl eq_refl) Hj).
      * exact (first_pass_form n d k d1 W Ak E1).
    + exact H.
    + split; [|split; [exact W'|]].
      * intros j Hj. apply F. rewrite <- app_assoc. exact Hj.
      * intros j Hj. rewrite (B j) by (intro K; apply Hj; now right). apply (first_pass_others d k d1 E1 j). intro K. subst j. apply Hj. now left.
Qed.

(** ** the second pass *)
Lemma same_blocks_in d d' : (forall j, block j d' = block j d) -> forall e, In e d' -> In e d.
Proof.
  intros B e He. assert (Hb : In e (block (e_id e) d')) by (apply filter_In; split; [exact He|unfold has_id; apply Z.eqb_refl]).
  rewrite B in Hb. now apply filter_In in Hb.
Qed.

Lemma same_blocks_wf n d d' : (forall j, block j d' = block j d) -> wf n d -> wf n d'.
Proof. intros B W. apply Forall_forall. intros e He. unfold wf in W. rewrite Forall_forall in W. apply W. now apply (same_blocks_in d d' B). Qed.

Lemma second_assign n ids : forall d, wf n d -> d <> [] -> (forall j, In j ids -> AuxForm n d j) ->
  exists d', assign_aux_ids d ids = Ok d' /\ forall j, block j d' = block j d.
Proof.
  induction ids as [|k ids IH]; intros d W NE F; cbn [assign_aux_ids]; [eauto|].
  destruct (assign_id_fixed n d k (num_steps_wf n d W NE) (F k (or_introl eq_refl))) as (d1 & E1 & B1). rewrite E1. cbn [bind].
  assert (NE1 : d1 <> []).
  { destruct d as [|e0 r]; [contradiction|]. intro K. specialize (B1 (e_id e0)). rewrite K in B1. unfold block in B1. cbn [filter] in B1.
    unfold has_id at 1 in B1. rewrite Z.eqb_refl in B1. discriminate. }
  destruct (IH d1 (same_blocks_wf n d d1 B1 W) NE1) as (d' & E' & B').
  - intros j Hj. apply (AuxForm_block n d d1 j); [symmetry; apply B1|apply F; now right].
  - exists d'. split; [exact E'|]. intros j. now rewrite B', B1.
Qed.

Lemma carrier_nonaux cr l : cr <> ELECTRICIDAD -> filter (has_carrier cr) l = filter (has_carrier cr) (nonaux l).
Proof.
  intros N. apply filter_nonaux. intros e H. destruct e; try reflexivity. unfold has_carrier in H. cbn in H. destruct cr; try discriminate. congruence.
Qed.

Lemma complete_fixed cr src d : source_of_carrier cr = Some src ->
  (forall j, completion_for src (filter (has_carrier cr) d) j = []) -> complete cr d = d.
Proof.
  intros Hs H. unfold complete, complete_with. rewrite Hs. transitivity (d ++ []); [|apply app_nil_r]. f_equal. apply flat_map_nil. intros j _. apply H.
Qed.

Lemma block_carrier cr j d : block j (filter (has_carrier cr) d) = filter (has_carrier cr) (block j d).
Proof. unfold block. apply filter_comm. Qed.

Section Idem.
  Variables (n : nat) (data d : list Energy).
  Hypothesis Hwf : wf n data.
  Hypothesis Hnorm : normalize_data data = Ok d.

  Let d1 := complete EAMBIENTE data.
  Let d2 := complete TERMOSOLAR d1.

  Lemma norm_parts3 : exists d3, assign_aux d2 = Ok d3 /\ d = sort_by_id d3.
  Proof.
    pose proof Hnorm as H. unfold normalize_data in H. fold d1 d2 in H. destruct (assign_aux d2) as [d3|]; cbn [bind] in H; [|discriminate].
    injection H as <-. eauto.
  Qed.

  Lemma W1 : wf n d1.  Proof. apply complete_wf, Hwf. Qed.
  Lemma W2 : wf n d2.  Proof. apply complete_wf, W1. Qed.

  (** the components that are not auxiliary are those of the completed set, block by block *)
  Lemma blocks_nonaux j : nonaux (block j d) = nonaux (block j d2).
  Proof.
    destruct norm_parts3 as (d3 & A & ->). unfold block. rewrite sort_by_id_stable. change (nonaux (block j d3) = nonaux (block j d2)).
    rewrite <- !block_nonaux. unfold assign_aux in A. unfold nonaux. rewrite (assign_aux_ids_keeps _ _ _ A). reflexivity.
  Qed.

  Lemma carrier_blocks cr j : cr <> ELECTRICIDAD ->
    block j (filter (has_carrier cr) d) = block j (filter (has_carrier cr) d2).
  Proof. intros N. rewrite !block_carrier, (carrier_nonaux cr (block j d) N), (carrier_nonaux cr (block j d2) N), blocks_nonaux. reflexivity. Qed.

  Lemma nothing_to_complete_T : complete TERMOSOLAR d = d.
  Proof.
    apply (complete_fixed TERMOSOLAR PS_TERMOSOLAR); [reflexivity|]. intros j.
    rewrite (completion_local PS_TERMOSOLAR _ (filter (has_carrier TERMOSOLAR) d2) j) by (apply carrier_blocks; discriminate).
    unfold d2, complete, complete_with. cbn [source_of_carrier]. rewrite (env2 TERMOSOLAR PS_TERMOSOLAR d1 eq_refl).
    apply (second_pass_nothing n TERMOSOLAR PS_TERMOSOLAR d1 W1).
  Qed.

  Lemma nothing_to_complete_E : complete EAMBIENTE d = d.
  Proof.
    apply (complete_fixed EAMBIENTE PS_EAMBIENTE); [reflexivity|]. intros j.
    rewrite (completion_local PS_EAMBIENTE _ (filter (has_carrier EAMBIENTE) d2) j) by (apply carrier_blocks; discriminate).
    assert (E : filter (has_carrier EAMBIENTE) d2 = filter (has_carrier EAMBIENTE) d1).
    { unfold d2, complete, complete_with. cbn [source_of_carrier]. rewrite filter_app.
      rewrite (filter_map_none (has_carrier EAMBIENTE) (flat_map _ _)); [apply app_nil_r|].
      intros e He. apply in_flat_map in He as (i & _ & He). rewrite (completion_ids _ _ _ _ He). reflexivity. }
    rewrite E. unfold d1, complete, complete_with. cbn [source_of_carrier]. rewrite (env2 EAMBIENTE PS_EAMBIENTE data eq_refl).
    apply (second_pass_nothing n EAMBIENTE PS_EAMBIENTE data Hwf).
  Qed.

  Lemma forms : forall k, In k (ids_of (filter is_aux d)) -> AuxForm n d k.
  Proof.
    destruct norm_parts3 as (d3 & A & Ed). intros k Hk. unfold assign_aux in A.
    set (ids := ids_of (filter is_aux d2)) in *.
    assert (Ha : forall j, In j ids -> filter (is_aux_of j) d2 <> []).
    { intros j Hj. apply ids_of_in in Hj as (e & He & Ee). apply filter_In in He as [He Ae].
      intro K. assert (In e (filter (is_aux_of j) d2)); [|rewrite K in *; contradiction].
      apply filter_In. split; [exact He|]. unfold is_aux_of, has_id. rewrite Ae, Ee, Z.eqb_refl. reflexivity. }
    destruct (assign_ids_form n ids d2 d3 [] W2 (ids_of_nodup _) (fun _ _ F => F) Ha (fun _ F => match F with end) A) as (F & _ & B).
    assert (Bd : block k d = block k d3) by (rewrite Ed; apply sort_by_id_stable).
    apply (AuxForm_block n d3 d k (eq_sym Bd)). apply F. cbn [app].
    destruct (in_dec Z.eq_dec k ids) as [Y|N]; [exact Y|exfalso].
    apply ids_of_in in Hk as (e & He & Ee). apply filter_In in He as [He Ae].
    assert (Hb : In e (block k d)) by (apply filter_In; split; [exact He|unfold has_id; rewrite Ee; apply Z.eqb_refl]).
    rewrite Bd, (B k N) in Hb. apply filter_In in Hb as [Hb _].
    assert (In e (filter is_aux d2)) by (apply filter_In; tauto).
    pose proof (ids_of_complete (filter is_aux d2) e H) as X. apply existsb_exists in X as (k' & Hk' & Ek'). apply Z.eqb_eq in Ek'.
    apply N. unfold ids. rewrite <- Ee, Ek'. exact Hk'.
  Qed.

  Lemma Wd : wf n d.
  Proof. apply (normalize_wf n data d Hwf Hnorm). Qed.

  (** normalising the normalised set gives the same list *)
  Theorem normalize_data_idempotent : normalize_data d = Ok d.
  Proof.
    unfold normalize_data. rewrite nothing_to_complete_E, nothing_to_complete_T.
    destruct d as [|e0 r] eqn:Ed; [reflexivity|]. rewrite <- Ed in *.
    assert (NE : d <> []) by (rewrite Ed; discriminate).
    unfold assign_aux. destruct (second_assign n (ids_of (filter is_aux d)) d Wd NE forms) as (d' & E' & B'). rewrite E'. cbn [bind]. f_equal.
    apply sorted_blocks_eq.
    - apply sort_by_id_sorted.
    - destruct norm_parts3 as (d3 & _ & E3). rewrite E3. apply sort_by_id_sorted.
    - intros j. unfold block. rewrite sort_by_id_stable. apply B'.
  Qed.
End Idem.

Theorem normalize_idempotent n c c' : wf n (c_data c) -> normalize c = Ok c' -> normalize c' = Ok c'.
Proof.
  unfold normalize. intros W H. destruct (normalize_data (c_data c)) as [d|] eqn:E; cbn [bind] in H; [|discriminate].
  injection H as <-. cbn [c_data c_meta c_needs]. rewrite (normalize_data_idempotent n (c_data c) d W E). reflexivity.
Qed.

(** what the components reader returns is a fixed point of normalisation *)
From Cteepbd Require Import Model.Parse.
Theorem parsed_components_are_normalized s c : parse_components s = POk c -> normalize c = Ok c.
Proof.
  unfold parse_components.
  destruct (pmap parse_meta _) as [metas| | |]; cbn [pbind]; try discriminate.
  destruct (parse_data_lines _ _ _) as [[data nd]| | |]; cbn [pbind]; try discriminate.
  set (n0 := match data with e :: _ => length (e_vals e) | [] => 12%nat end).
  destruct (forallb (fun e => (length (e_vals e) =? n0)%nat) data) eqn:F; cbn [negb]; [|discriminate].
  destruct (normalize (mkComponents metas data nd)) as [c0|] eqn:E; cbn [of_res]; [|discriminate].
  intros H. injection H as <-. apply (normalize_idempotent n0 (mkComponents metas data nd) c0); [|exact E].
  cbn [c_data]. apply Forall_forall. intros e He. rewrite forallb_forall in F. apply Nat.eqb_eq. now apply F.
Qed.
