(** * Scalar facts about one time step of one carrier (C01, C12) *)
From Cteepbd Require Import Model.Balance.
Open Scope Qc_scope.

(** a column whose entries are non-negative, with the EPB use split by service *)
Record col_ok (c : Col) : Prop := {
  ok_acs : 0 <= c_acs c; ok_cal : 0 <= c_cal c; ok_ref : 0 <= c_ref c; ok_ven : 0 <= c_ven c;
  ok_ilu : 0 <= c_ilu c; ok_u : 0 <= c_u c; ok_ne : 0 <= c_ne c; ok_cg : 0 <= c_cg c;
  ok_pv : 0 <= c_pv c; ok_chp : 0 <= c_chp c; ok_ts : 0 <= c_ts c; ok_ea : 0 <= c_ea c
}.

(** domain: total production is zero or above the 1e-3 guard of balance.rs:329 *)
(** the production of the column is zero or positive (true of every column with non-negative entries: [col_ok_dom];
    before fix c3bd83b the step functions needed more: zero or above the guard of 1e-3 kWh) *)
Definition col_dom (c : Col) : Prop := c_p c = 0 \/ 0 < c_p c.

Lemma c_p_nonneg c : col_ok c -> 0 <= c_p c.
Proof. intros []. unfold c_p. destruct c; cbn in *. qlra. Qed.

Lemma col_ok_dom c : col_ok c -> col_dom c.
Proof. intros H. pose proof (c_p_nonneg c H) as P. unfold col_dom. destruct (qeqb_spec (c_p c) 0) as [Z|Z]; [now left|right]. revert P Z. generalize (c_p c). intros x P Z. toQ. absQ. cbn in *. destruct (Qlt_le_dec 0 Qx) as [L|L]; [exact L|exfalso; apply Z; now apply Qle_antisym].
Qed.


(** the rational function (32) *)
Lemma fmatch_formula (x : Qc) : 0 < x ->
  (x + 1 / x - 1) / (x + 1 / x) = (x * x - x + 1) / (x * x + 1).
Proof.
  intros Hx. toQ. absQ. cbn in *. field. split; [|lra]. nra.
Qed.

Lemma fmatch_range_pos (x : Qc) : 0 < x ->
  qfrac 1 2 <= (x + 1 / x - 1) / (x + 1 / x) /\ (x + 1 / x - 1) / (x + 1 / x) <= 1.
Proof.
  intros Hx. rewrite fmatch_formula by assumption. toQ. absQ. cbn in *.
  assert (H1 : (0 < Qx * Qx + 1)%Q) by nra.
  split.
  - apply Qle_shift_div_l; [assumption|]. set (t := (Qx - 1)%Q). assert (0 <= t * t)%Q by nra.
    unfold t in *. nra.
  - apply Qle_shift_div_r; [assumption|]. nra.
Qed.

Lemma fmatch_range lm c : qfrac 1 2 <= fmatch lm c /\ fmatch lm c <= 1.
Proof.
  unfold fmatch. destruct lm; [|split; qlra].
  set (x := if qltb 0 (c_u c) then c_p c / c_u c else 0).
  destruct (qleb_spec x 0) as [Hx|Hx]; [split; qlra|].
  apply fmatch_range_pos. now apply Qcnot_le_lt.
Qed.

Lemma fmatch_nolm c : fmatch false c = 1.
Proof. reflexivity. Qed.

Lemma fmatch_pos lm c : 0 < fmatch lm c.
Proof. destruct (fmatch_range lm c) as [H _]. revert H. generalize (fmatch lm c). intros f H. qlra. Qed.

(** f * m for f in [1/2,1] and m >= 0 *)
Lemma scale_bounds (f m : Qc) : qfrac 1 2 <= f -> f <= 1 -> 0 <= m -> 0 <= f * m /\ f * m <= m.
Proof. intros. split; toQ; absQ; cbn in *; nra. Qed.

Lemma mul_f_bounds (m f p : Qc) : qfrac 1 2 <= f -> f <= 1 -> 0 <= m -> m <= p -> 0 <= m * f /\ m * f <= p.
Proof.
  intros F1 F2 M0 M1. destruct (scale_bounds f m F1 F2 M0) as [A B].
  replace (m * f) with (f * m) by ring. split; [assumption|]. eapply Qcle_trans; eassumption.
Qed.

Section Step.
  Variables (pr lm : bool) (c : Col).
  Hypothesis Hok : col_ok c.

  Let f := fmatch lm c.
  Let s : StepR := (c, step_out pr lm c).

  Lemma used_tot_bounds : 0 <= s_used s /\ s_used s <= qmin (s_u s) (s_p s).
  Proof.
    destruct (fmatch_range lm c) as [F1 F2]. destruct Hok.
    unfold s, s_used, s_u, s_p, step_out, used_tot_f, used_src_f, c_p; cbn [fst snd so_used].
    fold f in F1, F2 |- *. generalize dependent f. clear f s. intros f F1 F2.
    destruct c; cbn in *. destruct pr.
    - split; qcases; toQ; absQ; cbn in *; nra.
    - split; qcases; toQ; absQ; cbn in *; nra.
  Qed.

  Lemma step_identities :
    s_p s = s_used s + s_exp s /\ s_exp s = s_exp_ne s + s_exp_grid s /\ s_u s = s_used s + s_del_grid s.
  Proof. unfold s_exp_grid, s_del_grid, s_exp. repeat split; ring. Qed.

  Lemma step_nonneg :
    0 <= s_p s /\ 0 <= s_u s /\ 0 <= s_used s /\ 0 <= s_exp s /\ 0 <= s_exp_ne s /\ 0 <= s_exp_grid s
    /\ 0 <= s_del_grid s /\ s_exp_ne s <= s_ne s.
  Proof.
    destruct used_tot_bounds as [U1 U2]. pose proof (c_p_nonneg c Hok) as Hp. destruct Hok.
    unfold s_exp_grid, s_exp_ne, s_del_grid, s_exp, s_ne, s_u, s_p in *. cbn [fst] in *.
    revert U1 U2. generalize (s_used s). intros us U1 U2.
    repeat split; qlra.
  Qed.

  (** per source *)
  Lemma src_identity j : s_psrc s j = s_used_src s j + s_exp_src s j.
  Proof. unfold s_exp_src. ring. Qed.

  Lemma frac_le_1 (a p : Qc) : 0 <= a -> a <= p -> 0 < p -> 0 <= a / p /\ a / p <= 1.
  Proof.
    intros. toQ. absQ. cbn in *. split.
    - apply Qle_shift_div_l; lra. - apply Qle_shift_div_r; lra.
  Qed.

  Lemma c_src_le_p j : c_src c j <= c_p c /\ 0 <= c_src c j.
  Proof. destruct Hok. unfold c_p. destruct j; cbn; split; qlra. Qed.

  Lemma used_src_bounds j : 0 <= s_used_src s j /\ s_used_src s j <= s_psrc s j.
  Proof.
    destruct (fmatch_range lm c) as [F1 F2]. pose proof (c_p_nonneg c Hok) as Hp.
    destruct (c_src_le_p j) as [Hj1 Hj0].
    unfold s, s_used_src, s_psrc, step_out. cbn [fst snd].
    assert (E : forall j, so_src (mkSO f (used_src_f f pr c EL_INSITU) (used_src_f f pr c EL_COGEN)
                 (used_src_f f pr c PS_TERMOSOLAR) (used_src_f f pr c PS_EAMBIENTE) (used_tot_f f pr c)) j
                 = used_src_f f pr c j) by (intros []; reflexivity).
    fold f. rewrite E. unfold used_src_f. fold f in F1, F2. revert F1 F2. generalize f. clear f s E. intros f F1 F2.
    destruct Hok. destruct pr.
    - destruct j; cbn [c_src] in *.
      + apply mul_f_bounds; try assumption; qlra.
      + apply mul_f_bounds; try assumption; qlra.
      + split; [apply Qcle_refl|assumption].
      + split; [apply Qcle_refl|assumption].
    - destruct (qltb_spec 0 (c_p c)) as [Hgt|Hle].
      + assert (Hp0 : 0 < c_p c) by qlra.
        destruct (frac_le_1 (c_src c j) (c_p c) Hj0 Hj1 Hp0) as [R0 R1].
        assert (M : 0 <= qmin (c_u c) (c_p c) /\ qmin (c_u c) (c_p c) <= c_p c) by (split; qlra).
        destruct M as [M0 M1].
        (* used_j = f * m * (p_j / p) <= m * p_j / p <= p_j *)
        assert (K : c_src c j / c_p c * c_p c = c_src c j) by (field; intro Z; rewrite Z in Hp0; qlra).
        revert R0 R1 M0 M1 K. generalize (c_src c j / c_p c) (qmin (c_u c) (c_p c)).
        intros r m R0 R1 M0 M1 K. rewrite <- K.
        destruct (scale_bounds f m F1 F2 M0) as [A B].
        revert A B. generalize (f * m). intros fm A B.
        assert (C : fm <= c_p c) by (eapply Qcle_trans; eassumption).
        revert C M0 Hp0. generalize (c_p c). intros P C M0 Hp0.
        split.
        * now apply Qc_le_0_mul.
        * assert (D : 0 <= (P - fm) * r) by (apply Qc_le_0_mul; [qlra|assumption]).
          toQ. absQ. cbn in *. nra.
      + rewrite Qcmult_0_r. split; [apply Qcle_refl|exact Hj0].
  Qed.

  (** the allocations of the declared sources add up to the total (needs the domain) *)
  Lemma used_src_sum : col_dom c ->
    s_used_src s EL_INSITU + s_used_src s EL_COGEN + s_used_src s PS_TERMOSOLAR + s_used_src s PS_EAMBIENTE
    = s_used s.
  Proof.
    intros Hd. unfold s, s_used_src, s_used, step_out. cbn [fst snd so_src so_upv so_uchp so_uts so_uea so_used].
    unfold used_tot_f, used_src_f. destruct pr; [ring|].
    destruct (qltb_spec 0 (c_p c)) as [Hgt|Hle].
    - assert (Hp0 : c_p c <> 0) by (intro Z; rewrite Z in Hgt; qlra).
      cbn [c_src]. unfold c_p in *. field. exact Hp0.
    - clear Hd. pose proof (c_p_nonneg c Hok) as Hp. assert (Hz : c_p c = 0) by qlra.
      assert (M : qmin (c_u c) (c_p c) = 0). { destruct Hok. rewrite Hz. qlra. }
      rewrite M. ring.
  Qed.
  (** ... for every column: since fix c3bd83b the share of a source is its part of any non-zero production *)
  Lemma used_src_sum_any :
    s_used_src s EL_INSITU + s_used_src s EL_COGEN + s_used_src s PS_TERMOSOLAR + s_used_src s PS_EAMBIENTE
    = s_used s.
  Proof.
    unfold s, s_used_src, s_used, step_out. cbn [fst snd so_src so_upv so_uchp so_uts so_uea so_used].
    unfold used_tot_f, used_src_f. destruct pr; [ring|].
    destruct (qltb_spec 0 (c_p c)) as [Hgt|Hle].
    - assert (Hp0 : c_p c <> 0) by (intro Z; rewrite Z in Hgt; qlra).
      cbn [c_src]. unfold c_p in *. field. exact Hp0.
    - pose proof (c_p_nonneg c Hok) as Hp. assert (Hz : c_p c = 0) by qlra.
      assert (M : qmin (c_u c) (c_p c) = 0). { destruct Hok. rewrite Hz. qlra. }
      rewrite M. ring.
  Qed.
End Step.
