(** * Breakdowns add up to their totals (C04) *)
From Cteepbd Require Import Model.Balance Proofs.StepFacts Proofs.ColFacts Proofs.EpFacts.
Open Scope Qc_scope.

Lemma colsum_cons p e l t : colsum p (e :: l) t = (if p e then val_at t e else 0) + colsum p l t.
Proof. unfold colsum. cbn [filter]. destruct (p e); cbn [map]; rewrite ?qsum_cons; ring. Qed.
Lemma colsum_nil p t : colsum p [] t = 0.
Proof. reflexivity. Qed.

(** EPB use is the sum of the EPB uses of the five services *)
Lemma epb_use_split e v :
  (if is_epb_use e then v else 0) =
  (if is_epb_use_srv ACS e then v else 0) + (if is_epb_use_srv CAL e then v else 0) +
  (if is_epb_use_srv REF e then v else 0) + (if is_epb_use_srv VEN e then v else 0) +
  (if is_epb_use_srv ILU e then v else 0).
Proof. destruct e as [? ? s ? ?|? ? ? ?|? s ? ?|? s ? ?]; try destruct s; cbn; ring. Qed.

Lemma col_u_split l t :
  colsum is_epb_use l t =
  colsum (is_epb_use_srv ACS) l t + colsum (is_epb_use_srv CAL) l t + colsum (is_epb_use_srv REF) l t +
  colsum (is_epb_use_srv VEN) l t + colsum (is_epb_use_srv ILU) l t.
Proof.
  induction l as [|e l IH]; [rewrite !colsum_nil; ring|].
  rewrite !colsum_cons, IH, (epb_use_split e (val_at t e)). ring.
Qed.

Definition col_split (c : Col) : Prop := c_u c = c_acs c + c_cal c + c_ref c + c_ven c + c_ilu c.

Lemma col_at_split l t : col_split (col_at l t).
Proof. unfold col_split. cbn. apply col_u_split. Qed.

(** a service that no component declares contributes nothing *)
Lemma colsum_absent p l t : existsb p l = false -> colsum p l t = 0.
Proof.
  induction l as [|e l IH]; intros H; [reflexivity|]. cbn [existsb] in H. apply orb_false_iff in H as [H1 H2].
  rewrite colsum_cons, H1, IH by assumption. ring.
Qed.

Section Carrier.
  Variables (cr : Carrier) (lm : bool) (data : list Energy).
  Let x := mk_ctx cr lm data.

  Lemma step_split s : In s (cx_steps x) -> col_split (fst s).
  Proof. intros H. apply steps_inv in H as (t & ->). apply col_at_split. Qed.

  Lemma ann_sum5 (f : Service -> StepR -> Qc) :
    ann x (f ACS) + ann x (f CAL) + ann x (f REF) + ann x (f VEN) + ann x (f ILU)
    = ann x (fun s => f ACS s + f CAL s + f REF s + f VEN s + f ILU s).
  Proof. rewrite !ann_add. reflexivity. Qed.

  (** EPB use by service adds up *)
  Lemma epus_by_srv_total :
    a_epus_srv x ACS + a_epus_srv x CAL + a_epus_srv x REF + a_epus_srv x VEN + a_epus_srv x ILU = a_epus x.
  Proof.
    unfold a_epus_srv, a_epus. rewrite (ann_sum5 (fun v s => s_srv s v)). apply ann_ext.
    intros s Hs. pose proof (step_split s Hs) as H. unfold col_split in H. unfold s_srv, s_u, c_srv. rewrite H. reflexivity.
  Qed.

  Lemma absent_srv_zero v : has_srv x v = false -> a_epus_srv x v = 0.
  Proof.
    intros H. unfold a_epus_srv, ann, vec. apply qsum_map_zero. intros s Hs.
    apply steps_inv in Hs as (t & ->). unfold s_srv. cbn [fst].
    unfold x in H. rewrite has_srv_mk in H.
    destruct v; cbn [c_srv col_at c_acs c_cal c_ref c_ven c_ilu]; try reflexivity; now apply colsum_absent.
  Qed.

  Lemma so_src_step_out pr c j : so_src (step_out pr lm c) j = used_src_f (fmatch lm c) pr c j.
  Proof. destruct j; reflexivity. Qed.

  Lemma absent_src_col j t : has_src x j = false -> c_src (col_at (filter (has_carrier cr) data) t) j = 0.
  Proof. unfold x. rewrite has_src_mk. intros H. destruct j; cbn; now apply colsum_absent. Qed.

  Lemma prio_has_both : cx_prio x = true -> has_src x EL_INSITU = true /\ has_src x EL_COGEN = true.
  Proof.
    unfold x. rewrite !has_src_mk. unfold mk_ctx, prio_of. cbn [cx_prio].
    destruct cr; cbn [priorities andb forallb]; try discriminate. intros H. apply andb_true_iff in H as [H1 H2].
    apply andb_true_iff in H2 as [H2 _]. split; assumption.
  Qed.

  Lemma absent_src_zero j : has_src x j = false ->
    a_prod_src x j = 0 /\ a_used_src x j = 0 /\ forall v, a_used_src_srv x j v = 0.
  Proof.
    intros H.
    assert (U : forall s, In s (cx_steps x) -> s_psrc s j = 0 /\ s_used_src s j = 0).
    { intros s Hs. apply steps_inv in Hs as (t & ->).
      pose proof (absent_src_col j t H) as Z.
      unfold s_psrc, s_used_src. cbn [fst snd]. split; [exact Z|].
      rewrite so_src_step_out. unfold used_src_f. fold x.
      destruct (cx_prio x) eqn:P.
      - destruct (prio_has_both P) as [A B]. destruct j; try reflexivity; congruence.
      - rewrite Z. unfold Qcdiv. destruct (qltb _ _); ring. }
    repeat split; [| |intros v]; unfold a_prod_src, a_used_src, a_used_src_srv, ann, vec; apply qsum_map_zero; intros s Hs;
      destruct (U s Hs) as [A B]; [exact A|exact B|].
    unfold s_used_src_srv. rewrite B. ring.
  Qed.

  (** production by source adds up *)
  Lemma prod_by_src_total :
    a_prod_src x EL_INSITU + a_prod_src x EL_COGEN + a_prod_src x PS_TERMOSOLAR + a_prod_src x PS_EAMBIENTE = a_prod x.
  Proof. unfold a_prod_src, a_prod. rewrite <- !ann_add. apply ann_ext. intros s _. reflexivity. Qed.

  (** produced-and-used energy of a source, split by service, adds up *)
  Lemma used_src_by_srv_total j : nonneg_data data ->
    a_used_src_srv x j ACS + a_used_src_srv x j CAL + a_used_src_srv x j REF + a_used_src_srv x j VEN
    + a_used_src_srv x j ILU = a_used_src x j.
  Proof.
    intros Hn. unfold a_used_src_srv, a_used_src. rewrite (ann_sum5 (fun v s => s_used_src_srv s j v)).
    apply ann_ext. intros s Hs. pose proof (step_split s Hs) as Hsp.
    apply steps_inv in Hs as (t & ->). pose proof (col_at_ok cr data t Hn) as Hok.
    set (c := col_at _ t) in *. unfold s_used_src_srv, f_us. cbn [fst] in *.
    destruct (qltb_spec 0 (c_u c)) as [Hu|Hu].
    - unfold col_split in Hsp. cbn [c_srv].
      assert (N : c_u c <> 0) by (intro Z; rewrite Z in Hu; qlra).
      generalize (s_used_src (c, step_out (cx_prio x) lm c) j). intros X.
      revert Hsp N. generalize (c_u c) (c_acs c) (c_cal c) (c_ref c) (c_ven c) (c_ilu c).
      intros u a1 a2 a3 a4 a5 Hsp N. rewrite Hsp in *. field. exact N.
    - (* no EPB use at this step: nothing is used *)
      assert (Z : forall pr, so_src (step_out pr lm c) j = 0).
      { intros pr. rewrite so_src_step_out. unfold used_src_f.
        assert (U0 : c_u c = 0) by (destruct Hok; qlra).
        pose proof (c_p_nonneg c Hok) as Hp. destruct Hok.
        destruct pr.
        - destruct j; try reflexivity; rewrite U0.
          + assert (M : qmin (c_pv c) 0 = 0) by qlra. rewrite M. ring.
          + assert (M : qmin (c_pv c) 0 = 0) by qlra. rewrite M.
            assert (M2 : qmin (c_chp c) (0 - 0) = 0) by qlra. rewrite M2. ring.
        - rewrite U0. assert (M : qmin 0 (c_p c) = 0) by qlra. rewrite M. ring. }
      unfold s_used_src. cbn [snd]. rewrite Z. ring.
  Qed.
End Carrier.

(** weighted energy by service: shares add up to 1 when the carrier has EPB use *)
Lemma f_us_an_total cr lm data :
  let x := mk_ctx cr lm data in
  f_us_an x ACS + f_us_an x CAL + f_us_an x REF + f_us_an x VEN + f_us_an x ILU
  = if qltb 0 (a_epus x) then 1 else 0.
Proof.
  cbv zeta. unfold f_us_an. pose proof (epus_by_srv_total cr lm data) as T.
  revert T. generalize (a_epus (mk_ctx cr lm data))
    (a_epus_srv (mk_ctx cr lm data) ACS) (a_epus_srv (mk_ctx cr lm data) CAL)
    (a_epus_srv (mk_ctx cr lm data) REF) (a_epus_srv (mk_ctx cr lm data) VEN) (a_epus_srv (mk_ctx cr lm data) ILU).
  intros u a1 a2 a3 a4 a5 T.
  destruct (qltb_spec 0 u) as [H|H]; [|ring].
  assert (N : u <> 0) by (intro Z; rewrite Z in H; qlra).
  transitivity ((a1 + a2 + a3 + a4 + a5) / u); [field; exact N|]. rewrite T. field. exact N.
Qed.

(** sums over the carriers that declare a key equal sums over all carriers when absent keys are zero *)
Lemma qsum_filter_zero {A} (p : A -> bool) (f : A -> Qc) l :
  (forall a, In a l -> p a = false -> f a = 0) -> qsum (map f (filter p l)) = qsum (map f l).
Proof.
  induction l as [|a l IH]; intros H; [reflexivity|]. cbn [filter map].
  destruct (p a) eqn:E; cbn [map]; rewrite ?qsum_cons, IH.
  - reflexivity. - intros; apply H; [now right|assumption].
  - rewrite (H a) by (now left || assumption). ring.
  - intros; apply H; [now right|assumption].
Qed.

Lemma qsum_map_sum5 {A} (f : Service -> A -> Qc) l :
  qsum (map (f ACS) l) + qsum (map (f CAL) l) + qsum (map (f REF) l) + qsum (map (f VEN) l) + qsum (map (f ILU) l)
  = qsum (map (fun a => f ACS a + f CAL a + f REF a + f VEN a + f ILU a) l).
Proof. rewrite !qsum_map_add. reflexivity. Qed.

Lemma qsum_map_sum4 {A} (f : ProdSource -> A -> Qc) l :
  qsum (map (f EL_INSITU) l) + qsum (map (f EL_COGEN) l) + qsum (map (f PS_TERMOSOLAR) l) + qsum (map (f PS_EAMBIENTE) l)
  = qsum (map (fun a => f EL_INSITU a + f EL_COGEN a + f PS_TERMOSOLAR a + f PS_EAMBIENTE a) l).
Proof. rewrite !qsum_map_add. reflexivity. Qed.

Section Building.
  Variables (fs : list Factor) (lm : bool) (data : list Energy) (ep : EP).
  Hypothesis Hok : Forall (bal_ok fs lm data) (ep_bal ep).

  Lemma bal_ctx b : In b (ep_bal ep) -> bc_ctx b = mk_ctx (cx_cr (bc_ctx b)) lm data.
  Proof. intros H. rewrite Forall_forall in Hok. now destruct (Hok b H). Qed.

  Lemma t_epus_by_srv :
    t_epus_srv ep ACS + t_epus_srv ep CAL + t_epus_srv ep REF + t_epus_srv ep VEN + t_epus_srv ep ILU = t_epus ep.
  Proof.
    unfold t_epus_srv, t_epus, tot, with_srv.
    rewrite !qsum_filter_zero.
    - rewrite (qsum_map_sum5 (fun v b => a_epus_srv (bc_ctx b) v)). apply qsum_map_ext.
      intros b Hb. rewrite (bal_ctx b Hb). apply epus_by_srv_total.
    - intros b Hb H. rewrite (bal_ctx b Hb) in *. now apply absent_srv_zero.
    - intros b Hb H. rewrite (bal_ctx b Hb) in *. now apply absent_srv_zero.
    - intros b Hb H. rewrite (bal_ctx b Hb) in *. now apply absent_srv_zero.
    - intros b Hb H. rewrite (bal_ctx b Hb) in *. now apply absent_srv_zero.
    - intros b Hb H. rewrite (bal_ctx b Hb) in *. now apply absent_srv_zero.
  Qed.

  Lemma t_prod_by_src :
    t_prod_src ep EL_INSITU + t_prod_src ep EL_COGEN + t_prod_src ep PS_TERMOSOLAR + t_prod_src ep PS_EAMBIENTE = t_prod ep.
  Proof.
    unfold t_prod_src, t_prod, tot, with_src.
    rewrite !qsum_filter_zero.
    - rewrite (qsum_map_sum4 (fun j b => a_prod_src (bc_ctx b) j)). apply qsum_map_ext.
      intros b Hb. rewrite (bal_ctx b Hb). apply prod_by_src_total.
    - intros b Hb H. rewrite (bal_ctx b Hb) in *. now apply absent_src_zero.
    - intros b Hb H. rewrite (bal_ctx b Hb) in *. now apply absent_src_zero.
    - intros b Hb H. rewrite (bal_ctx b Hb) in *. now apply absent_src_zero.
    - intros b Hb H. rewrite (bal_ctx b Hb) in *. now apply absent_src_zero.
  Qed.

  Lemma t_del_parts : t_del ep = t_del_grid ep + t_del_onst ep + t_cgnus ep.
  Proof. unfold t_del, t_del_grid, t_del_onst, t_cgnus, tot, a_del. rewrite <- !qsum_map_add. reflexivity. Qed.

  Lemma t_exp_parts : t_exp ep = t_exp_grid ep + t_exp_ne ep.
  Proof.
    unfold t_exp, t_exp_grid, t_exp_ne, tot, a_exp. rewrite <- !qsum_map_add. apply qsum_map_ext. intros; ring.
  Qed.

  (** produced and used by source, split by service *)
  Lemma t_used_src_by_srv j : nonneg_data data ->
    t_used_src_srv ep j ACS + t_used_src_srv ep j CAL + t_used_src_srv ep j REF + t_used_src_srv ep j VEN
    + t_used_src_srv ep j ILU = t_used_src ep j.
  Proof.
    intros Hn. unfold t_used_src_srv, t_used_src.
    assert (Z : forall v, qsum (map (fun b => a_used_src_srv (bc_ctx b) j v) (filter (fun b => has_srv (bc_ctx b) v) (with_src ep j)))
                       = qsum (map (fun b => a_used_src_srv (bc_ctx b) j v) (with_src ep j))).
    { intros v. apply qsum_filter_zero. intros b Hb H. unfold with_src in Hb. apply filter_In in Hb as [Hb _].
      rewrite (bal_ctx b Hb) in *. unfold a_used_src_srv, ann, vec. apply qsum_map_zero. intros s Hs.
      unfold s_used_src_srv, f_us.
      assert (E : c_srv (fst s) v = 0).
      { apply steps_inv in Hs as (t & ->). cbn [fst]. rewrite has_srv_mk in H.
        destruct v; cbn; try reflexivity; now apply colsum_absent. }
      rewrite E. destruct (qltb _ _); unfold Qcdiv; ring. }
    rewrite !Z. rewrite (qsum_map_sum5 (fun v b => a_used_src_srv (bc_ctx b) j v)). apply qsum_map_ext.
    intros b Hb. unfold with_src in Hb. apply filter_In in Hb as [Hb _]. rewrite (bal_ctx b Hb).
    now apply used_src_by_srv_total.
  Qed.
End Building.
