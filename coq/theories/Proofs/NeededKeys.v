(** * Which factors an evaluation looks up (shared by C07 completeness and C08 invisibility) *)
From Cteepbd Require Import Model.Factors Proofs.FactorFacts Proofs.EpFacts.
Open Scope Qc_scope.

Definition export_keys (x : CrCtx) (j : ProdSource) : list fkey :=
  let cr := cx_cr x in let s := ps_source j in
  (if qeqb (a_exp_ne x) 0 then [] else [(cr, s, A_NEPB, STEP_A); (cr, s, A_NEPB, STEP_B)])
  ++ (if qeqb (a_exp_grid x) 0 then [] else [(cr, s, A_RED, STEP_A); (cr, s, A_RED, STEP_B)]).

(** the keys [weighted_parts] may look up for a carrier context *)
Definition needed (x : CrCtx) : list fkey :=
  let cr := cx_cr x in
  [(cr, RED, SUMINISTRO, STEP_A)]
  ++ (if qeqb (a_del_onst x) 0 then [] else [(cr, INSITU, SUMINISTRO, STEP_A)])
  ++ (if qeqb (a_exp_ne x + a_exp_grid x) 0 then [] else flat_map (export_keys x) (cx_srcs x)).

Lemma needed_grid x : In (cx_cr x, RED, SUMINISTRO, STEP_A) (needed x).
Proof. unfold needed. cbn [app In]. now left. Qed.
Lemma needed_onst x : qeqb (a_del_onst x) 0 = false -> In (cx_cr x, INSITU, SUMINISTRO, STEP_A) (needed x).
Proof. intros D. unfold needed. rewrite D. cbn [app In]. right. now left. Qed.
Lemma needed_export x j dest step :
  qeqb (a_exp_ne x + a_exp_grid x) 0 = false -> In j (cx_srcs x) ->
  (dest = A_NEPB /\ qeqb (a_exp_ne x) 0 = false \/ dest = A_RED /\ qeqb (a_exp_grid x) 0 = false) ->
  In (cx_cr x, ps_source j, dest, step) (needed x).
Proof.
  intros EA Hj Hd. unfold needed. rewrite EA. cbn [app In]. right. apply in_app_iff. right.
  apply in_flat_map. exists j. split; [exact Hj|]. unfold export_keys. apply in_app_iff.
  destruct Hd as [[-> A]|[-> A]]; rewrite A; [left|right]; destruct step; cbn; tauto.
Qed.

Lemma findf_lookk fs c s d st : findf fs c s d st = match lookk fs (c, s, d, st) with Some v => Ok v | None => Err MissingFactor end.
Proof. reflexivity. Qed.

Lemma f_exp_mean_cong fs fs' x ea dest step js :
  (forall j, In j js -> lookk fs (cx_cr x, ps_source j, dest, step) = lookk fs' (cx_cr x, ps_source j, dest, step)) ->
  f_exp_mean fs x ea dest step js = f_exp_mean fs' x ea dest step js.
Proof.
  induction js as [|j js IH]; intros H; cbn [f_exp_mean]; [reflexivity|].
  rewrite !findf_lookk, (H j) by (now left). rewrite IH; [reflexivity|]. intros; apply H; now right.
Qed.

Lemma weighted_parts_cong fs fs' x :
  (forall k, In k (needed x) -> lookk fs k = lookk fs' k) -> weighted_parts fs x = weighted_parts fs' x.
Proof.
  intros H. unfold weighted_parts. cbv zeta.
  rewrite (findf_lookk fs (cx_cr x) RED), (findf_lookk fs' (cx_cr x) RED).
  rewrite (H (cx_cr x, RED, SUMINISTRO, STEP_A)) by apply needed_grid.
  destruct (lookk fs' (cx_cr x, RED, SUMINISTRO, STEP_A)) as [g|]; cbn [bind]; [|reflexivity].
  assert (E1 : (if qeqb (a_del_onst x) 0 then Ok rnc0 else do fo <- findf fs (cx_cr x) INSITU SUMINISTRO STEP_A; Ok (rscale (a_del_onst x) fo))
             = (if qeqb (a_del_onst x) 0 then Ok rnc0 else do fo <- findf fs' (cx_cr x) INSITU SUMINISTRO STEP_A; Ok (rscale (a_del_onst x) fo))).
  { destruct (qeqb (a_del_onst x) 0) eqn:D; [reflexivity|]. rewrite !findf_lookk.
    rewrite (H (cx_cr x, INSITU, SUMINISTRO, STEP_A)); [reflexivity|]. now apply needed_onst. }
  rewrite E1. clear E1. destruct (if qeqb (a_del_onst x) 0 then _ else _) as [wo|]; cbn [bind]; [|reflexivity].
  destruct (qeqb (a_exp_ne x + a_exp_grid x) 0) eqn:EA; [reflexivity|].
  assert (K : forall dest step amount, (dest = A_NEPB /\ amount = a_exp_ne x \/ dest = A_RED /\ amount = a_exp_grid x) ->
     (if qeqb amount 0 then Ok rnc0 else f_exp_mean fs x (a_exp_ne x + a_exp_grid x) dest step (srcs_present x))
     = (if qeqb amount 0 then Ok rnc0 else f_exp_mean fs' x (a_exp_ne x + a_exp_grid x) dest step (srcs_present x))).
  { intros dest step amount Hd. destruct (qeqb amount 0) eqn:A; [reflexivity|].
    apply f_exp_mean_cong. intros j Hj. apply H. apply needed_export; [exact EA|exact Hj|].
    destruct Hd as [[-> ->]|[-> ->]]; [left|right]; split; [reflexivity|exact A|reflexivity|exact A]. }
  rewrite (K A_NEPB STEP_A (a_exp_ne x)) by tauto.
  destruct (if qeqb (a_exp_ne x) 0 then Ok rnc0 else f_exp_mean fs' x _ A_NEPB STEP_A _) as [r1|]; cbn [bind]; [|reflexivity].
  rewrite (K A_RED STEP_A (a_exp_grid x)) by tauto.
  destruct (if qeqb (a_exp_grid x) 0 then Ok rnc0 else f_exp_mean fs' x _ A_RED STEP_A _) as [r2|]; cbn [bind]; [|reflexivity].
  rewrite (K A_NEPB STEP_B (a_exp_ne x)) by tauto.
  destruct (if qeqb (a_exp_ne x) 0 then Ok rnc0 else f_exp_mean fs' x _ A_NEPB STEP_B _) as [r3|]; cbn [bind]; [|reflexivity].
  rewrite (K A_RED STEP_B (a_exp_grid x)) by tauto. reflexivity.
Qed.

(** if every needed key is defined, there is no missing-factor error *)
Lemma f_exp_mean_defined fs x ea dest step js :
  (forall j, In j js -> lookk fs (cx_cr x, ps_source j, dest, step) <> None) ->
  exists r, f_exp_mean fs x ea dest step js = Ok r.
Proof.
  induction js as [|j js IH]; intros H; cbn [f_exp_mean]; [eauto|].
  rewrite findf_lookk. destruct (lookk fs (cx_cr x, ps_source j, dest, step)) eqn:L; [|exfalso; apply (H j); [now left|exact L]].
  cbn [bind]. destruct IH as [r' ->]; [intros; apply H; now right|]. cbn [bind]. eauto.
Qed.

Lemma weighted_parts_defined fs x :
  (forall k, In k (needed x) -> lookk fs k <> None) -> exists p, weighted_parts fs x = Ok p.
Proof.
  intros H. unfold weighted_parts. cbv zeta. rewrite (findf_lookk fs (cx_cr x) RED).
  destruct (lookk fs (cx_cr x, RED, SUMINISTRO, STEP_A)) as [g|] eqn:G;
    [|exfalso; apply (H (cx_cr x, RED, SUMINISTRO, STEP_A)); [apply needed_grid|exact G]].
  cbn [bind].
  assert (E1 : exists wo, (if qeqb (a_del_onst x) 0 then Ok rnc0 else do fo <- findf fs (cx_cr x) INSITU SUMINISTRO STEP_A; Ok (rscale (a_del_onst x) fo)) = Ok wo).
  { destruct (qeqb (a_del_onst x) 0) eqn:D; [eauto|]. rewrite findf_lookk.
    destruct (lookk fs (cx_cr x, INSITU, SUMINISTRO, STEP_A)) eqn:L; cbn [bind]; [eauto|].
    exfalso. apply (H (cx_cr x, INSITU, SUMINISTRO, STEP_A)); [now apply needed_onst|exact L]. }
  destruct E1 as [wo ->]. cbn [bind].
  destruct (qeqb (a_exp_ne x + a_exp_grid x) 0) eqn:EA; [eauto|].
  assert (K : forall dest step amount, (dest = A_NEPB /\ amount = a_exp_ne x \/ dest = A_RED /\ amount = a_exp_grid x) ->
     exists r, (if qeqb amount 0 then Ok rnc0 else f_exp_mean fs x (a_exp_ne x + a_exp_grid x) dest step (srcs_present x)) = Ok r).
  { intros dest step amount Hd. destruct (qeqb amount 0) eqn:A; [eauto|].
    apply f_exp_mean_defined. intros j Hj. apply H. apply needed_export; [exact EA|exact Hj|].
    destruct Hd as [[-> ->]|[-> ->]]; [left|right]; split; [reflexivity|exact A|reflexivity|exact A]. }
  destruct (K A_NEPB STEP_A (a_exp_ne x)) as [r1 ->]; [tauto|]. cbn [bind].
  destruct (K A_RED STEP_A (a_exp_grid x)) as [r2 ->]; [tauto|]. cbn [bind].
  destruct (K A_NEPB STEP_B (a_exp_ne x)) as [r3 ->]; [tauto|]. cbn [bind].
  destruct (K A_RED STEP_B (a_exp_grid x)) as [r4 ->]; [tauto|]. cbn [bind]. eauto.
Qed.
