(** * Transformations of the value vectors of all components (C09, C11) *)
From Cteepbd Require Import Model.Balance Proofs.StepFacts Proofs.ColFacts Proofs.EpFacts Proofs.Refine Proofs.DataEquiv Proofs.Homog.
Open Scope Qc_scope.

Definition map_vals (f : list Qc -> list Qc) (data : list Energy) : list Energy :=
  map (fun e => e_set_vals e (f (e_vals e))) data.

Lemma set_vals_same_tags e v : same_tags e (e_set_vals e v).
Proof. destruct e; cbn; auto. Qed.
Lemma e_vals_set e v : e_vals (e_set_vals e v) = v.
Proof. destruct e; reflexivity. Qed.

Lemma filter_map_vals f p data : tagpred p -> filter p (map_vals f data) = map_vals f (filter p data).
Proof.
  intros Hp. induction data as [|e l IH]; [reflexivity|]. cbn [map_vals map filter].
  rewrite <- (Hp e _ (set_vals_same_tags e (f (e_vals e)))). destruct (p e); cbn [map]; fold (map_vals f l); now rewrite IH.
Qed.

Lemma existsb_map_vals f p data : tagpred p -> existsb p (map_vals f data) = existsb p data.
Proof.
  intros Hp. induction data as [|e l IH]; [reflexivity|]. cbn [map_vals map existsb]. fold (map_vals f l).
  now rewrite <- (Hp e _ (set_vals_same_tags e (f (e_vals e)))), IH.
Qed.

Lemma colsum_map_vals f p data t : tagpred p ->
  colsum p (map_vals f data) t = qsum (map (fun e => nth t (f (e_vals e)) 0) (filter p data)).
Proof.
  intros Hp. unfold colsum. rewrite (filter_map_vals f p data Hp). unfold map_vals. rewrite map_map.
  apply qsum_map_ext. intros e _. unfold val_at. now rewrite e_vals_set.
Qed.

(** structure of the carrier context is preserved *)
Section Structure.
  Variables (f : list Qc -> list Qc) (cr : Carrier) (lm : bool) (data : list Energy).

  Lemma map_vals_filter_carrier : filter (has_carrier cr) (map_vals f data) = map_vals f (filter (has_carrier cr) data).
  Proof. apply filter_map_vals, tp_has_carrier. Qed.

  Lemma srcs_map_vals : cx_srcs (mk_ctx cr lm (map_vals f data)) = cx_srcs (mk_ctx cr lm data).
  Proof.
    unfold mk_ctx. cbn [cx_srcs]. rewrite map_vals_filter_carrier. apply filter_ext'. intros j.
    apply existsb_map_vals, tp_is_prod_src.
  Qed.
  Lemma srvs_map_vals : cx_srvs (mk_ctx cr lm (map_vals f data)) = cx_srvs (mk_ctx cr lm data).
  Proof.
    unfold mk_ctx. cbn [cx_srvs]. rewrite map_vals_filter_carrier. apply filter_ext'. intros v.
    apply existsb_map_vals, tp_is_epb_use_srv.
  Qed.
  Lemma prio_map_vals : cx_prio (mk_ctx cr lm (map_vals f data)) = cx_prio (mk_ctx cr lm data).
  Proof.
    unfold mk_ctx, prio_of. cbn [cx_prio]. rewrite map_vals_filter_carrier. destruct (priorities cr) as [hp ps]. f_equal.
    induction ps as [|j ps IH]; [reflexivity|]. cbn [forallb]. rewrite IH. f_equal. apply existsb_map_vals, tp_is_prod_src.
  Qed.
  Lemma avail_map_vals : avail_carriers (map_vals f data) = avail_carriers data.
  Proof.
    unfold avail_carriers. apply filter_ext'. intros c. apply existsb_map_vals.
    apply tp_and; [apply tp_or; [apply tp_or; [apply tp_is_used|apply tp_is_generated]|apply tp_is_aux]|apply tp_has_carrier].
  Qed.
End Structure.

(** ** Scaling every energy value by [k > 0] *)
Definition vscale (k : Qc) (v : list Qc) : list Qc := map (fun x => k * x) v.
Definition scale_data (k : Qc) := map_vals (vscale k).

Lemma nth_vscale k v t : nth t (vscale k v) 0 = k * nth t v 0.
Proof.
  unfold vscale. destruct (Nat.lt_ge_cases t (length v)) as [H|H].
  - rewrite (nth_indep _ 0 (k * 0)) by (now rewrite map_length). now rewrite (map_nth (fun x => k * x)).
  - rewrite !nth_overflow; [ring| |]; rewrite ?map_length; assumption.
Qed.

Lemma colsum_scale k p data t : tagpred p -> colsum p (scale_data k data) t = k * colsum p data t.
Proof.
  intros Hp. unfold scale_data. rewrite colsum_map_vals by assumption. unfold colsum. rewrite <- qsum_map_scale.
  apply qsum_map_ext. intros e _. apply nth_vscale.
Qed.

Lemma col_at_scale k cr data t :
  col_at (filter (has_carrier cr) (scale_data k data)) t = cscale k (col_at (filter (has_carrier cr) data) t).
Proof.
  unfold scale_data. rewrite map_vals_filter_carrier. fold (scale_data k (filter (has_carrier cr) data)).
  unfold col_at, cscale. cbn. f_equal; apply colsum_scale;
    first [apply tp_is_epb_use_srv | apply tp_is_epb_use | apply tp_is_ne_use | apply tp_is_cogen_use | apply tp_is_prod_src].
Qed.

Lemma num_steps_scale k cr data :
  num_steps_of (filter (has_carrier cr) (scale_data k data)) = num_steps_of (filter (has_carrier cr) data).
Proof.
  unfold scale_data. rewrite map_vals_filter_carrier. destruct (filter (has_carrier cr) data) as [|e l]; [reflexivity|].
  cbn. rewrite e_vals_set. unfold vscale. apply map_length.
Qed.

(** the scaled context: same structure, every step scaled *)
Definition ctx_scale (k : Qc) (x : CrCtx) : CrCtx :=
  mkCtx (cx_cr x) (cx_lm x) (cx_srcs x) (cx_srvs x) (cx_prio x) (map (sscale k) (cx_steps x)).

Definition dom_cols (cr : Carrier) (data : list Energy) : Prop :=
  forall t, col_dom (col_at (filter (has_carrier cr) data) t).

Lemma mk_ctx_scale k cr lm data : 0 < k -> dom_cols cr data -> dom_cols cr (scale_data k data) ->
  mk_ctx cr lm (scale_data k data) = ctx_scale k (mk_ctx cr lm data).
Proof.
  intros K D D'. pose proof (srcs_map_vals (vscale k) cr lm data) as S1. pose proof (srvs_map_vals (vscale k) cr lm data) as S2.
  pose proof (prio_map_vals (vscale k) cr lm data) as S3. fold (scale_data k data) in S1, S2, S3.
  unfold ctx_scale. unfold mk_ctx in *. cbn [cx_srcs cx_srvs cx_prio cx_cr cx_lm cx_steps] in *.
  rewrite S1, S2, S3, num_steps_scale. f_equal. unfold steps_of. rewrite map_map. apply map_ext. intros t.
  rewrite col_at_scale. apply step_scaled; [exact K|apply D|]. rewrite <- col_at_scale. apply D'.
Qed.

(** annual values of a scaled context *)
Lemma ann_scale k x (g : StepR -> Qc) : (forall s, g (sscale k s) = k * g s) -> ann (ctx_scale k x) g = k * ann x g.
Proof.
  intros H. unfold ann, vec, ctx_scale. cbn [cx_steps]. rewrite map_map, <- qsum_map_scale. apply qsum_map_ext. intros s _. apply H.
Qed.

Section AnnScale.
  Variables (k : Qc) (x : CrCtx).
  Hypothesis K : 0 < k.
  Let x' := ctx_scale k x.

  Lemma a_epus_scale : a_epus x' = k * a_epus x. Proof. apply ann_scale. intros; apply s_u_scale. Qed.
  Lemma a_epus_srv_scale v : a_epus_srv x' v = k * a_epus_srv x v. Proof. apply ann_scale. intros; apply s_srv_scale. Qed.
  Lemma a_nepus_scale : a_nepus x' = k * a_nepus x. Proof. apply ann_scale. intros; apply s_ne_scale. Qed.
  Lemma a_cgnus_scale : a_cgnus x' = k * a_cgnus x. Proof. apply ann_scale. intros; apply s_cg_scale. Qed.
  Lemma a_prod_scale : a_prod x' = k * a_prod x. Proof. apply ann_scale. intros; apply s_p_scale. Qed.
  Lemma a_prod_src_scale j : a_prod_src x' j = k * a_prod_src x j. Proof. apply ann_scale. intros; apply s_psrc_scale. Qed.
  Lemma a_used_scale : a_used x' = k * a_used x. Proof. apply ann_scale. intros; apply s_used_scale. Qed.
  Lemma a_used_src_scale j : a_used_src x' j = k * a_used_src x j. Proof. apply ann_scale. intros; apply s_used_src_scale. Qed.
  Lemma a_used_src_srv_scale j v : a_used_src_srv x' j v = k * a_used_src_srv x j v. Proof. apply ann_scale. intros; now apply s_used_src_srv_scale. Qed.
  Lemma a_exp_ne_scale : a_exp_ne x' = k * a_exp_ne x. Proof. apply ann_scale. intros; now apply s_exp_ne_scale. Qed.
  Lemma a_exp_grid_scale : a_exp_grid x' = k * a_exp_grid x. Proof. apply ann_scale. intros; now apply s_exp_grid_scale. Qed.
  Lemma a_exp_src_scale j : a_exp_src x' j = k * a_exp_src x j. Proof. apply ann_scale. intros; apply s_exp_src_scale. Qed.
  Lemma a_del_grid_scale : a_del_grid x' = k * a_del_grid x. Proof. apply ann_scale. intros; apply s_del_grid_scale. Qed.
  Lemma a_del_onst_scale : a_del_onst x' = k * a_del_onst x. Proof. apply ann_scale. intros; apply s_del_onst_scale. Qed.
  Lemma f_us_an_scale v : f_us_an x' v = f_us_an x v.
  Proof.
    unfold f_us_an. rewrite a_epus_scale, a_epus_srv_scale, qltb_scale by assumption.
    destruct (qltb 0 (a_epus x)); [|reflexivity]. apply div_scale. intro Z. rewrite Z in K. qlra.
  Qed.
End AnnScale.

(** weighted parts of a scaled context *)
Definition parts_scale (k : Qc) (p : WParts) : WParts :=
  mkWParts (rscale k (wp_grid p)) (rscale k (wp_onst p)) (rscale k (wp_cgn p)) (rscale k (wp_xa_ne p)) (rscale k (wp_xa_gr p))
           (rscale k (wp_xab_ne p)) (rscale k (wp_xab_gr p)).

Lemma qeqb_scale k x : k <> 0 -> qeqb (k * x) 0 = qeqb x 0.
Proof.
  intros K. destruct (qeqb_spec (k * x) 0) as [A|A], (qeqb_spec x 0) as [B|B]; try reflexivity.
  - exfalso. destruct (Qcmult_integral _ _ A); contradiction.
  - exfalso. apply A. rewrite B. ring.
Qed.

Lemma f_exp_mean_scale fs k x ea dest step js : k <> 0 -> 0 < k ->
  f_exp_mean fs (ctx_scale k x) (k * ea) dest step js = f_exp_mean fs x ea dest step js.
Proof.
  intros K0 K. induction js as [|j js IH]; cbn [f_exp_mean]; [reflexivity|]. change (cx_cr (ctx_scale k x)) with (cx_cr x).
  destruct (findf fs (cx_cr x) (ps_source j) dest step); cbn [bind]; [|reflexivity].
  rewrite IH. rewrite (a_exp_src_scale k x j), div_scale by assumption. reflexivity.
Qed.

Lemma weighted_parts_scale fs k x : 0 < k ->
  weighted_parts fs (ctx_scale k x) = match weighted_parts fs x with Ok p => Ok (parts_scale k p) | Err e => Err e end.
Proof.
  intros K. assert (K0 : k <> 0) by (intro Z; rewrite Z in K; qlra).
  unfold weighted_parts. cbv zeta. change (cx_cr (ctx_scale k x)) with (cx_cr x). change (srcs_present (ctx_scale k x)) with (srcs_present x).
  rewrite (a_del_grid_scale k x), (a_cgnus_scale k x), (a_del_onst_scale k x), (a_exp_ne_scale k x K), (a_exp_grid_scale k x K).
  destruct (findf fs (cx_cr x) RED SUMINISTRO STEP_A) as [g|]; cbn [bind]; [|reflexivity].
  rewrite !qeqb_scale by assumption.
  replace (k * a_exp_ne x + k * a_exp_grid x) with (k * (a_exp_ne x + a_exp_grid x)) by ring.
  rewrite !qeqb_scale by assumption.
  assert (Won : forall r : RNC, (if qeqb (a_del_onst x) 0 then Ok rnc0 else do fo <- findf fs (cx_cr x) INSITU SUMINISTRO STEP_A; Ok (rscale (k * a_del_onst x) fo))
                 = match (if qeqb (a_del_onst x) 0 then Ok rnc0 else do fo <- findf fs (cx_cr x) INSITU SUMINISTRO STEP_A; Ok (rscale (a_del_onst x) fo)) with
                   | Ok w => Ok (rscale k w) | Err e => Err e end) by
    (intros _; destruct (qeqb (a_del_onst x) 0); [f_equal; rnc|]; destruct (findf fs (cx_cr x) INSITU SUMINISTRO STEP_A); cbn [bind]; [f_equal; rnc|reflexivity]).
  rewrite (Won rnc0). clear Won.
  destruct (if qeqb (a_del_onst x) 0 then _ else _) as [wo|]; cbn [bind]; [|reflexivity].
  destruct (qeqb (a_exp_ne x + a_exp_grid x) 0).
  - f_equal. unfold parts_scale. cbn [wp_grid wp_onst wp_cgn wp_xa_ne wp_xa_gr wp_xab_ne wp_xab_gr].
    destruct (qeqb (a_cgnus x) 0); f_equal; rnc.
  - rewrite !f_exp_mean_scale by assumption.
    destruct (if qeqb (a_exp_ne x) 0 then Ok rnc0 else f_exp_mean fs x _ A_NEPB STEP_A _) as [r1|]; cbn [bind]; [|reflexivity].
    destruct (if qeqb (a_exp_grid x) 0 then Ok rnc0 else f_exp_mean fs x _ A_RED STEP_A _) as [r2|]; cbn [bind]; [|reflexivity].
    destruct (if qeqb (a_exp_ne x) 0 then Ok rnc0 else f_exp_mean fs x _ A_NEPB STEP_B _) as [r3|]; cbn [bind]; [|reflexivity].
    destruct (if qeqb (a_exp_grid x) 0 then Ok rnc0 else f_exp_mean fs x _ A_RED STEP_B _) as [r4|]; cbn [bind]; [|reflexivity].
    f_equal. unfold parts_scale. cbn [wp_grid wp_onst wp_cgn wp_xa_ne wp_xa_gr wp_xab_ne wp_xab_gr].
    destruct (qeqb (a_cgnus x) 0); f_equal; rnc.
Qed.

Lemma we_of_parts_scale kx k p :
  let w := we_of_parts kx p in let w' := we_of_parts kx (parts_scale k p) in
  we_a w' = rscale k (we_a w) /\ we_b w' = rscale k (we_b w) /\ we_del w' = rscale k (we_del w) /\
  we_exp w' = rscale k (we_exp w) /\ we_exp_a w' = rscale k (we_exp_a w).
Proof. cbv zeta. unfold we_of_parts, parts_scale. cbn. repeat split; rnc. Qed.

(** ** The whole evaluation under scaling *)
Definition bal_scale (k : Qc) (b : BalCr) : BalCr := mkBalCr (ctx_scale k (bc_ctx b)) (parts_scale k (bc_parts b)) (bc_k b).
Definition needs_scale (k : Qc) (nd : Needs) : Needs :=
  mkNeeds (option_map (vscale k) (nd_ACS nd)) (option_map (vscale k) (nd_CAL nd)) (option_map (vscale k) (nd_REF nd)).
Definition comps_scale (k : Qc) (c : Components) : Components :=
  mkComponents (c_meta c) (scale_data k (c_data c)) (needs_scale k (c_needs c)).
Definition ep_scale (k : Qc) (ep : EP) : EP :=
  mkEP (scale_data k (ep_data ep)) (needs_scale k (ep_needs ep)) (ep_factors ep) (ep_k ep) (ep_area ep) (map (bal_scale k) (ep_bal ep)).

Lemma cgn_ratio_scale k data cr n : 0 < k -> cgn_ratio (scale_data k data) cr n = cgn_ratio data cr n.
Proof.
  intros K. unfold cgn_ratio, cgn_el_an, cgn_fuel_an.
  assert (E1 : map (colsum is_cogen_pr (scale_data k data)) (seq 0 n) = map (fun t => k * colsum is_cogen_pr data t) (seq 0 n)).
  { apply map_ext. intros t. apply colsum_scale, tp_is_cogen_pr. }
  assert (E2 : map (colsum (fun e => is_cogen_use e && has_carrier cr e) (scale_data k data)) (seq 0 n)
             = map (fun t => k * colsum (fun e => is_cogen_use e && has_carrier cr e) data t) (seq 0 n)).
  { apply map_ext. intros t. apply colsum_scale. apply tp_and; [apply tp_is_cogen_use|apply tp_has_carrier]. }
  rewrite E1, E2, !qsum_map_scale, qltb_scale by assumption.
  destruct (qltb 0 (qsum (map (colsum is_cogen_pr data) (seq 0 n)))); [|reflexivity].
  apply div_scale. intro Z. rewrite Z in K. qlra.
Qed.

Lemma add_cgn_scale fs k data : 0 < k -> add_cgn_factors fs (scale_data k data) = add_cgn_factors fs data.
Proof.
  intros K. unfold add_cgn_factors, compute_cgn_exp_fP_A.
  assert (N : cgn_num_steps (scale_data k data) = cgn_num_steps data).
  { unfold cgn_num_steps, scale_data. rewrite (filter_map_vals _ _ _ tp_is_cogen_pr).
    destruct (filter is_cogen_pr data) as [|e l]; [reflexivity|]. cbn. rewrite e_vals_set. apply map_length. }
  assert (C : cgn_fuel_carriers (scale_data k data) = cgn_fuel_carriers data).
  { unfold cgn_fuel_carriers. apply filter_ext'. intros cr. apply existsb_map_vals. apply tp_and; [apply tp_is_cogen_use|apply tp_has_carrier]. }
  assert (S : forall m crs, cgn_sum fs (scale_data k data) m false crs = cgn_sum fs data m false crs).
  { intros m crs. induction crs as [|cr crs IH]; cbn [cgn_sum andb]; [reflexivity|]. now rewrite IH, cgn_ratio_scale. }
  rewrite N, C. destruct (cgn_num_steps data); [reflexivity|]. destruct (cgn_fuel_carriers data); [reflexivity|]. now rewrite S.
Qed.

Lemma balances_scale fs kx lm k data crs : 0 < k ->
  (forall cr, dom_cols cr data) -> (forall cr, dom_cols cr (scale_data k data)) ->
  balances fs kx lm (scale_data k data) crs =
  match balances fs kx lm data crs with Ok bs => Ok (map (bal_scale k) bs) | Err e => Err e end.
Proof.
  intros K D D'. induction crs as [|cr crs IH]; cbn [balances]; [reflexivity|].
  unfold balance_for_carrier. rewrite (mk_ctx_scale k cr lm data K (D cr) (D' cr)), weighted_parts_scale by assumption.
  destruct (weighted_parts fs (mk_ctx cr lm data)) as [p|]; cbn [bind]; [|reflexivity].
  rewrite IH. destruct (balances fs kx lm data crs); cbn [bind map]; reflexivity.
Qed.

Theorem energy_performance_scale c fs kx area lm k : 0 < k ->
  (forall cr, dom_cols cr (c_data c)) -> (forall cr, dom_cols cr (scale_data k (c_data c))) ->
  energy_performance (comps_scale k c) fs kx area lm =
  match energy_performance c fs kx area lm with Ok ep => Ok (ep_scale k ep) | Err e => Err e end.
Proof.
  intros K D D'. unfold energy_performance. cbn [c_data c_needs comps_scale].
  destruct (qltb area (qfrac 1 1000)); [reflexivity|]. rewrite add_cgn_scale by assumption.
  destruct (add_cgn_factors fs (c_data c)) as [fs'|]; cbn [bind]; [|reflexivity].
  unfold scale_data at 2. rewrite avail_map_vals. rewrite balances_scale by assumption.
  destruct (balances fs' kx lm (c_data c) (avail_carriers (c_data c))); cbn [bind]; reflexivity.
Qed.

(** totals of a scaled result *)
Lemma tot_scale k ep (f : BalCr -> Qc) : (forall b, f (bal_scale k b) = k * f b) -> tot (ep_scale k ep) f = k * tot ep f.
Proof. intros H. unfold tot, ep_scale. cbn [ep_bal]. rewrite map_map, <- qsum_map_scale. apply qsum_map_ext. intros b _. apply H. Qed.

Lemma rtotal_scale k ep (f : BalCr -> RNC) : (forall b, f (bal_scale k b) = rscale k (f b)) -> rtotal (ep_scale k ep) f = rscale k (rtotal ep f).
Proof. intros H. unfold rtotal, ep_scale. cbn [ep_bal]. rewrite map_map, <- rsum_map_scale. apply rsum_map_ext. intros b _. apply H. Qed.

Lemma bc_we_scale k b :
  we_a (bc_we (bal_scale k b)) = rscale k (we_a (bc_we b)) /\ we_b (bc_we (bal_scale k b)) = rscale k (we_b (bc_we b)) /\
  we_del (bc_we (bal_scale k b)) = rscale k (we_del (bc_we b)) /\ we_exp (bc_we (bal_scale k b)) = rscale k (we_exp (bc_we b)) /\
  we_exp_a (bc_we (bal_scale k b)) = rscale k (we_exp_a (bc_we b)).
Proof. unfold bc_we, bal_scale. cbn [bc_k bc_parts]. apply we_of_parts_scale. Qed.

Section TotalsScale.
  Variables (k : Qc) (ep : EP).
  Hypothesis K : 0 < k.

  Lemma t_we_b_scale : t_we_b (ep_scale k ep) = rscale k (t_we_b ep).
  Proof. apply rtotal_scale. intros b. now destruct (bc_we_scale k b) as (_ & H & _). Qed.
  Lemma t_we_a_scale : t_we_a (ep_scale k ep) = rscale k (t_we_a ep).
  Proof. apply rtotal_scale. intros b. now destruct (bc_we_scale k b) as (H & _). Qed.
  Lemma t_epus_scale : t_epus (ep_scale k ep) = k * t_epus ep.
  Proof. apply tot_scale. intros b. apply a_epus_scale. Qed.
  Lemma t_prod_scale : t_prod (ep_scale k ep) = k * t_prod ep.
  Proof. apply tot_scale. intros b. apply a_prod_scale. Qed.
  Lemma t_del_grid_scale : t_del_grid (ep_scale k ep) = k * t_del_grid ep.
  Proof. apply tot_scale. intros b. apply a_del_grid_scale. Qed.
  Lemma t_exp_scale : t_exp (ep_scale k ep) = k * t_exp ep.
  Proof.
    apply tot_scale. intros b. unfold a_exp. cbn [bc_ctx bal_scale].
    rewrite (a_exp_ne_scale k (bc_ctx b) K), (a_exp_grid_scale k (bc_ctx b) K). ring.
  Qed.

  (** ratios are unchanged *)
  Lemma rrer_scale r : rrer (rscale k r) = rrer r.
  Proof.
    unfold rrer, rtot. cbn [ren nren rscale]. replace (k * ren r + k * nren r) with (k * (ren r + nren r)) by ring.
    assert (K0 : k <> 0) by (intro Z; rewrite Z in K; qlra).
    rewrite qeqb_scale by assumption. destruct (qeqb (ren r + nren r) 0); [reflexivity|]. now apply div_scale.
  Qed.

  Lemma t_rer_scale : t_rer (ep_scale k ep) = t_rer ep.
  Proof. unfold t_rer. rewrite t_we_b_scale. apply rrer_scale. Qed.

  Lemma fmatch_vec_scale b : vec (bc_ctx (bal_scale k b)) s_f = vec (bc_ctx b) s_f.
  Proof. unfold vec, bal_scale, ctx_scale. cbn [bc_ctx cx_steps]. rewrite map_map. apply map_ext. intros s. reflexivity. Qed.
End TotalsScale.

Lemma find_map {A B} (p : B -> bool) (f : A -> B) l : find p (map f l) = option_map f (find (fun a => p (f a)) l).
Proof. induction l as [|a l IH]; [reflexivity|]. cbn [map find]. destruct (p (f a)); [reflexivity|exact IH]. Qed.

Section RerScale.
  Variables (k : Qc) (ep : EP).
  Hypothesis K : 0 < k.

  Lemma ren_of_el_scale (f : WE -> RNC) : (forall b, f (bc_we (bal_scale k b)) = rscale k (f (bc_we b))) ->
    ren_of_el (ep_scale k ep) f = k * ren_of_el ep f.
  Proof.
    intros H. unfold ren_of_el, ep_scale. cbn [ep_bal]. rewrite find_map.
    change (fun a => Carrier_beq (cx_cr (bc_ctx (bal_scale k a))) ELECTRICIDAD) with (fun a => Carrier_beq (cx_cr (bc_ctx a)) ELECTRICIDAD).
    destruct (find _ (ep_bal ep)) as [b|]; cbn [option_map]; [|ring]. rewrite H. reflexivity.
  Qed.

  Lemma ren_onst_scale : ren_onst (ep_scale k ep) = k * ren_onst ep.
  Proof.
    unfold ren_onst. rewrite tot_scale, ren_of_el_scale.
    - ring.
    - intros b. unfold bc_we, bal_scale. cbn [bc_k bc_parts]. unfold we_of_parts, parts_scale. cbn [we_del_onst wp_onst]. reflexivity.
    - intros b. change (cx_cr (bc_ctx (bal_scale k b))) with (cx_cr (bc_ctx b)). destruct (cr_is_onsite _); [|ring].
      destruct (bc_we_scale k b) as (_ & H & _). rewrite H. reflexivity.
  Qed.

  Lemma ren_nrb_scale : ren_nrb (ep_scale k ep) = k * ren_nrb ep.
  Proof.
    unfold ren_nrb. rewrite tot_scale, !ren_of_el_scale.
    - change (ep_k (ep_scale k ep)) with (ep_k ep). ring.
    - intros b. now destruct (bc_we_scale k b) as (_ & _ & _ & _ & H).
    - intros b. unfold bc_we, bal_scale. cbn [bc_k bc_parts]. unfold we_of_parts, parts_scale. cbn [we_del_cgn wp_cgn]. reflexivity.
    - intros b. unfold bc_we, bal_scale. cbn [bc_k bc_parts]. unfold we_of_parts, parts_scale. cbn [we_del_onst wp_onst]. reflexivity.
    - intros b. change (cx_cr (bc_ctx (bal_scale k b))) with (cx_cr (bc_ctx b)). destruct (cr_is_nearby _); [|ring].
      destruct (bc_we_scale k b) as (_ & H & _). rewrite H. reflexivity.
  Qed.

  Lemma t_rer_onst_scale : t_rer_onst (ep_scale k ep) = t_rer_onst ep.
  Proof.
    unfold t_rer_onst, rtot. rewrite (t_we_b_scale k ep), ren_onst_scale. cbn [ren nren rscale].
    replace (k * ren (t_we_b ep) + k * nren (t_we_b ep)) with (k * (ren (t_we_b ep) + nren (t_we_b ep))) by ring.
    rewrite qltb_scale by assumption. destruct (qltb 0 _); [|reflexivity]. apply div_scale. intro Z. rewrite Z in K. qlra.
  Qed.

  Lemma t_rer_nrb_scale : t_rer_nrb (ep_scale k ep) = t_rer_nrb ep.
  Proof.
    unfold t_rer_nrb, rtot. rewrite (t_we_b_scale k ep), ren_nrb_scale. cbn [ren nren rscale].
    replace (k * ren (t_we_b ep) + k * nren (t_we_b ep)) with (k * (ren (t_we_b ep) + nren (t_we_b ep))) by ring.
    rewrite qltb_scale by assumption. destruct (qltb 0 _); [|reflexivity]. apply div_scale. intro Z. rewrite Z in K. qlra.
  Qed.
End RerScale.

Lemma dom_data_cols cr data : dom_data data -> dom_cols cr data.
Proof. intros H t. now apply col_at_dom. Qed.

(** since fix c3bd83b the step functions only need non-negative columns *)
Lemma nonneg_cols cr data : nonneg_data data -> dom_cols cr data.
Proof. intros H t. apply col_ok_dom. now apply col_at_ok. Qed.

Lemma nonneg_map_vals f data : (forall v, Forall (fun x => 0 <= x) v -> Forall (fun x => 0 <= x) (f v)) ->
  nonneg_data data -> nonneg_data (map_vals f data).
Proof.
  intros Hf H. unfold nonneg_data, map_vals in *. rewrite Forall_forall in *. intros e He Ho. apply in_map_iff in He as (e0 & <- & H0).
  rewrite e_vals_set. apply Hf. apply (H e0 H0). destruct e0; try reflexivity. discriminate Ho.
Qed.

Lemma nonneg_scale k data : 0 <= k -> nonneg_data data -> nonneg_data (scale_data k data).
Proof.
  intros K. apply nonneg_map_vals. intros v Hv. unfold vscale. apply Forall_forall. intros x Hx. apply in_map_iff in Hx as (y & <- & Hy).
  rewrite Forall_forall in Hv. apply Qc_le_0_mul; [exact K|now apply Hv].
Qed.

