(** * Writing the system id 0 explicitly or omitting it (C10, text level)

    A consumption, production or auxiliary line may start with its system id; without one the id is 0.  For every
    trimmed line that is read successfully and whose first field is not a number, the same line with "0, " in front
    reads as the same component. *)
From Coq Require Import String List Lia.
From Cteepbd Require Import Base.Num Model.Types Model.Dump Model.Text Model.Parse Proofs.ParseFacts Proofs.RoundTrip.
Import ListNotations. Open Scope list_scope. Open Scope N_scope.

Definition id0 (l : str) : str := 48 :: 44 :: 32 :: l.   (* "0, " ++ l *)

Lemma split_on_nonempty c s : split_on c s <> [].
Proof. induction s as [|x r IH]; cbn [split_on]; [discriminate|]. destruct (x =? c); [discriminate|]. destruct (split_on c r); discriminate. Qed.

Lemma trim_space_cons p : trim (32 :: p) = trim p.
Proof. unfold trim. cbn [trim_start]. change (is_ws 32) with true. cbv iota. reflexivity. Qed.

Lemma break_at_id0 l : break_at 35 (id0 l) = let (a, b) := break_at 35 l in (id0 a, b).
Proof. unfold id0. cbn [break_at]. change (48 =? 35) with false. change (44 =? 35) with false. change (32 =? 35) with false. cbv iota.
  destruct (break_at 35 l). reflexivity. Qed.

(** a trimmed, non-empty line that is not a comment line *)
Definition plain_line (l : str) : Prop := exists x r, l = x :: r /\ is_ws x = false /\ x <> 35 /\ trim_end l = l.

Lemma fields_id0 l : plain_line l -> fields (id0 l) = (cs "0" :: fst (fields l), snd (fields l)).
Proof.
  intros (x & r & -> & Wx & Nx & Te). unfold fields.
  assert (T1 : trim (x :: r) = x :: r) by (unfold trim; rewrite trim_start_nonws by exact Wx; exact Te).
  assert (T2 : trim (id0 (x :: r)) = id0 (x :: r)).
  { unfold trim, id0. rewrite trim_start_nonws by reflexivity.
    rewrite (trim_end_cons_nonws 48) by reflexivity. rewrite (trim_end_cons_nonws 44) by reflexivity.
    rewrite (trim_end_cons_keep 32) by (rewrite Te; discriminate). rewrite Te. reflexivity. }
  rewrite T1, T2, break_at_id0.
  cbn [break_at]. destruct (N.eqb_spec x 35) as [K|_]; [contradiction|].
  destruct (break_at 35 r) as [a b]. cbn [fst snd].
  assert (T3 : trim (id0 (x :: a)) = id0 (trim (x :: a))).
  { unfold trim at 1, id0. rewrite trim_start_nonws by reflexivity.
    rewrite (trim_end_cons_nonws 48) by reflexivity. rewrite (trim_end_cons_nonws 44) by reflexivity.
    assert (NE : trim_end (x :: a) <> []) by (rewrite trim_end_cons_nonws by exact Wx; discriminate).
    rewrite (trim_end_cons_keep 32) by exact NE. unfold trim. rewrite trim_start_nonws by exact Wx. reflexivity. }
  rewrite T3. set (ta := trim (x :: a)). unfold id0. cbn [split_on]. change (48 =? 44) with false. rewrite N.eqb_refl. change (32 =? 44) with false. cbv iota.
  pose proof (split_on_nonempty 44 ta) as NE. destruct (split_on 44 ta) as [|p ps]; [contradiction|]. cbn [map].
  rewrite trim_space_cons. reflexivity.
Qed.

Lemma idx_cons {T} (x : T) l b : idx (x :: l) (S b) = idx l b.
Proof. reflexivity. Qed.
Lemma slice_cons {T} (x : T) l b : slice_from (x :: l) (S b) = slice_from l b.
Proof. reflexivity. Qed.

Lemma parse_i32_zero : parse_i32 (cs "0") = Some 0%Z.
Proof. reflexivity. Qed.

(** the first field is not a number: the line carries no id *)
Definition no_id (l : str) : Prop := match fst (fields l) with t :: _ => parse_i32 t = None | [] => True end.

Theorem used_id0 l e : plain_line l -> no_id l -> parse_used l = POk e -> parse_used (id0 l) = POk e.
Proof.
  intros P N H. unfold parse_used in *. rewrite (fields_id0 l P). unfold no_id in N. destruct (fields l) as [items c]. cbn [fst snd] in *.
  destruct (length items <? 4)%nat eqn:L; [discriminate|]. apply Nat.ltb_ge in L.
  assert (L' : (length (cs "0" :: items) <? 4)%nat = false) by (apply Nat.ltb_ge; cbn [length]; lia). rewrite L'.
  destruct items as [|t items']; [cbn in L; lia|]. unfold id_and_base in *. cbn [idx nth_error pbind] in *. rewrite N in H. rewrite parse_i32_zero.
  cbn [pbind Nat.add] in *. exact H.
Qed.

Theorem prod_id0 l e : plain_line l -> no_id l -> parse_prod l = POk e -> parse_prod (id0 l) = POk e.
Proof.
  intros P N H. unfold parse_prod in *. rewrite (fields_id0 l P). unfold no_id in N. destruct (fields l) as [items c]. cbn [fst snd] in *.
  destruct (length items <? 3)%nat eqn:L; [discriminate|]. apply Nat.ltb_ge in L.
  assert (L' : (length (cs "0" :: items) <? 3)%nat = false) by (apply Nat.ltb_ge; cbn [length]; lia). rewrite L'.
  destruct items as [|t items']; [cbn in L; lia|]. unfold id_and_base in *. cbn [idx nth_error pbind] in *. rewrite N in H. rewrite parse_i32_zero.
  cbn [pbind Nat.add] in *. exact H.
Qed.

Theorem aux_id0 l e : plain_line l -> no_id l -> parse_aux l = POk e -> parse_aux (id0 l) = POk e.
Proof.
  intros P N H. unfold parse_aux in *. rewrite (fields_id0 l P). unfold no_id in N. destruct (fields l) as [items c]. cbn [fst snd] in *.
  destruct (length items <? 2)%nat eqn:L; [discriminate|]. apply Nat.ltb_ge in L.
  assert (L' : (length (cs "0" :: items) <? 2)%nat = false) by (apply Nat.ltb_ge; cbn [length]; lia). rewrite L'.
  destruct items as [|t items']; [cbn in L; lia|]. unfold id_and_base in *. cbn [idx nth_error pbind] in *. rewrite N in H. rewrite parse_i32_zero.
  cbn [pbind Nat.add] in *. exact H.
Qed.

(** the component read has id 0 *)
Theorem used_no_id_is_zero l e : no_id l -> parse_used l = POk e -> e_id e = 0%Z.
Proof.
  intros N H. unfold parse_used, no_id in *. destruct (fields l) as [items c]. cbn [fst] in N.
  destruct (length items <? 4)%nat; [discriminate|]. destruct items as [|t r]; [discriminate H|].
  unfold id_and_base in H. cbn [idx nth_error pbind] in H. rewrite N in H. cbn [pbind] in H.
  repeat match type of H with
         | (dop _ <- ?x; _) = _ => destruct x; cbn [pbind] in H; try discriminate H
         | (if ?b then _ else _) = _ => destruct b; try discriminate H
         end.
  injection H as <-. reflexivity.
Qed.

(** non-vacuity *)
Example id0_example :
  let l := cs "CONSUMO, ACS, ELECTRICIDAD, 1.5, 2.0 # bomba" in
  plain_line l /\ no_id l /\ parse_used (id0 l) = parse_used l /\ exists e, parse_used l = POk e.
Proof.
  cbv zeta. split; [eexists _, _; split; [reflexivity|]; split; [reflexivity|]; split; [discriminate|vm_compute; reflexivity]|].
  split; [vm_compute; reflexivity|]. split; [vm_compute; reflexivity|]. eexists. vm_compute. reflexivity.
Qed.

(** ** the reader of data lines takes the same branch *)
Lemma two_tags_id0 l a r : break_at 44 l = (a, Some r) -> two_tags (id0 l) = (cs "0", fst (two_tags l)).
Proof.
  intros B. unfold two_tags, id0. cbn [break_at]. change (48 =? 44) with false. rewrite N.eqb_refl. cbv iota.
  rewrite B. cbn [break_at]. change (32 =? 44) with false. cbv iota. rewrite B. rewrite trim_space_cons.
  destruct (break_at 44 r) as [b w]. reflexivity.
Qed.

Theorem data_line_id0 l rest data nd :
  plain_line l -> no_id l ->
  (exists a r, break_at 44 l = (a, Some r)) ->
  match parse_ctype (fst (two_tags l)) with
  | Some CONSUMO => exists e, parse_used l = POk e
  | Some PRODUCCION => exists e, parse_prod l = POk e
  | Some CT_AUX => exists e, parse_aux l = POk e
  | _ => False
  end ->
  parse_data_lines (id0 l :: rest) data nd = parse_data_lines (l :: rest) data nd.
Proof.
  intros P N (a & r & B) H. cbn [parse_data_lines]. rewrite (two_tags_id0 l a r B).
  change (parse_ctype (cs "0")) with (@None CType). destruct (two_tags l) as [t1 t2]. cbn [fst] in *.
  destruct (parse_ctype t1) as [[| | | |]|]; try contradiction; destruct H as [e He]; rewrite He.
  - now rewrite (used_id0 l e P N He).
  - now rewrite (prod_id0 l e P N He).
  - now rewrite (aux_id0 l e P N He).
Qed.
