(** * The model refines the flat specification Spec/Iso52000.v *)
From Cteepbd Require Import Model.Balance Spec.Iso52000 Proofs.EpFacts.
Open Scope Qc_scope.

Lemma filter_filter {A} (p q : A -> bool) l : filter p (filter q l) = filter (fun a => q a && p a) l.
Proof.
  induction l as [|a l IH]; [reflexivity|]. cbn [filter]. destruct (q a); cbn [andb filter]; [|exact IH].
  destruct (p a); now rewrite IH.
Qed.

Lemma existsb_filter {A} (p q : A -> bool) l : existsb p (filter q l) = existsb (fun a => q a && p a) l.
Proof.
  induction l as [|a l IH]; [reflexivity|]. cbn [filter existsb]. destruct (q a); cbn [andb existsb]; now rewrite IH.
Qed.

Lemma filter_ext' {A} (p q : A -> bool) l : (forall a, p a = q a) -> filter p l = filter q l.
Proof. intros H. induction l as [|a l IH]; [reflexivity|]. cbn [filter]. rewrite H, IH. reflexivity. Qed.

Section Flows.
  Variables (data : list Energy) (lm : bool) (cr : Carrier).
  Let l := filter (has_carrier cr) data.
  Let x := mk_ctx cr lm data.
  Let n := num_steps_of l.

  Lemma colsum_E p t : colsum p l t = E data (fun e => of_cr cr e && p e) t.
  Proof. unfold colsum, E, l, val_at, of_cr. rewrite filter_filter. reflexivity. Qed.

  Lemma col_u t : c_u (col_at l t) = E_EPus data cr t.
  Proof. apply colsum_E. Qed.
  Lemma col_srv s t : srv_is_epb s = true -> c_srv (col_at l t) s = E_EPus_srv data cr s t.
  Proof. destruct s; try discriminate; intros _; apply colsum_E. Qed.
  Lemma col_ne t : c_ne (col_at l t) = E_nEPus data cr t.
  Proof. apply colsum_E. Qed.
  Lemma col_cg t : c_cg (col_at l t) = E_cgn_in data cr t.
  Proof. apply colsum_E. Qed.
  Lemma col_src j t : c_src (col_at l t) j = E_pr_j data cr j t.
  Proof. destruct j; apply colsum_E. Qed.
  Lemma col_p t : c_p (col_at l t) = E_pr data cr t.
  Proof. unfold c_p, E_pr. rewrite <- !col_src. reflexivity. Qed.

  Lemma fmatch_spec_eq t : fmatch lm (col_at l t) = f_match data lm cr t.
  Proof.
    unfold fmatch, f_match. rewrite col_u, col_p. destruct lm; [|reflexivity].
    destruct (qltb 0 (E_EPus data cr t)); [reflexivity|].
    destruct (qleb_spec 0 0) as [_|N]; [reflexivity|]. exfalso. apply N. apply Qcle_refl.
  Qed.

  Lemma has_src_declared j : has_src x j = declared data cr j.
  Proof. unfold x. rewrite has_src_mk. unfold declared. apply existsb_filter. Qed.

  Lemma has_srv_served s : has_srv x s = served data cr s.
  Proof. unfold x. rewrite has_srv_mk. unfold served. apply existsb_filter. Qed.

  Lemma prio_spec : cx_prio x = with_priority data cr.
  Proof.
    unfold x, mk_ctx, prio_of, with_priority. cbn [cx_prio].
    destruct cr; cbn [priorities andb forallb]; try reflexivity.
    rewrite andb_true_r. unfold declared. rewrite !existsb_filter. reflexivity.
  Qed.

  Lemma so_src_eq pr c j : so_src (step_out pr lm c) j = used_src_f (fmatch lm c) pr c j.
  Proof. destruct j; reflexivity. Qed.

  Lemma used_src_spec j t :
    s_used_src (col_at l t, step_out (cx_prio x) lm (col_at l t)) j = E_pr_used_j data lm cr j t.
  Proof.
    unfold s_used_src. cbn [snd]. rewrite so_src_eq, prio_spec. unfold used_src_f, E_pr_used_j.
    rewrite fmatch_spec_eq, col_u, col_p, !col_src.
    destruct (with_priority data cr).
    - destruct j; try reflexivity; cbn [c_src]; rewrite <- ?(col_src EL_INSITU), <- ?(col_src EL_COGEN); cbn [c_src]; ring.
    - reflexivity.
  Qed.

  Lemma used_spec t : s_used (col_at l t, step_out (cx_prio x) lm (col_at l t)) = E_pr_used data lm cr t.
  Proof.
    unfold s_used, step_out. cbn [snd so_used]. unfold used_tot_f, E_pr_used.
    pose proof (used_src_spec EL_INSITU t) as A. pose proof (used_src_spec EL_COGEN t) as B.
    unfold s_used_src in A, B. cbn [snd] in A, B. rewrite so_src_eq in A, B.
    rewrite prio_spec in *. destruct (with_priority data cr).
    - rewrite A, B. ring.
    - rewrite fmatch_spec_eq, col_u, col_p. reflexivity.
  Qed.

  (** every per-step vector of the carrier is the specification's function tabulated over the steps *)
  Lemma vec_spec (g : StepR -> Qc) (h : nat -> Qc) :
    (forall t, g (col_at l t, step_out (cx_prio x) lm (col_at l t)) = h t) ->
    vec x g = map h (seq 0 n) /\ ann x g = an n h.
  Proof.
    intros H. unfold ann, an, vec, x, mk_ctx, steps_of. cbn [cx_steps]. fold l. fold n.
    assert (E1 : map g (map (fun t => (col_at l t, step_out (prio_of cr l) lm (col_at l t))) (seq 0 n)) = map h (seq 0 n)).
    { rewrite map_map. apply map_ext. intros t. apply H. }
    split; [exact E1|]. now rewrite E1.
  Qed.

  Definition flows_refine : Prop :=
    (vec x s_u = map (E_EPus data cr) (seq 0 n) /\ a_epus x = an n (E_EPus data cr)) /\
    (forall s, srv_is_epb s = true -> vec x (fun r => s_srv r s) = map (E_EPus_srv data cr s) (seq 0 n)
                                      /\ a_epus_srv x s = an n (E_EPus_srv data cr s)) /\
    (vec x s_ne = map (E_nEPus data cr) (seq 0 n) /\ a_nepus x = an n (E_nEPus data cr)) /\
    (vec x s_cg = map (E_cgn_in data cr) (seq 0 n) /\ a_cgnus x = an n (E_cgn_in data cr)) /\
    (forall j, vec x (fun r => s_psrc r j) = map (E_pr_j data cr j) (seq 0 n) /\ a_prod_src x j = an n (E_pr_j data cr j)) /\
    (vec x s_p = map (E_pr data cr) (seq 0 n) /\ a_prod x = an n (E_pr data cr)) /\
    (vec x s_f = map (f_match data lm cr) (seq 0 n)) /\
    (forall j, vec x (fun r => s_used_src r j) = map (E_pr_used_j data lm cr j) (seq 0 n)
               /\ a_used_src x j = an n (E_pr_used_j data lm cr j)) /\
    (vec x s_used = map (E_pr_used data lm cr) (seq 0 n) /\ a_used x = an n (E_pr_used data lm cr)) /\
    (vec x s_exp = map (E_exp data lm cr) (seq 0 n)) /\
    (vec x s_exp_ne = map (E_exp_nEPus data lm cr) (seq 0 n) /\ a_exp_ne x = an n (E_exp_nEPus data lm cr)) /\
    (vec x s_exp_grid = map (E_exp_grid data lm cr) (seq 0 n) /\ a_exp_grid x = an n (E_exp_grid data lm cr)) /\
    (vec x s_del_grid = map (E_del_grid data lm cr) (seq 0 n) /\ a_del_grid x = an n (E_del_grid data lm cr)) /\
    (vec x s_del_onst = map (E_del_onsite data cr) (seq 0 n) /\ a_del_onst x = an n (E_del_onsite data cr)) /\
    (forall j, vec x (fun r => s_exp_src r j) = map (E_exp_j data lm cr j) (seq 0 n)
               /\ a_exp_src x j = an n (E_exp_j data lm cr j)) /\
    a_exp x = E_exp_an data lm n cr.

  Lemma flows_refine_proof : flows_refine.
  Proof.
    assert (Hexp : forall t, s_exp (col_at l t, step_out (cx_prio x) lm (col_at l t)) = E_exp data lm cr t).
    { intros t. unfold s_exp, E_exp, s_p. cbn [fst]. now rewrite col_p, used_spec. }
    assert (Hne : forall t, s_exp_ne (col_at l t, step_out (cx_prio x) lm (col_at l t)) = E_exp_nEPus data lm cr t).
    { intros t. unfold s_exp_ne, E_exp_nEPus, s_ne. cbn [fst]. now rewrite Hexp, col_ne. }
    assert (Hgr : forall t, s_exp_grid (col_at l t, step_out (cx_prio x) lm (col_at l t)) = E_exp_grid data lm cr t).
    { intros t. unfold s_exp_grid, E_exp_grid. now rewrite Hexp, Hne. }
    unfold flows_refine. repeat split; try (intros s Hs); try (intros j).
    all: try (apply vec_spec; intros t).
    - apply col_u. - apply col_u.
    - unfold s_srv. cbn [fst]. now apply col_srv. - unfold s_srv. cbn [fst]. now apply col_srv.
    - apply col_ne. - apply col_ne. - apply col_cg. - apply col_cg.
    - unfold s_psrc. cbn [fst]. apply col_src. - unfold s_psrc. cbn [fst]. apply col_src.
    - apply col_p. - apply col_p.
    - unfold s_f, step_out. cbn [snd so_f]. apply fmatch_spec_eq.
    - apply used_src_spec. - apply used_src_spec.
    - apply used_spec. - apply used_spec.
    - apply Hexp.
    - apply Hne. - apply Hne. - apply Hgr. - apply Hgr.
    - unfold s_del_grid, E_del_grid, s_u. cbn [fst]. now rewrite col_u, used_spec.
    - unfold s_del_grid, E_del_grid, s_u. cbn [fst]. now rewrite col_u, used_spec.
    - unfold s_del_onst, del_onst, E_del_onsite. cbn [fst]. rewrite <- !col_src. reflexivity.
    - unfold s_del_onst, del_onst, E_del_onsite. cbn [fst]. rewrite <- !col_src. reflexivity.
    - unfold s_exp_src, E_exp_j, s_psrc. cbn [fst]. now rewrite col_src, used_src_spec.
    - unfold s_exp_src, E_exp_j, s_psrc. cbn [fst]. now rewrite col_src, used_src_spec.
    - unfold a_exp, E_exp_an, a_exp_ne, a_exp_grid.
      destruct (vec_spec s_exp_ne _ Hne) as [_ ->]. destruct (vec_spec s_exp_grid _ Hgr) as [_ ->]. reflexivity.
  Qed.
End Flows.

(** ** Weighted energy *)
Section Weighted.
  Variables (data : list Energy) (lm : bool) (cr : Carrier) (fs : list Factor) (k : Qc).
  Let x := mk_ctx cr lm data.
  Let n := num_steps_of (filter (has_carrier cr) data).
  Let lkf := look fs.

  Lemma findf_lk c s d st v : findf fs c s d st = Ok v -> lk lkf c s d st = v.
  Proof. unfold findf, lk, lkf. destruct (look fs c s d st); [intros H; now injection H|discriminate]. Qed.

  Lemma cx_cr_x : cx_cr x = cr. Proof. reflexivity. Qed.

  Lemma f_exp_mean_spec ea dest step js r :
    f_exp_mean fs x ea dest step js = Ok r ->
    r = rsum (map (fun j => rscale (a_exp_src x j / ea) (lk lkf cr (ps_source j) dest step)) js).
  Proof.
    revert r. induction js as [|j js IH]; cbn [f_exp_mean map]; intros r H.
    - now injection H as <-.
    - rewrite cx_cr_x in H. destruct (findf fs cr (ps_source j) dest step) as [f|] eqn:F; cbn [bind] in H; [|discriminate].
      destruct (f_exp_mean fs x ea dest step js) as [r'|] eqn:R; cbn [bind] in H; [|discriminate].
      injection H as <-. rewrite rsum_cons, (IH r' eq_refl), (findf_lk _ _ _ _ _ F). reflexivity.
  Qed.

  Lemma srcs_present_spec : srcs_present x = filter (declared data cr) all_prodsources.
  Proof.
    unfold srcs_present, x, mk_ctx. cbn [cx_srcs]. apply filter_ext'. intros j. unfold declared.
    apply existsb_filter.
  Qed.

  Lemma weighted_refines p : weighted_parts fs x = Ok p ->
    let w := we_of_parts k p in
    we_del w = W_del data lkf lm n cr /\
    we_exp_a w = W_exp_A data lkf lm n cr /\
    we_exp_ab w = W_exp_AB data lkf lm n cr /\
    we_a w = E_we_A data lkf lm n cr /\
    we_b w = E_we_B data lkf k lm n cr.
  Proof.
    destruct (flows_refine_proof data lm cr) as
      (_ & _ & _ & (_ & Hcg) & _ & _ & _ & _ & _ & _ & (_ & Hne) & (_ & Hgr) & (_ & Hdg) & (_ & Hon) & Hsrc & Hea).
    fold x in Hcg, Hne, Hgr, Hdg, Hon, Hsrc, Hea. fold n in Hcg, Hne, Hgr, Hdg, Hon, Hsrc, Hea.
    unfold weighted_parts. rewrite cx_cr_x. intros H.
    destruct (findf fs cr RED SUMINISTRO STEP_A) as [g|] eqn:G; cbn [bind] in H; [|discriminate].
    assert (Wd : forall wo, (if qeqb (a_del_onst x) 0 then Ok rnc0 else
                 do fo <- findf fs cr INSITU SUMINISTRO STEP_A; Ok (rscale (a_del_onst x) fo)) = Ok wo ->
             radd (radd (rscale (a_del_grid x) g) wo) (if qeqb (a_cgnus x) 0 then rnc0 else rscale (a_cgnus x) g)
             = W_del data lkf lm n cr).
    { intros wo Hwo. unfold W_del. rewrite <- Hdg, <- Hon, <- Hcg, (findf_lk _ _ _ _ _ G).
      destruct (qeqb (a_del_onst x) 0).
      - now injection Hwo as <-.
      - destruct (findf fs cr INSITU SUMINISTRO STEP_A) as [fo|] eqn:FO; cbn [bind] in Hwo; [|discriminate].
        injection Hwo as <-. now rewrite (findf_lk _ _ _ _ _ FO). }
    destruct (if qeqb (a_del_onst x) 0 then _ else _) as [wo|] eqn:WO; cbn [bind] in H; [|discriminate].
    specialize (Wd wo eq_refl).
    unfold E_we_A, E_we_B, W_exp_A, W_exp_AB. rewrite <- Hea. unfold a_exp.
    destruct (qeqb (a_exp_ne x + a_exp_grid x) 0) eqn:EA.
    - injection H as <-. cbv zeta. unfold we_of_parts. cbn [we_del we_exp_a we_exp_ab we_a we_b wp_grid wp_onst wp_cgn wp_xa_ne wp_xa_gr wp_xab_ne wp_xab_gr]. rewrite <- Wd. repeat split; rnc.
    - set (ea := a_exp_ne x + a_exp_grid x) in *.
      assert (FM : forall dest step amount r,
                 (if qeqb amount 0 then Ok rnc0 else f_exp_mean fs x ea dest step (srcs_present x)) = Ok r ->
                 r = fx data lkf lm n cr dest step amount).
      { intros dest step amount r Hr. unfold fx. destruct (qeqb amount 0); [now injection Hr|].
        apply f_exp_mean_spec in Hr. rewrite Hr. unfold f_exp. rewrite srcs_present_spec.
        apply rsum_map_ext. intros j _. destruct (Hsrc j) as [_ ->]. rewrite <- Hea. reflexivity. }
      destruct (if qeqb (a_exp_ne x) 0 then _ else _) as [fa_ne|] eqn:F1; cbn [bind] in H; [|discriminate].
      destruct (if qeqb (a_exp_grid x) 0 then _ else _) as [fa_gr|] eqn:F2; cbn [bind] in H; [|discriminate].
      destruct (if qeqb (a_exp_ne x) 0 then Ok rnc0 else f_exp_mean fs x ea A_NEPB STEP_B (srcs_present x)) as [fb_ne|] eqn:F3; cbn [bind] in H; [|discriminate].
      destruct (if qeqb (a_exp_grid x) 0 then Ok rnc0 else f_exp_mean fs x ea A_RED STEP_B (srcs_present x)) as [fb_gr|] eqn:F4; cbn [bind] in H; [|discriminate].
      injection H as <-.
      apply FM in F1, F2, F3, F4. subst fa_ne fa_gr fb_ne fb_gr.
      cbv zeta. unfold we_of_parts. cbn [we_del we_exp_a we_exp_ab we_a we_b wp_grid wp_onst wp_cgn wp_xa_ne wp_xa_gr wp_xab_ne wp_xab_gr]. rewrite <- Wd, <- Hne, <- Hgr. repeat split; rnc.
  Qed.

  Lemma srv_share_spec s : srv_is_epb s = true -> f_us_an x s = srv_share data n cr s.
  Proof.
    intros Hs. destruct (flows_refine_proof data lm cr) as ((_ & Hu) & Hsrv & _).
    destruct (Hsrv s Hs) as [_ Hss]. fold x in Hu, Hss. fold n in Hu, Hss.
    unfold f_us_an, srv_share. now rewrite Hu, Hss.
  Qed.
End Weighted.

(** ** Cogenerated electricity factor *)
Lemma cgn_sum_spec fs data n crs r :
  cgn_sum fs data n false crs = Ok r ->
  r = rsum (map (fun cr => rscale (cgn_ratio data cr n) (lk (look fs) cr RED SUMINISTRO STEP_A)) crs).
Proof.
  revert r. induction crs as [|cr crs IH]; cbn [cgn_sum map andb]; intros r H.
  - now injection H as <-.
  - destruct (findf fs cr RED SUMINISTRO STEP_A) as [f|] eqn:F; cbn [bind] in H; [|discriminate].
    destruct (cgn_sum fs data n false crs) as [r'|]; cbn [bind] in H; [|discriminate].
    injection H as <-. rewrite rsum_cons, (IH r' eq_refl), (findf_lk fs _ _ _ _ _ F). reflexivity.
Qed.

Lemma cgn_factor_refines fs data r :
  compute_cgn_exp_fP_A fs data false = Ok (Some r) ->
  r = spec_cgn_factor data (look fs) (cgn_num_steps data).
Proof.
  unfold compute_cgn_exp_fP_A. destruct (cgn_num_steps data) as [|m] eqn:N; [discriminate|].
  destruct (cgn_fuel_carriers data) as [|c cs] eqn:C; [discriminate|].
  destruct (cgn_sum fs data (S m) false (c :: cs)) as [r'|] eqn:S; cbn [bind]; [|discriminate].
  intros H. injection H as <-. apply cgn_sum_spec in S. rewrite S.
  unfold spec_cgn_factor. unfold cgn_fuel_carriers in C. rewrite C.
  apply rsum_map_ext. intros cr _. reflexivity.
Qed.
