(** * Closed form of the weighted energy of a carrier under regular factor sets (C13, C14)

    "Regular": the step A export factors of a source equal its supply factor whatever the
    destination, and the step B export factors equal the carrier's grid supply factor — what
    Factors::normalize produces by default and what add_cgn_factors appends for cogeneration. *)
From Cteepbd Require Import Model.Factors Proofs.StepFacts Proofs.ColFacts Proofs.EpFacts Proofs.Breakdown
  Proofs.FactorFacts Proofs.NeededKeys Proofs.CtxFacts.
Open Scope Qc_scope.

(** factor of source [j] (step A, any destination) and of the grid for a carrier *)
Record regular (fs : list Factor) (cr : Carrier) (srcs : list ProdSource) (g : RNC) (fsrc : ProdSource -> RNC) : Prop := {
  rg_grid : lookk fs (cr, RED, SUMINISTRO, STEP_A) = Some g;
  rg_sup : forall j, ps_carrier j = cr -> ps_source j = INSITU -> In j srcs -> lookk fs (cr, INSITU, SUMINISTRO, STEP_A) = Some (fsrc j);
  rg_a : forall j dest, In j srcs -> dest <> SUMINISTRO -> lookk fs (cr, ps_source j, dest, STEP_A) = Some (fsrc j);
  rg_b : forall j dest, In j srcs -> dest <> SUMINISTRO -> lookk fs (cr, ps_source j, dest, STEP_B) = Some g
}.

Lemma rsum_map_scale_l {A} (f : A -> Qc) (r : A -> RNC) c l :
  rscale c (rsum (map (fun a => rscale (f a) (r a)) l)) = rsum (map (fun a => rscale (c * f a) (r a)) l).
Proof. induction l as [|a l IH]; cbn [map]; rewrite ?rsum_cons, ?rsum_nil; [rnc|]. rewrite <- IH. rnc. Qed.

Lemma rsum_map_radd {A} (f g : A -> RNC) l : radd (rsum (map f l)) (rsum (map g l)) = rsum (map (fun a => radd (f a) (g a)) l).
Proof. induction l as [|a l IH]; cbn [map]; rewrite ?rsum_cons, ?rsum_nil; [rnc|]. rewrite <- IH. rnc. Qed.

Section Closed.
  Variables (fs : list Factor) (cr : Carrier) (lm : bool) (data : list Energy) (g : RNC) (fsrc : ProdSource -> RNC).
  Hypothesis Hreg : regular fs cr (cx_srcs (mk_ctx cr lm data)) g fsrc.
  Let x := mk_ctx cr lm data.

  Lemma f_exp_mean_regular ea dest step js : dest <> SUMINISTRO -> (forall j, In j js -> In j (cx_srcs x)) ->
    f_exp_mean fs x ea dest step js =
    Ok (rsum (map (fun j => rscale (a_exp_src x j / ea) (match step with STEP_A => fsrc j | STEP_B => g end)) js)).
  Proof.
    intros Hd. induction js as [|j js IH]; intros Hj; cbn [f_exp_mean map]; [reflexivity|].
    rewrite findf_lookk. change (cx_cr x) with cr.
    assert (L : lookk fs (cr, ps_source j, dest, step) = Some (match step with STEP_A => fsrc j | STEP_B => g end)).
    { destruct step; [apply (rg_a _ _ _ _ _ Hreg)|apply (rg_b _ _ _ _ _ Hreg)]; auto; apply Hj; now left. }
    rewrite L. cbn [bind]. rewrite IH by (intros; apply Hj; now right). cbn [bind]. now rewrite rsum_cons.
  Qed.

  (** sum over the declared sources of the exported energy weighted by the source factor *)
  Definition xa_closed : RNC := rsum (map (fun j => rscale (a_exp_src x j) (fsrc j)) (cx_srcs x)).
  Definition exp_src_total : Qc := qsum (map (a_exp_src x) (cx_srcs x)).

  Lemma weighted_regular :
    (qeqb (a_del_onst x) 0 = false -> forall j, ps_carrier j = cr -> ps_source j = INSITU -> In j (cx_srcs x)) ->
    (qeqb (a_del_onst x) 0 = false -> exists j, ps_carrier j = cr /\ ps_source j = INSITU) ->
    exists w_onst,
      (w_onst = if qeqb (a_del_onst x) 0 then rnc0 else
                rscale (a_del_onst x) (match find (fun j => Carrier_beq (ps_carrier j) cr && Source_beq (ps_source j) INSITU) all_prodsources with
                                       | Some j => fsrc j | None => rnc0 end)) /\
      weighted_parts fs x =
      Ok (let ea := a_exp_ne x + a_exp_grid x in
          if qeqb ea 0 then mkWParts (rscale (a_del_grid x) g) w_onst (if qeqb (a_cgnus x) 0 then rnc0 else rscale (a_cgnus x) g) rnc0 rnc0 rnc0 rnc0
          else
            let fa := rsum (map (fun j => rscale (a_exp_src x j / ea) (fsrc j)) (cx_srcs x)) in
            let fb := rsum (map (fun j => rscale (a_exp_src x j / ea) g) (cx_srcs x)) in
            let fne (v : RNC) := if qeqb (a_exp_ne x) 0 then rnc0 else v in
            let fgr (v : RNC) := if qeqb (a_exp_grid x) 0 then rnc0 else v in
            mkWParts (rscale (a_del_grid x) g) w_onst (if qeqb (a_cgnus x) 0 then rnc0 else rscale (a_cgnus x) g)
              (rscale (a_exp_ne x) (fne fa)) (rscale (a_exp_grid x) (fgr fa))
              (rscale (a_exp_ne x) (rsub (fne fb) (fne fa))) (rscale (a_exp_grid x) (rsub (fgr fb) (fgr fa)))).
  Proof.
    intros Hdecl Hon. eexists. split; [reflexivity|].
    unfold weighted_parts. cbv zeta. change (cx_cr x) with cr.
    rewrite (findf_lookk fs cr RED), (rg_grid _ _ _ _ _ Hreg). cbn [bind].
    assert (Won : (if qeqb (a_del_onst x) 0 then Ok rnc0 else do fo <- findf fs cr INSITU SUMINISTRO STEP_A; Ok (rscale (a_del_onst x) fo))
                = Ok (if qeqb (a_del_onst x) 0 then rnc0 else
                      rscale (a_del_onst x) (match find (fun j => Carrier_beq (ps_carrier j) cr && Source_beq (ps_source j) INSITU) all_prodsources with
                                             | Some j => fsrc j | None => rnc0 end))).
    { destruct (qeqb (a_del_onst x) 0) eqn:D; [reflexivity|]. destruct (Hon eq_refl) as (j & Hc & Hs).
      rewrite findf_lookk.
      destruct (find (fun j => Carrier_beq (ps_carrier j) cr && Source_beq (ps_source j) INSITU) all_prodsources) as [j'|] eqn:F.
      - apply find_some in F as [_ F]. apply andb_true_iff in F as [F1 F2]. apply Carrier_beq_eq in F1. apply Source_beq_eq in F2.
        rewrite (rg_sup _ _ _ _ _ Hreg j' F1 F2 (Hdecl eq_refl j' F1 F2)). reflexivity.
      - exfalso. eapply find_none in F; [|apply (all_prodsources_complete j)]. rewrite Hc, Hs in F.
        rewrite (proj2 (Carrier_beq_eq cr cr) eq_refl) in F. discriminate. }
    rewrite Won. cbn [bind].
    destruct (qeqb (a_exp_ne x + a_exp_grid x) 0) eqn:EA; [reflexivity|].
    assert (Hsrc : forall j, In j (srcs_present x) -> In j (cx_srcs x)) by (intros j Hj; exact Hj).
    rewrite !f_exp_mean_regular by (try discriminate; exact Hsrc).
    unfold srcs_present.
    destruct (qeqb (a_exp_ne x) 0), (qeqb (a_exp_grid x) 0); cbn [bind]; reflexivity.
  Qed.
End Closed.

(** ** Consequences: step A and step B weighted energy of a carrier *)
Section Closed2.
  Variables (fs : list Factor) (cr : Carrier) (lm : bool) (data : list Energy) (g : RNC) (fsrc : ProdSource -> RNC).
  Hypothesis Hreg : regular fs cr (cx_srcs (mk_ctx cr lm data)) g fsrc.
  Hypothesis Hn : nonneg_data data.
  Hypothesis Hd : dom_data data.
  Let x := mk_ctx cr lm data.

  (** the exports of the declared sources add up to the export of the carrier *)
  Lemma exp_src_sum4 :
    a_exp_src x EL_INSITU + a_exp_src x EL_COGEN + a_exp_src x PS_TERMOSOLAR + a_exp_src x PS_EAMBIENTE
    = a_exp_ne x + a_exp_grid x.
  Proof.
    unfold a_exp_src, a_exp_ne, a_exp_grid. rewrite <- !ann_add. apply ann_ext. intros s Hs.
    pose proof Hs as Hs'. apply steps_inv in Hs' as (t & ->).
    pose proof (used_src_sum (cx_prio (mk_ctx cr lm data)) lm _ (col_at_ok cr data t Hn) (col_at_dom cr data t Hd)) as U.
    unfold s_exp_src, s_exp_grid, s_exp, s_psrc, s_p, c_p in *. cbn [fst c_src] in *.
    rewrite <- U. ring.
  Qed.

  Lemma absent_exp_zero j : ~ In j (cx_srcs x) -> a_exp_src x j = 0.
  Proof.
    intros N. assert (H : has_src x j = false).
    { unfold has_src. apply not_true_is_false. intros E. apply existsb_exists in E as (j' & Hj' & B).
      apply ProdSource_beq_eq in B. subst j'. contradiction. }
    destruct (absent_src_zero cr lm data j H) as (A & B & _).
    unfold a_exp_src, a_prod_src, a_used_src in *. unfold x.
    transitivity (ann (mk_ctx cr lm data) (fun s => s_psrc s j) - ann (mk_ctx cr lm data) (fun s => s_used_src s j)).
    - unfold ann, vec. rewrite <- qsum_map_sub. reflexivity.
    - rewrite A, B. ring.
  Qed.

  (** sum over the declared sources = sum over all four sources (absent ones export nothing) *)
  Lemma srcs_sum (h : ProdSource -> RNC) :
    rsum (map (fun j => rscale (a_exp_src x j) (h j)) (cx_srcs x))
    = rsum (map (fun j => rscale (a_exp_src x j) (h j)) all_prodsources).
  Proof.
    assert (E : cx_srcs x = filter (fun j => existsb (is_prod_src j) (filter (has_carrier cr) data)) all_prodsources) by reflexivity.
    rewrite E. set (p := fun j => existsb (is_prod_src j) (filter (has_carrier cr) data)).
    assert (Z : forall j, p j = false -> rscale (a_exp_src x j) (h j) = rnc0).
    { intros j Hj. rewrite absent_exp_zero; [rnc|]. rewrite E. rewrite filter_In. intros [_ E']. unfold p in Hj. rewrite Hj in E'. discriminate. }
    clear E. induction all_prodsources as [|j l IH]; [reflexivity|]. cbn [filter map].
    destruct (p j) eqn:E; cbn [map]; rewrite ?rsum_cons, IH; [reflexivity|]. rewrite (Z j E). rnc.
  Qed.

  Lemma exp_src_nonneg j : 0 <= a_exp_src x j.
  Proof.
    unfold a_exp_src. apply ann_nonneg. intros s Hs. apply steps_inv in Hs as (t & ->).
    destruct (used_src_bounds (cx_prio (mk_ctx cr lm data)) lm _ (col_at_ok cr data t Hn) j) as [B0 B1].
    unfold s_exp_src. revert B1. generalize (s_used_src (col_at (filter (has_carrier cr) data) t, step_out (cx_prio (mk_ctx cr lm data)) lm (col_at (filter (has_carrier cr) data) t)) j)
      (s_psrc (col_at (filter (has_carrier cr) data) t, step_out (cx_prio (mk_ctx cr lm data)) lm (col_at (filter (has_carrier cr) data) t)) j).
    intros a b H. qlra.
  Qed.

  (** X_A = sum_j exp_j f_j and X_AB = exp g - X_A *)
  Definition XA : RNC := rsum (map (fun j => rscale (a_exp_src x j) (fsrc j)) all_prodsources).
  Definition w_onst_closed : RNC :=
    if qeqb (a_del_onst x) 0 then rnc0 else
    rscale (a_del_onst x) (match find (fun j => Carrier_beq (ps_carrier j) cr && Source_beq (ps_source j) INSITU) all_prodsources with
                           | Some j => fsrc j | None => rnc0 end).
  Definition Wdel : RNC :=
    radd (radd (rscale (a_del_grid x) g) w_onst_closed) (if qeqb (a_cgnus x) 0 then rnc0 else rscale (a_cgnus x) g).

  Lemma weighted_closed k :
    (qeqb (a_del_onst x) 0 = false -> forall j, ps_carrier j = cr -> ps_source j = INSITU -> In j (cx_srcs x)) ->
    (qeqb (a_del_onst x) 0 = false -> exists j, ps_carrier j = cr /\ ps_source j = INSITU) ->
    exists p, weighted_parts fs x = Ok p /\
      we_del (we_of_parts k p) = Wdel /\
      we_a (we_of_parts k p) = rsub Wdel XA /\
      we_b (we_of_parts k p) = rsub (rsub Wdel XA) (rscale k (rsub (rscale (a_exp_ne x + a_exp_grid x) g) XA)).
  Proof.
    intros Hdecl Hon. destruct (weighted_regular fs cr lm data g fsrc Hreg Hdecl Hon) as (wo & Ewo & W).
    fold x in Ewo, W. rewrite W. eexists. split; [reflexivity|].
    cbv zeta. set (ea := a_exp_ne x + a_exp_grid x).
    assert (Hwo : wo = w_onst_closed) by (rewrite Ewo; reflexivity).
    destruct (qeqb_spec ea 0) as [Z|NZ].
    - (* no export: every source exports nothing *)
      assert (Zs : forall j, a_exp_src x j = 0).
      { intros j. pose proof exp_src_sum4 as S. fold ea in S. rewrite Z in S.
        pose proof (exp_src_nonneg EL_INSITU). pose proof (exp_src_nonneg EL_COGEN).
        pose proof (exp_src_nonneg PS_TERMOSOLAR). pose proof (exp_src_nonneg PS_EAMBIENTE).
        destruct j; revert S H H0 H1 H2;
          generalize (a_exp_src x EL_INSITU) (a_exp_src x EL_COGEN) (a_exp_src x PS_TERMOSOLAR) (a_exp_src x PS_EAMBIENTE);
          intros a b c d S A B C D; qlra. }
      assert (X0 : XA = rnc0).
      { unfold XA. cbn [map all_prodsources]. rewrite !rsum_cons, rsum_nil, !Zs. rnc. }
      unfold we_of_parts. cbn [we_del we_a we_b wp_grid wp_onst wp_cgn wp_xa_ne wp_xa_gr wp_xab_ne wp_xab_gr].
      unfold Wdel. rewrite X0, Z, Hwo. repeat split; rnc.
    - set (fa := rsum (map (fun j => rscale (a_exp_src x j / ea) (fsrc j)) (cx_srcs x))).
      set (fb := rsum (map (fun j => rscale (a_exp_src x j / ea) g) (cx_srcs x))).
      assert (FA : rscale ea fa = XA).
      { unfold fa, XA. rewrite rsum_map_scale_l. rewrite <- srcs_sum. apply rsum_map_ext. intros j _.
        replace (ea * (a_exp_src x j / ea)) with (a_exp_src x j) by (field; exact NZ). reflexivity. }
      assert (FB : rscale ea fb = rscale ea g).
      { unfold fb. rewrite rsum_map_scale_l.
        transitivity (rsum (map (fun j => rscale (a_exp_src x j) g) (cx_srcs x))).
        - apply rsum_map_ext. intros j _. replace (ea * (a_exp_src x j / ea)) with (a_exp_src x j) by (field; exact NZ). reflexivity.
        - rewrite (srcs_sum (fun _ => g)). cbn [map all_prodsources]. rewrite !rsum_cons, rsum_nil.
          pose proof exp_src_sum4 as S. fold ea in S. rewrite <- S. rnc. }
      (* ene*fne(v) + egr*fgr(v) = ea*v *)
      assert (Split : forall v, radd (rscale (a_exp_ne x) (if qeqb (a_exp_ne x) 0 then rnc0 else v))
                                     (rscale (a_exp_grid x) (if qeqb (a_exp_grid x) 0 then rnc0 else v)) = rscale ea v).
      { intros v. unfold ea. destruct (qeqb_spec (a_exp_ne x) 0) as [E1|E1]; destruct (qeqb_spec (a_exp_grid x) 0) as [E2|E2];
          rewrite ?E1, ?E2; rnc. }
      unfold we_of_parts. cbn [we_del we_a we_b wp_grid wp_onst wp_cgn wp_xa_ne wp_xa_gr wp_xab_ne wp_xab_gr].
      assert (XAeq : radd (rscale (a_exp_ne x) (if qeqb (a_exp_ne x) 0 then rnc0 else fa))
                          (rscale (a_exp_grid x) (if qeqb (a_exp_grid x) 0 then rnc0 else fa)) = XA) by (rewrite Split; exact FA).
      assert (XBeq : radd (rscale (a_exp_ne x) (if qeqb (a_exp_ne x) 0 then rnc0 else fb))
                          (rscale (a_exp_grid x) (if qeqb (a_exp_grid x) 0 then rnc0 else fb)) = rscale ea g) by (rewrite Split; exact FB).
      unfold Wdel. rewrite Hwo. repeat split.
      + rewrite <- XAeq. rnc.
      + rewrite <- XAeq at 1. rewrite <- XAeq at 1.
        transitivity (rsub (rsub (radd (radd (rscale (a_del_grid x) g) w_onst_closed) (if qeqb (a_cgnus x) 0 then rnc0 else rscale (a_cgnus x) g))
                                 (radd (rscale (a_exp_ne x) (if qeqb (a_exp_ne x) 0 then rnc0 else fa)) (rscale (a_exp_grid x) (if qeqb (a_exp_grid x) 0 then rnc0 else fa))))
                           (rscale k (rsub (radd (rscale (a_exp_ne x) (if qeqb (a_exp_ne x) 0 then rnc0 else fb)) (rscale (a_exp_grid x) (if qeqb (a_exp_grid x) 0 then rnc0 else fb)))
                                           (radd (rscale (a_exp_ne x) (if qeqb (a_exp_ne x) 0 then rnc0 else fa)) (rscale (a_exp_grid x) (if qeqb (a_exp_grid x) 0 then rnc0 else fa)))))).
        * rnc.
        * rewrite XBeq, XAeq. reflexivity.
  Qed.
End Closed2.
