(** * Homogeneity of the step functions (C09, C11) *)
From Cteepbd Require Import Model.Balance Proofs.StepFacts Proofs.ColFacts Proofs.EpFacts.
Open Scope Qc_scope.

Definition cscale (k : Qc) (c : Col) : Col :=
  mkCol (k * c_acs c) (k * c_cal c) (k * c_ref c) (k * c_ven c) (k * c_ilu c) (k * c_u c) (k * c_ne c) (k * c_cg c)
        (k * c_pv c) (k * c_chp c) (k * c_ts c) (k * c_ea c).

Definition so_scale (k : Qc) (o : SO) : SO :=
  mkSO (so_f o) (k * so_upv o) (k * so_uchp o) (k * so_uts o) (k * so_uea o) (k * so_used o).

Definition sscale (k : Qc) (s : StepR) : StepR := (cscale k (fst s), so_scale k (snd s)).

Lemma c_p_scale k c : c_p (cscale k c) = k * c_p c.
Proof. unfold c_p. cbn. ring. Qed.
Lemma c_src_scale k c j : c_src (cscale k c) j = k * c_src c j.
Proof. destruct j; reflexivity. Qed.
Lemma c_srv_scale k c v : c_srv (cscale k c) v = k * c_srv c v.
Proof. destruct v; cbn; try reflexivity; ring. Qed.

Lemma pos_scale k x : 0 < k -> (0 < k * x <-> 0 < x).
Proof. intros K. split; intros H; toQ; absQ; cbn in *; nra. Qed.

Lemma qltb_scale k x : 0 < k -> qltb 0 (k * x) = qltb 0 x.
Proof.
  intros K. destruct (qltb_spec 0 (k * x)) as [A|A], (qltb_spec 0 x) as [B|B]; try reflexivity.
  - exfalso. apply B. now apply (pos_scale k x K).
  - exfalso. apply A. now apply (pos_scale k x K).
Qed.

Lemma div_scale k a b : k <> 0 -> (k * a) / (k * b) = a / b.
Proof.
  intros K. destruct (Qc_eq_dec b 0) as [->|B].
  - replace (k * 0) with 0 by ring. unfold Qcdiv. assert (Z : / 0 = 0) by (apply Qc_is_canon; reflexivity). rewrite Z. ring.
  - field. split; assumption.
Qed.

Lemma fmatch_scale lm k c : 0 < k -> fmatch lm (cscale k c) = fmatch lm c.
Proof.
  intros K. unfold fmatch. destruct lm; [|reflexivity]. rewrite c_p_scale. cbn [c_u cscale].
  rewrite qltb_scale by assumption. destruct (qltb 0 (c_u c)); [|reflexivity].
  rewrite div_scale; [reflexivity|]. intro Z. rewrite Z in K. qlra.
Qed.

Lemma guard_scale k c : 0 < k -> col_dom c -> col_dom (cscale k c) ->
  (if qltb 0 (c_p (cscale k c)) then true else false) = (if qltb 0 (c_p c) then true else false).
Proof.
  intros K [Z|G] [Z'|G']; rewrite c_p_scale in *.
  - rewrite Z. replace (k * 0) with 0 by ring. reflexivity.
  - rewrite Z in G'. replace (k * 0) with 0 in G' by ring. exfalso. qlra.
  - assert (c_p c = 0). { destruct (Qcmult_integral _ _ Z') as [E|E]; [rewrite E in K; exfalso; qlra|exact E]. }
    rewrite H in G. exfalso. qlra.
  - destruct (qltb_spec 0 (k * c_p c)) as [A|A], (qltb_spec 0 (c_p c)) as [B|B]; try reflexivity; exfalso.
    + apply B. revert G. generalize (c_p c). intros x G. qlra.
    + apply A. revert G'. generalize (k * c_p c). intros x G'. qlra.
Qed.

Section Scale.
  Variables (k : Qc) (lm : bool) (c : Col).
  Hypothesis K : 0 < k.
  Hypothesis D : col_dom c.
  Hypothesis D' : col_dom (cscale k c).

  Lemma k_nonneg : 0 <= k. Proof. revert K. generalize k. intros. qlra. Qed.
  Lemma k_nz : k <> 0. Proof. intro Z. rewrite Z in K. qlra. Qed.

  Lemma used_src_f_scale pr f j : used_src_f f pr (cscale k c) j = k * used_src_f f pr c j.
  Proof.
    unfold used_src_f. destruct pr.
    - destruct j; cbn [cscale c_pv c_chp c_u]; try ring.
      + rewrite qmin_scale by apply k_nonneg. ring.
      + rewrite qmin_scale by apply k_nonneg.
        replace (k * c_u c - k * qmin (c_pv c) (c_u c)) with (k * (c_u c - qmin (c_pv c) (c_u c))) by ring.
        rewrite qmin_scale by apply k_nonneg. ring.
    - pose proof (guard_scale k c K D D') as G. rewrite c_p_scale, c_src_scale in *. cbn [c_u cscale].
      rewrite qmin_scale by apply k_nonneg.
      destruct (qltb 0 (k * c_p c)), (qltb 0 (c_p c)); try discriminate.
      + rewrite div_scale by apply k_nz. ring.
      + ring.
  Qed.

  Lemma used_tot_f_scale pr f : used_tot_f f pr (cscale k c) = k * used_tot_f f pr c.
  Proof.
    unfold used_tot_f. destruct pr.
    - rewrite !used_src_f_scale. ring.
    - rewrite c_p_scale. cbn [c_u cscale]. rewrite qmin_scale by apply k_nonneg. ring.
  Qed.

  Lemma step_out_scale pr : step_out pr lm (cscale k c) = so_scale k (step_out pr lm c).
  Proof.
    unfold step_out, so_scale. rewrite fmatch_scale by assumption. cbn [so_f so_upv so_uchp so_uts so_uea so_used].
    now rewrite !used_src_f_scale, used_tot_f_scale.
  Qed.

  (** every reported per-step quantity scales (the matching factor and the service shares are unchanged) *)
  Lemma step_scaled pr : (cscale k c, step_out pr lm (cscale k c)) = sscale k (c, step_out pr lm c).
  Proof. unfold sscale. cbn [fst snd]. now rewrite step_out_scale. Qed.
End Scale.

(** projections of a scaled step *)
Section Proj.
  Variables (k : Qc) (s : StepR).
  Hypothesis K : 0 < k.

  Lemma s_u_scale : s_u (sscale k s) = k * s_u s. Proof. reflexivity. Qed.
  Lemma s_srv_scale v : s_srv (sscale k s) v = k * s_srv s v. Proof. unfold s_srv. cbn [fst sscale]. apply c_srv_scale. Qed.
  Lemma s_ne_scale : s_ne (sscale k s) = k * s_ne s. Proof. reflexivity. Qed.
  Lemma s_cg_scale : s_cg (sscale k s) = k * s_cg s. Proof. reflexivity. Qed.
  Lemma s_p_scale : s_p (sscale k s) = k * s_p s. Proof. unfold s_p. cbn [fst sscale]. apply c_p_scale. Qed.
  Lemma s_psrc_scale j : s_psrc (sscale k s) j = k * s_psrc s j. Proof. unfold s_psrc. cbn [fst sscale]. apply c_src_scale. Qed.
  Lemma s_f_scale : s_f (sscale k s) = s_f s. Proof. reflexivity. Qed.
  Lemma s_used_scale : s_used (sscale k s) = k * s_used s. Proof. reflexivity. Qed.
  Lemma s_used_src_scale j : s_used_src (sscale k s) j = k * s_used_src s j. Proof. destruct j; reflexivity. Qed.
  Lemma s_exp_scale : s_exp (sscale k s) = k * s_exp s.
  Proof. unfold s_exp. rewrite s_p_scale, s_used_scale. ring. Qed.
  Lemma s_exp_ne_scale : s_exp_ne (sscale k s) = k * s_exp_ne s.
  Proof. unfold s_exp_ne. rewrite s_exp_scale, s_ne_scale. apply qmin_scale. revert K. generalize k. intros. qlra. Qed.
  Lemma s_exp_grid_scale : s_exp_grid (sscale k s) = k * s_exp_grid s.
  Proof. unfold s_exp_grid. rewrite s_exp_scale, s_exp_ne_scale. ring. Qed.
  Lemma s_del_grid_scale : s_del_grid (sscale k s) = k * s_del_grid s.
  Proof. unfold s_del_grid. rewrite s_u_scale, s_used_scale. ring. Qed.
  Lemma s_del_onst_scale : s_del_onst (sscale k s) = k * s_del_onst s.
  Proof. unfold s_del_onst, del_onst. cbn. ring. Qed.
  Lemma s_exp_src_scale j : s_exp_src (sscale k s) j = k * s_exp_src s j.
  Proof. unfold s_exp_src. rewrite s_psrc_scale, s_used_src_scale. ring. Qed.
  Lemma f_us_scale v : f_us (cscale k (fst s)) v = f_us (fst s) v.
  Proof.
    unfold f_us. cbn [c_u cscale]. rewrite qltb_scale by assumption. destruct (qltb 0 (c_u (fst s))); [|reflexivity].
    rewrite c_srv_scale. apply div_scale. intro Z. rewrite Z in K. qlra.
  Qed.
  Lemma s_used_src_srv_scale j v : s_used_src_srv (sscale k s) j v = k * s_used_src_srv s j v.
  Proof. unfold s_used_src_srv. cbn [fst sscale]. rewrite f_us_scale, s_used_src_scale. ring. Qed.
End Proj.
