(** * More on-site electricity production, step by step (C14)

    [bump d c]: the column of a time step with [d] more on-site electricity production.  Without load matching,
    for every regime of the step (production below or above the use, cogeneration present or not, the priority
    branch taken or not) the step delivers no more grid electricity, exports no less (in total and from
    cogeneration), and uses no less on-site production. *)
From Cteepbd Require Import Model.Factors Proofs.StepFacts Proofs.ColFacts.
Open Scope Qc_scope.

Definition bump (d : Qc) (c : Col) : Col :=
  mkCol (c_acs c) (c_cal c) (c_ref c) (c_ven c) (c_ilu c) (c_u c) (c_ne c) (c_cg c) (c_pv c + d) (c_chp c) (c_ts c) (c_ea c).

(** a column of the electricity carrier: no thermal production *)
Definition el_col (c : Col) : Prop := c_ts c = 0 /\ c_ea c = 0.

Definition sr (pr : bool) (c : Col) : StepR := (c, step_out pr false c).

Lemma div_self (a : Qc) : a <> 0 -> a / a = 1.
Proof. intros H. field. exact H. Qed.

Section Step.
  Variables (c : Col) (d : Qc).
  Hypothesis Hok : col_ok c.
  Hypothesis Hel : el_col c.
  Hypothesis Hd : 0 <= d.
  Hypothesis Zpv : zg (c_pv c).
  Hypothesis Zchp : zg (c_chp c).
  Hypothesis Zd : zg d.

  Let c' := bump d c.

  (** both sources declared before and after: the priority branch on both sides *)
  Lemma step_prio :
    s_del_grid (sr true c') <= s_del_grid (sr true c)
    /\ s_exp (sr true c) <= s_exp (sr true c')
    /\ s_exp_src (sr true c) EL_COGEN <= s_exp_src (sr true c') EL_COGEN
    /\ s_used_src (sr true c) EL_INSITU <= s_used_src (sr true c') EL_INSITU.
  Proof.
    destruct Hok, Hel as [T E]. unfold s_del_grid, s_exp, s_exp_src, s_used_src, s_used, s_u, s_p, s_psrc, sr, c_p.
    cbn [fst snd step_out so_used so_src so_upv so_uchp used_tot_f used_src_f fmatch c' bump c_u c_pv c_chp c_ts c_ea c_src].
    rewrite T, E. destruct c; cbn in *. repeat split; qlra.
  Qed.

  (** no cogeneration declared: proportional branch on both sides, the only source is the on-site one *)
  Lemma step_pv_only : c_chp c = 0 ->
    s_del_grid (sr false c') <= s_del_grid (sr false c)
    /\ s_exp (sr false c) <= s_exp (sr false c')
    /\ s_exp_src (sr false c) EL_COGEN <= s_exp_src (sr false c') EL_COGEN
    /\ s_used_src (sr false c) EL_INSITU <= s_used_src (sr false c') EL_INSITU.
  Proof.
    intros C0. destruct Hok, Hel as [T E]. subst c'. destruct c as [a1 a2 a3 a4 a5 u ne cg pv chp ts ea]; cbn in * |-. subst.
    unfold s_del_grid, s_exp, s_exp_src, s_used_src, s_used, s_u, s_p, s_psrc, sr, bump.
    cbn [fst snd step_out so_used so_src so_upv so_uchp used_tot_f used_src_f fmatch c_u c_pv c_chp c_ts c_ea c_src].
    unfold c_p. cbn [c_pv c_chp c_ts c_ea].
    replace (pv + 0 + 0 + 0) with pv by ring. replace (pv + d + 0 + 0 + 0) with (pv + d) by ring.
    assert (Z0 : 0 / pv = 0) by (unfold Qcdiv; ring). assert (Z1 : 0 / (pv + d) = 0) by (unfold Qcdiv; ring).
    rewrite Z0, Z1.
    destruct (qltb_spec 0 pv) as [P|P]; destruct (qltb_spec 0 (pv + d)) as [P'|P'].
    - rewrite (div_self pv) by (intro; subst; qlra). rewrite (div_self (pv + d)) by (intro K; rewrite K in P'; qlra).
      repeat split; qlra.
    - exfalso. qlra.
    - rewrite (div_self (pv + d)) by (intro K; rewrite K in P'; qlra). repeat split; qlra.
    - repeat split; qlra.
  Qed.

  (** cogeneration declared, no on-site production declared before: proportional branch before (with no on-site
      production in the step), priority branch after *)
  Lemma step_new_pv : c_pv c = 0 ->
    s_del_grid (sr true c') <= s_del_grid (sr false c)
    /\ s_exp (sr false c) <= s_exp (sr true c')
    /\ s_exp_src (sr false c) EL_COGEN <= s_exp_src (sr true c') EL_COGEN
    /\ s_used_src (sr false c) EL_INSITU <= s_used_src (sr true c') EL_INSITU.
  Proof.
    intros P0. destruct Hok, Hel as [T E]. subst c'. destruct c as [a1 a2 a3 a4 a5 u ne cg pv chp ts ea]; cbn in * |-. subst.
    unfold s_del_grid, s_exp, s_exp_src, s_used_src, s_used, s_u, s_p, s_psrc, sr, bump.
    cbn [fst snd step_out so_used so_src so_upv so_uchp used_tot_f used_src_f fmatch c_u c_pv c_chp c_ts c_ea c_src].
    unfold c_p. cbn [c_pv c_chp c_ts c_ea].
    replace (0 + chp + 0 + 0) with chp by ring.
    assert (Z0 : 0 / chp = 0) by (unfold Qcdiv; ring). rewrite Z0.
    destruct Zchp as [->|G].
    - destruct (qltb_spec 0 0) as [P|P]; [exfalso; qlra|]. repeat split; qlra.
    - destruct (qltb_spec 0 chp) as [P|P]; [|exfalso; qlra].
      rewrite (div_self chp) by (intro; subst; qlra). repeat split; qlra.
  Qed.
End Step.

(** ** A whole year: the electricity carrier with one more on-site production component *)
From Cteepbd Require Import Proofs.Breakdown Proofs.CtxFacts Proofs.ClosedForm Proofs.RerFacts.

Lemma colsum_snoc p l e t : colsum p (l ++ [e]) t = colsum p l t + (if p e then val_at t e else 0).
Proof.
  unfold colsum. rewrite filter_app, map_app, qsum_app. cbn [filter]. destruct (p e); cbn [map]; qs; ring.
Qed.

Lemma le_of_diff (a b : Qc) : 0 <= b - a -> a <= b.
Proof. intros H. qlra. Qed.

(** the step B figure of a component (nren or co2) as a function of the annual quantities *)
Lemma mono_lin (dg dg' xc xc' ex ex' cg up up' xi xi' gn pn k : Qc) :
  dg' <= dg -> xc <= xc' -> ex <= ex' -> 0 <= gn -> 0 <= pn -> 0 <= k -> k <= 1 ->
  (dg' * gn + up' * 0 + cg * gn - xc' * pn) - k * (ex' * gn - (xi' * 0 + xc' * pn))
  <= (dg * gn + up * 0 + cg * gn - xc * pn) - k * (ex * gn - (xi * 0 + xc * pn)).
Proof.
  intros H1 H2 H3 G P K0 K1. apply le_of_diff.
  replace ((dg * gn + up * 0 + cg * gn - xc * pn) - k * (ex * gn - (xi * 0 + xc * pn))
           - ((dg' * gn + up' * 0 + cg * gn - xc' * pn) - k * (ex' * gn - (xi' * 0 + xc' * pn))))
    with ((dg - dg') * gn + (1 - k) * ((xc' - xc) * pn) + k * ((ex' - ex) * gn)) by ring.
  repeat apply Qc_le_0_add; repeat apply Qc_le_0_mul; try assumption; qlra.
Qed.

Section Annual.
  Variables (data : list Energy) (i : Z) (dv : list Qc) (cm : str).
  Let e := EProd i EL_INSITU dv cm.
  Let data' := data ++ [e].
  Let l := filter (has_carrier ELECTRICIDAD) data.
  Hypothesis Hn : nonneg_data data.
  Hypothesis Hd : dom_data data.
  Hypothesis Hdn : Forall (fun v => 0 <= v) dv.
  Hypothesis Hdz : Forall zg dv.
  Hypothesis Hne : l <> [].
  Let x := mk_ctx ELECTRICIDAD false data.
  Let x' := mk_ctx ELECTRICIDAD false data'.
  Let dt (t : nat) : Qc := nth t dv 0.

  Lemma filter_data' : filter (has_carrier ELECTRICIDAD) data' = l ++ [e].
  Proof. unfold data'. rewrite filter_app. reflexivity. Qed.

  Lemma steps_data' : num_steps_of (l ++ [e]) = num_steps_of l.
  Proof. destruct l; [contradiction|reflexivity]. Qed.

  Lemma col_data' t : col_at (l ++ [e]) t = bump (dt t) (col_at l t).
  Proof.
    unfold col_at, bump. cbn [c_acs c_cal c_ref c_ven c_ilu c_u c_ne c_cg c_pv c_chp c_ts c_ea].
    rewrite !colsum_snoc. cbn. unfold dt, val_at. cbn [e_vals e]. f_equal; ring.
  Qed.

  Lemma dt_nonneg t : 0 <= dt t.  Proof. apply nth_Forall; [exact Hdn|apply Qcle_refl]. Qed.
  Lemma dt_zg t : zg (dt t).  Proof. apply nth_Forall; [exact Hdz|apply zg_0]. Qed.

  Let has (j : ProdSource) : bool := existsb (is_prod_src j) l.
  Lemma prio_x : cx_prio x = has EL_INSITU && has EL_COGEN.
  Proof. unfold x, mk_ctx, prio_of. cbn [cx_prio priorities forallb]. fold l. unfold has. now rewrite andb_true_r. Qed.
  Lemma prio_x' : cx_prio x' = has EL_COGEN.
  Proof.
    unfold x', mk_ctx, prio_of. cbn [cx_prio priorities forallb]. rewrite filter_data'. rewrite !existsb_app. cbn. unfold has.
    now rewrite orb_true_r, orb_false_r, andb_true_r.
  Qed.

  Lemma steps_x : cx_steps x = map (fun t => sr (cx_prio x) (col_at l t)) (seq 0 (num_steps_of l)).
  Proof. reflexivity. Qed.
  Lemma steps_x' : cx_steps x' = map (fun t => sr (cx_prio x') (bump (dt t) (col_at l t))) (seq 0 (num_steps_of l)).
  Proof.
    unfold x' at 1, mk_ctx. cbn [cx_steps]. rewrite filter_data', steps_data'. unfold steps_of. apply map_ext. intros t.
    rewrite col_data'. unfold sr. f_equal. f_equal. symmetry. unfold x', mk_ctx. cbn [cx_prio]. rewrite filter_data'. reflexivity.
  Qed.

  Lemma el_col_l t : el_col (col_at l t).
  Proof.
    split.
    - apply (absent_src_col_zero ELECTRICIDAD data PS_TERMOSOLAR t). apply other_carrier_src_absent. discriminate.
    - apply (absent_src_col_zero ELECTRICIDAD data PS_EAMBIENTE t). apply other_carrier_src_absent. discriminate.
  Qed.

  (** the four step inequalities, whatever the regime of priorities before and after *)
  Lemma step_any t :
    let s := sr (cx_prio x) (col_at l t) in let s' := sr (cx_prio x') (bump (dt t) (col_at l t)) in
    s_del_grid s' <= s_del_grid s /\ s_exp s <= s_exp s' /\ s_exp_src s EL_COGEN <= s_exp_src s' EL_COGEN
    /\ s_used_src s EL_INSITU <= s_used_src s' EL_INSITU.
  Proof.
    cbv zeta. rewrite prio_x, prio_x'.
    pose proof (col_at_ok ELECTRICIDAD data t Hn) as Ok. fold l in Ok.
    pose proof (el_col_l t) as El. pose proof (dt_nonneg t) as D0. pose proof (dt_zg t) as Dz.
    assert (Zpv : zg (c_pv (col_at l t))) by (cbn; now apply colsum_zg).
    assert (Zchp : zg (c_chp (col_at l t))) by (cbn; now apply colsum_zg).
    destruct (has EL_COGEN) eqn:HC; destruct (has EL_INSITU) eqn:HI; cbn [andb].
    - apply step_prio; assumption.
    - apply step_new_pv; try assumption. cbn. apply colsum_absent. exact HI.
    - apply step_pv_only; try assumption. cbn. apply colsum_absent. exact HC.
    - apply step_pv_only; try assumption. cbn. apply colsum_absent. exact HC.
  Qed.

  Lemma ann_x f : ann x f = qsum (map (fun t => f (sr (cx_prio x) (col_at l t))) (seq 0 (num_steps_of l))).
  Proof. unfold ann, vec. rewrite steps_x, map_map. reflexivity. Qed.
  Lemma ann_x' f : ann x' f = qsum (map (fun t => f (sr (cx_prio x') (bump (dt t) (col_at l t)))) (seq 0 (num_steps_of l))).
  Proof. unfold ann, vec. rewrite steps_x', map_map. reflexivity. Qed.

  Theorem del_grid_mono : a_del_grid x' <= a_del_grid x.
  Proof. unfold a_del_grid. rewrite ann_x, ann_x'. apply qsum_map_le. intros t _. apply (step_any t). Qed.

  Theorem exp_chp_mono : a_exp_src x EL_COGEN <= a_exp_src x' EL_COGEN.
  Proof. unfold a_exp_src. rewrite ann_x, ann_x'. apply qsum_map_le. intros t _. apply (step_any t). Qed.

  Theorem used_pv_mono : a_used_src x EL_INSITU <= a_used_src x' EL_INSITU.
  Proof. unfold a_used_src. rewrite ann_x, ann_x'. apply qsum_map_le. intros t _. apply (step_any t). Qed.

  Lemma a_exp_total y : a_exp_ne y + a_exp_grid y = ann y s_exp.
  Proof. unfold a_exp_ne, a_exp_grid. rewrite <- ann_add. apply ann_ext. intros s _. unfold s_exp_grid. ring. Qed.

  Theorem exp_total_mono : a_exp_ne x + a_exp_grid x <= a_exp_ne x' + a_exp_grid x'.
  Proof. rewrite !a_exp_total, ann_x, ann_x'. apply qsum_map_le. intros t _. apply (step_any t). Qed.

  Theorem cgnus_same : a_cgnus x' = a_cgnus x.
  Proof. unfold a_cgnus. rewrite ann_x, ann_x'. reflexivity. Qed.

  Lemma thermal_used_zero y (Hy : forall s, In s (cx_steps y) -> exists pr c, s = sr pr c /\ el_col c) j :
    j = PS_TERMOSOLAR \/ j = PS_EAMBIENTE -> a_used_src y j = 0.
  Proof.
    intros Hj. unfold a_used_src, ann, vec. apply qsum_map_zero. intros s Hs. destruct (Hy s Hs) as (pr & c & -> & [T E]).
    unfold s_used_src, sr. cbn [snd step_out so_src so_uts so_uea].
    destruct Hj as [->| ->]; destruct pr; cbn [snd step_out so_src so_uts so_uea used_src_f c_src fmatch]; try reflexivity; rewrite ?T, ?E;
      destruct (qltb 0 (c_p c)); unfold Qcdiv; ring.
  Qed.

  (** ** the weighted energy of the carrier under a regular factor set *)
  Variables (fs : list Factor) (g phi : RNC) (k : Qc).
  Hypothesis Hreg : regular fs ELECTRICIDAD (cx_srcs x) g (fsrc_reg phi).
  Hypothesis Hreg' : regular fs ELECTRICIDAD (cx_srcs x') g (fsrc_reg phi).
  Hypothesis Hg : rnc_nonneg g.
  Hypothesis Hphi : rnc_nonneg phi.
  Hypothesis Hk : 0 <= k <= 1.

  Lemma nonneg_data' : nonneg_data data'.
  Proof. unfold data', nonneg_data. apply Forall_app. split; [exact Hn|]. constructor; [|constructor]. intros _. exact Hdn. Qed.
  Lemma dom_data' : dom_data data'.
  Proof. unfold data', dom_data. apply Forall_app. split; [exact Hd|]. constructor; [|constructor]. intros _. exact Hdz. Qed.

  Lemma steps_el_x : forall s, In s (cx_steps x) -> exists pr c, s = sr pr c /\ el_col c.
  Proof. intros s Hs. rewrite steps_x in Hs. apply in_map_iff in Hs as (t & <- & _). eexists _, _. split; [reflexivity|apply el_col_l]. Qed.
  Lemma el_col_bump d c : el_col c -> el_col (bump d c).
  Proof. intros [T E]. split; assumption. Qed.
  Lemma steps_el_x' : forall s, In s (cx_steps x') -> exists pr c, s = sr pr c /\ el_col c.
  Proof. intros s Hs. rewrite steps_x' in Hs. apply in_map_iff in Hs as (t & <- & _). eexists _, _. split; [reflexivity|apply el_col_bump, el_col_l]. Qed.

  Lemma used_on_x : used_on ELECTRICIDAD false data = a_used_src x EL_INSITU.
  Proof.
    unfold used_on. fold x. rewrite (thermal_used_zero x steps_el_x PS_TERMOSOLAR (or_introl eq_refl)),
      (thermal_used_zero x steps_el_x PS_EAMBIENTE (or_intror eq_refl)). ring.
  Qed.
  Lemma used_on_x' : used_on ELECTRICIDAD false data' = a_used_src x' EL_INSITU.
  Proof.
    unfold used_on. fold x'. rewrite (thermal_used_zero x' steps_el_x' PS_TERMOSOLAR (or_introl eq_refl)),
      (thermal_used_zero x' steps_el_x' PS_EAMBIENTE (or_intror eq_refl)). ring.
  Qed.

  (** more on-site electricity: non-renewable primary energy and emissions of step A and of step B do not grow *)
  Theorem pv_monotone_carrier :
    exists p p', weighted_parts fs x = Ok p /\ weighted_parts fs x' = Ok p'
      /\ nren (we_a (we_of_parts k p')) <= nren (we_a (we_of_parts k p))
      /\ co2 (we_a (we_of_parts k p')) <= co2 (we_a (we_of_parts k p))
      /\ nren (we_b (we_of_parts k p')) <= nren (we_b (we_of_parts k p))
      /\ co2 (we_b (we_of_parts k p')) <= co2 (we_b (we_of_parts k p)).
  Proof.
    destruct (carrier_closed fs ELECTRICIDAD false data g phi Hreg Hn Hd k) as (p & Wp & Ap & Bp & _).
    destruct (carrier_closed fs ELECTRICIDAD false data' g phi Hreg' nonneg_data' dom_data' k) as (p' & Wp' & Ap' & Bp' & _).
    exists p, p'. split; [exact Wp|]. split; [exact Wp'|].
    rewrite Ap, Ap', Bp, Bp'. unfold NA, XCHP. rewrite used_on_x, used_on_x'. fold x x'.
    pose proof del_grid_mono as M1. pose proof exp_chp_mono as M2. pose proof exp_total_mono as M3. pose proof cgnus_same as M4.
    destruct Hg as (G1 & G2 & G3), Hphi as (P1 & P2 & P3), Hk as [K0 K1]. rewrite M4.
    revert M1 M2 M3.
    generalize (a_del_grid x) (a_del_grid x') (a_exp_src x EL_COGEN) (a_exp_src x' EL_COGEN)
               (a_exp_ne x + a_exp_grid x) (a_exp_ne x' + a_exp_grid x')
               (a_used_src x EL_INSITU) (a_used_src x' EL_INSITU)
               (a_exp_src x EL_INSITU + a_exp_src x PS_TERMOSOLAR + a_exp_src x PS_EAMBIENTE)
               (a_exp_src x' EL_INSITU + a_exp_src x' PS_TERMOSOLAR + a_exp_src x' PS_EAMBIENTE) (a_cgnus x).
    intros dg dg' xc xc' ex ex' up up' xi xi' cg M1 M2 M3.
    destruct g as [gr gn gc], phi as [pr pn pc]. cbn [ren nren co2 rsub radd rscale one] in *.
    assert (K00 : (0:Qc) <= 0) by apply Qcle_refl. assert (K01 : (0:Qc) <= 1) by qlra.
    repeat split.
    - pose proof (mono_lin dg dg' xc xc' ex ex' cg up up' xi xi' gn pn 0 M1 M2 M3 G2 P2 K00 K01) as L.
      ring_simplify in L. ring_simplify. exact L.
    - pose proof (mono_lin dg dg' xc xc' ex ex' cg up up' xi xi' gc pc 0 M1 M2 M3 G3 P3 K00 K01) as L.
      ring_simplify in L. ring_simplify. exact L.
    - exact (mono_lin dg dg' xc xc' ex ex' cg up up' xi xi' gn pn k M1 M2 M3 G2 P2 K0 K1).
    - exact (mono_lin dg dg' xc xc' ex ex' cg up up' xi xi' gc pc k M1 M2 M3 G3 P3 K0 K1).
  Qed.
End Annual.

(** ** RER, when no cogeneration is declared for electricity *)
Lemma ratio_mono (r n r' n' ro no : Qc) :
  0 <= ro -> 0 <= no -> 0 <= r -> 0 <= n' -> r <= r' -> n' <= n -> 0 < ro + r + (no + n) -> 0 < ro + r' + (no + n') ->
  (ro + r) / (ro + r + (no + n)) <= (ro + r') / (ro + r' + (no + n')).
Proof.
  intros. toQ. absQ. cbn in *.
  apply Qle_shift_div_l; [lra|]. unfold Qdiv. rewrite <- Qmult_assoc, (Qmult_comm (/ _)), Qmult_assoc.
  apply Qle_shift_div_r; [lra|]. nra.
Qed.

Section NoCogen.
  Variables (c : Col) (d : Qc).
  Hypothesis Hok : col_ok c.
  Hypothesis Hel : el_col c.
  Hypothesis Hd : 0 <= d.
  Hypothesis Zpv : zg (c_pv c).
  Hypothesis Zd : zg d.
  Hypothesis C0 : c_chp c = 0.

  (** without cogeneration, what the grid no longer delivers is exactly what more on-site production is used *)
  Lemma step_grid_is_use_minus_pv :
    s_del_grid (sr false c) = c_u c - s_used_src (sr false c) EL_INSITU
    /\ s_del_grid (sr false (bump d c)) = c_u c - s_used_src (sr false (bump d c)) EL_INSITU.
  Proof.
    destruct Hok, Hel as [T E]. destruct c as [a1 a2 a3 a4 a5 u ne cg pv chp ts ea]; cbn in * |-. subst.
    unfold s_del_grid, s_used_src, s_used, s_u, sr, bump.
    cbn [fst snd step_out so_used so_src so_upv used_tot_f used_src_f fmatch c_u c_pv c_chp c_ts c_ea c_src].
    unfold c_p. cbn [c_pv c_chp c_ts c_ea].
    replace (pv + 0 + 0 + 0) with pv by ring. replace (pv + d + 0 + 0 + 0) with (pv + d) by ring.
    assert (Zs : zg (pv + d)) by (apply zg_add; assumption).
    split.
    - destruct Zpv as [->|G].
      + destruct (qltb_spec 0 0) as [P|P]; [exfalso; qlra|]. qlra.
      + destruct (qltb_spec 0 pv) as [P|P]; [|exfalso; qlra]. rewrite (div_self pv) by (intro; subst; qlra). ring.
    - destruct Zs as [Z|G].
      + rewrite Z. destruct (qltb_spec 0 0) as [P|P]; [exfalso; qlra|]. qlra.
      + destruct (qltb_spec 0 (pv + d)) as [P|P]; [|exfalso; qlra].
        rewrite (div_self (pv + d)) by (intro K; rewrite K in G; qlra). ring.
  Qed.
End NoCogen.

Section AnnualNoCogen.
  Variables (data : list Energy) (i : Z) (dv : list Qc) (cm : str).
  Let e := EProd i EL_INSITU dv cm.
  Let data' := data ++ [e].
  Let l := filter (has_carrier ELECTRICIDAD) data.
  Hypothesis Hn : nonneg_data data.
  Hypothesis Hd : dom_data data.
  Hypothesis Hdn : Forall (fun v => 0 <= v) dv.
  Hypothesis Hdz : Forall zg dv.
  Hypothesis Hne : l <> [].
  Hypothesis Hnc : existsb (is_prod_src EL_COGEN) l = false.
  Let x := mk_ctx ELECTRICIDAD false data.
  Let x' := mk_ctx ELECTRICIDAD false data'.
  Let dt (t : nat) : Qc := nth t dv 0.

  Lemma nc_prio : cx_prio x = false /\ cx_prio x' = false.
  Proof.
    unfold x, x', data', e. split; [rewrite (prio_x data)|rewrite (prio_x' data i dv cm)]; fold l; rewrite Hnc; [apply andb_false_r|reflexivity].
  Qed.

  Lemma nc_grid : a_del_grid x = a_epus x - a_used_src x EL_INSITU /\ a_del_grid x' = a_epus x - a_used_src x' EL_INSITU.
  Proof.
    destruct nc_prio as [P P']. unfold x, x', data', e in *.
    unfold a_del_grid, a_epus, a_used_src. rewrite !(ann_x data), !(ann_x' data i dv cm Hne). fold l. rewrite P, P'.
    split; rewrite <- qsum_map_sub; apply qsum_map_ext; intros t _.
    - refine (proj1 (step_grid_is_use_minus_pv (col_at l t) (nth t dv 0) _ _ _ _ _)).
      + apply (col_at_ok ELECTRICIDAD data t Hn). + apply (el_col_l data). + cbn. now apply colsum_zg. + apply nth_Forall; [exact Hdz|apply zg_0].
      + cbn. apply colsum_absent. exact Hnc.
    - refine (proj2 (step_grid_is_use_minus_pv (col_at l t) (nth t dv 0) _ _ _ _ _)).
      + apply (col_at_ok ELECTRICIDAD data t Hn). + apply (el_col_l data). + cbn. now apply colsum_zg. + apply nth_Forall; [exact Hdz|apply zg_0].
      + cbn. apply colsum_absent. exact Hnc.
  Qed.

  Lemma nc_exp_chp : a_exp_src x EL_COGEN = 0 /\ a_exp_src x' EL_COGEN = 0.
  Proof.
    destruct nc_prio as [P P']. unfold x, x', data', e in *.
    unfold a_exp_src. rewrite (ann_x data), (ann_x' data i dv cm Hne). fold l. rewrite P, P'.
    assert (C0 : forall t, c_chp (col_at l t) = 0) by (intros t; cbn; apply colsum_absent; exact Hnc).
    split; apply qsum_map_zero; intros t _;
      unfold s_exp_src, s_psrc, s_used_src, sr, bump;
      cbn [fst snd step_out so_src so_uchp used_src_f c_src c_chp fmatch]; rewrite (C0 t);
      match goal with |- context [if ?b then _ else _] => destruct b end; unfold Qcdiv; ring.
  Qed.

  Variables (fs : list Factor) (g phi : RNC) (k : Qc).
  Hypothesis Hreg : regular fs ELECTRICIDAD (cx_srcs x) g (fsrc_reg phi).
  Hypothesis Hreg' : regular fs ELECTRICIDAD (cx_srcs x') g (fsrc_reg phi).
  Hypothesis Hg : rnc_nonneg g.
  Hypothesis Hg1 : ren g <= 1.

  (** without cogeneration, more on-site electricity does not lower the renewable primary energy of step A
      (and does not raise the non-renewable one: pv_monotone_carrier) — so RER at k_exp = 0 does not go down *)
  Theorem pv_ren_monotone_no_cogen :
    exists p p', weighted_parts fs x = Ok p /\ weighted_parts fs x' = Ok p'
      /\ ren (we_a (we_of_parts k p)) <= ren (we_a (we_of_parts k p')).
  Proof.
    destruct (carrier_closed fs ELECTRICIDAD false data g phi Hreg Hn Hd k) as (p & Wp & Ap & _).
    destruct (carrier_closed fs ELECTRICIDAD false data' g phi Hreg' (nonneg_data' data i dv cm Hn Hdn) (dom_data' data i dv cm Hd Hdz) k)
      as (p' & Wp' & Ap' & _).
    exists p, p'. split; [exact Wp|]. split; [exact Wp'|].
    rewrite Ap, Ap'. unfold NA, XCHP.
    destruct nc_grid as [G G']. destruct nc_exp_chp as [X X'].
    pose proof (used_pv_mono data i dv cm Hn Hd Hdn Hdz Hne) as M.
    pose proof (cgnus_same data i dv cm Hne) as CS.
    unfold x, x', data', e in *. rewrite (used_on_x data), (used_on_x' data i dv cm Hne).
    rewrite G, G', X, X', CS. destruct Hg as (G1 & _).
    revert M. generalize (a_used_src (mk_ctx ELECTRICIDAD false data) EL_INSITU)
                         (a_used_src (mk_ctx ELECTRICIDAD false (data ++ [EProd i EL_INSITU dv cm])) EL_INSITU)
                         (a_epus (mk_ctx ELECTRICIDAD false data)) (a_cgnus (mk_ctx ELECTRICIDAD false data)). intros up up' U cg M.
    destruct g as [gr gn gc], phi as [pr pn pc]. cbn [ren nren co2 rsub radd rscale one] in *.
    apply le_of_diff.
    replace ((U - up') * gr + up' * 1 + cg * gr - 0 * pr - ((U - up) * gr + up * 1 + cg * gr - 0 * pr)) with ((up' - up) * (1 - gr)) by ring.
    apply Qc_le_0_mul; qlra.
  Qed.
End AnnualNoCogen.
