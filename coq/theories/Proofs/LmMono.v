(** * Load matching: the used production grows with the production, and no faster (C14, load matching mode)

    Scalar facts about g(u, p) = f(p/u) * min(u, p), f(x) = (x + 1/x - 1) / (x + 1/x) = (x^2 - x + 1) / (x^2 + 1):
    for a fixed use u > 0, g is non-decreasing in p and p - g(u, p) too. *)
From Coq Require Import QArith Lqa.
From Cteepbd Require Import Base.Num.

Section Poly.
  Open Scope Q_scope.
  Lemma sq_nn (a : Q) : 0 <= a * a. Proof. nra. Qed.

  Lemma lm_i (u p p' : Q) : 0 < p -> p <= p' -> p' <= u ->
    p * (p*p - p*u + u*u) * (p'*p' + u*u) <= p' * (p'*p' - p'*u + u*u) * (p*p + u*u).
  Proof.
    intros.
    assert (E : p' * (p'*p' - p'*u + u*u) * (p*p + u*u) - p * (p*p - p*u + u*u) * (p'*p' + u*u)
              == (p' - p) * (p*p*p'*p' + u*u*(p'*p' + p*p) - u*u*u*(p + p') + u*u*u*u)) by ring.
    assert (Q4 : 0 <= 4 * (p*p*p'*p' + u*u*(p'*p' + p*p) - u*u*u*(p + p') + u*u*u*u)).
    { assert (E2 : 4 * (p*p*p'*p' + u*u*(p'*p' + p*p) - u*u*u*(p + p') + u*u*u*u)
                   == 4*((p*p')*(p*p')) + (u*(2*p'-u))*(u*(2*p'-u)) + (u*(2*p-u))*(u*(2*p-u)) + 2*((u*u)*(u*u))) by ring.
      rewrite E2. pose proof (sq_nn (p*p')) as S1. pose proof (sq_nn (u*(2*p'-u))) as S2. pose proof (sq_nn (u*(2*p-u))) as S3. pose proof (sq_nn (u*u)) as S4.
      set (A := (p*p')*(p*p')) in *. set (B := (u*(2*p'-u))*(u*(2*p'-u))) in *. set (C := (u*(2*p-u))*(u*(2*p-u))) in *. set (D := (u*u)*(u*u)) in *.
      lra. }
    set (Qv := p*p*p'*p' + u*u*(p'*p' + p*p) - u*u*u*(p + p') + u*u*u*u) in *.
    assert (0 <= (p' - p) * Qv) by (apply Qmult_le_0_compat; lra). lra.
  Qed.

  Lemma lm_i_lip (u p p' : Q) : 0 < p -> p <= p' -> p' <= u ->
    p' * (p'*p' - p'*u + u*u) * (p*p + u*u) - p * (p*p - p*u + u*u) * (p'*p' + u*u) <= (p' - p) * ((p*p + u*u) * (p'*p' + u*u)).
  Proof.
    intros.
    assert (E : (p' - p) * ((p*p + u*u) * (p'*p' + u*u)) - (p' * (p'*p' - p'*u + u*u) * (p*p + u*u) - p * (p*p - p*u + u*u) * (p'*p' + u*u))
              == (p' - p) * (u*u*u*(p + p'))) by ring.
    assert (U : 0 <= u) by lra.
    assert (0 <= (p' - p) * (u*u*u*(p + p'))).
    { apply Qmult_le_0_compat; [lra|]. apply Qmult_le_0_compat; [|lra]. repeat apply Qmult_le_0_compat; exact U. }
    lra.
  Qed.

  Lemma lm_ii (u p p' : Q) : 0 < u -> u <= p -> p <= p' ->
    (p*p - p*u + u*u) * (p'*p' + u*u) <= (p'*p' - p'*u + u*u) * (p*p + u*u).
  Proof.
    intros.
    assert (E : (p'*p' - p'*u + u*u) * (p*p + u*u) - (p*p - p*u + u*u) * (p'*p' + u*u) == u * (p' - p) * (p*p' - u*u)) by ring.
    assert (PP : u*u <= p*p').
    { assert (u*u <= p*u) by (apply Qmult_le_compat_r; lra). assert (p*u <= p*p') by (rewrite !(Qmult_comm p); apply Qmult_le_compat_r; lra). lra. }
    assert (0 <= u * (p' - p) * (p*p' - u*u)) by (apply Qmult_le_0_compat; [apply Qmult_le_0_compat; lra|lra]).
    lra.
  Qed.

  Lemma lm_ii_lip (u p p' : Q) : 0 < u -> u <= p -> p <= p' ->
    u * ((p'*p' - p'*u + u*u) * (p*p + u*u) - (p*p - p*u + u*u) * (p'*p' + u*u)) <= (p' - p) * ((p*p + u*u) * (p'*p' + u*u)).
  Proof.
    intros.
    assert (E : (p' - p) * ((p*p + u*u) * (p'*p' + u*u)) - u * ((p'*p' - p'*u + u*u) * (p*p + u*u) - (p*p - p*u + u*u) * (p'*p' + u*u))
               == (p' - p) * ((p*p + u*u) * (p'*p' + u*u) - u*u*(p*p' - u*u))) by ring.
    assert (0 <= (p*p + u*u) * (p'*p' + u*u) - u*u*(p*p' - u*u)).
    { assert (E3 : (p*p + u*u) * (p'*p' + u*u) - u*u*(p*p' - u*u) == (p*p')*(p*p') + (u*u)*((p*p + p'*p' - p*p')) + 2*((u*u)*(u*u))) by ring.
      rewrite E3. pose proof (sq_nn (p*p')). pose proof (sq_nn (u*u)). pose proof (sq_nn u).
      assert (0 <= p*p + p'*p' - p*p').
      { assert (E4 : 4*(p*p + p'*p' - p*p') == (2*p - p')*(2*p - p') + 3*(p'*p')) by ring. pose proof (sq_nn (2*p - p')). pose proof (sq_nn p').
        set (X := (2*p - p')*(2*p - p')) in *. set (Y := p'*p') in *. set (Z := p*p + Y - p*p') in *. lra. }
      assert (0 <= (u*u) * (p*p + p'*p' - p*p')) by (apply Qmult_le_0_compat; assumption).
      set (A := (p*p')*(p*p')) in *. set (B := (u*u)*(u*u)) in *. set (C := (u*u)*(p*p + p'*p' - p*p')) in *. lra. }
    assert (0 <= (p' - p) * ((p*p + u*u) * (p'*p' + u*u) - u*u*(p*p' - u*u))) by (apply Qmult_le_0_compat; lra).
    lra.
  Qed.
(* N' B - N B' = u (p'-p)(pp' - u^2) *)
Lemma F_diff (u p p' : Q) :
  (p'*p' - p'*u + u*u) * (p*p + u*u) - (p*p - p*u + u*u) * (p'*p' + u*u) == u * (p' - p) * (p*p' - u*u).
Proof. ring. Qed.
(* decreasing below the use *)
Lemma F_decr (u p p' : Q) : 0 < p -> p <= p' -> p' <= u ->
  (p'*p' - p'*u + u*u) * (p*p + u*u) <= (p*p - p*u + u*u) * (p'*p' + u*u).
Proof.
  intros. pose proof (F_diff u p p') as E.
  assert (PP : p*p' <= u*u).
  { assert (p*p' <= p*u) by (rewrite !(Qmult_comm p); apply Qmult_le_compat_r; lra). assert (p*u <= u*u) by (apply Qmult_le_compat_r; lra). lra. }
  assert (0 <= u * (p' - p) * (u*u - p*p')) by (apply Qmult_le_0_compat; [apply Qmult_le_0_compat; lra|lra]).
  assert (u * (p' - p) * (p*p' - u*u) == - (u * (p' - p) * (u*u - p*p'))) by ring. lra.
Qed.
(* Lipschitz with constant 1/(8u) above the use *)
Lemma F_lip8 (u p p' : Q) : 0 < u -> u <= p -> p <= p' ->
  8 * (u*u) * (p*p' - u*u) <= (p*p + u*u) * (p'*p' + u*u).
Proof.
  intros.
  assert (E : (p*p + u*u) * (p'*p' + u*u) - 8 * (u*u) * (p*p' - u*u)
              == (p*p' - 3*(u*u)) * (p*p' - 3*(u*u)) + (u*(p'-p))*(u*(p'-p))) by ring.
  pose proof (sq_nn (p*p' - 3*(u*u))). pose proof (sq_nn (u*(p'-p))).
  set (A := (p*p' - 3*(u*u)) * (p*p' - 3*(u*u))) in *. set (B := (u*(p'-p))*(u*(p'-p))) in *. lra.
Qed.

Lemma r3a (u a a' f f' : Q) : 0 < u -> 0 <= a' -> a' <= a -> a <= u -> 1 <= 2 * f -> 8 * u * (f' - f) <= a - a' -> f' * a' <= f * a.
Proof.
  intros Hu Ha' Haa Hau Hf HL.
  (* 8u f' a' <= (8u f + (a-a')) a' ;  (a-a') a' <= 8 u f (a-a') *)
  assert (E0 : 8 * u * (f' - f) == 8 * u * f' - 8 * u * f) by ring.
  assert (S1 : 0 <= (8 * u * f + (a - a') - 8 * u * f') * a').
  { assert (T1 : 0 <= 8 * u * f + (a - a') - 8 * u * f').
    { set (X1 := 8 * u * f') in *. set (X2 := 8 * u * f) in *. set (Y := 8 * u * (f' - f)) in *. lra. }
    apply Qmult_le_0_compat; assumption. }
  assert (S2 : 0 <= (8 * u * f - a') * (a - a')).
  { apply Qmult_le_0_compat; [|lra]. assert (H0 : 0 <= u * (2 * f - 1)) by (apply Qmult_le_0_compat; lra).
    assert (E : u * (2 * f - 1) == 2 * (u * f) - u) by ring. assert (E2 : 8 * u * f == 8 * (u * f)) by ring.
    set (X := u * f) in *. lra. }
  assert (S3 : 0 <= 8 * u * (f * a - f' * a')).
  { assert (E : 8 * u * (f * a - f' * a') == (8 * u * f + (a - a') - 8 * u * f') * a' + (8 * u * f - a') * (a - a')) by ring.
    set (A := (8 * u * f + (a - a') - 8 * u * f') * a') in *. set (B := (8 * u * f - a') * (a - a')) in *. lra. }
  assert (P : 0 <= f * a - f' * a').
  { destruct (Qlt_le_dec (f * a - f' * a') 0) as [N|N]; [|exact N]. exfalso.
    assert (8 * u * (f * a - f' * a') < 0).
    { assert (P8 : 0 < 8 * u) by lra. set (Y := f * a - f' * a') in *. 
      assert (0 < (8 * u) * (- Y)) by (apply Qmult_lt_0_compat; lra). assert (E : 8 * u * Y == - ((8 * u) * (- Y))) by ring. lra. }
    lra. }
  lra.
Qed.

End Poly.

Open Scope Qc_scope.

(** g(u, p) written without the ratio p/u *)
Definition gnum (u p : Qc) : Qc := p*p - p*u + u*u.
Definition gden (u p : Qc) : Qc := p*p + u*u.
Definition gl (u p : Qc) : Qc := gnum u p * qmin u p / gden u p.

Lemma gden_pos u p : 0 < u -> 0 < gden u p.
Proof. intros H. unfold gden. toQ. absQ. cbn in *. pose proof (sq_nn Qp). nra. Qed.

Lemma div_le_cross (a b c d : Qc) : 0 < b -> 0 < d -> a * d <= c * b -> a / b <= c / d.
Proof.
  intros Hb Hd H. toQ. absQ. cbn in *.
  apply Qle_shift_div_l; [lra|]. unfold Qdiv. rewrite <- Qmult_assoc, (Qmult_comm (/ _)), Qmult_assoc.
  apply Qle_shift_div_r; [lra|]. lra.
Qed.

Lemma div_sub_le_cross (a b c d e : Qc) : 0 < b -> 0 < d -> c * b - a * d <= e * (b * d) -> c / d - a / b <= e.
Proof.
  intros Hb Hd H.
  assert (E : c / d - a / b = (c * b - a * d) / (b * d)).
  { field. split; intro K; rewrite K in *; qlra. }
  rewrite E. clear E.
  assert (P : 0 < b * d) by (toQ; absQ; cbn in *; nra).
  revert H P. generalize (c * b - a * d) (b * d). intros x y H P.
  toQ. absQ. cbn in *. apply Qle_shift_div_r; [lra|]. lra.
Qed.

(** monotone, and 1-Lipschitz *)
Theorem gl_mono u p p' : 0 < u -> 0 < p -> p <= p' -> gl u p <= gl u p' /\ gl u p' - gl u p <= p' - p.
Proof.
  intros Hu Hp Hpp.
  assert (Core : forall a b, 0 < a -> a <= b -> (b <= u \/ u <= a) -> gl u a <= gl u b /\ gl u b - gl u a <= b - a).
  { intros a b Ha Hab [Hbu|Hua]; unfold gl.
    - assert (Ma : qmin u a = a) by qlra. assert (Mb : qmin u b = b) by qlra. rewrite Ma, Mb. split.
      + apply div_le_cross; [apply gden_pos, Hu|apply gden_pos, Hu|]. unfold gnum, gden.
        pose proof (lm_i (this u) (this a) (this b)) as L. toQ. absQ. cbn in *. lra.
      + apply div_sub_le_cross; [apply gden_pos, Hu|apply gden_pos, Hu|]. unfold gnum, gden.
        pose proof (lm_i_lip (this u) (this a) (this b)) as L. toQ. absQ. cbn in *. lra.
    - assert (Ma : qmin u a = u) by qlra. assert (Mb : qmin u b = u) by qlra. rewrite Ma, Mb. split.
      + apply div_le_cross; [apply gden_pos, Hu|apply gden_pos, Hu|]. unfold gnum, gden.
        pose proof (lm_ii (this u) (this a) (this b)) as L. toQ. absQ. cbn in *.
        assert (L' : ((Qa * Qa - Qa * Qu + Qu * Qu) * (Qb * Qb + Qu * Qu) <= (Qb * Qb - Qb * Qu + Qu * Qu) * (Qa * Qa + Qu * Qu))%Q) by (apply L; lra).
        nra.
      + apply div_sub_le_cross; [apply gden_pos, Hu|apply gden_pos, Hu|]. unfold gnum, gden.
        pose proof (lm_ii_lip (this u) (this a) (this b)) as L. toQ. absQ. cbn in *.
        assert (L' : (Qu * ((Qb * Qb - Qb * Qu + Qu * Qu) * (Qa * Qa + Qu * Qu) - (Qa * Qa - Qa * Qu + Qu * Qu) * (Qb * Qb + Qu * Qu))
                      <= (Qb - Qa) * ((Qa * Qa + Qu * Qu) * (Qb * Qb + Qu * Qu)))%Q) by (apply L; lra).
        lra. }
  destruct (qleb_spec p' u) as [A|A]; [apply Core; [exact Hp|exact Hpp|now left]|].
  destruct (qleb_spec u p) as [B|B]; [apply Core; [exact Hp|exact Hpp|now right]|].
  (* p < u < p': through u *)
  destruct (Core p u Hp ltac:(qlra) ltac:(left; apply Qcle_refl)) as [M1 L1].
  destruct (Core u p' Hu ltac:(qlra) ltac:(right; apply Qcle_refl)) as [M2 L2].
  revert M1 L1 M2 L2. generalize (gl u p) (gl u u) (gl u p'). intros x y z M1 L1 M2 L2. split; qlra.
Qed.

(** ** The step with load matching, one electricity source *)
From Cteepbd Require Import Model.Factors Proofs.StepFacts Proofs.ColFacts Proofs.PvFacts.

Lemma qdiv_pos (x y : Qc) : 0 < x -> 0 < y -> 0 < x / y.
Proof.
  intros Hx Hy. toQ. absQ. cbn in *. unfold Qdiv. apply Qmult_lt_0_compat; [lra|apply Qinv_lt_0_compat; lra].
Qed.

(** f(p/u) * min(u, p) is g(u, p) *)
Lemma fmatch_times_min u p : 0 < u -> 0 < p ->
  (p / u + 1 / (p / u) - 1) / (p / u + 1 / (p / u)) * qmin u p = gl u p.
Proof.
  intros Hu Hp. assert (X : 0 < p / u) by (apply qdiv_pos; assumption).
  rewrite (fmatch_formula (p / u) X). unfold gl, gnum, gden.
  assert (E : (p / u * (p / u) - p / u + 1) / (p / u * (p / u) + 1) = (p * p - p * u + u * u) / (p * p + u * u)).
  { field. split.
    - intro K. pose proof (gden_pos u p Hu) as G. unfold gden in G. rewrite K in G. qlra.
    - intro K. rewrite K in Hu. qlra. }
  rewrite E. unfold Qcdiv. ring.
Qed.

Lemma gl_bounds u p : 0 < u -> 0 < p -> 0 <= gl u p /\ gl u p <= qmin u p.
Proof.
  intros Hu Hp. rewrite <- fmatch_times_min by assumption.
  assert (X : 0 < p / u) by (apply qdiv_pos; assumption).
  destruct (fmatch_range_pos (p / u) X) as [F1 F2].
  apply scale_bounds; [exact F1|exact F2|qlra].
Qed.

Definition srl (c : Col) : StepR := (c, step_out false true c).

(** used production of the step as a function of (u, p) *)
Definition usedl (u p : Qc) : Qc := if qltb 0 u then (if qltb 0 p then gl u p else 0) else 0.

Lemma usedl_mono u p p' : 0 <= u -> 0 <= p -> p <= p' -> usedl u p <= usedl u p' /\ usedl u p' - usedl u p <= p' - p /\ 0 <= usedl u p /\ usedl u p <= u.
Proof.
  intros Hu Hp Hpp. unfold usedl. destruct (qltb_spec 0 u) as [U|U]; [|repeat split; qlra].
  destruct (qltb_spec 0 p) as [P|P].
  - destruct (qltb_spec 0 p') as [P'|P']; [|exfalso; qlra]. destruct (gl_mono u p p' U P Hpp) as [M L].
    destruct (gl_bounds u p U P) as [B1 B2]. repeat split; try assumption. qlra.
  - assert (p = 0) by qlra. subst p. destruct (qltb_spec 0 p') as [P'|P']; [|repeat split; qlra].
    destruct (gl_bounds u p' U P') as [B1 B2]. repeat split; qlra.
Qed.

Section StepLm.
  Variables (c : Col) (d : Qc).
  Hypothesis Hok : col_ok c.
  Hypothesis Hel : el_col c.
  Hypothesis Hd : 0 <= d.
  Hypothesis Zpv : zg (c_pv c).
  Hypothesis Zd : zg d.
  Hypothesis C0 : c_chp c = 0.

  Lemma used_tot_lm : s_used (srl c) = usedl (c_u c) (c_pv c) /\ s_used (srl (bump d c)) = usedl (c_u c) (c_pv c + d).
  Proof.
    destruct Hok, Hel as [T E]. destruct c as [a1 a2 a3 a4 a5 u ne cg pv chp ts ea]; cbn in * |-. subst.
    unfold s_used, srl, bump, usedl. cbn [snd step_out so_used used_tot_f fmatch c_u c_pv c_chp c_ts c_ea].
    unfold c_p. cbn [c_pv c_chp c_ts c_ea c_u].
    replace (pv + 0 + 0 + 0) with pv by ring. replace (pv + d + 0 + 0 + 0) with (pv + d) by ring.
    assert (Gen : forall p, 0 <= p ->
      (let x := if qltb 0 u then p / u else 0 in if qleb x 0 then 1 else (x + 1 / x - 1) / (x + 1 / x)) * qmin u p
      = if qltb 0 u then (if qltb 0 p then gl u p else 0) else 0).
    { intros p P0. cbv zeta. destruct (qltb_spec 0 u) as [Hu|Hu].
      - destruct (qltb_spec 0 p) as [Hp|Hp].
        + assert (X : 0 < p / u) by (apply qdiv_pos; assumption).
          destruct (qleb_spec (p / u) 0) as [K|K]; [exfalso; qlra|]. apply fmatch_times_min; assumption.
        + assert (p = 0) by qlra. subst p. unfold Qcdiv. rewrite Qcmult_0_l. destruct (qleb_spec 0 0); [|exfalso; qlra]. qlra.
      - destruct (qleb_spec 0 0); [|exfalso; qlra]. assert (u = 0) by qlra. subst u. qlra. }
    split; apply Gen; qlra.
  Qed.

  (** per source: the share of the only source is 1 when there is production, and nothing is used when there is none *)
  Lemma only_source c0 : col_ok c0 -> el_col c0 -> c_chp c0 = 0 -> zg (c_pv c0) ->
    s_used_src (srl c0) EL_INSITU = s_used (srl c0) /\ s_exp_src (srl c0) EL_COGEN = 0.
  Proof.
    intros Ok0 [T E] K Z. pose proof (ok_u c0 Ok0) as U0. destruct c0 as [a1 a2 a3 a4 a5 u ne cg pv chp ts ea]; cbn in * |-. subst.
    unfold s_exp_src, s_used_src, s_used, s_psrc, srl.
    cbn [fst snd step_out so_used so_src so_upv so_uchp used_tot_f used_src_f c_src c_pv c_chp c_u]. unfold c_p. cbn [c_pv c_chp c_ts c_ea].
    replace (pv + 0 + 0 + 0) with pv by ring.
    assert (Z0 : 0 / pv = 0) by (unfold Qcdiv; ring). rewrite Z0.
    set (f := fmatch true _). clearbody f.
    destruct Z as [->|G].
    - destruct (qltb_spec 0 0) as [P|P]; [exfalso; qlra|].
      assert (M : qmin u 0 = 0) by qlra. rewrite M. split; ring.
    - destruct (qltb_spec 0 pv) as [P|P]; [|exfalso; qlra].
      rewrite (div_self pv) by (intro; subst; qlra). split; ring.
  Qed.

  (** the step facts, with load matching, when the on-site source is the only one of the carrier *)
  Lemma step_lm_pv_only :
    s_del_grid (srl (bump d c)) <= s_del_grid (srl c)
    /\ s_exp (srl c) <= s_exp (srl (bump d c))
    /\ s_exp_src (srl c) EL_COGEN = 0 /\ s_exp_src (srl (bump d c)) EL_COGEN = 0
    /\ s_used_src (srl c) EL_INSITU <= s_used_src (srl (bump d c)) EL_INSITU
    /\ s_del_grid (srl c) = c_u c - s_used_src (srl c) EL_INSITU
    /\ s_del_grid (srl (bump d c)) = c_u c - s_used_src (srl (bump d c)) EL_INSITU.
  Proof.
    destruct used_tot_lm as [U U'].
    destruct (usedl_mono (c_u c) (c_pv c) (c_pv c + d) (ok_u c Hok) (ok_pv c Hok) ltac:(qlra)) as (M & L & B0 & Bu).
    assert (Zs : zg (c_pv c + d)) by (apply zg_add; assumption).
    assert (Ok' : col_ok (bump d c)) by (destruct Hok; constructor; cbn; try assumption; qlra).
    assert (El' : el_col (bump d c)) by (destruct Hel; split; assumption).
    destruct (only_source c Hok Hel C0 Zpv) as [S1 X1].
    destruct (only_source (bump d c) Ok' El' C0 Zs) as [S2 X2].
    rewrite S1, S2, X1, X2. unfold s_del_grid, s_exp, s_u, s_p. cbn [fst srl bump c_u]. rewrite U, U'.
    assert (P : c_p c = c_pv c) by (destruct Hel as [T E]; unfold c_p; rewrite T, E, C0; ring).
    assert (P' : c_p (bump d c) = c_pv c + d) by (destruct Hel as [T E]; unfold c_p, bump; cbn [c_pv c_chp c_ts c_ea]; rewrite T, E, C0; ring).
    rewrite P, P'. repeat split; try reflexivity; qlra.
  Qed.
End StepLm.

(** ** A whole year with load matching, electricity produced on site only *)
From Cteepbd Require Import Proofs.Breakdown Proofs.CtxFacts Proofs.ClosedForm Proofs.RerFacts.

Section AnnualLm.
  Variables (data : list Energy) (i : Z) (dv : list Qc) (cm : str).
  Let l := filter (has_carrier ELECTRICIDAD) data.
  Hypothesis Hn : nonneg_data data.
  Hypothesis Hd : dom_data data.
  Hypothesis Hdn : Forall (fun v => 0 <= v) dv.
  Hypothesis Hdz : Forall zg dv.
  Hypothesis Hne : l <> [].
  Hypothesis Hnc : existsb (is_prod_src EL_COGEN) l = false.
  Let x := mk_ctx ELECTRICIDAD true data.
  Let x' := mk_ctx ELECTRICIDAD true (data ++ [EProd i EL_INSITU dv cm]).
  Let dt (t : nat) : Qc := nth t dv 0.

  Lemma lm_steps_x : cx_steps x = map (fun t => srl (col_at l t)) (seq 0 (num_steps_of l)).
  Proof.
    unfold x, mk_ctx, steps_of. cbn [cx_steps]. fold l. apply map_ext. intros t. unfold srl. f_equal. f_equal.
    unfold prio_of. cbn [priorities forallb]. rewrite Hnc. now rewrite !andb_false_r.
  Qed.

  Lemma lm_steps_x' : cx_steps x' = map (fun t => srl (bump (dt t) (col_at l t))) (seq 0 (num_steps_of l)).
  Proof.
    unfold x', mk_ctx, steps_of. cbn [cx_steps]. rewrite (filter_data' data i dv cm), (steps_data' data i dv cm Hne).
    apply map_ext. intros t. rewrite (col_data' data i dv cm t). fold l. unfold srl, dt. f_equal. f_equal.
    unfold prio_of. cbn [priorities forallb]. rewrite !existsb_app, Hnc. cbn. now rewrite !andb_false_r.
  Qed.

  Lemma lm_ann_x f : ann x f = qsum (map (fun t => f (srl (col_at l t))) (seq 0 (num_steps_of l))).
  Proof. unfold ann, vec. rewrite lm_steps_x, map_map. reflexivity. Qed.
  Lemma lm_ann_x' f : ann x' f = qsum (map (fun t => f (srl (bump (dt t) (col_at l t)))) (seq 0 (num_steps_of l))).
  Proof. unfold ann, vec. rewrite lm_steps_x', map_map. reflexivity. Qed.

  Lemma lm_step t :
    let c := col_at l t in
    s_del_grid (srl (bump (dt t) c)) <= s_del_grid (srl c)
    /\ s_exp (srl c) <= s_exp (srl (bump (dt t) c))
    /\ s_exp_src (srl c) EL_COGEN = 0 /\ s_exp_src (srl (bump (dt t) c)) EL_COGEN = 0
    /\ s_used_src (srl c) EL_INSITU <= s_used_src (srl (bump (dt t) c)) EL_INSITU
    /\ s_del_grid (srl c) = c_u c - s_used_src (srl c) EL_INSITU
    /\ s_del_grid (srl (bump (dt t) c)) = c_u c - s_used_src (srl (bump (dt t) c)) EL_INSITU.
  Proof.
    cbv zeta. apply step_lm_pv_only.
    - apply (col_at_ok ELECTRICIDAD data t Hn).
    - apply (el_col_l data).
    - apply nth_Forall; [exact Hdn|apply Qcle_refl].
    - cbn. now apply colsum_zg.
    - apply nth_Forall; [exact Hdz|apply zg_0].
    - cbn. apply colsum_absent. exact Hnc.
  Qed.

  Lemma lm_del_grid : a_del_grid x' <= a_del_grid x.
  Proof. unfold a_del_grid. rewrite lm_ann_x, lm_ann_x'. apply qsum_map_le. intros t _. apply (lm_step t). Qed.
  Lemma lm_exp : a_exp_ne x + a_exp_grid x <= a_exp_ne x' + a_exp_grid x'.
  Proof. rewrite !a_exp_total, lm_ann_x, lm_ann_x'. apply qsum_map_le. intros t _. apply (lm_step t). Qed.
  Lemma lm_exp_chp : a_exp_src x EL_COGEN = 0 /\ a_exp_src x' EL_COGEN = 0.
  Proof. unfold a_exp_src. rewrite lm_ann_x, lm_ann_x'. split; apply qsum_map_zero; intros t _; apply (lm_step t). Qed.
  Lemma lm_used_pv : a_used_src x EL_INSITU <= a_used_src x' EL_INSITU.
  Proof. unfold a_used_src. rewrite lm_ann_x, lm_ann_x'. apply qsum_map_le. intros t _. apply (lm_step t). Qed.
  Lemma lm_grid_eq : a_del_grid x = a_epus x - a_used_src x EL_INSITU /\ a_del_grid x' = a_epus x - a_used_src x' EL_INSITU.
  Proof.
    unfold a_del_grid, a_epus, a_used_src. rewrite !lm_ann_x, !lm_ann_x'. split; rewrite <- qsum_map_sub; apply qsum_map_ext; intros t _; apply (lm_step t).
  Qed.
  Lemma lm_cgnus : a_cgnus x' = a_cgnus x.
  Proof. unfold a_cgnus. rewrite lm_ann_x, lm_ann_x'. reflexivity. Qed.

  Lemma lm_thermal y (Hy : forall s, In s (cx_steps y) -> exists c, s = srl c /\ el_col c) j :
    j = PS_TERMOSOLAR \/ j = PS_EAMBIENTE -> a_used_src y j = 0.
  Proof.
    intros Hj. unfold a_used_src, ann, vec. apply qsum_map_zero. intros s Hs. destruct (Hy s Hs) as (c & -> & [T E]).
    unfold s_used_src, srl. destruct Hj as [->| ->]; cbn [snd step_out so_src so_uts so_uea used_src_f c_src]; rewrite ?T, ?E;
      destruct (qltb 0 (c_p c)); unfold Qcdiv; ring.
  Qed.

  Lemma lm_used_on : used_on ELECTRICIDAD true data = a_used_src x EL_INSITU
                     /\ used_on ELECTRICIDAD true (data ++ [EProd i EL_INSITU dv cm]) = a_used_src x' EL_INSITU.
  Proof.
    assert (E1 : forall s, In s (cx_steps x) -> exists c, s = srl c /\ el_col c).
    { intros s Hs. rewrite lm_steps_x in Hs. apply in_map_iff in Hs as (t & <- & _). eexists. split; [reflexivity|apply (el_col_l data)]. }
    assert (E2 : forall s, In s (cx_steps x') -> exists c, s = srl c /\ el_col c).
    { intros s Hs. rewrite lm_steps_x' in Hs. apply in_map_iff in Hs as (t & <- & _). eexists. split; [reflexivity|]. apply el_col_bump, (el_col_l data). }
    unfold used_on. fold x x'. split.
    - rewrite (lm_thermal x E1 PS_TERMOSOLAR (or_introl eq_refl)), (lm_thermal x E1 PS_EAMBIENTE (or_intror eq_refl)). ring.
    - rewrite (lm_thermal x' E2 PS_TERMOSOLAR (or_introl eq_refl)), (lm_thermal x' E2 PS_EAMBIENTE (or_intror eq_refl)). ring.
  Qed.

  Variables (fs : list Factor) (g phi : RNC) (k : Qc).
  Hypothesis Hreg : regular fs ELECTRICIDAD (cx_srcs x) g (fsrc_reg phi).
  Hypothesis Hreg' : regular fs ELECTRICIDAD (cx_srcs x') g (fsrc_reg phi).
  Hypothesis Hg : rnc_nonneg g.
  Hypothesis Hg1 : ren g <= 1.
  Hypothesis Hphi : rnc_nonneg phi.
  Hypothesis Hk : 0 <= k <= 1.

  (** with load matching and no cogeneration for electricity: more on-site production does not raise the carrier's
      non-renewable primary energy nor its emissions (steps A and B), and does not lower its renewable primary energy *)
  Theorem pv_monotone_carrier_lm :
    exists p p', weighted_parts fs x = Ok p /\ weighted_parts fs x' = Ok p'
      /\ nren (we_a (we_of_parts k p')) <= nren (we_a (we_of_parts k p))
      /\ co2 (we_a (we_of_parts k p')) <= co2 (we_a (we_of_parts k p))
      /\ nren (we_b (we_of_parts k p')) <= nren (we_b (we_of_parts k p))
      /\ co2 (we_b (we_of_parts k p')) <= co2 (we_b (we_of_parts k p))
      /\ ren (we_a (we_of_parts k p)) <= ren (we_a (we_of_parts k p'))
      /\ a_del_grid x' <= a_del_grid x.
  Proof.
    destruct (carrier_closed fs ELECTRICIDAD true data g phi Hreg Hn Hd k) as (p & Wp & Ap & Bp & _).
    destruct (carrier_closed fs ELECTRICIDAD true (data ++ [EProd i EL_INSITU dv cm]) g phi Hreg' (nonneg_data' data i dv cm Hn Hdn) (dom_data' data i dv cm Hd Hdz) k)
      as (p' & Wp' & Ap' & Bp' & _).
    exists p, p'. split; [exact Wp|]. split; [exact Wp'|].
    rewrite Ap, Ap', Bp, Bp'. unfold NA, XCHP. destruct lm_used_on as [O O']. rewrite O, O'. fold x x'.
    destruct lm_grid_eq as [GE GE']. destruct lm_exp_chp as [X X']. pose proof lm_exp as M3. pose proof lm_used_pv as M5. pose proof lm_cgnus as M4.
    pose proof lm_del_grid as M1. rewrite M4, X, X'.
    destruct Hg as (G1 & G2 & G3), Hphi as (P1 & P2 & P3), Hk as [K0 K1].
    assert (M2 : (0:Qc) <= 0) by apply Qcle_refl.
    revert M1 M3 M5 GE GE'.
    generalize (a_del_grid x) (a_del_grid x') (a_exp_ne x + a_exp_grid x) (a_exp_ne x' + a_exp_grid x')
               (a_used_src x EL_INSITU) (a_used_src x' EL_INSITU)
               (a_exp_src x EL_INSITU + a_exp_src x PS_TERMOSOLAR + a_exp_src x PS_EAMBIENTE)
               (a_exp_src x' EL_INSITU + a_exp_src x' PS_TERMOSOLAR + a_exp_src x' PS_EAMBIENTE) (a_cgnus x) (a_epus x).
    intros dg dg' ex ex' up up' xi xi' cg U M1 M3 M5 GE GE'.
    destruct g as [gr gn gc], phi as [pr pn pc]. cbn [ren nren co2 rsub radd rscale one] in *.
    assert (K00 : (0:Qc) <= 0) by apply Qcle_refl. assert (K01 : (0:Qc) <= 1) by qlra.
    repeat split.
    - pose proof (mono_lin dg dg' 0 0 ex ex' cg up up' xi xi' gn pn 0 M1 M2 M3 G2 P2 K00 K01) as L. ring_simplify in L. ring_simplify. exact L.
    - pose proof (mono_lin dg dg' 0 0 ex ex' cg up up' xi xi' gc pc 0 M1 M2 M3 G3 P3 K00 K01) as L. ring_simplify in L. ring_simplify. exact L.
    - exact (mono_lin dg dg' 0 0 ex ex' cg up up' xi xi' gn pn k M1 M2 M3 G2 P2 K0 K1).
    - exact (mono_lin dg dg' 0 0 ex ex' cg up up' xi xi' gc pc k M1 M2 M3 G3 P3 K0 K1).
    - subst dg dg'. apply le_of_diff.
      replace ((U - up') * gr + up' * 1 + cg * gr - 0 * pr - ((U - up) * gr + up * 1 + cg * gr - 0 * pr)) with ((up' - up) * (1 - gr)) by ring.
      apply Qc_le_0_mul; qlra.
    - exact M1.
  Qed.
End AnnualLm.


(** ** Load matching with two electricity sources: the cogenerated electricity used on site does not grow *)
Notation q2 := (1 + 1) (only parsing).
Notation q8 := ((1 + 1) * (1 + 1) * (1 + 1)) (only parsing).
Lemma div_le_same (a c b : Qc) : 0 < b -> a <= c -> a / b <= c / b.
Proof. intros Hb H. apply div_le_cross; [exact Hb|exact Hb|]. toQ. absQ. cbn in *. nra. Qed.

Lemma r3a_c (u a a' f f' : Qc) : 0 < u -> 0 <= a' -> a' <= a -> a <= u -> 1 <= q2 * f -> q8 * u * (f' - f) <= a - a' -> f' * a' <= f * a.
Proof. intros H1 H2 H3 H4 H5 H6. pose proof (r3a (this u) (this a) (this a') (this f) (this f')) as R. toQ. absQ. cbn in *. apply R; lra. Qed.

Definition Fq (u p : Qc) : Qc := gnum u p / gden u p.

Lemma Fq_range u p : 0 < u -> 0 < p -> 1 <= q2 * Fq u p /\ Fq u p <= 1.
Proof.
  intros Hu Hp. pose proof (gden_pos u p Hu) as B. unfold Fq. split.
  - assert (E : q2 * (gnum u p / gden u p) = (q2 * gnum u p) / gden u p) by (unfold Qcdiv; ring). rewrite E.
    replace 1 with (gden u p / gden u p) at 1 by (field; intro K; rewrite K in B; qlra).
    apply div_le_same; [exact B|]. unfold gnum, gden in *. pose proof (sq_nn (this p - this u)). toQ. absQ. cbn in *. nra.
  - replace 1 with (gden u p / gden u p) by (field; intro K; rewrite K in B; qlra).
    apply div_le_same; [exact B|]. unfold gnum, gden in *. toQ. absQ. cbn in *. nra.
Qed.

Lemma Fq_decr u p p' : 0 < u -> 0 < p -> p <= p' -> p' <= u -> Fq u p' <= Fq u p.
Proof.
  intros Hu Hp H1 H2. unfold Fq. apply div_le_cross; [apply gden_pos, Hu|apply gden_pos, Hu|]. unfold gnum, gden.
  pose proof (F_decr (this u) (this p) (this p')) as L. toQ. absQ. cbn in *. lra.
Qed.

Lemma Fq_lip8 u p p' : 0 < u -> u <= p -> p <= p' -> q8 * u * (Fq u p' - Fq u p) <= p' - p.
Proof.
  intros Hu H1 H2. pose proof (gden_pos u p Hu) as B. pose proof (gden_pos u p' Hu) as B'. unfold Fq.
  assert (E : q8 * u * (gnum u p' / gden u p' - gnum u p / gden u p)
              = (q8 * u * (gnum u p' * gden u p - gnum u p * gden u p')) / (gden u p * gden u p')).
  { field. split; intro K; rewrite K in *; qlra. }
  rewrite E. clear E.
  assert (P : 0 < gden u p * gden u p') by (toQ; absQ; cbn in *; nra).
  assert (H : q8 * u * (gnum u p' * gden u p - gnum u p * gden u p') <= (p' - p) * (gden u p * gden u p')).
  { unfold gnum, gden. pose proof (F_diff (this u) (this p) (this p')) as D. pose proof (F_lip8 (this u) (this p) (this p')) as L.
    toQ. absQ. cbn in *.
    assert (L' : (8 * (Qu * Qu) * (Qp * Qp' - Qu * Qu) <= (Qp * Qp + Qu * Qu) * (Qp' * Qp' + Qu * Qu))%Q) by (apply L; lra).
    assert (M : (0 <= (Qp' - Qp) * ((Qp * Qp + Qu * Qu) * (Qp' * Qp' + Qu * Qu) - 8 * (Qu * Qu) * (Qp * Qp' - Qu * Qu)))%Q)
      by (apply Qmult_le_0_compat; lra).
    nra. }
  revert H P. generalize (q8 * u * (gnum u p' * gden u p - gnum u p * gden u p')) (gden u p * gden u p') (p' - p). intros x y z H P.
  toQ. absQ. cbn in *. apply Qle_shift_div_r; [lra|]. lra.
Qed.

Lemma Fq_at_use u : 0 < u -> q2 * Fq u u = 1.
Proof. intros Hu. unfold Fq, gnum, gden. field. intro K. assert (0 < u * u + u * u) by (toQ; absQ; cbn in *; nra). rewrite K in H. qlra. Qed.

(** the cogenerated electricity used in a step, as a function of the on-site production *)
Definition hc (u pv chp : Qc) : Qc := Fq u (pv + chp) * qmin chp (u - qmin pv u).

Theorem hc_mono u pv pv' chp : 0 < u -> 0 <= pv -> pv <= pv' -> 0 <= chp -> 0 < pv + chp -> hc u pv' chp <= hc u pv chp.
Proof.
  intros Hu Hpv Hpp Hc Hp.
  assert (Hp' : 0 < pv' + chp) by qlra.
  destruct (Fq_range u (pv + chp) Hu Hp) as [F1 F2]. destruct (Fq_range u (pv' + chp) Hu Hp') as [F1' F2'].
  (* sub-interval lemma: both end points on the same side of the point where pv + chp = u *)
  assert (Below : forall a b, 0 <= a -> a <= b -> 0 < a + chp -> b + chp <= u -> hc u b chp <= hc u a chp).
  { intros a b Ha Hab Hac Hbu. unfold hc.
    assert (Ma : qmin chp (u - qmin a u) = chp) by qlra. assert (Mb : qmin chp (u - qmin b u) = chp) by qlra. rewrite Ma, Mb.
    pose proof (Fq_decr u (a + chp) (b + chp) Hu Hac ltac:(qlra) Hbu) as D.
    revert D. generalize (Fq u (a + chp)) (Fq u (b + chp)). intros fa fb D. toQ. absQ. cbn in *. nra. }
  assert (Above : forall a b, 0 <= a -> a <= b -> u <= a + chp -> hc u b chp <= hc u a chp).
  { intros a b Ha Hab Hau. unfold hc.
    assert (Hac : 0 < a + chp) by qlra. assert (Hbc : 0 < b + chp) by qlra.
    destruct (Fq_range u (a + chp) Hu Hac) as [A1 A2]. destruct (Fq_range u (b + chp) Hu Hbc) as [B1 B2].
    pose proof (Fq_lip8 u (a + chp) (b + chp) Hu Hau ltac:(qlra)) as L.
    revert A1 A2 B1 B2 L. generalize (Fq u (a + chp)) (Fq u (b + chp)). intros fa fb A1 A2 B1 B2 L.
    destruct (qleb_spec u b) as [Bu|Bu].
    - (* nothing of the use is left for cogeneration once the on-site production reaches the use *)
      assert (Mb : qmin chp (u - qmin b u) = 0) by qlra. rewrite Mb.
      assert (Ma : 0 <= qmin chp (u - qmin a u)) by qlra. revert Ma. generalize (qmin chp (u - qmin a u)). intros m Ma.
      toQ. absQ. cbn in *. nra.
    - assert (Ma : qmin chp (u - qmin a u) = u - a) by qlra. assert (Mb : qmin chp (u - qmin b u) = u - b) by qlra. rewrite Ma, Mb.
      apply (r3a_c u (u - a) (u - b) fa fb); [exact Hu|qlra|qlra|qlra|exact A1|].
      revert L. generalize (q8 * u * (fb - fa)). intros z L. qlra. }
  destruct (qleb_spec (pv' + chp) u) as [C1|C1]; [apply Below; assumption|].
  destruct (qleb_spec u (pv + chp)) as [C2|C2]; [apply Above; assumption|].
  (* pv + chp < u < pv' + chp: through the production at which pv + chp = u *)
  assert (M1 : hc u (u - chp) chp <= hc u pv chp) by (apply Below; qlra).
  assert (M2 : hc u pv' chp <= hc u (u - chp) chp) by (apply Above; qlra).
  revert M1 M2. generalize (hc u pv chp) (hc u (u - chp) chp) (hc u pv' chp). intros x y z M1 M2. qlra.
Qed.
