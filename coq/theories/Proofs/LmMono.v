(** * Load matching: the used production grows with the production, and no faster (C14, load matching mode)

    Scalar facts about g(u, p) = f(p/u) * min(u, p), f(x) = (x + 1/x - 1) / (x + 1/x) = (x^2 - x + 1) / (x^2 + 1):
    for a fixed use u > 0, g is non-decreasing in p and p - g(u, p) too. *)
From Coq Require Import QArith Lqa.
From Cteepbd Require Import Base.Num.

Section Poly.
  Open Scope Q_scope.
  Lemma sq_nn (a : Q) : 0 <= a * a. Proof. nra. Qed.

  Lemma lm_i (u p p' : Q) : 0 < p -> p <= p' -> p' <= u ->
    p * (p*p - p*u + u*u) * (p'*p' + u*u) <= p' * (p'*p' - p'*u + u*u) * (p*p + u*u).
  Proof.
    intros.
    assert (E : p' * (p'*p' - p'*u + u*u) * (p*p + u*u) - p * (p*p - p*u + u*u) * (p'*p' + u*u)
              == (p' - p) * (p*p*p'*p' + u*u*(p'*p' + p*p) - u*u*u*(p + p') + u*u*u*u)) by ring.
    assert (Q4 : 0 <= 4 * (p*p*p'*p' + u*u*(p'*p' + p*p) - u*u*u*(p + p') + u*u*u*u)).
    { assert (E2 : 4 * (p*p*p'*p' + u*u*(p'*p' + p*p) - u*u*u*(p + p') + u*u*u*u)
                   == 4*((p*p')*(p*p')) + (u*(2*p'-u))*(u*(2*p'-u)) + (u*(2*p-u))*(u*(2*p-u)) + 2*((u*u)*(u*u))) by ring.
      rewrite E2. pose proof (sq_nn (p*p')) as S1. pose proof (sq_nn (u*(2*p'-u))) as S2. pose proof (sq_nn (u*(2*p-u))) as S3. pose proof (sq_nn (u*u)) as S4.
      set (A := (p*p')*(p*p')) in *. set (B := (u*(2*p'-u))*(u*(2*p'-u))) in *. set (C := (u*(2*p-u))*(u*(2*p-u))) in *. set (D := (u*u)*(u*u)) in *.
      lra. }
    set (Qv := p*p*p'*p' + u*u*(p'*p' + p*p) - u*u*u*(p + p') + u*u*u*u) in *.
    assert (0 <= (p' - p) * Qv) by (apply Qmult_le_0_compat; lra). lra.
  Qed.

  Lemma lm_i_lip (u p p' : Q) : 0 < p -> p <= p' -> p' <= u ->
    p' * (p'*p' - p'*u + u*u) * (p*p + u*u) - p * (p*p - p*u + u*u) * (p'*p' + u*u) <= (p' - p) * ((p*p + u*u) * (p'*p' + u*u)).
  Proof.
    intros.
    assert (E : (p' - p) * ((p*p + u*u) * (p'*p' + u*u)) - (p' * (p'*p' - p'*u + u*u) * (p*p + u*u) - p * (p*p - p*u + u*u) * (p'*p' + u*u))
              == (p' - p) * (u*u*u*(p + p'))) by ring.
    assert (U : 0 <= u) by lra.
    assert (0 <= (p' - p) * (u*u*u*(p + p'))).
    { apply Qmult_le_0_compat; [lra|]. apply Qmult_le_0_compat; [|lra]. repeat apply Qmult_le_0_compat; exact U. }
    lra.
  Qed.

  Lemma lm_ii (u p p' : Q) : 0 < u -> u <= p -> p <= p' ->
    (p*p - p*u + u*u) * (p'*p' + u*u) <= (p'*p' - p'*u + u*u) * (p*p + u*u).
  Proof.
    intros.
    assert (E : (p'*p' - p'*u + u*u) * (p*p + u*u) - (p*p - p*u + u*u) * (p'*p' + u*u) == u * (p' - p) * (p*p' - u*u)) by ring.
    assert (PP : u*u <= p*p').
    { assert (u*u <= p*u) by (apply Qmult_le_compat_r; lra). assert (p*u <= p*p') by (rewrite !(Qmult_comm p); apply Qmult_le_compat_r; lra). lra. }
    assert (0 <= u * (p' - p) * (p*p' - u*u)) by (apply Qmult_le_0_compat; [apply Qmult_le_0_compat; lra|lra]).
    lra.
  Qed.

  Lemma lm_ii_lip (u p p' : Q) : 0 < u -> u <= p -> p <= p' ->
    u * ((p'*p' - p'*u + u*u) * (p*p + u*u) - (p*p - p*u + u*u) * (p'*p' + u*u)) <= (p' - p) * ((p*p + u*u) * (p'*p' + u*u)).
  Proof.
    intros.
    assert (E : (p' - p) * ((p*p + u*u) * (p'*p' + u*u)) - u * ((p'*p' - p'*u + u*u) * (p*p + u*u) - (p*p - p*u + u*u) * (p'*p' + u*u))
               == (p' - p) * ((p*p + u*u) * (p'*p' + u*u) - u*u*(p*p' - u*u))) by ring.
    assert (0 <= (p*p + u*u) * (p'*p' + u*u) - u*u*(p*p' - u*u)).
    { assert (E3 : (p*p + u*u) * (p'*p' + u*u) - u*u*(p*p' - u*u) == (p*p')*(p*p') + (u*u)*((p*p + p'*p' - p*p')) + 2*((u*u)*(u*u))) by ring.
      rewrite E3. pose proof (sq_nn (p*p')). pose proof (sq_nn (u*u)). pose proof (sq_nn u).
      assert (0 <= p*p + p'*p' - p*p').
      { assert (E4 : 4*(p*p + p'*p' - p*p') == (2*p - p')*(2*p - p') + 3*(p'*p')) by ring. pose proof (sq_nn (2*p - p')). pose proof (sq_nn p').
        set (X := (2*p - p')*(2*p - p')) in *. set (Y := p'*p') in *. set (Z := p*p + Y - p*p') in *. lra. }
      assert (0 <= (u*u) * (p*p + p'*p' - p*p')) by (apply Qmult_le_0_compat; assumption).
      set (A := (p*p')*(p*p')) in *. set (B := (u*u)*(u*u)) in *. set (C := (u*u)*(p*p + p'*p' - p*p')) in *. lra. }
    assert (0 <= (p' - p) * ((p*p + u*u) * (p'*p' + u*u) - u*u*(p*p' - u*u))) by (apply Qmult_le_0_compat; lra).
    lra.
  Qed.
End Poly.

Open Scope Qc_scope.

(** g(u, p) written without the ratio p/u *)
Definition gnum (u p : Qc) : Qc := p*p - p*u + u*u.
Definition gden (u p : Qc) : Qc := p*p + u*u.
Definition gl (u p : Qc) : Qc := gnum u p * qmin u p / gden u p.

Lemma gden_pos u p : 0 < u -> 0 < gden u p.
Proof. intros H. unfold gden. toQ. absQ. cbn in *. pose proof (sq_nn Qp). nra. Qed.

Lemma div_le_cross (a b c d : Qc) : 0 < b -> 0 < d -> a * d <= c * b -> a / b <= c / d.
Proof.
  intros Hb Hd H. toQ. absQ. cbn in *.
  apply Qle_shift_div_l; [lra|]. unfold Qdiv. rewrite <- Qmult_assoc, (Qmult_comm (/ _)), Qmult_assoc.
  apply Qle_shift_div_r; [lra|]. lra.
Qed.

Lemma div_sub_le_cross (a b c d e : Qc) : 0 < b -> 0 < d -> c * b - a * d <= e * (b * d) -> c / d - a / b <= e.
Proof.
  intros Hb Hd H.
  assert (E : c / d - a / b = (c * b - a * d) / (b * d)).
  { field. split; intro K; rewrite K in *; qlra. }
  rewrite E. clear E.
  assert (P : 0 < b * d) by (toQ; absQ; cbn in *; nra).
  revert H P. generalize (c * b - a * d) (b * d). intros x y H P.
  toQ. absQ. cbn in *. apply Qle_shift_div_r; [lra|]. lra.
Qed.

(** monotone, and 1-Lipschitz *)
Theorem gl_mono u p p' : 0 < u -> 0 < p -> p <= p' -> gl u p <= gl u p' /\ gl u p' - gl u p <= p' - p.
Proof.
  intros Hu Hp Hpp.
  assert (Core : forall a b, 0 < a -> a <= b -> (b <= u \/ u <= a) -> gl u a <= gl u b /\ gl u b - gl u a <= b - a).
  { intros a b Ha Hab [Hbu|Hua]; unfold gl.
    - assert (Ma : qmin u a = a) by qlra. assert (Mb : qmin u b = b) by qlra. rewrite Ma, Mb. split.
      + apply div_le_cross; [apply gden_pos, Hu|apply gden_pos, Hu|]. unfold gnum, gden.
        pose proof (lm_i (this u) (this a) (this b)) as L. toQ. absQ. cbn in *. lra.
      + apply div_sub_le_cross; [apply gden_pos, Hu|apply gden_pos, Hu|]. unfold gnum, gden.
        pose proof (lm_i_lip (this u) (this a) (this b)) as L. toQ. absQ. cbn in *. lra.
    - assert (Ma : qmin u a = u) by qlra. assert (Mb : qmin u b = u) by qlra. rewrite Ma, Mb. split.
      + apply div_le_cross; [apply gden_pos, Hu|apply gden_pos, Hu|]. unfold gnum, gden.
        pose proof (lm_ii (this u) (this a) (this b)) as L. toQ. absQ. cbn in *.
        assert (L' : ((Qa * Qa - Qa * Qu + Qu * Qu) * (Qb * Qb + Qu * Qu) <= (Qb * Qb - Qb * Qu + Qu * Qu) * (Qa * Qa + Qu * Qu))%Q) by (apply L; lra).
        nra.
      + apply div_sub_le_cross; [apply gden_pos, Hu|apply gden_pos, Hu|]. unfold gnum, gden.
        pose proof (lm_ii_lip (this u) (this a) (this b)) as L. toQ. absQ. cbn in *.
        assert (L' : (Qu * ((Qb * Qb - Qb * Qu + Qu * Qu) * (Qa * Qa + Qu * Qu) - (Qa * Qa - Qa * Qu + Qu * Qu) * (Qb * Qb + Qu * Qu))
                      <= (Qb - Qa) * ((Qa * Qa + Qu * Qu) * (Qb * Qb + Qu * Qu)))%Q) by (apply L; lra).
        lra. }
  destruct (qleb_spec p' u) as [A|A]; [apply Core; [exact Hp|exact Hpp|now left]|].
  destruct (qleb_spec u p) as [B|B]; [apply Core; [exact Hp|exact Hpp|now right]|].
  (* p < u < p': through u *)
  destruct (Core p u Hp ltac:(qlra) ltac:(left; apply Qcle_refl)) as [M1 L1].
  destruct (Core u p' Hu ltac:(qlra) ltac:(right; apply Qcle_refl)) as [M2 L2].
  revert M1 L1 M2 L2. generalize (gl u p) (gl u u) (gl u p'). intros x y z M1 L1 M2 L2. split; qlra.
Qed.
