(** * Facts about Components::normalize (C05, C06) *)
From Cteepbd Require Import Model.Components.
From Coq Require Import Permutation.
Open Scope Qc_scope.

(** ** Completion only appends production components of the completed source *)
Definition is_completion (src : ProdSource) (e : Energy) : Prop :=
  exists i v, e = EProd i src v comment_completion.

Lemma completion_for_shape src env i : Forall (is_completion src) (completion_for src env i).
Proof.
  unfold completion_for. destruct (unbalanced env i) as [v|]; [|constructor].
  destruct (qeqb (qsum v) 0); repeat constructor. now exists i, v.
Qed.

Lemma complete_with_appends cr ids data :
  exists added, complete_with cr ids data = data ++ added /\
    match source_of_carrier cr with Some src => Forall (is_completion src) added | None => added = [] end.
Proof.
  unfold complete_with. destruct (source_of_carrier cr) as [src|].
  - eexists. split; [reflexivity|]. induction ids as [|i ids IH]; cbn [flat_map]; [constructor|].
    apply Forall_app. split; [apply completion_for_shape|exact IH].
  - exists []. now rewrite app_nil_r.
Qed.

(** ** The completed amount: max(0, use - declared production) of the same system *)
Definition used_of (env : list Energy) (i : Z) := filter (fun e => has_id i e && is_used e) env.
Definition prod_of (env : list Energy) (i : Z) := filter (fun e => has_id i e && is_generated e) env.

Lemma unbalanced_spec env i v : unbalanced env i = Some v ->
  used_of env i <> [] /\
  (prod_of env i = [] -> v = veclistsum (used_of env i)) /\
  (prod_of env i <> [] ->
   v = map (fun p => qmax 0 (fst p - snd p)) (combine (veclistsum (used_of env i)) (veclistsum (prod_of env i)))).
Proof.
  unfold unbalanced. fold (used_of env i). fold (prod_of env i).
  destruct (used_of env i) as [|u us] eqn:U; [discriminate|]. intros H. injection H as <-.
  split; [discriminate|]. split.
  - intros ->. reflexivity.
  - intros Hp. destruct (prod_of env i) as [|p ps]; [contradiction|]. apply map_ext. intros [a b]. cbn [fst snd].
    unfold qmax. destruct (qltb_spec 0 (a - b)) as [L|L]; destruct (qleb_spec 0 (a - b)) as [M|M]; try reflexivity.
    + exfalso. apply M. revert L. generalize (a - b). intros. qlra.
    + revert L M. generalize (a - b). intros d L M. qlra.
Qed.

(** no pooling: what is completed for system [i] only depends on the components of system [i] *)
Lemma filter_id_conj p i env : filter (fun e => has_id i e && p e) env = filter p (filter (has_id i) env).
Proof.
  induction env as [|e env IH]; [reflexivity|]. cbn [filter]. destruct (has_id i e); cbn [andb filter]; [|exact IH].
  destruct (p e); now rewrite IH.
Qed.

Lemma completion_local src env env' i :
  filter (has_id i) env = filter (has_id i) env' -> completion_for src env i = completion_for src env' i.
Proof.
  intros H. unfold completion_for, unbalanced. now rewrite !filter_id_conj, H.
Qed.

(** nothing is completed for a system without use of the carrier *)
Lemma completion_none src env i : used_of env i = [] -> completion_for src env i = [].
Proof. unfold completion_for, unbalanced. fold (used_of env i). now intros ->. Qed.

(** ** Auxiliary assignment *)

(** components of other systems are untouched *)
Lemma set_aux_other i s e : has_id i e = false -> set_aux_service i s e = e.
Proof.
  unfold has_id. destruct e; cbn; try reflexivity. intros H. now rewrite H.
Qed.

Lemma news_same_id i (f : Service -> list Qc) l :
  filter (fun e => negb (has_id i e)) (map (fun s => EAux i s (f s) comment_aux) l) = [].
Proof.
  induction l as [|s l IH]; [reflexivity|]. cbn [map filter]. unfold has_id at 1. cbn [e_id]. rewrite Z.eqb_refl. exact IH.
Qed.

Lemma kept_others i data :
  filter (fun e => negb (has_id i e)) (filter (fun e => negb (is_aux_of i e)) data)
  = filter (fun e => negb (has_id i e)) data.
Proof.
  induction data as [|e l IH]; [reflexivity|]. cbn [filter]. unfold is_aux_of at 1.
  destruct (has_id i e) eqn:Hi; cbn [negb andb].
  - destruct (is_aux e); cbn [andb negb filter]; rewrite ?Hi; cbn [negb]; exact IH.
  - rewrite andb_false_r. cbn [negb filter]. rewrite Hi. cbn [negb]. now rewrite IH.
Qed.

Lemma assign_aux_id_others data i d :
  assign_aux_id data i = Ok d ->
  filter (fun e => negb (has_id i e)) d = filter (fun e => negb (has_id i e)) data.
Proof.
  unfold assign_aux_id. destruct (used_services data i) as [|s [|s' l]].
  - destruct (_ && _); [discriminate|]. intros H. injection H as <-.
    now rewrite filter_app, (news_same_id i (fun s => _)), app_nil_r, kept_others.
  - intros H. injection H as <-. induction data as [|e l IH]; [reflexivity|]. cbn [map filter].
    destruct (has_id i e) eqn:Hi.
    + assert (Hs : has_id i (set_aux_service i s e) = true).
      { destruct e; try exact Hi. unfold has_id in Hi. cbn [e_id] in Hi. unfold set_aux_service. rewrite Hi. exact Hi. }
      rewrite Hs. cbn [negb]. exact IH.
    + rewrite set_aux_other by assumption. rewrite Hi. cbn [negb]. now rewrite IH.
  - destruct (_ && _); [discriminate|]. intros H. injection H as <-.
    now rewrite filter_app, (news_same_id i (fun s => _)), app_nil_r, kept_others.
Qed.

(** non-auxiliary components are kept, in order *)
Lemma assign_aux_id_keeps data i d :
  assign_aux_id data i = Ok d -> filter (fun e => negb (is_aux e)) d = filter (fun e => negb (is_aux e)) data.
Proof.
  unfold assign_aux_id.
  assert (K : forall auxval : Service -> list Qc,
             filter (fun e => negb (is_aux e))
               (filter (fun e => negb (is_aux_of i e)) data ++ map (fun s => EAux i s (auxval s) comment_aux) (out_services data i))
             = filter (fun e => negb (is_aux e)) data).
  { intros auxval. rewrite filter_app.
    assert (E : filter (fun e => negb (is_aux e)) (map (fun s => EAux i s (auxval s) comment_aux) (out_services data i)) = []).
    { induction (out_services data i) as [|s l IH]; [reflexivity|]. exact IH. }
    rewrite E, app_nil_r. clear E. induction data as [|e l IH]; [reflexivity|]. cbn [filter]. unfold is_aux_of at 1.
    destruct (is_aux e) eqn:A; cbn [andb negb].
    - destruct (has_id i e); cbn [negb filter]; rewrite ?A; cbn [negb]; exact IH.
    - cbn [filter]. rewrite A. cbn [negb]. now rewrite IH. }
  destruct (used_services data i) as [|s [|s' l]].
  - destruct (_ && _); [discriminate|]. intros H. injection H as <-. apply (K (fun s => _)).
  - intros H. injection H as <-. clear K. induction data as [|e l IH]; [reflexivity|]. cbn [map filter].
    assert (A : is_aux (set_aux_service i s e) = is_aux e) by (destruct e; cbn; try reflexivity; destruct (Z.eqb _ _); reflexivity).
    rewrite A. destruct (is_aux e) eqn:A'; cbn [negb]; [exact IH|].
    assert (E : set_aux_service i s e = e) by (destruct e; cbn in *; try reflexivity; discriminate). now rewrite E, IH.
  - destruct (_ && _); [discriminate|]. intros H. injection H as <-. apply (K (fun s => _)).
Qed.

Lemma assign_aux_ids_keeps ids : forall data d,
  assign_aux_ids data ids = Ok d -> filter (fun e => negb (is_aux e)) d = filter (fun e => negb (is_aux e)) data.
Proof.
  induction ids as [|i ids IH]; cbn [assign_aux_ids]; intros data d H.
  - now injection H as <-.
  - destruct (assign_aux_id data i) as [d1|] eqn:E; cbn [bind] in H; [|discriminate].
    rewrite (IH _ _ H). exact (assign_aux_id_keeps data i d1 E).
Qed.

(** single-service system: every auxiliary component of the system gets that service, values unchanged *)
Lemma assign_aux_single data i s :
  used_services data i = [s] -> assign_aux_id data i = Ok (map (set_aux_service i s) data).
Proof. unfold assign_aux_id. now intros ->. Qed.

(** the shares of a multi-service system are non-negative and add up to one where there is output *)
Lemma qabs_nonneg x : 0 <= qabs x.
Proof. qlra. Qed.

Lemma q_tot_nonneg data i t : 0 <= q_tot data i t.
Proof. unfold q_tot. apply qsum_map_nonneg. intros s _. apply qabs_nonneg. Qed.

Lemma aux_share_nonneg data i s t : 0 <= aux_share data i s t.
Proof.
  unfold aux_share. destruct (qltb_spec 0 (q_tot data i t)) as [H|H]; [|apply Qcle_refl].
  apply qdiv_nonneg; [apply qabs_nonneg|exact H].
Qed.

Lemma qsum_map_div {A} (f : A -> Qc) d l : qsum (map (fun a => f a / d) l) = qsum (map f l) / d.
Proof. unfold Qcdiv. apply qsum_map_scale_r. Qed.

Lemma aux_share_total data i t : 0 < q_tot data i t ->
  qsum (map (fun s => aux_share data i s t) (out_services data i)) = 1.
Proof.
  intros H. unfold aux_share. destruct (qltb_spec 0 (q_tot data i t)); [|contradiction].
  rewrite qsum_map_div. fold (q_tot data i t). field. intro Z. rewrite Z in H. qlra.
Qed.

(** conservation: at a step where the system has some output, the reassigned auxiliaries add up to
    the declared ones *)
Lemma aux_split_conserves data i t (w : Qc) : 0 < q_tot data i t ->
  qsum (map (fun s => aux_share data i s t * w) (out_services data i)) = w.
Proof. intros H. rewrite qsum_map_scale_r, aux_share_total by assumption. ring. Qed.

(** error instead of a silent loss when there is no output at all *)
Lemma assign_aux_error data i :
  (forall s, used_services data i <> [s]) ->
  0 < qsum (veclistsum (filter (is_aux_of i) data)) ->
  qsum (map (q_tot data i) (seq 0 (num_steps_of data))) = 0 ->
  assign_aux_id data i = Err WrongInput.
Proof.
  intros Hs Ha Hq. unfold assign_aux_id.
  destruct (used_services data i) as [|s [|s' l]]; try (exfalso; now apply (Hs s)).
  - destruct (qltb_spec 0 (qsum (veclistsum (filter (is_aux_of i) data)))); [|contradiction]. rewrite Hq.
    destruct (qeqb_spec 0 0); [reflexivity|congruence].
  - destruct (qltb_spec 0 (qsum (veclistsum (filter (is_aux_of i) data)))); [|contradiction]. rewrite Hq.
    destruct (qeqb_spec 0 0); [reflexivity|congruence].
Qed.

(** ** Sorting *)
Lemma insert_by_id_perm x l : Permutation (insert_by_id x l) (x :: l).
Proof.
  induction l as [|y l IH]; cbn [insert_by_id]; [apply Permutation_refl|].
  destruct (Z.leb (e_id x) (e_id y)); [apply Permutation_refl|].
  eapply Permutation_trans; [apply perm_skip, IH|apply perm_swap].
Qed.

Lemma sort_by_id_perm l : Permutation (sort_by_id l) l.
Proof.
  induction l as [|x l IH]; [apply Permutation_refl|]. cbn [sort_by_id fold_right].
  eapply Permutation_trans; [apply insert_by_id_perm|]. now apply perm_skip.
Qed.

(** the result is sorted by id and components with the same id keep their relative order *)
Fixpoint sorted_by_id (l : list Energy) : Prop :=
  match l with
  | [] => True
  | x :: l' => match l' with [] => True | y :: _ => (e_id x <= e_id y)%Z end /\ sorted_by_id l'
  end.

Lemma insert_sorted x l : sorted_by_id l -> sorted_by_id (insert_by_id x l).
Proof.
  induction l as [|y l IH]; cbn [insert_by_id]; intros H; [cbn; tauto|].
  destruct (Z.leb_spec (e_id x) (e_id y)) as [L|L].
  - cbn [sorted_by_id]. split; [exact L|exact H].
  - cbn [sorted_by_id] in H |- *. destruct H as [H1 H2]. specialize (IH H2).
    split; [|exact IH]. destruct l as [|z l]; cbn [insert_by_id]; [lia|].
    destruct (Z.leb (e_id x) (e_id z)); [lia|exact H1].
Qed.

Lemma sort_by_id_sorted l : sorted_by_id (sort_by_id l).
Proof. induction l as [|x l IH]; [exact I|]. cbn [sort_by_id fold_right]. now apply insert_sorted. Qed.

Lemma insert_filter_id i x l :
  filter (has_id i) (insert_by_id x l) = filter (has_id i) (x :: l).
Proof.
  induction l as [|y l IH]; [reflexivity|]. cbn [insert_by_id].
  destruct (Z.leb_spec (e_id x) (e_id y)) as [L|L]; [reflexivity|].
  cbn [filter] in *. rewrite IH. unfold has_id.
  destruct (Z.eqb_spec (e_id y) i) as [Ey|Ey]; destruct (Z.eqb_spec (e_id x) i) as [Ex|Ex]; try reflexivity. lia.
Qed.

Lemma sort_by_id_stable i l : filter (has_id i) (sort_by_id l) = filter (has_id i) l.
Proof.
  induction l as [|x l IH]; [reflexivity|]. cbn [sort_by_id fold_right]. rewrite insert_filter_id.
  cbn [filter]. fold (sort_by_id l). now rewrite IH.
Qed.

(** ** normalize keeps every declared non-auxiliary component *)
Lemma filter_perm {A} (p : A -> bool) l l' : Permutation l l' -> Permutation (filter p l) (filter p l').
Proof. induction 1; cbn [filter]; try (destruct (p x)); try (destruct (p y)); eauto using Permutation. Qed.

Lemma normalize_keeps data d : normalize_data data = Ok d ->
  exists added, Permutation (filter (fun e => negb (is_aux e)) d) (filter (fun e => negb (is_aux e)) data ++ added)
    /\ Forall (fun e => is_completion PS_EAMBIENTE e \/ is_completion PS_TERMOSOLAR e) added.
Proof.
  unfold normalize_data, complete. intros H.
  destruct (complete_with_appends EAMBIENTE (ids_of (filter (has_carrier EAMBIENTE) data)) data) as (a1 & E1 & F1).
  cbn in F1. rewrite E1 in H.
  destruct (complete_with_appends TERMOSOLAR (ids_of (filter (has_carrier TERMOSOLAR) (data ++ a1))) (data ++ a1)) as (a2 & E2 & F2).
  cbn in F2. rewrite E2 in H.
  destruct (assign_aux ((data ++ a1) ++ a2)) as [d3|] eqn:A; cbn [bind] in H; [|discriminate].
  injection H as <-. unfold assign_aux in A. apply assign_aux_ids_keeps in A.
  exists (a1 ++ a2). split.
  - eapply Permutation_trans; [apply filter_perm, sort_by_id_perm|]. rewrite A, !filter_app.
    assert (N : forall src l, Forall (is_completion src) l -> filter (fun e => negb (is_aux e)) l = l).
    { intros src l Hl. induction Hl as [|e l (i & v & ->) _ IH]; [reflexivity|]. cbn. now rewrite IH. }
    rewrite (N _ _ F1), (N _ _ F2), app_assoc. apply Permutation_refl.
  - apply Forall_app. split; eapply Forall_impl; try eassumption; intros; [now left|now right].
Qed.
