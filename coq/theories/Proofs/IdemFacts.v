(** * Preparing a prepared factor set changes nothing; default export factors (C07) *)
From Cteepbd Require Import Model.Factors Proofs.FactorFacts Proofs.CompleteFacts.
Open Scope Qc_scope.

Lemma factor_eta f : mkFactor (f_cr f) (f_src f) (f_dest f) (f_step f) (f_val f) (f_cmt f) = f.
Proof. destruct f; reflexivity. Qed.

Lemma update_first_noop k v fs : lookk fs k = Some v -> update_first k v fs = Some fs.
Proof.
  induction fs as [|f fs IH]; [rewrite lookk_nil; discriminate|]. rewrite lookk_cons. cbn [update_first].
  destruct (kmatch k f).
  - intros H. injection H as <-. now rewrite factor_eta.
  - intros H. now rewrite (IH H).
Qed.

Lemma update_noop fs k v c : lookk fs k = Some v -> update_wfactor fs k v c = fs.
Proof. intros H. unfold update_wfactor. now rewrite update_first_noop. Qed.

Lemma ensure_noop fs k v c : lookk fs k <> None -> ensure_wfactor fs k v c = fs.
Proof.
  intros H. unfold ensure_wfactor. destruct (existsb (kmatch k) fs) eqn:E; [reflexivity|].
  apply lookk_none_exists in E. congruence.
Qed.

(** carriers of the factors produced by update / ensure *)
Lemma update_first_carriers k v fs r f : update_first k v fs = Some r -> In f r -> exists f0, In f0 fs /\ f_cr f0 = f_cr f.
Proof.
  revert r. induction fs as [|f0 fs IH]; intros r H Hf; [discriminate|]. cbn [update_first] in H.
  destruct (kmatch k f0).
  - injection H as <-. destruct Hf as [E|Hf]; [exists f0; split; [now left|now rewrite <- E]|exists f; split; [now right|reflexivity]].
  - destruct (update_first k v fs) as [r'|]; [|discriminate]. injection H as <-.
    destruct Hf as [E|Hf]; [exists f0; split; [now left|now rewrite E]|].
    destruct (IH r' eq_refl Hf) as (f1 & H1 & E1). exists f1. split; [now right|exact E1].
Qed.

Definition key_cr (k : fkey) : Carrier := let '(c, _, _, _) := k in c.

Lemma new_factor_cr k v c : f_cr (new_factor k v c) = key_cr k.
Proof. destruct k as [[[a b] d] e]. reflexivity. Qed.

Lemma update_carriers fs k v c f : In f (update_wfactor fs k v c) -> (exists f0, In f0 fs /\ f_cr f0 = f_cr f) \/ f_cr f = key_cr k.
Proof.
  unfold update_wfactor. destruct (update_first k v fs) as [r|] eqn:E.
  - intros H. left. eapply update_first_carriers; eassumption.
  - intros H. apply in_app_iff in H as [H|[<-|[]]]; [left; eauto|right; apply new_factor_cr].
Qed.

Lemma ensure_carriers fs k v c f : In f (ensure_wfactor fs k v c) -> In f fs \/ f_cr f = key_cr k.
Proof.
  unfold ensure_wfactor. destruct (existsb (kmatch k) fs); [now left|].
  intros H. apply in_app_iff in H as [H|[<-|[]]]; [now left|right; apply new_factor_cr].
Qed.

Definition cr_in (fs : list Factor) (c : Carrier) : Prop := exists f, In f fs /\ f_cr f = c.

Section Idem.
  Variables (fs fs' : list Factor) (d1 d2 : RNC).
  Hypothesis Hnorm : normalize_factors fs d1 d2 = Ok fs'.

  (** every carrier of the supplied set has its grid supply factor in the prepared set *)
  Lemma carrier_grid_defined c : In c (carriers_of fs) -> lookk fs' (grid_key c) <> None.
  Proof.
    intros Hc. destruct (norm_parts fs fs' d1 d2 Hnorm) as (fs2 & E & Efs).
    pose proof Hnorm as Hn. rewrite normalize_unfold in Hn. cbv zeta in Hn.
    destruct (forallb (fun c => existsb (kmatch (grid_key c)) (forced_updates fs)) (carriers_of fs)) eqn:G; [|discriminate].
    rewrite forallb_forall in G. clear Hn.
    rewrite Efs. apply ensure_keeps_defined, ensure_keeps_defined. eapply ensure_exports_keeps_defined; [exact E|].
    specialize (G c Hc). apply lookk_some_exists in G as [x Gx]. congruence.
  Qed.

  (** the factors fixed by the method; the one of on-site electricity when the set mentions electricity *)
  Lemma forced_fixed k : In k forced_keys -> (k = K_EL_INSITU -> In ELECTRICIDAD (carriers_of fs)) -> lookk fs' k = Some one.
  Proof.
    intros H Hel. cbn in H. destruct H as [<-|[<-|[<-|[<-|[<-|[]]]]]];
      try (apply (normalize_forced fs d1 d2 fs'); [exact Hnorm|cbn; tauto]).
    destruct (norm_parts fs fs' d1 d2 Hnorm) as (fs2 & E & Efs). rewrite Efs.
    apply ensure_keeps, ensure_keeps. eapply ensure_exports_keeps; [exact E|].
    apply (insitu_supply_forced fs fs' d1 d2 Hnorm); [cbn; tauto|]. apply carrier_grid_defined, Hel. reflexivity.
  Qed.

  (** where the carriers of the prepared set come from *)
  Lemma forced_updates_carriers f : In f (forced_updates fs) ->
    cr_in fs (f_cr f) \/ In (f_cr f) [EAMBIENTE; TERMOSOLAR] \/ (f_cr f = ELECTRICIDAD /\ cr_in fs ELECTRICIDAD).
  Proof.
    unfold forced_updates.
    assert (S : forall g k v c f0, (forall f1, In f1 g -> cr_in fs (f_cr f1) \/ In (f_cr f1) [EAMBIENTE; TERMOSOLAR]) ->
                In (key_cr k) [EAMBIENTE; TERMOSOLAR] ->
                In f0 (update_wfactor g k v c) -> cr_in fs (f_cr f0) \/ In (f_cr f0) [EAMBIENTE; TERMOSOLAR]).
    { intros g k v c f0 Hg Hk H0. apply update_carriers in H0 as [(f1 & H1 & E1)|E0].
      - rewrite <- E1. now apply Hg. - right. now rewrite E0. }
    set (g1 := update_wfactor fs K_EAMB_INSITU one []).
    set (g2 := update_wfactor g1 K_EAMB_RED one []).
    set (g3 := update_wfactor g2 K_TERMO_INSITU one []).
    set (g4 := update_wfactor g3 K_TERMO_RED one []).
    assert (H0 : forall f1, In f1 fs -> cr_in fs (f_cr f1) \/ In (f_cr f1) [EAMBIENTE; TERMOSOLAR]) by (intros f1 H1; left; exists f1; tauto).
    assert (H1 : forall f1, In f1 g1 -> cr_in fs (f_cr f1) \/ In (f_cr f1) [EAMBIENTE; TERMOSOLAR]) by (intros f1; apply S; [exact H0|cbn; tauto]).
    assert (H2 : forall f1, In f1 g2 -> cr_in fs (f_cr f1) \/ In (f_cr f1) [EAMBIENTE; TERMOSOLAR]) by (intros f1; apply S; [exact H1|cbn; tauto]).
    assert (H3 : forall f1, In f1 g3 -> cr_in fs (f_cr f1) \/ In (f_cr f1) [EAMBIENTE; TERMOSOLAR]) by (intros f1; apply S; [exact H2|cbn; tauto]).
    assert (H4 : forall f1, In f1 g4 -> cr_in fs (f_cr f1) \/ In (f_cr f1) [EAMBIENTE; TERMOSOLAR]) by (intros f1; apply S; [exact H3|cbn; tauto]).
    destruct (existsb (Carrier_beq ELECTRICIDAD) (carriers_of fs)) eqn:E.
    - intros H. apply update_carriers in H as [(f1 & Hf1 & E1)|E0].
      + rewrite <- E1. destruct (H4 f1 Hf1); tauto.
      + right. right. split; [exact E0|]. apply existsb_exists in E as (c & Hc & Ec). apply Carrier_beq_eq in Ec. subst c.
        now apply in_carriers_of in Hc.
    - intros H. destruct (H4 f H); tauto.
  Qed.

  Definition extra_crs : list Carrier := [EAMBIENTE; TERMOSOLAR; ELECTRICIDAD; RED1; RED2].

  Lemma ensure_exports_carriers wf cs : forall g g' f, (forall c s, In (c, s) cs -> In c extra_crs) ->
    ensure_exports wf g cs = Ok g' -> In f g' -> In f g \/ In (f_cr f) extra_crs.
  Proof.
    induction cs as [|[c0 s0] cs IH]; intros g g' f Hcs H Hf; cbn [ensure_exports] in H.
    - injection H as <-. now left.
    - set (g1 := match lookk g (c0, s0, SUMINISTRO, STEP_A) with Some v => _ | None => g end) in *.
      assert (C0 : In c0 extra_crs) by (apply (Hcs c0 s0); now left).
      assert (G1 : In f g1 -> In f g \/ In (f_cr f) extra_crs).
      { intros Hin. unfold g1 in Hin. destruct (lookk g (c0, s0, SUMINISTRO, STEP_A)); [|now left].
        apply ensure_carriers in Hin as [Hin|E]; [|right; now rewrite E].
        apply ensure_carriers in Hin as [Hin|E]; [|right; now rewrite E]. now left. }
      destruct (lookk g1 (grid_key c0)) as [gv|].
      + destruct (IH _ _ f (fun c s Hc => Hcs c s (or_intror Hc)) H Hf) as [Hin|Hx]; [|now right].
        apply ensure_carriers in Hin as [Hin|E]; [|right; now rewrite E].
        apply ensure_carriers in Hin as [Hin|E]; [|right; now rewrite E]. now apply G1.
      + destruct (existsb (Carrier_beq c0) wf); [discriminate|].
        destruct (IH _ _ f (fun c s Hc => Hcs c s (or_intror Hc)) H Hf) as [Hin|Hx]; [|now right]. now apply G1.
  Qed.

  (** a carrier the set says nothing about gets no export factors *)
  Lemma lookk_absent g c s d st : ~ cr_in g c -> lookk g (c, s, d, st) = None.
  Proof.
    intros N. destruct (lookk g (c, s, d, st)) eqn:L; [|reflexivity]. exfalso. apply N.
    apply in_carriers_of. apply (lookk_defined_carrier g c s d st). congruence.
  Qed.

  Lemma ensure_absent g k v cm c : ~ cr_in g c -> key_cr k <> c -> ~ cr_in (ensure_wfactor g k v cm) c.
  Proof. intros N Hk (f & Hf & Ef). apply ensure_carriers in Hf as [Hf|E]; [apply N; exists f; tauto|congruence]. Qed.

  Lemma ensure_exports_absent wf cs c : forall g g', ~ cr_in g c -> ensure_exports wf g cs = Ok g' -> ~ cr_in g' c.
  Proof.
    induction cs as [|[c0 s0] cs IH]; intros g g' N H; cbn [ensure_exports] in H; [now injection H as <-|].
    set (g1 := match lookk g (c0, s0, SUMINISTRO, STEP_A) with Some v => _ | None => g end) in *.
    destruct (Carrier_eq_dec c0 c) as [->|Nc].
    - assert (E1 : g1 = g) by (unfold g1; now rewrite (lookk_absent g c s0 SUMINISTRO STEP_A N)).
      rewrite E1 in H. unfold grid_key in H. rewrite (lookk_absent g c RED SUMINISTRO STEP_A N) in H.
      destruct (existsb (Carrier_beq c) wf); [discriminate|]. eapply IH; eassumption.
    - assert (N1 : ~ cr_in g1 c).
      { unfold g1. destruct (lookk g (c0, s0, SUMINISTRO, STEP_A)); [|exact N]. apply ensure_absent; [apply ensure_absent; [exact N|exact Nc]|exact Nc]. }
      destruct (lookk g1 (grid_key c0)) as [gv|].
      + eapply IH; [|exact H]. apply ensure_absent; [apply ensure_absent; [exact N1|exact Nc]|exact Nc].
      + destruct (existsb (Carrier_beq c0) wf); [discriminate|]. eapply IH; eassumption.
  Qed.

  Lemma el_back : In ELECTRICIDAD (carriers_of fs') -> In ELECTRICIDAD (carriers_of fs).
  Proof.
    intros H. destruct (in_dec Carrier_eq_dec ELECTRICIDAD (carriers_of fs)) as [Y|N]; [exact Y|]. exfalso.
    destruct (norm_parts fs fs' d1 d2 Hnorm) as (fs2 & E & Efs).
    assert (N0 : ~ cr_in (forced_updates fs) ELECTRICIDAD).
    { intros (f & Hf & Ef). apply forced_updates_carriers in Hf as [Hin|[Hin|[_ Hin]]].
      - apply N, in_carriers_of. rewrite <- Ef. exact Hin.
      - rewrite Ef in Hin. cbn in Hin. destruct Hin as [Q|[Q|[]]]; discriminate.
      - apply N, in_carriers_of, Hin. }
    pose proof (ensure_exports_absent _ _ ELECTRICIDAD _ _ N0 E) as N2.
    apply in_carriers_of in H. rewrite Efs in H.
    revert H. apply ensure_absent; [apply ensure_absent; [exact N2|discriminate]|discriminate].
  Qed.

  Lemma forced_updates_noop : forced_updates fs' = fs'.
  Proof.
    unfold forced_updates.
    rewrite (update_noop fs' K_EAMB_INSITU one []) by (apply forced_fixed; [cbn; tauto|discriminate]).
    rewrite (update_noop fs' K_EAMB_RED one []) by (apply forced_fixed; [cbn; tauto|discriminate]).
    rewrite (update_noop fs' K_TERMO_INSITU one []) by (apply forced_fixed; [cbn; tauto|discriminate]).
    rewrite (update_noop fs' K_TERMO_RED one []) by (apply forced_fixed; [cbn; tauto|discriminate]).
    destruct (existsb (Carrier_beq ELECTRICIDAD) (carriers_of fs')) eqn:X; [|reflexivity]. apply update_noop. apply forced_fixed; [cbn; tauto|].
    intros _. apply el_back. apply existsb_exists in X as (c & Hc & Ec). apply Carrier_beq_eq in Ec. now subst c.
  Qed.

  (** every carrier of the prepared set has its grid supply factor *)
  Lemma prepared_grid c : In c (carriers_of fs') -> lookk fs' (grid_key c) <> None.
  Proof.
    intros Hc. destruct (Carrier_eq_dec c ELECTRICIDAD) as [->|Nel]; [apply carrier_grid_defined, el_back, Hc|].
    apply in_carriers_of in Hc as (f & Hf & <-).
    destruct (norm_parts fs fs' d1 d2 Hnorm) as (fs2 & E & Efs).
    assert (Extra : forall c, In c extra_crs -> c <> ELECTRICIDAD -> lookk fs' (grid_key c) <> None).
    { intros c Hx Nc. cbn in Hx. destruct Hx as [<-|[<-|[<-|[<-|[<-|[]]]]]].
      - change (grid_key EAMBIENTE) with K_EAMB_RED. rewrite forced_fixed; [discriminate|cbn; tauto|discriminate].
      - change (grid_key TERMOSOLAR) with K_TERMO_RED. rewrite forced_fixed; [discriminate|cbn; tauto|discriminate].
      - congruence.
      - rewrite Efs. apply ensure_keeps_defined. change (grid_key RED1) with K_RED1. apply ensure_defines.
      - rewrite Efs. change (grid_key RED2) with K_RED2. apply ensure_defines. }
    rewrite Efs in Hf.
    apply ensure_carriers in Hf as [Hf|Ef]; [|apply Extra; [rewrite Ef; cbn; tauto|exact Nel]].
    apply ensure_carriers in Hf as [Hf|Ef]; [|apply Extra; [rewrite Ef; cbn; tauto|exact Nel]].
    apply (ensure_exports_carriers _ exp_carriers _ _ f) in E; [|intros c s Hcs; cbn in Hcs; destruct Hcs as [Q|[Q|[Q|[]]]]; injection Q as <- <-; cbn; tauto|exact Hf].
    destruct E as [Hin|Hx]; [|now apply Extra].
    apply forced_updates_carriers in Hin as [Hin|[Hin|[Hin _]]].
    - apply carrier_grid_defined, in_carriers_of, Hin.
    - apply Extra; [cbn in Hin |- *; tauto|exact Nel].
    - congruence.
  Qed.

  Lemma ensure_exports_noop cs : (forall c s, In (c, s) cs -> In (c, s) exp_carriers) -> ensure_exports (carriers_of fs') fs' cs = Ok fs'.
  Proof.
    induction cs as [|[c s] cs IH]; intros H; cbn [ensure_exports]; [reflexivity|].
    assert (Hin : In (c, s) exp_carriers) by (apply H; now left).
    assert (Hs : s = INSITU) by (cbn in Hin; destruct Hin as [Q|[Q|[Q|[]]]]; now injection Q).
    subst s.
    destruct (lookk fs' (grid_key c)) as [g|] eqn:G.
    - assert (G' : lookk fs' (grid_key c) <> None) by congruence.
      destruct (lookk fs' (c, INSITU, SUMINISTRO, STEP_A)) as [v|] eqn:S;
        [|exfalso; exact (insitu_supply_defined fs fs' d1 d2 Hnorm c Hin G' S)].
      rewrite (ensure_noop fs' (c, INSITU, A_RED, STEP_A)) by (apply (insitu_export_defined fs fs' d1 d2 Hnorm); [exact Hin|exact G'|discriminate]).
      rewrite (ensure_noop fs' (c, INSITU, A_NEPB, STEP_A)) by (apply (insitu_export_defined fs fs' d1 d2 Hnorm); [exact Hin|exact G'|discriminate]).
      rewrite G.
      rewrite (ensure_noop fs' (c, INSITU, A_RED, STEP_B)) by (apply (insitu_export_defined fs fs' d1 d2 Hnorm); [exact Hin|exact G'|discriminate]).
      rewrite (ensure_noop fs' (c, INSITU, A_NEPB, STEP_B)) by (apply (insitu_export_defined fs fs' d1 d2 Hnorm); [exact Hin|exact G'|discriminate]).
      apply IH. intros; apply H; now right.
    - assert (Nc : ~ In c (carriers_of fs')) by (intros Hc; exact (prepared_grid c Hc G)).
      assert (S : lookk fs' (c, INSITU, SUMINISTRO, STEP_A) = None).
      { destruct (lookk fs' (c, INSITU, SUMINISTRO, STEP_A)) eqn:L; [|reflexivity]. exfalso. apply Nc.
        apply (lookk_defined_carrier fs' c INSITU SUMINISTRO STEP_A). congruence. }
      rewrite S, G.
      assert (X : existsb (Carrier_beq c) (carriers_of fs') = false).
      { apply not_true_is_false. intros T. apply existsb_exists in T as (c1 & H1 & E1). apply Carrier_beq_eq in E1. subst c1. contradiction. }
      rewrite X. apply IH. intros; apply H; now right.
  Qed.

  Theorem normalize_idempotent : normalize_factors fs' d1 d2 = Ok fs'.
  Proof.
    rewrite normalize_unfold. cbv zeta. rewrite forced_updates_noop.
    assert (G : forallb (fun c => existsb (kmatch (grid_key c)) fs') (carriers_of fs') = true).
    { apply forallb_forall. intros c Hc. apply lookk_some_exists. pose proof (prepared_grid c Hc) as P.
      destruct (lookk fs' (grid_key c)); [eauto|congruence]. }
    rewrite G. cbn [negb]. rewrite ensure_exports_noop by auto. cbn [bind].
    destruct (norm_parts fs fs' d1 d2 Hnorm) as (fs2 & E & Efs).
    rewrite (ensure_noop fs' K_RED1), (ensure_noop fs' K_RED2); [reflexivity| |].
    - rewrite Efs. apply ensure_defines.
    - rewrite Efs. apply ensure_keeps_defined, ensure_defines.
  Qed.
End Idem.

(** user RED1/RED2: user value > file value > default; re-applying the same user values changes nothing *)
Lemma set_user_lookup fs r1 r2 k :
  lookk (set_user_wfactors fs r1 r2) k =
  match (if fkey_eqb K_RED2 k then r2 else None) with
  | Some v => Some v
  | None => match (if fkey_eqb K_RED1 k then r1 else None) with Some v => Some v | None => lookk fs k end
  end.
Proof.
  unfold set_user_wfactors. destruct r1 as [v1|], r2 as [v2|]; rewrite ?lookk_update;
    destruct (fkey_eqb K_RED2 k), (fkey_eqb K_RED1 k); reflexivity.
Qed.

(** one step of ensure_exports, as a lookup function *)
Definition exports_step (fs : list Factor) (c : Carrier) (s : Source) (g : RNC) : list Factor :=
  let fs1 := match lookk fs (c, s, SUMINISTRO, STEP_A) with
             | Some v => ensure_wfactor (ensure_wfactor fs (c, s, A_RED, STEP_A) v []) (c, s, A_NEPB, STEP_A) v []
             | None => fs end in
  ensure_wfactor (ensure_wfactor fs1 (c, s, A_RED, STEP_B) g []) (c, s, A_NEPB, STEP_B) g [].

Lemma exports_step_other fs c s g k : key_cr k <> c -> lookk (exports_step fs c s g) k = lookk fs k.
Proof.
  intros N. unfold exports_step.
  assert (F : forall d st, fkey_eqb (c, s, d, st) k = false).
  { intros d st. destruct (fkey_eqb_spec (c, s, d, st) k) as [<-|]; [cbn in N; congruence|reflexivity]. }
  destruct (lookk fs (c, s, SUMINISTRO, STEP_A)); rewrite !lookk_ensure, !F; destruct (lookk fs k); reflexivity.
Qed.

Lemma exports_step_key fs c s g dest step : dest <> SUMINISTRO ->
  lookk (exports_step fs c s g) (c, s, dest, step) =
  match lookk fs (c, s, dest, step) with
  | Some x => Some x
  | None => match step with STEP_A => lookk fs (c, s, SUMINISTRO, STEP_A) | STEP_B => Some g end
  end.
Proof.
  intros Hd. unfold exports_step.
  assert (R : forall a b, fkey_eqb a b = true <-> a = b) by (intros a b; destruct (fkey_eqb_spec a b); split; congruence).
  assert (Refl : forall a, fkey_eqb a a = true) by (intros a; now apply R).
  assert (NE : forall d1 s1 d2 s2, (d1, s1) <> (d2, s2) -> fkey_eqb (c, s, d1, s1) (c, s, d2, s2) = false).
  { intros d1 s1 d2 s2 N. destruct (fkey_eqb_spec (c, s, d1, s1) (c, s, d2, s2)) as [E|]; [injection E; intros; subst; congruence|reflexivity]. }
  destruct (lookk fs (c, s, SUMINISTRO, STEP_A)) as [v|] eqn:S; rewrite !lookk_ensure;
    destruct (lookk fs (c, s, dest, step)) eqn:L; try reflexivity;
    destruct dest; try congruence; destruct step; rewrite ?Refl, ?NE by discriminate; reflexivity.
Qed.

(** the step A half of a step, for a carrier without grid factor *)
Definition exports_half (fs : list Factor) (c : Carrier) (s : Source) : list Factor :=
  match lookk fs (c, s, SUMINISTRO, STEP_A) with
  | Some v => ensure_wfactor (ensure_wfactor fs (c, s, A_RED, STEP_A) v []) (c, s, A_NEPB, STEP_A) v []
  | None => fs end.

Lemma exports_half_other fs c s k : key_cr k <> c -> lookk (exports_half fs c s) k = lookk fs k.
Proof.
  intros N. unfold exports_half.
  assert (F : forall d st, fkey_eqb (c, s, d, st) k = false).
  { intros d st. destruct (fkey_eqb_spec (c, s, d, st) k) as [<-|]; [cbn in N; congruence|reflexivity]. }
  destruct (lookk fs (c, s, SUMINISTRO, STEP_A)); [|reflexivity]. rewrite !lookk_ensure, !F; destruct (lookk fs k); reflexivity.
Qed.

Lemma ensure_exports_unfold wf fs c s cs :
  ensure_exports wf fs ((c, s) :: cs) =
  match lookk fs (grid_key c) with
  | Some g => ensure_exports wf (exports_step fs c s g) cs
  | None => if existsb (Carrier_beq c) wf then Err MissingFactor else ensure_exports wf (exports_half fs c s) cs
  end.
Proof.
  cbn [ensure_exports]. unfold exports_step, exports_half.
  assert (G : forall v, lookk (ensure_wfactor (ensure_wfactor fs (c, s, A_RED, STEP_A) v []) (c, s, A_NEPB, STEP_A) v []) (grid_key c)
                  = lookk fs (grid_key c)).
  { intros v. rewrite !lookk_ensure. unfold grid_key.
    assert (F : forall d, d <> SUMINISTRO -> fkey_eqb (c, s, d, STEP_A) (c, RED, SUMINISTRO, STEP_A) = false).
    { intros d Hd. destruct (fkey_eqb_spec (c, s, d, STEP_A) (c, RED, SUMINISTRO, STEP_A)) as [E|]; [injection E; intros; congruence|reflexivity]. }
    rewrite !F by discriminate. destruct (lookk fs (c, RED, SUMINISTRO, STEP_A)); reflexivity. }
  destruct (lookk fs (c, s, SUMINISTRO, STEP_A)); [rewrite G|]; reflexivity.
Qed.

Lemma ensure_exports_other wf cs : forall fs fs' k, (forall c s, In (c, s) cs -> key_cr k <> c) ->
  ensure_exports wf fs cs = Ok fs' -> lookk fs' k = lookk fs k.
Proof.
  induction cs as [|[c s] cs IH]; intros fs fs' k H E.
  - cbn in E. now injection E as <-.
  - rewrite ensure_exports_unfold in E. destruct (lookk fs (grid_key c)) as [g|].
    + rewrite (IH _ _ k (fun c0 s0 H0 => H c0 s0 (or_intror H0)) E). apply exports_step_other. apply (H c s). now left.
    + destruct (existsb (Carrier_beq c) wf); [discriminate|].
      rewrite (IH _ _ k (fun c0 s0 H0 => H c0 s0 (or_intror H0)) E). apply exports_half_other. apply (H c s). now left.
Qed.

Lemma red_precedence fs r1 d1 d2 fs' r2 :
  prepare_factors fs r1 r2 d1 d2 = Ok fs' ->
  lookk fs' K_RED1 = Some (match r1 with Some v => v | None => match lookk fs K_RED1 with Some v => v | None => d1 end end) /\
  lookk fs' K_RED2 = Some (match r2 with Some v => v | None => match lookk fs K_RED2 with Some v => v | None => d2 end end).
Proof.
  unfold prepare_factors. intros H. set (fs0 := set_user_wfactors fs r1 r2) in *.
  destruct (norm_parts fs0 fs' d1 d2 H) as (fs2 & E & Efs).
  assert (U1 : lookk fs0 K_RED1 = match r1 with Some v => Some v | None => lookk fs K_RED1 end).
  { unfold fs0. rewrite set_user_lookup. change (fkey_eqb K_RED2 K_RED1) with false. change (fkey_eqb K_RED1 K_RED1) with true. destruct r1; reflexivity. }
  assert (U2 : lookk fs0 K_RED2 = match r2 with Some v => Some v | None => lookk fs K_RED2 end).
  { unfold fs0. rewrite set_user_lookup. change (fkey_eqb K_RED2 K_RED2) with true. destruct r2; reflexivity. }
  assert (T : forall k, key_cr k = RED1 \/ key_cr k = RED2 -> lookk fs2 k = lookk fs0 k).
  { intros k Hk.
    assert (C : forall c s, In (c, s) exp_carriers -> key_cr k <> c).
    { intros c s Hin. cbn in Hin. destruct Hin as [Q|[Q|[Q|[]]]]; injection Q as <- <-; destruct Hk as [-> | ->]; discriminate. }
    rewrite (ensure_exports_other _ exp_carriers (forced_updates fs0) fs2 k C E).
    apply forced_updates_other. destruct k as [[[a b] c0] e0]. cbn in Hk. cbn.
    intros [Q|[Q|[Q|[Q|[Q|[]]]]]]; injection Q; intros; subst; destruct Hk; discriminate. }
  assert (F11 : fkey_eqb K_RED1 K_RED1 = true) by reflexivity.
  assert (F22 : fkey_eqb K_RED2 K_RED2 = true) by reflexivity.
  assert (F12 : fkey_eqb K_RED1 K_RED2 = false) by reflexivity.
  assert (F21 : fkey_eqb K_RED2 K_RED1 = false) by reflexivity.
  rewrite Efs. split.
  - rewrite !lookk_ensure, (T K_RED1), U1, F11, F21 by (left; reflexivity).
    destruct r1; [reflexivity|]. destruct (lookk fs K_RED1); reflexivity.
  - rewrite !lookk_ensure, (T K_RED2), U2, F12, F22 by (right; reflexivity).
    destruct r2; [reflexivity|]. destruct (lookk fs K_RED2); reflexivity.
Qed.

(** default export factors of a carrier the set has a grid factor for: step A = on-site supply factor (1,0,0),
    step B = grid supply factor *)
Lemma export_defaults fs d1 d2 fs' c dest :
  normalize_factors fs d1 d2 = Ok fs' -> In (c, INSITU) exp_carriers -> lookk fs' (grid_key c) <> None -> dest <> SUMINISTRO ->
  lookk fs' (c, INSITU, dest, STEP_A) = Some (match lookk fs (c, INSITU, dest, STEP_A) with Some x => x | None => one end) /\
  lookk fs' (c, INSITU, dest, STEP_B) = match lookk fs (c, INSITU, dest, STEP_B) with Some x => Some x | None => lookk fs' (grid_key c) end.
Proof.
  intros H Hin Hg Hd. destruct (norm_parts fs fs' d1 d2 H) as (fs2 & E & Efs).
  set (g0 := forced_updates fs) in *.
  assert (NF : forall st, lookk g0 (c, INSITU, dest, st) = lookk fs (c, INSITU, dest, st)).
  { intros st. apply forced_updates_other. cbn. intros [Q|[Q|[Q|[Q|[Q|[]]]]]]; injection Q; intros; subst; congruence. }
  assert (Sup : lookk g0 (c, INSITU, SUMINISTRO, STEP_A) = Some one) by (apply (insitu_supply_forced fs fs' d1 d2 H); assumption).
  assert (Fin : forall k, key_cr k = c -> lookk fs' k = lookk fs2 k).
  { intros k Hk. rewrite Efs, !lookk_ensure.
    assert (F1 : fkey_eqb K_RED1 k = false) by (destruct (fkey_eqb_spec K_RED1 k) as [<-|]; [cbn in Hk; subst c; cbn in Hin; destruct Hin as [Q|[Q|[Q|[]]]]; discriminate|reflexivity]).
    assert (F2 : fkey_eqb K_RED2 k = false) by (destruct (fkey_eqb_spec K_RED2 k) as [<-|]; [cbn in Hk; subst c; cbn in Hin; destruct Hin as [Q|[Q|[Q|[]]]]; discriminate|reflexivity]).
    rewrite F1, F2. destruct (lookk fs2 k); reflexivity. }
  (* the electricity step: a full step, or (no grid factor for electricity) a step that changes no other carrier *)
  unfold exp_carriers in E. rewrite ensure_exports_unfold in E.
  assert (Step1 : exists h1, ensure_exports (carriers_of fs) h1 [(EAMBIENTE, INSITU); (TERMOSOLAR, INSITU)] = Ok fs2
                   /\ (forall k, key_cr k <> ELECTRICIDAD -> lookk h1 k = lookk g0 k)
                   /\ (c = ELECTRICIDAD -> exists g1, lookk g0 (grid_key ELECTRICIDAD) = Some g1 /\ h1 = exports_step g0 ELECTRICIDAD INSITU g1)).
  { destruct (lookk g0 (grid_key ELECTRICIDAD)) as [g1|] eqn:G1.
    - exists (exports_step g0 ELECTRICIDAD INSITU g1). split; [exact E|]. split; [intros k Hk; now apply exports_step_other|]. intros _. eauto.
    - destruct (existsb (Carrier_beq ELECTRICIDAD) (carriers_of fs)); [discriminate|].
      exists (exports_half g0 ELECTRICIDAD INSITU). split; [exact E|]. split; [intros k Hk; now apply exports_half_other|].
      intros ->. exfalso. apply (grid_forced fs fs' d1 d2 H ELECTRICIDAD Hg Hin). exact G1. }
  destruct Step1 as (h1 & E1 & O1 & El1). clear E.
  rewrite ensure_exports_unfold in E1.
  destruct (lookk h1 (grid_key EAMBIENTE)) as [g2|] eqn:G2.
  2:{ exfalso. rewrite O1 in G2 by (cbn; discriminate). unfold g0 in G2. change (grid_key EAMBIENTE) with K_EAMB_RED in G2.
      rewrite forced_updates_forced in G2 by (cbn; tauto). discriminate. }
  set (h2 := exports_step h1 EAMBIENTE INSITU g2) in *. rewrite ensure_exports_unfold in E1.
  destruct (lookk h2 (grid_key TERMOSOLAR)) as [g3|] eqn:G3.
  2:{ exfalso. unfold h2 in G3. rewrite exports_step_other, O1 in G3 by (cbn; discriminate). unfold g0 in G3. change (grid_key TERMOSOLAR) with K_TERMO_RED in G3.
      rewrite forced_updates_forced in G3 by (cbn; tauto). discriminate. }
  set (h3 := exports_step h2 TERMOSOLAR INSITU g3) in *. cbn [ensure_exports] in E1. injection E1 as <-.
  rewrite !Fin by reflexivity.
  cbn in Hin. destruct Hin as [Q|[Q|[Q|[]]]]; injection Q as <-.
  - (* ELECTRICIDAD: set in step 1, untouched by steps 2 and 3 *)
    destruct (El1 eq_refl) as (g1 & G1 & Eh1).
    unfold h3, h2. rewrite !exports_step_other by (cbn; discriminate). rewrite Eh1.
    rewrite !exports_step_key by exact Hd. rewrite !NF, Sup.
    assert (GK : lookk (exports_step g0 ELECTRICIDAD INSITU g1) (grid_key ELECTRICIDAD) = Some g1).
    { unfold exports_step. destruct (lookk g0 (ELECTRICIDAD, INSITU, SUMINISTRO, STEP_A)); rewrite !lookk_ensure; unfold grid_key in *; rewrite G1; reflexivity. }
    rewrite GK. split; destruct (lookk fs _); reflexivity.
  - unfold h3. rewrite !exports_step_other by (cbn; discriminate). unfold h2.
    rewrite !exports_step_key by exact Hd. rewrite !O1 by (cbn; discriminate).
    rewrite !NF, Sup.
    assert (GK : lookk (exports_step h1 EAMBIENTE INSITU g2) (grid_key EAMBIENTE) = Some g2).
    { unfold exports_step. destruct (lookk h1 (EAMBIENTE, INSITU, SUMINISTRO, STEP_A)); rewrite !lookk_ensure; unfold grid_key in *; rewrite G2; reflexivity. }
    rewrite GK. split; destruct (lookk fs _); reflexivity.
  - unfold h3. rewrite !exports_step_key by exact Hd. unfold h2. rewrite !exports_step_other by (cbn; discriminate). rewrite !O1 by (cbn; discriminate).
    rewrite !NF, Sup.
    assert (GK : lookk (exports_step h2 TERMOSOLAR INSITU g3) (grid_key TERMOSOLAR) = Some g3).
    { unfold exports_step. destruct (lookk h2 (TERMOSOLAR, INSITU, SUMINISTRO, STEP_A)); rewrite !lookk_ensure; unfold grid_key in *; rewrite G3; reflexivity. }
    unfold h2 in GK. rewrite GK. split; destruct (lookk fs _); reflexivity.
Qed.
