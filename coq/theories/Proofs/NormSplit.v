(** * Normalisation does not depend on how a system's energy is spread over lines (C10, split)

    Writing one declared component as two lines with the same tags, id and comment whose values add up to the original
    changes neither the completions (they depend on per-system sums), nor the reassigned auxiliary components (per-system
    sums of auxiliary and output energy), nor which systems are visited, nor in which order.  The relation [seq_equiv]
    (same per-system tag-selected sums, same existence tests, same sequence of first appearances of the ids) is kept by
    every stage of [normalize_data]; it implies [data_equiv], hence the same evaluation. *)
From Cteepbd Require Import Model.Components Proofs.NormFacts Proofs.DataEquiv Proofs.WfFacts Proofs.Refine.
From Coq Require Import Permutation.
Open Scope Qc_scope.

(** ** predicates that look at kind, tags and id only *)
Definition same_tid (e e' : Energy) : Prop := same_tags e e' /\ e_id e = e_id e'.
Definition tidpred (p : Energy -> bool) : Prop := forall e e', same_tid e e' -> p e = p e'.

Lemma tagpred_tid p : tagpred p -> tidpred p.
Proof. intros H e e' [T _]. now apply H. Qed.
Lemma tid_has_id i : tidpred (has_id i).
Proof. intros e e' [_ E]. unfold has_id. now rewrite E. Qed.
Lemma tid_and p q : tidpred p -> tidpred q -> tidpred (fun e => p e && q e).
Proof. intros Hp Hq e e' H. now rewrite (Hp e e' H), (Hq e e' H). Qed.
Lemma tid_neg p : tidpred p -> tidpred (fun e => negb (p e)).
Proof. intros Hp e e' H. now rewrite (Hp e e' H). Qed.
Lemma tid_is_aux_of i : tidpred (is_aux_of i).
Proof. apply tid_and; [apply tagpred_tid, tp_is_aux|apply tid_has_id]. Qed.
Lemma tid_is_out_of i s : tidpred (is_out_of i s).
Proof. intros e e' [T E]. destruct e, e'; cbn in T, E; try contradiction; subst; reflexivity. Qed.
Lemma tid_used_srv i s :
  tidpred (fun e => match e with EUsed j _ s' _ _ => Z.eqb j i && Service_beq s' s | _ => false end).
Proof. intros e e' [T E]. destruct e, e'; cbn in T, E; try contradiction; try reflexivity. destruct T; subst; reflexivity. Qed.

(** ** the relation *)
Record seq_equiv (n : nat) (d d' : list Energy) : Prop := {
  se_wf : wf n d;
  se_wf' : wf n d';
  se_sum : forall p, tidpred p -> forall t, sum_at (filter p d) t = sum_at (filter p d') t;
  se_ex : forall p, tidpred p -> existsb p d = existsb p d';
  se_ids : forall p, tidpred p -> ids_of (filter p d) = ids_of (filter p d')
}.

Lemma seq_equiv_refl n d : wf n d -> seq_equiv n d d.
Proof. intros H. constructor; auto. Qed.

Lemma seq_equiv_data n d d' : seq_equiv n d d' -> data_equiv n d d'.
Proof.
  intros H. constructor.
  - apply (se_wf _ _ _ H). - apply (se_wf' _ _ _ H).
  - intros p Hp t. apply (se_sum _ _ _ H p (tagpred_tid p Hp) t).
  - intros p Hp. apply (se_ex _ _ _ H p (tagpred_tid p Hp)).
Qed.

(** ** list facts *)
Lemma filter_nil_existsb {A} (p : A -> bool) l : filter p l = [] <-> existsb p l = false.
Proof.
  induction l as [|a l IH]; cbn [filter existsb]; [tauto|]. destruct (p a); cbn [orb]; [|exact IH].
  split; discriminate.
Qed.

Lemma sum_at_app a b t : sum_at (a ++ b) t = sum_at a t + sum_at b t.
Proof. unfold sum_at. now rewrite map_app, qsum_app. Qed.

Lemma filter_map_comm {A B} (f : A -> B) (p : B -> bool) l : filter p (map f l) = map f (filter (fun x => p (f x)) l).
Proof. induction l as [|a l IH]; [reflexivity|]. cbn [map filter]. destruct (p (f a)); cbn [map]; now rewrite IH. Qed.

Lemma existsb_map_comm {A B} (f : A -> B) (p : B -> bool) l : existsb p (map f l) = existsb (fun x => p (f x)) l.
Proof. induction l as [|a l IH]; [reflexivity|]. cbn [map existsb]. now rewrite IH. Qed.

Definition notin (A : list Z) (j : Z) : bool := negb (existsb (Z.eqb j) A).

Lemma filter_all {A} (p : A -> bool) l : (forall a, p a = true) -> filter p l = l.
Proof. intros H. induction l as [|a l IH]; [reflexivity|]. cbn [filter]. now rewrite H, IH. Qed.

Lemma ids_of_app a b : ids_of (a ++ b) = ids_of a ++ filter (notin (ids_of a)) (ids_of b).
Proof.
  induction a as [|e a IH]; cbn [app ids_of].
  - symmetry. apply filter_all. reflexivity.
  - rewrite IH. rewrite filter_app. cbn [app]. f_equal. f_equal. rewrite filter_filter. apply filter_ext'. intros j.
    unfold notin. cbn [existsb]. rewrite existsb_filter.
    destruct (Z.eqb_spec j (e_id e)) as [->|N]; cbn [negb orb]; [apply andb_false_r|]. rewrite andb_true_r. f_equal.
    clear IH. induction (ids_of a) as [|x l IHl]; [reflexivity|]. cbn [existsb]. rewrite IHl. f_equal.
    destruct (Z.eqb_spec j x) as [->|N']; [|now rewrite andb_false_r].
    destruct (Z.eqb_spec x (e_id e)); [contradiction|reflexivity].
Qed.

Lemma ids_of_app_cong a a' b : ids_of a = ids_of a' -> ids_of (a ++ b) = ids_of (a' ++ b).
Proof. intros H. now rewrite !ids_of_app, H. Qed.

Lemma ids_of_map f l : (forall e, e_id (f e) = e_id e) -> ids_of (map f l) = ids_of l.
Proof. intros H. induction l as [|e l IH]; [reflexivity|]. cbn [map ids_of]. now rewrite IH, H. Qed.

Lemma sum_at_map f l t : (forall e, e_vals (f e) = e_vals e) -> sum_at (map f l) t = sum_at l t.
Proof. intros H. unfold sum_at. rewrite map_map. f_equal. apply map_ext. intros e. unfold val_at. now rewrite H. Qed.

(** ** stages that keep the relation *)
Section Keep.
  Variables (n : nat) (d d' : list Energy).
  Hypothesis H : seq_equiv n d d'.

  Lemma se_nil p : tidpred p -> (filter p d = [] <-> filter p d' = []).
  Proof. intros Hp. rewrite !filter_nil_existsb. now rewrite (se_ex _ _ _ H p Hp). Qed.

  Lemma se_veclistsum p : tidpred p -> veclistsum (filter p d) = veclistsum (filter p d').
  Proof.
    intros Hp. pose proof (se_nil p Hp) as N. pose proof (se_sum _ _ _ H p Hp) as S.
    pose proof (wf_filter n p d (se_wf _ _ _ H)) as W. pose proof (wf_filter n p d' (se_wf' _ _ _ H)) as W'.
    unfold veclistsum. destruct (filter p d) as [|a l] eqn:E, (filter p d') as [|a' l'] eqn:E'.
    - reflexivity.
    - destruct N as [N _]. specialize (N eq_refl). discriminate.
    - destruct N as [_ N]. specialize (N eq_refl). discriminate.
    - rewrite (max_len_wf n _ W), (max_len_wf n _ W') by discriminate. apply map_ext. exact S.
  Qed.

  Lemma seq_equiv_app L : wf n L -> seq_equiv n (d ++ L) (d' ++ L).
  Proof.
    intros WL. constructor.
    - apply Forall_app. split; [apply (se_wf _ _ _ H)|exact WL].
    - apply Forall_app. split; [apply (se_wf' _ _ _ H)|exact WL].
    - intros p Hp t. rewrite !filter_app, !sum_at_app. f_equal. now apply (se_sum _ _ _ H).
    - intros p Hp. rewrite !existsb_app. f_equal. now apply (se_ex _ _ _ H).
    - intros p Hp. rewrite !filter_app. apply ids_of_app_cong. now apply (se_ids _ _ _ H).
  Qed.

  Lemma seq_equiv_filter q : tidpred q -> seq_equiv n (filter q d) (filter q d').
  Proof.
    intros Hq. constructor.
    - apply wf_filter, (se_wf _ _ _ H). - apply wf_filter, (se_wf' _ _ _ H).
    - intros p Hp t. rewrite !filter_filter. apply (se_sum _ _ _ H). now apply tid_and.
    - intros p Hp. rewrite !existsb_filter. apply (se_ex _ _ _ H). now apply tid_and.
    - intros p Hp. rewrite !filter_filter. apply (se_ids _ _ _ H). now apply tid_and.
  Qed.

  Lemma seq_equiv_map f : (forall e, e_vals (f e) = e_vals e) -> (forall e, e_id (f e) = e_id e) ->
    (forall e e', same_tid e e' -> same_tid (f e) (f e')) -> seq_equiv n (map f d) (map f d').
  Proof.
    intros Hv Hi Ht.
    assert (C : forall p, tidpred p -> tidpred (fun x => p (f x))) by (intros p Hp e e' T; apply Hp, Ht, T).
    assert (Wm : forall l, wf n l -> wf n (map f l)).
    { intros l Wl. apply Forall_forall. intros e He. apply in_map_iff in He as (e0 & <- & He0). rewrite Hv.
      unfold wf in Wl. rewrite Forall_forall in Wl. now apply Wl. }
    constructor.
    - apply Wm, (se_wf _ _ _ H). - apply Wm, (se_wf' _ _ _ H).
    - intros p Hp t. rewrite !filter_map_comm, !(sum_at_map f _ t Hv). apply (se_sum _ _ _ H). now apply C.
    - intros p Hp. rewrite !existsb_map_comm. apply (se_ex _ _ _ H). now apply C.
    - intros p Hp. rewrite !filter_map_comm, !(ids_of_map f _ Hi). apply (se_ids _ _ _ H). now apply C.
  Qed.

  (** *** completion *)
  Lemma se_unbalanced cr i : unbalanced (filter (has_carrier cr) d) i = unbalanced (filter (has_carrier cr) d') i.
  Proof.
    unfold unbalanced. rewrite !filter_filter.
    set (pu := fun a => has_carrier cr a && (has_id i a && is_used a)).
    set (pp := fun a => has_carrier cr a && (has_id i a && is_generated a)).
    assert (Tu : tidpred pu) by (apply tid_and; [apply tagpred_tid, tp_has_carrier|apply tid_and; [apply tid_has_id|apply tagpred_tid, tp_is_used]]).
    assert (Tp : tidpred pp) by (apply tid_and; [apply tagpred_tid, tp_has_carrier|apply tid_and; [apply tid_has_id|apply tagpred_tid, tp_is_generated]]).
    pose proof (se_veclistsum pu Tu) as VU. pose proof (se_veclistsum pp Tp) as VP.
    pose proof (se_nil pu Tu) as NU. pose proof (se_nil pp Tp) as NP.
    destruct (filter pu d) as [|a l], (filter pu d') as [|a' l'].
    - reflexivity.
    - destruct NU as [NU _]. specialize (NU eq_refl). discriminate.
    - destruct NU as [_ NU]. specialize (NU eq_refl). discriminate.
    - f_equal. rewrite VU. destruct (filter pp d) as [|b m], (filter pp d') as [|b' m'].
      + reflexivity.
      + destruct NP as [NP _]. specialize (NP eq_refl). discriminate.
      + destruct NP as [_ NP]. specialize (NP eq_refl). discriminate.
      + now rewrite VP.
  Qed.

  Lemma se_complete cr : seq_equiv n (complete cr d) (complete cr d').
  Proof.
    pose proof (complete_wf n cr d (se_wf _ _ _ H)) as W.
    unfold complete, complete_with in *. destruct (source_of_carrier cr) as [src|]; [|exact H].
    rewrite <- (se_ids _ _ _ H (has_carrier cr) (tagpred_tid _ (tp_has_carrier cr))).
    assert (E : flat_map (completion_for src (filter (has_carrier cr) d')) (ids_of (filter (has_carrier cr) d))
              = flat_map (completion_for src (filter (has_carrier cr) d)) (ids_of (filter (has_carrier cr) d))).
    { apply flat_map_ext. intros i. unfold completion_for. now rewrite se_unbalanced. }
    rewrite E. apply seq_equiv_app. apply Forall_app in W. apply W.
  Qed.

  (** *** auxiliary energy of one system *)
  Lemma se_used_services i : used_services d i = used_services d' i.
  Proof. unfold used_services. apply filter_ext'. intros s. f_equal. apply (se_ex _ _ _ H), tid_used_srv. Qed.
  Lemma se_out_services i : out_services d i = out_services d' i.
  Proof. unfold out_services. apply filter_ext'. intros s. apply (se_ex _ _ _ H), tid_is_out_of. Qed.
  Lemma se_q_out i s t : q_out d i s t = q_out d' i s t.
  Proof. unfold q_out. apply (se_sum _ _ _ H), tid_is_out_of. Qed.
  Lemma se_q_tot i t : q_tot d i t = q_tot d' i t.
  Proof. unfold q_tot, q_mag. rewrite se_out_services. f_equal. apply map_ext. intros s. now rewrite se_q_out. Qed.
  Lemma se_aux_share i s t : aux_share d i s t = aux_share d' i s t.
  Proof. unfold aux_share, q_mag. now rewrite se_q_tot, se_q_out. Qed.
End Keep.

Definition res_se (n : nat) (r r' : res (list Energy)) : Prop :=
  match r, r' with Ok a, Ok b => seq_equiv n a b | Err a, Err b => a = b | _, _ => False end.

Definition multi_aux (data : list Energy) (i : Z) : res (list Energy) :=
  let auxs := filter (is_aux_of i) data in
  let aux_tot := veclistsum auxs in
  let n := num_steps_of data in
  let steps := seq 0 n in
  if qltb 0 (qsum aux_tot) && qeqb (qsum (map (q_tot data i) steps)) 0 then Err WrongInput else
  let kept := filter (fun e => negb (is_aux_of i e)) data in
  let news := map (fun s => EAux i s (map (fun p => aux_share data i s (fst p) * snd p) (combine steps aux_tot)) comment_aux)
                  (out_services data i) in
  Ok (kept ++ news).

Lemma assign_aux_id_cases data i :
  assign_aux_id data i = match used_services data i with [s] => Ok (map (set_aux_service i s) data) | _ => multi_aux data i end.
Proof. unfold assign_aux_id, multi_aux. destruct (used_services data i) as [|s [|s' l]]; reflexivity. Qed.

Lemma set_aux_id i s e : e_id (set_aux_service i s e) = e_id e.
Proof. destruct e; cbn; try reflexivity. destruct (Z.eqb _ _); reflexivity. Qed.

Lemma set_aux_tid i s e e' : same_tid e e' -> same_tid (set_aux_service i s e) (set_aux_service i s e').
Proof.
  intros [T E]. destruct e, e'; cbn in T, E; try contradiction; cbn [set_aux_service]; subst; try (split; cbn; auto; fail).
  match goal with |- context [Z.eqb ?a i] => destruct (Z.eqb a i) end; split; reflexivity.
Qed.

Lemma se_assign_id n d d' i : seq_equiv n d d' -> filter (is_aux_of i) d <> [] ->
  res_se n (assign_aux_id d i) (assign_aux_id d' i).
Proof.
  intros H Ha.
  assert (Ha' : filter (is_aux_of i) d' <> []) by (intro K; apply Ha; now apply (se_nil n d d' H _ (tid_is_aux_of i))).
  pose proof (se_wf _ _ _ H) as W. pose proof (se_wf' _ _ _ H) as W'.
  assert (Hne : d <> []) by (intro K; rewrite K in Ha; now apply Ha).
  assert (Hne' : d' <> []) by (intro K; rewrite K in Ha'; now apply Ha').
  rewrite !assign_aux_id_cases, <- (se_used_services n d d' H i).
  assert (M : res_se n (multi_aux d i) (multi_aux d' i)).
  { pose proof (assign_aux_id_wf n d i) as R. pose proof (assign_aux_id_wf n d' i) as R'.
    unfold multi_aux. rewrite <- (se_veclistsum n d d' H _ (tid_is_aux_of i)).
    rewrite (num_steps_wf n d W Hne), (num_steps_wf n d' W' Hne'), <- (se_out_services n d d' H i).
    assert (Q : map (q_tot d' i) (seq 0 n) = map (q_tot d i) (seq 0 n)) by (apply map_ext; intros t; symmetry; apply (se_q_tot n d d' H)).
    rewrite Q. destruct (qltb 0 _ && qeqb _ 0); [reflexivity|]. cbn [res_se].
    assert (S : map (fun s => EAux i s (map (fun p => aux_share d' i s (fst p) * snd p)
                                           (combine (seq 0 n) (veclistsum (filter (is_aux_of i) d)))) comment_aux) (out_services d i)
              = map (fun s => EAux i s (map (fun p => aux_share d i s (fst p) * snd p)
                                           (combine (seq 0 n) (veclistsum (filter (is_aux_of i) d)))) comment_aux) (out_services d i)).
    { apply map_ext. intros s. f_equal. apply map_ext. intros p. f_equal. symmetry. apply (se_aux_share n d d' H). }
    rewrite S. apply seq_equiv_app; [apply seq_equiv_filter; [exact H|apply tid_neg, tid_is_aux_of]|].
    apply Forall_forall. intros e He. apply in_map_iff in He as (s & <- & _). cbn [e_vals].
    rewrite map_length, combine_length, seq_length, (veclistsum_len n _ (wf_filter n _ _ W) Ha). apply Nat.min_id. }
  destruct (used_services d i) as [|s [|s' l]]; [exact M| |exact M].
  cbn [res_se]. apply seq_equiv_map; [exact H|apply set_aux_vals|apply set_aux_id|apply set_aux_tid].
Qed.

Lemma se_assign_ids n ids : forall d d', seq_equiv n d d' -> NoDup ids ->
  (forall j, In j ids -> filter (is_aux_of j) d <> []) -> res_se n (assign_aux_ids d ids) (assign_aux_ids d' ids).
Proof.
  induction ids as [|i ids IH]; intros d d' H ND Hin; cbn [assign_aux_ids]; [exact H|].
  pose proof (se_assign_id n d d' i H (Hin i (or_introl eq_refl))) as S.
  destruct (assign_aux_id d i) as [d1|x] eqn:E1, (assign_aux_id d' i) as [d1'|x'] eqn:E1'; cbn [res_se bind] in *; try contradiction; [|exact S].
  inversion ND as [|? ? Ni ND']; subst. apply IH; [exact S|exact ND'|].
  intros j Hj. rewrite (is_aux_of_other i j d1 d); [apply Hin; now right| |apply (assign_aux_id_others d i d1 E1)].
  intro K. subst j. contradiction.
Qed.

Lemma se_assign_aux n d d' : seq_equiv n d d' -> res_se n (assign_aux d) (assign_aux d').
Proof.
  intros H. unfold assign_aux. rewrite <- (se_ids _ _ _ H is_aux (tagpred_tid _ tp_is_aux)).
  apply se_assign_ids; [exact H|apply ids_of_nodup|].
  intros j Hj. apply ids_of_in in Hj as (e & He & Ee). apply filter_In in He as [He Ae].
  intro K. assert (In e (filter (is_aux_of j) d)); [|rewrite K in *; contradiction].
  apply filter_In. split; [exact He|]. unfold is_aux_of, has_id. rewrite Ae, Ee, Z.eqb_refl. reflexivity.
Qed.

(** ** the whole normalisation *)
Definition res_de (n : nat) (r r' : res (list Energy)) : Prop :=
  match r, r' with Ok a, Ok b => data_equiv n a b | Err a, Err b => a = b | _, _ => False end.

Lemma data_equiv_sort n a b : data_equiv n a b -> data_equiv n (sort_by_id a) (sort_by_id b).
Proof.
  intros H. pose proof (sort_by_id_perm a) as Pa. pose proof (sort_by_id_perm b) as Pb.
  assert (Wp : forall l, wf n l -> wf n (sort_by_id l)).
  { intros l Wl. unfold wf in *. rewrite Forall_forall in *. intros e He. apply Wl. eapply Permutation_in; [apply sort_by_id_perm|exact He]. }
  assert (F : forall (p : Energy -> bool) l, Permutation (filter p (sort_by_id l)) (filter p l)).
  { intros p l. pose proof (sort_by_id_perm l) as P. induction P; cbn [filter]; try (destruct (p x)); try (destruct (p y)); eauto using Permutation. }
  constructor.
  - apply Wp, (de_wf _ _ _ H). - apply Wp, (de_wf' _ _ _ H).
  - intros p Hp t. unfold colsum. rewrite (qsum_perm _ _ (Permutation_map _ (F p a))), (qsum_perm _ _ (Permutation_map _ (F p b))).
    apply (de_sum _ _ _ H p Hp t).
  - intros p Hp.
    assert (X : forall l, existsb p (sort_by_id l) = existsb p l).
    { intros l. pose proof (sort_by_id_perm l) as P. induction P; cbn [existsb]; try congruence.
      destruct (p x), (p y); reflexivity. }
    rewrite !X. apply (de_ex _ _ _ H p Hp).
Qed.

Theorem normalize_data_seq_equiv n d d' : seq_equiv n d d' -> res_de n (normalize_data d) (normalize_data d').
Proof.
  intros H. unfold normalize_data.
  pose proof (se_complete n _ _ (se_complete n d d' H EAMBIENTE) TERMOSOLAR) as H2.
  pose proof (se_assign_aux n _ _ H2) as H3.
  destruct (assign_aux (complete TERMOSOLAR (complete EAMBIENTE d))) as [d3|x],
           (assign_aux (complete TERMOSOLAR (complete EAMBIENTE d'))) as [d3'|x']; cbn [res_se res_de bind] in *; try contradiction; [|exact H3].
  apply data_equiv_sort, seq_equiv_data, H3.
Qed.

(** ** one component written as two lines *)
Lemma split_seq_equiv n pre post e v1 v2 :
  wf n (pre ++ e :: post) -> e_vals e = vadd v1 v2 -> length v1 = n -> length v2 = n ->
  seq_equiv n (pre ++ e :: post) (pre ++ e_set_vals e v1 :: e_set_vals e v2 :: post).
Proof.
  intros Hw Hv H1 H2. set (e1 := e_set_vals e v1). set (e2 := e_set_vals e v2).
  assert (T1 : same_tid e e1) by (destruct e; split; cbn; auto).
  assert (T2 : same_tid e e2) by (destruct e; split; cbn; auto).
  assert (V1 : e_vals e1 = v1) by (destruct e; reflexivity).
  assert (V2 : e_vals e2 = v2) by (destruct e; reflexivity).
  assert (I1 : e_id e1 = e_id e) by (destruct e; reflexivity).
  assert (I2 : e_id e2 = e_id e) by (destruct e; reflexivity).
  constructor.
  - exact Hw.
  - unfold wf in *. rewrite Forall_forall in *. intros x Hx. apply in_app_iff in Hx as [Hx|[<-|[<-|Hx]]].
    + apply Hw. apply in_app_iff. now left.
    + now rewrite V1. + now rewrite V2.
    + apply Hw. apply in_app_iff. right. now right.
  - intros p Hp t. rewrite !filter_app, !sum_at_app. f_equal.
    cbn [filter]. rewrite <- (Hp e e1 T1), <- (Hp e e2 T2). destruct (p e); [|reflexivity].
    unfold sum_at. cbn [map]. rewrite !qsum_cons. unfold val_at. rewrite V1, V2, Hv, nth_vadd by congruence. ring.
  - intros p Hp. rewrite !existsb_app. f_equal. cbn [existsb].
    rewrite <- (Hp e e1 T1), <- (Hp e e2 T2). destruct (p e); reflexivity.
  - intros p Hp. rewrite !filter_app. cbn [filter]. rewrite <- (Hp e e1 T1), <- (Hp e e2 T2). destruct (p e); [|reflexivity].
    rewrite !ids_of_app. f_equal. f_equal. cbn [ids_of]. rewrite I1, I2. f_equal. cbn [filter]. rewrite Z.eqb_refl. cbn [negb].
    rewrite filter_filter. apply filter_ext'. intros j. symmetry. apply andb_diag.
Qed.

Theorem normalize_data_split n pre post e v1 v2 :
  wf n (pre ++ e :: post) -> e_vals e = vadd v1 v2 -> length v1 = n -> length v2 = n ->
  res_de n (normalize_data (pre ++ e :: post)) (normalize_data (pre ++ e_set_vals e v1 :: e_set_vals e v2 :: post)).
Proof. intros. apply normalize_data_seq_equiv. now apply split_seq_equiv. Qed.
