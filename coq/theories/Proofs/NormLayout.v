(** * Normalisation commutes with re-laying out the time steps and with scaling (C09, C11)

    A relayout [f] of value vectors sends a vector [v] of [n] values to a vector of [n'] values whose entry [t] is
    [c t * v (phi t)] with [c t > 0], every old step being used, and multiplies sums by a positive constant.  The
    permutation of the steps, the subdivision of every step into [m] equal parts and the multiplication of all values by
    [k > 0] are relayouts.  [normalize_data] — completion of ambient heat and solar thermal energy, assignment of the
    auxiliary energy, sort — commutes with every relayout: the declared components of the re-laid-out building normalise
    to the re-laid-out normalised components, so the data-level theorems of C09 and C11 apply to what a file declares. *)
From Cteepbd Require Import Model.Components Proofs.NormFacts Proofs.DataEquiv Proofs.WfFacts Proofs.CompleteIdem Proofs.Transform Proofs.TimeLayout.
Open Scope Qc_scope.

(** ** predicates that do not look at the values *)
Definition valfree (p : Energy -> bool) : Prop := forall e v, p (e_set_vals e v) = p e.

Lemma vf_filter f p d : valfree p -> filter p (map_vals f d) = map_vals f (filter p d).
Proof.
  intros Hp. induction d as [|e l IH]; [reflexivity|]. cbn [map_vals map filter]. rewrite Hp.
  destruct (p e); cbn [map]; fold (map_vals f l); now rewrite IH.
Qed.
Lemma vf_existsb f p d : valfree p -> existsb p (map_vals f d) = existsb p d.
Proof. intros Hp. induction d as [|e l IH]; [reflexivity|]. cbn [map_vals map existsb]. fold (map_vals f l). now rewrite Hp, IH. Qed.

Lemma vf_and p q : valfree p -> valfree q -> valfree (fun e => p e && q e).
Proof. intros Hp Hq e v. now rewrite Hp, Hq. Qed.
Lemma vf_negb p : valfree p -> valfree (fun e => negb (p e)).
Proof. intros Hp e v. now rewrite Hp. Qed.
Lemma vf_has_id i : valfree (has_id i).  Proof. intros [] v; reflexivity. Qed.
Lemma vf_is_used : valfree is_used.  Proof. intros [] v; reflexivity. Qed.
Lemma vf_is_generated : valfree is_generated.  Proof. intros [] v; reflexivity. Qed.
Lemma vf_is_aux : valfree is_aux.  Proof. intros [] v; reflexivity. Qed.
Lemma vf_has_carrier cr : valfree (has_carrier cr).  Proof. intros [] v; reflexivity. Qed.
Lemma vf_is_aux_of i : valfree (is_aux_of i).  Proof. intros [] v; reflexivity. Qed.
Lemma vf_is_out_of i s : valfree (is_out_of i s).  Proof. intros [] v; reflexivity. Qed.
Lemma vf_used_srv i s : valfree (fun e => match e with EUsed j _ s' _ _ => Z.eqb j i && Service_beq s' s | _ => false end).
Proof. intros [] v; reflexivity. Qed.

Lemma e_id_set e v : e_id (e_set_vals e v) = e_id e.  Proof. destruct e; reflexivity. Qed.

Lemma ids_of_map_vals f d : ids_of (map_vals f d) = ids_of d.
Proof. induction d as [|e l IH]; [reflexivity|]. cbn [map_vals map ids_of]. fold (map_vals f l). now rewrite IH, e_id_set. Qed.

Lemma map_vals_app f a b : map_vals f (a ++ b) = map_vals f a ++ map_vals f b.
Proof. apply map_app. Qed.

Lemma map_vals_nil f d : map_vals f d = [] <-> d = [].
Proof. destruct d; split; intros H; try reflexivity; discriminate. Qed.

(** ** relayouts *)
Record Relayout (n n' : nat) (f : list Qc -> list Qc) (c : nat -> Qc) (phi : nat -> nat) (kappa : Qc) : Prop := {
  rl_len : forall v, length v = n -> length (f v) = n';
  rl_nth : forall v t, length v = n -> (t < n')%nat -> nth t (f v) 0 = c t * nth (phi t) v 0;
  rl_cpos : forall t, (t < n')%nat -> 0 < c t;
  rl_phi : forall t, (t < n')%nat -> (phi t < n)%nat;
  rl_onto : forall t, (t < n)%nat -> exists t', (t' < n')%nat /\ phi t' = t;
  rl_sum : forall v, length v = n -> qsum (f v) = kappa * qsum v;
  rl_kpos : 0 < kappa
}.

Lemma nth_ext0 (a b : list Qc) n : length a = n -> length b = n -> (forall t, (t < n)%nat -> nth t a 0 = nth t b 0) -> a = b.
Proof. intros La Lb H. apply (nth_ext a b 0 0); [congruence|]. intros t Ht. apply H. now rewrite <- La. Qed.

Lemma nth_map2 (g : Qc -> Qc -> Qc) a b n t : length a = n -> length b = n -> (t < n)%nat ->
  nth t (map (fun p => g (fst p) (snd p)) (combine a b)) 0 = g (nth t a 0) (nth t b 0).
Proof.
  intros La Lb Ht. rewrite (nth_indep _ 0 (g 0 0)) by (rewrite map_length, combine_length, La, Lb, Nat.min_id; exact Ht).
  rewrite (map_nth (fun p => g (fst p) (snd p)) _ (0, 0)), combine_nth by congruence. reflexivity.
Qed.

Section Layout.
  Variables (n n' : nat) (f : list Qc -> list Qc) (c : nat -> Qc) (phi : nat -> nat) (kappa : Qc).
  Hypothesis R : Relayout n n' f c phi kappa.

  Lemma wf_map_vals l : wf n l -> wf n' (map_vals f l).
  Proof.
    intros W. apply Forall_forall. intros e He. unfold map_vals in He. apply in_map_iff in He as (e0 & <- & H0).
    rewrite e_vals_set. apply (rl_len _ _ _ _ _ _ R). unfold wf in W. rewrite Forall_forall in W. now apply W.
  Qed.

  Lemma sum_at_map_vals l t : wf n l -> (t < n')%nat -> sum_at (map_vals f l) t = c t * sum_at l (phi t).
  Proof.
    intros W Ht. unfold sum_at, map_vals. rewrite map_map, <- qsum_map_scale. apply qsum_map_ext. intros e He.
    unfold val_at. rewrite e_vals_set. apply (rl_nth _ _ _ _ _ _ R); [|exact Ht]. unfold wf in W. rewrite Forall_forall in W. now apply W.
  Qed.

  Lemma veclistsum_map_vals l : wf n l -> l <> [] -> veclistsum (map_vals f l) = f (veclistsum l).
  Proof.
    intros W NE. assert (NE' : map_vals f l <> []) by (intro K; apply map_vals_nil in K; contradiction).
    pose proof (wf_map_vals l W) as W'.
    apply (nth_ext0 _ _ n'); [now apply veclistsum_len|apply (rl_len _ _ _ _ _ _ R); now apply veclistsum_len|].
    intros t Ht. rewrite (veclistsum_nth n' _ t W' NE' Ht), (sum_at_map_vals l t W Ht).
    rewrite (rl_nth _ _ _ _ _ _ R) by (try exact Ht; now apply veclistsum_len).
    rewrite (veclistsum_nth n l (phi t) W NE (rl_phi _ _ _ _ _ _ R t Ht)). reflexivity.
  Qed.

  (** the uncovered use of a system *)
  Lemma unbalanced_map_vals env i : wf n env ->
    unbalanced (map_vals f env) i = match unbalanced env i with Some v => Some (f v) | None => None end.
  Proof.
    intros W. unfold unbalanced.
    rewrite (vf_filter f _ env (vf_and _ _ (vf_has_id i) vf_is_used)), (vf_filter f _ env (vf_and _ _ (vf_has_id i) vf_is_generated)).
    set (used := filter (fun e => has_id i e && is_used e) env). set (prod := filter (fun e => has_id i e && is_generated e) env).
    assert (Wu : wf n used) by apply wf_filter, W. assert (Wp : wf n prod) by apply wf_filter, W.
    destruct used as [|u0 us] eqn:EU; [reflexivity|]. cbn [map_vals map]. fold (map_vals f us). change (e_set_vals u0 (f (e_vals u0)) :: map_vals f us) with (map_vals f (u0 :: us)).
    f_equal. rewrite (veclistsum_map_vals (u0 :: us) Wu) by discriminate.
    destruct prod as [|p0 ps] eqn:EP; [reflexivity|]. cbn [map_vals map]. fold (map_vals f ps). change (e_set_vals p0 (f (e_vals p0)) :: map_vals f ps) with (map_vals f (p0 :: ps)).
    rewrite (veclistsum_map_vals (p0 :: ps) Wp) by discriminate.
    set (A := veclistsum (u0 :: us)). set (B := veclistsum (p0 :: ps)).
    assert (LA : length A = n) by (apply veclistsum_len; [exact Wu|discriminate]).
    assert (LB : length B = n) by (apply veclistsum_len; [exact Wp|discriminate]).
    set (g := fun a b : Qc => if qltb 0 (a - b) then a - b else 0).
    change (map (fun p => let d := fst p - snd p in if qltb 0 d then d else 0) (combine (f A) (f B))) with (map (fun p => g (fst p) (snd p)) (combine (f A) (f B))).
    change (map (fun p => let d := fst p - snd p in if qltb 0 d then d else 0) (combine A B)) with (map (fun p => g (fst p) (snd p)) (combine A B)).
    assert (LC : length (map (fun p => g (fst p) (snd p)) (combine A B)) = n) by (rewrite map_length, combine_length, LA, LB; apply Nat.min_id).
    apply (nth_ext0 _ _ n').
    - rewrite map_length, combine_length, !(rl_len _ _ _ _ _ _ R) by assumption. apply Nat.min_id.
    - now apply (rl_len _ _ _ _ _ _ R).
    - intros t Ht. change (nth t (map (fun p => g (fst p) (snd p)) (combine (f A) (f B))) 0 = nth t (f (map (fun p => g (fst p) (snd p)) (combine A B))) 0).
      rewrite (nth_map2 g (f A) (f B) n' t) by (try exact Ht; now apply (rl_len _ _ _ _ _ _ R)).
      rewrite !(rl_nth _ _ _ _ _ _ R) by assumption.
      rewrite (nth_map2 g A B n (phi t) LA LB (rl_phi _ _ _ _ _ _ R t Ht)).
      pose proof (rl_cpos _ _ _ _ _ _ R t Ht) as Cp. revert Cp. generalize (c t) (nth (phi t) A 0) (nth (phi t) B 0). intros k a b Cp. unfold g.
      replace (k * a - k * b) with (k * (a - b)) by ring.
      destruct (qltb_spec 0 (a - b)) as [P|P]; destruct (qltb_spec 0 (k * (a - b))) as [P'|P']; try reflexivity; try ring.
      + exfalso. apply P'. revert P Cp. generalize (a - b). intros x P Cp. toQ. absQ. cbn in *. nra.
      + exfalso. apply P. revert P' Cp. generalize (a - b). intros x P' Cp. toQ. absQ. cbn in *. nra.
  Qed.

  Lemma qeqb_sum v : length v = n -> qeqb (qsum (f v)) 0 = qeqb (qsum v) 0.
  Proof.
    intros L. rewrite (rl_sum _ _ _ _ _ _ R v L). apply qeqb_scale. pose proof (rl_kpos _ _ _ _ _ _ R) as K. intro Z. rewrite Z in K. revert K. qlra.
  Qed.

  Lemma completion_map_vals src env i : wf n env -> completion_for src (map_vals f env) i = map_vals f (completion_for src env i).
  Proof.
    intros W. unfold completion_for. rewrite (unbalanced_map_vals env i W).
    destruct (unbalanced env i) as [v|] eqn:U; [|reflexivity].
    rewrite (qeqb_sum v (unbalanced_len n env i v W U)). destruct (qeqb (qsum v) 0); reflexivity.
  Qed.

  Lemma complete_map_vals cr data : wf n data -> complete cr (map_vals f data) = map_vals f (complete cr data).
  Proof.
    intros W. unfold complete, complete_with. destruct (source_of_carrier cr) as [src|]; [|reflexivity].
    rewrite (vf_filter f _ data (vf_has_carrier cr)), ids_of_map_vals, map_vals_app. f_equal.
    set (env := filter (has_carrier cr) data). assert (We : wf n env) by apply wf_filter, W.
    induction (ids_of env) as [|i ids IH]; [reflexivity|]. cbn [flat_map]. rewrite map_vals_app, IH. f_equal. now apply completion_map_vals.
  Qed.
End Layout.

(** ** the assignment of the auxiliary energy *)
From Cteepbd Require Import Proofs.NormIdem.

Lemma qabs_scale_pos (k x : Qc) : 0 < k -> qabs (k * x) = k * qabs x.
Proof.
  intros H. unfold qabs. destruct (qleb_spec 0 x) as [P|P]; destruct (qleb_spec 0 (k * x)) as [P'|P']; try reflexivity; try ring.
  - exfalso. apply P'. toQ. absQ. cbn in *. nra.
  - assert (E : k * x = 0) by (toQ; absQ; cbn in *; nra). assert (x = 0) by (toQ; absQ; cbn in *; nra). subst x. ring.
Qed.

Lemma set_aux_set_vals i s e v : set_aux_service i s (e_set_vals e v) = e_set_vals (set_aux_service i s e) v.
Proof. destruct e; cbn; try reflexivity. destruct (Z.eqb _ _); reflexivity. Qed.

Lemma insert_map_vals f x l : insert_by_id (e_set_vals x (f (e_vals x))) (map_vals f l) = map_vals f (insert_by_id x l).
Proof.
  induction l as [|y l IH]; [reflexivity|]. cbn [map_vals map insert_by_id]. fold (map_vals f l). rewrite !e_id_set.
  destruct (Z.leb (e_id x) (e_id y)); [reflexivity|]. cbn [map]. fold (map_vals f (insert_by_id x l)). now rewrite IH.
Qed.

Lemma sort_map_vals f l : sort_by_id (map_vals f l) = map_vals f (sort_by_id l).
Proof.
  induction l as [|x l IH]; [reflexivity|]. cbn [map_vals map sort_by_id fold_right]. fold (map_vals f l). fold (sort_by_id (map_vals f l)). fold (sort_by_id l).
  rewrite IH. apply insert_map_vals.
Qed.

Lemma qeqb_iff (a b : Qc) : (a = 0 <-> b = 0) -> qeqb a 0 = qeqb b 0.
Proof. intros H. destruct (qeqb_spec a 0) as [A|A], (qeqb_spec b 0) as [B|B]; try reflexivity; exfalso; tauto. Qed.

Section LayoutAux.
  Variables (n n' : nat) (f : list Qc -> list Qc) (c : nat -> Qc) (phi : nat -> nat) (kappa : Qc).
  Hypothesis R : Relayout n n' f c phi kappa.

  Lemma used_services_map_vals d i : used_services (map_vals f d) i = used_services d i.
  Proof. unfold used_services. apply filter_ext. intros s. f_equal. apply (vf_existsb f _ d (vf_used_srv i s)). Qed.
  Lemma out_services_map_vals d i : out_services (map_vals f d) i = out_services d i.
  Proof. unfold out_services. apply filter_ext. intros s. apply (vf_existsb f _ d (vf_is_out_of i s)). Qed.

  Lemma q_out_map_vals d i s t : wf n d -> (t < n')%nat -> q_out (map_vals f d) i s t = c t * q_out d i s (phi t).
  Proof. intros W Ht. unfold q_out. rewrite (vf_filter f _ d (vf_is_out_of i s)). apply (sum_at_map_vals n n' f c phi kappa R); [apply wf_filter, W|exact Ht]. Qed.

  Lemma q_tot_map_vals d i t : wf n d -> (t < n')%nat -> q_tot (map_vals f d) i t = c t * q_tot d i (phi t).
  Proof.
    intros W Ht. unfold q_tot, q_mag. rewrite out_services_map_vals, <- qsum_map_scale. apply qsum_map_ext. intros s _.
    rewrite (q_out_map_vals d i s t W Ht). apply qabs_scale_pos, (rl_cpos _ _ _ _ _ _ R t Ht).
  Qed.

  Lemma aux_share_map_vals d i s t : wf n d -> (t < n')%nat -> aux_share (map_vals f d) i s t = aux_share d i s (phi t).
  Proof.
    intros W Ht. unfold aux_share, q_mag. rewrite (q_tot_map_vals d i t W Ht), (q_out_map_vals d i s t W Ht).
    pose proof (rl_cpos _ _ _ _ _ _ R t Ht) as Cp. rewrite (qabs_scale_pos _ _ Cp).
    revert Cp. generalize (c t) (q_tot d i (phi t)) (qabs (q_out d i s (phi t))). intros k T M Cp.
    destruct (qltb_spec 0 T) as [P|P]; destruct (qltb_spec 0 (k * T)) as [P'|P']; try reflexivity.
    - field. split; intro Z; rewrite Z in *; revert P Cp; qlra.
    - exfalso. apply P'. toQ. absQ. cbn in *. nra.
    - exfalso. apply P. toQ. absQ. cbn in *. nra.
  Qed.

  Lemma num_steps_map_vals d : wf n d -> d <> [] -> num_steps_of (map_vals f d) = n'.
  Proof.
    intros W NE. apply num_steps_wf; [now apply (wf_map_vals n n' f c phi kappa R)|]. intro K. apply map_vals_nil in K. contradiction.
  Qed.

  Lemma no_output_iff d i : wf n d ->
    qsum (map (q_tot (map_vals f d) i) (seq 0 n')) = 0 <-> qsum (map (q_tot d i) (seq 0 n)) = 0.
  Proof.
    intros W.
    assert (F' : Forall (fun x => 0 <= x) (map (q_tot (map_vals f d) i) (seq 0 n'))) by (apply Forall_forall; intros x Hx; apply in_map_iff in Hx as (t & <- & _); apply q_tot_nonneg).
    assert (F : Forall (fun x => 0 <= x) (map (q_tot d i) (seq 0 n))) by (apply Forall_forall; intros x Hx; apply in_map_iff in Hx as (t & <- & _); apply q_tot_nonneg).
    split; intros Z.
    - apply qsum_map_zero. intros t Ht. apply in_seq in Ht. destruct (rl_onto _ _ _ _ _ _ R t ltac:(lia)) as (t' & Ht' & <-).
      pose proof (qsum_zero_all _ F' Z) as A. rewrite Forall_forall in A.
      assert (E : q_tot (map_vals f d) i t' = 0) by (apply A, in_map, in_seq; lia).
      rewrite (q_tot_map_vals d i t' W Ht') in E. pose proof (rl_cpos _ _ _ _ _ _ R t' Ht') as Cp.
      revert E Cp. generalize (c t') (q_tot d i (phi t')). intros k x E Cp. toQ. absQ. cbn in *. nra.
    - apply qsum_map_zero. intros t' Ht'. apply in_seq in Ht'. rewrite (q_tot_map_vals d i t' W ltac:(lia)).
      pose proof (qsum_zero_all _ F Z) as A. rewrite Forall_forall in A.
      rewrite (A (q_tot d i (phi t'))); [ring|]. apply in_map, in_seq. pose proof (rl_phi _ _ _ _ _ _ R t' ltac:(lia)). lia.
  Qed.

  Lemma shares_vec_map_vals d i s tot : wf n d -> length tot = n ->
    map (fun p => aux_share (map_vals f d) i s (fst p) * snd p) (combine (seq 0 n') (f tot)) = f (shares_vec d i s n tot).
  Proof.
    intros W L. pose proof (rl_len _ _ _ _ _ _ R tot L) as Lf.
    change (map (fun p => aux_share (map_vals f d) i s (fst p) * snd p) (combine (seq 0 n') (f tot))) with (shares_vec (map_vals f d) i s n' (f tot)).
    apply (nth_ext0 _ _ n'); [now apply shares_vec_len|apply (rl_len _ _ _ _ _ _ R); now apply shares_vec_len|].
    intros t Ht. rewrite (nth_shares_vec _ i s n' (f tot) t Lf Ht), (aux_share_map_vals d i s t W Ht).
    rewrite !(rl_nth _ _ _ _ _ _ R) by (try exact Ht; try exact L; now apply shares_vec_len).
    rewrite (nth_shares_vec d i s n tot (phi t) L (rl_phi _ _ _ _ _ _ R t Ht)). ring.
  Qed.

  Definition lift (r : res (list Energy)) : res (list Energy) := match r with Ok d => Ok (map_vals f d) | Err e => Err e end.

  Lemma assign_aux_id_map_vals d i : wf n d -> filter (is_aux_of i) d <> [] ->
    assign_aux_id (map_vals f d) i = lift (assign_aux_id d i).
  Proof.
    intros W Ha. assert (NE : d <> []) by (intro K; rewrite K in Ha; now apply Ha).
    unfold assign_aux_id. rewrite used_services_map_vals, (num_steps_map_vals d W NE), (num_steps_wf n d W NE).
    assert (Multi :
      (if qltb 0 (qsum (veclistsum (filter (is_aux_of i) (map_vals f d)))) && qeqb (qsum (map (q_tot (map_vals f d) i) (seq 0 n'))) 0 then Err WrongInput
       else Ok (filter (fun e => negb (is_aux_of i e)) (map_vals f d)
                ++ map (fun s => EAux i s (map (fun p => aux_share (map_vals f d) i s (fst p) * snd p)
                                              (combine (seq 0 n') (veclistsum (filter (is_aux_of i) (map_vals f d))))) comment_aux)
                       (out_services (map_vals f d) i)))
      = lift (if qltb 0 (qsum (veclistsum (filter (is_aux_of i) d))) && qeqb (qsum (map (q_tot d i) (seq 0 n))) 0 then Err WrongInput
              else Ok (filter (fun e => negb (is_aux_of i e)) d
                       ++ map (fun s => EAux i s (map (fun p => aux_share d i s (fst p) * snd p) (combine (seq 0 n) (veclistsum (filter (is_aux_of i) d)))) comment_aux)
                              (out_services d i)))).
    { rewrite (vf_filter f _ d (vf_is_aux_of i)), (vf_filter f _ d (vf_negb _ (vf_is_aux_of i))), out_services_map_vals.
      set (auxs := filter (is_aux_of i) d) in *. assert (Wa : wf n auxs) by apply wf_filter, W.
      rewrite (veclistsum_map_vals n n' f c phi kappa R auxs Wa Ha).
      set (tot := veclistsum auxs). assert (Lt : length tot = n) by (apply veclistsum_len; assumption).
      rewrite (rl_sum _ _ _ _ _ _ R tot Lt).
      assert (E1 : qltb 0 (kappa * qsum tot) = qltb 0 (qsum tot)).
      { pose proof (rl_kpos _ _ _ _ _ _ R) as K. revert K. generalize (qsum tot). intros x K.
        destruct (qltb_spec 0 x) as [P|P]; destruct (qltb_spec 0 (kappa * x)) as [P'|P']; try reflexivity; exfalso; [apply P'|apply P]; toQ; absQ; cbn in *; nra. }
      rewrite E1, (qeqb_iff _ _ (no_output_iff d i W)).
      destruct (qltb 0 (qsum tot) && qeqb (qsum (map (q_tot d i) (seq 0 n))) 0); [reflexivity|]. cbn [lift]. f_equal.
      rewrite map_vals_app. f_equal. unfold map_vals at 2. rewrite map_map. apply map_ext. intros s. cbn [e_set_vals e_vals]. f_equal.
      apply (shares_vec_map_vals d i s tot W Lt). }
    destruct (used_services d i) as [|s [|s' l]].
    - exact Multi.
    - cbn [lift]. f_equal. unfold map_vals. rewrite !map_map. apply map_ext. intros e. rewrite set_aux_set_vals, set_aux_vals. reflexivity.
    - exact Multi.
  Qed.

  Lemma assign_aux_ids_map_vals ids : forall d, wf n d -> NoDup ids -> (forall j, In j ids -> filter (is_aux_of j) d <> []) ->
    assign_aux_ids (map_vals f d) ids = lift (assign_aux_ids d ids).
  Proof.
    induction ids as [|i ids IH]; intros d W ND Ha; cbn [assign_aux_ids]; [reflexivity|].
    rewrite (assign_aux_id_map_vals d i W (Ha i (or_introl eq_refl))).
    destruct (assign_aux_id d i) as [d1|e] eqn:E1; cbn [lift bind]; [|reflexivity].
    inversion ND as [|? ? Ni ND']; subst. apply IH; [|exact ND'|].
    - apply (assign_aux_id_wf n d i d1 W); [apply Ha; now left|exact E1].
    - intros j Hj. rewrite (is_aux_of_other i j d1 d); [apply Ha; now right| |apply (assign_aux_id_others d i d1 E1)]. intro K. subst j. contradiction.
  Qed.

  Lemma assign_aux_map_vals d : wf n d -> assign_aux (map_vals f d) = lift (assign_aux d).
  Proof.
    intros W. unfold assign_aux. rewrite (vf_filter f _ d vf_is_aux), ids_of_map_vals.
    apply assign_aux_ids_map_vals; [exact W|apply ids_of_nodup|].
    intros j Hj. apply ids_of_in in Hj as (e & He & Ee). apply filter_In in He as [He Ae].
    intro K. assert (In e (filter (is_aux_of j) d)); [|rewrite K in *; contradiction].
    apply filter_In. split; [exact He|]. unfold is_aux_of, has_id. rewrite Ae, Ee, Z.eqb_refl. reflexivity.
  Qed.

  (** normalising the re-laid-out components gives the re-laid-out normalised components (or the same error) *)
  Theorem normalize_data_map_vals data : wf n data -> normalize_data (map_vals f data) = lift (normalize_data data).
  Proof.
    intros W. unfold normalize_data.
    rewrite (complete_map_vals n n' f c phi kappa R EAMBIENTE data W).
    rewrite (complete_map_vals n n' f c phi kappa R TERMOSOLAR _ (complete_wf n EAMBIENTE data W)).
    rewrite (assign_aux_map_vals _ (complete_wf n TERMOSOLAR _ (complete_wf n EAMBIENTE data W))).
    destruct (assign_aux (complete TERMOSOLAR (complete EAMBIENTE data))) as [d3|e]; cbn [lift bind]; [|reflexivity].
    now rewrite sort_map_vals.
  Qed.
End LayoutAux.

(** ** the three relayouts *)
Lemma relayout_perm sigma n : Permutation sigma (seq 0 n) ->
  Relayout n n (vperm sigma) (fun _ => 1) (fun t => nth t sigma 0%nat) 1.
Proof.
  intros Hs. assert (Ls : length sigma = n) by (rewrite (Permutation_length Hs); apply seq_length).
  constructor.
  - intros v _. unfold vperm. now rewrite map_length.
  - intros v t _ Ht. rewrite nth_vperm by (now rewrite Ls). ring.
  - intros t _. qlra.
  - intros t Ht. assert (In (nth t sigma 0%nat) sigma) by (apply nth_In; now rewrite Ls).
    apply (Permutation_in _ Hs) in H. apply in_seq in H. lia.
  - intros t Ht. assert (In t sigma) by (apply (Permutation_in _ (Permutation_sym Hs)), in_seq; lia).
    apply (In_nth _ _ 0%nat) in H as (t' & Ht' & E). exists t'. split; [now rewrite <- Ls|exact E].
  - intros v L. unfold vperm. rewrite (qsum_perm _ (map (fun i => nth i v 0) (seq 0 n))) by (apply Permutation_map, Hs).
    rewrite <- L, map_nth_seq. ring.
  - qlra.
Qed.

Lemma qsum_repeat (a : Qc) m : qsum (repeat a m) = qn m * a.
Proof. induction m as [|m IH]; [cbn; rewrite qn_0; ring|]. cbn [repeat]. rewrite qsum_cons, IH, qn_S. ring. Qed.

Lemma relayout_sub m n : (0 < m)%nat ->
  Relayout n (m * n) (vsub m) (fun _ => 1 / qn m) (fun t => (t / m)%nat) 1.
Proof.
  intros Hm. pose proof (qn_pos m Hm) as Qp. assert (Qn : qn m <> 0) by (intro Z; rewrite Z in Qp; revert Qp; qlra).
  constructor.
  - intros v L. now rewrite length_vsub, L.
  - intros v t _ _. rewrite nth_vsub by exact Hm. unfold Qcdiv. ring.
  - intros t _. revert Qp. generalize (qn m). intros q Qp. toQ. absQ. cbn in *. unfold Qdiv. rewrite Qmult_1_l. now apply Qinv_lt_0_compat.
  - intros t Ht. apply Nat.div_lt_upper_bound; lia.
  - intros t Ht. exists (t * m)%nat. split; [nia|]. apply Nat.div_mul. lia.
  - intros v _. induction v as [|x v IH]; [cbn; ring|]. cbn [vsub flat_map]. fold (vsub m v). rewrite qsum_app, IH, qsum_repeat, qsum_cons. field. exact Qn.
  - qlra.
Qed.

Lemma relayout_scale k n : 0 < k -> Relayout n n (vscale k) (fun _ => k) (fun t => t) k.
Proof.
  intros Hk. constructor.
  - intros v L. unfold vscale. now rewrite map_length.
  - intros v t _ _. apply nth_vscale.
  - intros t _. exact Hk.
  - intros t Ht. exact Ht.
  - intros t Ht. exists t. tauto.
  - intros v _. unfold vscale. rewrite (qsum_map_scale k (fun x => x) v), map_id. reflexivity.
  - exact Hk.
Qed.

Definition lift_with (g : list Energy -> list Energy) (r : res (list Energy)) : res (list Energy) :=
  match r with Ok d => Ok (g d) | Err e => Err e end.

(** the declared components of the building with permuted steps normalise to the normalised components with permuted steps *)
Theorem normalize_perm sigma n data : Permutation sigma (seq 0 n) -> wf n data ->
  normalize_data (perm_data sigma data) = lift_with (perm_data sigma) (normalize_data data).
Proof. intros Hs W. exact (normalize_data_map_vals n n _ _ _ _ (relayout_perm sigma n Hs) data W). Qed.

Theorem normalize_sub m n data : (0 < m)%nat -> wf n data ->
  normalize_data (sub_data m data) = lift_with (sub_data m) (normalize_data data).
Proof. intros Hm W. exact (normalize_data_map_vals n (m * n) _ _ _ _ (relayout_sub m n Hm) data W). Qed.

Theorem normalize_scale k n data : 0 < k -> wf n data ->
  normalize_data (scale_data k data) = lift_with (scale_data k) (normalize_data data).
Proof. intros Hk W. exact (normalize_data_map_vals n n _ _ _ _ (relayout_scale k n Hk) data W). Qed.
