(** * Structural facts about carrier contexts *)
From Cteepbd Require Import Model.Factors Proofs.StepFacts Proofs.ColFacts Proofs.Breakdown.
Open Scope Qc_scope.

Lemma existsb_filter_sub {A} (p q : A -> bool) l : existsb p (filter q l) = true -> existsb p l = true.
Proof.
  induction l as [|a l IH]; [discriminate|]. cbn [filter existsb]. destruct (q a); cbn [existsb].
  - intros H. apply orb_true_iff in H as [H|H]; [now rewrite H|]. rewrite IH by assumption. apply orb_true_r.
  - intros H. rewrite IH by assumption. apply orb_true_r.
Qed.

Lemma existsb_imp {A} (p q : A -> bool) l : (forall a, p a = true -> q a = true) -> existsb p l = true -> existsb q l = true.
Proof.
  intros H E. apply existsb_exists in E as (a & Ha & Pa). apply existsb_exists. exists a. split; [exact Ha|now apply H].
Qed.

Section Ctx.
  Variables (cr : Carrier) (lm : bool) (data : list Energy).
  Let x := mk_ctx cr lm data.
  Let l := filter (has_carrier cr) data.

  Lemma in_srcs j : In j (cx_srcs x) <-> existsb (is_prod_src j) l = true.
  Proof.
    unfold x, mk_ctx. cbn [cx_srcs]. rewrite filter_In. split; [tauto|]. intros H. split; [apply all_prodsources_complete|exact H].
  Qed.

  Lemma srcs_carrier j : In j (cx_srcs x) -> ps_carrier j = cr /\ existsb (is_prod_src j) data = true.
  Proof.
    intros H. apply in_srcs in H. split.
    - apply existsb_exists in H as (e & He & Pe). unfold l in He. apply filter_In in He as [_ Hc].
      destruct e; try discriminate. cbn in Pe. apply ProdSource_beq_eq in Pe. subst.
      unfold has_carrier in Hc. cbn in Hc. now apply Carrier_beq_eq in Hc.
    - eapply existsb_filter_sub. exact H.
  Qed.

  (** no declared source of the carrier: nothing is produced *)
  Lemma absent_src_col_zero j t : existsb (is_prod_src j) l = false -> c_src (col_at l t) j = 0.
  Proof. intros H. destruct j; cbn; now apply colsum_absent. Qed.

  Lemma other_carrier_src_absent j : ps_carrier j <> cr -> existsb (is_prod_src j) l = false.
  Proof.
    intros N. apply not_true_is_false. intros H. apply existsb_exists in H as (e & He & Pe).
    unfold l in He. apply filter_In in He as [_ Hc]. destruct e; try discriminate. cbn in Pe.
    apply ProdSource_beq_eq in Pe. subst. unfold has_carrier in Hc. cbn in Hc. apply Carrier_beq_eq in Hc. congruence.
  Qed.

  (** delivered on-site energy vanishes unless the carrier has a declared on-site source *)
  Lemma del_onst_zero :
    (forall j, ps_carrier j = cr -> ps_source j = INSITU -> existsb (is_prod_src j) l = false) -> a_del_onst x = 0.
  Proof.
    intros H. unfold a_del_onst, ann, vec. apply qsum_map_zero. intros s Hs. apply steps_inv in Hs as (t & ->).
    unfold s_del_onst, del_onst. cbn [fst]. fold l.
    assert (Z : forall j, ps_source j = INSITU -> c_src (col_at l t) j = 0).
    { intros j Hj. apply absent_src_col_zero. destruct (Carrier_eq_dec (ps_carrier j) cr) as [E|N].
      - now apply H. - now apply other_carrier_src_absent. }
    pose proof (Z EL_INSITU eq_refl) as Z1. pose proof (Z PS_TERMOSOLAR eq_refl) as Z2. pose proof (Z PS_EAMBIENTE eq_refl) as Z3.
    cbn [c_src] in Z1, Z2, Z3. rewrite Z1, Z2, Z3. ring.
  Qed.

  (** without non-EPB use nothing is exported to non-EPB uses.  An auxiliary component with service
      COGEN would be counted as non-EPB use by the balance but is not a non-EPB use for [strip]; normalised
      component sets never contain one (fix d9ddfb3) *)
  Definition aux_ok (d : list Energy) : Prop :=
    Forall (fun e => match e with EAux _ s _ _ => s <> COGEN | _ => True end) d.

  Lemma ne_use_is_nepb e : match e with EAux _ s _ _ => s <> COGEN | _ => True end ->
    has_carrier cr e = true -> is_ne_use e = true -> is_nepb_use e = true.
  Proof.
    destruct e as [? ? s ? ?|? ? ? ?|? s ? ?|? s ? ?]; cbn; try discriminate; destruct s; cbn; try discriminate; try reflexivity.
    intros H. congruence.
  Qed.

  Lemma exp_ne_zero : nonneg_data data -> aux_ok data -> existsb is_nepb_use data = false -> a_exp_ne x = 0.
  Proof.
    intros Hn Ha H. unfold a_exp_ne, ann, vec. apply qsum_map_zero. intros s Hs.
    apply steps_inv in Hs as (t & ->).
    pose proof (col_at_ok cr data t Hn) as Hok. fold l in Hok |- *.
    assert (Z : c_ne (col_at l t) = 0).
    { cbn. apply colsum_absent. apply not_true_is_false. intros E. apply existsb_exists in E as (e & He & Pe).
      unfold l in He. apply filter_In in He as [He Hc]. unfold aux_ok in Ha. rewrite Forall_forall in Ha.
      assert (existsb is_nepb_use data = true).
      { apply existsb_exists. exists e. split; [exact He|]. apply ne_use_is_nepb; [now apply Ha|exact Hc|exact Pe]. }
      congruence. }
    destruct (step_nonneg (cx_prio x) lm (col_at l t) Hok) as (_ & _ & _ & N4 & _).
    unfold s_exp_ne, s_ne. cbn [fst]. rewrite Z.
    match goal with |- qmin ?a _ = _ => assert (N : 0 <= a) by exact N4; revert N; generalize a end.
    intros e N. unfold qmin. destruct (qleb_spec e 0) as [L|L]; [|reflexivity]. apply Qcle_antisym; assumption.
  Qed.
End Ctx.
