(** * Completion of ambient / solar production through the whole normalisation (C05, end to end)

    The per-system statements of C05 (value of the completion, no pooling) are about [completion_for].  Here they are
    carried through [normalize_data]: the two completion passes do not see each other's carrier, the reassignment of
    auxiliary energy leaves every other component alone, and the final sort is a permutation.  In the normalised list the
    production of the carrier attributed to system [i] adds up, at step [t], to the production declared for that system
    plus max(0, use - declared production) of that same system. *)
From Cteepbd Require Import Model.Components Proofs.NormFacts Proofs.DataEquiv Proofs.WfFacts Proofs.CompleteIdem Proofs.NormIdem Proofs.NormPerm Proofs.Refine Proofs.ColFacts.
From Coq Require Import Permutation.
Open Scope Qc_scope.

(** production components of carrier [cr] attributed to system [i] *)
Definition prod_cr_of (cr : Carrier) (i : Z) (e : Energy) : bool := has_carrier cr e && (has_id i e && is_generated e).

Lemma prod_of_view cr i l : prod_of (filter (has_carrier cr) l) i = filter (prod_cr_of cr i) l.
Proof. unfold prod_of. now rewrite filter_filter. Qed.

(** what the completion adds for system [i] at step [t] *)
Definition completed_at (src : ProdSource) (env : list Energy) (i : Z) (t : nat) : Qc := sum_at (completion_for src env i) t.

Lemma completion_ids src env j e : In e (completion_for src env j) -> e = EProd j src (e_vals e) comment_completion.
Proof.
  unfold completion_for. destruct (unbalanced env j) as [v|]; [|contradiction]. destruct (qeqb (qsum v) 0); [contradiction|].
  intros [<-|[]]. reflexivity.
Qed.

Lemma filter_flat_map_completion (p : Energy -> bool) src env i ids :
  NoDup ids -> (forall j e, In e (completion_for src env j) -> p e = Z.eqb j i) ->
  filter p (flat_map (completion_for src env) ids) = if existsb (Z.eqb i) ids then completion_for src env i else [].
Proof.
  intros ND Hp. induction ND as [|j ids Nj ND IH]; [reflexivity|]. cbn [flat_map existsb]. rewrite filter_app, IH.
  destruct (Z.eqb_spec i j) as [<-|N]; cbn [orb].
  - assert (K : existsb (Z.eqb i) ids = false).
    { apply not_true_is_false. intro X. apply existsb_exists in X as (k & Hk & Ek). apply Z.eqb_eq in Ek. subst k. contradiction. }
    rewrite K, app_nil_r. apply filter_map_all. intros e He. rewrite (Hp i e He). apply Z.eqb_refl.
  - assert (K : filter p (completion_for src env j) = []).
    { apply filter_map_none. intros e He. rewrite (Hp j e He). apply Z.eqb_neq. congruence. }
    rewrite K. reflexivity.
Qed.

Lemma filter_other_completions (p : Energy -> bool) src env ids :
  (forall j e, In e (completion_for src env j) -> p e = false) -> filter p (flat_map (completion_for src env) ids) = [].
Proof.
  intros Hp. apply filter_map_none. intros e He. apply in_flat_map in He as (j & _ & He). now apply (Hp j).
Qed.

Section Whole.
  Variables (n : nat) (data d : list Energy).
  Hypothesis Hwf : wf n data.
  Hypothesis Hnorm : normalize_data data = Ok d.

  Let d1 := complete EAMBIENTE data.
  Let d2 := complete TERMOSOLAR d1.

  Lemma nonaux_perm : Permutation (nonaux d) (nonaux d2).
  Proof.
    pose proof Hnorm as H. unfold normalize_data in H. fold d1 in H. fold d2 in H.
    destruct (assign_aux d2) as [d3|] eqn:A; cbn [bind] in H; [|discriminate]. injection H as <-.
    unfold assign_aux in A. apply assign_aux_ids_keeps in A. unfold nonaux. rewrite <- A. apply filter_perm, sort_by_id_perm.
  Qed.

  Lemma sum_through p t : (forall e, p e = true -> is_aux e = false) -> sum_at (filter p d) t = sum_at (filter p d2) t.
  Proof.
    intros Hp. rewrite (filter_nonaux p d Hp), (filter_nonaux p d2 Hp). apply sum_at_perm, filter_perm, nonaux_perm.
  Qed.

  Lemma prod_not_aux cr i e : prod_cr_of cr i e = true -> is_aux e = false.
  Proof. unfold prod_cr_of. intros H. apply andb_true_iff in H as [_ H]. apply andb_true_iff in H as [_ H]. destruct e; try discriminate; reflexivity. Qed.

  (** the two passes *)
  Let env (cr : Carrier) := filter (has_carrier cr) data.

  Lemma d1_eq : d1 = data ++ flat_map (completion_for PS_EAMBIENTE (env EAMBIENTE)) (ids_of (env EAMBIENTE)).
  Proof. reflexivity. Qed.

  Lemma env_T_d1 : filter (has_carrier TERMOSOLAR) d1 = env TERMOSOLAR.
  Proof.
    rewrite d1_eq, filter_app. rewrite filter_other_completions; [apply app_nil_r|].
    intros j e He. rewrite (completion_ids _ _ _ _ He). reflexivity.
  Qed.

  Lemma d2_eq : d2 = (data ++ flat_map (completion_for PS_EAMBIENTE (env EAMBIENTE)) (ids_of (env EAMBIENTE)))
                     ++ flat_map (completion_for PS_TERMOSOLAR (env TERMOSOLAR)) (ids_of (env TERMOSOLAR)).
  Proof. unfold d2, complete, complete_with. cbn [source_of_carrier]. rewrite env_T_d1. reflexivity. Qed.

  Lemma in_ids cr i : used_of (env cr) i <> [] -> existsb (Z.eqb i) (ids_of (env cr)) = true.
  Proof.
    intros H. destruct (used_of (env cr) i) as [|e l] eqn:U; [contradiction|].
    assert (He : In e (used_of (env cr) i)) by (rewrite U; now left). unfold used_of in He. apply filter_In in He as [He Pe].
    apply andb_true_iff in Pe as [Ie _]. unfold has_id in Ie. apply Z.eqb_eq in Ie. rewrite <- Ie. now apply ids_of_complete.
  Qed.

  Lemma no_use_no_completion cr src i : used_of (env cr) i = [] -> completion_for src (env cr) i = [].
  Proof. apply completion_none. Qed.

  (** production of the carrier attributed to system [i], in the normalised list *)
  Theorem normalized_production cr src i t : source_of_carrier cr = Some src ->
    sum_at (prod_of (filter (has_carrier cr) d) i) t = sum_at (prod_of (env cr) i) t + completed_at src (env cr) i t.
  Proof.
    intros Hs. change (prod_of (env cr) i) with (prod_of (filter (has_carrier cr) data) i). rewrite !prod_of_view.
    rewrite (sum_through _ t (prod_not_aux cr i)), d2_eq, !filter_app, !sum_at_app.
    unfold completed_at.
    assert (Own : forall cr0 src0, source_of_carrier cr0 = Some src0 ->
              sum_at (filter (prod_cr_of cr0 i) (flat_map (completion_for src0 (env cr0)) (ids_of (env cr0)))) t
              = sum_at (completion_for src0 (env cr0) i) t).
    { intros cr0 src0 H0. rewrite (filter_flat_map_completion _ src0 (env cr0) i _ (ids_of_nodup _)).
      - destruct (existsb (Z.eqb i) (ids_of (env cr0))) eqn:X; [reflexivity|].
        rewrite no_use_no_completion; [reflexivity|]. destruct (used_of (env cr0) i) as [|e l] eqn:U; [reflexivity|exfalso].
        assert (Y : existsb (Z.eqb i) (ids_of (env cr0)) = true) by (apply in_ids; rewrite U; discriminate). congruence.
      - intros j e He. rewrite (completion_ids _ _ _ _ He). unfold prod_cr_of, has_carrier, has_id. cbn [e_carrier e_id is_generated].
        destruct cr0; try discriminate H0; injection H0 as <-; cbn; rewrite andb_true_r; reflexivity. }
    assert (Other : forall cr0 src0, source_of_carrier cr0 = Some src0 -> cr0 <> cr ->
              filter (prod_cr_of cr i) (flat_map (completion_for src0 (env cr0)) (ids_of (env cr0))) = []).
    { intros cr0 src0 H0 N. apply filter_other_completions. intros j e He. rewrite (completion_ids _ _ _ _ He).
      unfold prod_cr_of, has_carrier. cbn [e_carrier].
      destruct cr0; try discriminate H0; injection H0 as <-; destruct cr; try discriminate Hs; try contradiction; reflexivity. }
    destruct cr; try discriminate Hs; injection Hs as <-.
    - (* EAMBIENTE *)
      rewrite (Own EAMBIENTE PS_EAMBIENTE eq_refl), (Other TERMOSOLAR PS_TERMOSOLAR eq_refl) by discriminate.
      unfold sum_at at 3. cbn [map]. rewrite qsum_nil. ring.
    - (* TERMOSOLAR *)
      rewrite (Own TERMOSOLAR PS_TERMOSOLAR eq_refl), (Other EAMBIENTE PS_EAMBIENTE eq_refl) by discriminate.
      unfold sum_at at 2. cbn [map]. rewrite qsum_nil. ring.
  Qed.
End Whole.

(** ** the value completed at one step *)
Lemma nth_map_combine_max (a b : list Qc) t : length a = length b -> (t < length a)%nat ->
  nth t (map (fun p => qmax 0 (fst p - snd p)) (combine a b)) 0 = qmax 0 (nth t a 0 - nth t b 0).
Proof.
  revert b t. induction a as [|x a IH]; intros [|y b] t L Ht; try discriminate; [inversion Ht|].
  destruct t as [|t]; [reflexivity|]. cbn [combine map nth]. apply IH; [now injection L|cbn in Ht; apply Nat.succ_lt_mono; exact Ht].
Qed.

Lemma qmax0_nonneg x : 0 <= qmax 0 x.
Proof. unfold qmax. destruct (qleb_spec 0 x) as [L|L]; [exact L|apply Qcle_refl]. Qed.

Lemma qsum_zero_all (v : list Qc) : Forall (fun x => 0 <= x) v -> qsum v = 0 -> forall t, nth t v 0 = 0.
Proof.
  induction 1 as [|x v Hx Hv IH]; intros S t; [destruct t; reflexivity|]. rewrite qsum_cons in S.
  assert (P : 0 <= qsum v) by (apply qsum_nonneg; exact Hv).
  assert (X0 : x = 0) by (revert Hx P S; generalize (qsum v); intros s Hx P S; qlra).
  assert (S0 : qsum v = 0) by (revert Hx P S; generalize (qsum v); intros s Hx P S; qlra).
  destruct t as [|t]; [exact X0|]. cbn [nth]. now apply IH.
Qed.

Section Value.
  Variables (n : nat) (env0 : list Energy) (i : Z) (src : ProdSource) (t : nat).
  Hypothesis Hwf : wf n env0.
  Hypothesis Ht : (t < n)%nat.
  Hypothesis Hused : used_of env0 i <> [].
  (** declared production present: no sign condition is needed *)
  Lemma completed_with_production : prod_of env0 i <> [] ->
    completed_at src env0 i t = qmax 0 (sum_at (used_of env0 i) t - sum_at (prod_of env0 i) t).
  Proof.
    intros Hp. unfold completed_at, completion_for.
    destruct (unbalanced env0 i) as [v|] eqn:U.
    - destruct (unbalanced_spec env0 i v U) as (_ & _ & Hv). specialize (Hv Hp).
      assert (WU : wf n (used_of env0 i)) by (apply wf_filter, Hwf). assert (WP : wf n (prod_of env0 i)) by (apply wf_filter, Hwf).
      assert (LU : length (veclistsum (used_of env0 i)) = n) by (now apply veclistsum_len).
      assert (LP : length (veclistsum (prod_of env0 i)) = n) by (now apply veclistsum_len).
      assert (N : nth t v 0 = qmax 0 (sum_at (used_of env0 i) t - sum_at (prod_of env0 i) t)).
      { rewrite Hv, nth_map_combine_max by (rewrite ?LU, ?LP; auto). now rewrite !(veclistsum_nth n). }
      destruct (qeqb_spec (qsum v) 0) as [Z|NZ].
      + unfold sum_at at 1. cbn [map]. rewrite qsum_nil. rewrite <- N. symmetry. apply qsum_zero_all; [|exact Z].
        rewrite Hv. apply Forall_forall. intros x Hx. apply in_map_iff in Hx as (p & <- & _). apply qmax0_nonneg.
      + unfold sum_at at 1. cbn [map]. rewrite qsum_cons, qsum_nil. unfold val_at. cbn [e_vals]. rewrite N. ring.
    - exfalso. unfold unbalanced in U. fold (used_of env0 i) in U. destruct (used_of env0 i); [contradiction|discriminate].
  Qed.

  (** no declared production: the whole use, provided the uses are not negative *)
  Lemma completed_without_production : prod_of env0 i = [] -> Forall (fun e => Forall (fun x => 0 <= x) (e_vals e)) (used_of env0 i) ->
    completed_at src env0 i t = sum_at (used_of env0 i) t.
  Proof.
    intros Hp Hn. unfold completed_at, completion_for.
    destruct (unbalanced env0 i) as [v|] eqn:U.
    - destruct (unbalanced_spec env0 i v U) as (_ & Hv & _). specialize (Hv Hp).
      assert (WU : wf n (used_of env0 i)) by (apply wf_filter, Hwf).
      assert (LU : length (veclistsum (used_of env0 i)) = n) by (now apply veclistsum_len).
      assert (N : nth t v 0 = sum_at (used_of env0 i) t) by (rewrite Hv; now apply (veclistsum_nth n)).
      destruct (qeqb_spec (qsum v) 0) as [Z|NZ].
      + unfold sum_at at 1. cbn [map]. rewrite qsum_nil. rewrite <- N. symmetry. apply qsum_zero_all; [|exact Z].
        apply Forall_forall. intros x Hx. apply In_nth with (d := 0) in Hx as (k & Hk & <-). rewrite Hv in *. rewrite LU in Hk.
        rewrite (veclistsum_nth n _ k WU Hused Hk). unfold sum_at. apply qsum_map_nonneg. intros e He. unfold val_at.
        rewrite Forall_forall in Hn. apply nth_Forall; [apply Hn, He|apply Qcle_refl].
      + unfold sum_at at 1. cbn [map]. rewrite qsum_cons, qsum_nil. unfold val_at. cbn [e_vals]. rewrite N. ring.
    - exfalso. unfold unbalanced in U. fold (used_of env0 i) in U. destruct (used_of env0 i); [contradiction|discriminate].
  Qed.
End Value.
