(** * Closed form of the DHW renewable fraction when the DHW supply has no electricity, ambient heat or biomass (C15) *)
From Cteepbd Require Import Model.Balance Model.Cte.
Open Scope Qc_scope.

Lemma amodify_absent m c f : aget m c = None -> amodify m c f = m.
Proof.
  unfold aget, amodify. induction m as [|[k v] m IH]; [reflexivity|]. cbn [find map fst snd].
  destruct (Carrier_beq k c) eqn:E; [discriminate|]. intros H. now rewrite IH.
Qed.

Lemma ahas_absent m c : aget m c = None -> ahas m c = false.
Proof. unfold ahas. now intros ->. Qed.

Section Supply.
  Variable ep : EP.
  Variables (v : list Qc).
  Let D := qsum v.
  Let m0 := dhw_used_by_cr ep.
  Hypothesis Hneeds : nd_ACS (ep_needs ep) = Some v.
  Hypothesis Hd : ~ qabs D < f32_epsilon.
  Hypothesis Hm : m0 <> [].
  Hypothesis Hel : aget m0 ELECTRICIDAD = None.
  Hypothesis Hea : aget m0 EAMBIENTE = None.
  Hypothesis Hb : aget m0 BIOMASA = None.
  Hypothesis Hbd : aget m0 BIOMASADENSIFICADA = None.
  Hypothesis Hpv : t_used_src_srv_opt ep EL_INSITU ACS = 0.

  (** the fraction is the renewable part of what the nearby carriers (solar thermal, district networks) supply *)
  Theorem dhw_nearby_supply :
    fraccion_renovable_acs_nrb ep = (do nb <- q_nrb_non_biomass (ep_factors ep) m0; Ok (snd nb / D)).
  Proof.
    unfold fraccion_renovable_acs_nrb, needs_sum. rewrite Hneeds. fold D.
    destruct (qltb_spec (qabs D) f32_epsilon) as [L|L]; [contradiction|].
    cbv zeta. fold m0.
    rewrite (amodify_absent m0 ELECTRICIDAD _ Hel), Hel, (amodify_absent m0 EAMBIENTE _ Hea), Hea.
    destruct m0 as [|p0 m'] eqn:E; [contradiction|]. rewrite <- E in *.
    destruct (q_nrb_non_biomass (ep_factors ep) m0) as [nb|k] eqn:N; cbn [bind]; [|reflexivity].
    rewrite (ahas_absent _ _ Hb), (ahas_absent _ _ Hbd). cbn [orb andb negb bind].
    rewrite Hpv. destruct (qltb_spec f32_epsilon (qabs 0)) as [K|K]; [exfalso; revert K; unfold f32_epsilon; qlra|].
    rewrite Hel. destruct (qltb_spec 0 0) as [K0|K0]; [exfalso; qlra|]. cbn [andb bind].
    f_equal. unfold Qcdiv. ring.
  Qed.
End Supply.

(** solar thermal and a boiler: the solar energy used for DHW over the demand, when the solar factor is (1, 0, 0) *)
Lemma q_nrb_solar_fuel fs S cr G :
  cr_is_nearby cr = false -> look fs TERMOSOLAR RED SUMINISTRO STEP_A = Some (mkRNC 1 0 0) ->
  q_nrb_non_biomass fs [(TERMOSOLAR, S); (cr, G)] = Ok (S, S).
Proof.
  intros Hn Hf. cbn [q_nrb_non_biomass]. rewrite Hn. cbn [andb bind fst snd cr_is_nearby Carrier_beq negb].
  unfold ren_fraction. rewrite Hf. cbn [bind ren nren fst snd].
  assert (F : (1 : Qc) / (1 + 0) = 1) by (apply Qc_is_canon; reflexivity). rewrite F. f_equal. f_equal; ring.
Qed.

(** direct electric DHW with on-site electricity: the on-site electricity used for DHW over the demand *)
Lemma amodify_sub0 m c : amodify m c (fun v => v - 0) = m.
Proof.
  unfold amodify. induction m as [|[k v] m IH]; [reflexivity|]. cbn [map fst snd]. rewrite IH.
  destruct (Carrier_beq k c); [|reflexivity]. f_equal. f_equal. ring.
Qed.

Section Electric.
  Variable ep : EP.
  Variables (v : list Qc) (E : Qc).
  Let D := qsum v.
  Hypothesis Hneeds : nd_ACS (ep_needs ep) = Some v.
  Hypothesis Hd : ~ qabs D < f32_epsilon.
  Hypothesis Hm : dhw_used_by_cr ep = [(ELECTRICIDAD, E)].
  Hypothesis HE : qfrac 1 100 <= E.
  Hypothesis Haux : qsum (map vals_sum (filter (fun e => is_aux e && has_service ACS e) (ep_data ep))) = 0.
  Hypothesis Hlow : qsum (map vals_sum (filter (fun e => is_used e && has_carrier EAMBIENTE e && contains (e_cmt e) TAG_EXCLUYE_SCOP) (ep_data ep))) = 0.
  Hypothesis Hcgn : t_used_src_srv_opt ep EL_COGEN ACS = 0.

  Theorem dhw_direct_electric : fraccion_renovable_acs_nrb ep = Ok (t_used_src_srv_opt ep EL_INSITU ACS / D).
  Proof.
    unfold fraccion_renovable_acs_nrb, needs_sum. rewrite Hneeds. fold D.
    destruct (qltb_spec (qabs D) f32_epsilon) as [L|L]; [contradiction|].
    cbv zeta. rewrite Hm, Haux, Hlow, !amodify_sub0.
    assert (A : aget [(ELECTRICIDAD, E)] ELECTRICIDAD = Some E) by reflexivity. rewrite A.
    destruct (qltb_spec (qabs E) (qfrac 1 100)) as [K|K]; [exfalso; revert K; qlra|].
    assert (A2 : aget [(ELECTRICIDAD, E)] EAMBIENTE = None) by reflexivity. rewrite A2.
    cbn [q_nrb_non_biomass cr_is_nearby andb bind fst snd]. rewrite A.
    assert (B1 : ahas [(ELECTRICIDAD, E)] BIOMASA = false) by reflexivity.
    assert (B2 : ahas [(ELECTRICIDAD, E)] BIOMASADENSIFICADA = false) by reflexivity. rewrite B1, B2. cbn [orb andb negb bind].
    destruct (qltb_spec f32_epsilon (qabs E)) as [P|P]; [|exfalso; revert P; unfold f32_epsilon; qlra].
    rewrite Hcgn. destruct (qltb_spec 0 0) as [Z|Z]; [exfalso; qlra|]. rewrite andb_false_r. cbn [andb bind].
    f_equal. unfold Qcdiv. ring.
  Qed.
End Electric.
