(** * Closed form of the DHW renewable fraction when the DHW supply has no electricity, ambient heat or biomass (C15) *)
From Cteepbd Require Import Model.Balance Model.Cte.
Open Scope Qc_scope.

Lemma amodify_absent m c f : aget m c = None -> amodify m c f = m.
Proof.
  unfold aget, amodify. induction m as [|[k v] m IH]; [reflexivity|]. cbn [find map fst snd].
  destruct (Carrier_beq k c) eqn:E; [discriminate|]. intros H. now rewrite IH.
Qed.

Lemma ahas_absent m c : aget m c = None -> ahas m c = false.
Proof. unfold ahas. now intros ->. Qed.

Section Supply.
  Variable ep : EP.
  Variables (v : list Qc).
  Let D := qsum v.
  Let m0 := dhw_used_by_cr ep.
  Hypothesis Hneeds : nd_ACS (ep_needs ep) = Some v.
  Hypothesis Hd : ~ qabs D < f32_epsilon.
  Hypothesis Hm : m0 <> [].
  Hypothesis Hel : aget m0 ELECTRICIDAD = None.
  Hypothesis Hea : aget m0 EAMBIENTE = None.
  Hypothesis Hb : aget m0 BIOMASA = None.
  Hypothesis Hbd : aget m0 BIOMASADENSIFICADA = None.
  Hypothesis Hpv : t_used_src_srv_opt ep EL_INSITU ACS = 0.

  (** the fraction is the renewable part of what the nearby carriers (solar thermal, district networks) supply *)
  Theorem dhw_nearby_supply :
    fraccion_renovable_acs_nrb ep = (do nb <- q_nrb_non_biomass (ep_factors ep) m0; Ok (snd nb / D)).
  Proof.
    unfold fraccion_renovable_acs_nrb, needs_sum. rewrite Hneeds. fold D.
    destruct (qltb_spec (qabs D) f32_epsilon) as [L|L]; [contradiction|].
    cbv zeta. fold m0.
    rewrite (amodify_absent m0 ELECTRICIDAD _ Hel), Hel, (amodify_absent m0 EAMBIENTE _ Hea), Hea.
    destruct m0 as [|p0 m'] eqn:E; [contradiction|]. rewrite <- E in *.
    destruct (q_nrb_non_biomass (ep_factors ep) m0) as [nb|k] eqn:N; cbn [bind]; [|reflexivity].
    rewrite (ahas_absent _ _ Hb), (ahas_absent _ _ Hbd). cbn [orb andb negb bind].
    rewrite Hpv. destruct (qltb_spec f32_epsilon (qabs 0)) as [K|K]; [exfalso; revert K; unfold f32_epsilon; qlra|].
    rewrite Hel. destruct (qltb_spec 0 0) as [K0|K0]; [exfalso; qlra|]. cbn [andb bind].
    f_equal. unfold Qcdiv. ring.
  Qed.
End Supply.

(** solar thermal and a boiler: the solar energy used for DHW over the demand, when the solar factor is (1, 0, 0) *)
Lemma q_nrb_solar_fuel fs S cr G :
  cr_is_nearby cr = false -> look fs TERMOSOLAR RED SUMINISTRO STEP_A = Some (mkRNC 1 0 0) ->
  q_nrb_non_biomass fs [(TERMOSOLAR, S); (cr, G)] = Ok (S, S).
Proof.
  intros Hn Hf. cbn [q_nrb_non_biomass]. rewrite Hn. cbn [andb bind fst snd cr_is_nearby Carrier_beq negb].
  unfold ren_fraction. rewrite Hf. cbn [bind ren nren fst snd].
  assert (F : (1 : Qc) / (1 + 0) = 1) by (apply Qc_is_canon; reflexivity). rewrite F. f_equal. f_equal; ring.
Qed.

(** direct electric DHW with on-site electricity: the on-site electricity used for DHW over the demand *)
Lemma amodify_sub0 m c : amodify m c (fun v => v - 0) = m.
Proof.
  unfold amodify. induction m as [|[k v] m IH]; [reflexivity|]. cbn [map fst snd]. rewrite IH.
  destruct (Carrier_beq k c); [|reflexivity]. f_equal. f_equal. ring.
Qed.

Section Electric.
  Variable ep : EP.
  Variables (v : list Qc) (E : Qc).
  Let D := qsum v.
  Hypothesis Hneeds : nd_ACS (ep_needs ep) = Some v.
  Hypothesis Hd : ~ qabs D < f32_epsilon.
  Hypothesis Hm : dhw_used_by_cr ep = [(ELECTRICIDAD, E)].
  Hypothesis HE : qfrac 1 100 <= E.
  Hypothesis Haux : qsum (map vals_sum (filter (fun e => is_aux e && has_service ACS e) (ep_data ep))) = 0.
  Hypothesis Hlow : qsum (map vals_sum (filter (fun e => is_used e && has_carrier EAMBIENTE e && contains (e_cmt e) TAG_EXCLUYE_SCOP) (ep_data ep))) = 0.
  Hypothesis Hcgn : t_used_src_srv_opt ep EL_COGEN ACS = 0.

  Theorem dhw_direct_electric : fraccion_renovable_acs_nrb ep = Ok (t_used_src_srv_opt ep EL_INSITU ACS / D).
  Proof.
    unfold fraccion_renovable_acs_nrb, needs_sum. rewrite Hneeds. fold D.
    destruct (qltb_spec (qabs D) f32_epsilon) as [L|L]; [contradiction|].
    cbv zeta. rewrite Hm, Haux, Hlow, !amodify_sub0.
    assert (A : aget [(ELECTRICIDAD, E)] ELECTRICIDAD = Some E) by reflexivity. rewrite A.
    destruct (qltb_spec (qabs E) (qfrac 1 100)) as [K|K]; [exfalso; revert K; qlra|].
    assert (A2 : aget [(ELECTRICIDAD, E)] EAMBIENTE = None) by reflexivity. rewrite A2.
    cbn [q_nrb_non_biomass cr_is_nearby andb bind fst snd]. rewrite A.
    assert (B1 : ahas [(ELECTRICIDAD, E)] BIOMASA = false) by reflexivity.
    assert (B2 : ahas [(ELECTRICIDAD, E)] BIOMASADENSIFICADA = false) by reflexivity. rewrite B1, B2. cbn [orb andb negb bind].
    destruct (qltb_spec f32_epsilon (qabs E)) as [P|P]; [|exfalso; revert P; unfold f32_epsilon; qlra].
    rewrite Hcgn. destruct (qltb_spec 0 0) as [Z|Z]; [exfalso; qlra|]. rewrite andb_false_r. cbn [andb bind].
    f_equal. unfold Qcdiv. ring.
  Qed.
End Electric.

(** ** any DHW supply without biomass, without auxiliaries counted for DHW, without excluded heat pumps and without
    cogenerated electricity used for DHW (direct electric, heat pumps, solar thermal, district networks, boilers, and
    their combinations): the renewable part of what the nearby carriers supply plus the on-site electricity used for DHW *)
Section NoBiomass.
  Variable ep : EP.
  Variables (v : list Qc).
  Let D := qsum v.
  Let m0 := dhw_used_by_cr ep.
  Hypothesis Hneeds : nd_ACS (ep_needs ep) = Some v.
  Hypothesis Hd : ~ qabs D < f32_epsilon.
  Hypothesis Hm : m0 <> [].
  Hypothesis Hel : match aget m0 ELECTRICIDAD with Some E => qfrac 1 100 <= E | None => True end.
  Hypothesis Hea : match aget m0 EAMBIENTE with Some A => qfrac 1 100 <= A | None => True end.
  Hypothesis Hb : aget m0 BIOMASA = None.
  Hypothesis Hbd : aget m0 BIOMASADENSIFICADA = None.
  Hypothesis Haux : qsum (map vals_sum (filter (fun e => is_aux e && has_service ACS e) (ep_data ep))) = 0.
  Hypothesis Hlow : qsum (map vals_sum (filter (fun e => is_used e && has_carrier EAMBIENTE e && contains (e_cmt e) TAG_EXCLUYE_SCOP) (ep_data ep))) = 0.
  Hypothesis Hcgn : t_used_src_srv_opt ep EL_COGEN ACS = 0.

  Theorem dhw_no_biomass :
    fraccion_renovable_acs_nrb ep
    = (do nb <- q_nrb_non_biomass (ep_factors ep) m0; Ok ((snd nb + t_used_src_srv_opt ep EL_INSITU ACS) / D)).
  Proof.
    unfold fraccion_renovable_acs_nrb, needs_sum. rewrite Hneeds. fold D.
    destruct (qltb_spec (qabs D) f32_epsilon) as [L|L]; [contradiction|].
    cbv zeta. fold m0. rewrite Haux, Hlow, !amodify_sub0.
    assert (M2 : match aget m0 ELECTRICIDAD with
                 | Some v0 => if qltb (qabs v0) (qfrac 1 100) then aremove m0 ELECTRICIDAD else m0 | None => m0 end = m0).
    { destruct (aget m0 ELECTRICIDAD) as [E|]; [|reflexivity]. destruct (qltb_spec (qabs E) (qfrac 1 100)) as [K|K]; [exfalso; revert K; qlra|reflexivity]. }
    rewrite M2.
    destruct m0 as [|p0 m'] eqn:EM; [contradiction|]. rewrite <- EM in *.
    assert (M4 : match aget m0 EAMBIENTE with
                 | Some v0 => if qltb (qabs v0) (qfrac 1 100) then aremove m0 EAMBIENTE else m0 | None => m0 end = m0).
    { destruct (aget m0 EAMBIENTE) as [A|]; [|reflexivity]. destruct (qltb_spec (qabs A) (qfrac 1 100)) as [K|K]; [exfalso; revert K; qlra|reflexivity]. }
    rewrite M4.
    destruct (q_nrb_non_biomass (ep_factors ep) m0) as [nb|k] eqn:N; cbn [bind]; [|reflexivity].
    rewrite (ahas_absent _ _ Hb), (ahas_absent _ _ Hbd). cbn [orb andb negb bind].
    rewrite Hcgn. destruct (qltb_spec 0 0) as [Z|Z]; [exfalso; qlra|]. rewrite andb_false_r. cbn [andb bind].
    f_equal. destruct (qltb f32_epsilon _); unfold Qcdiv; ring.
  Qed.
End NoBiomass.

(** a heat pump (electricity and ambient heat, in either order): ambient heat used for DHW plus on-site electricity used for DHW *)
Lemma q_nrb_heat_pump fs E A : look fs EAMBIENTE RED SUMINISTRO STEP_A = Some (mkRNC 1 0 0) ->
  q_nrb_non_biomass fs [(ELECTRICIDAD, E); (EAMBIENTE, A)] = Ok (A, A)
  /\ q_nrb_non_biomass fs [(EAMBIENTE, A); (ELECTRICIDAD, E)] = Ok (A, A).
Proof.
  intros Hf. cbn [q_nrb_non_biomass cr_is_nearby andb bind fst snd Carrier_beq negb].
  unfold ren_fraction. rewrite Hf. cbn [bind ren nren fst snd].
  assert (F : (1 : Qc) / (1 + 0) = 1) by (apply Qc_is_canon; reflexivity). rewrite F. split; f_equal; f_equal; ring.
Qed.

(** ** biomass (one kind) together with nearby carriers only: what the other nearby carriers do not supply of the
    demand is attributed to the biomass *)
Section BiomassNearby.
  Variable ep : EP.
  Variables (v : list Qc) (bio : Carrier).
  Let D := qsum v.
  Let m0 := dhw_used_by_cr ep.
  Hypothesis Hneeds : nd_ACS (ep_needs ep) = Some v.
  Hypothesis Hd : ~ qabs D < f32_epsilon.
  Hypothesis Hm : m0 <> [].
  Hypothesis Hel : aget m0 ELECTRICIDAD = None.
  Hypothesis Hea : match aget m0 EAMBIENTE with Some A => qfrac 1 100 <= A | None => True end.
  Hypothesis Hbio : bio = BIOMASA /\ ahas m0 BIOMASA = true /\ ahas m0 BIOMASADENSIFICADA = false
                    \/ bio = BIOMASADENSIFICADA /\ ahas m0 BIOMASA = false /\ ahas m0 BIOMASADENSIFICADA = true.
  Hypothesis Hnear : forallb (fun p => cr_is_nearby (fst p)) m0 = true.
  Hypothesis Hlow : qsum (map vals_sum (filter (fun e => is_used e && has_carrier EAMBIENTE e && contains (e_cmt e) TAG_EXCLUYE_SCOP) (ep_data ep))) = 0.
  Hypothesis Hpv : t_used_src_srv_opt ep EL_INSITU ACS = 0.

  Theorem dhw_biomass_nearby :
    fraccion_renovable_acs_nrb ep
    = (do nb <- q_nrb_non_biomass (ep_factors ep) m0; do fr <- ren_fraction (ep_factors ep) bio;
       Ok ((snd nb + (D - fst nb) * fr) / D)).
  Proof.
    unfold fraccion_renovable_acs_nrb, needs_sum. rewrite Hneeds. fold D.
    destruct (qltb_spec (qabs D) f32_epsilon) as [L|L]; [contradiction|].
    cbv zeta. fold m0. rewrite Hlow.
    rewrite (amodify_absent m0 ELECTRICIDAD _ Hel), Hel, amodify_sub0.
    destruct m0 as [|p0 m'] eqn:EM; [contradiction|]. rewrite <- EM in *.
    assert (M4 : match aget m0 EAMBIENTE with
                 | Some v0 => if qltb (qabs v0) (qfrac 1 100) then aremove m0 EAMBIENTE else m0 | None => m0 end = m0).
    { destruct (aget m0 EAMBIENTE) as [A|]; [|reflexivity]. destruct (qltb_spec (qabs A) (qfrac 1 100)) as [K|K]; [exfalso; revert K; qlra|reflexivity]. }
    rewrite M4, Hnear.
    destruct (q_nrb_non_biomass (ep_factors ep) m0) as [nb|k] eqn:N; cbn [bind]; [|reflexivity].
    rewrite Hpv, Hel.
    destruct Hbio as [(-> & B1 & B2)|(-> & B1 & B2)]; rewrite B1, B2; cbn [orb andb negb];
      (destruct (ren_fraction (ep_factors ep) _) as [fr|k]; cbn [bind]; [|reflexivity]);
      (destruct (qltb_spec 0 0) as [Z|Z]; [exfalso; qlra|]); cbn [andb bind]; f_equal; unfold Qcdiv; ring.
  Qed.
End BiomassNearby.

(** ** biomass (not densified) mixed with a carrier that is not nearby: the output energy declared by the biomass
    systems is what counts; without declared output energy there is no value *)
Section BiomassMixed.
  Variable ep : EP.
  Variables (v : list Qc).
  Let D := qsum v.
  Let m0 := dhw_used_by_cr ep.
  Hypothesis Hneeds : nd_ACS (ep_needs ep) = Some v.
  Hypothesis Hd : ~ qabs D < f32_epsilon.
  Hypothesis Hm : m0 <> [].
  Hypothesis Hel : aget m0 ELECTRICIDAD = None.
  Hypothesis Hea : match aget m0 EAMBIENTE with Some A => qfrac 1 100 <= A | None => True end.
  Hypothesis Hb : ahas m0 BIOMASA = true.
  Hypothesis Hbd : ahas m0 BIOMASADENSIFICADA = false.
  Hypothesis Hfar : forallb (fun p => cr_is_nearby (fst p)) m0 = false.
  Hypothesis Hlow : qsum (map vals_sum (filter (fun e => is_used e && has_carrier EAMBIENTE e && contains (e_cmt e) TAG_EXCLUYE_SCOP) (ep_data ep))) = 0.
  Hypothesis Hpv : t_used_src_srv_opt ep EL_INSITU ACS = 0.

  Theorem dhw_biomass_mixed :
    fraccion_renovable_acs_nrb ep
    = (do nb <- q_nrb_non_biomass (ep_factors ep) m0; do fr <- ren_fraction (ep_factors ep) BIOMASA;
       do o <- biomass_out (ep_data ep) BIOMASA; Ok ((snd nb + o * fr) / D)).
  Proof.
    unfold fraccion_renovable_acs_nrb, needs_sum. rewrite Hneeds. fold D.
    destruct (qltb_spec (qabs D) f32_epsilon) as [L|L]; [contradiction|].
    cbv zeta. fold m0. rewrite Hlow.
    rewrite (amodify_absent m0 ELECTRICIDAD _ Hel), Hel, amodify_sub0.
    destruct m0 as [|p0 m'] eqn:EM; [contradiction|]. rewrite <- EM in *.
    assert (M4 : match aget m0 EAMBIENTE with
                 | Some v0 => if qltb (qabs v0) (qfrac 1 100) then aremove m0 EAMBIENTE else m0 | None => m0 end = m0).
    { destruct (aget m0 EAMBIENTE) as [A|]; [|reflexivity]. destruct (qltb_spec (qabs A) (qfrac 1 100)) as [K|K]; [exfalso; revert K; qlra|reflexivity]. }
    rewrite M4, Hfar, Hb, Hbd.
    destruct (q_nrb_non_biomass (ep_factors ep) m0) as [nb|k] eqn:N; cbn [bind orb andb negb]; [|reflexivity].
    destruct (ren_fraction (ep_factors ep) BIOMASA) as [fr|k]; cbn [bind]; [|reflexivity].
    destruct (biomass_out (ep_data ep) BIOMASA) as [o|k]; cbn [bind]; [|reflexivity].
    rewrite Hpv, Hel. destruct (qltb_spec 0 0) as [Z|Z]; [exfalso; qlra|]. cbn [andb bind]. f_equal. unfold Qcdiv. ring.
  Qed.

  (** the documented non-computable case *)
  Corollary dhw_biomass_mixed_without_output nb fr :
    q_nrb_non_biomass (ep_factors ep) m0 = Ok nb -> ren_fraction (ep_factors ep) BIOMASA = Ok fr ->
    biomass_out (ep_data ep) BIOMASA = Err WrongInput -> fraccion_renovable_acs_nrb ep = Err WrongInput.
  Proof. intros N F O. rewrite dhw_biomass_mixed. fold m0. rewrite N, F, O. reflexivity. Qed.
End BiomassMixed.

(** ** both kinds of biomass: whatever the other carriers are, the output energy declared by the systems of each kind
    counts, each weighted with the renewable fraction of its own kind *)
Section BiomassBoth.
  Variable ep : EP.
  Variables (v : list Qc).
  Let D := qsum v.
  Let m0 := dhw_used_by_cr ep.
  Hypothesis Hneeds : nd_ACS (ep_needs ep) = Some v.
  Hypothesis Hd : ~ qabs D < f32_epsilon.
  Hypothesis Hm : m0 <> [].
  Hypothesis Hel : aget m0 ELECTRICIDAD = None.
  Hypothesis Hea : match aget m0 EAMBIENTE with Some A => qfrac 1 100 <= A | None => True end.
  Hypothesis Hb : ahas m0 BIOMASA = true.
  Hypothesis Hbd : ahas m0 BIOMASADENSIFICADA = true.
  Hypothesis Hlow : qsum (map vals_sum (filter (fun e => is_used e && has_carrier EAMBIENTE e && contains (e_cmt e) TAG_EXCLUYE_SCOP) (ep_data ep))) = 0.
  Hypothesis Hpv : t_used_src_srv_opt ep EL_INSITU ACS = 0.

  Theorem dhw_biomass_both :
    fraccion_renovable_acs_nrb ep
    = (do nb <- q_nrb_non_biomass (ep_factors ep) m0;
       do fb <- ren_fraction (ep_factors ep) BIOMASA; do ob <- biomass_out (ep_data ep) BIOMASA;
       do fd <- ren_fraction (ep_factors ep) BIOMASADENSIFICADA; do od <- biomass_out (ep_data ep) BIOMASADENSIFICADA;
       Ok ((snd nb + (ob * fb + od * fd)) / D)).
  Proof.
    unfold fraccion_renovable_acs_nrb, needs_sum. rewrite Hneeds. fold D.
    destruct (qltb_spec (qabs D) f32_epsilon) as [L|L]; [contradiction|].
    cbv zeta. fold m0. rewrite Hlow.
    rewrite (amodify_absent m0 ELECTRICIDAD _ Hel), Hel, amodify_sub0.
    destruct m0 as [|p0 m'] eqn:EM; [contradiction|]. rewrite <- EM in *.
    assert (M4 : match aget m0 EAMBIENTE with
                 | Some v0 => if qltb (qabs v0) (qfrac 1 100) then aremove m0 EAMBIENTE else m0 | None => m0 end = m0).
    { destruct (aget m0 EAMBIENTE) as [A|]; [|reflexivity]. destruct (qltb_spec (qabs A) (qfrac 1 100)) as [K|K]; [exfalso; revert K; qlra|reflexivity]. }
    rewrite M4, Hb, Hbd.
    destruct (q_nrb_non_biomass (ep_factors ep) m0) as [nb|k] eqn:N; cbn [bind orb andb negb]; [|reflexivity].
    destruct (ren_fraction (ep_factors ep) BIOMASA) as [fb|k]; cbn [bind]; [|reflexivity].
    destruct (biomass_out (ep_data ep) BIOMASA) as [ob|k]; cbn [bind]; [|reflexivity].
    destruct (ren_fraction (ep_factors ep) BIOMASADENSIFICADA) as [fd|k]; cbn [bind]; [|reflexivity].
    destruct (biomass_out (ep_data ep) BIOMASADENSIFICADA) as [od|k]; cbn [bind]; [|reflexivity].
    rewrite Hpv, Hel. destruct (qltb_spec 0 0) as [Z|Z]; [exfalso; qlra|]. cbn [andb bind]. f_equal. unfold Qcdiv. ring.
  Qed.

  (** without declared output energy for one of the kinds there is an error instead of a number *)
  Corollary dhw_biomass_both_without_output nb fb :
    q_nrb_non_biomass (ep_factors ep) m0 = Ok nb -> ren_fraction (ep_factors ep) BIOMASA = Ok fb ->
    biomass_out (ep_data ep) BIOMASA = Err WrongInput -> fraccion_renovable_acs_nrb ep = Err WrongInput.
  Proof. intros N F O. rewrite dhw_biomass_both. fold m0. rewrite N, F, O. reflexivity. Qed.
End BiomassBoth.
