(** * Completing twice adds nothing (C05: "normalizing an already normalized set changes nothing", completion part) *)
From Coq Require Import Permutation.
From Cteepbd Require Import Model.Components Proofs.DataEquiv Proofs.NormFacts Proofs.WfFacts.
Open Scope Qc_scope.

Lemma filter_map_all {A} (p : A -> bool) l : (forall x, In x l -> p x = true) -> filter p l = l.
Proof. induction l as [|x l IH]; intros H; [reflexivity|]. cbn [filter]. rewrite (H x) by now left. rewrite IH by (intros; apply H; now right). reflexivity. Qed.
Lemma filter_map_none {A} (p : A -> bool) l : (forall x, In x l -> p x = false) -> filter p l = [].
Proof. induction l as [|x l IH]; intros H; [reflexivity|]. cbn [filter]. rewrite (H x) by now left. apply IH. intros; apply H; now right. Qed.
Lemma flat_map_nil {A B} (f : A -> list B) l : (forall x, In x l -> f x = []) -> flat_map f l = [].
Proof. induction l as [|x l IH]; intros H; [reflexivity|]. cbn [flat_map]. rewrite (H x) by now left. apply IH. intros; apply H; now right. Qed.

Lemma source_carrier cr src : source_of_carrier cr = Some src -> ps_carrier src = cr.
Proof. destruct cr; cbn; try discriminate; intros H; injection H as <-; reflexivity. Qed.

Lemma completion_ids src env i e : In e (completion_for src env i) -> e = EProd i src (e_vals e) comment_completion.
Proof.
  unfold completion_for. destruct (unbalanced env i) as [v|]; [|contradiction]. destruct (qeqb (qsum v) 0); [contradiction|].
  intros [<-|[]]. reflexivity.
Qed.

Lemma filter_id_completions src env ids j : NoDup ids ->
  filter (has_id j) (flat_map (completion_for src env) ids) = if existsb (Z.eqb j) ids then completion_for src env j else [].
Proof.
  intros ND. induction ids as [|i ids IH]; [reflexivity|]. inversion ND as [|? ? Ni ND']; subst.
  cbn [flat_map existsb]. rewrite filter_app, (IH ND').
  assert (F : filter (has_id j) (completion_for src env i) = if Z.eqb j i then completion_for src env i else []).
  { destruct (Z.eqb_spec j i) as [->|N].
    - apply filter_map_all. intros e He. rewrite (completion_ids src env i e He). unfold has_id. cbn [e_id]. apply Z.eqb_refl.
    - apply filter_map_none. intros e He. rewrite (completion_ids src env i e He). unfold has_id. cbn [e_id]. apply Z.eqb_neq. congruence. }
  rewrite F. destruct (Z.eqb_spec j i) as [->|N]; cbn [orb].
  - assert (E : existsb (Z.eqb i) ids = false).
    { apply not_true_is_false. intro K. apply existsb_exists in K as (x & Hx & Ex). apply Z.eqb_eq in Ex. subst. contradiction. }
    rewrite E. apply app_nil_r.
  - reflexivity.
Qed.

Lemma ids_of_complete l e : In e l -> existsb (Z.eqb (e_id e)) (ids_of l) = true.
Proof.
  induction l as [|x l IH]; [contradiction|]. intros [->|H]; cbn [ids_of existsb]; [now rewrite Z.eqb_refl|].
  destruct (Z.eqb_spec (e_id e) (e_id x)) as [E|N]; [reflexivity|]. cbn [orb].
  specialize (IH H). apply existsb_exists in IH as (j & Hj & Ej). apply Z.eqb_eq in Ej. subst j.
  apply existsb_exists. exists (e_id e). split; [|apply Z.eqb_refl]. apply filter_In. split; [exact Hj|]. apply negb_true_iff, Z.eqb_neq. exact N.
Qed.

(** sums of value vectors, step by step *)
Lemma sum_at_app l1 l2 t : sum_at (l1 ++ l2) t = sum_at l1 t + sum_at l2 t.
Proof. unfold sum_at. rewrite map_app, qsum_app. reflexivity. Qed.

Lemma veclistsum_nth n l t : wf n l -> l <> [] -> (t < n)%nat -> nth t (veclistsum l) 0 = sum_at l t.
Proof.
  intros H Hne Ht. unfold veclistsum. destruct l as [|e l]; [contradiction|]. rewrite (max_len_wf n (e :: l) H Hne).
  rewrite (nth_indep _ 0 (sum_at (e :: l) 0)) by (rewrite map_length, seq_length; exact Ht).
  rewrite map_nth, seq_nth by exact Ht. reflexivity.
Qed.

Lemma all_zero_sum (v : list Qc) : (forall t, nth t v 0 = 0) -> qsum v = 0.
Proof.
  induction v as [|a v IH]; intros H; [reflexivity|]. rewrite qsum_cons. rewrite (H 0%nat : a = 0).
  rewrite IH; [ring|]. intros t. exact (H (S t)).
Qed.

Section Twice.
  Variables (n : nat) (cr : Carrier) (src : ProdSource) (data : list Energy).
  Hypothesis Hsrc : source_of_carrier cr = Some src.
  Hypothesis Hwf : wf n data.
  Let env := filter (has_carrier cr) data.
  Let ids := ids_of env.
  Let A := flat_map (completion_for src env) ids.

  Lemma A_carrier e : In e A -> has_carrier cr e = true.
  Proof.
    intros H. apply in_flat_map in H as (i & _ & He). rewrite (completion_ids src env i e He).
    unfold has_carrier. cbn [e_carrier]. rewrite (source_carrier cr src Hsrc). destruct cr; reflexivity.
  Qed.

  Lemma env2 : filter (has_carrier cr) (data ++ A) = env ++ A.
  Proof. rewrite filter_app. fold env. f_equal. apply filter_map_all. exact A_carrier. Qed.

  Lemma wf_env : wf n env.  Proof. apply wf_filter, Hwf. Qed.

  (** for every system, the second pass finds nothing left to cover *)
  Lemma second_pass_nothing j : completion_for src (env ++ A) j = [].
  Proof.
    assert (Fj : filter (has_id j) (env ++ A) = filter (has_id j) env ++ (if existsb (Z.eqb j) ids then completion_for src env j else [])).
    { rewrite filter_app. unfold A. rewrite (filter_id_completions src env ids j (ids_of_nodup env)). reflexivity. }
    destruct (used_of env j) as [|u us] eqn:U.
    - (* no use of the carrier in system j *)
      apply completion_none. unfold used_of in *. rewrite filter_id_conj, Fj, filter_app, <- filter_id_conj, U. cbn [app].
      destruct (existsb (Z.eqb j) ids); [|reflexivity]. apply filter_map_none. intros e He.
      rewrite (completion_ids src env j e He). reflexivity.
    - assert (Inj : existsb (Z.eqb j) ids = true).
      { assert (Hu : In u (used_of env j)) by (rewrite U; now left). apply filter_In in Hu as [Hu Pu].
        apply andb_true_iff in Pu as [Pj _]. unfold has_id in Pj. apply Z.eqb_eq in Pj. subst j. apply ids_of_complete, Hu. }
      rewrite Inj in Fj.
      destruct (completion_for src env j) as [|c0 cs] eqn:C.
      + (* nothing was added for j the first time: same components, same answer *)
        rewrite app_nil_r in Fj. rewrite (completion_local src (env ++ A) env j Fj). exact C.
      + (* one completion component was added: with it the uncovered use is zero at every step *)
        unfold completion_for in C. destruct (unbalanced env j) as [v|] eqn:UB; [|discriminate].
        destruct (qeqb (qsum v) 0) eqn:Z; [discriminate|]. injection C as <- <-.
        unfold completion_for.
        assert (Used2 : used_of (env ++ A) j = u :: us).
        { unfold used_of. rewrite filter_id_conj, Fj, filter_app, <- filter_id_conj. fold (used_of env j). rewrite U. cbn. now rewrite app_nil_r. }
        assert (Prod2 : prod_of (env ++ A) j = prod_of env j ++ [EProd j src v comment_completion]).
        { unfold prod_of. rewrite filter_id_conj, Fj, filter_app, <- filter_id_conj. reflexivity. }
        destruct (unbalanced (env ++ A) j) as [v2|] eqn:UB2; [|reflexivity].
        destruct (unbalanced_spec _ _ _ UB2) as (_ & _ & Hv2). rewrite Prod2, Used2 in Hv2.
        specialize (Hv2 ltac:((intro K; apply app_eq_nil in K as [_ K]; discriminate K))).
        assert (Zero : qsum v2 = 0).
        { apply all_zero_sum. intros t. rewrite Hv2.
          assert (Wu : wf n (u :: us)) by (rewrite <- U; apply wf_filter, wf_env).
          assert (Lv : length v = n) by (eapply unbalanced_len; [apply wf_env|exact UB]).
          assert (Wp : wf n (prod_of env j ++ [EProd j src v comment_completion])).
          { apply Forall_app. split; [apply wf_filter, wf_env|]. constructor; [exact Lv|constructor]. }
          assert (LU : length (veclistsum (u :: us)) = n) by (apply veclistsum_len; [exact Wu|discriminate]).
          assert (NEp : prod_of env j ++ [EProd j src v comment_completion] <> []) by (intro K; apply app_eq_nil in K as [_ K]; discriminate K).
          assert (LP : length (veclistsum (prod_of env j ++ [EProd j src v comment_completion])) = n) by (apply veclistsum_len; [exact Wp|exact NEp]).
          assert (LC : length (map (fun p => qmax 0 (fst p - snd p))
                                 (combine (veclistsum (u :: us)) (veclistsum (prod_of env j ++ [EProd j src v comment_completion])))) = n)
            by (rewrite map_length, combine_length, LU, LP; apply Nat.min_id).
          destruct (Nat.lt_ge_cases t n) as [Ht|Ht]; [|apply nth_overflow; rewrite LC; exact Ht].
          rewrite (nth_indep _ 0 (qmax 0 (0 - 0))) by (rewrite LC; exact Ht).
          rewrite (map_nth (fun p => qmax 0 (fst p - snd p)) _ (0, 0)), combine_nth by (rewrite LU, LP; reflexivity).
          assert (NEu : u :: us <> []) by discriminate.
          cbn [fst snd]. pose proof (veclistsum_nth n (u :: us) t Wu NEu Ht) as E1.
          pose proof (veclistsum_nth n (prod_of env j ++ [EProd j src v comment_completion]) t Wp NEp Ht) as E2. rewrite E1, E2. clear E2.
          rewrite sum_at_app. unfold sum_at at 3. cbn [map]. rewrite qsum_cons. cbn [qsum fold_right val_at e_vals].
          destruct (unbalanced_spec _ _ _ UB) as (_ & Hv0 & Hv1). rewrite U in Hv0, Hv1.
          unfold val_at. cbn [e_vals].
          destruct (prod_of env j) as [|p0 ps] eqn:P.
          + rewrite (Hv0 eq_refl). rewrite E1. unfold sum_at at 2. cbn [map qsum fold_right].
            generalize (sum_at (u :: us) t). intros a. qlra.
          + specialize (Hv1 ltac:(discriminate)). rewrite Hv1.
            assert (Wp0 : wf n (p0 :: ps)) by (rewrite <- P; apply wf_filter, wf_env).
            assert (LP0 : length (veclistsum (p0 :: ps)) = n) by (apply veclistsum_len; [exact Wp0|discriminate]).
            assert (LC0 : length (map (fun p => qmax 0 (fst p - snd p)) (combine (veclistsum (u :: us)) (veclistsum (p0 :: ps)))) = n)
              by (rewrite map_length, combine_length, LU, LP0; apply Nat.min_id).
            rewrite (nth_indep _ 0 (qmax 0 (0 - 0))) by (rewrite LC0; exact Ht).
            rewrite (map_nth (fun p => qmax 0 (fst p - snd p)) _ (0, 0)), combine_nth by (rewrite LU, LP0; reflexivity).
            assert (NEp0 : p0 :: ps <> []) by discriminate.
            cbn [fst snd]. pose proof (veclistsum_nth n (p0 :: ps) t Wp0 NEp0 Ht) as E3. rewrite E1, E3.
            generalize (sum_at (u :: us) t) (sum_at (p0 :: ps) t). intros a b. qlra. }
        rewrite Zero. destruct (qeqb_spec 0 0); [reflexivity|congruence].
  Qed.

  Theorem complete_twice : complete cr (complete cr data) = complete cr data.
  Proof.
    unfold complete at 1. unfold complete_with. rewrite Hsrc.
    assert (E : complete cr data = data ++ A) by (unfold complete, complete_with; rewrite Hsrc; reflexivity).
    rewrite E, env2. rewrite <- (app_nil_r (data ++ A)) at 2. f_equal.
    apply flat_map_nil. intros j _. apply second_pass_nothing.
  Qed.
End Twice.
