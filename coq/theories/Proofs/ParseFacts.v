(** * Facts about the text-format model: no input reaches a panic *)
From Coq Require Import String List NArith ZArith QArith Qcanon Bool Lia.
From Cteepbd Require Import Base.Num Model.Types Model.Components Model.Dump Model.Text Model.Parse.
Import ListNotations.
Open Scope list_scope.

Lemma pbind_np {A B} (r : pres A) (f : A -> pres B) :
  r <> PPanic -> (forall x, f x <> PPanic) -> pbind r f <> PPanic.
Proof. intros Hr Hf. destruct r; cbn; try discriminate; [apply Hf|contradiction]. Qed.

Lemma need_np {T} (o : option T) : need o <> PPanic.
Proof. destruct o; discriminate. Qed.

Lemma of_res_np {T} (r : res T) : of_res r <> PPanic.
Proof. destruct r; discriminate. Qed.

Lemma parse_values_np items : parse_values items <> PPanic.
Proof.
  induction items as [|t r IH]; cbn [parse_values]; [discriminate|].
  destruct (parse_f32 t) as [v|]; [|discriminate]. apply pbind_np; [exact IH|]. intros vs. destruct v; discriminate.
Qed.

Lemma parse_values'_np items : parse_values' items <> PPanic.
Proof. unfold parse_values'. destruct (forallb _ _); [apply parse_values_np|discriminate]. Qed.

Ltac np :=
  repeat first
    [ discriminate
    | apply need_np
    | apply parse_values'_np
    | apply of_res_np
    | apply pbind_np; [|intros ?]
    | match goal with
      | |- (if ?c then _ else _) <> PPanic => destruct c
      | |- (let (_, _) := ?p in _) <> PPanic => destruct p
      | |- match ?v with Fin _ => _ | _ => _ end <> PPanic => destruct v
      end ].

(** the first field may or may not be a system id: either way the following indices stay inside the line *)
Lemma parse_used_np s : parse_used s <> PPanic.
Proof.
  unfold parse_used. destruct (fields s) as [items comment].
  destruct items as [|i0 [|i1 [|i2 [|i3 rest]]]]; try discriminate.
  cbn [length Nat.ltb Nat.leb]. unfold id_and_base. cbn [idx nth_error pbind].
  destruct (parse_i32 i0); cbn [pbind idx nth_error Nat.add slice_from length Nat.leb skipn]; np.
Qed.

Lemma parse_prod_np s : parse_prod s <> PPanic.
Proof.
  unfold parse_prod. destruct (fields s) as [items comment].
  destruct items as [|i0 [|i1 [|i2 rest]]]; try discriminate.
  cbn [length Nat.ltb Nat.leb]. unfold id_and_base. cbn [idx nth_error pbind].
  destruct (parse_i32 i0); cbn [pbind idx nth_error Nat.add slice_from length Nat.leb skipn]; np.
Qed.

Lemma parse_aux_np s : parse_aux s <> PPanic.
Proof.
  unfold parse_aux. destruct (fields s) as [items comment].
  destruct items as [|i0 [|i1 rest]]; try discriminate.
  cbn [length Nat.ltb Nat.leb]. unfold id_and_base. cbn [idx nth_error pbind].
  destruct (parse_i32 i0); cbn [pbind idx nth_error Nat.add slice_from length Nat.leb skipn]; np.
Qed.

Lemma parse_out_np s : parse_out s <> PPanic.
Proof.
  unfold parse_out. destruct (fields s) as [items comment].
  destruct items as [|i0 [|i1 [|i2 [|i3 rest]]]]; try discriminate.
  cbn [length Nat.ltb Nat.leb idx nth_error pbind slice_from skipn]. np.
Qed.

Lemma parse_need_np s : parse_need s <> PPanic.
Proof.
  unfold parse_need. destruct (fields s) as [items comment].
  destruct items as [|i0 [|i1 [|i2 rest]]]; try discriminate.
  cbn [length Nat.ltb Nat.leb idx nth_error pbind slice_from skipn]. np.
Qed.

Lemma parse_factor_np s : parse_factor s <> PPanic.
Proof.
  unfold parse_factor. destruct (fields s) as [items comment].
  destruct items as [|i0 [|i1 [|i2 [|i3 [|i4 [|i5 [|i6 rest]]]]]]]; try discriminate.
  cbn [length Nat.ltb Nat.leb idx nth_error pbind]. np.
Qed.

(** ** trimming *)
Lemma trim_start_nonws a l : is_ws a = false -> trim_start (a :: l) = a :: l.
Proof. intros H. cbn. rewrite H. reflexivity. Qed.

Lemma trim_start_snoc x a : is_ws a = false -> trim_start (x ++ [a]) = trim_start x ++ [a].
Proof.
  intros H. induction x as [|c x IH]; cbn [app trim_start]; [now rewrite H|].
  destruct (is_ws c); [exact IH|reflexivity].
Qed.

Lemma trim_end_cons_nonws a l : is_ws a = false -> trim_end (a :: l) = a :: trim_end l.
Proof. intros H. unfold trim_end. cbn [rev]. rewrite trim_start_snoc by exact H. rewrite rev_app_distr. reflexivity. Qed.

Lemma trim_end_cons_keep a l : trim_end l <> [] -> trim_end (a :: l) = a :: trim_end l.
Proof.
  unfold trim_end. cbn [rev]. intros H.
  assert (E : forall x, trim_start x <> [] -> trim_start (x ++ [a]) = trim_start x ++ [a]).
  { induction x as [|c x IH]; cbn [app trim_start]; [congruence|]. destruct (is_ws c); [exact IH|reflexivity]. }
  rewrite E. - rewrite rev_app_distr. reflexivity. - intros K. apply H. rewrite K. reflexivity.
Qed.

Lemma starts_with_app p : forall l, starts_with p l = true -> exists r, l = p ++ r.
Proof.
  induction p as [|x p IH]; intros l H; [exists l; reflexivity|].
  destruct l as [|y l]; [discriminate|]. cbn in H. apply andb_true_iff in H as [E H]. apply N.eqb_eq in E. subst y.
  destruct (IH l H) as (r & ->). exists r. reflexivity.
Qed.

(** a trimmed line that starts with "#META" or "#CTE_" is long enough, and stays so when trimmed again *)
Lemma meta_guard l : is_meta_line l = true -> (5 <=? length (trim l))%nat && forallb is_ascii (firstn 5 (trim l)) = true.
Proof.
  unfold is_meta_line. intros H. apply orb_true_iff in H as [H|H]; apply starts_with_app in H as (r & ->);
    unfold trim; cbn [cs bs map list_ascii_of_string app];
    (rewrite trim_start_nonws by reflexivity); repeat (rewrite trim_end_cons_nonws by reflexivity); reflexivity.
Qed.

Lemma parse_meta_np l : is_meta_line l = true -> parse_meta l <> PPanic.
Proof.
  intros H. unfold parse_meta. rewrite (meta_guard l H). cbn [negb].
  destruct (break_at 58 (skipn 5 (trim l))) as [a [b|]]; discriminate.
Qed.

Lemma pmap_np {A B} (f : A -> pres B) l : (forall x, In x l -> f x <> PPanic) -> pmap f l <> PPanic.
Proof.
  induction l as [|x l IH]; intros H; cbn [pmap]; [discriminate|].
  apply pbind_np; [apply H; now left|]. intros y. apply pbind_np; [apply IH; intros z Hz; apply H; now right|]. discriminate.
Qed.

Lemma needs_add_np nd s v : needs_add nd s v <> PPanic.
Proof. unfold needs_add. destruct s; cbn; repeat match goal with |- context [match ?x with _ => _ end] => destruct x end; discriminate. Qed.

Lemma parse_data_lines_np ls : forall data nd, parse_data_lines ls data nd <> PPanic.
Proof.
  induction ls as [|l rest IH]; intros data nd; cbn [parse_data_lines]; [discriminate|].
  destruct (two_tags l) as [t1 t2].
  destruct (match parse_ctype t1 with Some c => Some c | None => parse_ctype t2 end) as [[| | | |]|]; try discriminate.
  - apply pbind_np; [apply parse_used_np|intros; apply IH].
  - apply pbind_np; [apply parse_prod_np|intros; apply IH].
  - apply pbind_np; [apply parse_aux_np|intros; apply IH].
  - apply pbind_np; [apply parse_out_np|intros; apply IH].
  - apply pbind_np; [apply parse_need_np|intros sv]. apply pbind_np; [apply needs_add_np|intros; apply IH].
Qed.

Theorem parse_components_no_panic s : parse_components s <> PPanic.
Proof.
  unfold parse_components. apply pbind_np.
  - apply pmap_np. intros l Hl. apply filter_In in Hl as [_ Hm]. apply parse_meta_np, Hm.
  - intros metas. apply pbind_np; [apply parse_data_lines_np|]. intros [data nd].
    destruct (negb _); [discriminate|apply of_res_np].
Qed.

Theorem parse_factors_no_panic s : parse_factors s <> PPanic.
Proof.
  unfold parse_factors. apply pbind_np.
  - apply pmap_np. intros l Hl. apply filter_In in Hl as [_ Hm]. apply parse_meta_np, Hm.
  - intros metas. apply pbind_np; [|discriminate]. apply pmap_np. intros l _. apply parse_factor_np.
Qed.

(** ** what the components reader does not look at (C10, text level) *)
(** the reader, after the text has been cut into trimmed lines *)
Definition parse_trimmed (ls : list str) : pres Components :=
  dop metas <- pmap parse_meta (filter is_meta_line ls);
  dop dn <- parse_data_lines (filter is_data_line ls) [] (mkNeeds None None None);
  let (data, nd) := dn in
  let n0 := match data with e :: _ => length (e_vals e) | [] => 12%nat end in
  if negb (forallb (fun e => (length (e_vals e) =? n0)%nat) data) then PErr ParseError else
  of_res (normalize (mkComponents metas data nd)).

Lemma parse_components_lines s : parse_components s = parse_trimmed (map trim (lines (strip_bom s))).
Proof. reflexivity. Qed.

Lemma trim_start_pad w x : forallb is_ws w = true -> trim_start (w ++ x) = trim_start x.
Proof.
  induction w as [|c w IH]; intros H; [reflexivity|]. cbn [forallb] in H. apply andb_true_iff in H as [Hc Hw].
  cbn [app trim_start]. rewrite Hc. apply IH, Hw.
Qed.

Lemma forallb_rev {A} (p : A -> bool) l : forallb p (rev l) = forallb p l.
Proof. induction l as [|a l IH]; [reflexivity|]. cbn [rev forallb]. rewrite forallb_app, IH. cbn [forallb]. rewrite andb_true_r. apply andb_comm. Qed.

Lemma trim_end_pad w x : forallb is_ws w = true -> trim_end (x ++ w) = trim_end x.
Proof. intros H. unfold trim_end. rewrite rev_app_distr, trim_start_pad by (rewrite forallb_rev; exact H). reflexivity. Qed.

(** white space around a line is not seen *)
Lemma trim_pad w1 w2 x : forallb is_ws w1 = true -> forallb is_ws w2 = true -> trim (w1 ++ x ++ w2) = trim x.
Proof.
  intros H1 H2. unfold trim. rewrite trim_start_pad by exact H1.
  (* trim_start (x ++ w2): either x is all white (then everything goes) or its first non-white character stays first *)
  assert (G : forall x, trim_end (trim_start (x ++ w2)) = trim_end (trim_start x)).
  { induction x0 as [|c x0 IH].
    - cbn [app trim_start]. rewrite <- (app_nil_r w2) at 1. rewrite trim_start_pad by exact H2. reflexivity.
    - cbn [app trim_start]. destruct (is_ws c); [exact IH|]. change (c :: x0 ++ w2) with ((c :: x0) ++ w2). apply trim_end_pad, H2. }
  apply G.
Qed.

Theorem padded_lines_same ls (w1 w2 : str -> str) :
  (forall l, forallb is_ws (w1 l) = true /\ forallb is_ws (w2 l) = true) ->
  map trim (map (fun l => w1 l ++ l ++ w2 l) ls) = map trim ls.
Proof. intros H. rewrite map_map. apply map_ext. intros l. destruct (H l). apply trim_pad; assumption. Qed.

(** a line that is neither a metadata line nor a data line — blank, a comment, a header starting with "vector," — is not seen *)
Theorem ignored_line_same a l b :
  is_meta_line l = false -> is_data_line l = false -> parse_trimmed (a ++ l :: b) = parse_trimmed (a ++ b).
Proof. intros Hm Hd. unfold parse_trimmed. rewrite !filter_app. cbn [filter]. rewrite Hm, Hd. reflexivity. Qed.

(** a byte order mark in front of the text is not seen *)
Theorem bom_same s : match s with c :: _ => c <> 65279%N | [] => True end -> parse_components (65279%N :: s) = parse_components s.
Proof.
  intros H. unfold parse_components. cbn [strip_bom]. rewrite N.eqb_refl.
  destruct s as [|c r]; [reflexivity|]. cbn [strip_bom]. destruct (N.eqb_spec c 65279); [contradiction|reflexivity].
Qed.

(** a CR before the LF that ends a line is not seen *)
Lemma strip_cr_crlf l : strip_cr (l ++ [13%N]) = l.
Proof. unfold strip_cr. rewrite rev_app_distr. cbn [rev app]. rewrite N.eqb_refl. apply rev_involutive. Qed.
