(** * From hypotheses on the component list to facts about every step record *)
From Cteepbd Require Import Model.Balance Proofs.StepFacts.
Open Scope Qc_scope.

(** inputs are non-negative; output-energy (SALIDA) lines may be negative: they belong to no carrier *)
Definition nonneg_data (data : list Energy) : Prop :=
  Forall (fun e => is_out e = false -> Forall (fun v => 0 <= v) (e_vals e)) data.

(** values are zero or positive (before fix c3bd83b the step functions compared a production with 1e-3 kWh and the domain
    was "zero or at least 0.01 kWh"; nothing of the kind is needed any more: [dom_of_nonneg]) *)
Definition zg (v : Qc) : Prop := v = 0 \/ 0 < v.
Definition dom_data (data : list Energy) : Prop :=
  Forall (fun e => is_out e = false -> Forall zg (e_vals e)) data.

(** boolean versions, for concrete examples *)
Definition nonneg_datab (data : list Energy) : bool :=
  forallb (fun e => is_out e || forallb (fun v => qleb 0 v) (e_vals e)) data.
Definition dom_datab (data : list Energy) : bool :=
  forallb (fun e => is_out e || forallb (fun v => qeqb v 0 || qltb 0 v) (e_vals e)) data.

Lemma nonneg_datab_ok data : nonneg_datab data = true -> nonneg_data data.
Proof.
  unfold nonneg_datab, nonneg_data. rewrite forallb_forall, Forall_forall. intros H e He Ho.
  specialize (H e He). rewrite Ho in H. cbn in H. rewrite forallb_forall in H. apply Forall_forall.
  intros v Hv. specialize (H v Hv). now destruct (qleb_spec 0 v).
Qed.

Lemma dom_datab_ok data : dom_datab data = true -> dom_data data.
Proof.
  unfold dom_datab, dom_data. rewrite forallb_forall, Forall_forall. intros H e He Ho.
  specialize (H e He). rewrite Ho in H. cbn in H. rewrite forallb_forall in H. apply Forall_forall.
  intros v Hv. specialize (H v Hv). unfold zg.
  destruct (qeqb_spec v 0); [now left|]. destruct (qltb_spec 0 v); [now right|discriminate].
Qed.

Lemma zg_0 : zg 0. Proof. now left. Qed.
Lemma zg_of_nonneg v : 0 <= v -> zg v.
Proof.
  intros H. unfold zg. destruct (qeqb_spec v 0) as [Z|Z]; [now left|right]. toQ. absQ. cbn in *.
  destruct (Qlt_le_dec 0 Qv) as [L|L]; [exact L|exfalso; apply Z; now apply Qle_antisym].
Qed.
(** the domain of the step functions is the non-negative inputs *)
Lemma dom_of_nonneg data : nonneg_data data -> dom_data data.
Proof.
  unfold nonneg_data, dom_data. intros H. eapply Forall_impl; [|exact H]. intros e He Ho. specialize (He Ho).
  eapply Forall_impl; [|exact He]. intros v. apply zg_of_nonneg.
Qed.
Lemma zg_all_of_nonneg dv : Forall (fun v => 0 <= v) dv -> Forall zg dv.
Proof. intros H. eapply Forall_impl; [|exact H]. intros v. apply zg_of_nonneg. Qed.
Lemma zg_add a b : zg a -> zg b -> zg (a + b).
Proof. intros [->|Ha] [->|Hb]; [left; ring|right|right|right]; qlra. Qed.
Lemma zg_nonneg a : zg a -> 0 <= a.
Proof. intros [->|H]; qlra. Qed.
Lemma zg_qsum l : Forall zg l -> zg (qsum l).
Proof. induction 1; cbn [qsum fold_right]; [apply zg_0|]. now apply zg_add. Qed.

Lemma nth_Forall {A} (P : A -> Prop) l d t : Forall P l -> P d -> P (nth t l d).
Proof.
  intros Hl Hd. destruct (Nat.lt_ge_cases t (length l)) as [H|H].
  - rewrite Forall_forall in Hl. apply Hl. now apply nth_In.
  - now rewrite nth_overflow.
Qed.

Lemma has_carrier_not_out cr e : has_carrier cr e = true -> is_out e = false.
Proof. destruct e; cbn; congruence. Qed.

Section Cols.
  Variables (cr : Carrier) (data : list Energy).
  Let l := filter (has_carrier cr) data.

  Lemma colsum_P (P : Qc -> Prop) (p : Energy -> bool) t :
    P 0 -> (forall l', Forall P l' -> P (qsum l')) ->
    Forall (fun e => is_out e = false -> Forall P (e_vals e)) data ->
    P (colsum p l t).
  Proof.
    intros P0 Psum Hd. unfold colsum. apply Psum. apply Forall_forall. intros v Hv.
    apply in_map_iff in Hv as (e & <- & He). apply filter_In in He as [He _].
    unfold l in He. apply filter_In in He as [He Hc].
    rewrite Forall_forall in Hd. unfold val_at. apply nth_Forall; [|assumption].
    apply Hd; [assumption|]. eapply has_carrier_not_out; eassumption.
  Qed.

  Lemma colsum_nonneg p t : nonneg_data data -> 0 <= colsum p l t.
  Proof. intros. apply (colsum_P (fun v => 0 <= v)); [apply Qcle_refl|apply qsum_nonneg|assumption]. Qed.

  Lemma colsum_zg p t : dom_data data -> zg (colsum p l t).
  Proof. intros. apply (colsum_P zg); [apply zg_0|apply zg_qsum|assumption]. Qed.

  Lemma col_at_ok t : nonneg_data data -> col_ok (col_at l t).
  Proof. intros H. constructor; cbn; now apply colsum_nonneg. Qed.

  Lemma col_at_dom t : dom_data data -> col_dom (col_at l t).
  Proof.
    intros H. unfold col_dom, c_p. cbn.
    assert (Z : zg (colsum (is_prod_src EL_INSITU) l t + colsum (is_prod_src EL_COGEN) l t
                    + colsum (is_prod_src PS_TERMOSOLAR) l t + colsum (is_prod_src PS_EAMBIENTE) l t))
      by (repeat apply zg_add; now apply colsum_zg).
    destruct Z as [Z|Z]; [now left|right]. revert Z. generalize (colsum (is_prod_src EL_INSITU) l t + colsum (is_prod_src EL_COGEN) l t
                    + colsum (is_prod_src PS_TERMOSOLAR) l t + colsum (is_prod_src PS_EAMBIENTE) l t).
    intros q Hq. qlra.
  Qed.

  (** every step record of the carrier context is [step_out] of a column of the carrier's list *)
  Lemma steps_inv lm s : In s (cx_steps (mk_ctx cr lm data)) ->
    exists t, s = (col_at l t, step_out (cx_prio (mk_ctx cr lm data)) lm (col_at l t)).
  Proof.
    unfold mk_ctx, steps_of. cbn [cx_steps cx_prio]. intros H. apply in_map_iff in H as (t & <- & _).
    exists t. reflexivity.
  Qed.
End Cols.

(** annual sums *)
Lemma ann_add x f g : ann x (fun s => f s + g s) = ann x f + ann x g.
Proof. unfold ann, vec. apply qsum_map_add. Qed.
Lemma ann_ext x f g : (forall s, In s (cx_steps x) -> f s = g s) -> ann x f = ann x g.
Proof. unfold ann, vec. apply qsum_map_ext. Qed.
Lemma ann_nonneg x f : (forall s, In s (cx_steps x) -> 0 <= f s) -> 0 <= ann x f.
Proof. unfold ann, vec. apply qsum_map_nonneg. Qed.
Lemma ann_le x f g : (forall s, In s (cx_steps x) -> f s <= g s) -> ann x f <= ann x g.
Proof. unfold ann, vec. apply qsum_map_le. Qed.
