(** * Annual results do not depend on how time is laid out (C09) *)
From Cteepbd Require Import Model.Balance Proofs.StepFacts Proofs.ColFacts Proofs.EpFacts Proofs.Refine Proofs.DataEquiv
  Proofs.Homog Proofs.Transform.
Open Scope Qc_scope.

(** weighted parts depend on the context only through the carrier, the declared sources and annual values *)
Lemma f_exp_mean_ann fs x x' ea dest step js :
  cx_cr x = cx_cr x' -> (forall j, a_exp_src x j = a_exp_src x' j) ->
  f_exp_mean fs x ea dest step js = f_exp_mean fs x' ea dest step js.
Proof.
  intros Hc Hs. induction js as [|j js IH]; cbn [f_exp_mean]; [reflexivity|]. now rewrite Hc, IH, Hs.
Qed.

Lemma weighted_parts_ann fs x x' :
  cx_cr x = cx_cr x' -> cx_srcs x = cx_srcs x' ->
  a_del_grid x = a_del_grid x' -> a_cgnus x = a_cgnus x' -> a_del_onst x = a_del_onst x' ->
  a_exp_ne x = a_exp_ne x' -> a_exp_grid x = a_exp_grid x' -> (forall j, a_exp_src x j = a_exp_src x' j) ->
  weighted_parts fs x = weighted_parts fs x'.
Proof.
  intros Hc Hs H1 H2 H3 H4 H5 H6. unfold weighted_parts, srcs_present. cbv zeta.
  rewrite Hc, Hs, H1, H2, H3, H4, H5. rewrite !(f_exp_mean_ann fs x x') by assumption. reflexivity.
Qed.

(** ** Reordering the time steps *)
Definition vperm (sigma : list nat) (v : list Qc) : list Qc := map (fun i => nth i v 0) sigma.
Definition perm_data (sigma : list nat) := map_vals (vperm sigma).

Lemma nth_vperm sigma v t : (t < length sigma)%nat -> nth t (vperm sigma v) 0 = nth (nth t sigma 0%nat) v 0.
Proof.
  intros H. unfold vperm. rewrite (nth_indep _ 0 ((fun i => nth i v 0) 0%nat)) by (now rewrite map_length).
  now rewrite (map_nth (fun i => nth i v 0)).
Qed.

Lemma map_nth_seq {A} (l : list A) d : map (fun t => nth t l d) (seq 0 (length l)) = l.
Proof.
  induction l as [|a l IH]; [reflexivity|]. cbn [length seq map nth]. f_equal. rewrite <- seq_shift, map_map. exact IH.
Qed.

Section Perm.
  Variables (sigma : list nat) (n : nat) (cr : Carrier) (lm : bool) (data : list Energy).
  Hypothesis Hs : Permutation sigma (seq 0 n).
  Hypothesis Hwf : wf n data.
  Let l := filter (has_carrier cr) data.
  Let x := mk_ctx cr lm data.
  Let x' := mk_ctx cr lm (perm_data sigma data).

  Lemma sigma_len : length sigma = n.
  Proof. rewrite (Permutation_length Hs). apply seq_length. Qed.

  Lemma colsum_perm p t : tagpred p -> (t < n)%nat ->
    colsum p (perm_data sigma data) t = colsum p data (nth t sigma 0%nat).
  Proof.
    intros Hp Ht. unfold perm_data. rewrite colsum_map_vals by assumption. unfold colsum. apply qsum_map_ext.
    intros e _. unfold val_at. apply nth_vperm. now rewrite sigma_len.
  Qed.

  Lemma col_at_perm t : (t < n)%nat ->
    col_at (filter (has_carrier cr) (perm_data sigma data)) t = col_at l (nth t sigma 0%nat).
  Proof.
    intros Ht. unfold perm_data. rewrite map_vals_filter_carrier. fold (perm_data sigma (filter (has_carrier cr) data)).
    assert (Hwf' : wf n (filter (has_carrier cr) data)).
    { unfold wf in *. rewrite Forall_forall in *. intros e He. apply Hwf. apply filter_In in He. tauto. }
    unfold col_at. f_equal; unfold perm_data; rewrite colsum_map_vals;
      try first [apply tp_is_epb_use_srv | apply tp_is_epb_use | apply tp_is_ne_use | apply tp_is_cogen_use | apply tp_is_prod_src];
      unfold colsum; apply qsum_map_ext; intros e _; unfold val_at; apply nth_vperm; now rewrite sigma_len.
  Qed.

  Lemma num_steps_perm : num_steps_of (filter (has_carrier cr) (perm_data sigma data)) = num_steps_of l.
  Proof.
    unfold perm_data. rewrite map_vals_filter_carrier. fold l. destruct l as [|e l0] eqn:E; [reflexivity|].
    cbn. rewrite e_vals_set. unfold vperm. rewrite map_length, sigma_len.
    assert (He : In e (filter (has_carrier cr) data)) by (fold l; rewrite E; now left).
    apply filter_In in He as [He _]. unfold wf in Hwf. rewrite Forall_forall in Hwf. symmetry. now apply Hwf.
  Qed.

  Lemma num_steps_n : l <> [] -> num_steps_of l = n.
  Proof.
    intros Hne. assert (Hwf' : forall e, In e l -> length (e_vals e) = n).
    { intros e He. unfold l in He. apply filter_In in He as [He _]. unfold wf in Hwf. rewrite Forall_forall in Hwf. now apply Hwf. }
    revert Hne Hwf'. generalize l. intros [|e l0] Hne H; [congruence|]. cbn. apply H. now left.
  Qed.

  Definition stepf (t : nat) : StepR := (col_at l t, step_out (cx_prio x) lm (col_at l t)).

  Lemma steps_orig : cx_steps x = map stepf (seq 0 (num_steps_of l)).
  Proof. reflexivity. Qed.

  Lemma steps_perm : l <> [] -> cx_steps x' = map stepf sigma.
  Proof.
    intros Hne. unfold x', mk_ctx, steps_of. cbn [cx_steps]. rewrite num_steps_perm.
    pose proof (num_steps_n Hne) as Hn.
    rewrite Hn. pose proof (prio_map_vals (vperm sigma) cr lm data) as P. unfold mk_ctx in P. cbn [cx_prio] in P.
    fold (perm_data sigma data) in P. rewrite P.
    transitivity (map stepf (map (fun t => nth t sigma 0%nat) (seq 0 n))).
    - rewrite map_map. apply map_ext_in. intros t Ht. apply in_seq in Ht. unfold stepf. rewrite col_at_perm by lia. reflexivity.
    - f_equal. rewrite <- sigma_len. apply map_nth_seq.
  Qed.

  (** same structure; the step records are the same records, reordered *)
  Lemma perm_ctx :
    cx_cr x' = cx_cr x /\ cx_srcs x' = cx_srcs x /\ cx_srvs x' = cx_srvs x /\ cx_prio x' = cx_prio x /\
    Permutation (cx_steps x') (cx_steps x).
  Proof.
    split; [reflexivity|]. split; [apply srcs_map_vals|]. split; [apply srvs_map_vals|]. split; [apply prio_map_vals|].
    assert (C : l = [] \/ l <> []) by (destruct l; [left|right]; congruence).
    destruct C as [E|E].
    - unfold x', x, mk_ctx, perm_data. cbn [cx_steps]. rewrite map_vals_filter_carrier. fold l. rewrite E. cbn. apply Permutation_refl.
    - rewrite (steps_perm E), steps_orig, (num_steps_n E). now apply Permutation_map.
  Qed.

  Lemma ann_perm g : ann x' g = ann x g.
  Proof. unfold ann, vec. apply qsum_perm. apply Permutation_map. apply perm_ctx. Qed.

  Lemma weighted_perm fs : weighted_parts fs x' = weighted_parts fs x.
  Proof.
    destruct perm_ctx as (A & B & _). apply weighted_parts_ann; try assumption; try (intros; apply ann_perm); apply ann_perm.
  Qed.
End Perm.

(** ** Generic lifting: a transformation of the data that preserves, carrier by carrier, the weighted
    parts, and preserves the available carriers and the cogeneration factors, preserves the result up
    to a relation [R] between the carrier contexts *)
Definition bal_rel (R : CrCtx -> CrCtx -> Prop) (b b' : BalCr) : Prop :=
  R (bc_ctx b) (bc_ctx b') /\ bc_parts b = bc_parts b' /\ bc_k b = bc_k b'.

Definition ep_rel (R : CrCtx -> CrCtx -> Prop) (r r' : res EP) : Prop :=
  match r, r' with
  | Ok e, Ok e' => Forall2 (bal_rel R) (ep_bal e) (ep_bal e') /\ ep_factors e = ep_factors e' /\ ep_k e = ep_k e' /\ ep_area e = ep_area e'
  | Err a, Err b => a = b
  | _, _ => False
  end.

Lemma balances_rel (R : CrCtx -> CrCtx -> Prop) fs k lm data data' crs :
  (forall cr, R (mk_ctx cr lm data) (mk_ctx cr lm data')) ->
  (forall cr, weighted_parts fs (mk_ctx cr lm data) = weighted_parts fs (mk_ctx cr lm data')) ->
  match balances fs k lm data crs, balances fs k lm data' crs with
  | Ok bs, Ok bs' => Forall2 (bal_rel R) bs bs'
  | Err a, Err b => a = b
  | _, _ => False end.
Proof.
  intros HR HW. induction crs as [|cr crs IH]; cbn [balances]; [constructor|].
  unfold balance_for_carrier. rewrite <- (HW cr). destruct (weighted_parts fs (mk_ctx cr lm data)) as [p|]; cbn [bind]; [|reflexivity].
  destruct (balances fs k lm data crs) as [bs|], (balances fs k lm data' crs) as [bs'|]; cbn [bind]; try contradiction; try assumption.
  constructor; [|exact IH]. repeat split. apply HR.
Qed.

Lemma ep_rel_lift (R : CrCtx -> CrCtx -> Prop) meta nd fs k area lm data data' :
  avail_carriers data' = avail_carriers data ->
  add_cgn_factors fs data' = add_cgn_factors fs data ->
  (forall cr, R (mk_ctx cr lm data) (mk_ctx cr lm data')) ->
  (forall fs1 cr, weighted_parts fs1 (mk_ctx cr lm data) = weighted_parts fs1 (mk_ctx cr lm data')) ->
  ep_rel R (energy_performance (mkComponents meta data nd) fs k area lm) (energy_performance (mkComponents meta data' nd) fs k area lm).
Proof.
  intros HA HC HR HW. unfold energy_performance. cbn [c_data c_needs]. destruct (qltb area (qfrac 1 1000)); [reflexivity|].
  rewrite HC, HA. destruct (add_cgn_factors fs data) as [fs1|]; cbn [bind]; [|reflexivity].
  pose proof (balances_rel R fs1 k lm data data' (avail_carriers data) HR (HW fs1)) as B.
  destruct (balances fs1 k lm data (avail_carriers data)) as [bs|], (balances fs1 k lm data' (avail_carriers data)) as [bs'|];
    cbn [bind ep_rel]; try contradiction; try assumption.
  repeat split. exact B.
Qed.

(** ** Permutation of the time steps: the whole evaluation *)
Definition perm_rel (x x' : CrCtx) : Prop :=
  cx_cr x' = cx_cr x /\ cx_srcs x' = cx_srcs x /\ cx_srvs x' = cx_srvs x /\ cx_prio x' = cx_prio x /\
  Permutation (cx_steps x') (cx_steps x).

Lemma cgn_perm fs sigma n data : Permutation sigma (seq 0 n) -> wf n data ->
  add_cgn_factors fs (perm_data sigma data) = add_cgn_factors fs data.
Proof.
  intros Hs Hwf. unfold add_cgn_factors, compute_cgn_exp_fP_A.
  assert (L : length sigma = n) by (rewrite (Permutation_length Hs); apply seq_length).
  assert (N : cgn_num_steps (perm_data sigma data) = cgn_num_steps data).
  { unfold cgn_num_steps, perm_data. rewrite (filter_map_vals _ _ _ tp_is_cogen_pr).
    destruct (filter is_cogen_pr data) as [|e l] eqn:E; [reflexivity|]. cbn. rewrite e_vals_set. unfold vperm. rewrite map_length, L.
    assert (He : In e (filter is_cogen_pr data)) by (rewrite E; now left). apply filter_In in He as [He _].
    unfold wf in Hwf. rewrite Forall_forall in Hwf. symmetry. now apply Hwf. }
  assert (C : cgn_fuel_carriers (perm_data sigma data) = cgn_fuel_carriers data).
  { unfold cgn_fuel_carriers. apply filter_ext'. intros cr. apply existsb_map_vals. apply tp_and; [apply tp_is_cogen_use|apply tp_has_carrier]. }
  rewrite N, C. destruct (cgn_num_steps data) as [|m] eqn:M; [reflexivity|].
  assert (Nn : S m = n).
  { unfold cgn_num_steps in M. destruct (filter is_cogen_pr data) as [|e l] eqn:E; [discriminate|]. cbn in M. rewrite <- M.
    assert (He : In e (filter is_cogen_pr data)) by (rewrite E; now left). apply filter_In in He as [He _].
    unfold wf in Hwf. rewrite Forall_forall in Hwf. now apply Hwf. }
  assert (Sum : forall p, tagpred p -> qsum (map (colsum p (perm_data sigma data)) (seq 0 n)) = qsum (map (colsum p data) (seq 0 n))).
  { intros p Hp. transitivity (qsum (map (colsum p data) sigma)).
    - rewrite <- (map_nth_seq sigma 0%nat) at 2. rewrite L, map_map. apply qsum_map_ext. intros t Ht. apply in_seq in Ht.
      apply (colsum_perm sigma n data Hs); [exact Hp|lia].
    - apply qsum_perm. now apply Permutation_map. }
  assert (R : forall cr, cgn_ratio (perm_data sigma data) cr (S m) = cgn_ratio data cr (S m)).
  { intros cr. unfold cgn_ratio, cgn_el_an, cgn_fuel_an. rewrite Nn.
    rewrite (Sum is_cogen_pr tp_is_cogen_pr).
    rewrite (Sum (fun e => is_cogen_use e && has_carrier cr e) (tp_and _ _ tp_is_cogen_use (tp_has_carrier cr))). reflexivity. }
  assert (S : forall crs, cgn_sum fs (perm_data sigma data) (S m) false crs = cgn_sum fs data (S m) false crs).
  { intros crs. induction crs as [|cr crs IH]; cbn [cgn_sum andb]; [reflexivity|]. now rewrite IH, R. }
  destruct (cgn_fuel_carriers data); [reflexivity|]. now rewrite S.
Qed.

Theorem perm_invariant sigma n meta nd fs k area lm data :
  Permutation sigma (seq 0 n) -> wf n data ->
  ep_rel perm_rel (energy_performance (mkComponents meta data nd) fs k area lm)
                  (energy_performance (mkComponents meta (perm_data sigma data) nd) fs k area lm).
Proof.
  intros Hs Hwf. apply ep_rel_lift.
  - apply avail_map_vals.
  - now apply (cgn_perm fs sigma n).
  - intros cr. apply (perm_ctx sigma n cr lm data Hs Hwf).
  - intros fs1 cr. symmetry. apply (weighted_perm sigma n cr lm data Hs Hwf).
Qed.

(** ** Splitting every step into [m] equal sub-steps *)
Definition qn (m : nat) : Qc := qz (Z.of_nat m).
Definition vsub (m : nat) (v : list Qc) : list Qc := flat_map (fun x => repeat (x / qn m) m) v.
Definition sub_data (m : nat) := map_vals (vsub m).

Lemma qn_pos m : (0 < m)%nat -> 0 < qn m.
Proof. intros H. unfold qn. toQ. cbn. unfold Qlt. cbn. lia. Qed.

Lemma qn_0 : qn 0 = 0.
Proof. apply Qc_is_canon. reflexivity. Qed.
Lemma qn_S m : qn (S m) = qn m + 1.
Proof. unfold qn. rewrite Nat2Z.inj_succ. apply Qc_is_canon. rewrite this_add, !this_qz. unfold Z.succ. rewrite inject_Z_plus. cbn. ring. Qed.

Lemma zero_div q : 0 / q = 0.
Proof. unfold Qcdiv. ring. Qed.

Lemma nth_repeat_lt {A} (a d : A) m t : (t < m)%nat -> nth t (repeat a m) d = a.
Proof. revert t. induction m as [|m IH]; intros t H; [lia|]. destruct t; [reflexivity|]. cbn. apply IH. lia. Qed.

Lemma nth_vsub m v t : (0 < m)%nat -> nth t (vsub m v) 0 = nth (t / m) v 0 / qn m.
Proof.
  intros Hm. revert t. induction v as [|x v IH]; intros t.
  - cbn. destruct (t / m)%nat; destruct t; now rewrite zero_div.
  - cbn [vsub flat_map]. fold (vsub m v). destruct (Nat.lt_ge_cases t m) as [H|H].
    + rewrite app_nth1 by (now rewrite repeat_length). rewrite Nat.div_small by assumption. cbn [nth].
      now apply nth_repeat_lt.
    + rewrite app_nth2 by (now rewrite repeat_length). rewrite repeat_length, IH.
      assert (E : (t / m = S ((t - m) / m))%nat).
      { replace t with ((t - m) + 1 * m)%nat at 1 by lia. rewrite Nat.div_add by lia. lia. }
      rewrite E. reflexivity.
Qed.

Lemma length_vsub m v : length (vsub m v) = (m * length v)%nat.
Proof. induction v as [|x v IH]; [cbn; lia|]. cbn [vsub flat_map length]. fold (vsub m v). rewrite app_length, repeat_length, IH. lia. Qed.

Lemma qsum_blocks m n (h : nat -> Qc) : (0 < m)%nat ->
  qsum (map (fun t => h (t / m)%nat) (seq 0 (m * n))) = qn m * qsum (map h (seq 0 n)).
Proof.
  intros Hm. induction n as [|n IH].
  - rewrite Nat.mul_0_r. cbn. ring.
  - replace (m * S n)%nat with (m * n + m)%nat by lia. rewrite seq_app, map_app, qsum_app, IH. cbn [plus].
    rewrite seq_S, map_app, qsum_app. cbn [map plus]. rewrite qsum_cons, qsum_nil.
    assert (B : qsum (map (fun t => h (t / m)%nat) (seq (m * n) m)) = qn m * h n).
    { transitivity (qsum (map (fun _ => h n) (seq (m * n) m))).
      - apply qsum_map_ext. intros t Ht. apply in_seq in Ht. f_equal.
        symmetry. apply Nat.div_unique with (r := (t - m * n)%nat); lia.
      - clear. generalize (m * n)%nat. induction m as [|m IH]; intros s; [cbn [seq map]; rewrite qsum_nil, qn_0; ring|].
        cbn [seq map]. rewrite qsum_cons, IH, qn_S. ring. }
    rewrite B. ring.
Qed.

Section Sub.
  Variables (m n : nat) (cr : Carrier) (lm : bool) (data : list Energy).
  Hypothesis Hm : (0 < m)%nat.
  Hypothesis Hwf : wf n data.
  Hypothesis Hdom : dom_cols cr data.
  Hypothesis Hdom' : dom_cols cr (sub_data m data).
  Let l := filter (has_carrier cr) data.
  Let x := mk_ctx cr lm data.
  Let x' := mk_ctx cr lm (sub_data m data).
  Let k := 1 / qn m.

  Lemma k_pos : 0 < k.
  Proof.
    unfold k. pose proof (qn_pos m Hm) as P. revert P. generalize (qn m). intros q P. toQ. absQ. cbn in *.
    unfold Qdiv. assert (0 < / Qq)%Q by (apply Qinv_lt_0_compat; lra). lra.
  Qed.

  Lemma k_qn : qn m * k = 1.
  Proof. unfold k. field. pose proof (qn_pos m Hm) as P. intro Z. rewrite Z in P. qlra. Qed.

  Lemma colsum_sub p t : tagpred p -> colsum p (sub_data m data) t = k * colsum p data (t / m).
  Proof.
    intros Hp. unfold sub_data. rewrite colsum_map_vals by assumption. unfold colsum. rewrite <- qsum_map_scale.
    apply qsum_map_ext. intros e _. unfold val_at. rewrite nth_vsub by assumption. unfold k. field.
    pose proof (qn_pos m Hm) as P. intro Z. rewrite Z in P. qlra.
  Qed.

  Lemma col_at_sub t : col_at (filter (has_carrier cr) (sub_data m data)) t = cscale k (col_at l (t / m)).
  Proof.
    unfold sub_data. rewrite map_vals_filter_carrier. fold l.
    assert (CS : forall p, tagpred p -> colsum p (map_vals (vsub m) l) t = k * colsum p l (t / m)).
    { intros p Hp. rewrite colsum_map_vals by assumption. unfold colsum. rewrite <- qsum_map_scale.
      apply qsum_map_ext. intros e _. unfold val_at. rewrite nth_vsub by assumption. unfold k. field.
      pose proof (qn_pos m Hm) as P. intro Z. rewrite Z in P. qlra. }
    unfold col_at, cscale. cbn. f_equal; apply CS;
      first [apply tp_is_epb_use_srv | apply tp_is_epb_use | apply tp_is_ne_use | apply tp_is_cogen_use | apply tp_is_prod_src].
  Qed.

  Lemma num_steps_sub : num_steps_of (filter (has_carrier cr) (sub_data m data)) = (m * num_steps_of l)%nat.
  Proof.
    unfold sub_data. rewrite map_vals_filter_carrier. fold l. generalize l. intros [|e l0]; [cbn; lia|].
    cbn. rewrite e_vals_set. apply length_vsub.
  Qed.

  Definition stepg (t : nat) : StepR := (col_at l t, step_out (cx_prio x) lm (col_at l t)).

  Lemma steps_sub : cx_steps x' = map (fun t => sscale k (stepg (t / m))) (seq 0 (m * num_steps_of l)).
  Proof.
    unfold x', mk_ctx, steps_of. cbn [cx_steps]. rewrite num_steps_sub.
    pose proof (prio_map_vals (vsub m) cr lm data) as P. unfold mk_ctx in P. cbn [cx_prio] in P. fold (sub_data m data) in P.
    rewrite P. apply map_ext. intros t. rewrite col_at_sub. unfold stepg.
    apply step_scaled; [apply k_pos|apply Hdom|]. rewrite <- col_at_sub. apply Hdom'.
  Qed.

  (** annual values are unchanged for every quantity that is homogeneous of degree 1 *)
  Lemma ann_sub g : (forall s, g (sscale k s) = k * g s) -> ann x' g = ann x g.
  Proof.
    intros Hg. unfold ann, vec. rewrite steps_sub, map_map.
    transitivity (qsum (map (fun t => k * g (stepg (t / m))) (seq 0 (m * num_steps_of l)))).
    - apply qsum_map_ext. intros t _. apply Hg.
    - rewrite (qsum_blocks m (num_steps_of l) (fun i => k * g (stepg i)) Hm), qsum_map_scale.
      unfold x, mk_ctx, steps_of. cbn [cx_steps]. rewrite map_map. fold l. unfold stepg. fold l. 
      change (cx_prio x) with (prio_of cr l).
      generalize (qsum (map (fun t => g (col_at l t, step_out (prio_of cr l) lm (col_at l t))) (seq 0 (num_steps_of l)))). intros S.
      transitivity ((qn m * k) * S); [ring|]. rewrite k_qn. ring.
  Qed.

  Lemma weighted_sub fs : weighted_parts fs x' = weighted_parts fs x.
  Proof.
    apply weighted_parts_ann.
    - reflexivity.
    - apply srcs_map_vals.
    - apply ann_sub. intros; apply s_del_grid_scale.
    - apply ann_sub. intros; apply s_cg_scale.
    - apply ann_sub. intros; apply s_del_onst_scale.
    - apply ann_sub. intros; apply s_exp_ne_scale, k_pos.
    - apply ann_sub. intros; apply s_exp_grid_scale, k_pos.
    - intros j. apply ann_sub. intros; apply s_exp_src_scale.
  Qed.
End Sub.

Definition sub_rel (m : nat) (x x' : CrCtx) : Prop :=
  cx_cr x' = cx_cr x /\ cx_srcs x' = cx_srcs x /\ cx_srvs x' = cx_srvs x /\ cx_prio x' = cx_prio x /\
  cx_steps x' = flat_map (fun s => repeat (sscale (1 / qn m) s) m) (cx_steps x).

Lemma map_div_blocks {A} (f : nat -> A) m n : (0 < m)%nat ->
  map (fun t => f (t / m)%nat) (seq 0 (m * n)) = flat_map (fun i => repeat (f i) m) (seq 0 n).
Proof.
  intros Hm. induction n as [|n IH]; [rewrite Nat.mul_0_r; reflexivity|].
  replace (m * S n)%nat with (m * n + m)%nat by lia. rewrite seq_app, map_app, IH. cbn [plus].
  rewrite seq_S, flat_map_app. f_equal. cbn [flat_map]. rewrite app_nil_r.
  transitivity (map (fun _ => f n) (seq (m * n) m)).
  - apply map_ext_in. intros t Ht. apply in_seq in Ht. f_equal. symmetry. apply Nat.div_unique with (r := (t - m * n)%nat); lia.
  - generalize (m * n)%nat. clear. induction m as [|m IH]; intros s; [reflexivity|]. cbn [seq map repeat]. now rewrite IH.
Qed.

Lemma flat_map_map' {A B C} (f : B -> list C) (g : A -> B) l : flat_map f (map g l) = flat_map (fun a => f (g a)) l.
Proof. induction l as [|a l IH]; [reflexivity|]. cbn. now rewrite IH. Qed.

Lemma sub_ctx m n cr lm data : (0 < m)%nat -> wf n data -> dom_cols cr data -> dom_cols cr (sub_data m data) ->
  sub_rel m (mk_ctx cr lm data) (mk_ctx cr lm (sub_data m data)).
Proof.
  intros Hm Hwf D D'. split; [reflexivity|]. split; [apply srcs_map_vals|]. split; [apply srvs_map_vals|]. split; [apply prio_map_vals|].
  rewrite (steps_sub m cr lm data Hm D D').
  rewrite (map_div_blocks (fun i => sscale (1 / qn m) (stepg cr lm data i)) m _ Hm).
  unfold mk_ctx, steps_of. cbn [cx_steps]. rewrite flat_map_map'. reflexivity.
Qed.

Lemma cgn_sub fs m n data : (0 < m)%nat -> wf n data ->
  add_cgn_factors fs (sub_data m data) = add_cgn_factors fs data.
Proof.
  intros Hm Hwf. unfold add_cgn_factors, compute_cgn_exp_fP_A.
  assert (N : cgn_num_steps (sub_data m data) = (m * cgn_num_steps data)%nat).
  { unfold cgn_num_steps, sub_data. rewrite (filter_map_vals _ _ _ tp_is_cogen_pr).
    destruct (filter is_cogen_pr data) as [|e l]; [cbn; lia|]. cbn. rewrite e_vals_set. apply length_vsub. }
  assert (C : cgn_fuel_carriers (sub_data m data) = cgn_fuel_carriers data).
  { unfold cgn_fuel_carriers. apply filter_ext'. intros cr. apply existsb_map_vals. apply tp_and; [apply tp_is_cogen_use|apply tp_has_carrier]. }
  rewrite N, C. destruct (cgn_num_steps data) as [|n0] eqn:M; [rewrite Nat.mul_0_r; reflexivity|].
  destruct (m * S n0)%nat as [|mn] eqn:MN; [lia|].
  set (kk := 1 / qn m).
  assert (KQ : qn m * kk = 1) by (unfold kk; field; pose proof (qn_pos m Hm) as P; intro Z; rewrite Z in P; qlra).
  assert (Sum : forall p, tagpred p -> qsum (map (colsum p (sub_data m data)) (seq 0 (m * S n0))) = qsum (map (colsum p data) (seq 0 (S n0)))).
  { intros p Hp. transitivity (qsum (map (fun t => kk * colsum p data (t / m)) (seq 0 (m * S n0)))).
    - apply qsum_map_ext. intros t _. unfold sub_data. rewrite colsum_map_vals by assumption. unfold colsum. rewrite <- qsum_map_scale.
      apply qsum_map_ext. intros e _. unfold val_at. rewrite nth_vsub by assumption. unfold kk. field.
      pose proof (qn_pos m Hm) as P. intro Z. rewrite Z in P. qlra.
    - rewrite (qsum_blocks m (S n0) (fun i => kk * colsum p data i) Hm), qsum_map_scale.
      transitivity ((qn m * kk) * qsum (map (colsum p data) (seq 0 (S n0)))); [ring|]. rewrite KQ. ring. }
  assert (R : forall cr, cgn_ratio (sub_data m data) cr (S mn) = cgn_ratio data cr (S n0)).
  { intros cr. unfold cgn_ratio, cgn_el_an, cgn_fuel_an. rewrite <- MN.
    rewrite (Sum is_cogen_pr tp_is_cogen_pr).
    rewrite (Sum (fun e => is_cogen_use e && has_carrier cr e) (tp_and _ _ tp_is_cogen_use (tp_has_carrier cr))). reflexivity. }
  assert (S : forall crs, cgn_sum fs (sub_data m data) (S mn) false crs = cgn_sum fs data (S n0) false crs).
  { intros crs. induction crs as [|cr crs IH]; cbn [cgn_sum andb]; [reflexivity|]. now rewrite IH, R. }
  destruct (cgn_fuel_carriers data); [reflexivity|]. now rewrite S.
Qed.

Lemma nonneg_sub m data : (0 < m)%nat -> nonneg_data data -> nonneg_data (sub_data m data).
Proof.
  intros Hm. apply nonneg_map_vals. intros v Hv. pose proof (qn_pos m Hm) as Q.
  induction Hv as [|x v Hx _ IH]; [constructor|]. cbn [vsub flat_map]. fold (vsub m v). apply Forall_app. split; [|exact IH].
  apply Forall_forall. intros y Hy. apply repeat_spec in Hy. subst y. revert Q Hx. generalize (qn m). intros q Q Hx.
  toQ. absQ. cbn in *. unfold Qdiv. apply Qmult_le_0_compat; [lra|]. apply Qlt_le_weak, Qinv_lt_0_compat. lra.
Qed.

Theorem sub_invariant m n meta nd fs k area lm data : (0 < m)%nat -> wf n data ->
  (forall cr, dom_cols cr data) -> (forall cr, dom_cols cr (sub_data m data)) ->
  ep_rel (sub_rel m) (energy_performance (mkComponents meta data nd) fs k area lm)
                     (energy_performance (mkComponents meta (sub_data m data) nd) fs k area lm).
Proof.
  intros Hm Hwf D D'. apply ep_rel_lift.
  - apply avail_map_vals.
  - now apply (cgn_sub fs m n).
  - intros cr. now apply (sub_ctx m n).
  - intros fs1 cr. symmetry. now apply (weighted_sub m).
Qed.
