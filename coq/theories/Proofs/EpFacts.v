(** * Structure of the result of [energy_performance] *)
From Cteepbd Require Import Model.Balance.
Open Scope Qc_scope.

Definition set_k_bal (k : Qc) (b : BalCr) : BalCr := mkBalCr (bc_ctx b) (bc_parts b) k.
Definition set_k (k : Qc) (ep : EP) : EP :=
  mkEP (ep_data ep) (ep_needs ep) (ep_factors ep) k (ep_area ep) (map (set_k_bal k) (ep_bal ep)).

Lemma balances_k fs k k' lm data crs :
  balances fs k lm data crs =
  match balances fs k' lm data crs with Ok bs => Ok (map (set_k_bal k) bs) | Err e => Err e end.
Proof.
  induction crs as [|cr crs IH]; cbn [balances]; [reflexivity|].
  unfold balance_for_carrier. destruct (weighted_parts fs (mk_ctx cr lm data)) as [p|e]; cbn [bind]; [|reflexivity].
  rewrite IH. destruct (balances fs k' lm data crs) as [bs|e]; cbn [bind map]; reflexivity.
Qed.

(** k_exp enters only through the field [ep_k]/[bc_k] *)
Lemma ep_k_only c fs k k' area lm :
  energy_performance c fs k area lm =
  match energy_performance c fs k' area lm with Ok ep => Ok (set_k k ep) | Err e => Err e end.
Proof.
  unfold energy_performance. destruct (qltb area (qfrac 1 1000)); [reflexivity|].
  destruct (add_cgn_factors fs (c_data c)) as [fs'|e]; cbn [bind]; [|reflexivity].
  rewrite (balances_k fs' k k'). destruct (balances fs' k' lm (c_data c) _) as [bs|e]; cbn [bind]; reflexivity.
Qed.

(** every carrier balance of a result was produced by [weighted_parts] with the result's factors,
    from the context of that carrier *)
Definition bal_ok (fs : list Factor) (lm : bool) (data : list Energy) (b : BalCr) : Prop :=
  bc_ctx b = mk_ctx (cx_cr (bc_ctx b)) lm data /\ weighted_parts fs (bc_ctx b) = Ok (bc_parts b).

Lemma balances_ok fs k lm data crs bs :
  balances fs k lm data crs = Ok bs ->
  Forall (bal_ok fs lm data) bs /\ map (fun b => cx_cr (bc_ctx b)) bs = crs /\ Forall (fun b => bc_k b = k) bs.
Proof.
  revert bs. induction crs as [|cr crs IH]; cbn [balances]; intros bs H.
  - injection H as <-. repeat split; constructor.
  - unfold balance_for_carrier in H.
    destruct (weighted_parts fs (mk_ctx cr lm data)) as [p|e] eqn:E; cbn [bind] in H; [|discriminate].
    destruct (balances fs k lm data crs) as [bs'|e] eqn:E'; cbn [bind] in H; [|discriminate].
    injection H as <-. destruct (IH bs' eq_refl) as (A & B & C).
    repeat split; [constructor|cbn [map]; f_equal|constructor]; try assumption.
    + split; cbn [bc_ctx bc_parts]; [reflexivity|exact E].
    + reflexivity.
Qed.

Lemma ep_ok c fs k area lm ep :
  energy_performance c fs k area lm = Ok ep ->
  ep_k ep = k /\ ep_area ep = area /\ ep_data ep = c_data c /\
  add_cgn_factors fs (c_data c) = Ok (ep_factors ep) /\
  Forall (bal_ok (ep_factors ep) lm (c_data c)) (ep_bal ep) /\
  map (fun b => cx_cr (bc_ctx b)) (ep_bal ep) = avail_carriers (c_data c) /\
  Forall (fun b => bc_k b = k) (ep_bal ep) /\
  ~ area < qfrac 1 1000.
Proof.
  unfold energy_performance. destruct (qltb_spec area (qfrac 1 1000)) as [L|L]; [discriminate|].
  destruct (add_cgn_factors fs (c_data c)) as [fs'|e] eqn:E; cbn [bind]; [|discriminate].
  destruct (balances fs' k lm (c_data c) _) as [bs|e] eqn:E'; cbn [bind]; [|discriminate].
  intros H. injection H as <-. cbn. destruct (balances_ok _ _ _ _ _ _ E') as (A & B & C).
  repeat split; assumption.
Qed.

(** RNC algebra *)
Lemma rsum_cons r l : rsum (r :: l) = radd r (rsum l). Proof. reflexivity. Qed.
Lemma rsum_nil : rsum [] = rnc0. Proof. reflexivity. Qed.

Lemma rsum_map_affine {A} (a b : A -> RNC) (k : Qc) (l : list A) :
  rsum (map (fun x => radd (a x) (rscale k (rsub (b x) (a x)))) l)
  = radd (rsum (map a l)) (rscale k (rsub (rsum (map b l)) (rsum (map a l)))).
Proof.
  induction l as [|x l IH]; cbn [map]; rewrite ?rsum_cons, ?rsum_nil; [rnc|].
  rewrite IH. rnc.
Qed.

Lemma rsum_map_ext {A} (f g : A -> RNC) l : (forall x, In x l -> f x = g x) -> rsum (map f l) = rsum (map g l).
Proof.
  induction l as [|x l IH]; intros H; cbn [map]; rewrite ?rsum_cons; [reflexivity|].
  rewrite H by (now left). rewrite IH; [reflexivity|]. intros; apply H; now right.
Qed.

Lemma rsum_map_scale {A} k (f : A -> RNC) l : rsum (map (fun x => rscale k (f x)) l) = rscale k (rsum (map f l)).
Proof. induction l as [|x l IH]; cbn [map]; rewrite ?rsum_cons, ?rsum_nil; [rnc|]. rewrite IH. rnc. Qed.
