(** * Normalisation commutes with a consistent renumbering of the systems (C10)

    [rename f] replaces every system id [i] by [f i], [f] injective.  Completions and auxiliary assignment are computed
    system by system from the components of the system: they commute with the renumbering; only the final sort sees
    the new numbers, so the normalised list of the renumbered components is a permutation of the renumbered normalised
    list. *)
From Cteepbd Require Import Model.Components Proofs.NormFacts Proofs.DataEquiv Proofs.WfFacts Proofs.CompleteIdem Proofs.NormIdem Proofs.NormPerm.
From Coq Require Import Permutation.
Open Scope Qc_scope.

Definition rn (f : Z -> Z) (e : Energy) : Energy := e_set_id e (f (e_id e)).
Definition rename (f : Z -> Z) (d : list Energy) : list Energy := map (rn f) d.

Section Rename.
  Variable f : Z -> Z.
  Hypothesis Hinj : forall a b, f a = f b -> a = b.

  Lemma rn_id e : e_id (rn f e) = f (e_id e).  Proof. destruct e; reflexivity. Qed.
  Lemma rn_vals e : e_vals (rn f e) = e_vals e.  Proof. destruct e; reflexivity. Qed.
  Lemma rn_has_id i e : has_id (f i) (rn f e) = has_id i e.
  Proof.
    unfold has_id. rewrite rn_id. destruct (Z.eqb_spec (e_id e) i) as [->|N]; [apply Z.eqb_refl|]. apply Z.eqb_neq. intro K. apply N, Hinj, K.
  Qed.

  (** predicates that do not look at the id *)
  Definition idfree (p : Energy -> bool) : Prop := forall e j, p (e_set_id e j) = p e.
  Lemma idf_is_used : idfree is_used.  Proof. intros [] j; reflexivity. Qed.
  Lemma idf_is_generated : idfree is_generated.  Proof. intros [] j; reflexivity. Qed.
  Lemma idf_is_aux : idfree is_aux.  Proof. intros [] j; reflexivity. Qed.
  Lemma idf_has_carrier cr : idfree (has_carrier cr).  Proof. intros [] j; reflexivity. Qed.

  Lemma filter_rename_id i p d : idfree p -> filter (fun e => has_id (f i) e && p e) (rename f d) = rename f (filter (fun e => has_id i e && p e) d).
  Proof.
    intros Hp. induction d as [|e d IH]; [reflexivity|]. cbn [rename map filter]. fold (rename f d). rewrite rn_has_id. unfold rn at 1. rewrite Hp.
    destruct (has_id i e && p e); cbn [map]; fold (rename f (filter (fun e0 => has_id i e0 && p e0) d)); now rewrite IH.
  Qed.
  Lemma filter_rename p d : idfree p -> filter p (rename f d) = rename f (filter p d).
  Proof.
    intros Hp. induction d as [|e d IH]; [reflexivity|]. cbn [rename map filter]. fold (rename f d). unfold rn at 1. rewrite Hp.
    destruct (p e); cbn [map]; fold (rename f (filter p d)); now rewrite IH.
  Qed.
  Lemma existsb_rename_id (q : Z -> Energy -> bool) i d :
    (forall e, q (f i) (rn f e) = q i e) -> existsb (q (f i)) (rename f d) = existsb (q i) d.
  Proof. intros H. induction d as [|e d IH]; [reflexivity|]. cbn [rename map existsb]. fold (rename f d). now rewrite H, IH. Qed.

  Lemma rename_app a b : rename f (a ++ b) = rename f a ++ rename f b.
  Proof. apply map_app. Qed.

  Lemma ids_of_rename d : ids_of (rename f d) = map f (ids_of d).
  Proof.
    induction d as [|e d IH]; [reflexivity|]. cbn [rename map ids_of]. fold (rename f d). rewrite IH, rn_id. cbn [map]. f_equal. clear IH.
    induction (ids_of d) as [|k l IHl]; [reflexivity|]. cbn [map filter].
    assert (E : Z.eqb (f k) (f (e_id e)) = Z.eqb k (e_id e)).
    { destruct (Z.eqb_spec k (e_id e)) as [->|N]; [apply Z.eqb_refl|]. apply Z.eqb_neq. intro K. apply N, Hinj, K. }
    rewrite E. destruct (negb (k =? e_id e)%Z); cbn [map]; now rewrite IHl.
  Qed.

  Lemma sum_at_rename l t : sum_at (rename f l) t = sum_at l t.
  Proof. unfold sum_at, rename. rewrite map_map. apply qsum_map_ext. intros e _. unfold val_at. now rewrite rn_vals. Qed.
  Lemma max_len_rename l : max_len (rename f l) = max_len l.
  Proof. induction l as [|e l IH]; [reflexivity|]. cbn [rename map max_len fold_right]. fold (rename f l). fold (max_len (rename f l)). fold (max_len l). now rewrite IH, rn_vals. Qed.
  Lemma veclistsum_rename l : veclistsum (rename f l) = veclistsum l.
  Proof.
    unfold veclistsum. rewrite max_len_rename.
    replace (match rename f l with [] => 1%nat | _ :: _ => max_len l end) with (match l with [] => 1%nat | _ :: _ => max_len l end) by (destruct l; reflexivity).
    apply map_ext. intros t. apply sum_at_rename.
  Qed.

  Lemma unbalanced_rename env i : unbalanced (rename f env) (f i) = unbalanced env i.
  Proof.
    unfold unbalanced. rewrite (filter_rename_id i is_used env idf_is_used), (filter_rename_id i is_generated env idf_is_generated), !veclistsum_rename.
    destruct (filter (fun e => has_id i e && is_used e) env); [reflexivity|]. cbn [rename map].
    destruct (filter (fun e => has_id i e && is_generated e) env); reflexivity.
  Qed.

  Lemma completion_rename src env i : completion_for src (rename f env) (f i) = rename f (completion_for src env i).
  Proof. unfold completion_for. rewrite unbalanced_rename. destruct (unbalanced env i) as [v|]; [|reflexivity]. destruct (qeqb (qsum v) 0); reflexivity. Qed.

  Lemma complete_rename cr d : complete cr (rename f d) = rename f (complete cr d).
  Proof.
    unfold complete, complete_with. destruct (source_of_carrier cr) as [src|]; [|reflexivity].
    rewrite (filter_rename (has_carrier cr) d (idf_has_carrier cr)), ids_of_rename, rename_app. f_equal.
    induction (ids_of (filter (has_carrier cr) d)) as [|i ids IH]; [reflexivity|]. cbn [map flat_map]. rewrite rename_app, IH, completion_rename. reflexivity.
  Qed.

  (** the auxiliary energy *)
  Lemma used_services_rename d i : used_services (rename f d) (f i) = used_services d i.
  Proof.
    unfold used_services. apply filter_ext. intros s. f_equal.
    apply (existsb_rename_id (fun j e => match e with EUsed j' _ s' _ _ => Z.eqb j' j && Service_beq s' s | _ => false end) i d).
    intros [j c0 s0 v m|j p v m|j s0 v m|j s0 v m]; cbn; try reflexivity.
    destruct (Z.eqb_spec j i) as [->|N]; [now rewrite Z.eqb_refl|]. assert (E : Z.eqb (f j) (f i) = false) by (apply Z.eqb_neq; intro K; apply N, Hinj, K). now rewrite E.
  Qed.
  Lemma is_out_of_rn i s e : is_out_of (f i) s (rn f e) = is_out_of i s e.
  Proof.
    destruct e as [j c0 s0 v m|j p v m|j s0 v m|j s0 v m]; cbn; try reflexivity.
    destruct (Z.eqb_spec j i) as [->|N]; [now rewrite Z.eqb_refl|]. assert (E : Z.eqb (f j) (f i) = false) by (apply Z.eqb_neq; intro K; apply N, Hinj, K). now rewrite E.
  Qed.
  Lemma is_aux_of_rn i e : is_aux_of (f i) (rn f e) = is_aux_of i e.
  Proof. unfold is_aux_of. rewrite rn_has_id. destruct e; reflexivity. Qed.

  Lemma filter_rn (q : Z -> Energy -> bool) i d : (forall e, q (f i) (rn f e) = q i e) -> filter (q (f i)) (rename f d) = rename f (filter (q i) d).
  Proof.
    intros H. induction d as [|e d IH]; [reflexivity|]. cbn [rename map filter]. fold (rename f d). rewrite H.
    destruct (q i e); cbn [map]; fold (rename f (filter (q i) d)); now rewrite IH.
  Qed.

  Lemma out_services_rename d i : out_services (rename f d) (f i) = out_services d i.
  Proof.
    unfold out_services. apply filter_ext. intros s. pose proof (existsb_rename_id (fun j => is_out_of j s) i d (fun e => is_out_of_rn i s e)) as K. cbv beta in K. exact K.
  Qed.
  Lemma q_out_rename d i s t : q_out (rename f d) (f i) s t = q_out d i s t.
  Proof.
    unfold q_out. pose proof (filter_rn (fun j => is_out_of j s) i d (fun e => is_out_of_rn i s e)) as K. cbv beta in K. rewrite K. apply sum_at_rename.
  Qed.
  Lemma q_tot_rename d i t : q_tot (rename f d) (f i) t = q_tot d i t.
  Proof. unfold q_tot, q_mag. rewrite out_services_rename. f_equal. apply map_ext. intros s. now rewrite q_out_rename. Qed.
  Lemma aux_share_rename d i s t : aux_share (rename f d) (f i) s t = aux_share d i s t.
  Proof. unfold aux_share, q_mag. now rewrite q_tot_rename, q_out_rename. Qed.

  Lemma num_steps_rename d : num_steps_of (rename f d) = num_steps_of d.
  Proof. destruct d as [|e d]; [reflexivity|]. cbn. now rewrite rn_vals. Qed.

  Lemma set_aux_rn i s e : set_aux_service (f i) s (rn f e) = rn f (set_aux_service i s e).
  Proof.
    destruct e as [j c0 s0 v m|j p v m|j s0 v m|j s0 v m]; try reflexivity. cbn.
    destruct (Z.eqb_spec j i) as [->|N]; [now rewrite Z.eqb_refl|]. assert (E : Z.eqb (f j) (f i) = false) by (apply Z.eqb_neq; intro K; apply N, Hinj, K). now rewrite E.
  Qed.

  Definition lift_rn (r : res (list Energy)) : res (list Energy) := match r with Ok d => Ok (rename f d) | Err e => Err e end.

  Lemma assign_id_rename d i : assign_aux_id (rename f d) (f i) = lift_rn (assign_aux_id d i).
  Proof.
    unfold assign_aux_id. rewrite used_services_rename, num_steps_rename.
    pose proof (filter_rn is_aux_of i d (is_aux_of_rn i)) as KA. rewrite KA, veclistsum_rename, out_services_rename.
    rewrite (map_ext (q_tot (rename f d) (f i)) (q_tot d i) (q_tot_rename d i)).
    assert (K : filter (fun e => negb (is_aux_of (f i) e)) (rename f d) = rename f (filter (fun e => negb (is_aux_of i e)) d)).
    { apply (filter_rn (fun j e => negb (is_aux_of j e)) i d). intros e. now rewrite is_aux_of_rn. }
    rewrite K.
    assert (Multi : forall tot,
      map (fun s => EAux (f i) s (map (fun p => aux_share (rename f d) (f i) s (fst p) * snd p) (combine (seq 0 (num_steps_of d)) tot)) comment_aux) (out_services d i)
      = rename f (map (fun s => EAux i s (map (fun p => aux_share d i s (fst p) * snd p) (combine (seq 0 (num_steps_of d)) tot)) comment_aux) (out_services d i))).
    { intros tot.
      transitivity (map (fun s => rn f (EAux i s (map (fun p => aux_share d i s (fst p) * snd p) (combine (seq 0 (num_steps_of d)) tot)) comment_aux)) (out_services d i)).
      - apply map_ext. intros s. unfold rn. cbn [e_set_id e_id]. f_equal. apply map_ext. intros p. now rewrite aux_share_rename.
      - unfold rename. now rewrite map_map. }
    destruct (used_services d i) as [|s [|s' l]].
    - destruct (_ && _); [reflexivity|]. cbn [lift_rn]. f_equal. rewrite rename_app. f_equal. apply Multi.
    - cbn [lift_rn]. f_equal. unfold rename. rewrite !map_map. apply map_ext. intros e. apply set_aux_rn.
    - destruct (_ && _); [reflexivity|]. cbn [lift_rn]. f_equal. rewrite rename_app. f_equal. apply Multi.
  Qed.

  Lemma assign_ids_rename ids : forall d, assign_aux_ids (rename f d) (map f ids) = lift_rn (assign_aux_ids d ids).
  Proof.
    induction ids as [|i ids IH]; intros d; cbn [map assign_aux_ids]; [reflexivity|]. rewrite assign_id_rename.
    destruct (assign_aux_id d i) as [d1|e]; cbn [lift_rn bind]; [apply IH|reflexivity].
  Qed.

  Lemma assign_aux_rename d : assign_aux (rename f d) = lift_rn (assign_aux d).
  Proof. unfold assign_aux. rewrite (filter_rename is_aux d idf_is_aux), ids_of_rename. apply assign_ids_rename. Qed.

  (** renumbering the systems: same error, or the renumbered normalised components in the order of the new numbers *)
  Theorem normalize_data_rename data : res_perm (normalize_data (rename f data)) (lift_rn (normalize_data data)).
  Proof.
    unfold normalize_data. rewrite !complete_rename, assign_aux_rename.
    destruct (assign_aux (complete TERMOSOLAR (complete EAMBIENTE data))) as [d3|e]; cbn [lift_rn bind res_perm]; [|reflexivity].
    eapply Permutation_trans; [apply sort_by_id_perm|]. unfold rename. apply Permutation_map, Permutation_sym, sort_by_id_perm.
  Qed.
End Rename.
