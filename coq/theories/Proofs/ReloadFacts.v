(** * The factors saved for a building evaluate it again to the same results (C18, C07, C08)

    The program writes with --of the prepared factor set simplified for the building ([strip]).  Reading that file
    prepares it again ([normalize_factors], with whatever defaults).  This file shows that the second preparation
    succeeds and that every factor the evaluation of the building looks up is the one of the first preparation, so
    the evaluation gives the same balances. *)
From Cteepbd Require Import Model.Factors Proofs.StepFacts Proofs.ColFacts Proofs.EpFacts Proofs.Breakdown
  Proofs.FactorFacts Proofs.NeededKeys Proofs.CtxFacts Proofs.Refine Proofs.DataEquiv Proofs.StripFacts Proofs.CompleteFacts Proofs.IdemFacts.
Open Scope Qc_scope.

(** ** an evaluation only depends on the factors it looks up *)
Definition agree (data : list Energy) (lm : bool) (fs1 fs2 : list Factor) : Prop :=
  forall cr key, In cr (avail_carriers data) -> In key (needed (mk_ctx cr lm data)) -> lookk fs1 key = lookk fs2 key.

Lemma agree_grid data lm fs1 fs2 c : agree data lm fs1 fs2 -> In c (avail_carriers data) -> lookk fs1 (grid_key c) = lookk fs2 (grid_key c).
Proof. intros A Hc. apply (A c (grid_key c) Hc). apply (needed_grid (mk_ctx c lm data)). Qed.

Lemma cgn_sum_cong fs1 fs2 data lm n crs : agree data lm fs1 fs2 -> (forall c, In c crs -> In c (avail_carriers data)) ->
  cgn_sum fs1 data n false crs = cgn_sum fs2 data n false crs.
Proof.
  intros A. induction crs as [|c crs IH]; intros H; cbn [cgn_sum andb]; [reflexivity|].
  rewrite !findf_lookk. change (c, RED, SUMINISTRO, STEP_A) with (grid_key c).
  rewrite (agree_grid data lm fs1 fs2 c A) by (apply H; now left).
  rewrite IH; [reflexivity|]. intros; apply H; now right.
Qed.

Lemma add_cgn_cong fs1 fs2 data lm : agree data lm fs1 fs2 ->
  match add_cgn_factors fs1 data with
  | Ok g1 => exists extra, g1 = fs1 ++ extra /\ add_cgn_factors fs2 data = Ok (fs2 ++ extra)
  | Err e => add_cgn_factors fs2 data = Err e
  end.
Proof.
  intros A. unfold add_cgn_factors, compute_cgn_exp_fP_A.
  destruct (cgn_num_steps data) as [|m] eqn:N.
  - cbn [bind]. exists []. now rewrite !app_nil_r.
  - destruct (cgn_fuel_carriers data) as [|c cs] eqn:C; [reflexivity|].
    rewrite (cgn_sum_cong fs1 fs2 data lm) by (try exact A; intros c0 Hc0; apply fuel_avail; now rewrite C).
    destruct (cgn_sum fs2 data (S m) false (c :: cs)) as [r|e]; cbn [bind]; [|reflexivity].
    rewrite !findf_lookk. change (ELECTRICIDAD, RED, SUMINISTRO, STEP_A) with (grid_key ELECTRICIDAD).
    rewrite (agree_grid data lm fs1 fs2 ELECTRICIDAD A) by (apply cogen_el_avail; congruence).
    destruct (lookk fs2 (grid_key ELECTRICIDAD)); cbn [bind]; [|reflexivity].
    eexists. split; reflexivity.
Qed.

Lemma balances_cong fs1 fs2 extra k lm data crs : agree data lm fs1 fs2 -> (forall c, In c crs -> In c (avail_carriers data)) ->
  balances (fs1 ++ extra) k lm data crs = balances (fs2 ++ extra) k lm data crs.
Proof.
  intros A. induction crs as [|c crs IH]; intros H; cbn [balances]; [reflexivity|].
  unfold balance_for_carrier.
  rewrite (weighted_parts_cong (fs1 ++ extra) (fs2 ++ extra) (mk_ctx c lm data)).
  - rewrite IH; [reflexivity|]. intros; apply H; now right.
  - intros key Hk. rewrite !lookk_app. rewrite (A c key); [reflexivity|apply H; now left|exact Hk].
Qed.

Theorem ep_cong c fs1 fs2 k area lm : agree (c_data c) lm fs1 fs2 ->
  match energy_performance c fs1 k area lm, energy_performance c fs2 k area lm with
  | Ok e, Ok e' => ep_bal e = ep_bal e' /\ ep_k e = ep_k e' /\ ep_area e = ep_area e' /\ ep_needs e = ep_needs e' /\ ep_data e = ep_data e'
  | Err a, Err b => a = b
  | _, _ => False
  end.
Proof.
  intros A. unfold energy_performance. destruct (qltb area (qfrac 1 1000)); [reflexivity|].
  pose proof (add_cgn_cong fs1 fs2 (c_data c) lm A) as S.
  destruct (add_cgn_factors fs1 (c_data c)) as [g1|e]; cbn [bind].
  - destruct S as (extra & -> & ->). cbn [bind].
    rewrite (balances_cong fs1 fs2 extra k lm (c_data c)) by (try exact A; auto).
    destruct (balances (fs2 ++ extra) k lm (c_data c) (avail_carriers (c_data c))); cbn [bind]; [|reflexivity].
    repeat split.
  - rewrite S. reflexivity.
Qed.

(** ** a set in which every carrier has its grid factor is accepted *)
Lemma forced_updates_keeps_defined g k : lookk g k <> None -> lookk (forced_updates g) k <> None.
Proof.
  intros H. unfold forced_updates. destruct (existsb _ _); rewrite ?lookk_update;
    repeat match goal with |- context [if ?b then _ else _] => destruct b; [discriminate|] end; exact H.
Qed.

Lemma ensure_exports_ok wf cs : forall fs, (forall c, existsb (Carrier_beq c) wf = true -> lookk fs (grid_key c) <> None) ->
  exists fs', ensure_exports wf fs cs = Ok fs'.
Proof.
  induction cs as [|[c s] cs IH]; intros fs H; cbn [ensure_exports]; [eauto|].
  set (fs1 := match lookk fs (c, s, SUMINISTRO, STEP_A) with Some v => _ | None => fs end).
  assert (K1 : forall k0, lookk fs k0 <> None -> lookk fs1 k0 <> None).
  { intros k0 H0. unfold fs1. destruct (lookk fs (c, s, SUMINISTRO, STEP_A)); [apply ensure_keeps_defined, ensure_keeps_defined|]; exact H0. }
  destruct (lookk fs1 (grid_key c)) as [g|] eqn:G.
  - apply IH. intros c0 H0. apply ensure_keeps_defined, ensure_keeps_defined, K1, H, H0.
  - destruct (existsb (Carrier_beq c) wf) eqn:X; [exfalso; exact (K1 _ (H c X) G)|].
    apply IH. intros c0 H0. apply K1, H, H0.
Qed.

Lemma normalize_accepts g d1 d2 : (forall c, In c (carriers_of g) -> lookk g (grid_key c) <> None) ->
  exists fs'', normalize_factors g d1 d2 = Ok fs''.
Proof.
  intros H. rewrite normalize_unfold. cbv zeta.
  assert (G : forallb (fun c => existsb (kmatch (grid_key c)) (forced_updates g)) (carriers_of g) = true).
  { apply forallb_forall. intros c Hc. apply lookk_some_exists.
    pose proof (forced_updates_keeps_defined g _ (H c Hc)) as P. destruct (lookk (forced_updates g) (grid_key c)); [eauto|congruence]. }
  rewrite G. cbn [negb].
  destruct (ensure_exports_ok (carriers_of g) exp_carriers (forced_updates g)) as [fs2 ->].
  - intros c Hc. apply forced_updates_keeps_defined, H. apply existsb_exists in Hc as (c1 & H1 & E1). apply Carrier_beq_eq in E1. now subst c1.
  - cbn [bind]. eauto.
Qed.

(** ** normalisation only adds supply factors of the method, on-site export factors and RED1 / RED2 *)
Lemma ensure_exports_insitu_only wf cs : (forall c s, In (c, s) cs -> s = INSITU) -> forall fs fs' c s d st,
  s <> INSITU -> ensure_exports wf fs cs = Ok fs' -> lookk fs' (c, s, d, st) = lookk fs (c, s, d, st).
Proof.
  intros Hcs. induction cs as [|[c0 s0] cs IH]; intros fs fs' c s d st Ns H; cbn [ensure_exports] in H; [now injection H as <-|].
  assert (S0 : s0 = INSITU) by (apply (Hcs c0 s0); now left). subst s0.
  assert (N : forall c1 d1 st1, fkey_eqb (c1, INSITU, d1, st1) (c, s, d, st) = false).
  { intros c1 d1 st1. destruct (fkey_eqb_spec (c1, INSITU, d1, st1) (c, s, d, st)) as [E|]; [|reflexivity]. injection E as _ E _ _. congruence. }
  set (fs1 := match lookk fs (c0, INSITU, SUMINISTRO, STEP_A) with Some v => _ | None => fs end) in *.
  assert (E1 : lookk fs1 (c, s, d, st) = lookk fs (c, s, d, st)).
  { unfold fs1. destruct (lookk fs (c0, INSITU, SUMINISTRO, STEP_A)); [|reflexivity].
    rewrite !lookk_ensure, !N. destruct (lookk fs (c, s, d, st)); reflexivity. }
  assert (Hcs' : forall c1 s1, In (c1, s1) cs -> s1 = INSITU) by (intros c1 s1 H1; apply (Hcs c1 s1); now right).
  destruct (lookk fs1 (grid_key c0)) as [g|].
  - rewrite (IH Hcs' _ _ c s d st Ns H), !lookk_ensure, !N, E1. destruct (lookk fs (c, s, d, st)); reflexivity.
  - destruct (existsb (Carrier_beq c0) wf); [discriminate|]. rewrite (IH Hcs' _ _ c s d st Ns H). exact E1.
Qed.

Lemma normalize_cogen_untouched g d1 d2 fs'' c d st : normalize_factors g d1 d2 = Ok fs'' -> d <> SUMINISTRO ->
  lookk fs'' (c, SRC_COGEN, d, st) = lookk g (c, SRC_COGEN, d, st).
Proof.
  intros H Hd. destruct (norm_parts g fs'' d1 d2 H) as (fs2 & E & ->).
  assert (F : forall k0, In k0 [K_RED1; K_RED2] -> fkey_eqb k0 (c, SRC_COGEN, d, st) = false).
  { intros k0 [<-|[<-|[]]].
    - destruct (fkey_eqb_spec K_RED1 (c, SRC_COGEN, d, st)) as [Q|]; [discriminate Q|reflexivity].
    - destruct (fkey_eqb_spec K_RED2 (c, SRC_COGEN, d, st)) as [Q|]; [discriminate Q|reflexivity]. }
  rewrite !lookk_ensure, !F by (cbn; tauto).
  assert (I : forall c1 s1, In (c1, s1) exp_carriers -> s1 = INSITU).
  { intros c1 s1 H1. cbn in H1. destruct H1 as [Q|[Q|[Q|[]]]]; now injection Q. }
  assert (Ns : SRC_COGEN <> INSITU) by discriminate.
  rewrite (ensure_exports_insitu_only (carriers_of g) exp_carriers I (forced_updates g) fs2 c SRC_COGEN d st Ns E).
  rewrite forced_updates_other by (cbn; intuition discriminate). destruct (lookk g (c, SRC_COGEN, d, st)); reflexivity.
Qed.

(** ** the saved set *)
Section Reload.
  Variables (fs fs' : list Factor) (d1 d2 e1 e2 : RNC) (data : list Energy) (lm : bool).
  Hypothesis Hnorm : normalize_factors fs d1 d2 = Ok fs'.
  Hypothesis Hn : nonneg_data data.
  Hypothesis Ha : aux_ok data.
  Hypothesis Hgrid : forall cr, In cr (avail_carriers data) -> lookk fs' (grid_key cr) <> None.
  Let g := strip fs' data.

  Lemma strip_lookup k : strip_pred data k = true -> lookk g k = lookk fs' k.
  Proof. intros H. unfold g. rewrite strip_as_filter. now apply lookk_filter. Qed.

  Lemma strip_carrier c : In c (carriers_of g) -> In c (avail_carriers data) /\ In c (carriers_of fs').
  Proof.
    intros H. apply in_carriers_of in H as (f & Hf & <-). unfold g in Hf. rewrite strip_as_filter in Hf.
    apply filter_In in Hf as [Hf P]. split; [|apply in_carriers_of; eauto].
    unfold strip_pred, key_of in P. apply andb_true_iff in P as [P _]. apply andb_true_iff in P as [P _]. apply andb_true_iff in P as [P _].
    apply existsb_exists in P as (c1 & H1 & E1). apply Carrier_beq_eq in E1. now subst c1.
  Qed.

  (** the saved set is accepted again, whatever the defaults *)
  Lemma reload_accepted : exists fs'', normalize_factors g e1 e2 = Ok fs''.
  Proof.
    apply normalize_accepts. intros c Hc. destruct (strip_carrier c Hc) as [Hav _].
    rewrite strip_lookup by (now apply grid_kept). now apply Hgrid.
  Qed.

  Variable fs'' : list Factor.
  Hypothesis Hre : normalize_factors g e1 e2 = Ok fs''.

  (** a factor of the first preparation that the simplification keeps is a factor of the second one *)
  Lemma reload_keeps k v : strip_pred data k = true -> lookk fs' k = Some v -> lookk fs'' k = Some v.
  Proof.
    intros P L. destruct (in_dec (fun a b => match fkey_eqb_spec a b with ReflectT _ e => left e | ReflectF _ n => right n end) k forced_keys) as [F|NF].
    - (* a factor fixed by the method: (1,0,0) in both *)
      assert (El : k = K_EL_INSITU -> In ELECTRICIDAD (carriers_of g)).
      { intros ->. apply (lookk_defined_carrier g ELECTRICIDAD INSITU SUMINISTRO STEP_A). rewrite strip_lookup by exact P. change (ELECTRICIDAD, INSITU, SUMINISTRO, STEP_A) with K_EL_INSITU. congruence. }
      assert (V : v = one).
      { assert (L1 : lookk fs' k = Some one).
        { apply (forced_fixed fs fs' d1 d2 Hnorm k F). intros ->. apply (el_back fs fs' d1 d2 Hnorm).
          apply (lookk_defined_carrier fs' ELECTRICIDAD INSITU SUMINISTRO STEP_A). change (ELECTRICIDAD, INSITU, SUMINISTRO, STEP_A) with K_EL_INSITU. congruence. }
        congruence. }
      subst v. exact (forced_fixed g fs'' e1 e2 Hre k F El).
    - apply (normalize_respects g e1 e2 fs'' k v Hre NF). rewrite strip_lookup by exact P. exact L.
  Qed.

  (** every factor the evaluation of the building looks up is the same in both preparations *)
  Theorem reload_agree : agree data lm fs' fs''.
  Proof.
    intros cr key Hcr Hk. pose proof (needed_kept data lm cr Hn Ha Hcr key Hk) as P.
    destruct (lookk fs' key) as [v|] eqn:L; [symmetry; now apply reload_keeps|].
    (* not defined by the first preparation: only a cogeneration export factor can be looked up then *)
    unfold needed in Hk. cbn [app In] in Hk. change (cx_cr (mk_ctx cr lm data)) with cr in Hk.
    destruct Hk as [<-|Hk]; [exfalso; exact (Hgrid cr Hcr L)|].
    apply in_app_iff in Hk as [Hk|Hk].
    - exfalso. destruct (qeqb (a_del_onst (mk_ctx cr lm data)) 0) eqn:D; [contradiction|]. destruct Hk as [<-|[]].
      assert (Hj : In (cr, INSITU) exp_carriers).
      { destruct (Carrier_eq_dec cr ELECTRICIDAD) as [->|N1]; [cbn; tauto|].
        destruct (Carrier_eq_dec cr TERMOSOLAR) as [->|N2]; [cbn; tauto|].
        destruct (Carrier_eq_dec cr EAMBIENTE) as [->|N3]; [cbn; tauto|].
        exfalso. assert (Z : a_del_onst (mk_ctx cr lm data) = 0).
        { apply del_onst_zero. intros j Hcj _. destruct j; cbn in Hcj; congruence. }
        rewrite Z in D. destruct (qeqb_spec 0 0); [discriminate|congruence]. }
      exact (insitu_supply_defined fs fs' d1 d2 Hnorm cr Hj (Hgrid cr Hcr) L).
    - destruct (qeqb (a_exp_ne (mk_ctx cr lm data) + a_exp_grid (mk_ctx cr lm data)) 0) eqn:EA; [contradiction|].
      apply in_flat_map in Hk as (j & Hj & Hk). destruct (srcs_carrier cr lm data j Hj) as [Hcj Hex].
      assert (Hd : exists dest step, key = (cr, ps_source j, dest, step) /\ dest <> SUMINISTRO).
      { unfold export_keys in Hk. change (cx_cr (mk_ctx cr lm data)) with cr in Hk. apply in_app_iff in Hk as [Hk|Hk].
        - destruct (qeqb (a_exp_ne (mk_ctx cr lm data)) 0); [contradiction|]. destruct Hk as [<-|[<-|[]]]; eexists _, _; split; try reflexivity; discriminate.
        - destruct (qeqb (a_exp_grid (mk_ctx cr lm data)) 0); [contradiction|]. destruct Hk as [<-|[<-|[]]]; eexists _, _; split; try reflexivity; discriminate. }
      destruct Hd as (dest & step & -> & Hd).
      destruct (Source_eq_dec (ps_source j) INSITU) as [Hs|Hs].
      + exfalso. rewrite Hs in L. rewrite <- Hcj in L, Hcr.
        exact (insitu_export_defined fs fs' d1 d2 Hnorm (ps_carrier j) dest step (onsite_src_exp j Hs) (Hgrid _ Hcr) Hd L).
      + assert (j = EL_COGEN) by (destruct j; cbn in Hs; congruence). subst j. cbn [ps_source] in *.
        rewrite (normalize_cogen_untouched g e1 e2 fs'' cr dest step Hre Hd), strip_lookup by exact P. now rewrite L.
  Qed.
End Reload.

(** the building evaluated with the factors saved for it and prepared again gives the same balances *)
Theorem saved_factors_evaluate_the_same c fs fs' d1 d2 e1 e2 k area lm :
  normalize_factors fs d1 d2 = Ok fs' -> nonneg_data (c_data c) -> aux_ok (c_data c) ->
  (forall cr, In cr (avail_carriers (c_data c)) -> lookk fs' (grid_key cr) <> None) ->
  exists fs'', normalize_factors (strip fs' (c_data c)) e1 e2 = Ok fs'' /\
  match energy_performance c fs' k area lm, energy_performance c fs'' k area lm with
  | Ok e, Ok e' => ep_bal e = ep_bal e' /\ ep_k e = ep_k e' /\ ep_area e = ep_area e' /\ ep_needs e = ep_needs e' /\ ep_data e = ep_data e'
  | Err a, Err b => a = b
  | _, _ => False
  end.
Proof.
  intros Hnorm Hn Ha Hgrid. destruct (reload_accepted fs' e1 e2 (c_data c) Hgrid) as [fs'' Hre].
  exists fs''. split; [exact Hre|]. apply ep_cong. exact (reload_agree fs fs' d1 d2 e1 e2 (c_data c) lm Hnorm Hn Ha Hgrid fs'' Hre).
Qed.
