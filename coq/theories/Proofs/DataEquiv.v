(** * Component lists that declare the same energy give the same balance (C10, data level) *)
From Cteepbd Require Import Model.Balance Proofs.EpFacts Proofs.Refine.
Open Scope Qc_scope.

(** same kind and tags (carrier / service / source); id, values and comment are free *)
Definition same_tags (e e' : Energy) : Prop :=
  match e, e' with
  | EUsed _ c s _ _, EUsed _ c' s' _ _ => c = c' /\ s = s'
  | EProd _ p _ _, EProd _ p' _ _ => p = p'
  | EAux _ s _ _, EAux _ s' _ _ => s = s'
  | EOut _ s _ _, EOut _ s' _ _ => s = s'
  | _, _ => False
  end.

(** predicates that only look at kind and tags *)
Definition tagpred (p : Energy -> bool) : Prop := forall e e', same_tags e e' -> p e = p e'.

Ltac tagpred_tac :=
  intros e e' H; destruct e, e'; cbn in H; try contradiction;
  repeat match goal with H : _ /\ _ |- _ => destruct H end; subst; reflexivity.

Lemma tp_has_carrier cr : tagpred (has_carrier cr). Proof. tagpred_tac. Qed.
Lemma tp_is_epb_use : tagpred is_epb_use. Proof. tagpred_tac. Qed.
Lemma tp_is_epb_use_srv s : tagpred (is_epb_use_srv s). Proof. tagpred_tac. Qed.
Lemma tp_is_ne_use : tagpred is_ne_use. Proof. tagpred_tac. Qed.
Lemma tp_is_cogen_use : tagpred is_cogen_use. Proof. tagpred_tac. Qed.
Lemma tp_is_prod_src j : tagpred (is_prod_src j). Proof. tagpred_tac. Qed.
Lemma tp_is_cogen_pr : tagpred is_cogen_pr. Proof. tagpred_tac. Qed.
Lemma tp_is_used : tagpred is_used. Proof. tagpred_tac. Qed.
Lemma tp_is_generated : tagpred is_generated. Proof. tagpred_tac. Qed.
Lemma tp_is_aux : tagpred is_aux. Proof. tagpred_tac. Qed.
Lemma tp_and p q : tagpred p -> tagpred q -> tagpred (fun e => p e && q e).
Proof. intros Hp Hq e e' H. now rewrite (Hp e e' H), (Hq e e' H). Qed.
Lemma tp_or p q : tagpred p -> tagpred q -> tagpred (fun e => p e || q e).
Proof. intros Hp Hq e e' H. now rewrite (Hp e e' H), (Hq e e' H). Qed.

(** all components have [n] values *)
Definition wf (n : nat) (data : list Energy) : Prop := Forall (fun e => length (e_vals e) = n) data.

(** two component lists are equivalent when every tag-selected column sum and every tag-selected
    existence test agree *)
Record data_equiv (n : nat) (d d' : list Energy) : Prop := {
  de_wf : wf n d;
  de_wf' : wf n d';
  de_sum : forall p, tagpred p -> forall t, colsum p d t = colsum p d' t;
  de_ex : forall p, tagpred p -> existsb p d = existsb p d'
}.

Lemma colsum_filter p q l t : colsum p (filter q l) t = colsum (fun e => q e && p e) l t.
Proof. unfold colsum. now rewrite filter_filter. Qed.

Lemma num_steps_filter n q d : wf n d -> num_steps_of (filter q d) = if existsb q d then n else 0%nat.
Proof.
  induction 1 as [|e d He _ IH]; [reflexivity|]. cbn [filter existsb]. destruct (q e); cbn [orb]; [exact He|exact IH].
Qed.

Section Equiv.
  Variables (n : nat) (d d' : list Energy).
  Hypothesis H : data_equiv n d d'.

  Lemma equiv_colsum_filter p q t : tagpred p -> tagpred q ->
    colsum p (filter q d) t = colsum p (filter q d') t.
  Proof. intros Hp Hq. rewrite !colsum_filter. apply (de_sum _ _ _ H). now apply tp_and. Qed.

  Lemma equiv_existsb_filter p q : tagpred p -> tagpred q ->
    existsb p (filter q d) = existsb p (filter q d').
  Proof. intros Hp Hq. rewrite !existsb_filter. apply (de_ex _ _ _ H). now apply tp_and. Qed.

  Lemma equiv_num_steps q : tagpred q -> num_steps_of (filter q d) = num_steps_of (filter q d').
  Proof.
    intros Hq. rewrite (num_steps_filter n q d (de_wf _ _ _ H)), (num_steps_filter n q d' (de_wf' _ _ _ H)).
    now rewrite (de_ex _ _ _ H q Hq).
  Qed.

  Lemma equiv_col_at cr t : col_at (filter (has_carrier cr) d) t = col_at (filter (has_carrier cr) d') t.
  Proof.
    unfold col_at. pose proof (tp_has_carrier cr) as Hc.
    f_equal; apply equiv_colsum_filter; try assumption;
      first [apply tp_is_epb_use_srv | apply tp_is_epb_use | apply tp_is_ne_use | apply tp_is_cogen_use | apply tp_is_prod_src].
  Qed.

  Lemma equiv_mk_ctx cr lm : mk_ctx cr lm d = mk_ctx cr lm d'.
  Proof.
    unfold mk_ctx. pose proof (tp_has_carrier cr) as Hc.
    assert (P : prio_of cr (filter (has_carrier cr) d) = prio_of cr (filter (has_carrier cr) d')).
    { unfold prio_of. destruct (priorities cr) as [hp ps]. f_equal.
      induction ps as [|j ps IH]; [reflexivity|]. cbn [forallb]. rewrite IH. f_equal.
      apply equiv_existsb_filter; [apply tp_is_prod_src|assumption]. }
    rewrite P, (equiv_num_steps _ Hc). f_equal.
    - apply filter_ext'. intros j. apply equiv_existsb_filter; [apply tp_is_prod_src|assumption].
    - apply filter_ext'. intros v. apply equiv_existsb_filter; [apply tp_is_epb_use_srv|assumption].
    - unfold steps_of. apply map_ext. intros t. now rewrite equiv_col_at.
  Qed.

  Lemma equiv_avail : avail_carriers d = avail_carriers d'.
  Proof.
    unfold avail_carriers. apply filter_ext'. intros cr. apply (de_ex _ _ _ H).
    apply tp_and; [apply tp_or; [apply tp_or; [apply tp_is_used|apply tp_is_generated]|apply tp_is_aux]|apply tp_has_carrier].
  Qed.

  Lemma equiv_cgn fs : add_cgn_factors fs d = add_cgn_factors fs d'.
  Proof.
    unfold add_cgn_factors, compute_cgn_exp_fP_A.
    assert (N : cgn_num_steps d = cgn_num_steps d') by (apply equiv_num_steps; apply tp_is_cogen_pr).
    assert (C : cgn_fuel_carriers d = cgn_fuel_carriers d').
    { unfold cgn_fuel_carriers. apply filter_ext'. intros cr. apply (de_ex _ _ _ H).
      apply tp_and; [apply tp_is_cogen_use|apply tp_has_carrier]. }
    assert (R : forall cr m, cgn_ratio d cr m = cgn_ratio d' cr m).
    { intros cr m. unfold cgn_ratio, cgn_el_an, cgn_fuel_an.
      assert (E1 : map (colsum is_cogen_pr d) (seq 0 m) = map (colsum is_cogen_pr d') (seq 0 m)).
      { apply map_ext. intros t. apply (de_sum _ _ _ H). apply tp_is_cogen_pr. }
      assert (E2 : map (colsum (fun e => is_cogen_use e && has_carrier cr e) d) (seq 0 m)
                 = map (colsum (fun e => is_cogen_use e && has_carrier cr e) d') (seq 0 m)).
      { apply map_ext. intros t. apply (de_sum _ _ _ H). apply tp_and; [apply tp_is_cogen_use|apply tp_has_carrier]. }
      now rewrite E1, E2. }
    assert (S : forall m crs, cgn_sum fs d m false crs = cgn_sum fs d' m false crs).
    { intros m crs. induction crs as [|cr crs IH]; cbn [cgn_sum andb]; [reflexivity|]. now rewrite IH, R. }
    rewrite N, C. destruct (cgn_num_steps d'); [reflexivity|]. destruct (cgn_fuel_carriers d'); [reflexivity|].
    now rewrite S.
  Qed.

  Lemma equiv_balances fs k lm crs : balances fs k lm d crs = balances fs k lm d' crs.
  Proof.
    induction crs as [|cr crs IH]; cbn [balances]; [reflexivity|]. unfold balance_for_carrier.
    now rewrite equiv_mk_ctx, IH.
  Qed.

  (** same error, or results with the same carrier balances, factors, k and area *)
  Definition ep_same (r r' : res EP) : Prop :=
    match r, r' with
    | Ok e, Ok e' => ep_bal e = ep_bal e' /\ ep_factors e = ep_factors e' /\ ep_k e = ep_k e' /\
                     ep_area e = ep_area e' /\ ep_needs e = ep_needs e'
    | Err a, Err b => a = b
    | _, _ => False
    end.

  Lemma equiv_energy_performance meta nd fs k area lm :
    ep_same (energy_performance (mkComponents meta d nd) fs k area lm)
            (energy_performance (mkComponents meta d' nd) fs k area lm).
  Proof.
    unfold energy_performance. cbn [c_data c_needs]. destruct (qltb area (qfrac 1 1000)); [reflexivity|].
    rewrite equiv_cgn. destruct (add_cgn_factors fs d') as [fs'|e]; cbn [bind]; [|reflexivity].
    rewrite equiv_balances, equiv_avail. destruct (balances fs' k lm d' (avail_carriers d')); cbn [bind ep_same]; [|reflexivity].
    repeat split.
  Qed.
End Equiv.

(** ** Instances *)

(** reordering the components *)
Lemma perm_equiv n d d' : wf n d -> Permutation d d' -> data_equiv n d d'.
Proof.
  intros Hw Hp. constructor.
  - exact Hw.
  - unfold wf in *. rewrite Forall_forall in *. intros e He. apply Hw. eapply Permutation_in; [symmetry|]; eassumption.
  - intros p _ t. unfold colsum. apply qsum_perm. apply Permutation_map.
    clear Hw. induction Hp; cbn [filter]; try (destruct (p x)); try (destruct (p y)); eauto using Permutation.
  - intros p _. clear Hw. induction Hp; cbn [existsb]; try congruence.
    destruct (p x), (p y); reflexivity.
Qed.

(** renaming system ids (the balance never looks at them) *)
Lemma colsum_map_id f p l t : colsum p (map (fun e => e_set_id e (f (e_id e))) l) t = colsum p l t -> True.
Proof. trivial. Qed.

Lemma rename_same_tags e j : same_tags e (e_set_id e j).
Proof. destruct e; cbn; auto. Qed.

Lemma rename_equiv n d (f : Z -> Z) : wf n d -> data_equiv n d (map (fun e => e_set_id e (f (e_id e))) d).
Proof.
  intros Hw. constructor.
  - exact Hw.
  - unfold wf in *. rewrite Forall_forall in *. intros e He. apply in_map_iff in He as (e0 & <- & He0).
    specialize (Hw e0 He0). destruct e0; exact Hw.
  - intros p Hp t. clear Hw. induction d as [|e l IH]; [reflexivity|]. cbn [map].
    unfold colsum in *. cbn [filter]. rewrite <- (Hp e _ (rename_same_tags e (f (e_id e)))).
    destruct (p e); cbn [map]; rewrite ?qsum_cons, IH; [|reflexivity].
    f_equal. destruct e; reflexivity.
  - intros p Hp. clear Hw. induction d as [|e l IH]; [reflexivity|]. cbn [map existsb].
    now rewrite <- (Hp e _ (rename_same_tags e (f (e_id e)))), IH.
Qed.

(** splitting one component into two with the same tags whose values add up *)
Definition vadd (a b : list Qc) : list Qc := map (fun p => fst p + snd p) (combine a b).

Lemma nth_vadd a b t : length a = length b -> nth t (vadd a b) 0 = nth t a 0 + nth t b 0.
Proof.
  revert b t. induction a as [|x a IH]; intros [|y b] t Hl; try discriminate.
  - destruct t; cbn; ring.
  - destruct t; cbn [vadd combine map nth fst snd]; [reflexivity|]. apply IH. now injection Hl.
Qed.

Lemma split_equiv n pre post e v1 v2 i1 i2 :
  wf n (pre ++ e :: post) -> e_vals e = vadd v1 v2 -> length v1 = n -> length v2 = n ->
  let e1 := e_set_id (e_set_vals e v1) i1 in let e2 := e_set_id (e_set_vals e v2) i2 in
  data_equiv n (pre ++ e :: post) (pre ++ e1 :: e2 :: post).
Proof.
  intros Hw Hv H1 H2 e1 e2.
  assert (T1 : same_tags e e1) by (destruct e; cbn; auto).
  assert (T2 : same_tags e e2) by (destruct e; cbn; auto).
  assert (V1 : e_vals e1 = v1) by (destruct e; reflexivity).
  assert (V2 : e_vals e2 = v2) by (destruct e; reflexivity).
  constructor.
  - exact Hw.
  - unfold wf in *. rewrite Forall_forall in *. intros x Hx. apply in_app_iff in Hx as [Hx|[<-|[<-|Hx]]].
    + apply Hw. apply in_app_iff. now left.
    + now rewrite V1. + now rewrite V2.
    + apply Hw. apply in_app_iff. right. now right.
  - intros p Hp t. unfold colsum. rewrite !filter_app, !map_app, !qsum_app. f_equal.
    cbn [filter]. rewrite <- (Hp e e1 T1), <- (Hp e e2 T2). destruct (p e); cbn [map]; rewrite ?qsum_cons; [|reflexivity].
    unfold val_at. rewrite V1, V2, Hv, nth_vadd by congruence. ring.
  - intros p Hp. rewrite !existsb_app. f_equal. cbn [existsb].
    rewrite <- (Hp e e1 T1), <- (Hp e e2 T2). destruct (p e); reflexivity.
Qed.
