(** * A whole components file (what --oc writes) reads back as the same records (C18)

    [show_components] is [Display for Components]; [parse_components] is [FromStr]: lines, metadata lines, data
    lines by kind, demands accumulated, the common-length test, and [normalize] at the end.  Here: everything before
    [normalize] returns the records that were written, values at the written precision — so reading a written file is
    normalising the written records again. *)
From Coq Require Import String List Lia.
From Cteepbd Require Import Base.Num Model.Types Model.Dump Model.Text Model.Parse Model.Components Proofs.RoundTrip.
Import ListNotations. Open Scope list_scope. Open Scope N_scope.

(** ** a record line: at least three clean tokens joined by ", ", then the comment *)
Section Line.
  Variables (a b t : str) (toks : list str) (c : str).
  Hypothesis Ca : clean_tokb a = true.
  Hypothesis Cb : clean_tokb b = true.
  Hypothesis Ct : clean_tokb t = true.
  Hypothesis Cs : Forall (fun x => clean_tokb x = true) toks.
  Hypothesis Cc : clean_cmtb c = true.
  Let L := join [44; 32] (a :: b :: t :: toks) ++ show_comment c.

  Lemma all_clean : Forall (fun x => clean_tokb x = true) (a :: b :: t :: toks).
  Proof. repeat constructor; assumption. Qed.

  Lemma line_edges : edgesb L = true.
  Proof.
    unfold L, show_comment. pose proof (join_edges (a :: b :: t :: toks) ltac:(discriminate) all_clean) as EJ.
    destruct c as [|x m]; [now rewrite app_nil_r|]. apply edges_app_last; [exact EJ|discriminate|].
    change (cs " # " ++ x :: m) with ([32; 35; 32] ++ x :: m). rewrite last_app_ne by discriminate.
    cbn [clean_cmtb] in Cc. apply andb_true_iff in Cc as [_ H]. now apply negb_true_iff in H.
  Qed.

  Lemma line_trim : trim L = L.
  Proof. apply trim_edges, line_edges. Qed.

  Lemma line_two_tags : two_tags L = (a, b).
  Proof.
    unfold L. rewrite !join_cons2. rewrite <- !app_assoc. unfold two_tags.
    rewrite break_app_no by (apply clean_tok_no, Ca).
    change ([44; 32] ++ b ++ [44; 32] ++ join [44; 32] (t :: toks) ++ show_comment c)
      with (44 :: (32 :: b) ++ 44 :: 32 :: join [44; 32] (t :: toks) ++ show_comment c).
    cbn [break_at]. rewrite N.eqb_refl. rewrite app_nil_r.
    assert (N : no 44 (32 :: b) = true) by (cbn [no forallb]; change (32 =? 44) with false; cbn [negb andb]; apply clean_tok_no, Cb).
    rewrite break_app_no by exact N. cbn [break_at]. rewrite N.eqb_refl. rewrite app_nil_r.
    rewrite (trim_edges a (clean_tok_edges a Ca)), (trim_space_front b (clean_tok_edges b Cb)). reflexivity.
  Qed.

  Lemma okc_no10 x : forallb okc x = true -> no 10 x = true.
  Proof.
    apply forallb_imp. intros k H. unfold okc in H. apply andb_true_iff in H as [H _]. apply andb_true_iff in H as [H _].
    apply negb_true_iff in H. destruct (N.eqb_spec k 10) as [->|]; [discriminate H|reflexivity].
  Qed.
  Lemma clean_no10 x : clean_tokb x = true -> no 10 x = true.
  Proof. destruct x; [discriminate|]. apply okc_no10. Qed.

  Lemma line_no10 : no 10 c = true -> no 10 L = true.
  Proof.
    intros Hc. unfold L. rewrite no_app, (show_comment_no10 c Hc), andb_true_r. apply join_no; [reflexivity|].
    eapply Forall_impl; [|exact all_clean]. intros x Hx. now apply clean_no10.
  Qed.

  Lemma line_end : no_cr_end L.
  Proof.
    pose proof line_edges as E. destruct L as [|x m] eqn:EL; [discriminate|]. split; [discriminate|].
    cbn [edgesb] in E. apply andb_true_iff in E as [_ E]. apply negb_true_iff in E. intros K. rewrite K in E. discriminate.
  Qed.

  (** the first character decides the kind of line *)
  Lemma line_kind : (match a with x :: _ => negb (x =? 118) | [] => false end) = true ->
    is_data_line L = true /\ is_meta_line L = false.
  Proof.
    intros Hv. unfold L. rewrite join_cons2. destruct a as [|x m]; [discriminate|].
    assert (H35 : (35 =? x) = false).
    { cbn [clean_tokb forallb] in Ca. apply andb_true_iff in Ca as [O _]. unfold okc in O. apply andb_true_iff in O as [_ O].
      apply negb_true_iff in O. rewrite N.eqb_sym. exact O. }
    apply negb_true_iff in Hv. rewrite N.eqb_sym in Hv.
    unfold is_data_line, is_meta_line.
    change (cs "vector,") with (118 :: [101; 99; 116; 111; 114; 44]). change (cs "#META") with (35 :: [77; 69; 84; 65]).
    change (cs "#CTE_") with (35 :: [67; 84; 69; 95]).
    change (((x :: m) ++ [44; 32] ++ join [44; 32] (b :: t :: toks)) ++ show_comment c)
      with (x :: ((m ++ [44; 32] ++ join [44; 32] (b :: t :: toks)) ++ show_comment c)).
    cbn [starts_with]. rewrite H35, Hv. split; reflexivity.
  Qed.
End Line.

(** ** the lines of a component *)
Definition ctype_of (e : Energy) : CType :=
  match e with EUsed _ _ _ _ _ => CONSUMO | EProd _ _ _ _ => PRODUCCION | EAux _ _ _ _ => CT_AUX | EOut _ _ _ _ => SALIDA end.
Definition tokens_of (e : Energy) : list str :=
  match e with
  | EUsed i cr srv v _ => [sdec i; cs "CONSUMO"; cs (service_name srv); cs (carrier_name cr)] ++ map (fmt_fixed 2) v
  | EProd i src v _ => [sdec i; cs "PRODUCCION"; cs (prodsource_name src)] ++ map (fmt_fixed 2) v
  | EAux i _ v _ => [sdec i; cs "AUX"] ++ map (fmt_fixed 2) v
  | EOut i srv v _ => [sdec i; cs "SALIDA"; cs (service_name srv)] ++ map (fmt_fixed 2) v
  end.

Definition good_energy (e : Energy) : Prop :=
  i32 (e_id e) /\ e_vals e <> [] /\ forallb (finite2 2) (e_vals e) = true /\ clean_cmtb (e_cmt e) = true /\ no 10 (e_cmt e) = true
  /\ match e with EOut _ srv _ _ => srv_is_epb srv = true | _ => True end.

(** what is read back: the same record, values at the written precision; an auxiliary line does not carry its service *)
Definition rt_energy (e : Energy) : Energy :=
  match e with
  | EUsed i cr srv v c => EUsed i cr srv (map (rb 2) v) c
  | EProd i src v c => EProd i src (map (rb 2) v) c
  | EAux i _ v c => EAux i NEPB (map (rb 2) v) c
  | EOut i srv v c => EOut i srv (map (rb 2) v) c
  end.

Lemma show_energy_tokens e : e_vals e <> [] -> show_energy e = join [44; 32] (tokens_of e) ++ show_comment (e_cmt e).
Proof.
  intros Hv. destruct e as [i cr srv v c|i src v c|i srv v c|i srv v c]; cbn [e_vals e_cmt tokens_of] in *;
    (destruct v as [|q v]; [contradiction|]); cbn [map]; rewrite join_app_cons; unfold show_energy; rewrite sp_join_eq; cbn [map];
    rewrite !join_cons2; cbn [join]; rewrite <- !app_assoc; reflexivity.
Qed.

Lemma sdec_head z : exists x m, sdec z = x :: m /\ (x = 45 \/ isdig x = true).
Proof.
  unfold sdec. destruct (z <? 0)%Z; [eexists _, _; split; [reflexivity|now left]|].
  pose proof (udec_isdig (Z.to_N z)) as D. pose proof (udec_ne (Z.to_N z)) as NE.
  destruct (udec (Z.to_N z)) as [|x m]; [contradiction|]. exists x, m. split; [reflexivity|]. right.
  cbn [forallb] in D. now apply andb_true_iff in D as [D _].
Qed.

Lemma parse_ctype_sdec z : parse_ctype (sdec z) = None.
Proof.
  destruct (sdec_head z) as (x & m & -> & Hx).
  assert (K : forall k, 65 <= k -> (k =? x) = false).
  { intros k Hk. destruct (N.eqb_spec k x) as [<-|]; [|reflexivity]. exfalso. destruct Hx as [->|D]; [lia|].
    unfold isdig in D. apply andb_true_iff in D as [_ D]. apply N.leb_le in D. lia. }
  unfold parse_ctype, parse_name. cbn [map find fst snd ctype_name cs bs list_ascii_of_string str_eqb].
  rewrite !K by (intro H; vm_compute in H; discriminate H). reflexivity.
Qed.

Lemma sdec_not_v z : (match sdec z with x :: _ => negb (x =? 118) | [] => false end) = true.
Proof.
  destruct (sdec_head z) as (x & m & -> & Hx). apply negb_true_iff. destruct (N.eqb_spec x 118) as [->|]; [|reflexivity].
  exfalso. destruct Hx as [K|D]; [discriminate K|]. discriminate D.
Qed.

Lemma tokens_shape e : good_energy e ->
  exists t toks, tokens_of e = sdec (e_id e) :: cs (ctype_name (ctype_of e)) :: t :: toks
                 /\ clean_tokb t = true /\ Forall (fun x => clean_tokb x = true) toks.
Proof.
  intros (_ & Hv & _). destruct e as [i cr srv v c|i src v c|i srv v c|i srv v c]; cbn [e_vals tokens_of e_id ctype_of ctype_name app] in *.
  - eexists _, _. split; [reflexivity|]. split; [apply service_clean|]. constructor; [apply carrier_clean|apply values_clean].
  - eexists _, _. split; [reflexivity|]. split; [apply prodsource_clean|apply values_clean].
  - destruct v as [|q v]; [contradiction|]. cbn [map]. eexists _, _. split; [reflexivity|]. split; [apply fmt_fixed_clean|apply values_clean].
  - eexists _, _. split; [reflexivity|]. split; [apply service_clean|apply values_clean].
Qed.

Lemma ctype_name_clean ct : clean_tokb (cs (ctype_name ct)) = true.
Proof. destruct ct; reflexivity. Qed.

Lemma parse_energy_line e : good_energy e ->
  match ctype_of e with
  | CONSUMO => parse_used (show_energy e) | PRODUCCION => parse_prod (show_energy e)
  | CT_AUX => parse_aux (show_energy e) | SALIDA => parse_out (show_energy e) | DEMANDA => PErr ParseError
  end = POk (rt_energy e).
Proof.
  intros (Hi & Hv & Hf & Hc & _ & Hs). destruct e as [i cr srv v c|i src v c|i srv v c|i srv v c]; cbn [e_id e_vals e_cmt ctype_of rt_energy] in *.
  - now apply used_roundtrip. - now apply prod_roundtrip. - now apply aux_roundtrip. - now apply out_roundtrip.
Qed.

Lemma fields_trim' s : fields (trim s) = fields s.  Proof. apply fields_trim. Qed.
Lemma parse_used_trim s : parse_used (trim s) = parse_used s.  Proof. unfold parse_used. now rewrite fields_trim. Qed.
Lemma parse_prod_trim s : parse_prod (trim s) = parse_prod s.  Proof. unfold parse_prod. now rewrite fields_trim. Qed.
Lemma parse_aux_trim s : parse_aux (trim s) = parse_aux s.  Proof. unfold parse_aux. now rewrite fields_trim. Qed.
Lemma parse_out_trim s : parse_out (trim s) = parse_out s.  Proof. unfold parse_out. now rewrite fields_trim. Qed.
Lemma parse_need_trim s : parse_need (trim s) = parse_need s.  Proof. unfold parse_need. now rewrite fields_trim. Qed.

(** the facts about the line of a component *)
Lemma energy_line e : good_energy e ->
  trim (show_energy e) = show_energy e /\ two_tags (show_energy e) = (sdec (e_id e), cs (ctype_name (ctype_of e)))
  /\ no 10 (show_energy e) = true /\ no_cr_end (show_energy e)
  /\ is_data_line (show_energy e) = true /\ is_meta_line (show_energy e) = false.
Proof.
  intros G. pose proof G as (_ & Hv & _ & Hc & H10 & _). destruct (tokens_shape e G) as (t & toks & E & Ct & Cs).
  rewrite (show_energy_tokens e Hv), E.
  pose proof (sdec_clean (e_id e)) as Ca. pose proof (ctype_name_clean (ctype_of e)) as Cb.
  split; [now apply line_trim|]. split; [now apply line_two_tags|]. split; [now apply line_no10|].
  split; [now apply line_end|]. apply line_kind; try assumption. apply sdec_not_v.
Qed.

(** ** the data lines, one after the other *)
Lemma data_lines_energies es : Forall good_energy es -> forall rest acc nd,
  parse_data_lines (map trim (map show_energy es) ++ rest) acc nd = parse_data_lines rest (rev (map rt_energy es) ++ acc) nd.
Proof.
  induction 1 as [|e es G Gs IH]; intros rest acc nd; [reflexivity|].
  cbn [map app parse_data_lines]. destruct (energy_line e G) as (T & TT & _). rewrite T, TT.
  rewrite parse_ctype_sdec. pose proof (parse_energy_line e G) as P.
  destruct e as [i cr srv v c|i src v c|i srv v c|i srv v c]; cbn [ctype_of ctype_name] in *;
    [change (parse_ctype (cs "CONSUMO")) with (Some CONSUMO)|change (parse_ctype (cs "PRODUCCION")) with (Some PRODUCCION)
    |change (parse_ctype (cs "AUX")) with (Some CT_AUX)|change (parse_ctype (cs "SALIDA")) with (Some SALIDA)];
    cbn iota; rewrite P; cbn [pbind]; rewrite IH; cbn [map rev]; rewrite <- app_assoc; reflexivity.
Qed.

(** ** the demand lines *)
Definition need_line (name : string) (v : list Qc) : str := cs "DEMANDA, " ++ cs name ++ cs ", " ++ sp_join v 2.
Definition good_need (o : option (list Qc)) : Prop := match o with Some v => v <> [] /\ forallb (finite2 2) v = true | None => True end.
Definition rt_need (o : option (list Qc)) : option (list Qc) := match o with Some v => Some (map (rb 2) v) | None => None end.
Definition rt_needs (nd : Needs) : Needs := mkNeeds (rt_need (nd_ACS nd)) (rt_need (nd_CAL nd)) (rt_need (nd_REF nd)).
Definition need_lines (nd : Needs) : list str :=
  (match nd_ACS nd with Some v => [need_line "ACS" v] | None => [] end)
  ++ (match nd_CAL nd with Some v => [need_line "CAL" v] | None => [] end)
  ++ (match nd_REF nd with Some v => [need_line "REF" v] | None => [] end).

Lemma need_line_facts srv v : (srv = ACS \/ srv = CAL \/ srv = REF) -> v <> [] -> forallb (finite2 2) v = true ->
  let l := need_line (service_name srv) v in
  trim l = l /\ two_tags l = (cs "DEMANDA", cs (service_name srv)) /\ no 10 l = true /\ no_cr_end l
  /\ is_data_line l = true /\ is_meta_line l = false /\ parse_need l = POk (srv, map (rb 2) v).
Proof.
  intros Hs Hv Hf l. destruct v as [|q v]; [contradiction|].
  assert (E : l = join [44; 32] (cs "DEMANDA" :: cs (service_name srv) :: fmt_fixed 2 q :: map (fmt_fixed 2) v) ++ show_comment []).
  { unfold l, need_line. rewrite sp_join_eq. cbn [map show_comment]. rewrite app_nil_r, !join_cons2. cbn [join]. rewrite <- ?app_assoc. reflexivity. }
  assert (Ca : clean_tokb (cs "DEMANDA") = true) by reflexivity.
  pose proof (service_clean srv) as Cb. pose proof (fmt_fixed_clean 2 q) as Ct. pose proof (values_clean 2 v) as Cs.
  assert (Cc : clean_cmtb [] = true) by reflexivity.
  split; [rewrite E; now apply line_trim|]. split; [rewrite E; now apply line_two_tags|]. split; [rewrite E; now apply line_no10|].
  split; [rewrite E; now apply line_end|].
  destruct (line_kind (cs "DEMANDA") (cs (service_name srv)) (fmt_fixed 2 q) (map (fmt_fixed 2) v) [] Ca ltac:(reflexivity)) as [D M].
  split; [rewrite E; exact D|]. split; [rewrite E; exact M|]. unfold l, need_line. now apply need_roundtrip.
Qed.

Lemma data_lines_needs nd acc : good_need (nd_ACS nd) -> good_need (nd_CAL nd) -> good_need (nd_REF nd) ->
  parse_data_lines (map trim (need_lines nd)) acc (mkNeeds None None None) = POk (rev acc, rt_needs nd).
Proof.
  intros G1 G2 G3. destruct nd as [a b c]. cbn [nd_ACS nd_CAL nd_REF] in *. unfold need_lines, rt_needs. cbn [nd_ACS nd_CAL nd_REF].
  assert (Step : forall srv v rest data nd0, (srv = ACS \/ srv = CAL \/ srv = REF) -> v <> [] -> forallb (finite2 2) v = true ->
            parse_data_lines (trim (need_line (service_name srv) v) :: rest) data nd0
            = dop nd' <- needs_add nd0 srv (map (rb 2) v); parse_data_lines rest data nd').
  { intros srv v rest data nd0 Hs Hv Hf. destruct (need_line_facts srv v Hs Hv Hf) as (T & TT & _ & _ & _ & _ & P).
    cbn [parse_data_lines]. rewrite T, TT. change (parse_ctype (cs "DEMANDA")) with (Some DEMANDA). cbn iota. rewrite P. reflexivity. }
  destruct a as [va|], b as [vb|], c as [vc|]; cbn [map app rt_need];
    repeat match goal with
           | H : good_need (Some _) |- _ => destruct H as [? ?]
           end;
    repeat (first [rewrite (Step ACS) by (try tauto; assumption) | rewrite (Step CAL) by (try tauto; assumption)
                  | rewrite (Step REF) by (try tauto; assumption)]; cbn [needs_add nd_ACS nd_CAL nd_REF pbind]);
    reflexivity.
Qed.

(** ** the whole file *)
Lemma join_snoc_line (l : list str) (x : str) : l <> [] -> join [10] l ++ [10] ++ x = join [10] (l ++ [x]).
Proof. intros H. rewrite join_app_cons. destruct l; [contradiction|]. reflexivity. Qed.

Lemma join_need_line (l : list str) name o rest : l <> [] ->
  join [10] l ++ show_need name o ++ rest
  = join [10] (l ++ match o with Some v => [need_line name v] | None => [] end) ++ rest.
Proof.
  intros H. destruct o as [v|]; [|now rewrite app_nil_r]. unfold show_need. fold (need_line name v).
  rewrite <- (join_snoc_line l (need_line name v) H), <- !app_assoc. reflexivity.
Qed.

Lemma show_components_lines c : c_meta c <> [] -> c_data c <> [] ->
  show_components c = join [10] (map show_meta (c_meta c) ++ map show_energy (c_data c) ++ need_lines (c_needs c)).
Proof.
  intros HA HB. unfold show_components, need_lines.
  set (A := map show_meta (c_meta c)). set (B := map show_energy (c_data c)).
  assert (NA : A <> []) by (unfold A; destruct (c_meta c); [contradiction|discriminate]).
  assert (NB : B <> []) by (unfold B; destruct (c_data c); [contradiction|discriminate]).
  assert (E0 : forall rest, join [10] A ++ [10] ++ join [10] B ++ rest = join [10] (A ++ B) ++ rest).
  { intros rest. destruct B as [|x r]; [contradiction|]. rewrite join_app_cons. destruct A; [contradiction|]. rewrite <- !app_assoc. reflexivity. }
  assert (N0 : A ++ B <> []) by (destruct A; [contradiction|discriminate]).
  rewrite E0.
  rewrite (join_need_line (A ++ B) "ACS") by exact N0.
  set (L1 := (A ++ B) ++ match nd_ACS (c_needs c) with Some v => [need_line "ACS" v] | None => [] end).
  assert (N1 : L1 <> []) by (unfold L1; destruct (A ++ B); [contradiction|discriminate]).
  rewrite (join_need_line L1 "CAL") by exact N1.
  set (L2 := L1 ++ match nd_CAL (c_needs c) with Some v => [need_line "CAL" v] | None => [] end).
  assert (N2 : L2 <> []) by (unfold L2; destruct L1; [contradiction|discriminate]).
  rewrite <- (app_nil_r (show_need "REF" _)). rewrite (join_need_line L2 "REF") by exact N2. rewrite app_nil_r.
  unfold L2, L1. rewrite <- !app_assoc. reflexivity.
Qed.

Lemma rt_energy_len e : length (e_vals (rt_energy e)) = length (e_vals e).
Proof. destruct e; cbn [rt_energy e_vals]; apply map_length. Qed.

Definition good_needs (nd : Needs) : Prop := good_need (nd_ACS nd) /\ good_need (nd_CAL nd) /\ good_need (nd_REF nd).

Lemma need_lines_facts nd : good_needs nd -> forall l, In l (need_lines nd) ->
  no 10 l = true /\ no_cr_end l /\ is_data_line (trim l) = true /\ is_meta_line (trim l) = false.
Proof.
  intros (G1 & G2 & G3) l Hl. unfold need_lines in Hl.
  assert (K : forall srv v, (srv = ACS \/ srv = CAL \/ srv = REF) -> good_need (Some v) ->
              l = need_line (service_name srv) v -> no 10 l = true /\ no_cr_end l /\ is_data_line (trim l) = true /\ is_meta_line (trim l) = false).
  { intros srv v Hs [Hv Hf] ->. destruct (need_line_facts srv v Hs Hv Hf) as (T & _ & N & E & D & M & _). rewrite T. tauto. }
  apply in_app_iff in Hl as [Hl|Hl]; [|apply in_app_iff in Hl as [Hl|Hl]].
  - destruct (nd_ACS nd) as [v|]; [|contradiction]. destruct Hl as [<-|[]]. apply (K ACS v); tauto.
  - destruct (nd_CAL nd) as [v|]; [|contradiction]. destruct Hl as [<-|[]]. apply (K CAL v); tauto.
  - destruct (nd_REF nd) as [v|]; [|contradiction]. destruct Hl as [<-|[]]. apply (K REF v); tauto.
Qed.

(** a components file written by [Display] is read as the records that were written — same metadata, same components
    in the same order with the same ids, tags and comments, same demands, every value at the written precision — and
    these are normalised again *)
Theorem components_file_roundtrip c n :
  c_meta c <> [] -> c_data c <> [] -> Forall good_meta (c_meta c) -> Forall good_energy (c_data c) -> good_needs (c_needs c) ->
  Forall (fun e => length (e_vals e) = n) (c_data c) ->
  parse_components (show_components c)
  = of_res (normalize (mkComponents (c_meta c) (map rt_energy (c_data c)) (rt_needs (c_needs c)))).
Proof.
  intros HA HB GA GB GN W. unfold parse_components. rewrite (show_components_lines c HA HB).
  set (A := map show_meta (c_meta c)). set (B := map show_energy (c_data c)). set (N := need_lines (c_needs c)).
  (* no byte-order mark: the text starts with '#' *)
  assert (SB : strip_bom (join [10] (A ++ B ++ N)) = join [10] (A ++ B ++ N)).
  { unfold A. destruct (c_meta c) as [|m ms]; [contradiction|]. cbn [map app].
    assert (H : exists r, join [10] (show_meta m :: (map show_meta ms ++ B ++ N)) = 35 :: r).
    { destruct (map show_meta ms ++ B ++ N) as [|y r]; [cbn [join]|rewrite join_cons2]; unfold show_meta; eexists; reflexivity. }
    destruct H as (r & ->). reflexivity. }
  rewrite SB.
  assert (GBf : forall e, In e (c_data c) -> good_energy e) by (rewrite Forall_forall in GB; exact GB).
  assert (GAf : forall m, In m (c_meta c) -> good_meta m) by (rewrite Forall_forall in GA; exact GA).
  assert (N10 : Forall (fun t => no 10 t = true) (A ++ B ++ N)).
  { apply Forall_app. split; [|apply Forall_app; split]; apply Forall_forall; intros t Ht.
    - apply in_map_iff in Ht as (y & <- & Hy). apply show_meta_no10, GAf, Hy.
    - apply in_map_iff in Ht as (y & <- & Hy). apply (energy_line y (GBf y Hy)).
    - apply (need_lines_facts _ GN t Ht). }
  assert (LE : Forall no_cr_end (A ++ B ++ N)).
  { apply Forall_app. split; [|apply Forall_app; split]; apply Forall_forall; intros t Ht.
    - apply in_map_iff in Ht as (y & <- & Hy). apply show_meta_line_end, GAf, Hy.
    - apply in_map_iff in Ht as (y & <- & Hy). apply (energy_line y (GBf y Hy)).
    - apply (need_lines_facts _ GN t Ht). }
  assert (LN : lines (join [10] (A ++ B ++ N)) = A ++ B ++ N).
  { unfold lines. assert (NE : A ++ B ++ N <> []) by (unfold A; destruct (c_meta c); [contradiction|discriminate]).
    destruct (A ++ B ++ N) as [|x r] eqn:E; [contradiction|].
    inversion N10 as [|? ? Hx Hr]; subst. rewrite split_join1 by assumption. apply lines_of_id. exact LE. }
  rewrite LN, !map_app, !filter_app.
  assert (KB : forall t, In t (map trim B) -> is_data_line t = true /\ is_meta_line t = false).
  { intros t Ht. apply in_map_iff in Ht as (s & <- & Hs). unfold B in Hs. apply in_map_iff in Hs as (e & <- & He).
    destruct (energy_line e (GBf e He)) as (T & _ & _ & _ & D & M). rewrite T. tauto. }
  assert (KN : forall t, In t (map trim N) -> is_data_line t = true /\ is_meta_line t = false).
  { intros t Ht. apply in_map_iff in Ht as (s & <- & Hs). apply (need_lines_facts _ GN s Hs). }
  assert (KA : forall t, In t (map trim A) -> is_meta_line t = true /\ is_data_line t = false).
  { intros t Ht. apply in_map_iff in Ht as (s & <- & Hs). unfold A in Hs. apply in_map_iff in Hs as (m & <- & _). apply meta_line_kind. }
  rewrite (filter_map_all is_meta_line (map trim A)) by (intros; now apply KA).
  rewrite (filter_map_none is_meta_line (map trim B)) by (intros; now apply KB).
  rewrite (filter_map_none is_meta_line (map trim N)) by (intros; now apply KN).
  rewrite (filter_map_none is_data_line (map trim A)) by (intros; now apply KA).
  rewrite (filter_map_all is_data_line (map trim B)) by (intros; now apply KB).
  rewrite (filter_map_all is_data_line (map trim N)) by (intros; now apply KN).
  rewrite !app_nil_r. cbn [app]. unfold A. rewrite map_map, pmap_map.
  rewrite (pmap_ok _ (fun m => m)).
  2:{ intros m Hm. rewrite parse_meta_trim. destruct (GAf m Hm) as (K & V & _). apply meta_roundtrip; assumption. }
  cbn [pbind]. rewrite map_id. unfold B.
  rewrite (data_lines_energies (c_data c) GB). rewrite app_nil_r.
  destruct GN as (G1 & G2 & G3). unfold N. rewrite (data_lines_needs (c_needs c) _ G1 G2 G3). cbn [pbind]. rewrite rev_involutive.
  (* the common length *)
  set (data' := map rt_energy (c_data c)).
  assert (U : forallb (fun e => (length (e_vals e) =? match data' with e0 :: _ => length (e_vals e0) | [] => 12%nat end)%nat) data' = true).
  { assert (Wd : forall e, In e data' -> length (e_vals e) = n).
    { intros e He. unfold data' in He. apply in_map_iff in He as (e0 & <- & H0). rewrite rt_energy_len. rewrite Forall_forall in W. now apply W. }
    apply forallb_forall. intros e He. apply Nat.eqb_eq. destruct data' as [|e0 r] eqn:ED; [contradiction|].
    rewrite (Wd e He), (Wd e0 (or_introl eq_refl)). reflexivity. }
  rewrite U. reflexivity.
Qed.

(** ** a decider for the hypotheses (used by the check to see on which written files the theorem speaks) *)
Definition i32b (z : Z) : bool := ((-2147483648 <=? z) && (z <=? 2147483647))%Z.
Definition good_metab (m : Meta) : bool := clean_key (m_key m) && clean_cmtb (m_value m) && no 10 (m_key m) && no 10 (m_value m).
Definition good_energyb (e : Energy) : bool :=
  i32b (e_id e) && negb (match e_vals e with [] => true | _ => false end) && forallb (finite2 2) (e_vals e)
  && clean_cmtb (e_cmt e) && no 10 (e_cmt e) && match e with EOut _ srv _ _ => srv_is_epb srv | _ => true end.
Definition good_needb (o : option (list Qc)) : bool :=
  match o with Some v => negb (match v with [] => true | _ => false end) && forallb (finite2 2) v | None => true end.
Definition file_hypb (c : Components) : bool :=
  negb (match c_meta c with [] => true | _ => false end) && negb (match c_data c with [] => true | _ => false end)
  && forallb good_metab (c_meta c) && forallb good_energyb (c_data c)
  && good_needb (nd_ACS (c_needs c)) && good_needb (nd_CAL (c_needs c)) && good_needb (nd_REF (c_needs c))
  && forallb (fun e => (length (e_vals e) =? match c_data c with e0 :: _ => length (e_vals e0) | [] => 0%nat end)%nat) (c_data c).

Lemma good_needb_ok o : good_needb o = true -> good_need o.
Proof. destruct o as [v|]; [|intros _; exact I]. cbn. intros H. apply andb_true_iff in H as [H1 H2]. split; [|exact H2]. destruct v; [discriminate H1|discriminate]. Qed.

Theorem components_file_roundtrip_b c : file_hypb c = true ->
  parse_components (show_components c)
  = of_res (normalize (mkComponents (c_meta c) (map rt_energy (c_data c)) (rt_needs (c_needs c)))).
Proof.
  unfold file_hypb. intros H. repeat (apply andb_true_iff in H as [H ?]).
  apply (components_file_roundtrip c (match c_data c with e0 :: _ => length (e_vals e0) | [] => 0%nat end)).
  - destruct (c_meta c); [cbn in *; discriminate|discriminate].
  - destruct (c_data c); [cbn in *; discriminate|discriminate].
  - apply Forall_forall. intros m Hm. match goal with K : forallb good_metab _ = true |- _ => rewrite forallb_forall in K; specialize (K m Hm) end.
    unfold good_metab in *. repeat match goal with K : _ && _ = true |- _ => apply andb_true_iff in K as [K ?] end. repeat split; assumption.
  - apply Forall_forall. intros e He. match goal with K : forallb good_energyb _ = true |- _ => rewrite forallb_forall in K; specialize (K e He) end.
    unfold good_energyb in *. repeat match goal with K : _ && _ = true |- _ => apply andb_true_iff in K as [K ?] end.
    repeat split; try assumption.
    + match goal with K : i32b _ = true |- _ => unfold i32b in K; apply andb_true_iff in K as [K1 K2]; apply Z.leb_le in K1, K2 end. lia.
    + match goal with K : i32b _ = true |- _ => unfold i32b in K; apply andb_true_iff in K as [K1 K2]; apply Z.leb_le in K1, K2 end. lia.
    + destruct (e_vals e); [cbn in *; discriminate|discriminate].
    + destruct e; try exact I. assumption.
  - repeat split; apply good_needb_ok; assumption.
  - apply Forall_forall. intros e He. match goal with K : forallb (fun _ => (_ =? _)%nat) _ = true |- _ => rewrite forallb_forall in K; specialize (K e He) end.
    now apply Nat.eqb_eq.
Qed.
