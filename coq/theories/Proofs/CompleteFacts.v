(** * A prepared factor set is complete: no building over its carriers hits a missing factor (C07) *)
From Cteepbd Require Import Model.Factors Proofs.StepFacts Proofs.ColFacts Proofs.EpFacts Proofs.Breakdown
  Proofs.FactorFacts Proofs.NeededKeys Proofs.CtxFacts Proofs.Refine Proofs.DataEquiv Proofs.StripFacts.
Open Scope Qc_scope.

Lemma ensure_defines fs k v c : lookk (ensure_wfactor fs k v c) k <> None.
Proof. rewrite lookk_ensure. destruct (lookk fs k); [discriminate|]. destruct (fkey_eqb_spec k k); [discriminate|congruence]. Qed.

Lemma ensure_keeps_defined fs k v c k' : lookk fs k' <> None -> lookk (ensure_wfactor fs k v c) k' <> None.
Proof. rewrite lookk_ensure. destruct (lookk fs k'); [discriminate|congruence]. Qed.

Lemma ensure_exports_keeps_defined wf cs fs fs' k : ensure_exports wf fs cs = Ok fs' -> lookk fs k <> None -> lookk fs' k <> None.
Proof.
  intros H L. destruct (lookk fs k) as [x|] eqn:E; [|congruence]. rewrite (ensure_exports_keeps wf cs fs fs' k x H E). discriminate.
Qed.

(** every (c, s) of the list whose supply factor is defined gets its four export keys, when the carrier has a grid factor *)
Lemma ensure_exports_defines wf cs : forall fs fs' c s dest step,
  ensure_exports wf fs cs = Ok fs' -> In (c, s) cs -> lookk fs (c, s, SUMINISTRO, STEP_A) <> None ->
  lookk fs (grid_key c) <> None ->
  dest <> SUMINISTRO -> lookk fs' (c, s, dest, step) <> None.
Proof.
  induction cs as [|[c0 s0] cs IH]; intros fs fs' c s dest step H Hin Hs Hg Hd; [contradiction|].
  cbn [ensure_exports] in H.
  set (fs1 := match lookk fs (c0, s0, SUMINISTRO, STEP_A) with Some v => _ | None => fs end) in *.
  assert (K1 : forall k0, lookk fs k0 <> None -> lookk fs1 k0 <> None).
  { intros k0 H0. unfold fs1. destruct (lookk fs (c0, s0, SUMINISTRO, STEP_A)); [apply ensure_keeps_defined, ensure_keeps_defined|]; exact H0. }
  destruct (lookk fs1 (grid_key c0)) as [g|] eqn:G.
  - set (fs2 := ensure_wfactor (ensure_wfactor fs1 (c0, s0, A_RED, STEP_B) g []) (c0, s0, A_NEPB, STEP_B) g []) in *.
    destruct Hin as [E|Hin].
    + injection E as -> ->. eapply ensure_exports_keeps_defined; [exact H|].
      destruct (lookk fs (c, s, SUMINISTRO, STEP_A)) as [v|] eqn:S; [|congruence].
      destruct dest; [congruence| |]; destruct step; unfold fs2, fs1;
        repeat first [apply ensure_defines | apply ensure_keeps_defined].
    + eapply IH; [exact H|exact Hin| | |exact Hd]; unfold fs2; apply ensure_keeps_defined, ensure_keeps_defined, K1; assumption.
  - destruct (existsb (Carrier_beq c0) wf); [discriminate|].
    destruct Hin as [E|Hin].
    + injection E as -> ->. exfalso. apply (K1 _ Hg). exact G.
    + eapply IH; [exact H|exact Hin| | |exact Hd]; apply K1; assumption.
Qed.

(** supply keys are not touched by ensure_exports *)
Lemma ensure_exports_supply wf cs : forall fs fs' c s st,
  ensure_exports wf fs cs = Ok fs' -> lookk fs' (c, s, SUMINISTRO, st) = lookk fs (c, s, SUMINISTRO, st).
Proof.
  induction cs as [|[c0 s0] cs IH]; intros fs fs' c s st H; cbn [ensure_exports] in H; [now injection H as <-|].
  set (fs1 := match lookk fs (c0, s0, SUMINISTRO, STEP_A) with Some v => _ | None => fs end) in *.
  assert (N : forall c1 s1 d1 st1, d1 <> SUMINISTRO -> fkey_eqb (c1, s1, d1, st1) (c, s, SUMINISTRO, st) = false).
  { intros c1 s1 d1 st1 Hd. destruct (fkey_eqb_spec (c1, s1, d1, st1) (c, s, SUMINISTRO, st)) as [E|]; [|reflexivity]. injection E as _ _ E _. congruence. }
  assert (E1 : lookk fs1 (c, s, SUMINISTRO, st) = lookk fs (c, s, SUMINISTRO, st)).
  { unfold fs1. destruct (lookk fs (c0, s0, SUMINISTRO, STEP_A)); [|reflexivity].
    rewrite !lookk_ensure, !N by discriminate. destruct (lookk fs (c, s, SUMINISTRO, st)); reflexivity. }
  destruct (lookk fs1 (grid_key c0)) as [g|].
  - rewrite (IH _ _ c s st H), !lookk_ensure, !N by discriminate. rewrite E1. destruct (lookk fs (c, s, SUMINISTRO, st)); reflexivity.
  - destruct (existsb (Carrier_beq c0) wf); [discriminate|]. rewrite (IH _ _ c s st H). exact E1.
Qed.

Lemma in_carriers_of fs c : In c (carriers_of fs) <-> exists f, In f fs /\ f_cr f = c.
Proof.
  unfold carriers_of. rewrite filter_In, existsb_exists. split.
  - intros [_ (f & Hf & E)]. exists f. split; [exact Hf|]. now apply Carrier_beq_eq.
  - intros (f & Hf & E). split; [apply all_carriers_complete|]. exists f. split; [exact Hf|]. now apply Carrier_beq_eq.
Qed.

Lemma lookk_defined_carrier fs c s d st : lookk fs (c, s, d, st) <> None -> In c (carriers_of fs).
Proof.
  intros H. destruct (lookk fs (c, s, d, st)) eqn:L; [|congruence]. unfold lookk, look in L.
  destruct (find (fmatches c s d st) fs) as [f|] eqn:F; [|discriminate]. apply find_some in F as [Hf M].
  apply in_carriers_of. exists f. split; [exact Hf|]. unfold fmatches in M.
  apply andb_true_iff in M as [M _]. apply andb_true_iff in M as [M _]. apply andb_true_iff in M as [M _].
  now apply Carrier_beq_eq.
Qed.

Section Complete.
  Variables (fs fs' : list Factor) (d1 d2 : RNC).
  Hypothesis Hnorm : normalize_factors fs d1 d2 = Ok fs'.

  Lemma norm_parts : exists fs2, ensure_exports (carriers_of fs) (forced_updates fs) exp_carriers = Ok fs2 /\
    fs' = ensure_wfactor (ensure_wfactor fs2 K_RED1 d1 []) K_RED2 d2 [].
  Proof.
    pose proof Hnorm as H. rewrite normalize_unfold in H. cbv zeta in H. destruct (negb _); [discriminate|].
    destruct (ensure_exports (carriers_of fs) (forced_updates fs) exp_carriers) as [fs2|]; cbn [bind] in H; [|discriminate].
    injection H as <-. eauto.
  Qed.

  (** the grid factor of electricity is the supplied one: a set that says nothing about electricity stays so *)
  Lemma el_grid_same : lookk fs' (grid_key ELECTRICIDAD) = lookk fs (grid_key ELECTRICIDAD).
  Proof.
    destruct norm_parts as (fs2 & E & ->). rewrite !lookk_ensure.
    unfold grid_key. rewrite (ensure_exports_supply _ _ _ _ ELECTRICIDAD RED STEP_A E).
    rewrite forced_updates_other by (cbn; intuition discriminate).
    destruct (lookk fs (ELECTRICIDAD, RED, SUMINISTRO, STEP_A)); reflexivity.
  Qed.

  Lemma el_in_carriers : lookk fs' (grid_key ELECTRICIDAD) <> None -> existsb (Carrier_beq ELECTRICIDAD) (carriers_of fs) = true.
  Proof.
    rewrite el_grid_same. intros H. apply existsb_exists. exists ELECTRICIDAD. split; [|reflexivity].
    exact (lookk_defined_carrier fs _ _ _ _ H).
  Qed.

  Lemma insitu_supply_forced c : In (c, INSITU) exp_carriers -> lookk fs' (grid_key c) <> None ->
    lookk (forced_updates fs) (c, INSITU, SUMINISTRO, STEP_A) = Some one.
  Proof.
    intros H G. cbn in H. destruct H as [E|[E|[E|[]]]]; injection E as <-.
    - unfold forced_updates. rewrite (el_in_carriers G), lookk_update. reflexivity.
    - apply forced_updates_forced. cbn. tauto.
    - apply forced_updates_forced. cbn. tauto.
  Qed.

  Lemma insitu_supply_defined c : In (c, INSITU) exp_carriers -> lookk fs' (grid_key c) <> None ->
    lookk fs' (c, INSITU, SUMINISTRO, STEP_A) <> None.
  Proof.
    intros H G. destruct norm_parts as (fs2 & E & Efs). rewrite Efs. apply ensure_keeps_defined, ensure_keeps_defined.
    eapply ensure_exports_keeps_defined; [exact E|]. rewrite insitu_supply_forced by assumption. discriminate.
  Qed.

  Lemma grid_forced c : lookk fs' (grid_key c) <> None -> In (c, INSITU) exp_carriers -> lookk (forced_updates fs) (grid_key c) <> None.
  Proof.
    intros G H. destruct norm_parts as (fs2 & E & Efs). rewrite Efs in G. rewrite !lookk_ensure in G. unfold grid_key in *.
    rewrite (ensure_exports_supply _ _ _ _ c RED STEP_A E) in G.
    destruct (lookk (forced_updates fs) (c, RED, SUMINISTRO, STEP_A)); [discriminate|].
    exfalso. cbn in H. destruct H as [Q|[Q|[Q|[]]]]; injection Q as <-; cbn in G; congruence.
  Qed.

  Lemma insitu_export_defined c dest step : In (c, INSITU) exp_carriers -> lookk fs' (grid_key c) <> None -> dest <> SUMINISTRO ->
    lookk fs' (c, INSITU, dest, step) <> None.
  Proof.
    intros H G Hd. destruct norm_parts as (fs2 & E & Efs). rewrite Efs. apply ensure_keeps_defined, ensure_keeps_defined.
    eapply ensure_exports_defines; [exact E|exact H| |apply grid_forced; assumption|exact Hd]. rewrite insitu_supply_forced by assumption. discriminate.
  Qed.
End Complete.

(** a declared on-site source puts its carrier in the exporting carriers *)
Lemma onsite_src_exp j : ps_source j = INSITU -> In (ps_carrier j, INSITU) exp_carriers.
Proof. destruct j; try discriminate; cbn; tauto. Qed.

Lemma lookk_app_defined fs extra k : lookk fs k <> None -> lookk (fs ++ extra) k <> None.
Proof. rewrite lookk_app. destruct (lookk fs k); [discriminate|congruence]. Qed.

Definition cgn_extra (fa g : RNC) : list Factor :=
  [mkf ELECTRICIDAD SRC_COGEN SUMINISTRO STEP_A fa; mkf ELECTRICIDAD SRC_COGEN A_NEPB STEP_A fa;
   mkf ELECTRICIDAD SRC_COGEN A_RED STEP_A fa; mkf ELECTRICIDAD SRC_COGEN A_NEPB STEP_B g;
   mkf ELECTRICIDAD SRC_COGEN A_RED STEP_B g].

Lemma cgn_extra_defines fs fa g dest step : dest <> SUMINISTRO ->
  lookk (fs ++ cgn_extra fa g) (ELECTRICIDAD, SRC_COGEN, dest, step) <> None.
Proof.
  intros Hd. rewrite lookk_app. destruct (lookk fs _); [discriminate|].
  destruct dest; [congruence| |]; destruct step; cbn; discriminate.
Qed.

Lemma cgn_sum_defined fs data n crs : (forall c, In c crs -> lookk fs (grid_key c) <> None) ->
  exists r, cgn_sum fs data n false crs = Ok r.
Proof.
  induction crs as [|c crs IH]; intros H; cbn [cgn_sum andb]; [eauto|].
  rewrite findf_lookk. change (c, RED, SUMINISTRO, STEP_A) with (grid_key c).
  destruct (lookk fs (grid_key c)) eqn:L; [|exfalso; apply (H c); [now left|exact L]]. cbn [bind].
  destruct IH as [r' ->]; [intros; apply H; now right|]. cbn [bind]. eauto.
Qed.

(** no steps, no export *)
Lemma no_steps_no_export cr lm data : num_steps_of (filter (has_carrier cr) data) = 0%nat ->
  a_exp_ne (mk_ctx cr lm data) + a_exp_grid (mk_ctx cr lm data) = 0.
Proof.
  intros H. unfold a_exp_ne, a_exp_grid, ann, vec, mk_ctx. cbn [cx_steps]. rewrite H. cbn. ring.
Qed.

Theorem prepared_set_complete fs fs' d1 d2 c k area lm n :
  normalize_factors fs d1 d2 = Ok fs' ->
  wf n (c_data c) ->
  (forall cr, In cr (avail_carriers (c_data c)) -> lookk fs' (grid_key cr) <> None) ->
  energy_performance c fs' k area lm <> Err MissingFactor.
Proof.
  intros Hnorm Hwf Hgrid. unfold energy_performance. destruct (qltb area (qfrac 1 1000)); [discriminate|].
  set (data := c_data c) in *.
  (* the factor set after add_cgn_factors: fs' itself, or fs' plus the five cogeneration factors *)
  assert (Hcg : (exists fs1, add_cgn_factors fs' data = Ok fs1 /\
                   (fs1 = fs' /\ cgn_num_steps data = 0%nat \/ exists fa g, fs1 = fs' ++ cgn_extra fa g))
                \/ add_cgn_factors fs' data = Err WrongInput).
  { unfold add_cgn_factors, compute_cgn_exp_fP_A. destruct (cgn_num_steps data) as [|m] eqn:N.
    - left. exists fs'. cbn [bind]. split; [reflexivity|]. now left.
    - destruct (cgn_fuel_carriers data) as [|c0 cs] eqn:C; [now right|].
      destruct (cgn_sum_defined fs' data (S m) (c0 :: cs)) as [r ->].
      { intros c1 H1. apply Hgrid, fuel_avail. now rewrite C. }
      cbn [bind]. rewrite findf_lookk. change (ELECTRICIDAD, RED, SUMINISTRO, STEP_A) with (grid_key ELECTRICIDAD).
      destruct (lookk fs' (grid_key ELECTRICIDAD)) as [g|] eqn:G.
      + cbn [bind]. left. eexists. split; [reflexivity|]. right. exists r, g. reflexivity.
      + exfalso. apply (Hgrid ELECTRICIDAD); [|exact G]. apply cogen_el_avail. congruence. }
  destruct Hcg as [(fs1 & Ecg & Hfs1)|Ecg]; rewrite Ecg; [|discriminate]. cbn [bind].
  assert (B : forall crs, (forall cr, In cr crs -> In cr (avail_carriers data)) ->
              exists bs, balances fs1 k lm data crs = Ok bs).
  { induction crs as [|cr crs IH]; intros Hc; cbn [balances]; [eauto|].
    unfold balance_for_carrier.
    destruct (weighted_parts_defined fs1 (mk_ctx cr lm data)) as [p ->].
    { intros key Hk.
      assert (Hdef : forall k0, lookk fs' k0 <> None -> lookk fs1 k0 <> None).
      { intros k0 H0. destruct Hfs1 as [[-> _]|(fa & g & ->)]; [exact H0|now apply lookk_app_defined]. }
      unfold needed in Hk. cbn [app In] in Hk. change (cx_cr (mk_ctx cr lm data)) with cr in Hk.
      destruct Hk as [<-|Hk]; [apply Hdef, (Hgrid cr), Hc; now left|].
      apply in_app_iff in Hk as [Hk|Hk].
      - destruct (qeqb (a_del_onst (mk_ctx cr lm data)) 0) eqn:D; [contradiction|]. destruct Hk as [<-|[]].
        apply Hdef.
        (* some on-site source of this carrier is declared *)
        assert (Hj : exists j, ps_carrier j = cr /\ ps_source j = INSITU).
        { destruct (Carrier_eq_dec cr ELECTRICIDAD) as [->|N1]; [exists EL_INSITU; split; reflexivity|].
          destruct (Carrier_eq_dec cr TERMOSOLAR) as [->|N2]; [exists PS_TERMOSOLAR; split; reflexivity|].
          destruct (Carrier_eq_dec cr EAMBIENTE) as [->|N3]; [exists PS_EAMBIENTE; split; reflexivity|].
          exfalso. assert (Z : a_del_onst (mk_ctx cr lm data) = 0).
          { apply del_onst_zero. intros j Hcj _. destruct j; cbn in Hcj; congruence. }
          rewrite Z in D. destruct (qeqb_spec 0 0); [discriminate|congruence]. }
        destruct Hj as (j & <- & Hs). apply (insitu_supply_defined fs fs' d1 d2 Hnorm); [now apply onsite_src_exp|]. apply Hgrid, Hc. now left.
      - destruct (qeqb (a_exp_ne (mk_ctx cr lm data) + a_exp_grid (mk_ctx cr lm data)) 0) eqn:EA; [contradiction|].
        apply in_flat_map in Hk as (j & Hj & Hk). destruct (srcs_carrier cr lm data j Hj) as [Hcj Hex].
        assert (Hd : exists dest step, key = (cr, ps_source j, dest, step) /\ dest <> SUMINISTRO).
        { unfold export_keys in Hk. change (cx_cr (mk_ctx cr lm data)) with cr in Hk. apply in_app_iff in Hk as [Hk|Hk].
          - destruct (qeqb (a_exp_ne (mk_ctx cr lm data)) 0); [contradiction|]. destruct Hk as [<-|[<-|[]]]; eexists _, _; split; try reflexivity; discriminate.
          - destruct (qeqb (a_exp_grid (mk_ctx cr lm data)) 0); [contradiction|]. destruct Hk as [<-|[<-|[]]]; eexists _, _; split; try reflexivity; discriminate. }
        destruct Hd as (dest & step & -> & Hd).
        destruct (Source_eq_dec (ps_source j) INSITU) as [Hs|Hs].
        + rewrite Hs, <- Hcj. apply Hdef. apply (insitu_export_defined fs fs' d1 d2 Hnorm); [now apply onsite_src_exp| |exact Hd]. rewrite Hcj. apply Hgrid, Hc. now left.
        + assert (j = EL_COGEN) by (destruct j; cbn in Hs; congruence). subst j. cbn in Hcj. subst cr. cbn [ps_source].
          destruct Hfs1 as [[-> N0]|(fa & g & ->)]; [|now apply cgn_extra_defines].
          (* no cogeneration factors were added: the cogenerated production has no steps, hence no export *)
          exfalso. assert (Z : num_steps_of (filter (has_carrier ELECTRICIDAD) data) = 0%nat).
          { rewrite (num_steps_filter n _ data Hwf). unfold cgn_num_steps in N0. rewrite (num_steps_filter n _ data Hwf) in N0.
            assert (E1 : existsb is_cogen_pr data = true).
            { eapply existsb_imp; [|exact Hex]. intros e Pe. destruct e; try discriminate. exact Pe. }
            rewrite E1 in N0. subst n. destruct (existsb (has_carrier ELECTRICIDAD) data); reflexivity. }
          rewrite (no_steps_no_export ELECTRICIDAD lm data Z) in EA. destruct (qeqb_spec 0 0); [discriminate|congruence]. }
    cbn [bind]. destruct IH as [bs ->]; [intros; apply Hc; now right|]. cbn [bind]. eauto. }
  destruct (B (avail_carriers data)) as [bs ->]; [auto|]. cbn [bind]. discriminate.
Qed.
