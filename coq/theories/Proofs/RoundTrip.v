(** * Writing a record and reading it back *)
From Coq Require Import String List NArith ZArith QArith Qcanon Bool Lia.
From Cteepbd Require Import Base.Num Model.Types Model.Components Model.Dump Model.Text Model.Parse
  Proofs.TextFacts Proofs.ParseFacts.
Import ListNotations.
Open Scope list_scope. Open Scope N_scope.

(** ** tokens and comments as the writers produce them *)
Definition okc (c : N) : bool := negb (is_ws c) && negb (c =? 44) && negb (c =? 35).
Definition clean_tokb (t : str) : bool := match t with [] => false | _ => forallb okc t end.
(** a comment as the readers store it: trimmed *)
Definition clean_cmtb (c : str) : bool :=
  match c with [] => true | a :: _ => negb (is_ws a) && negb (is_ws (last c 0)) end.
Definition edgesb (s : str) : bool := match s with [] => false | a :: _ => negb (is_ws a) && negb (is_ws (last s 0)) end.

Lemma last_app_ne {A} (a b : list A) d : b <> [] -> last (a ++ b) d = last b d.
Proof.
  intros Hb. destruct (exists_last Hb) as (b' & z & ->). rewrite app_assoc, !last_last. reflexivity.
Qed.

Lemma trim_end_last l a : is_ws a = false -> trim_end (l ++ [a]) = l ++ [a].
Proof. intros H. unfold trim_end. rewrite rev_app_distr. cbn [rev app]. rewrite trim_start_nonws by exact H. cbn [rev]. rewrite rev_involutive. reflexivity. Qed.

Lemma trim_edges s : edgesb s = true -> trim s = s.
Proof.
  destruct s as [|a m]; [discriminate|]. cbn [edgesb]. intros H. apply andb_true_iff in H as [Ha Hl].
  apply negb_true_iff in Ha. apply negb_true_iff in Hl.
  unfold trim. rewrite trim_start_nonws by exact Ha.
  destruct (exists_last (l := a :: m)) as (l & z & E); [discriminate|]. rewrite E in *.
  rewrite last_app_ne in Hl by discriminate. cbn in Hl. apply trim_end_last, Hl.
Qed.

Lemma trim_space_front s : edgesb s = true -> trim (32 :: s) = s.
Proof. intros H. unfold trim. cbn [trim_start]. change (is_ws 32) with true. cbn iota. apply trim_edges, H. Qed.

Lemma trim_space_back s : edgesb s = true -> trim (s ++ [32]) = s.
Proof.
  intros H. pose proof (trim_edges s H) as T. unfold trim in *.
  destruct s as [|a m]; [discriminate|]. cbn [edgesb] in H. apply andb_true_iff in H as [Ha _]. apply negb_true_iff in Ha.
  cbn [app]. rewrite trim_start_nonws in * by exact Ha.
  change (a :: m ++ [32]) with ((a :: m) ++ [32]). unfold trim_end in *. rewrite rev_app_distr. cbn [rev app trim_start].
  change (is_ws 32) with true. cbn iota. exact T.
Qed.

Lemma clean_tok_edges t : clean_tokb t = true -> edgesb t = true.
Proof.
  destruct t as [|a m]; [discriminate|]. cbn [clean_tokb edgesb]. intros H.
  assert (A : forall c, In c (a :: m) -> is_ws c = false).
  { intros c Hc. rewrite forallb_forall in H. specialize (H c Hc). unfold okc in H.
    apply andb_true_iff in H as [H _]. apply andb_true_iff in H as [H _]. now apply negb_true_iff in H. }
  rewrite (A a) by now left. destruct (exists_last (l := a :: m)) as (l & z & E); [discriminate|].
  rewrite E. rewrite last_app_ne by discriminate. cbn. rewrite (A z); [reflexivity|]. rewrite E. apply in_or_app. right. now left.
Qed.

(** ** joining and splitting *)
Lemma join_cons2 {sep : str} x y r : join sep (x :: y :: r) = x ++ sep ++ join sep (y :: r).
Proof. reflexivity. Qed.

Lemma join_cons_head sep c y r : c :: join sep (y :: r) = join sep ((c :: y) :: r).
Proof. destruct r; reflexivity. Qed.

Definition no (c : N) (s : str) : bool := forallb (fun x => negb (x =? c)) s.

Lemma split_no c s : no c s = true -> split_on c s = [s].
Proof.
  induction s as [|x s IH]; [reflexivity|]. cbn [no forallb]. intros H. apply andb_true_iff in H as [Hx Hs].
  cbn [split_on]. apply negb_true_iff in Hx. rewrite Hx, (IH Hs). reflexivity.
Qed.

Lemma split_app_no c a r : no c a = true ->
  split_on c (a ++ r) = match split_on c r with p :: ps => (a ++ p) :: ps | [] => [a] end.
Proof.
  induction a as [|x a IH]; intros H.
  - cbn [app]. destruct (split_on c r) eqn:E; [|reflexivity]. destruct r; cbn in E; [discriminate|].
    destruct (n =? c); [discriminate|]. destruct (split_on c r); discriminate.
  - cbn [no forallb] in H. apply andb_true_iff in H as [Hx Ha]. apply negb_true_iff in Hx.
    cbn [app split_on]. rewrite Hx, (IH Ha). destruct (split_on c r); reflexivity.
Qed.

Lemma split_on_hit c r : split_on c (c :: r) = [] :: split_on c r.
Proof. cbn [split_on]. rewrite N.eqb_refl. reflexivity. Qed.

Lemma split_join toks : forall x, no 44 x = true -> Forall (fun t => no 44 t = true) toks ->
  split_on 44 (join [44; 32] (x :: toks)) = x :: map (cons 32) toks.
Proof.
  induction toks as [|y r IH]; intros x Hx Ht.
  - cbn [join map]. apply split_no, Hx.
  - rewrite join_cons2. rewrite split_app_no by exact Hx.
    change ([44; 32] ++ join [44; 32] (y :: r)) with (44 :: (32 :: join [44; 32] (y :: r))).
    rewrite split_on_hit, join_cons_head. inversion Ht as [|? ? Hy Hr]; subst. rewrite IH; [|cbn; exact Hy|exact Hr].
    rewrite app_nil_r. reflexivity.
Qed.

Lemma break_app_no c a r : no c a = true ->
  break_at c (a ++ r) = (let (x, y) := break_at c r in (a ++ x, y)).
Proof.
  induction a as [|x a IH]; intros H.
  - cbn [app]. destruct (break_at c r); reflexivity.
  - cbn [no forallb] in H. apply andb_true_iff in H as [Hx Ha]. apply negb_true_iff in Hx.
    cbn [app break_at]. rewrite Hx, (IH Ha). destruct (break_at c r); reflexivity.
Qed.

Lemma okc_no t : forallb okc t = true -> no 44 t = true /\ no 35 t = true.
Proof.
  intros H. unfold no. split; apply forallb_forall; intros c Hc; rewrite forallb_forall in H; specialize (H c Hc);
    unfold okc in H; apply andb_true_iff in H as [H H35]; apply andb_true_iff in H as [_ H44]; assumption.
Qed.

Lemma clean_tok_no t : clean_tokb t = true -> no 44 t = true /\ no 35 t = true.
Proof. destruct t; [discriminate|]. apply okc_no. Qed.

Lemma no_app c a b : no c (a ++ b) = no c a && no c b.
Proof. apply forallb_app. Qed.

Lemma join_no c sep toks : no c sep = true -> Forall (fun t => no c t = true) toks -> no c (join sep toks) = true.
Proof.
  intros Hs Ht. induction Ht as [|x l Hx Hl IH]; [reflexivity|]. destruct l as [|y l]; [exact Hx|].
  rewrite join_cons2, !no_app. apply andb_true_iff. split; [exact Hx|]. apply andb_true_iff. split; [exact Hs|exact IH].
Qed.

Lemma join_edges toks : toks <> [] -> Forall (fun t => clean_tokb t = true) toks -> edgesb (join [44; 32] toks) = true.
Proof.
  intros Hn Ht. induction Ht as [|x l Hx Hl IH]; [contradiction|]. destruct l as [|y l]; [apply clean_tok_edges, Hx|].
  rewrite join_cons2. specialize (IH ltac:(discriminate)).
  pose proof (clean_tok_edges x Hx) as Ex. destruct x as [|a m]; [discriminate|].
  cbn [edgesb] in Ex. apply andb_true_iff in Ex as [Ea _].
  change ((a :: m) ++ [44; 32] ++ join [44; 32] (y :: l)) with (a :: (m ++ [44; 32] ++ join [44; 32] (y :: l))).
  cbn [edgesb]. rewrite Ea. cbn [andb].
  change (a :: m ++ [44; 32] ++ join [44; 32] (y :: l)) with ((a :: m) ++ ([44; 32] ++ join [44; 32] (y :: l))).
  rewrite last_app_ne.
  - rewrite last_app_ne. + destruct (join [44; 32] (y :: l)); [discriminate|]. cbn [edgesb] in IH. apply andb_true_iff in IH as [_ IH]. exact IH.
    + destruct (join [44; 32] (y :: l)); [discriminate IH|discriminate].
  - discriminate.
Qed.

(** the heart of every record: the fields and the comment come back *)
Theorem fields_join toks c :
  toks <> [] -> Forall (fun t => clean_tokb t = true) toks -> clean_cmtb c = true ->
  fields (join [44; 32] toks ++ show_comment c) = (toks, c).
Proof.
  intros Hn Ht Hc. set (J := join [44; 32] toks).
  assert (EJ : edgesb J = true) by (apply join_edges; assumption).
  assert (N35 : no 35 J = true).
  { apply join_no; [reflexivity|]. eapply Forall_impl; [|exact Ht]. intros t H. apply clean_tok_no, H. }
  assert (N44 : Forall (fun t => no 44 t = true) toks).
  { eapply Forall_impl; [|exact Ht]. intros t H. apply clean_tok_no, H. }
  assert (SP : map trim (split_on 44 J) = toks).
  { unfold J. destruct toks as [|x r]; [contradiction|]. inversion N44 as [|? ? Hx Hr]; subst. inversion Ht as [|? ? Cx Cr]; subst.
    rewrite split_join by assumption. cbn [map]. rewrite trim_edges by (apply clean_tok_edges, Cx). f_equal.
    rewrite map_map. clear - Cr. induction Cr as [|y l Hy Hl IH]; [reflexivity|]. cbn [map].
    rewrite trim_space_front by (apply clean_tok_edges, Hy). f_equal. exact IH. }
  unfold fields, show_comment. destruct c as [|a m].
  - rewrite app_nil_r. rewrite (trim_edges J EJ). rewrite <- (app_nil_r J) at 1. rewrite break_app_no by exact N35.
    cbn [break_at]. rewrite app_nil_r, (trim_edges J EJ), SP. reflexivity.
  - assert (Ec : edgesb (a :: m) = true) by exact Hc.
    assert (Es : edgesb (J ++ cs " # " ++ a :: m) = true).
    { destruct J as [|j0 J']; [discriminate|]. cbn [edgesb] in EJ. apply andb_true_iff in EJ as [E0 _].
      change ((j0 :: J') ++ cs " # " ++ a :: m) with (j0 :: (J' ++ cs " # " ++ a :: m)). cbn [edgesb]. rewrite E0. cbn [andb].
      change (j0 :: J' ++ cs " # " ++ a :: m) with ((j0 :: J') ++ (cs " # " ++ a :: m)).
      rewrite last_app_ne by discriminate. rewrite last_app_ne by discriminate.
      cbn [edgesb] in Ec. apply andb_true_iff in Ec as [_ Ec]. exact Ec. }
    rewrite (trim_edges _ Es). rewrite break_app_no by exact N35.
    change (cs " # " ++ a :: m) with (32 :: 35 :: 32 :: a :: m). cbn [break_at]. change (32 =? 35) with false. cbn iota.
    rewrite N.eqb_refl. rewrite (trim_space_back J EJ), SP, (trim_space_front _ Ec). reflexivity.
Qed.

(** ** numbers *)
Definition isdig (c : N) : bool := (48 <=? c) && (c <=? 57).

Lemma isdig_digit k : k < 10 -> isdig (digit k) = true.
Proof. intros H. unfold isdig, digit. apply andb_true_iff. split; [apply N.leb_le|apply N.leb_le]; lia. Qed.

Lemma digits_isdig d : forall n, forallb isdig (digits d n) = true.
Proof.
  induction d as [|d IH]; intros n; [reflexivity|]. cbn [digits]. rewrite forallb_app, IH. cbn [forallb].
  rewrite isdig_digit; [reflexivity|]. apply N.mod_lt. lia.
Qed.

Lemma udec_fuel_isdig fuel : forall n, forallb isdig (udec_fuel fuel n) = true.
Proof.
  induction fuel as [|f IH]; intros n; cbn [udec_fuel].
  - cbn [forallb]. rewrite isdig_digit; [reflexivity|]. apply N.mod_lt. lia.
  - destruct (N.ltb_spec n 10) as [L|L].
    + cbn [forallb]. rewrite isdig_digit by exact L. reflexivity.
    + rewrite forallb_app, IH. cbn [forallb]. rewrite isdig_digit; [reflexivity|]. apply N.mod_lt. lia.
Qed.

Lemma udec_isdig n : forallb isdig (udec n) = true.
Proof. apply udec_fuel_isdig. Qed.

Lemma udec_fuel_ne fuel n : udec_fuel fuel n <> [].
Proof. destruct fuel; cbn [udec_fuel]; [discriminate|]. destruct (n <? 10); [discriminate|]. destruct (udec_fuel fuel (n / 10)); discriminate. Qed.

Lemma udec_ne n : udec n <> [].
Proof. apply udec_fuel_ne. Qed.

Lemma digit_val_isdig c : isdig c = true -> digit_val c = Some (c - 48).
Proof. unfold isdig, digit_val. intros ->. reflexivity. Qed.

Lemma digits_val_fold l : forallb isdig l = true -> forall acc,
  digits_val l acc = Some (fold_left (fun a c => 10 * a + (c - 48)) l acc).
Proof.
  induction l as [|c l IH]; intros H acc; [reflexivity|]. cbn [forallb] in H. apply andb_true_iff in H as [Hc Hl].
  cbn [digits_val fold_left]. rewrite (digit_val_isdig c Hc). apply IH, Hl.
Qed.

Lemma digits_val_dec l : forallb isdig l = true -> digits_val l 0 = Some (dec_value l).
Proof. intros H. apply digits_val_fold, H. Qed.

Lemma isdig_not_sign c : isdig c = true -> (c =? 45) = false /\ (c =? 43) = false.
Proof.
  unfold isdig. intros H. apply andb_true_iff in H as [H1 H2]. apply N.leb_le in H1. apply N.leb_le in H2.
  split; apply N.eqb_neq; lia.
Qed.

(** an id written by [Display] reads back as itself *)
Theorem parse_i32_sdec z : (-2147483648 <= z <= 2147483647)%Z -> parse_i32 (sdec z) = Some z.
Proof.
  intros R. unfold sdec. destruct (Z.ltb_spec z 0) as [L|L].
  - unfold parse_i32. rewrite N.eqb_refl.
    pose proof (udec_ne (Z.to_N (- z))) as Hn. destruct (udec (Z.to_N (- z))) as [|c r] eqn:E; [contradiction|].
    rewrite <- E, (digits_val_dec _ (udec_isdig _)), udec_value. rewrite Z2N.id by lia.
    replace (- - z)%Z with z by lia.
    destruct (Z.leb_spec (-2147483648) z); [|lia]. destruct (Z.leb_spec z 2147483647); [|lia]. reflexivity.
  - pose proof (udec_ne (Z.to_N z)) as Hn. pose proof (udec_isdig (Z.to_N z)) as Hd.
    destruct (udec (Z.to_N z)) as [|c r] eqn:E; [contradiction|].
    unfold parse_i32. cbn [forallb] in Hd. apply andb_true_iff in Hd as [Hc Hr].
    destruct (isdig_not_sign c Hc) as [-> ->].
    rewrite <- E, (digits_val_dec _ (udec_isdig _)), udec_value. rewrite Z2N.id by lia.
    destruct (Z.leb_spec (-2147483648) z); [|lia]. destruct (Z.leb_spec z 2147483647); [|lia]. reflexivity.
Qed.

(** names *)
Lemma parse_service_name s : parse_service (cs (service_name s)) = Some s.  Proof. destruct s; reflexivity. Qed.
Lemma parse_carrier_name s : parse_carrier (cs (carrier_name s)) = Some s.  Proof. destruct s; reflexivity. Qed.
Lemma parse_prodsource_name s : parse_prodsource (cs (prodsource_name s)) = Some s.  Proof. destruct s; reflexivity. Qed.
Lemma parse_source_name s : parse_source (cs (source_name s)) = Some s.  Proof. destruct s; reflexivity. Qed.
Lemma parse_dest_name s : parse_dest (cs (dest_name s)) = Some s.  Proof. destruct s; reflexivity. Qed.
Lemma parse_step_name s : parse_step (cs (step_name s)) = Some s.  Proof. destruct s; reflexivity. Qed.

(** ** a figure written with decimals reads back as the f32 nearest to the written decimal *)
Lemma take_digits_app ds r :
  forallb isdig ds = true -> match r with [] => True | c :: _ => isdig c = false end ->
  take_digits (ds ++ r) = (ds, r).
Proof.
  intros Hd Hr. induction ds as [|c ds IH].
  - cbn [app]. destruct r as [|c r]; [reflexivity|]. cbn [take_digits]. unfold digit_val. fold (isdig c). rewrite Hr. reflexivity.
  - cbn [forallb] in Hd. apply andb_true_iff in Hd as [Hc Hds]. cbn [app take_digits]. rewrite (digit_val_isdig c Hc), (IH Hds). reflexivity.
Qed.

Lemma fold_dec_acc l : forall acc,
  fold_left (fun a c => 10 * a + (c - 48)) l acc = acc * 10 ^ N.of_nat (length l) + fold_left (fun a c => 10 * a + (c - 48)) l 0.
Proof.
  induction l as [|c l IH]; intros acc.
  - cbn. lia.
  - cbn [fold_left length]. rewrite IH, (IH (10 * 0 + (c - 48))), Nat2N.inj_succ, N.pow_succ_r'. lia.
Qed.

Lemma dec_value_app a b : dec_value (a ++ b) = dec_value a * 10 ^ N.of_nat (length b) + dec_value b.
Proof. unfold dec_value. rewrite fold_left_app, fold_dec_acc. reflexivity. Qed.

Lemma lower_dig c : isdig c = true -> lower c = c.
Proof.
  unfold isdig, lower. intros H. apply andb_true_iff in H as [_ H]. apply N.leb_le in H.
  destruct (N.leb_spec 65 c); [lia|]. reflexivity.
Qed.

Lemma not_word c x k y : isdig c = true -> 57 < k -> str_eqb (map lower (c :: x)) (k :: y) = false.
Proof.
  intros Hc Hk. cbn [map str_eqb]. rewrite (lower_dig c Hc). unfold isdig in Hc. apply andb_true_iff in Hc as [_ H]. apply N.leb_le in H.
  destruct (N.eqb_spec c k); [lia|]. reflexivity.
Qed.

Definition read_back (d : nat) (q : Qc) : fval := f32_of_decimal (qltb q 0) (scaled d q) (- Z.of_nat d).

Lemma parse_mant_fixed neg d n :
  parse_mant neg (udec (n / pow10 (S d)) ++ 46 :: digits (S d) (n mod pow10 (S d))) =
  Some (f32_of_decimal neg n (- Z.of_nat (S d))).
Proof.
  set (I := n / pow10 (S d)). set (F := n mod pow10 (S d)).
  pose proof (udec_ne I) as Hne. pose proof (udec_isdig I) as Hdi.
  unfold parse_mant.
  destruct (udec I) as [|c0 r0] eqn:E; [contradiction|]. rewrite <- E in Hdi |- *.
  assert (Hc0 : isdig c0 = true) by (rewrite E in Hdi; cbn [forallb] in Hdi; now apply andb_true_iff in Hdi as [? _]).
  rewrite E. cbn [app]. cbv zeta.
  change (cs "inf") with (105 :: [110; 102]). change (cs "infinity") with (105 :: [110; 102; 105; 110; 105; 116; 121]).
  change (cs "nan") with (110 :: [97; 110]).
  rewrite !(not_word c0 _ _ _ Hc0) by lia. cbn [orb].
  change (c0 :: r0 ++ 46 :: digits (S d) F) with ((c0 :: r0) ++ 46 :: digits (S d) F). rewrite <- E.
  rewrite take_digits_app; [|exact Hdi|reflexivity]. rewrite N.eqb_refl.
  rewrite <- (app_nil_r (digits (S d) F)) at 1. rewrite take_digits_app; [|apply digits_isdig|exact Logic.I].
  assert (NE : udec I ++ digits (S d) F <> []) by (rewrite E; discriminate).
  destruct (udec I ++ digits (S d) F) eqn:E2; [contradiction|]. rewrite <- E2.
  cbn [parse_exp]. f_equal. f_equal.
  - unfold dec_of. rewrite digits_val_dec by (rewrite forallb_app, Hdi, digits_isdig; reflexivity).
    rewrite dec_value_app, udec_value, digits_value, digits_length. unfold I, F, pow10.
    assert (P : 10 ^ N.of_nat (S d) <> 0) by (apply N.pow_nonzero; lia).
    rewrite N.mod_mod by exact P. pose proof (N.div_mod' n (10 ^ N.of_nat (S d))). lia.
  - rewrite digits_length. lia.
Qed.

Theorem parse_f32_fmt_fixed d q : parse_f32 (fmt_fixed (S d) q) = Some (read_back (S d) q).
Proof.
  unfold fmt_fixed, read_back. set (n := scaled (S d) q). destruct (qltb q 0).
  - cbn [app parse_f32]. rewrite N.eqb_refl. apply parse_mant_fixed.
  - cbn [app]. pose proof (udec_ne (n / pow10 (S d))) as Hne. pose proof (udec_isdig (n / pow10 (S d))) as Hdi.
    destruct (udec (n / pow10 (S d))) as [|c0 r0] eqn:E; [contradiction|].
    cbn [forallb] in Hdi. apply andb_true_iff in Hdi as [Hc0 _]. cbn [app parse_f32].
    destruct (isdig_not_sign c0 Hc0) as [-> ->].
    change (c0 :: r0 ++ 46 :: digits (S d) (n mod pow10 (S d))) with ((c0 :: r0) ++ 46 :: digits (S d) (n mod pow10 (S d))).
    rewrite <- E. apply parse_mant_fixed.
Qed.

(** ** records *)
Definition rng (c : N) : bool := (45 <=? c) && (c <=? 57).
Lemma rng_okc c : rng c = true -> okc c = true.
Proof.
  unfold rng, okc, is_ws. intros H. apply andb_true_iff in H as [H1 H2]. apply N.leb_le in H1. apply N.leb_le in H2.
  repeat match goal with |- context [N.leb ?a ?b] => destruct (N.leb_spec a b); try lia end;
  repeat match goal with |- context [N.eqb ?a ?b] => destruct (N.eqb_spec a b); try lia end; reflexivity.
Qed.
Lemma isdig_rng c : isdig c = true -> rng c = true.
Proof. unfold isdig, rng. intros H. apply andb_true_iff in H as [H1 H2]. apply N.leb_le in H1. apply N.leb_le in H2. apply andb_true_iff. split; apply N.leb_le; lia. Qed.
Lemma forallb_imp {A} (p q : A -> bool) l : (forall x, p x = true -> q x = true) -> forallb p l = true -> forallb q l = true.
Proof. intros H. rewrite !forallb_forall. intros G x Hx. apply H, G, Hx. Qed.

Lemma fmt_fixed_rng d q : forallb rng (fmt_fixed d q) = true.
Proof.
  unfold fmt_fixed. rewrite !forallb_app.
  assert (S : forallb rng (if qltb q 0 then [45] else []) = true) by (destruct (qltb q 0); reflexivity).
  rewrite S, (forallb_imp _ _ _ isdig_rng (udec_isdig _)). destruct d as [|d]; [reflexivity|]. cbn [forallb andb].
  change (rng 46) with true. cbn [andb]. apply (forallb_imp _ _ _ isdig_rng), digits_isdig.
Qed.

Lemma fmt_fixed_clean d q : clean_tokb (fmt_fixed d q) = true.
Proof.
  pose proof (fmt_fixed_rng d q) as H. apply (forallb_imp _ _ _ rng_okc) in H.
  unfold clean_tokb. destruct (fmt_fixed d q) eqn:E; [|exact H].
  exfalso. unfold fmt_fixed in E. apply app_eq_nil in E as [_ E]. apply app_eq_nil in E as [E _]. exact (udec_ne _ E).
Qed.

Lemma sdec_clean z : clean_tokb (sdec z) = true.
Proof.
  assert (H : forallb rng (sdec z) = true).
  { unfold sdec. destruct (Z.ltb z 0); cbn [forallb]; rewrite ?(forallb_imp _ _ _ isdig_rng (udec_isdig _)); reflexivity. }
  apply (forallb_imp _ _ _ rng_okc) in H. unfold clean_tokb. destruct (sdec z) eqn:E; [|exact H].
  exfalso. unfold sdec in E. destruct (Z.ltb z 0); [discriminate|]. exact (udec_ne _ E).
Qed.

Lemma service_clean s : clean_tokb (cs (service_name s)) = true.  Proof. destruct s; reflexivity. Qed.
Lemma carrier_clean s : clean_tokb (cs (carrier_name s)) = true.  Proof. destruct s; reflexivity. Qed.
Lemma prodsource_clean s : clean_tokb (cs (prodsource_name s)) = true.  Proof. destruct s; reflexivity. Qed.
Lemma source_clean s : clean_tokb (cs (source_name s)) = true.  Proof. destruct s; reflexivity. Qed.
Lemma dest_clean s : clean_tokb (cs (dest_name s)) = true.  Proof. destruct s; reflexivity. Qed.
Lemma step_clean s : clean_tokb (cs (step_name s)) = true.  Proof. destruct s; reflexivity. Qed.

(** the value read back from a figure written with two decimals *)
Definition finite2 (d : nat) (q : Qc) : bool := match read_back d q with Fin _ => true | _ => false end.
Definition rb (d : nat) (q : Qc) : Qc := match read_back d q with Fin x => x | _ => 0%Qc end.

Lemma parse_values_fmt d v : forallb (finite2 (S d)) v = true ->
  parse_values' (map (fmt_fixed (S d)) v) = POk (map (rb (S d)) v).
Proof.
  intros H. unfold parse_values'.
  assert (A : forallb (fun t => match parse_f32 t with Some _ => true | None => false end) (map (fmt_fixed (S d)) v) = true).
  { apply forallb_forall. intros t Ht. apply in_map_iff in Ht as (q & <- & _). rewrite parse_f32_fmt_fixed. reflexivity. }
  rewrite A. induction v as [|q v IH]; [reflexivity|]. cbn [forallb] in H. apply andb_true_iff in H as [Hq Hv].
  cbn [map parse_values]. rewrite parse_f32_fmt_fixed.
  rewrite IH.
  - cbn [pbind]. unfold finite2 in Hq. unfold rb. destruct (read_back (S d) q); try discriminate. reflexivity.
  - exact Hv.
  - apply forallb_forall. intros t Ht. apply in_map_iff in Ht as (q' & <- & _). rewrite parse_f32_fmt_fixed. reflexivity.
Qed.

Definition i32 (z : Z) : Prop := (-2147483648 <= z <= 2147483647)%Z.

Lemma sp_join_eq v d : sp_join v d = join [44; 32] (map (fmt_fixed d) v).
Proof. reflexivity. Qed.

Lemma join_app_cons sep (pre : list str) (x : str) (r : list str) :
  join sep (pre ++ x :: r) = match pre with [] => join sep (x :: r) | _ => join sep pre ++ sep ++ join sep (x :: r) end.
Proof.
  induction pre as [|a pre IH]; [reflexivity|]. destruct pre as [|b pre].
  - cbn [app]. rewrite join_cons2. reflexivity.
  - change ((a :: b :: pre) ++ x :: r) with (a :: b :: (pre ++ x :: r)). rewrite join_cons2.
    change (b :: (pre ++ x :: r)) with ((b :: pre) ++ x :: r). rewrite IH, join_cons2, <- !app_assoc. reflexivity.
Qed.

Lemma values_clean d v : Forall (fun t => clean_tokb t = true) (map (fmt_fixed d) v).
Proof. apply Forall_forall. intros t Ht. apply in_map_iff in Ht as (q & <- & _). apply fmt_fixed_clean. Qed.

(** a consumption line written by [Display] reads back as the same component, values at the written precision *)
Theorem used_roundtrip i cr srv v c :
  i32 i -> v <> [] -> forallb (finite2 2) v = true -> clean_cmtb c = true ->
  parse_used (show_energy (EUsed i cr srv v c)) = POk (EUsed i cr srv (map (rb 2) v) c).
Proof.
  intros Hi Hv Hf Hc. unfold parse_used.
  assert (E : show_energy (EUsed i cr srv v c) =
              join [44; 32] ([sdec i; cs "CONSUMO"; cs (service_name srv); cs (carrier_name cr)] ++ map (fmt_fixed 2) v) ++ show_comment c).
  { destruct v as [|q v]; [contradiction|]. cbn [map]. rewrite join_app_cons. unfold show_energy. rewrite sp_join_eq. cbn [map].
    rewrite !join_cons2. cbn [join]. rewrite <- !app_assoc. reflexivity. }
  rewrite E, fields_join.
  - cbn [app length Nat.ltb Nat.leb]. unfold id_and_base. cbn [idx nth_error pbind]. rewrite (parse_i32_sdec i Hi).
    cbn [pbind idx nth_error Nat.add]. change (ctype_is CONSUMO (cs "CONSUMO")) with true. cbn [negb].
    rewrite parse_service_name, parse_carrier_name. cbn [need pbind slice_from length Nat.leb skipn].
    rewrite (parse_values_fmt 1 v Hf). reflexivity.
  - discriminate.
  - repeat constructor; try apply sdec_clean; try apply service_clean; try apply carrier_clean. apply values_clean.
  - exact Hc.
Qed.

Theorem prod_roundtrip i src v c :
  i32 i -> v <> [] -> forallb (finite2 2) v = true -> clean_cmtb c = true ->
  parse_prod (show_energy (EProd i src v c)) = POk (EProd i src (map (rb 2) v) c).
Proof.
  intros Hi Hv Hf Hc. unfold parse_prod.
  assert (E : show_energy (EProd i src v c) =
              join [44; 32] ([sdec i; cs "PRODUCCION"; cs (prodsource_name src)] ++ map (fmt_fixed 2) v) ++ show_comment c).
  { destruct v as [|q v]; [contradiction|]. cbn [map]. rewrite join_app_cons. unfold show_energy. rewrite sp_join_eq. cbn [map].
    rewrite !join_cons2. cbn [join]. rewrite <- !app_assoc. reflexivity. }
  rewrite E, fields_join.
  - cbn [app length Nat.ltb Nat.leb]. unfold id_and_base. cbn [idx nth_error pbind]. rewrite (parse_i32_sdec i Hi).
    cbn [pbind idx nth_error Nat.add]. change (ctype_is PRODUCCION (cs "PRODUCCION")) with true. cbn [negb].
    rewrite parse_prodsource_name. cbn [need pbind slice_from length Nat.leb skipn].
    rewrite (parse_values_fmt 1 v Hf). reflexivity.
  - discriminate.
  - repeat constructor; try apply sdec_clean; try apply prodsource_clean. apply values_clean.
  - exact Hc.
Qed.

(** an auxiliary line does not carry its service: it reads back as not yet assigned (NEPB), to be assigned again by [normalize] *)
Theorem aux_roundtrip i srv v c :
  i32 i -> v <> [] -> forallb (finite2 2) v = true -> clean_cmtb c = true ->
  parse_aux (show_energy (EAux i srv v c)) = POk (EAux i NEPB (map (rb 2) v) c).
Proof.
  intros Hi Hv Hf Hc. unfold parse_aux.
  assert (E : show_energy (EAux i srv v c) = join [44; 32] ([sdec i; cs "AUX"] ++ map (fmt_fixed 2) v) ++ show_comment c).
  { destruct v as [|q v]; [contradiction|]. cbn [map]. rewrite join_app_cons. unfold show_energy. rewrite sp_join_eq. cbn [map].
    rewrite !join_cons2. cbn [join]. rewrite <- !app_assoc. reflexivity. }
  rewrite E, fields_join.
  - cbn [app length Nat.ltb Nat.leb]. unfold id_and_base. cbn [idx nth_error pbind]. rewrite (parse_i32_sdec i Hi).
    cbn [pbind idx nth_error Nat.add]. change (ctype_is CT_AUX (cs "AUX")) with true. cbn [negb].
    cbn [need pbind slice_from length Nat.leb skipn].
    rewrite (parse_values_fmt 1 v Hf). reflexivity.
  - discriminate.
  - repeat constructor; try apply sdec_clean. apply values_clean.
  - exact Hc.
Qed.

Theorem out_roundtrip i srv v c :
  i32 i -> v <> [] -> forallb (finite2 2) v = true -> clean_cmtb c = true -> srv_is_epb srv = true ->
  parse_out (show_energy (EOut i srv v c)) = POk (EOut i srv (map (rb 2) v) c).
Proof.
  intros Hi Hv Hf Hc Hs. unfold parse_out. destruct v as [|q v]; [contradiction|].
  assert (E : show_energy (EOut i srv (q :: v) c) =
              join [44; 32] ([sdec i; cs "SALIDA"; cs (service_name srv)] ++ map (fmt_fixed 2) (q :: v)) ++ show_comment c).
  { cbn [map]. rewrite join_app_cons. unfold show_energy. rewrite sp_join_eq. cbn [map].
    rewrite !join_cons2. cbn [join]. rewrite <- !app_assoc. reflexivity. }
  rewrite E, fields_join.
  - pose proof (parse_values_fmt 1 (q :: v) Hf) as PV. cbn [map] in PV |- *.
    cbn [app length Nat.ltb Nat.leb idx nth_error pbind]. change (ctype_is SALIDA (cs "SALIDA")) with true. cbn [negb].
    rewrite (parse_i32_sdec i Hi), parse_service_name. cbn [need pbind]. rewrite Hs. cbn [negb slice_from length Nat.leb skipn pbind].
    rewrite PV. reflexivity.
  - discriminate.
  - repeat constructor; try apply sdec_clean; try apply service_clean; try apply fmt_fixed_clean. apply values_clean.
  - exact Hc.
Qed.

Theorem factor_roundtrip f :
  forallb (finite2 3) [ren (f_val f); nren (f_val f); co2 (f_val f)] = true -> clean_cmtb (f_cmt f) = true ->
  parse_factor (show_factor f) =
  POk (mkFactor (f_cr f) (f_src f) (f_dest f) (f_step f) (mkRNC (rb 3 (ren (f_val f))) (rb 3 (nren (f_val f))) (rb 3 (co2 (f_val f)))) (f_cmt f)).
Proof.
  intros Hf Hc. unfold parse_factor.
  assert (E : show_factor f =
              join [44; 32] [cs (carrier_name (f_cr f)); cs (source_name (f_src f)); cs (dest_name (f_dest f)); cs (step_name (f_step f));
                             fmt_fixed 3 (ren (f_val f)); fmt_fixed 3 (nren (f_val f)); fmt_fixed 3 (co2 (f_val f))] ++ show_comment (f_cmt f)).
  { unfold show_factor. rewrite !join_cons2. cbn [join]. rewrite <- !app_assoc. reflexivity. }
  rewrite E, fields_join.
  - cbn [length Nat.ltb Nat.leb idx nth_error pbind].
    rewrite parse_carrier_name, parse_source_name, parse_dest_name, parse_step_name. cbn [need pbind].
    rewrite !parse_f32_fmt_fixed. cbn [need pbind].
    cbn [forallb] in Hf. apply andb_true_iff in Hf as [H1 Hf]. apply andb_true_iff in Hf as [H2 Hf]. apply andb_true_iff in Hf as [H3 _].
    unfold finite2 in H1, H2, H3. unfold rb.
    destruct (read_back 3 (ren (f_val f))); try discriminate. destruct (read_back 3 (nren (f_val f))); try discriminate.
    destruct (read_back 3 (co2 (f_val f))); try discriminate. reflexivity.
  - discriminate.
  - repeat constructor; try apply carrier_clean; try apply source_clean; try apply dest_clean; try apply step_clean; apply fmt_fixed_clean.
  - exact Hc.
Qed.

(** what the readers store as a comment is always in the form the theorems above ask for *)
Lemma trim_start_hd s : match trim_start s with [] => True | a :: _ => is_ws a = false end.
Proof. induction s as [|c s IH]; cbn [trim_start]; [exact Logic.I|]. destruct (is_ws c) eqn:E; [exact IH|exact E]. Qed.

Lemma trim_clean s : clean_cmtb (trim s) = true.
Proof.
  unfold trim. set (t := trim_start s). pose proof (trim_start_hd s) as Hh. fold t in Hh.
  unfold trim_end. pose proof (trim_start_hd (rev t)) as Hl.
  destruct (trim_start (rev t)) as [|z r] eqn:E; [reflexivity|].
  cbn [rev]. assert (L : last (rev r ++ [z]) 0 = z) by apply last_last.
  destruct (rev r ++ [z]) as [|a m] eqn:E2; [destruct (rev r); discriminate|].
  cbn [clean_cmtb]. rewrite L, Hl. cbn [negb andb].
  (* the first character: the one of t, which is not white space *)
  assert (Ha : is_ws a = false).
  { assert (P : exists k, t = (a :: m) ++ k).
    { assert (Q : exists k, rev t = k ++ z :: r).
      { clear - E. induction (rev t) as [|c l IH]; cbn [trim_start] in E; [discriminate|].
        destruct (is_ws c); [destruct (IH E) as (k & ->); exists (c :: k); reflexivity|]. exists []. exact E. }
      destruct Q as (k & Q). exists (rev k). rewrite <- (rev_involutive t), Q, rev_app_distr. cbn [rev]. rewrite E2. reflexivity. }
    destruct P as (k & P). rewrite P in Hh. exact Hh. }
  rewrite Ha. reflexivity.
Qed.

Theorem need_roundtrip srv v :
  (srv = ACS \/ srv = CAL \/ srv = REF) -> v <> [] -> forallb (finite2 2) v = true ->
  parse_need (cs "DEMANDA, " ++ cs (service_name srv) ++ cs ", " ++ sp_join v 2) = POk (srv, map (rb 2) v).
Proof.
  intros Hs Hv Hf. unfold parse_need. destruct v as [|q v]; [contradiction|].
  assert (E : cs "DEMANDA, " ++ cs (service_name srv) ++ cs ", " ++ sp_join (q :: v) 2 =
              join [44; 32] ([cs "DEMANDA"; cs (service_name srv)] ++ map (fmt_fixed 2) (q :: v)) ++ show_comment []).
  { cbn [map]. rewrite join_app_cons. rewrite sp_join_eq. cbn [map show_comment]. rewrite app_nil_r.
    rewrite !join_cons2. cbn [join]. rewrite <- !app_assoc. reflexivity. }
  rewrite E, fields_join.
  - pose proof (parse_values_fmt 1 (q :: v) Hf) as PV. cbn [map] in PV |- *.
    cbn [app length Nat.ltb Nat.leb idx nth_error pbind]. change (ctype_is DEMANDA (cs "DEMANDA")) with true. cbn [negb].
    rewrite parse_service_name. cbn [need pbind].
    destruct Hs as [->|[->| ->]]; cbn [negb slice_from length Nat.leb skipn pbind]; rewrite PV; reflexivity.
  - discriminate.
  - repeat constructor; try apply service_clean; try apply fmt_fixed_clean. apply values_clean.
  - reflexivity.
Qed.

(** ** metadata lines *)
Definition not_legacy (k : str) : bool :=
  negb (str_eqb k (cs "Localizacion")) && negb (str_eqb k (cs "Area_ref")) && negb (str_eqb k (cs "kexp")).
Definition clean_key (k : str) : bool := edgesb k && no 58 k && not_legacy k.

Lemma legacy_key_id k : not_legacy k = true -> legacy_key k = k.
Proof.
  unfold not_legacy, legacy_key. intros H. apply andb_true_iff in H as [H H3]. apply andb_true_iff in H as [H1 H2].
  apply negb_true_iff in H1, H2, H3. rewrite H1, H2, H3. reflexivity.
Qed.

Lemma trim_idem s : trim (trim s) = trim s.
Proof.
  pose proof (trim_clean s) as H. destruct (trim s) as [|a m] eqn:E; [reflexivity|]. apply trim_edges. exact H.
Qed.

Lemma edges_app_l (p r : str) : edgesb p = true -> edgesb r = true -> edgesb (p ++ r) = true.
Proof.
  intros Hp Hr. destruct p as [|a m]; [discriminate|]. cbn [edgesb] in Hp. apply andb_true_iff in Hp as [Ha _].
  change ((a :: m) ++ r) with (a :: (m ++ r)). cbn [edgesb]. rewrite Ha. cbn [andb].
  change (a :: m ++ r) with ((a :: m) ++ r). destruct r as [|b r']; [discriminate|]. rewrite last_app_ne by discriminate.
  cbn [edgesb] in Hr. apply andb_true_iff in Hr as [_ Hr]. exact Hr.
Qed.

Lemma edges_app_last (p r : str) : edgesb p = true -> r <> [] -> is_ws (last r 0) = false -> edgesb (p ++ r) = true.
Proof.
  intros Hp Hr Hl. destruct p as [|a m]; [discriminate|]. cbn [edgesb] in Hp. apply andb_true_iff in Hp as [Ha _].
  change ((a :: m) ++ r) with (a :: (m ++ r)). cbn [edgesb]. rewrite Ha. cbn [andb].
  change (a :: m ++ r) with ((a :: m) ++ r). rewrite last_app_ne by exact Hr. rewrite Hl. reflexivity.
Qed.

Theorem meta_roundtrip m :
  clean_key (m_key m) = true -> clean_cmtb (m_value m) = true -> parse_meta (show_meta m) = POk m.
Proof.
  destruct m as [k v]. cbn [m_key m_value]. unfold clean_key. intros Hk Hv.
  apply andb_true_iff in Hk as [Hk HL]. apply andb_true_iff in Hk as [Ek N58].
  unfold parse_meta, show_meta. cbn [m_key m_value].
  assert (Pre : forall r, trim (cs "#META " ++ k ++ r) = cs "#META " ++ trim_end (k ++ r) /\ True).
  { intros r. split; [|exact Logic.I]. unfold trim. cbn [cs bs map list_ascii_of_string app].
    rewrite trim_start_nonws by reflexivity. repeat (rewrite trim_end_cons_nonws by reflexivity).
    change (is_ws 32) with true.
    (* the space after #META is kept because something not white follows *)
    rewrite trim_end_cons_keep; [reflexivity|].
    destruct k as [|a k']; [discriminate|]. cbn [edgesb] in Ek. apply andb_true_iff in Ek as [Ea _]. apply negb_true_iff in Ea.
    cbn [app]. rewrite trim_end_cons_nonws by exact Ea. discriminate. }
  destruct v as [|b v'].
  - (* empty value: the line ends with ": ", trimmed to ":" *)
    destruct (Pre (cs ": ")) as [T _]. rewrite app_nil_r, T.
    assert (TE : trim_end (k ++ cs ": ") = k ++ [58]).
    { change (cs ": ") with ([58] ++ [32]). rewrite app_assoc. 
      assert (E : edgesb (k ++ [58]) = true) by (apply edges_app_l; [exact Ek|reflexivity]).
      pose proof (trim_space_back _ E) as B. unfold trim in B.
      destruct (k ++ [58]) as [|a m] eqn:E2; [discriminate|]. cbn [edgesb] in E. apply andb_true_iff in E as [Ea _]. apply negb_true_iff in Ea.
      cbn [app] in B. rewrite trim_start_nonws in B by exact Ea. exact B. }
    rewrite TE. change (cs "#META ") with [35; 77; 69; 84; 65; 32]. cbn [app length Nat.leb firstn skipn].
    change (forallb is_ascii [35; 77; 69; 84; 65]) with true. cbn [andb negb].
    change (32 :: k ++ [58]) with ((32 :: k) ++ [58] ++ []). rewrite break_app_no by (cbn [no forallb]; exact N58).
    cbn [app break_at]. rewrite N.eqb_refl. rewrite app_nil_r.
    rewrite (trim_space_front k Ek), (trim_edges k Ek), (legacy_key_id k HL). reflexivity.
  - destruct (Pre (cs ": " ++ b :: v')) as [T _]. rewrite T.
    assert (Ekv : edgesb (k ++ cs ": " ++ b :: v') = true).
    { apply edges_app_last; [exact Ek|discriminate|]. change (cs ": " ++ b :: v') with ([58; 32] ++ (b :: v')).
      rewrite last_app_ne by discriminate. pose proof Hv as Hv2. cbn [clean_cmtb] in Hv2. apply andb_true_iff in Hv2 as [_ Hv2].
      now apply negb_true_iff in Hv2. }
    pose proof (trim_edges _ Ekv) as TT. unfold trim in TT.
    destruct k as [|a k'] eqn:EK; [discriminate|]. cbn [edgesb] in Ek. pose proof Ek as Ek2. apply andb_true_iff in Ek2 as [Ea _]. apply negb_true_iff in Ea.
    cbn [app] in TT. rewrite trim_start_nonws in TT by exact Ea. cbn [app]. rewrite TT.
    change (cs "#META ") with [35; 77; 69; 84; 65; 32]. cbn [app length Nat.leb firstn skipn].
    change (forallb is_ascii [35; 77; 69; 84; 65]) with true. cbn [andb negb].
    change (32 :: a :: k' ++ cs ": " ++ b :: v') with ((32 :: a :: k') ++ [58] ++ (32 :: b :: v')).
    rewrite break_app_no by (cbn [no forallb]; exact N58). cbn [app break_at]. rewrite N.eqb_refl. rewrite app_nil_r.
    rewrite (trim_space_front (a :: k') Ek), (trim_edges (a :: k') Ek), (legacy_key_id _ HL).
    assert (Ev : edgesb (b :: v') = true) by exact Hv.
    rewrite (trim_space_front (b :: v') Ev), (trim_edges _ Ev). reflexivity.
Qed.

(** ** a whole factors file *)
Lemma split_join1 c toks : forall x, no c x = true -> Forall (fun t => no c t = true) toks ->
  split_on c (join [c] (x :: toks)) = x :: toks.
Proof.
  induction toks as [|y r IH]; intros x Hx Ht.
  - cbn [join]. apply split_no, Hx.
  - rewrite join_cons2. rewrite split_app_no by exact Hx.
    change ([c] ++ join [c] (y :: r)) with (c :: join [c] (y :: r)). rewrite split_on_hit.
    inversion Ht as [|? ? Hy Hr]; subst. rewrite IH by assumption. rewrite app_nil_r. reflexivity.
Qed.

Definition no_cr_end (l : str) : Prop := l <> [] /\ last l 0 <> 13.

Lemma strip_cr_id l : last l 0 <> 13 -> strip_cr l = l.
Proof.
  intros H. unfold strip_cr. destruct (rev l) as [|c r] eqn:E; [reflexivity|].
  assert (L : l = rev r ++ [c]) by (rewrite <- (rev_involutive l), E; reflexivity).
  rewrite L in H. rewrite last_last in H. destruct (N.eqb_spec c 13); [contradiction|reflexivity].
Qed.

Lemma lines_of_id ls : Forall no_cr_end ls -> lines_of ls = ls.
Proof.
  induction 1 as [|x l [Hx Hc] Hl IH]; [reflexivity|]. destruct l as [|y l].
  - cbn [lines_of]. destruct x; [contradiction|reflexivity].
  - change (lines_of (x :: y :: l)) with (strip_cr x :: lines_of (y :: l)). rewrite IH, (strip_cr_id x Hc). reflexivity.
Qed.

Lemma fields_trim s : fields (trim s) = fields s.
Proof. unfold fields. rewrite trim_idem. reflexivity. Qed.
Lemma parse_factor_trim s : parse_factor (trim s) = parse_factor s.
Proof. unfold parse_factor. rewrite fields_trim. reflexivity. Qed.
Lemma parse_meta_trim s : parse_meta (trim s) = parse_meta s.
Proof. unfold parse_meta. rewrite trim_idem. reflexivity. Qed.

Lemma trim_head c r : is_ws c = false -> exists r', trim (c :: r) = c :: r'.
Proof. intros H. unfold trim. rewrite trim_start_nonws by exact H. rewrite trim_end_cons_nonws by exact H. eauto. Qed.

Lemma show_factor_head x : exists c0 rest, show_factor x = c0 :: rest /\ 65 <= c0 /\ c0 <= 90.
Proof.
  unfold show_factor. destruct (f_cr x); cbn [carrier_name cs bs map list_ascii_of_string app];
    eexists _, _; (split; [reflexivity|]); cbn; split; discriminate.
Qed.

Lemma upper_not_ws c : 65 <= c -> c <= 90 -> is_ws c = false.
Proof.
  intros H1 H2. unfold is_ws.
  repeat match goal with |- context [N.leb ?a ?b] => destruct (N.leb_spec a b); try lia end;
  repeat match goal with |- context [N.eqb ?a ?b] => destruct (N.eqb_spec a b); try lia end; reflexivity.
Qed.

Lemma factor_line_kind x : is_data_line (trim (show_factor x)) = true /\ is_meta_line (trim (show_factor x)) = false.
Proof.
  destruct (show_factor_head x) as (c0 & rest & E & H1 & H2). rewrite E.
  destruct (trim_head c0 rest (upper_not_ws c0 H1 H2)) as (r' & ->).
  unfold is_data_line, is_meta_line.
  change (cs "vector,") with (118 :: [101; 99; 116; 111; 114; 44]). change (cs "#META") with (35 :: [77; 69; 84; 65]).
  change (cs "#CTE_") with (35 :: [67; 84; 69; 95]). cbn [starts_with].
  destruct (N.eqb_spec 35 c0); [lia|]. destruct (N.eqb_spec 118 c0); [lia|]. split; reflexivity.
Qed.

Lemma meta_line_kind m : is_meta_line (trim (show_meta m)) = true /\ is_data_line (trim (show_meta m)) = false.
Proof.
  unfold show_meta. set (r := m_key m ++ cs ": " ++ m_value m).
  assert (E : exists r', trim (cs "#META " ++ r) = [35; 77; 69; 84; 65] ++ r').
  { unfold trim. change (cs "#META " ++ r) with (35 :: 77 :: 69 :: 84 :: 65 :: 32 :: r).
    rewrite trim_start_nonws by reflexivity. repeat (rewrite trim_end_cons_nonws by reflexivity). eexists. reflexivity. }
  destruct E as (r' & ->). split; reflexivity.
Qed.

Definition good_meta (m : Meta) : Prop :=
  clean_key (m_key m) = true /\ clean_cmtb (m_value m) = true /\ no 10 (m_key m) = true /\ no 10 (m_value m) = true.
Definition good_factor (x : Factor) : Prop :=
  forallb (finite2 3) [ren (f_val x); nren (f_val x); co2 (f_val x)] = true /\ clean_cmtb (f_cmt x) = true /\ no 10 (f_cmt x) = true.
Definition rt_factor (x : Factor) : Factor :=
  mkFactor (f_cr x) (f_src x) (f_dest x) (f_step x) (mkRNC (rb 3 (ren (f_val x))) (rb 3 (nren (f_val x))) (rb 3 (co2 (f_val x)))) (f_cmt x).

Lemma rng_no10 l : forallb rng l = true -> no 10 l = true.
Proof.
  apply forallb_imp. intros c H. unfold rng in H. apply andb_true_iff in H as [H _]. apply N.leb_le in H.
  destruct (N.eqb_spec c 10); [lia|reflexivity].
Qed.

Lemma show_meta_no10 m : good_meta m -> no 10 (show_meta m) = true.
Proof. intros (_ & _ & K & V). unfold show_meta. rewrite !no_app, K, V. reflexivity. Qed.

Lemma show_comment_no10 c : no 10 c = true -> no 10 (show_comment c) = true.
Proof. intros H. unfold show_comment. destruct c; [reflexivity|]. rewrite no_app, H. reflexivity. Qed.

Lemma show_factor_no10 x : good_factor x -> no 10 (show_factor x) = true.
Proof.
  intros (_ & _ & C). unfold show_factor. rewrite !no_app, !(rng_no10 _ (fmt_fixed_rng _ _)), (show_comment_no10 _ C).
  destruct (f_cr x), (f_src x), (f_dest x), (f_step x); reflexivity.
Qed.

Lemma show_meta_line_end m : good_meta m -> no_cr_end (show_meta m).
Proof.
  intros (_ & Hv & _ & _). unfold show_meta. split; [discriminate|].
  destruct (m_value m) as [|b v] eqn:E.
  - rewrite app_nil_r, app_assoc, last_app_ne by discriminate. discriminate.
  - rewrite !app_assoc, last_app_ne by discriminate. cbn [clean_cmtb] in Hv. apply andb_true_iff in Hv as [_ Hv].
    apply negb_true_iff in Hv. intros K. rewrite K in Hv. discriminate.
Qed.

Lemma show_factor_line_end x : good_factor x -> no_cr_end (show_factor x).
Proof.
  intros (_ & Hc & _). destruct (show_factor_head x) as (c0 & rest & E & _). split; [rewrite E; discriminate|].
  unfold show_factor, show_comment. destruct (f_cmt x) as [|b v] eqn:EC.
  - rewrite app_nil_r. rewrite !app_assoc.
    pose proof (fmt_fixed_rng 3 (co2 (f_val x))) as R. pose proof (fmt_fixed_clean 3 (co2 (f_val x))) as Cn.
    destruct (fmt_fixed 3 (co2 (f_val x))) as [|d ds] eqn:EF; [discriminate|]. rewrite last_app_ne by discriminate.
    destruct (exists_last (l := d :: ds)) as (l' & z & EL); [discriminate|]. rewrite EL in R |- *. rewrite last_last.
    rewrite forallb_app in R. apply andb_true_iff in R as [_ R]. cbn [forallb] in R. apply andb_true_iff in R as [R _].
    unfold rng in R. apply andb_true_iff in R as [R _]. apply N.leb_le in R. lia.
  - rewrite !app_assoc. rewrite last_app_ne by discriminate. cbn [clean_cmtb] in Hc. apply andb_true_iff in Hc as [_ Hc].
    apply negb_true_iff in Hc. intros K. rewrite K in Hc. discriminate.
Qed.

Lemma pmap_ok {A B} (f : A -> pres B) (g : A -> B) l : (forall x, In x l -> f x = POk (g x)) -> pmap f l = POk (map g l).
Proof.
  induction l as [|x l IH]; intros H; [reflexivity|]. cbn [pmap map]. rewrite (H x) by now left. cbn [pbind].
  rewrite IH by (intros; apply H; now right). reflexivity.
Qed.

Lemma pmap_map {A B C} (f : B -> pres C) (h : A -> B) l : pmap f (map h l) = pmap (fun x => f (h x)) l.
Proof. induction l as [|x l IH]; [reflexivity|]. cbn [map pmap]. rewrite IH. reflexivity. Qed.

Lemma filter_map_all {A} (p : A -> bool) l : (forall x, In x l -> p x = true) -> filter p l = l.
Proof. induction l as [|x l IH]; intros H; [reflexivity|]. cbn [filter]. rewrite (H x) by now left. rewrite IH by (intros; apply H; now right). reflexivity. Qed.
Lemma filter_map_none {A} (p : A -> bool) l : (forall x, In x l -> p x = false) -> filter p l = [].
Proof. induction l as [|x l IH]; intros H; [reflexivity|]. cbn [filter]. rewrite (H x) by now left. apply IH. intros; apply H; now right. Qed.

(** a factor set written by [Display] reads back as the same set: same metadata, same factors in the same order with
    the same tags and comments, every value at the written precision *)
Theorem factors_file_roundtrip f :
  wmeta f <> [] -> wdata f <> [] -> Forall good_meta (wmeta f) -> Forall good_factor (wdata f) ->
  parse_factors (show_factors f) = POk (mkFactors (wmeta f) (map rt_factor (wdata f))).
Proof.
  intros HA HB GA GB. unfold parse_factors, show_factors.
  set (A := map show_meta (wmeta f)). set (B := map show_factor (wdata f)).
  assert (EJ : join [10] A ++ [10] ++ join [10] B = join [10] (A ++ B)).
  { unfold B. destruct (wdata f) as [|x r]; [contradiction|]. cbn [map]. rewrite join_app_cons.
    unfold A. destruct (wmeta f); [contradiction|]. reflexivity. }
  rewrite EJ.
  assert (N10 : Forall (fun t => no 10 t = true) (A ++ B)).
  { apply Forall_app. split; apply Forall_forall; intros t Ht; apply in_map_iff in Ht as (y & <- & Hy).
    - apply show_meta_no10. rewrite Forall_forall in GA. now apply GA.
    - apply show_factor_no10. rewrite Forall_forall in GB. now apply GB. }
  assert (LE : Forall no_cr_end (A ++ B)).
  { apply Forall_app. split; apply Forall_forall; intros t Ht; apply in_map_iff in Ht as (y & <- & Hy).
    - apply show_meta_line_end. rewrite Forall_forall in GA. now apply GA.
    - apply show_factor_line_end. rewrite Forall_forall in GB. now apply GB. }
  assert (LN : lines (join [10] (A ++ B)) = A ++ B).
  { unfold lines.
    assert (NE : A ++ B <> []) by (unfold B; destruct (wdata f); [contradiction|]; destruct A; discriminate).
    destruct (A ++ B) as [|x r] eqn:E; [contradiction|].
    inversion N10 as [|? ? Hx Hr]; subst. rewrite split_join1 by assumption. apply lines_of_id. exact LE. }
  rewrite LN, map_app, !filter_app.
  rewrite (filter_map_all is_meta_line (map trim A)), (filter_map_none is_meta_line (map trim B)),
          (filter_map_none is_data_line (map trim A)), (filter_map_all is_data_line (map trim B)).
  - rewrite app_nil_r. cbn [app]. unfold A, B. rewrite !map_map, !pmap_map.
    rewrite (pmap_ok _ (fun m => m)).
    + cbn [pbind]. rewrite map_id. rewrite (pmap_ok _ rt_factor).
      * reflexivity.
      * intros x Hx. rewrite parse_factor_trim. rewrite Forall_forall in GB. destruct (GB x Hx) as (F1 & F2 & _).
        apply factor_roundtrip; assumption.
    + intros m Hm. rewrite parse_meta_trim. rewrite Forall_forall in GA. destruct (GA m Hm) as (K & V & _).
      apply meta_roundtrip; assumption.
  - intros t Ht. apply in_map_iff in Ht as (s & <- & Hs). unfold B in Hs. apply in_map_iff in Hs as (x & <- & _). apply factor_line_kind.
  - intros t Ht. apply in_map_iff in Ht as (s & <- & Hs). unfold A in Hs. apply in_map_iff in Hs as (m & <- & _). apply meta_line_kind.
  - intros t Ht. apply in_map_iff in Ht as (s & <- & Hs). unfold B in Hs. apply in_map_iff in Hs as (x & <- & _). apply factor_line_kind.
  - intros t Ht. apply in_map_iff in Ht as (s & <- & Hs). unfold A in Hs. apply in_map_iff in Hs as (m & <- & _). apply meta_line_kind.
Qed.
