(** * Factor sets as lookup functions (C07, C08) *)
From Cteepbd Require Import Model.Factors.
Open Scope Qc_scope.

Definition fkey_eqb (k k' : fkey) : bool :=
  let '(c, s, d, st) := k in let '(c', s', d', st') := k' in
  Carrier_beq c c' && Source_beq s s' && Dest_beq d d' && Step_beq st st'.

Lemma fkey_eqb_spec k k' : reflect (k = k') (fkey_eqb k k').
Proof.
  destruct k as [[[c s] d] st], k' as [[[c' s'] d'] st']. unfold fkey_eqb.
  destruct (Carrier_beq c c') eqn:E1; [apply Carrier_beq_eq in E1|];
  destruct (Source_beq s s') eqn:E2; try apply Source_beq_eq in E2;
  destruct (Dest_beq d d') eqn:E3; try apply Dest_beq_eq in E3;
  destruct (Step_beq st st') eqn:E4; try apply Step_beq_eq in E4; cbn; constructor; subst; try reflexivity;
  intros H; injection H; intros; subst;
  try (rewrite (proj2 (Carrier_beq_eq _ _) eq_refl) in E1; discriminate);
  try (rewrite (proj2 (Source_beq_eq _ _) eq_refl) in E2; discriminate);
  try (rewrite (proj2 (Dest_beq_eq _ _) eq_refl) in E3; discriminate);
  try (rewrite (proj2 (Step_beq_eq _ _) eq_refl) in E4; discriminate).
Qed.

Lemma kmatch_key k f : kmatch k f = fkey_eqb (key_of f) k.
Proof. destruct k as [[[c s] d] st]. reflexivity. Qed.

Lemma lookk_cons k f fs : lookk (f :: fs) k = if kmatch k f then Some (f_val f) else lookk fs k.
Proof. destruct k as [[[c s] d] st]. unfold lookk, look. cbn [find kmatch]. destruct (fmatches c s d st f); reflexivity. Qed.
Lemma lookk_nil k : lookk [] k = None.
Proof. destruct k as [[[c s] d] st]. reflexivity. Qed.

Lemma lookk_app fs gs k : lookk (fs ++ gs) k = match lookk fs k with Some v => Some v | None => lookk gs k end.
Proof. induction fs as [|f fs IH]; [now rewrite lookk_nil|]. cbn [app]. rewrite !lookk_cons. destruct (kmatch k f); [reflexivity|exact IH]. Qed.

Lemma lookk_some_exists fs k : (exists v, lookk fs k = Some v) <-> existsb (kmatch k) fs = true.
Proof.
  induction fs as [|f fs IH]; [rewrite lookk_nil; split; [intros [v H]; discriminate|discriminate]|].
  rewrite lookk_cons. cbn [existsb]. destruct (kmatch k f); [split; eauto|]. exact IH.
Qed.

Lemma lookk_none_exists fs k : lookk fs k = None <-> existsb (kmatch k) fs = false.
Proof.
  destruct (existsb (kmatch k) fs) eqn:E.
  - apply lookk_some_exists in E as [v E]. rewrite E. split; discriminate.
  - destruct (lookk fs k) eqn:L; [|tauto]. assert (existsb (kmatch k) fs = true) by (apply lookk_some_exists; eauto). congruence.
Qed.

Lemma kmatch_new k k' v c : kmatch k' (new_factor k v c) = fkey_eqb k k'.
Proof. rewrite kmatch_key. destruct k as [[[a b] d] e]. reflexivity. Qed.
Lemma val_new k v c : f_val (new_factor k v c) = v.
Proof. destruct k as [[[a b] d] e]. reflexivity. Qed.

(** ** update_wfactor *)
Lemma update_first_spec k v fs :
  match update_first k v fs with
  | Some r => existsb (kmatch k) fs = true /\ forall k', lookk r k' = if fkey_eqb k k' then Some v else lookk fs k'
  | None => existsb (kmatch k) fs = false
  end.
Proof.
  induction fs as [|f fs IH]; cbn [update_first existsb]; [reflexivity|].
  destruct (kmatch k f) eqn:M.
  - split; [reflexivity|]. intros k'. rewrite !lookk_cons.
    assert (E : kmatch k' (mkFactor (f_cr f) (f_src f) (f_dest f) (f_step f) v (f_cmt f)) = kmatch k' f) by (rewrite !kmatch_key; reflexivity).
    rewrite E. cbn [f_val]. rewrite kmatch_key in M. destruct (fkey_eqb_spec (key_of f) k) as [K|K]; [|discriminate].
    rewrite kmatch_key, K. destruct (fkey_eqb k k'); reflexivity.
  - destruct (update_first k v fs) as [r|].
    + destruct IH as [E L]. split; [exact E|]. intros k'. rewrite !lookk_cons, L.
      destruct (kmatch k' f) eqn:M'; [|reflexivity].
      destruct (fkey_eqb_spec k k') as [->|]; [congruence|reflexivity].
    + exact IH.
Qed.

Lemma lookk_update fs k v c k' : lookk (update_wfactor fs k v c) k' = if fkey_eqb k k' then Some v else lookk fs k'.
Proof.
  unfold update_wfactor. pose proof (update_first_spec k v fs) as S. destruct (update_first k v fs) as [r|].
  - apply S.
  - rewrite lookk_app, lookk_cons, lookk_nil, kmatch_new, val_new.
    destruct (fkey_eqb_spec k k') as [<-|N].
    + apply lookk_none_exists in S. now rewrite S.
    + destruct (lookk fs k'); reflexivity.
Qed.

Lemma lookk_ensure fs k v c k' :
  lookk (ensure_wfactor fs k v c) k' = match lookk fs k' with Some x => Some x | None => if fkey_eqb k k' then Some v else None end.
Proof.
  unfold ensure_wfactor. destruct (existsb (kmatch k) fs) eqn:E.
  - destruct (lookk fs k') eqn:L; [reflexivity|]. destruct (fkey_eqb_spec k k') as [<-|]; [|reflexivity].
    apply lookk_some_exists in E as [x E]. congruence.
  - rewrite lookk_app, lookk_cons, lookk_nil, kmatch_new, val_new. destruct (lookk fs k'); reflexivity.
Qed.

(** an existing lookup survives [ensure] *)
Lemma ensure_keeps fs k v c k' x : lookk fs k' = Some x -> lookk (ensure_wfactor fs k v c) k' = Some x.
Proof. intros H. now rewrite lookk_ensure, H. Qed.

(** ** ensure_exports *)
Lemma ensure_exports_keeps wf cs : forall fs fs' k x,
  ensure_exports wf fs cs = Ok fs' -> lookk fs k = Some x -> lookk fs' k = Some x.
Proof.
  induction cs as [|[c s] cs IH]; cbn [ensure_exports]; intros fs fs' k x H L.
  - now injection H as <-.
  - set (fs1 := match lookk fs (c, s, SUMINISTRO, STEP_A) with Some v => _ | None => fs end) in *.
    assert (L1 : lookk fs1 k = Some x).
    { unfold fs1. destruct (lookk fs (c, s, SUMINISTRO, STEP_A)); [|exact L]. now apply ensure_keeps, ensure_keeps. }
    destruct (lookk fs1 (grid_key c)) as [g|].
    + eapply IH; [exact H|]. now apply ensure_keeps, ensure_keeps.
    + destruct (existsb (Carrier_beq c) wf); [discriminate|]. eapply IH; eassumption.
Qed.

Definition forced_keys : list fkey := [K_EAMB_INSITU; K_EAMB_RED; K_TERMO_INSITU; K_TERMO_RED; K_EL_INSITU].

(** the five updates of normalize *)
Definition forced_updates (fs : list Factor) : list Factor :=
  let wf := carriers_of fs in
  let fs := update_wfactor fs K_EAMB_INSITU one [] in
  let fs := update_wfactor fs K_EAMB_RED one [] in
  let fs := update_wfactor fs K_TERMO_INSITU one [] in
  let fs := update_wfactor fs K_TERMO_RED one [] in
  if existsb (Carrier_beq ELECTRICIDAD) wf then update_wfactor fs K_EL_INSITU one [] else fs.

Lemma forced_updates_other fs k : ~ In k forced_keys -> lookk (forced_updates fs) k = lookk fs k.
Proof.
  intros N. unfold forced_updates.
  assert (D : forall k0, In k0 forced_keys -> fkey_eqb k0 k = false).
  { intros k0 H0. destruct (fkey_eqb_spec k0 k) as [->|]; [contradiction|reflexivity]. }
  destruct (existsb _ _); rewrite ?lookk_update, ?D; cbn; tauto.
Qed.

Lemma normalize_unfold fs d1 d2 :
  normalize_factors fs d1 d2 =
  let fs1 := forced_updates fs in
  if negb (forallb (fun c => existsb (kmatch (grid_key c)) fs1) (carriers_of fs)) then Err MissingFactor else
  do fs2 <- ensure_exports (carriers_of fs) fs1 exp_carriers;
  Ok (ensure_wfactor (ensure_wfactor fs2 K_RED1 d1 []) K_RED2 d2 []).
Proof. reflexivity. Qed.

(** user-supplied factors are respected, except the ones fixed by the method *)
Lemma normalize_respects fs d1 d2 fs' k v :
  normalize_factors fs d1 d2 = Ok fs' -> ~ In k forced_keys -> lookk fs k = Some v -> lookk fs' k = Some v.
Proof.
  rewrite normalize_unfold. cbv zeta. intros H N L.
  destruct (negb _); [discriminate|].
  destruct (ensure_exports (carriers_of fs) (forced_updates fs) exp_carriers) as [fs2|] eqn:E; cbn [bind] in H; [|discriminate].
  injection H as <-. apply ensure_keeps, ensure_keeps. eapply ensure_exports_keeps; [exact E|].
  now rewrite forced_updates_other.
Qed.

(** nothing is removed: every key defined before is defined after *)
Lemma normalize_keeps_defined fs d1 d2 fs' k : normalize_factors fs d1 d2 = Ok fs' ->
  lookk fs k <> None -> lookk fs' k <> None.
Proof.
  rewrite normalize_unfold. cbv zeta. intros H L.
  destruct (negb _); [discriminate|].
  destruct (ensure_exports (carriers_of fs) (forced_updates fs) exp_carriers) as [fs2|] eqn:E; cbn [bind] in H; [|discriminate].
  injection H as <-.
  assert (L1 : exists x, lookk (forced_updates fs) k = Some x).
  { unfold forced_updates. destruct (lookk fs k) as [x|] eqn:Lx; [|congruence].
    destruct (existsb _ _); rewrite ?lookk_update;
      repeat (match goal with |- context [fkey_eqb ?a k] => destruct (fkey_eqb a k) end); eauto. }
  destruct L1 as [x L1]. rewrite (ensure_keeps _ _ _ _ _ x); [discriminate|]. apply ensure_keeps.
  eapply ensure_exports_keeps; eassumption.
Qed.

(** the factors fixed by the method *)
Lemma forced_updates_forced fs k : In k [K_EAMB_INSITU; K_EAMB_RED; K_TERMO_INSITU; K_TERMO_RED] ->
  lookk (forced_updates fs) k = Some one.
Proof.
  intros H. unfold forced_updates. cbn in H.
  destruct (existsb _ _); rewrite ?lookk_update; destruct H as [<-|[<-|[<-|[<-|[]]]]]; reflexivity.
Qed.

Lemma normalize_forced fs d1 d2 fs' k : normalize_factors fs d1 d2 = Ok fs' ->
  In k [K_EAMB_INSITU; K_EAMB_RED; K_TERMO_INSITU; K_TERMO_RED] -> lookk fs' k = Some one.
Proof.
  rewrite normalize_unfold. cbv zeta. intros H Hk.
  destruct (negb _); [discriminate|].
  destruct (ensure_exports (carriers_of fs) (forced_updates fs) exp_carriers) as [fs2|] eqn:E; cbn [bind] in H; [|discriminate].
  injection H as <-. apply ensure_keeps, ensure_keeps. eapply ensure_exports_keeps; [exact E|].
  now apply forced_updates_forced.
Qed.

(** a carrier of the input without grid supply factor makes the set unusable *)
Lemma normalize_rejects fs d1 d2 c :
  In c (carriers_of fs) -> lookk (forced_updates fs) (grid_key c) = None ->
  normalize_factors fs d1 d2 = Err MissingFactor.
Proof.
  intros Hc L. rewrite normalize_unfold. cbv zeta.
  assert (F : forallb (fun c => existsb (kmatch (grid_key c)) (forced_updates fs)) (carriers_of fs) = false).
  { apply not_true_is_false. intros T. rewrite forallb_forall in T. specialize (T c Hc).
    apply lookk_none_exists in L. congruence. }
  now rewrite F.
Qed.

