(** * Weighted energy under the regulatory structure of factors (C13, C14) *)
From Cteepbd Require Import Model.Factors Proofs.StepFacts Proofs.ColFacts Proofs.EpFacts Proofs.Breakdown
  Proofs.FactorFacts Proofs.NeededKeys Proofs.CtxFacts Proofs.ClosedForm Proofs.DataEquiv Proofs.CompleteFacts Proofs.Refine Proofs.StripFacts.
From Cteepbd Require Import Spec.Iso52000.
Open Scope Qc_scope.

(** on-site sources weigh (1,0,0); cogenerated electricity weighs [phi] *)
Definition fsrc_reg (phi : RNC) (j : ProdSource) : RNC := match j with EL_COGEN => phi | _ => one end.

Definition rnc_nonneg (r : RNC) : Prop := 0 <= ren r /\ 0 <= nren r /\ 0 <= co2 r.

Lemma rnc_nonneg_add a b : rnc_nonneg a -> rnc_nonneg b -> rnc_nonneg (radd a b).
Proof. intros (A1 & A2 & A3) (B1 & B2 & B3). repeat split; cbn; now apply Qc_le_0_add. Qed.
Lemma rnc_nonneg_scale k a : 0 <= k -> rnc_nonneg a -> rnc_nonneg (rscale k a).
Proof. intros K (A1 & A2 & A3). repeat split; cbn; now apply Qc_le_0_mul. Qed.
Lemma rnc_nonneg_0 : rnc_nonneg rnc0.
Proof. repeat split; cbn; apply Qcle_refl. Qed.
Lemma rnc_nonneg_one : rnc_nonneg one.
Proof. repeat split; cbn; qlra. Qed.

Section Carrier.
  Variables (fs : list Factor) (cr : Carrier) (lm : bool) (data : list Energy) (g phi : RNC).
  Hypothesis Hreg : regular fs cr (cx_srcs (mk_ctx cr lm data)) g (fsrc_reg phi).
  Hypothesis Hn : nonneg_data data.
  Hypothesis Hd : dom_data data.
  Let x := mk_ctx cr lm data.

  Definition used_on : Qc := a_used_src x EL_INSITU + a_used_src x PS_TERMOSOLAR + a_used_src x PS_EAMBIENTE.

  Lemma prod_used_exp j : a_prod_src x j = a_used_src x j + a_exp_src x j.
  Proof. unfold a_prod_src, a_used_src, a_exp_src. rewrite <- ann_add. apply ann_ext. intros s _. unfold s_exp_src. ring. Qed.

  Lemma del_onst_sum : a_del_onst x = a_prod_src x EL_INSITU + a_prod_src x PS_TERMOSOLAR + a_prod_src x PS_EAMBIENTE.
  Proof. unfold a_del_onst, a_prod_src. rewrite <- !ann_add. apply ann_ext. intros s _. reflexivity. Qed.

  Lemma onst_has_source : qeqb (a_del_onst x) 0 = false -> exists j, ps_carrier j = cr /\ ps_source j = INSITU.
  Proof.
    intros D. destruct (Carrier_eq_dec cr ELECTRICIDAD) as [->|N1]; [exists EL_INSITU; split; reflexivity|].
    destruct (Carrier_eq_dec cr TERMOSOLAR) as [->|N2]; [exists PS_TERMOSOLAR; split; reflexivity|].
    destruct (Carrier_eq_dec cr EAMBIENTE) as [->|N3]; [exists PS_EAMBIENTE; split; reflexivity|].
    exfalso. assert (Z : a_del_onst x = 0).
    { apply del_onst_zero. intros j Hcj _. destruct j; cbn in Hcj; congruence. }
    rewrite Z in D. destruct (qeqb_spec 0 0); [discriminate|congruence].
  Qed.

  (** a carrier with on-site delivery has its (unique) on-site source declared *)
  Lemma onst_declared : qeqb (a_del_onst x) 0 = false ->
    forall j, ps_carrier j = cr -> ps_source j = INSITU -> In j (cx_srcs x).
  Proof.
    intros D j Hc Hs. destruct (existsb (is_prod_src j) (filter (has_carrier cr) data)) eqn:E; [now apply in_srcs|].
    exfalso. assert (Z : a_del_onst x = 0).
    { apply del_onst_zero. intros j' Hc' Hs'.
      assert (j' = j) by (destruct j, j'; cbn in *; congruence). now subst j'. }
    rewrite Z in D. destruct (qeqb_spec 0 0); [discriminate|congruence].
  Qed.

  (** step A and step B weighted energy of the carrier in closed form *)
  Definition NA : RNC := radd (radd (rscale (a_del_grid x) g) (rscale used_on one)) (rscale (a_cgnus x) g).
  Definition XCHP : RNC := rscale (a_exp_src x EL_COGEN) phi.

  Lemma carrier_closed k :
    exists p, weighted_parts fs x = Ok p /\
      we_a (we_of_parts k p) = rsub NA XCHP /\
      we_b (we_of_parts k p) =
        rsub (rsub NA XCHP)
             (rscale k (rsub (rscale (a_exp_ne x + a_exp_grid x) g)
                             (radd (rscale (a_exp_src x EL_INSITU + a_exp_src x PS_TERMOSOLAR + a_exp_src x PS_EAMBIENTE) one) XCHP))) /\
      we_del_onst (we_of_parts k p) = rscale (a_del_onst x) one /\
      we_del_cgn (we_of_parts k p) = rscale (a_cgnus x) g /\
      we_del_grid (we_of_parts k p) = rscale (a_del_grid x) g /\
      we_exp_a (we_of_parts k p) = radd (rscale (a_exp_src x EL_INSITU + a_exp_src x PS_TERMOSOLAR + a_exp_src x PS_EAMBIENTE) one) XCHP.
  Proof.
    destruct (weighted_closed fs cr lm data g (fsrc_reg phi) Hreg Hn Hd k onst_declared onst_has_source) as (p & W & Ed & Ea & Eb).
    fold x in W, Ed, Ea, Eb. exists p. split; [exact W|].
    set (xa := XA cr lm data (fsrc_reg phi)) in *. set (wd := Wdel cr lm data g (fsrc_reg phi)) in *.
    assert (Xeq : xa = radd (rscale (a_exp_src x EL_INSITU + a_exp_src x PS_TERMOSOLAR + a_exp_src x PS_EAMBIENTE) one) XCHP).
    { unfold xa, XA, XCHP. cbn [map all_prodsources fsrc_reg]. rewrite !rsum_cons, rsum_nil. fold x. rnc. }
    assert (Won : w_onst_closed cr lm data (fsrc_reg phi) = rscale (a_del_onst x) one).
    { unfold w_onst_closed. fold x. destruct (qeqb_spec (a_del_onst x) 0) as [Z|NZ]; [rewrite Z; rnc|].
      destruct (find _ all_prodsources) as [j|] eqn:F.
      - apply find_some in F as [_ F]. apply andb_true_iff in F as [_ F2]. apply Source_beq_eq in F2.
        destruct j; try discriminate; reflexivity.
      - exfalso. destruct onst_has_source as (j & Hc & Hs); [destruct (qeqb_spec (a_del_onst x) 0); congruence|].
        eapply find_none in F; [|apply (all_prodsources_complete j)]. rewrite Hc, Hs in F.
        rewrite (proj2 (Carrier_beq_eq cr cr) eq_refl) in F. discriminate. }
    assert (Wd : wd = radd (radd (rscale (a_del_grid x) g) (rscale (a_del_onst x) one)) (rscale (a_cgnus x) g)).
    { unfold wd, Wdel. fold x. rewrite Won. destruct (qeqb_spec (a_cgnus x) 0) as [Z|NZ]; [rewrite Z; rnc|reflexivity]. }
    assert (Key : rsub wd xa = rsub NA XCHP).
    { rewrite Wd, Xeq. unfold NA, used_on. rewrite del_onst_sum, !prod_used_exp. rnc. }
    (* the components of we_of_parts *)
    assert (Parts : we_del_onst (we_of_parts k p) = w_onst_closed cr lm data (fsrc_reg phi) /\
                    we_del_cgn (we_of_parts k p) = (if qeqb (a_cgnus x) 0 then rnc0 else rscale (a_cgnus x) g) /\
                    we_del_grid (we_of_parts k p) = rscale (a_del_grid x) g /\
                    we_exp_a (we_of_parts k p) = rsub (we_del (we_of_parts k p)) (we_a (we_of_parts k p))).
    { destruct (weighted_regular fs cr lm data g (fsrc_reg phi) Hreg onst_declared onst_has_source) as (wo & Ewo & W2).
      fold x in Ewo, W2. rewrite W in W2. injection W2 as ->. cbv zeta.
      destruct (qeqb (a_exp_ne x + a_exp_grid x) 0); unfold we_of_parts;
        cbn [we_del_onst we_del_cgn we_del_grid we_exp_a we_del we_a wp_grid wp_onst wp_cgn wp_xa_ne wp_xa_gr];
        (repeat split; [exact Ewo|rnc]). }
    destruct Parts as (P1 & P2 & P3 & P4).
    repeat split.
    - rewrite Ea. exact Key.
    - rewrite Eb, Key, Xeq. reflexivity.
    - rewrite P1. exact Won.
    - rewrite P2. destruct (qeqb_spec (a_cgnus x) 0) as [Z|NZ]; [rewrite Z; rnc|reflexivity].
    - exact P3.
    - rewrite P4, Ed, Ea, <- Xeq. fold xa wd. rnc.
  Qed.

  Lemma used_src_an_nonneg j : 0 <= a_used_src x j.
  Proof.
    unfold a_used_src. apply ann_nonneg. intros s Hs. apply steps_inv in Hs as (t & ->).
    now destruct (used_src_bounds (cx_prio (mk_ctx cr lm data)) lm _ (col_at_ok cr data t Hn) j) as [B _].
  Qed.

  Lemma del_grid_an_nonneg : 0 <= a_del_grid x.
  Proof.
    unfold a_del_grid. apply ann_nonneg. intros s Hs. apply steps_inv in Hs as (t & ->).
    now destruct (step_nonneg (cx_prio (mk_ctx cr lm data)) lm _ (col_at_ok cr data t Hn)) as (_ & _ & _ & _ & _ & _ & N & _).
  Qed.

  Lemma cgnus_an_nonneg : 0 <= a_cgnus x.
  Proof.
    unfold a_cgnus. apply ann_nonneg. intros s Hs. apply steps_inv in Hs as (t & ->).
    destruct (col_at_ok cr data t Hn). assumption.
  Qed.

  Lemma NA_nonneg : rnc_nonneg g -> rnc_nonneg NA.
  Proof.
    intros G. unfold NA. repeat apply rnc_nonneg_add; apply rnc_nonneg_scale; try assumption; try apply rnc_nonneg_one.
    - apply del_grid_an_nonneg.
    - unfold used_on. repeat apply Qc_le_0_add; apply used_src_an_nonneg.
    - apply cgnus_an_nonneg.
  Qed.
End Carrier.

(** ** Regulatory structure of a prepared factor set (before the cogeneration factors are appended) *)
Definition insitu_carriers : list Carrier := [ELECTRICIDAD; EAMBIENTE; TERMOSOLAR].

Definition reg_setb (fs : list Factor) : bool :=
  forallb (fun cr =>
             (match lookk fs (cr, INSITU, SUMINISTRO, STEP_A) with Some v => qeqb (ren v) 1 && qeqb (nren v) 0 && qeqb (co2 v) 0 | None => false end)
             && forallb (fun dest =>
                           (match lookk fs (cr, INSITU, dest, STEP_A) with Some v => qeqb (ren v) 1 && qeqb (nren v) 0 && qeqb (co2 v) 0 | None => false end)
                           && (match lookk fs (cr, INSITU, dest, STEP_B), lookk fs (grid_key cr) with
                               | Some a, Some b => qeqb (ren a) (ren b) && qeqb (nren a) (nren b) && qeqb (co2 a) (co2 b)
                               | _, _ => false end)) [A_RED; A_NEPB]) insitu_carriers
  && forallb (fun dest => forallb (fun step => match lookk fs (ELECTRICIDAD, SRC_COGEN, dest, step) with None => true | Some _ => false end) all_steps) all_dests
  && forallb (fun f => qleb 0 (ren (f_val f)) && qleb 0 (nren (f_val f)) && qleb 0 (co2 (f_val f))) fs.

Record reg_set (fs : list Factor) : Prop := {
  rs_sup : forall cr, In cr insitu_carriers -> lookk fs (cr, INSITU, SUMINISTRO, STEP_A) = Some one;
  rs_a : forall cr dest, In cr insitu_carriers -> dest <> SUMINISTRO -> lookk fs (cr, INSITU, dest, STEP_A) = Some one;
  rs_b : forall cr dest, In cr insitu_carriers -> dest <> SUMINISTRO -> lookk fs (cr, INSITU, dest, STEP_B) = lookk fs (grid_key cr)
                                                                         /\ lookk fs (grid_key cr) <> None;
  rs_nocgn : forall dest step, lookk fs (ELECTRICIDAD, SRC_COGEN, dest, step) = None;
  rs_nonneg : forall k v, lookk fs k = Some v -> rnc_nonneg v
}.

Lemma rnc_eqb_one v : qeqb (ren v) 1 && qeqb (nren v) 0 && qeqb (co2 v) 0 = true -> v = one.
Proof.
  intros H. apply andb_true_iff in H as [H H3]. apply andb_true_iff in H as [H1 H2].
  destruct (qeqb_spec (ren v) 1), (qeqb_spec (nren v) 0), (qeqb_spec (co2 v) 0); try discriminate. now apply rnc_eq.
Qed.

Lemma reg_setb_ok fs : reg_setb fs = true -> reg_set fs.
Proof.
  unfold reg_setb. intros H. apply andb_true_iff in H as [H Hnn]. apply andb_true_iff in H as [Hi Hc].
  rewrite forallb_forall in Hi, Hnn.
  assert (A : forall cr, In cr insitu_carriers ->
              lookk fs (cr, INSITU, SUMINISTRO, STEP_A) = Some one /\
              forall dest, dest <> SUMINISTRO -> lookk fs (cr, INSITU, dest, STEP_A) = Some one /\
                lookk fs (cr, INSITU, dest, STEP_B) = lookk fs (grid_key cr) /\ lookk fs (grid_key cr) <> None).
  { intros cr Hcr. specialize (Hi cr Hcr). apply andb_true_iff in Hi as [H1 H2]. split.
    - destruct (lookk fs (cr, INSITU, SUMINISTRO, STEP_A)) as [v|]; [|discriminate]. now rewrite (rnc_eqb_one v H1).
    - intros dest Hd. rewrite forallb_forall in H2.
      assert (Hin : In dest [A_RED; A_NEPB]) by (destruct dest; [congruence|cbn; tauto|cbn; tauto]).
      specialize (H2 dest Hin). apply andb_true_iff in H2 as [Ha Hb]. split.
      + destruct (lookk fs (cr, INSITU, dest, STEP_A)) as [v|]; [|discriminate]. now rewrite (rnc_eqb_one v Ha).
      + destruct (lookk fs (cr, INSITU, dest, STEP_B)) as [a|]; [|discriminate].
        destruct (lookk fs (grid_key cr)) as [b|]; [|discriminate]. split; [|discriminate].
        apply andb_true_iff in Hb as [Hb Hb3]. apply andb_true_iff in Hb as [Hb1 Hb2].
        destruct (qeqb_spec (ren a) (ren b)), (qeqb_spec (nren a) (nren b)), (qeqb_spec (co2 a) (co2 b)); try discriminate.
        f_equal. now apply rnc_eq. }
  constructor.
  - intros cr Hcr. now destruct (A cr Hcr).
  - intros cr dest Hcr Hd. destruct (A cr Hcr) as [_ B]. now destruct (B dest Hd).
  - intros cr dest Hcr Hd. destruct (A cr Hcr) as [_ B]. now destruct (B dest Hd).
  - intros dest step. rewrite forallb_forall in Hc. specialize (Hc dest).
    assert (Hdest : In dest all_dests) by (destruct dest; cbn; tauto). specialize (Hc Hdest).
    rewrite forallb_forall in Hc. assert (Hstep : In step all_steps) by (destruct step; cbn; tauto). specialize (Hc step Hstep).
    destruct (lookk fs (ELECTRICIDAD, SRC_COGEN, dest, step)); [discriminate|reflexivity].
  - intros k v L. destruct k as [[[c s] d] st]. unfold lookk, look in L.
    destruct (find (fmatches c s d st) fs) as [f|] eqn:F; [|discriminate]. injection L as <-.
    apply find_some in F as [Hf _]. specialize (Hnn f Hf).
    apply andb_true_iff in Hnn as [Hnn H3]. apply andb_true_iff in Hnn as [H1 H2].
    destruct (qleb_spec 0 (ren (f_val f))), (qleb_spec 0 (nren (f_val f))), (qleb_spec 0 (co2 (f_val f))); try discriminate.
    repeat split; assumption.
Qed.

(** the factor set seen by the balance: the prepared set plus, possibly, the cogeneration factors *)
Section RegularCarrier.
  Variables (fs0 : list Factor) (lm : bool) (data : list Energy).
  Hypothesis Hrs : reg_set fs0.

  Lemma regular_plain cr g :
    lookk fs0 (grid_key cr) = Some g -> ~ In EL_COGEN (cx_srcs (mk_ctx cr lm data)) ->
    regular fs0 cr (cx_srcs (mk_ctx cr lm data)) g (fsrc_reg rnc0).
  Proof.
    intros G Hnc. constructor.
    - exact G.
    - intros j Hc Hs _. assert (Hin : In cr insitu_carriers) by (destruct j; cbn in *; try discriminate; subst; cbn; tauto).
      rewrite (rs_sup _ Hrs cr Hin). destruct j; try discriminate; reflexivity.
    - intros j dest Hj Hd. destruct (srcs_carrier cr lm data j Hj) as [Hc _].
      assert (Hns : j <> EL_COGEN) by (intros ->; contradiction).
      assert (Hin : In cr insitu_carriers) by (destruct j; cbn in *; try congruence; subst; cbn; tauto).
      assert (Hs : ps_source j = INSITU) by (destruct j; try reflexivity; congruence).
      rewrite Hs, (rs_a _ Hrs cr dest Hin Hd). destruct j; try congruence; reflexivity.
    - intros j dest Hj Hd. destruct (srcs_carrier cr lm data j Hj) as [Hc _].
      assert (Hns : j <> EL_COGEN) by (intros ->; contradiction).
      assert (Hin : In cr insitu_carriers) by (destruct j; cbn in *; try congruence; subst; cbn; tauto).
      assert (Hs : ps_source j = INSITU) by (destruct j; try reflexivity; congruence).
      rewrite Hs. destruct (rs_b _ Hrs cr dest Hin Hd) as [E _]. now rewrite E.
  Qed.

  Lemma lookk_extra_other fa g k : (let '(c, s, _, _) := k in c <> ELECTRICIDAD \/ s <> SRC_COGEN) ->
    lookk (fs0 ++ cgn_extra fa g) k = lookk fs0 k.
  Proof.
    intros H. rewrite lookk_app. destruct (lookk fs0 k) eqn:L; [reflexivity|].
    destruct k as [[[c s] d] st]. unfold cgn_extra. rewrite !lookk_cons, lookk_nil.
    assert (M : forall d' st' v, kmatch (c, s, d, st) (mkf ELECTRICIDAD SRC_COGEN d' st' v) = false).
    { intros d' st' v. rewrite kmatch_key. change (key_of (mkf ELECTRICIDAD SRC_COGEN d' st' v)) with (ELECTRICIDAD, SRC_COGEN, d', st').
      destruct (fkey_eqb_spec (ELECTRICIDAD, SRC_COGEN, d', st') (c, s, d, st)) as [E|]; [|reflexivity].
      injection E; intros; subst. destruct H; congruence. }
    now rewrite !M.
  Qed.

  Lemma regular_cgn cr g fa gel :
    lookk fs0 (grid_key cr) = Some g -> lookk fs0 (grid_key ELECTRICIDAD) = Some gel ->
    regular (fs0 ++ cgn_extra fa gel) cr (cx_srcs (mk_ctx cr lm data)) g (fsrc_reg fa).
  Proof.
    intros G Gel. constructor.
    - rewrite lookk_extra_other by (right; discriminate). exact G.
    - intros j Hc Hs _. rewrite lookk_extra_other by (right; discriminate).
      assert (Hin : In cr insitu_carriers) by (destruct j; cbn in *; try discriminate; subst; cbn; tauto).
      rewrite (rs_sup _ Hrs cr Hin). destruct j; try discriminate; reflexivity.
    - intros j dest Hj Hd. destruct (srcs_carrier cr lm data j Hj) as [Hc _].
      destruct (ProdSource_eq_dec j EL_COGEN) as [->|Hns].
      + cbn in Hc. subst cr. cbn [ps_source fsrc_reg]. rewrite lookk_app, (rs_nocgn _ Hrs).
        destruct dest; [congruence| |]; reflexivity.
      + assert (Hin : In cr insitu_carriers) by (destruct j; cbn in *; try congruence; subst; cbn; tauto).
        assert (Hs : ps_source j = INSITU) by (destruct j; try reflexivity; congruence).
        rewrite Hs, lookk_extra_other by (right; discriminate). rewrite (rs_a _ Hrs cr dest Hin Hd). destruct j; try congruence; reflexivity.
    - intros j dest Hj Hd. destruct (srcs_carrier cr lm data j Hj) as [Hc _].
      destruct (ProdSource_eq_dec j EL_COGEN) as [->|Hns].
      + cbn in Hc. subst cr. cbn [ps_source]. rewrite lookk_app, (rs_nocgn _ Hrs).
        unfold grid_key in *. rewrite G in Gel. injection Gel as <-. destruct dest; [congruence| |]; reflexivity.
      + assert (Hin : In cr insitu_carriers) by (destruct j; cbn in *; try congruence; subst; cbn; tauto).
        assert (Hs : ps_source j = INSITU) by (destruct j; try reflexivity; congruence).
        rewrite Hs, lookk_extra_other by (right; discriminate). destruct (rs_b _ Hrs cr dest Hin Hd) as [E _]. now rewrite E.
  Qed.
End RegularCarrier.

(** ** Whole building under a regulatory factor set *)
Section Building.
  Variables (fs0 : list Factor) (c : Components) (k area : Qc) (lm : bool) (n : nat) (ep : EP).
  Hypothesis Hrs : reg_set fs0.
  Hypothesis Hn : nonneg_data (c_data c).
  Hypothesis Hd : dom_data (c_data c).
  Hypothesis Hwf : wf n (c_data c).
  Hypothesis Hpos : (0 < n)%nat.
  Hypothesis Hep : energy_performance c fs0 k area lm = Ok ep.
  Let data := c_data c.

  (** the cogeneration factor in force: phi (rnc0 when there is no cogeneration) *)
  Definition has_cgn : bool := existsb is_cogen_pr data.

  Lemma cgn_steps : cgn_num_steps data = if has_cgn then n else 0%nat.
  Proof. unfold cgn_num_steps, has_cgn. apply num_steps_filter. exact Hwf. Qed.

  Lemma factors_shape :
    (has_cgn = false /\ ep_factors ep = fs0) \/
    (has_cgn = true /\ exists fa gel, ep_factors ep = fs0 ++ cgn_extra fa gel /\ lookk fs0 (grid_key ELECTRICIDAD) = Some gel /\
        compute_cgn_exp_fP_A fs0 data false = Ok (Some fa)).
  Proof.
    destruct (ep_ok _ _ _ _ _ _ Hep) as (_ & _ & _ & Hcg & _). fold data in Hcg.
    unfold add_cgn_factors in Hcg. destruct (compute_cgn_exp_fP_A fs0 data false) as [[fa|]|] eqn:C; cbn [bind] in Hcg; try discriminate.
    - right. rewrite findf_lookk in Hcg. change (ELECTRICIDAD, RED, SUMINISTRO, STEP_A) with (grid_key ELECTRICIDAD) in Hcg.
      destruct (lookk fs0 (grid_key ELECTRICIDAD)) as [gel|] eqn:G; cbn [bind] in Hcg; [|discriminate].
      injection Hcg as <-. split.
      + unfold compute_cgn_exp_fP_A in C. rewrite cgn_steps in C. destruct has_cgn; [reflexivity|discriminate].
      + exists fa, gel. repeat split; reflexivity.
    - left. injection Hcg as <-. split; [|reflexivity].
      unfold compute_cgn_exp_fP_A in C. rewrite cgn_steps in C. destruct has_cgn; [|reflexivity].
      destruct n; [lia|]. destruct (cgn_fuel_carriers data); [discriminate|].
      destruct (cgn_sum fs0 data (S n0) false (c0 :: l)); discriminate.
  Qed.

  Definition phi : RNC :=
    match compute_cgn_exp_fP_A fs0 data false with Ok (Some fa) => fa | _ => rnc0 end.

  Lemma no_cgn_no_src cr : has_cgn = false -> ~ In EL_COGEN (cx_srcs (mk_ctx cr lm data)).
  Proof.
    intros H Hin. destruct (srcs_carrier cr lm data EL_COGEN Hin) as [_ E].
    unfold has_cgn in H. assert (existsb is_cogen_pr data = true); [|congruence].
    eapply existsb_imp; [|exact E]. intros e Pe. destruct e; try discriminate. exact Pe.
  Qed.

  (** every carrier balance of the result is in closed form *)
  Lemma bal_closed b : In b (ep_bal ep) ->
    let cr := cx_cr (bc_ctx b) in
    exists g, lookk fs0 (grid_key cr) = Some g /\ rnc_nonneg g /\ bc_ctx b = mk_ctx cr lm data /\
      we_a (bc_we b) = rsub (NA cr lm data g) (XCHP cr lm data phi) /\
      we_b (bc_we b) =
        rsub (rsub (NA cr lm data g) (XCHP cr lm data phi))
             (rscale (bc_k b) (rsub (rscale (a_exp_ne (bc_ctx b) + a_exp_grid (bc_ctx b)) g)
                (radd (rscale (a_exp_src (bc_ctx b) EL_INSITU + a_exp_src (bc_ctx b) PS_TERMOSOLAR + a_exp_src (bc_ctx b) PS_EAMBIENTE) one)
                      (XCHP cr lm data phi)))) /\
      we_del_onst (bc_we b) = rscale (a_del_onst (bc_ctx b)) one /\
      we_del_cgn (bc_we b) = rscale (a_cgnus (bc_ctx b)) g /\
      we_del_grid (bc_we b) = rscale (a_del_grid (bc_ctx b)) g /\
      we_exp_a (bc_we b) = radd (rscale (a_exp_src (bc_ctx b) EL_INSITU + a_exp_src (bc_ctx b) PS_TERMOSOLAR + a_exp_src (bc_ctx b) PS_EAMBIENTE) one)
                                (XCHP cr lm data phi).
  Proof.
    intros Hb cr. destruct (ep_ok _ _ _ _ _ _ Hep) as (_ & _ & _ & _ & B & _). fold data in B.
    rewrite Forall_forall in B. destruct (B b Hb) as [Hctx Hw]. fold cr in Hctx.
    (* the grid factor of the carrier is defined (weighted_parts succeeded) *)
    assert (Hg : exists g, lookk (ep_factors ep) (grid_key cr) = Some g).
    { unfold weighted_parts in Hw. cbv zeta in Hw. rewrite Hctx in Hw. change (cx_cr (mk_ctx cr lm data)) with cr in Hw.
      rewrite (findf_lookk (ep_factors ep) cr RED) in Hw. unfold grid_key.
      destruct (lookk (ep_factors ep) (cr, RED, SUMINISTRO, STEP_A)) as [g|]; [eauto|discriminate]. }
    destruct Hg as [g Hg].
    destruct factors_shape as [[Hc Ef]|[Hc (fa & gel & Ef & Gel & Cfa)]].
    - rewrite Ef in Hg, Hw. exists g. split; [exact Hg|]. split; [exact (rs_nonneg _ Hrs _ _ Hg)|]. split; [exact Hctx|].
      pose proof (regular_plain fs0 lm data Hrs cr g Hg (no_cgn_no_src cr Hc)) as R.
      destruct (carrier_closed fs0 cr lm data g rnc0 R Hn Hd (bc_k b)) as (p & W & Ea & Eb & E1 & E2 & E3 & E4).
      rewrite Hctx in Hw. rewrite Hw in W. injection W as <-.
      assert (X0 : forall ph, XCHP cr lm data ph = rnc0).
      { intros ph. unfold XCHP. rewrite (absent_exp_zero cr lm data EL_COGEN (no_cgn_no_src cr Hc)). rnc. }
      unfold bc_we. rewrite Hctx. rewrite !X0 in *. repeat split; assumption.
    - rewrite Ef in Hg, Hw. rewrite lookk_extra_other in Hg by (right; discriminate).
      exists g. split; [exact Hg|]. split; [exact (rs_nonneg _ Hrs _ _ Hg)|]. split; [exact Hctx|].
      pose proof (regular_cgn fs0 lm data Hrs cr g fa gel Hg Gel) as R.
      destruct (carrier_closed _ cr lm data g fa R Hn Hd (bc_k b)) as (p & W & Ea & Eb & E1 & E2 & E3 & E4).
      rewrite Hctx in Hw. rewrite Hw in W. injection W as <-.
      assert (P : phi = fa) by (unfold phi; now rewrite Cfa).
      unfold bc_we. rewrite Hctx, P. repeat split; assumption.
  Qed.
End Building.

(** ** RER: range and nesting (k_exp = 0) *)
Section Rer.
  Variables (fs0 : list Factor) (c : Components) (area : Qc) (lm : bool) (n : nat) (ep : EP).
  Hypothesis Hrs : reg_set fs0.
  Hypothesis Hn : nonneg_data (c_data c).
  Hypothesis Hd : dom_data (c_data c).
  Hypothesis Hwf : wf n (c_data c).
  Hypothesis Hpos : (0 < n)%nat.
  Hypothesis Hep : energy_performance c fs0 0 area lm = Ok ep.
  Let data := c_data c.
  Let ph := phi fs0 c.

  Lemma bal_k0 b : In b (ep_bal ep) -> bc_k b = 0.
  Proof. intros Hb. destruct (ep_ok _ _ _ _ _ _ Hep) as (_ & _ & _ & _ & _ & _ & K & _). rewrite Forall_forall in K. now apply K. Qed.

  Lemma we_b_is_a b : In b (ep_bal ep) -> we_b (bc_we b) = we_a (bc_we b).
  Proof. intros Hb. unfold bc_we. rewrite (bal_k0 b Hb). unfold we_of_parts. cbn [we_b we_a]. rnc. Qed.

  Definition is_el (b : BalCr) : bool := Carrier_beq (cx_cr (bc_ctx b)) ELECTRICIDAD.

  Lemma bal_carriers : map (fun b => cx_cr (bc_ctx b)) (ep_bal ep) = avail_carriers data.
  Proof. now destruct (ep_ok _ _ _ _ _ _ Hep) as (_ & _ & _ & _ & _ & M & _). Qed.

  Lemma bal_nodup : NoDup (map (fun b => cx_cr (bc_ctx b)) (ep_bal ep)).
  Proof. rewrite bal_carriers. unfold avail_carriers. apply NoDup_filter. apply all_carriers_nodup. Qed.

  (** a sum over the carriers = the electricity term + the sum over the other carriers *)
  Lemma split_el (f : BalCr -> Qc) (l : list BalCr) : NoDup (map (fun b => cx_cr (bc_ctx b)) l) ->
    qsum (map f l) = (match find is_el l with Some b => f b | None => 0 end) + qsum (map f (filter (fun b => negb (is_el b)) l)).
  Proof.
    induction l as [|b l IH]; intros ND; cbn [map find filter]; [rewrite !qsum_nil; ring|].
    inversion ND as [|? ? Hnotin ND']; subst. rewrite qsum_cons, (IH ND').
    destruct (is_el b) eqn:E; cbn [negb map].
    - (* no other electricity balance *)
      assert (F : find is_el l = None).
      { destruct (find is_el l) as [b'|] eqn:F; [|reflexivity]. exfalso. apply find_some in F as [Hb' E'].
        apply Hnotin. unfold is_el in E, E'. apply Carrier_beq_eq in E. apply Carrier_beq_eq in E'. rewrite E.
        rewrite <- E'. apply in_map_iff. exists b'. split; [reflexivity|exact Hb']. }
      rewrite F. ring.
    - rewrite qsum_cons. ring.
  Qed.

  Lemma ren_rsum {A} (f : A -> RNC) l : ren (rsum (map f l)) = qsum (map (fun a => ren (f a)) l).
  Proof. induction l as [|a l IH]; [reflexivity|]. cbn [map]. rewrite rsum_cons, qsum_cons. cbn [ren radd]. now rewrite IH. Qed.
  Lemma nren_rsum {A} (f : A -> RNC) l : nren (rsum (map f l)) = qsum (map (fun a => nren (f a)) l).
  Proof. induction l as [|a l IH]; [reflexivity|]. cbn [map]. rewrite rsum_cons, qsum_cons. cbn [nren radd]. now rewrite IH. Qed.

  (** a carrier other than electricity: non-negative weighted energy *)
  Lemma xchp_other b : In b (ep_bal ep) -> is_el b = false -> XCHP (cx_cr (bc_ctx b)) lm data ph = rnc0.
  Proof.
    intros Hb E. unfold XCHP. rewrite absent_exp_zero; [rnc|].
    intros Hin. destruct (srcs_carrier _ lm data EL_COGEN Hin) as [Hc _]. cbn in Hc.
    unfold is_el in E. rewrite <- Hc in E. cbn in E. discriminate.
  Qed.

  Lemma other_nonneg b : In b (ep_bal ep) -> is_el b = false -> rnc_nonneg (we_b (bc_we b)).
  Proof.
    intros Hb E. destruct (bal_closed fs0 c 0 area lm n ep Hrs Hn Hd Hwf Hpos Hep b Hb) as (g & _ & Gn & _ & Ea & _).
    rewrite (we_b_is_a b Hb), Ea. fold data. fold ph. rewrite (xchp_other b Hb E).
    pose proof (NA_nonneg (cx_cr (bc_ctx b)) lm data g Hn Gn) as N. destruct N as (N1 & N2 & N3).
    repeat split; cbn [ren nren co2 rsub rnc0]; [revert N1|revert N2|revert N3];
      generalize (NA (cx_cr (bc_ctx b)) lm data g); intros r H; destruct r; cbn in *; qlra.
  Qed.

  (** electricity: the weighted energy outside the on-site / cogeneration bookkeeping is what the grid delivers *)
  Lemma el_residual b : In b (ep_bal ep) ->
    ren (we_b (bc_we b)) - ren (we_del_onst (bc_we b)) - ren (we_del_cgn (bc_we b)) + ren (we_exp_a (bc_we b))
    = ren (we_del_grid (bc_we b)).
  Proof.
    intros Hb. destruct (bal_closed fs0 c 0 area lm n ep Hrs Hn Hd Hwf Hpos Hep b Hb) as (g & _ & _ & Hctx & Ea & _ & E1 & E2 & E3 & E4).
    rewrite (we_b_is_a b Hb), Ea, E1, E2, E3, E4. fold data. fold ph.
    remember (cx_cr (bc_ctx b)) as cr eqn:Ecr. fold data in Hctx. rewrite Hctx.
    unfold NA, used_on. rewrite (del_onst_sum cr lm data), !(prod_used_exp cr lm data).
    cbn [ren radd rsub rscale one]. ring.
  Qed.

  Lemma del_grid_ren_nonneg b : In b (ep_bal ep) -> 0 <= ren (we_del_grid (bc_we b)).
  Proof.
    intros Hb. destruct (bal_closed fs0 c 0 area lm n ep Hrs Hn Hd Hwf Hpos Hep b Hb) as (g & _ & (G1 & _) & Hctx & _ & _ & _ & _ & E3 & _).
    rewrite E3. remember (cx_cr (bc_ctx b)) as cr eqn:Ecr. fold data in Hctx. rewrite Hctx.
    cbn [ren rscale]. apply Qc_le_0_mul; [apply (del_grid_an_nonneg cr lm data Hn)|exact G1].
  Qed.

  (** the nearby perimeter never reports more renewable energy than the distant one *)
  Lemma nrb_le_total : ren_nrb ep <= ren (t_we_b ep).
  Proof.
    unfold ren_nrb, t_we_b, rtotal, tot, ren_of_el. rewrite ren_rsum.
    assert (K : ep_k ep = 0) by (now destruct (ep_ok _ _ _ _ _ _ Hep)). rewrite K.
    rewrite (split_el (fun b => ren (we_b (bc_we b))) _ bal_nodup).
    rewrite (split_el (fun b => if cr_is_nearby (cx_cr (bc_ctx b)) then ren (we_b (bc_we b)) else 0) _ bal_nodup).
    change (fun b => Carrier_beq (cx_cr (bc_ctx b)) ELECTRICIDAD) with is_el.
    assert (Far : qsum (map (fun b => if cr_is_nearby (cx_cr (bc_ctx b)) then ren (we_b (bc_we b)) else 0) (filter (fun b => negb (is_el b)) (ep_bal ep)))
                  <= qsum (map (fun b => ren (we_b (bc_we b))) (filter (fun b => negb (is_el b)) (ep_bal ep)))).
    { apply qsum_map_le. intros b Hb. apply filter_In in Hb as [Hb E]. apply negb_true_iff in E.
      destruct (cr_is_nearby _); [apply Qcle_refl|]. now destruct (other_nonneg b Hb E). }
    destruct (find is_el (ep_bal ep)) as [bel|] eqn:F.
    - apply find_some in F as [Hbel Eel].
      assert (NB : cr_is_nearby (cx_cr (bc_ctx bel)) = false) by (unfold is_el in Eel; apply Carrier_beq_eq in Eel; now rewrite Eel).
      rewrite NB. pose proof (el_residual bel Hbel) as R. pose proof (del_grid_ren_nonneg bel Hbel) as G.
      revert Far R G. generalize (qsum (map (fun b => if cr_is_nearby (cx_cr (bc_ctx b)) then ren (we_b (bc_we b)) else 0) (filter (fun b => negb (is_el b)) (ep_bal ep))))
        (qsum (map (fun b => ren (we_b (bc_we b))) (filter (fun b => negb (is_el b)) (ep_bal ep))))
        (ren (we_b (bc_we bel))) (ren (we_del_onst (bc_we bel))) (ren (we_del_cgn (bc_we bel))) (ren (we_exp_a (bc_we bel))) (ren (we_del_grid (bc_we bel))).
      intros a b0 w o cg ex dg Far R G. qlra.
    - revert Far. generalize (qsum (map (fun b => if cr_is_nearby (cx_cr (bc_ctx b)) then ren (we_b (bc_we b)) else 0) (filter (fun b => negb (is_el b)) (ep_bal ep))))
        (qsum (map (fun b => ren (we_b (bc_we b))) (filter (fun b => negb (is_el b)) (ep_bal ep)))).
      intros a b0 Far. qlra.
  Qed.

  (** the on-site perimeter reports a non-negative amount *)
  Lemma onst_nonneg : 0 <= ren_onst ep.
  Proof.
    unfold ren_onst, tot, ren_of_el. apply Qc_le_0_add.
    - apply qsum_map_nonneg. intros b Hb. destruct (cr_is_onsite (cx_cr (bc_ctx b))) eqn:O; [|apply Qcle_refl].
      assert (E : is_el b = false) by (unfold is_el; destruct (cx_cr (bc_ctx b)); try discriminate; reflexivity).
      now destruct (other_nonneg b Hb E).
    - change (fun b => Carrier_beq (cx_cr (bc_ctx b)) ELECTRICIDAD) with is_el.
      destruct (find is_el (ep_bal ep)) as [bel|] eqn:F; [|apply Qcle_refl]. apply find_some in F as [Hbel _].
      destruct (bal_closed fs0 c 0 area lm n ep Hrs Hn Hd Hwf Hpos Hep bel Hbel) as (g & _ & _ & Hctx & _ & _ & E1 & _).
      rewrite E1. remember (cx_cr (bc_ctx bel)) as cr eqn:Ecr. fold data in Hctx. rewrite Hctx.
      cbn [ren rscale one]. apply Qc_le_0_mul; [|qlra].
      rewrite (del_onst_sum cr lm data). unfold a_prod_src. repeat apply Qc_le_0_add; apply ann_nonneg; intros s Hs;
        apply steps_inv in Hs as (t & ->); unfold s_psrc; cbn [fst c_src]; destruct (col_at_ok cr data t Hn); assumption.
  Qed.

  (** nesting on-site <= nearby holds when no electricity is exported *)
  Lemma onst_le_nrb_no_export :
    (forall b, In b (ep_bal ep) -> is_el b = true -> we_exp_a (bc_we b) = rnc0) -> ren_onst ep <= ren_nrb ep.
  Proof.
    intros Hx. unfold ren_onst, ren_nrb, tot, ren_of_el.
    assert (K : ep_k ep = 0) by (now destruct (ep_ok _ _ _ _ _ _ Hep)). rewrite K.
    change (fun b => Carrier_beq (cx_cr (bc_ctx b)) ELECTRICIDAD) with is_el.
    assert (Near : qsum (map (fun b => if cr_is_onsite (cx_cr (bc_ctx b)) then ren (we_b (bc_we b)) else 0) (ep_bal ep))
                   <= qsum (map (fun b => if cr_is_nearby (cx_cr (bc_ctx b)) then ren (we_b (bc_we b)) else 0) (ep_bal ep))).
    { apply qsum_map_le. intros b Hb. destruct (cr_is_onsite (cx_cr (bc_ctx b))) eqn:O.
      - assert (N : cr_is_nearby (cx_cr (bc_ctx b)) = true) by (destruct (cx_cr (bc_ctx b)); try discriminate; reflexivity).
        rewrite N. apply Qcle_refl.
      - destruct (cr_is_nearby (cx_cr (bc_ctx b))) eqn:N; [|apply Qcle_refl].
        assert (E : is_el b = false) by (unfold is_el; destruct (cx_cr (bc_ctx b)); try discriminate; reflexivity).
        now destruct (other_nonneg b Hb E). }
    destruct (find is_el (ep_bal ep)) as [bel|] eqn:F.
    - apply find_some in F as [Hbel Eel]. rewrite (Hx bel Hbel Eel).
      destruct (bal_closed fs0 c 0 area lm n ep Hrs Hn Hd Hwf Hpos Hep bel Hbel) as (g & _ & (G1 & _) & Hctx & _ & _ & _ & E2 & _).
      assert (C : 0 <= ren (we_del_cgn (bc_we bel))).
      { rewrite E2. remember (cx_cr (bc_ctx bel)) as cr eqn:Ecr. fold data in Hctx. rewrite Hctx.
        cbn [ren rscale]. apply Qc_le_0_mul; [apply (cgnus_an_nonneg cr lm data Hn)|exact G1]. }
      cbn [ren rnc0]. revert Near C. generalize (qsum (map (fun b => if cr_is_onsite (cx_cr (bc_ctx b)) then ren (we_b (bc_we b)) else 0) (ep_bal ep)))
        (qsum (map (fun b => if cr_is_nearby (cx_cr (bc_ctx b)) then ren (we_b (bc_we b)) else 0) (ep_bal ep)))
        (ren (we_del_onst (bc_we bel))) (ren (we_del_cgn (bc_we bel))).
      intros a b0 o cg Near C. qlra.
    - revert Near. generalize (qsum (map (fun b => if cr_is_onsite (cx_cr (bc_ctx b)) then ren (we_b (bc_we b)) else 0) (ep_bal ep)))
        (qsum (map (fun b => if cr_is_nearby (cx_cr (bc_ctx b)) then ren (we_b (bc_we b)) else 0) (ep_bal ep))).
      intros a b0 Near. qlra.
  Qed.
End Rer.

(** ** The resources taken out for exported cogenerated electricity never exceed the weighted fuel *)
Lemma Qcle_refl_eq (a b : Qc) : a = b -> a <= b.
Proof. intros ->. apply Qcle_refl. Qed.

Lemma qsum_filter_le {A} (p q : A -> bool) (h : A -> Qc) l :
  (forall a, q a = true -> p a = true) -> (forall a, 0 <= h a) ->
  qsum (map h (filter q l)) <= qsum (map h (filter p l)).
Proof.
  intros Hqp Hh. induction l as [|a l IH]; [apply Qcle_refl|]. cbn [filter].
  destruct (q a) eqn:Q.
  - rewrite (Hqp a Q). cbn [map]. rewrite !qsum_cons. apply Qcplus_le_compat; [apply Qcle_refl|exact IH].
  - destruct (p a); cbn [map]; rewrite ?qsum_cons; [|exact IH].
    specialize (Hh a). revert IH Hh. generalize (qsum (map h (filter q l))) (qsum (map h (filter p l))) (h a). intros x y z IH Hh. qlra.
Qed.

Lemma compute_cgn_pos fs data : (0 < cgn_num_steps data)%nat ->
  compute_cgn_exp_fP_A fs data false =
  match cgn_fuel_carriers data with [] => Err WrongInput | crs => do r <- cgn_sum fs data (cgn_num_steps data) false crs; Ok (Some r) end.
Proof. intros H. unfold compute_cgn_exp_fP_A. destruct (cgn_num_steps data); [lia|reflexivity]. Qed.

Section Cogen.
  Variables (fs0 : list Factor) (c : Components) (area : Qc) (lm : bool) (n : nat) (ep : EP).
  Hypothesis Hrs : reg_set fs0.
  Hypothesis Hn : nonneg_data (c_data c).
  Hypothesis Hd : dom_data (c_data c).
  Hypothesis Hwf : wf n (c_data c).
  Hypothesis Hpos : (0 < n)%nat.
  Hypothesis Hep : energy_performance c fs0 0 area lm = Ok ep.
  Let data := c_data c.

  Definition gof (cr : Carrier) : RNC := lk (look fs0) cr RED SUMINISTRO STEP_A.

  Lemma gof_nonneg cr : rnc_nonneg (gof cr).
  Proof.
    unfold gof, lk. destruct (look fs0 cr RED SUMINISTRO STEP_A) as [v|] eqn:L; [|apply rnc_nonneg_0].
    apply (rs_nonneg _ Hrs (cr, RED, SUMINISTRO, STEP_A) v). exact L.
  Qed.

  (** annual cogeneration input of carrier [cr], as seen by its balance *)
  Lemma avail_steps cr : In cr (avail_carriers data) -> num_steps_of (filter (has_carrier cr) data) = n.
  Proof.
    intros H. rewrite (num_steps_filter n _ data Hwf). unfold avail_carriers in H. apply filter_In in H as [_ H].
    assert (E : existsb (has_carrier cr) data = true).
    { eapply existsb_imp; [|exact H]. intros e He. apply andb_true_iff in He as [_ He]. exact He. }
    now rewrite E.
  Qed.

  Lemma ann_mk cr (f : StepR -> Qc) (h : nat -> Qc) : In cr (avail_carriers data) ->
    (forall t, f (col_at (filter (has_carrier cr) data) t, step_out (cx_prio (mk_ctx cr lm data)) lm (col_at (filter (has_carrier cr) data) t)) = h t) ->
    ann (mk_ctx cr lm data) f = qsum (map h (seq 0 n)).
  Proof.
    intros Hc H. destruct (vec_spec data lm cr f h H) as [_ E]. rewrite E. unfold an. now rewrite (avail_steps cr Hc).
  Qed.

  Lemma cgnus_is_fuel cr : In cr (avail_carriers data) -> a_cgnus (mk_ctx cr lm data) = cgn_fuel_an data cr n.
  Proof.
    intros Hc. unfold a_cgnus, cgn_fuel_an. apply ann_mk; [exact Hc|]. intros t. unfold s_cg. cbn [fst c_cg col_at].
    rewrite colsum_filter. unfold colsum. f_equal. f_equal. apply filter_ext'. intros e. apply andb_comm.
  Qed.

  Lemma chp_prod_is_el : In ELECTRICIDAD (avail_carriers data) ->
    a_prod_src (mk_ctx ELECTRICIDAD lm data) EL_COGEN = cgn_el_an data n.
  Proof.
    intros Hc. unfold a_prod_src, cgn_el_an. apply ann_mk; [exact Hc|]. intros t. unfold s_psrc. cbn [fst c_src c_chp col_at].
    rewrite colsum_filter. unfold colsum. f_equal. f_equal. apply filter_ext'. intros e.
    destruct e as [? ? ? ? ?|? p ? ?|? ? ? ?|? ? ? ?]; cbn; rewrite ?andb_false_r; try reflexivity; destruct p; reflexivity.
  Qed.

  Lemma fuel_nonneg cr : 0 <= cgn_fuel_an data cr n.
  Proof.
    unfold cgn_fuel_an. apply qsum_map_nonneg. intros t _. unfold colsum. apply qsum_map_nonneg. intros e He.
    apply filter_In in He as [He Pe]. unfold val_at. apply nth_Forall; [|apply Qcle_refl].
    unfold nonneg_data in Hn. rewrite Forall_forall in Hn. apply Hn; [exact He|]. apply andb_true_iff in Pe as [Pe _].
    destruct e; try discriminate; reflexivity.
  Qed.

  (** component-wise bound, for any non-negative component selector *)
  Lemma xchp_bound (comp : RNC -> Qc) :
    (forall a b, comp (radd a b) = comp a + comp b) -> (forall k a, comp (rscale k a) = k * comp a) -> comp rnc0 = 0 ->
    (forall cr, 0 <= comp (gof cr)) ->
    In ELECTRICIDAD (avail_carriers data) ->
    comp (XCHP ELECTRICIDAD lm data (phi fs0 c)) <=
    qsum (map (fun cr => a_cgnus (mk_ctx cr lm data) * comp (gof cr)) (avail_carriers data)).
  Proof.
    intros Hadd Hsc H0 Hg Hel. unfold XCHP. rewrite Hsc.
    set (X := a_exp_src (mk_ctx ELECTRICIDAD lm data) EL_COGEN).
    assert (X0 : 0 <= X) by (apply (exp_src_nonneg ELECTRICIDAD lm data Hn)).
    assert (XE : X <= cgn_el_an data n).
    { rewrite <- (chp_prod_is_el Hel). unfold X. rewrite (prod_used_exp ELECTRICIDAD lm data).
      pose proof (used_src_an_nonneg ELECTRICIDAD lm data Hn EL_COGEN) as U. revert U.
      generalize (a_used_src (mk_ctx ELECTRICIDAD lm data) EL_COGEN) (a_exp_src (mk_ctx ELECTRICIDAD lm data) EL_COGEN). intros u e U. qlra. }
    unfold phi. fold data. destruct (compute_cgn_exp_fP_A fs0 data false) as [[fa|]|] eqn:C;
      try (rewrite H0, Qcmult_0_r; apply qsum_map_nonneg; intros cr Hcr; apply Qc_le_0_mul; [apply (cgnus_an_nonneg cr lm data Hn)|apply Hg]).
    assert (Ns : cgn_num_steps data = n).
    { unfold data. rewrite (cgn_steps c n Hwf). destruct (has_cgn c) eqn:HC; [reflexivity|]. exfalso.
      unfold compute_cgn_exp_fP_A in C. unfold data in C. rewrite (cgn_steps c n Hwf), HC in C. discriminate. }
    rewrite compute_cgn_pos in C by (rewrite Ns; exact Hpos). rewrite Ns in C.
    destruct (cgn_fuel_carriers data) as [|c0 cs] eqn:F; [discriminate|].
    destruct (cgn_sum fs0 data n false (c0 :: cs)) as [r|] eqn:Sm; cbn [bind] in C; [|discriminate].
    injection C as <-. apply cgn_sum_spec in Sm. rewrite Sm. rewrite <- F.
    (* comp of the sum *)
    assert (CS : forall l, comp (rsum (map (fun cr => rscale (cgn_ratio data cr n) (gof cr)) l))
                         = qsum (map (fun cr => cgn_ratio data cr n * comp (gof cr)) l)).
    { induction l as [|a l IH]; cbn [map]; rewrite ?rsum_nil, ?rsum_cons, ?qsum_nil, ?qsum_cons; [exact H0|]. now rewrite Hadd, Hsc, IH. }
    fold gof. rewrite CS, <- qsum_map_scale.
    eapply Qcle_trans.
    - apply (qsum_map_le _ (fun cr => cgn_fuel_an data cr n * comp (gof cr))). intros cr _.
      unfold cgn_ratio. pose proof (fuel_nonneg cr) as Fn. specialize (Hg cr).
      destruct (qltb_spec 0 (cgn_el_an data n)) as [L|L].
      + revert X0 XE L Fn Hg. generalize (cgn_el_an data n) (cgn_fuel_an data cr n) (comp (gof cr)). intros el fu gc X0 XE L Fn Hg.
        assert (E : X * (fu / el * gc) = (X / el) * (fu * gc)) by (field; intro Z; rewrite Z in L; qlra).
        rewrite E. assert (R : 0 <= X / el /\ X / el <= 1) by (apply frac_le_1; assumption).
        destruct R as [R0 R1]. assert (P : 0 <= fu * gc) by (now apply Qc_le_0_mul).
        revert R0 R1 P. generalize (X / el) (fu * gc). intros rr pp R0 R1 P. toQ. absQ. cbn in *. nra.
      + rewrite Qcmult_0_l, Qcmult_0_r. now apply Qc_le_0_mul.
    - set (q := fun cr => existsb (fun e => is_cogen_use e && has_carrier cr e) data).
      set (p := fun cr => existsb (fun e => (is_used e || is_generated e || is_aux e) && has_carrier cr e) data).
      set (h := fun cr => a_cgnus (mk_ctx cr lm data) * comp (gof cr)).
      change (cgn_fuel_carriers data) with (filter q all_carriers). change (avail_carriers data) with (filter p all_carriers).
      apply (Qcle_trans _ (qsum (map h (filter q all_carriers)))).
      + apply Qcle_refl_eq. apply qsum_map_ext. intros cr Hcr. unfold h.
        rewrite (cgnus_is_fuel cr) by (apply fuel_avail; exact Hcr). reflexivity.
      + apply qsum_filter_le.
        * intros cr H. unfold p, q in *. eapply existsb_imp; [|exact H]. intros e He. apply andb_true_iff in He as [U Cc]. rewrite Cc.
          destruct e; try discriminate. reflexivity.
        * intros cr. unfold h. apply Qc_le_0_mul; [apply (cgnus_an_nonneg cr lm data Hn)|apply Hg].
  Qed.
End Cogen.

Section Total.
  Variables (fs0 : list Factor) (c : Components) (area : Qc) (lm : bool) (n : nat) (ep : EP).
  Hypothesis Hrs : reg_set fs0.
  Hypothesis Hn : nonneg_data (c_data c).
  Hypothesis Hd : dom_data (c_data c).
  Hypothesis Hwf : wf n (c_data c).
  Hypothesis Hpos : (0 < n)%nat.
  Hypothesis Hep : energy_performance c fs0 0 area lm = Ok ep.
  Let data := c_data c.

  Variable comp : RNC -> Qc.
  Hypothesis Cadd : forall a b, comp (radd a b) = comp a + comp b.
  Hypothesis Csub : forall a b, comp (rsub a b) = comp a - comp b.
  Hypothesis Csc : forall k a, comp (rscale k a) = k * comp a.
  Hypothesis C0 : comp rnc0 = 0.
  Hypothesis Cnn : forall r, rnc_nonneg r -> 0 <= comp r.

  Lemma comp_rsum {A} (f : A -> RNC) l : comp (rsum (map f l)) = qsum (map (fun a => comp (f a)) l).
  Proof. induction l as [|a l IH]; cbn [map]; rewrite ?rsum_nil, ?rsum_cons, ?qsum_nil, ?qsum_cons; [exact C0|]. now rewrite Cadd, IH. Qed.

  Lemma total_comp_nonneg : 0 <= comp (t_we_b ep).
  Proof.
    unfold t_we_b, rtotal. rewrite comp_rsum.
    set (ph := phi fs0 c).
    (* termwise lower bound *)
    assert (LB : forall b, In b (ep_bal ep) ->
               a_cgnus (bc_ctx b) * comp (gof fs0 (cx_cr (bc_ctx b))) - comp (XCHP (cx_cr (bc_ctx b)) lm data ph) <= comp (we_b (bc_we b))).
    { intros b Hb. destruct (bal_closed fs0 c 0 area lm n ep Hrs Hn Hd Hwf Hpos Hep b Hb) as (g & Hg & Gn & Hctx & Ea & _).
      rewrite (we_b_is_a fs0 c area lm ep Hep b Hb), Ea. fold data. fold ph. rewrite Csub.
      assert (Eg : gof fs0 (cx_cr (bc_ctx b)) = g) by (unfold gof, lk; unfold grid_key, lookk in Hg; now rewrite Hg).
      rewrite Eg. remember (cx_cr (bc_ctx b)) as cr eqn:Ecr. fold data in Hctx. rewrite Hctx.
      unfold NA. rewrite !Cadd, !Csc.
      pose proof (del_grid_an_nonneg cr lm data Hn) as D. pose proof (Cnn g Gn) as G. pose proof (Cnn one rnc_nonneg_one) as O.
      assert (U : 0 <= used_on cr lm data) by (unfold used_on; repeat apply Qc_le_0_add; apply (used_src_an_nonneg cr lm data Hn)).
      assert (P1 : 0 <= a_del_grid (mk_ctx cr lm data) * comp g) by (now apply Qc_le_0_mul).
      assert (P2 : 0 <= used_on cr lm data * comp one) by (now apply Qc_le_0_mul).
      revert P1 P2. generalize (a_del_grid (mk_ctx cr lm data) * comp g) (used_on cr lm data * comp one)
        (a_cgnus (mk_ctx cr lm data) * comp g) (comp (XCHP cr lm data ph)). intros a1 a2 a3 a4 P1 P2. qlra. }
    eapply Qcle_trans; [|apply qsum_map_le; exact LB].
    rewrite qsum_map_sub.
    (* the cogeneration input, summed over the balances = summed over the available carriers *)
    assert (S1 : qsum (map (fun b => a_cgnus (bc_ctx b) * comp (gof fs0 (cx_cr (bc_ctx b)))) (ep_bal ep))
               = qsum (map (fun cr => a_cgnus (mk_ctx cr lm data) * comp (gof fs0 cr)) (avail_carriers data))).
    { unfold data. rewrite <- (bal_carriers fs0 c area lm ep Hep). rewrite map_map. apply qsum_map_ext. intros b Hb.
      destruct (bal_closed fs0 c 0 area lm n ep Hrs Hn Hd Hwf Hpos Hep b Hb) as (g & _ & _ & Hctx & _).
      now rewrite <- Hctx. }
    rewrite S1.
    rewrite (split_el (fun b => comp (XCHP (cx_cr (bc_ctx b)) lm data ph)) _ (bal_nodup fs0 c area lm ep Hep)).
    assert (Z : qsum (map (fun b => comp (XCHP (cx_cr (bc_ctx b)) lm data ph)) (filter (fun b => negb (is_el b)) (ep_bal ep))) = 0).
    { apply qsum_map_zero. intros b Hb. apply filter_In in Hb as [Hb E]. apply negb_true_iff in E.
      unfold data, ph. rewrite (xchp_other fs0 c lm ep b Hb E). exact C0. }
    rewrite Z.
    destruct (find is_el (ep_bal ep)) as [bel|] eqn:F.
    - apply find_some in F as [Hbel Eel]. unfold is_el in Eel. apply Carrier_beq_eq in Eel. rewrite Eel.
      assert (Hav : In ELECTRICIDAD (avail_carriers data)).
      { unfold data. rewrite <- (bal_carriers fs0 c area lm ep Hep). rewrite <- Eel. apply in_map_iff. exists bel. split; [reflexivity|exact Hbel]. }
      pose proof (xchp_bound fs0 c lm n Hn Hwf Hpos comp Cadd Csc C0 (fun cr => Cnn _ (gof_nonneg fs0 Hrs cr)) Hav) as B.
      fold data in B. fold ph in B. revert B.
      generalize (comp (XCHP ELECTRICIDAD lm data ph)) (qsum (map (fun cr => a_cgnus (mk_ctx cr lm data) * comp (gof fs0 cr)) (avail_carriers data))).
      intros a b B. qlra.
    - assert (P : 0 <= qsum (map (fun cr => a_cgnus (mk_ctx cr lm data) * comp (gof fs0 cr)) (avail_carriers data))).
      { apply qsum_map_nonneg. intros cr _. apply Qc_le_0_mul; [apply (cgnus_an_nonneg cr lm data Hn)|apply Cnn, gof_nonneg, Hrs]. }
      revert P. generalize (qsum (map (fun cr => a_cgnus (mk_ctx cr lm data) * comp (gof fs0 cr)) (avail_carriers data))). intros a P. qlra.
  Qed.
End Total.
