(** * Auxiliary energy through the whole normalisation (C06, end to end)

    The per-system statements of C06 (shares, conservation) are about [assign_aux_id].  Here they are carried through
    [normalize_data]: completion adds production components only, every other system's pass leaves the block of system
    [i] alone, and the final sort is stable.  For every system that declares auxiliary energy, the auxiliary components
    of the normalised list add up, step by step, to the declared auxiliary energy — except, for a system with several
    EPB services, at the steps where the system delivers no output energy at all, where they add up to zero (the recorded
    finding C06-zero-output-step, stated here for every input rather than by a witness). *)
From Cteepbd Require Import Model.Components Proofs.NormFacts Proofs.DataEquiv Proofs.WfFacts Proofs.CompleteIdem Proofs.NormIdem Proofs.Refine.
From Coq Require Import Permutation.
Open Scope Qc_scope.

(** what the auxiliary components of system [i] must add up to at step [t], given the declared list [d] *)
Definition aux_expected (d : list Energy) (i : Z) (t : nat) : Qc :=
  match used_services d i with
  | [_] => sum_at (filter (is_aux_of i) d) t
  | _ => if qltb 0 (q_tot d i t) then sum_at (filter (is_aux_of i) d) t else 0
  end.

Lemma is_aux_of_set i j s e : is_aux_of j (set_aux_service i s e) = is_aux_of j e.
Proof. destruct e; cbn; try reflexivity. destruct (Z.eqb _ _); reflexivity. Qed.

Lemma filter_map_set i j s d : filter (is_aux_of j) (map (set_aux_service i s) d) = map (set_aux_service i s) (filter (is_aux_of j) d).
Proof.
  induction d as [|e d IH]; [reflexivity|]. cbn [map filter]. rewrite is_aux_of_set. destruct (is_aux_of j e); cbn [map]; now rewrite IH.
Qed.

Lemma sum_at_set i s l t : sum_at (map (set_aux_service i s) l) t = sum_at l t.
Proof. unfold sum_at. rewrite map_map. f_equal. apply map_ext. intros e. unfold val_at. now rewrite set_aux_vals. Qed.

(** one system, one pass *)
Lemma assign_aux_id_sum n d i d1 t : wf n d -> filter (is_aux_of i) d <> [] -> (t < n)%nat ->
  assign_aux_id d i = Ok d1 -> sum_at (filter (is_aux_of i) d1) t = aux_expected d i t.
Proof.
  intros W Ha Ht H. unfold aux_expected.
  assert (Hne : d <> []) by (intro K; rewrite K in Ha; now apply Ha).
  assert (Multi : forall (tot := veclistsum (filter (is_aux_of i) d)),
             d1 = filter (fun e => negb (is_aux_of i e)) d ++ news_of d i n tot ->
             sum_at (filter (is_aux_of i) d1) t = if qltb 0 (q_tot d i t) then sum_at (filter (is_aux_of i) d) t else 0).
  { intros tot E. assert (L : length tot = n) by (apply veclistsum_len; [apply wf_filter, W|exact Ha]).
    rewrite E, filter_app.
    assert (K0 : filter (is_aux_of i) (filter (fun e => negb (is_aux_of i e)) d) = []).
    { apply filter_map_none. intros e He. apply filter_In in He as [_ He]. now apply negb_true_iff in He. }
    assert (K1 : filter (is_aux_of i) (news_of d i n tot) = news_of d i n tot).
    { apply filter_map_all. intros e He. unfold news_of in He. apply in_map_iff in He as (s & <- & _).
      unfold is_aux_of, has_id. cbn. apply Z.eqb_refl. }
    rewrite K0, K1. cbn [app]. rewrite (sum_at_news d i n tot t L Ht).
    unfold tot. rewrite (veclistsum_nth n _ t (wf_filter n _ _ W) Ha Ht).
    destruct (qltb_spec 0 (q_tot d i t)) as [P|P].
    - rewrite (aux_share_total d i t P). ring.
    - assert (Z0 : qsum (map (fun s => aux_share d i s t) (out_services d i)) = 0).
      { apply qsum_map_zero. intros s _. now apply share_zero. }
      rewrite Z0. ring. }
  unfold assign_aux_id in H. rewrite (num_steps_wf n d W Hne) in H.
  destruct (used_services d i) as [|s [|s' l]].
  - destruct (_ && _); [discriminate|]. injection H as H. apply Multi. now symmetry.
  - injection H as <-. now rewrite filter_map_set, sum_at_set.
  - destruct (_ && _); [discriminate|]. injection H as H. apply Multi. now symmetry.
Qed.

(** what [aux_expected] looks at is inside the block of the system *)
Lemma aux_expected_block i d d' t : block i d = block i d' -> aux_expected d i t = aux_expected d' i t.
Proof.
  intros B. unfold aux_expected. now rewrite (used_services_block i d d' B), (q_tot_block i d d' B t), (auxs_block i d d' B).
Qed.

(** all systems: the pass of another system leaves the block alone *)
Lemma assign_aux_ids_sum n ids : forall d d', wf n d -> NoDup ids ->
  (forall k, In k ids -> filter (is_aux_of k) d <> []) -> assign_aux_ids d ids = Ok d' ->
  forall i t, In i ids -> (t < n)%nat -> sum_at (filter (is_aux_of i) d') t = aux_expected d i t.
Proof.
  induction ids as [|k ids IH]; intros d d' W ND Ha H i t Hi Ht; [contradiction|]. cbn [assign_aux_ids] in H.
  destruct (assign_aux_id d k) as [d1|] eqn:E1; cbn [bind] in H; [|discriminate].
  inversion ND as [|? ? Nk ND']; subst.
  assert (Ak : filter (is_aux_of k) d <> []) by (apply Ha; now left).
  assert (W1 : wf n d1) by (apply (assign_aux_id_wf n d k d1 W Ak E1)).
  assert (Ha1 : forall j, In j ids -> filter (is_aux_of j) d1 <> []).
  { intros j Hj. rewrite (is_aux_of_other k j d1 d); [apply Ha; now right| |exact (assign_aux_id_others d k d1 E1)]. intro K. subst j. contradiction. }
  destruct Hi as [<-|Hi].
  - (* the system just processed: the later passes do not touch it *)
    destruct (assign_ids_form n ids d1 d' [] W1 ND' (fun _ _ F => F) Ha1 (fun _ F => match F with end) H) as (_ & _ & B).
    rewrite (auxs_block k d' d1 (B k Nk)). now apply (assign_aux_id_sum n d k d1 t W Ak Ht E1).
  - rewrite (IH d1 d' W1 ND' Ha1 H i t Hi Ht). apply aux_expected_block.
    apply (first_pass_others d k d1 E1 i). intro K. subst i. contradiction.
Qed.

(** completion adds production components only *)
Lemma complete_block_view cr d : exists added, complete cr d = d ++ added /\ Forall (fun e => is_generated e = true) added.
Proof.
  unfold complete. destruct (complete_with_appends cr (ids_of (filter (has_carrier cr) d)) d) as (added & E & S).
  exists added. split; [exact E|]. destruct (source_of_carrier cr) as [src|]; [|subst; constructor].
  eapply Forall_impl; [|exact S]. intros e (j & v & ->). reflexivity.
Qed.

Lemma filter_no_generated (p : Energy -> bool) d added :
  (forall e, is_generated e = true -> p e = false) -> Forall (fun e => is_generated e = true) added ->
  filter p (d ++ added) = filter p d.
Proof.
  intros Hp F. rewrite filter_app. assert (K : filter p added = []).
  { apply filter_map_none. intros e He. rewrite Forall_forall in F. apply Hp, F, He. }
  rewrite K. apply app_nil_r.
Qed.

Lemma existsb_no_generated (p : Energy -> bool) d added :
  (forall e, is_generated e = true -> p e = false) -> Forall (fun e => is_generated e = true) added ->
  existsb p (d ++ added) = existsb p d.
Proof.
  intros Hp F. rewrite existsb_app. assert (K : existsb p added = false).
  { apply not_true_is_false. intro X. apply existsb_exists in X as (e & He & Pe). rewrite Forall_forall in F. rewrite (Hp e (F e He)) in Pe. discriminate. }
  rewrite K. apply orb_false_r.
Qed.

Lemma aux_expected_complete cr d i t : aux_expected (complete cr d) i t = aux_expected d i t.
Proof.
  destruct (complete_block_view cr d) as (added & -> & F). unfold aux_expected.
  assert (U : used_services (d ++ added) i = used_services d i).
  { unfold used_services. apply filter_ext'. intros s. f_equal. apply existsb_no_generated; [|exact F]. intros e G. destruct e; try discriminate; reflexivity. }
  assert (O : out_services (d ++ added) i = out_services d i).
  { unfold out_services. apply filter_ext'. intros s. apply existsb_no_generated; [|exact F]. intros e G. destruct e; try discriminate; reflexivity. }
  assert (Q : forall s, q_out (d ++ added) i s t = q_out d i s t).
  { intros s. unfold q_out. rewrite filter_no_generated; [reflexivity| |exact F]. intros e G. destruct e; try discriminate; reflexivity. }
  assert (T : q_tot (d ++ added) i t = q_tot d i t).
  { unfold q_tot, q_mag. rewrite O. f_equal. apply map_ext. intros s. now rewrite Q. }
  assert (A : filter (is_aux_of i) (d ++ added) = filter (is_aux_of i) d).
  { apply filter_no_generated; [|exact F]. intros e G. destruct e; try discriminate; reflexivity. }
  now rewrite U, T, A.
Qed.

Lemma aux_ids_complete cr d : ids_of (filter is_aux (complete cr d)) = ids_of (filter is_aux d).
Proof.
  destruct (complete_block_view cr d) as (added & -> & F). rewrite filter_no_generated; [reflexivity| |exact F].
  intros e G. destruct e; try discriminate; reflexivity.
Qed.

(** the whole normalisation *)
Theorem normalize_aux_sum n data d : wf n data -> normalize_data data = Ok d ->
  forall i t, In i (ids_of (filter is_aux data)) -> (t < n)%nat ->
  sum_at (filter (is_aux_of i) d) t = aux_expected data i t.
Proof.
  intros W H i t Hi Ht. unfold normalize_data in H.
  set (d2 := complete TERMOSOLAR (complete EAMBIENTE data)) in *.
  destruct (assign_aux d2) as [d3|] eqn:A; cbn [bind] in H; [|discriminate]. injection H as <-.
  assert (W2 : wf n d2) by (apply complete_wf, complete_wf, W).
  rewrite filter_aux_of_block. unfold block. rewrite sort_by_id_stable. fold (block i d3). rewrite <- filter_aux_of_block.
  unfold assign_aux in A.
  assert (Ids : ids_of (filter is_aux d2) = ids_of (filter is_aux data)) by (unfold d2; now rewrite !aux_ids_complete).
  assert (Ha : forall j, In j (ids_of (filter is_aux d2)) -> filter (is_aux_of j) d2 <> []).
  { intros j Hj. apply ids_of_in in Hj as (e & He & Ee). apply filter_In in He as [He Ae].
    intro K. assert (In e (filter (is_aux_of j) d2)); [|rewrite K in *; contradiction].
    apply filter_In. split; [exact He|]. unfold is_aux_of, has_id. rewrite Ae, Ee, Z.eqb_refl. reflexivity. }
  rewrite (assign_aux_ids_sum n _ d2 d3 W2 (ids_of_nodup _) Ha A i t); [|rewrite Ids; exact Hi|exact Ht].
  unfold d2. now rewrite !aux_expected_complete.
Qed.
