(** * Load matching together with cogeneration (C14)

    With load matching the factor f(p/u) of a step depends on the whole production p = pv + chp, while the priority
    allocation gives the on-site production min(pv, u) and the cogeneration min(chp, u - min(pv, u)).  The step facts
    of Proofs/PvFacts.v hold all the same: the production used grows with pv, no faster than pv (Proofs/LmMono.v,
    [gl_mono]), and the cogenerated electricity used does not grow ([hc_mono]). *)
From Cteepbd Require Import Model.Factors Proofs.StepFacts Proofs.ColFacts Proofs.PvFacts Proofs.LmMono.
Open Scope Qc_scope.

Definition srg (pr : bool) (c : Col) : StepR := (c, step_out pr true c).

Lemma fmatch_Fq u p : 0 < u -> 0 < p -> (p / u + 1 / (p / u) - 1) / (p / u + 1 / (p / u)) = Fq u p.
Proof.
  intros Hu Hp. assert (X : 0 < p / u) by (apply qdiv_pos; assumption).
  rewrite (fmatch_formula (p / u) X). unfold Fq, gnum, gden. field. split.
  - intro K. pose proof (gden_pos u p Hu) as G. unfold gden in G. rewrite K in G. qlra.
  - intro K. rewrite K in Hu. qlra.
Qed.

(** the factor of a step of the electricity carrier *)
Definition fl (u p : Qc) : Qc := if qltb 0 u then (if qltb 0 p then Fq u p else 1) else 1.

Lemma fmatch_fl c : col_ok c -> el_col c -> fmatch true c = fl (c_u c) (c_pv c + c_chp c).
Proof.
  intros Ok [T E]. unfold fmatch, fl, c_p. rewrite T, E. replace (c_pv c + c_chp c + 0 + 0) with (c_pv c + c_chp c) by ring.
  pose proof (ok_pv c Ok) as P1. pose proof (ok_chp c Ok) as P2. set (p := c_pv c + c_chp c) in *. set (u := c_u c).
  assert (P0 : 0 <= p) by (unfold p; qlra). clearbody p u. cbv zeta.
  destruct (qltb_spec 0 u) as [Hu|Hu].
  - destruct (qltb_spec 0 p) as [Hp|Hp].
    + assert (X : 0 < p / u) by (apply qdiv_pos; assumption).
      destruct (qleb_spec (p / u) 0) as [K|K]; [exfalso; qlra|]. apply fmatch_Fq; assumption.
    + assert (p = 0) by qlra. subst p. unfold Qcdiv. rewrite Qcmult_0_l. destruct (qleb_spec 0 0); [reflexivity|exfalso; qlra].
  - destruct (qleb_spec 0 0); [reflexivity|exfalso; qlra].
Qed.

(** the cogenerated electricity used in a step *)
Definition hcl (u pv chp : Qc) : Qc := if qltb 0 u then (if qltb 0 (pv + chp) then hc u pv chp else 0) else 0.

Lemma hcl_mono u pv pv' chp : 0 <= u -> 0 <= pv -> pv <= pv' -> 0 <= chp -> hcl u pv' chp <= hcl u pv chp.
Proof.
  intros Hu Hpv Hpp Hc. unfold hcl. destruct (qltb_spec 0 u) as [U|U]; [|apply Qcle_refl].
  destruct (qltb_spec 0 (pv + chp)) as [P|P].
  - destruct (qltb_spec 0 (pv' + chp)) as [P'|P']; [|exfalso; qlra]. apply hc_mono; assumption.
  - assert (chp = 0) by qlra. subst chp.
    destruct (qltb_spec 0 (pv' + 0)) as [P'|P']; [|apply Qcle_refl].
    unfold hc. assert (M : qmin 0 (u - qmin pv' u) = 0) by qlra. rewrite M. qlra.
Qed.

Lemma hcl_bounds u pv chp : 0 <= u -> 0 <= pv -> 0 <= chp -> 0 <= hcl u pv chp /\ hcl u pv chp <= chp.
Proof.
  intros Hu Hpv Hc. unfold hcl. destruct (qltb_spec 0 u) as [U|U]; [|split; qlra].
  destruct (qltb_spec 0 (pv + chp)) as [P|P]; [|split; qlra].
  destruct (Fq_range u (pv + chp) U P) as [F1 F2]. unfold hc.
  assert (M : 0 <= qmin chp (u - qmin pv u) /\ qmin chp (u - qmin pv u) <= chp) by (split; qlra).
  revert F1 F2 M. generalize (Fq u (pv + chp)) (qmin chp (u - qmin pv u)). intros f m F1 F2 [M1 M2].
  split; toQ; absQ; cbn in *; nra.
Qed.

Section StepPrioLm.
  Variable c : Col.
  Hypothesis Hok : col_ok c.
  Hypothesis Hel : el_col c.

  Lemma min_split : qmin (c_pv c) (c_u c) + qmin (c_chp c) (c_u c - qmin (c_pv c) (c_u c)) = qmin (c_u c) (c_pv c + c_chp c).
  Proof. pose proof (ok_pv c Hok). pose proof (ok_chp c Hok). pose proof (ok_u c Hok). qlra. Qed.

  Lemma fl_times_min u p : 0 <= u -> 0 <= p -> fl u p * qmin u p = usedl u p.
  Proof.
    intros Hu Hp. unfold fl, usedl. destruct (qltb_spec 0 u) as [U|U].
    - destruct (qltb_spec 0 p) as [P|P].
      + unfold Fq, gl, Qcdiv. ring.
      + assert (M : qmin u p = 0) by qlra. rewrite M. ring.
    - assert (M : qmin u p = 0) by qlra. rewrite M. ring.
  Qed.

  Lemma used_tot_prio : s_used (srg true c) = usedl (c_u c) (c_pv c + c_chp c).
  Proof.
    unfold s_used, srg. cbn [snd step_out so_used used_tot_f used_src_f]. rewrite (fmatch_fl c Hok Hel).
    rewrite <- fl_times_min; [|apply (ok_u c Hok)|pose proof (ok_pv c Hok); pose proof (ok_chp c Hok); qlra].
    rewrite <- min_split. ring.
  Qed.

  Lemma used_chp_prio : s_used_src (srg true c) EL_COGEN = hcl (c_u c) (c_pv c) (c_chp c).
  Proof.
    unfold s_used_src, srg. cbn [snd step_out so_src so_uchp used_src_f]. rewrite (fmatch_fl c Hok Hel).
    pose proof (ok_pv c Hok) as P1. pose proof (ok_chp c Hok) as P2. pose proof (ok_u c Hok) as P3.
    unfold fl, hcl, hc. destruct (qltb_spec 0 (c_u c)) as [U|U].
    - destruct (qltb_spec 0 (c_pv c + c_chp c)) as [P|P]; [ring|].
      assert (M : qmin (c_chp c) (c_u c - qmin (c_pv c) (c_u c)) = 0) by qlra. rewrite M. ring.
    - assert (M : qmin (c_chp c) (c_u c - qmin (c_pv c) (c_u c)) = 0) by qlra. rewrite M. ring.
  Qed.

  Lemma used_pv_prio : s_used_src (srg true c) EL_INSITU = s_used (srg true c) - s_used_src (srg true c) EL_COGEN.
  Proof. unfold s_used_src, s_used, srg. cbn [snd step_out so_src so_upv so_uchp so_used used_tot_f]. ring. Qed.

  (** cogeneration only (no on-site production in the column): the proportional branch gives what the priority branch gives *)
  Lemma prop_as_prio : c_pv c = 0 -> zg (c_chp c) ->
    s_used (srg false c) = s_used (srg true c)
    /\ s_used_src (srg false c) EL_COGEN = s_used_src (srg true c) EL_COGEN
    /\ s_used_src (srg false c) EL_INSITU = s_used_src (srg true c) EL_INSITU.
  Proof.
    intros Pv Z. pose proof (ok_u c Hok) as U0. destruct Hel as [T E].
    unfold s_used, s_used_src, srg. cbn [snd step_out so_used so_src so_upv so_uchp used_tot_f used_src_f c_src].
    unfold c_p. rewrite T, E, Pv. set (f := fmatch true c). clearbody f.
    replace (0 + c_chp c + 0 + 0) with (c_chp c) by ring.
    assert (M0 : qmin 0 (c_u c) = 0) by qlra. rewrite M0.
    assert (M1 : qmin (c_chp c) (c_u c - 0) = qmin (c_u c) (c_chp c)) by qlra. rewrite M1.
    assert (Z0 : 0 / c_chp c = 0) by (unfold Qcdiv; ring). rewrite Z0.
    destruct Z as [K|G].
    - rewrite K. destruct (qltb_spec 0 0) as [P|P]; [exfalso; qlra|].
      assert (M : qmin (c_u c) 0 = 0) by qlra. rewrite M. repeat split; ring.
    - destruct (qltb_spec 0 (c_chp c)) as [P|P]; [|exfalso; qlra].
      rewrite (div_self (c_chp c)) by (intro K; rewrite K in G; qlra). repeat split; ring.
  Qed.
End StepPrioLm.

Lemma col_ok_bump d c : col_ok c -> 0 <= d -> col_ok (bump d c).
Proof. intros Ok Hd. destruct Ok. constructor; cbn; try assumption. qlra. Qed.

Section StepLmBoth.
  Variables (c : Col) (d : Qc).
  Hypothesis Hok : col_ok c.
  Hypothesis Hel : el_col c.
  Hypothesis Hd : 0 <= d.

  Let c' := bump d c.

  (** both sources declared, before and after *)
  Lemma step_lm_prio :
    s_del_grid (srg true c') <= s_del_grid (srg true c)
    /\ s_exp (srg true c) <= s_exp (srg true c')
    /\ s_exp_src (srg true c) EL_COGEN <= s_exp_src (srg true c') EL_COGEN
    /\ s_used_src (srg true c) EL_INSITU <= s_used_src (srg true c') EL_INSITU.
  Proof.
    assert (Ok' : col_ok c') by (apply col_ok_bump; assumption).
    assert (El' : el_col c') by (destruct Hel; split; assumption).
    pose proof (ok_pv c Hok) as P1. pose proof (ok_chp c Hok) as P2. pose proof (ok_u c Hok) as P3.
    rewrite (used_pv_prio c), (used_pv_prio c').
    unfold s_del_grid, s_exp, s_exp_src, s_u, s_p, s_psrc.
    rewrite (used_tot_prio c Hok Hel), (used_tot_prio c' Ok' El'), (used_chp_prio c Hok Hel), (used_chp_prio c' Ok' El').
    destruct Hel as [T E]. unfold c', srg, bump, c_p. cbn [fst c_u c_pv c_chp c_ts c_ea c_src]. rewrite T, E.
    replace (c_pv c + d + c_chp c) with (c_pv c + c_chp c + d) by ring.
    destruct (usedl_mono (c_u c) (c_pv c + c_chp c) (c_pv c + c_chp c + d) P3 ltac:(qlra) ltac:(qlra)) as (M & L & _ & _).
    pose proof (hcl_mono (c_u c) (c_pv c) (c_pv c + d) (c_chp c) P3 P1 ltac:(qlra) P2) as H.
    revert M L H. generalize (usedl (c_u c) (c_pv c + c_chp c)) (usedl (c_u c) (c_pv c + c_chp c + d))
                             (hcl (c_u c) (c_pv c) (c_chp c)) (hcl (c_u c) (c_pv c + d) (c_chp c)).
    intros a a' h h' M L H. repeat split; qlra.
  Qed.

  (** cogeneration declared, no on-site production declared before: proportional branch before, priority branch after *)
  Lemma step_lm_new_pv : c_pv c = 0 -> zg (c_chp c) ->
    s_del_grid (srg true c') <= s_del_grid (srg false c)
    /\ s_exp (srg false c) <= s_exp (srg true c')
    /\ s_exp_src (srg false c) EL_COGEN <= s_exp_src (srg true c') EL_COGEN
    /\ s_used_src (srg false c) EL_INSITU <= s_used_src (srg true c') EL_INSITU.
  Proof.
    intros Pv Z. destruct (prop_as_prio c Hok Hel Pv Z) as (E1 & E2 & E3).
    destruct step_lm_prio as (A & B & C & D).
    unfold s_del_grid, s_exp, s_exp_src, s_u, s_p, s_psrc in *. rewrite E1, E2, E3.
    change (fst (srg false c)) with (fst (srg true c)). repeat split; assumption.
  Qed.
End StepLmBoth.

(** ** A whole year with load matching, whatever is declared for electricity *)
From Cteepbd Require Import Proofs.Breakdown Proofs.CtxFacts Proofs.ClosedForm Proofs.RerFacts.

Section AnnualLmAll.
  Variables (data : list Energy) (i : Z) (dv : list Qc) (cm : str).
  Let l := filter (has_carrier ELECTRICIDAD) data.
  Hypothesis Hn : nonneg_data data.
  Hypothesis Hd : dom_data data.
  Hypothesis Hdn : Forall (fun v => 0 <= v) dv.
  Hypothesis Hdz : Forall zg dv.
  Hypothesis Hne : l <> [].
  Let data' := data ++ [EProd i EL_INSITU dv cm].
  Let x := mk_ctx ELECTRICIDAD true data.
  Let x' := mk_ctx ELECTRICIDAD true data'.
  Let dt (t : nat) : Qc := nth t dv 0.
  Let has (j : ProdSource) : bool := existsb (is_prod_src j) l.

  Lemma g_prio_x : cx_prio x = has EL_INSITU && has EL_COGEN.
  Proof. unfold x, mk_ctx, prio_of. cbn [cx_prio priorities forallb]. fold l. unfold has. now rewrite andb_true_r. Qed.
  Lemma g_prio_x' : cx_prio x' = has EL_COGEN.
  Proof.
    unfold x', data', mk_ctx, prio_of. cbn [cx_prio priorities forallb]. rewrite (filter_data' data i dv cm). fold l. rewrite !existsb_app. cbn. unfold has.
    now rewrite orb_true_r, orb_false_r, andb_true_r.
  Qed.

  Lemma g_steps_x : cx_steps x = map (fun t => srg (cx_prio x) (col_at l t)) (seq 0 (num_steps_of l)).
  Proof. reflexivity. Qed.
  Lemma g_steps_x' : cx_steps x' = map (fun t => srg (cx_prio x') (bump (dt t) (col_at l t))) (seq 0 (num_steps_of l)).
  Proof.
    unfold x' at 1, data', mk_ctx. cbn [cx_steps]. rewrite (filter_data' data i dv cm), (steps_data' data i dv cm Hne). unfold steps_of. apply map_ext. intros t.
    rewrite (col_data' data i dv cm t). fold l. unfold srg, dt. f_equal. f_equal. symmetry. unfold x', data', mk_ctx. cbn [cx_prio]. rewrite (filter_data' data i dv cm). reflexivity.
  Qed.

  Lemma g_step_any t :
    let s := srg (cx_prio x) (col_at l t) in let s' := srg (cx_prio x') (bump (dt t) (col_at l t)) in
    s_del_grid s' <= s_del_grid s /\ s_exp s <= s_exp s' /\ s_exp_src s EL_COGEN <= s_exp_src s' EL_COGEN
    /\ s_used_src s EL_INSITU <= s_used_src s' EL_INSITU.
  Proof.
    cbv zeta. rewrite g_prio_x, g_prio_x'.
    pose proof (col_at_ok ELECTRICIDAD data t Hn) as Ok. fold l in Ok.
    pose proof (el_col_l data t) as El. fold l in El.
    assert (D0 : 0 <= dt t) by (apply nth_Forall; [exact Hdn|apply Qcle_refl]).
    assert (Dz : zg (dt t)) by (apply nth_Forall; [exact Hdz|apply zg_0]).
    assert (Zpv : zg (c_pv (col_at l t))) by (cbn; now apply colsum_zg).
    assert (Zchp : zg (c_chp (col_at l t))) by (cbn; now apply colsum_zg).
    destruct (has EL_COGEN) eqn:HC; destruct (has EL_INSITU) eqn:HI; cbn [andb].
    - apply step_lm_prio; assumption.
    - apply step_lm_new_pv; try assumption. cbn. apply colsum_absent. exact HI.
    - assert (C0 : c_chp (col_at l t) = 0) by (cbn; apply colsum_absent; exact HC).
      destruct (step_lm_pv_only (col_at l t) (dt t) Ok El D0 Zpv Dz C0) as (A & B & X1 & X2 & U & _).
      change srl with (srg false) in *. rewrite X1, X2. repeat split; try assumption. apply Qcle_refl.
    - assert (C0 : c_chp (col_at l t) = 0) by (cbn; apply colsum_absent; exact HC).
      destruct (step_lm_pv_only (col_at l t) (dt t) Ok El D0 Zpv Dz C0) as (A & B & X1 & X2 & U & _).
      change srl with (srg false) in *. rewrite X1, X2. repeat split; try assumption. apply Qcle_refl.
  Qed.

  Lemma g_ann_x f : ann x f = qsum (map (fun t => f (srg (cx_prio x) (col_at l t))) (seq 0 (num_steps_of l))).
  Proof. unfold ann, vec. rewrite g_steps_x, map_map. reflexivity. Qed.
  Lemma g_ann_x' f : ann x' f = qsum (map (fun t => f (srg (cx_prio x') (bump (dt t) (col_at l t)))) (seq 0 (num_steps_of l))).
  Proof. unfold ann, vec. rewrite g_steps_x', map_map. reflexivity. Qed.

  Theorem g_del_grid_mono : a_del_grid x' <= a_del_grid x.
  Proof. unfold a_del_grid. rewrite g_ann_x, g_ann_x'. apply qsum_map_le. intros t _. apply (g_step_any t). Qed.
  Theorem g_exp_chp_mono : a_exp_src x EL_COGEN <= a_exp_src x' EL_COGEN.
  Proof. unfold a_exp_src. rewrite g_ann_x, g_ann_x'. apply qsum_map_le. intros t _. apply (g_step_any t). Qed.
  Theorem g_used_pv_mono : a_used_src x EL_INSITU <= a_used_src x' EL_INSITU.
  Proof. unfold a_used_src. rewrite g_ann_x, g_ann_x'. apply qsum_map_le. intros t _. apply (g_step_any t). Qed.
  Theorem g_exp_total_mono : a_exp_ne x + a_exp_grid x <= a_exp_ne x' + a_exp_grid x'.
  Proof. rewrite !a_exp_total, g_ann_x, g_ann_x'. apply qsum_map_le. intros t _. apply (g_step_any t). Qed.
  Theorem g_cgnus_same : a_cgnus x' = a_cgnus x.
  Proof. unfold a_cgnus. rewrite g_ann_x, g_ann_x'. reflexivity. Qed.

  Lemma g_thermal y (Hy : forall s, In s (cx_steps y) -> exists pr c, s = srg pr c /\ el_col c) j :
    j = PS_TERMOSOLAR \/ j = PS_EAMBIENTE -> a_used_src y j = 0.
  Proof.
    intros Hj. unfold a_used_src, ann, vec. apply qsum_map_zero. intros s Hs. destruct (Hy s Hs) as (pr & c & -> & [T E]).
    unfold s_used_src, srg.
    destruct Hj as [->| ->]; destruct pr; cbn [snd step_out so_src so_uts so_uea used_src_f c_src]; try reflexivity; rewrite ?T, ?E;
      destruct (qltb 0 (c_p c)); unfold Qcdiv; ring.
  Qed.

  Lemma g_used_on : used_on ELECTRICIDAD true data = a_used_src x EL_INSITU /\ used_on ELECTRICIDAD true data' = a_used_src x' EL_INSITU.
  Proof.
    assert (E1 : forall s, In s (cx_steps x) -> exists pr c, s = srg pr c /\ el_col c).
    { intros s Hs. rewrite g_steps_x in Hs. apply in_map_iff in Hs as (t & <- & _). eexists _, _. split; [reflexivity|apply (el_col_l data)]. }
    assert (E2 : forall s, In s (cx_steps x') -> exists pr c, s = srg pr c /\ el_col c).
    { intros s Hs. rewrite g_steps_x' in Hs. apply in_map_iff in Hs as (t & <- & _). eexists _, _. split; [reflexivity|]. apply el_col_bump, (el_col_l data). }
    unfold used_on. fold x x'. split.
    - rewrite (g_thermal x E1 PS_TERMOSOLAR (or_introl eq_refl)), (g_thermal x E1 PS_EAMBIENTE (or_intror eq_refl)). ring.
    - rewrite (g_thermal x' E2 PS_TERMOSOLAR (or_introl eq_refl)), (g_thermal x' E2 PS_EAMBIENTE (or_intror eq_refl)). ring.
  Qed.

  Variables (fs : list Factor) (g phi : RNC) (k : Qc).
  Hypothesis Hreg : regular fs ELECTRICIDAD (cx_srcs x) g (fsrc_reg phi).
  Hypothesis Hreg' : regular fs ELECTRICIDAD (cx_srcs x') g (fsrc_reg phi).
  Hypothesis Hg : rnc_nonneg g.
  Hypothesis Hphi : rnc_nonneg phi.
  Hypothesis Hk : 0 <= k <= 1.

  (** with load matching, cogeneration or not: more on-site production does not raise the carrier's non-renewable
      primary energy nor its emissions, in step A and in step B, nor the electricity delivered by the grid *)
  Theorem pv_monotone_carrier_lm_all :
    exists p p', weighted_parts fs x = Ok p /\ weighted_parts fs x' = Ok p'
      /\ nren (we_a (we_of_parts k p')) <= nren (we_a (we_of_parts k p))
      /\ co2 (we_a (we_of_parts k p')) <= co2 (we_a (we_of_parts k p))
      /\ nren (we_b (we_of_parts k p')) <= nren (we_b (we_of_parts k p))
      /\ co2 (we_b (we_of_parts k p')) <= co2 (we_b (we_of_parts k p))
      /\ a_del_grid x' <= a_del_grid x.
  Proof.
    destruct (carrier_closed fs ELECTRICIDAD true data g phi Hreg Hn Hd k) as (p & Wp & Ap & Bp & _).
    destruct (carrier_closed fs ELECTRICIDAD true data' g phi Hreg' (nonneg_data' data i dv cm Hn Hdn) (dom_data' data i dv cm Hd Hdz) k)
      as (p' & Wp' & Ap' & Bp' & _).
    exists p, p'. split; [exact Wp|]. split; [exact Wp'|].
    rewrite Ap, Ap', Bp, Bp'. unfold NA, XCHP. destruct g_used_on as [O O']. rewrite O, O'. fold x x'.
    pose proof g_del_grid_mono as M1. pose proof g_exp_chp_mono as M2. pose proof g_exp_total_mono as M3. pose proof g_cgnus_same as M4.
    destruct Hg as (G1 & G2 & G3), Hphi as (P1 & P2 & P3), Hk as [K0 K1]. rewrite M4.
    revert M1 M2 M3.
    generalize (a_del_grid x) (a_del_grid x') (a_exp_src x EL_COGEN) (a_exp_src x' EL_COGEN)
               (a_exp_ne x + a_exp_grid x) (a_exp_ne x' + a_exp_grid x')
               (a_used_src x EL_INSITU) (a_used_src x' EL_INSITU)
               (a_exp_src x EL_INSITU + a_exp_src x PS_TERMOSOLAR + a_exp_src x PS_EAMBIENTE)
               (a_exp_src x' EL_INSITU + a_exp_src x' PS_TERMOSOLAR + a_exp_src x' PS_EAMBIENTE) (a_cgnus x).
    intros dg dg' xc xc' ex ex' up up' xi xi' cg M1 M2 M3.
    destruct g as [gr gn gc], phi as [pr pn pc]. cbn [ren nren co2 rsub radd rscale one] in *.
    assert (K00 : (0:Qc) <= 0) by apply Qcle_refl. assert (K01 : (0:Qc) <= 1) by qlra.
    repeat split.
    - pose proof (mono_lin dg dg' xc xc' ex ex' cg up up' xi xi' gn pn 0 M1 M2 M3 G2 P2 K00 K01) as L.
      ring_simplify in L. ring_simplify. exact L.
    - pose proof (mono_lin dg dg' xc xc' ex ex' cg up up' xi xi' gc pc 0 M1 M2 M3 G3 P3 K00 K01) as L.
      ring_simplify in L. ring_simplify. exact L.
    - exact (mono_lin dg dg' xc xc' ex ex' cg up up' xi xi' gn pn k M1 M2 M3 G2 P2 K0 K1).
    - exact (mono_lin dg dg' xc xc' ex ex' cg up up' xi xi' gc pc k M1 M2 M3 G3 P3 K0 K1).
    - exact M1.
  Qed.
End AnnualLmAll.
