(** * More on-site electricity: the whole building (C14)

    The carrier-level statements of Proofs/PvFacts.v assembled over the carriers of the building, for the
    regulatory factor sets ([reg_set]), with or without load matching. *)
From Cteepbd Require Import Model.Factors Proofs.StepFacts Proofs.ColFacts Proofs.EpFacts Proofs.Breakdown Proofs.DataEquiv
  Proofs.NeededKeys Proofs.CtxFacts Proofs.ClosedForm Proofs.RerFacts Proofs.PvFacts Proofs.LmMono Proofs.LmCogen.
Open Scope Qc_scope.

Section Append.
  Variables (data : list Energy) (i : Z) (dv : list Qc) (cm : str).
  Let e := EProd i EL_INSITU dv cm.
  Let data' := data ++ [e].

  Lemma colsum_snoc_false p t : p e = false -> colsum p data' t = colsum p data t.
  Proof. intros H. unfold data'. rewrite colsum_snoc, H. ring. Qed.

  Lemma cgn_same fs b : compute_cgn_exp_fP_A fs data' b = compute_cgn_exp_fP_A fs data b.
  Proof.
    unfold compute_cgn_exp_fP_A.
    assert (N : cgn_num_steps data' = cgn_num_steps data).
    { unfold cgn_num_steps, data'. rewrite filter_app. cbn [filter is_cogen_pr e ProdSource_beq]. now rewrite app_nil_r. }
    assert (F : cgn_fuel_carriers data' = cgn_fuel_carriers data).
    { unfold cgn_fuel_carriers, data'. apply filter_ext. intros cr. rewrite existsb_app. cbn. now rewrite orb_false_r. }
    rewrite N, F. destruct (cgn_num_steps data) as [|m]; [reflexivity|].
    destruct (cgn_fuel_carriers data) as [|cr crs]; [reflexivity|].
    assert (S : forall l, cgn_sum fs data' (S m) b l = cgn_sum fs data (S m) b l).
    { induction l as [|x l IH]; [reflexivity|]. cbn [cgn_sum]. rewrite IH.
      assert (R : cgn_ratio data' x (S m) = cgn_ratio data x (S m)).
      { unfold cgn_ratio, cgn_el_an, cgn_fuel_an.
        assert (E1 : map (colsum is_cogen_pr data') (seq 0 (S m)) = map (colsum is_cogen_pr data) (seq 0 (S m))).
        { apply map_ext. intros t. apply colsum_snoc_false. reflexivity. }
        assert (E2 : map (colsum (fun e0 => is_cogen_use e0 && has_carrier x e0) data') (seq 0 (S m))
                     = map (colsum (fun e0 => is_cogen_use e0 && has_carrier x e0) data) (seq 0 (S m))).
        { apply map_ext. intros t. apply colsum_snoc_false. reflexivity. }
        rewrite E1, E2. reflexivity. }
      rewrite R. reflexivity. }
    rewrite S. reflexivity.
  Qed.

  Lemma add_cgn_same fs : add_cgn_factors fs data' = add_cgn_factors fs data.
  Proof. unfold add_cgn_factors. rewrite cgn_same. reflexivity. Qed.

  Lemma avail_same : In ELECTRICIDAD (avail_carriers data) -> avail_carriers data' = avail_carriers data.
  Proof.
    intros H. unfold avail_carriers in *. apply filter_ext_in. intros cr _. unfold data'. rewrite existsb_app. cbn [existsb].
    destruct (Carrier_eq_dec cr ELECTRICIDAD) as [->|N].
    - apply filter_In in H as [_ H]. rewrite H. reflexivity.
    - assert (Z : has_carrier cr e = false).
      { unfold has_carrier, e. cbn. destruct cr; try reflexivity. congruence. }
      rewrite Z, andb_false_r. cbn. now rewrite orb_false_r.
  Qed.

  Lemma ctx_other cr lm : cr <> ELECTRICIDAD -> mk_ctx cr lm data' = mk_ctx cr lm data.
  Proof.
    intros N. unfold mk_ctx, data'. rewrite filter_app.
    assert (Z : has_carrier cr e = false) by (unfold has_carrier, e; cbn; destruct cr; try reflexivity; congruence).
    cbn [filter]. rewrite Z, app_nil_r. reflexivity.
  Qed.
End Append.

Lemma sum_pairs {A} (key : A -> Carrier) (m m' : A -> Qc) : forall l l',
  map key l = map key l' ->
  (forall b b', In b l -> In b' l' -> key b = key b' -> m' b' <= m b) ->
  qsum (map m' l') <= qsum (map m l).
Proof.
  induction l as [|b l IH]; intros [|b' l'] E H; cbn [map] in E.
  - apply Qcle_refl.
  - discriminate.
  - discriminate.
  - injection E as E1 E2. cbn [map]. rewrite !qsum_cons. apply Qcplus_le_compat.
    + apply H; [now left|now left|exact E1].
    + apply IH; [exact E2|]. intros x x' Hx Hx' K. apply H; [now right|now right|exact K].
Qed.

Lemma nren_rsum {A} (f : A -> RNC) l : nren (rsum (map f l)) = qsum (map (fun a => nren (f a)) l).
Proof. induction l as [|a l IH]; [reflexivity|]. cbn [map]. rewrite rsum_cons, qsum_cons. cbn [radd nren]. now rewrite IH. Qed.
Lemma co2_rsum {A} (f : A -> RNC) l : co2 (rsum (map f l)) = qsum (map (fun a => co2 (f a)) l).
Proof. induction l as [|a l IH]; [reflexivity|]. cbn [map]. rewrite rsum_cons, qsum_cons. cbn [radd co2]. now rewrite IH. Qed.

(** the step A factor of cogenerated electricity is non-negative under a regulatory set *)
Lemma cgn_sum_nonneg fs0 (c : Components) n b : reg_set fs0 -> nonneg_data (c_data c) ->
  forall crs r, cgn_sum fs0 (c_data c) n b crs = Ok r -> rnc_nonneg r.
Proof.
  intros Hrs Hn. induction crs as [|cr crs IH]; intros r H; cbn [cgn_sum] in H.
  - injection H as <-. apply rnc_nonneg_0.
  - destruct (b && negb (cr_is_nearby cr)); [apply IH, H|].
    rewrite findf_lookk in H. destruct (lookk fs0 (cr, RED, SUMINISTRO, STEP_A)) as [f|] eqn:L; cbn [bind] in H; [|discriminate].
    destruct (cgn_sum fs0 (c_data c) n b crs) as [r'|] eqn:E; cbn [bind] in H; [|discriminate]. injection H as <-.
    apply rnc_nonneg_add; [|apply IH; reflexivity]. apply rnc_nonneg_scale; [|apply (rs_nonneg _ Hrs _ _ L)].
    unfold cgn_ratio. destruct (qltb_spec 0 (cgn_el_an (c_data c) n)) as [P|P]; [|apply Qcle_refl].
    apply qdiv_nonneg; [apply fuel_nonneg, Hn|exact P].
Qed.

Lemma phi_nonneg fs0 c : reg_set fs0 -> nonneg_data (c_data c) -> rnc_nonneg (phi fs0 c).
Proof.
  intros Hrs Hn. unfold phi, compute_cgn_exp_fP_A. destruct (cgn_num_steps (c_data c)); [apply rnc_nonneg_0|].
  destruct (cgn_fuel_carriers (c_data c)) as [|cr crs]; [apply rnc_nonneg_0|].
  destruct (cgn_sum fs0 (c_data c) (S n) false (cr :: crs)) as [r|] eqn:E; cbn [bind]; [|apply rnc_nonneg_0].
  apply (cgn_sum_nonneg fs0 c (S n) false Hrs Hn _ _ E).
Qed.

(** the annual facts of the electricity carrier, with or without load matching *)
Lemma pv_facts (lm : bool) data i dv cm :
  nonneg_data data -> dom_data data -> Forall (fun v => 0 <= v) dv -> Forall zg dv -> filter (has_carrier ELECTRICIDAD) data <> [] ->
  let x := mk_ctx ELECTRICIDAD lm data in let x' := mk_ctx ELECTRICIDAD lm (data ++ [EProd i EL_INSITU dv cm]) in
  a_del_grid x' <= a_del_grid x /\ a_exp_src x EL_COGEN <= a_exp_src x' EL_COGEN
  /\ a_exp_ne x + a_exp_grid x <= a_exp_ne x' + a_exp_grid x' /\ a_cgnus x' = a_cgnus x
  /\ used_on ELECTRICIDAD lm data = a_used_src x EL_INSITU
  /\ used_on ELECTRICIDAD lm (data ++ [EProd i EL_INSITU dv cm]) = a_used_src x' EL_INSITU.
Proof.
  intros Hn Hd Hdn Hdz Hne. destruct lm; cbv zeta.
  - destruct (g_used_on data i dv cm Hne) as [O O'].
    repeat split; [exact (g_del_grid_mono data i dv cm Hn Hd Hdn Hdz Hne)|exact (g_exp_chp_mono data i dv cm Hn Hd Hdn Hdz Hne)
                  |exact (g_exp_total_mono data i dv cm Hn Hd Hdn Hdz Hne)|exact (g_cgnus_same data i dv cm Hne)|exact O|exact O'].
  - repeat split; [exact (del_grid_mono data i dv cm Hn Hd Hdn Hdz Hne)|exact (exp_chp_mono data i dv cm Hn Hd Hdn Hdz Hne)
                  |exact (exp_total_mono data i dv cm Hn Hd Hdn Hdz Hne)|exact (cgnus_same data i dv cm Hne)
                  |exact (used_on_x data)|exact (used_on_x' data i dv cm Hne)].
Qed.

Section Building.
  Variable lm : bool.
  Variables (fs0 : list Factor) (c : Components) (i : Z) (dv : list Qc) (cm : str) (k area : Qc) (n : nat) (ep ep' : EP).
  Let data := c_data c.
  Let e := EProd i EL_INSITU dv cm.
  Let c' := mkComponents (c_meta c) (data ++ [e]) (c_needs c).
  Hypothesis Hrs : reg_set fs0.
  Hypothesis Hn : nonneg_data data.
  Hypothesis Hd : dom_data data.
  Hypothesis Hwf : wf n data.
  Hypothesis Hpos : (0 < n)%nat.
  Hypothesis Hlen : length dv = n.
  Hypothesis Hdn : Forall (fun v => 0 <= v) dv.
  Hypothesis Hdz : Forall zg dv.
  Hypothesis Hel : In ELECTRICIDAD (avail_carriers data).
  Hypothesis Hne : filter (has_carrier ELECTRICIDAD) data <> [].
  Hypothesis Hk : 0 <= k <= 1.
  Hypothesis Hep : energy_performance c fs0 k area lm = Ok ep.
  Hypothesis Hep' : energy_performance c' fs0 k area lm = Ok ep'.

  Lemma wf' : wf n (c_data c').
  Proof. unfold c'. cbn [c_data]. apply Forall_app. split; [exact Hwf|]. constructor; [exact Hlen|constructor]. Qed.

  Lemma phi_same : phi fs0 c' = phi fs0 c.
  Proof. unfold phi, c'. cbn [c_data]. fold data. rewrite (cgn_same data i dv cm). reflexivity. Qed.

  Lemma keys_same : map (fun b => cx_cr (bc_ctx b)) (ep_bal ep) = map (fun b => cx_cr (bc_ctx b)) (ep_bal ep').
  Proof.
    destruct (ep_ok _ _ _ _ _ _ Hep) as (_ & _ & _ & _ & _ & K & _). destruct (ep_ok _ _ _ _ _ _ Hep') as (_ & _ & _ & _ & _ & K' & _).
    rewrite K, K'. unfold c'. cbn [c_data]. fold data. symmetry. apply avail_same. exact Hel.
  Qed.

  Lemma pair_le b b' : In b (ep_bal ep) -> In b' (ep_bal ep') -> cx_cr (bc_ctx b) = cx_cr (bc_ctx b') ->
    nren (we_a (bc_we b')) <= nren (we_a (bc_we b)) /\ co2 (we_a (bc_we b')) <= co2 (we_a (bc_we b))
    /\ nren (we_b (bc_we b')) <= nren (we_b (bc_we b)) /\ co2 (we_b (bc_we b')) <= co2 (we_b (bc_we b))
    /\ a_del_grid (bc_ctx b') <= a_del_grid (bc_ctx b).
  Proof.
    intros Hb Hb' Hcr.
    destruct (bal_closed fs0 c k area lm n ep Hrs Hn Hd Hwf Hpos Hep b Hb) as (g & G & Gn & Cx & A & B & _).
    pose proof (nonneg_data' (c_data c) i dv cm Hn Hdn) as Hn'. pose proof (dom_data' (c_data c) i dv cm Hd Hdz) as Hd'.
    destruct (bal_closed fs0 c' k area lm n ep' Hrs Hn' Hd' wf' Hpos Hep' b' Hb') as (g' & G' & _ & Cx' & A' & B' & _).
    rewrite <- Hcr in G', Cx', A', B'. rewrite G in G'. injection G' as <-.
    destruct (ep_ok _ _ _ _ _ _ Hep) as (_ & _ & _ & _ & _ & _ & Kb & _). destruct (ep_ok _ _ _ _ _ _ Hep') as (_ & _ & _ & _ & _ & _ & Kb' & _).
    rewrite Forall_forall in Kb, Kb'. rewrite A, A', B, B', (Kb b Hb), (Kb' b' Hb'), phi_same, Cx, Cx'.
    set (cr := cx_cr (bc_ctx b)) in *. unfold c', data, e in *. cbn [c_data] in *.
    destruct (Carrier_eq_dec cr ELECTRICIDAD) as [E|N].
    - rewrite E. unfold NA, XCHP. change (cx_cr (mk_ctx ELECTRICIDAD lm (c_data c))) with ELECTRICIDAD.
      destruct (pv_facts lm (c_data c) i dv cm Hn Hd Hdn Hdz Hne) as (M1 & M2 & M3 & M4 & O & O'). cbv zeta in *.
      rewrite O, O'.
      rewrite M4. destruct Gn as (G1 & G2 & G3).
      assert (Pn : rnc_nonneg (phi fs0 c)) by (apply phi_nonneg; assumption).
      destruct Pn as (P1 & P2 & P3). destruct Hk as [K0 K1].
      revert M1 M2 M3.
      generalize (a_del_grid (mk_ctx ELECTRICIDAD lm (c_data c))) (a_del_grid (mk_ctx ELECTRICIDAD lm (c_data c ++ [EProd i EL_INSITU dv cm])))
                 (a_exp_src (mk_ctx ELECTRICIDAD lm (c_data c)) EL_COGEN) (a_exp_src (mk_ctx ELECTRICIDAD lm (c_data c ++ [EProd i EL_INSITU dv cm])) EL_COGEN)
                 (a_exp_ne (mk_ctx ELECTRICIDAD lm (c_data c)) + a_exp_grid (mk_ctx ELECTRICIDAD lm (c_data c)))
                 (a_exp_ne (mk_ctx ELECTRICIDAD lm (c_data c ++ [EProd i EL_INSITU dv cm])) + a_exp_grid (mk_ctx ELECTRICIDAD lm (c_data c ++ [EProd i EL_INSITU dv cm])))
                 (a_used_src (mk_ctx ELECTRICIDAD lm (c_data c)) EL_INSITU) (a_used_src (mk_ctx ELECTRICIDAD lm (c_data c ++ [EProd i EL_INSITU dv cm])) EL_INSITU)
                 (a_exp_src (mk_ctx ELECTRICIDAD lm (c_data c)) EL_INSITU + a_exp_src (mk_ctx ELECTRICIDAD lm (c_data c)) PS_TERMOSOLAR + a_exp_src (mk_ctx ELECTRICIDAD lm (c_data c)) PS_EAMBIENTE)
                 (a_exp_src (mk_ctx ELECTRICIDAD lm (c_data c ++ [EProd i EL_INSITU dv cm])) EL_INSITU + a_exp_src (mk_ctx ELECTRICIDAD lm (c_data c ++ [EProd i EL_INSITU dv cm])) PS_TERMOSOLAR
                  + a_exp_src (mk_ctx ELECTRICIDAD lm (c_data c ++ [EProd i EL_INSITU dv cm])) PS_EAMBIENTE)
                 (a_cgnus (mk_ctx ELECTRICIDAD lm (c_data c))).
      intros dg dg' xc xc' ex ex' up up' xi xi' cg M1 M2 M3.
      destruct g as [gr gn gc]. destruct (phi fs0 c) as [pr pn pc]. cbn [ren nren co2 rsub radd rscale one] in *.
      assert (K00 : (0:Qc) <= 0) by apply Qcle_refl. assert (K01 : (0:Qc) <= 1) by qlra.
      repeat split.
      + pose proof (mono_lin dg dg' xc xc' ex ex' cg up up' xi xi' gn pn 0 M1 M2 M3 G2 P2 K00 K01) as L. ring_simplify in L. ring_simplify. exact L.
      + pose proof (mono_lin dg dg' xc xc' ex ex' cg up up' xi xi' gc pc 0 M1 M2 M3 G3 P3 K00 K01) as L. ring_simplify in L. ring_simplify. exact L.
      + exact (mono_lin dg dg' xc xc' ex ex' cg up up' xi xi' gn pn k M1 M2 M3 G2 P2 K0 K1).
      + exact (mono_lin dg dg' xc xc' ex ex' cg up up' xi xi' gc pc k M1 M2 M3 G3 P3 K0 K1).
      + exact M1.
    - unfold NA, XCHP, used_on. change (cx_cr (mk_ctx cr lm (c_data c))) with cr. rewrite (ctx_other (c_data c) i dv cm cr lm N). repeat split; apply Qcle_refl.
  Qed.

  (** more on-site electricity production: the building's non-renewable primary energy, its emissions (step A and
      step B, any k_exp in [0,1]) and its grid-delivered energy do not grow *)
  Theorem pv_monotone_building :
    nren (t_we_a ep') <= nren (t_we_a ep) /\ co2 (t_we_a ep') <= co2 (t_we_a ep)
    /\ nren (t_we_b ep') <= nren (t_we_b ep) /\ co2 (t_we_b ep') <= co2 (t_we_b ep)
    /\ t_del_grid ep' <= t_del_grid ep.
  Proof.
    unfold t_we_a, t_we_b, t_del_grid, rtotal, tot. rewrite !nren_rsum, !co2_rsum.
    repeat split; apply (sum_pairs (fun b => cx_cr (bc_ctx b))); try exact keys_same; intros b b' Hb Hb' K; apply (pair_le b b' Hb Hb' K).
  Qed.
End Building.
