(** * Facts about the text output model: rounding, digit strings, XML escaping and well-formedness *)
From Coq Require Import String List NArith ZArith QArith Qcanon Qround Bool Lia Lqa.
From Cteepbd Require Import Base.Num Model.Types Model.Dump Model.Text Spec.Xml.
Import ListNotations.
Open Scope list_scope.

(** ** Rounding *)
Section Rounding.
  Open Scope Qc_scope.

  Lemma floor_bounds (x : Qc) : qz (Qfloor (this x)) <= x /\ x < qz (Qfloor (this x)) + 1.
  Proof.
    pose proof (Qfloor_le (this x)) as H1. pose proof (Qlt_floor (this x)) as H2.
    rewrite inject_Z_plus in H2.
    split; unfold Qcle, Qclt; rewrite ?this_add, ?this_qz; change (this 1) with 1%Q;
      revert H1 H2; generalize (inject_Z (Qfloor (this x))); intros F H1 H2; change (inject_Z 1) with 1%Q in H2; lra.
  Qed.

  Lemma rhe_close (x : Qc) : qabs (qz (rhe x) - x) <= qhalf.
  Proof.
    unfold rhe, qhalf. destruct (floor_bounds x) as [H1 H2]. set (f := Qfloor (this x)) in *. clearbody f.
    assert (E : qz (f + 1) = qz f + 1).
    { apply Qc_is_canon. rewrite this_add, !this_qz, inject_Z_plus. reflexivity. }
    destruct (qltb_spec (x - qz f) (qfrac 1 2)) as [L|L].
    - qlra.
    - destruct (qltb_spec (qfrac 1 2) (x - qz f)) as [G|G].
      + rewrite E. qlra.
      + destruct (Z.even f); [|rewrite E]; qlra.
  Qed.

  Lemma rhe_nonneg (x : Qc) : 0 <= x -> (0 <= rhe x)%Z.
  Proof.
    intros Hx. assert (F : (0 <= Qfloor (this x))%Z).
    { change 0%Z with (Qfloor 0). apply Qfloor_resp_le. exact Hx. }
    unfold rhe. destruct (qltb _ _); [exact F|]. destruct (qltb _ _); [lia|]. destruct (Z.even _); lia.
  Qed.

  Lemma rha_close (x : Qc) : qabs (qz (rha x) - x) <= qhalf.
  Proof.
    unfold rha, qhalf. destruct (floor_bounds (qabs x)) as [H1 H2]. set (f := Qfloor (this (qabs x))) in *. clearbody f.
    assert (E : qz (f + 1) = qz f + 1).
    { apply Qc_is_canon. rewrite this_add, !this_qz, inject_Z_plus. reflexivity. }
    assert (N : forall z, qz (- z) = - qz z).
    { intros z. apply Qc_is_canon. rewrite this_opp, !this_qz, inject_Z_opp. reflexivity. }
    destruct (qltb_spec (qabs x - qz f) (qfrac 1 2)) as [L|L]; destruct (qltb_spec x 0) as [S|S];
      rewrite ?N, ?E; qlra.
  Qed.

  Lemma qabs_nonneg (x : Qc) : 0 <= qabs x.
  Proof. qlra. Qed.

  (** the integer printed by [{:.d}] is within half a unit of |q| * 10^d *)
  Lemma scaled_close d (q : Qc) :
    qabs (qz (Z.of_N (scaled d q)) - qabs q * qz (Z.of_N (pow10 d))) <= qhalf.
  Proof.
    unfold scaled. rewrite Z2N.id.
    - apply rhe_close.
    - apply rhe_nonneg. apply Qc_le_0_mul; [apply qabs_nonneg|].
      unfold Qcle. rewrite this_qz. cbn. change 0%Q with (inject_Z 0). rewrite <- Zle_Qle. lia.
  Qed.
End Rounding.

(** ** Digit strings *)
Open Scope N_scope.
Ltac Zify.zify_post_hook ::= Z.div_mod_to_equations.

Lemma dec_value_snoc l c : dec_value (l ++ [c]) = 10 * dec_value l + (c - 48).
Proof. unfold dec_value. rewrite fold_left_app. reflexivity. Qed.

Lemma dec_value_digit k : dec_value [digit k] = k.
Proof. unfold dec_value, digit. cbn [fold_left]. lia. Qed.

Lemma udec_fuel_value fuel : forall n, n < 2 ^ N.of_nat fuel -> dec_value (udec_fuel fuel n) = n.
Proof.
  induction fuel as [|f IH]; intros n Hn.
  - cbn in Hn. assert (n = 0) by lia. subst. reflexivity.
  - cbn [udec_fuel]. destruct (N.ltb_spec n 10) as [L|L].
    + apply dec_value_digit.
    + rewrite dec_value_snoc, IH.
      * unfold digit. pose proof (N.div_mod' n 10). pose proof (N.mod_lt n 10). lia.
      * rewrite Nat2N.inj_succ, N.pow_succ_r' in Hn. set (P := 2 ^ N.of_nat f) in *. clearbody P. lia.
Qed.

Lemma udec_value n : dec_value (udec n) = n.
Proof.
  unfold udec. apply udec_fuel_value. rewrite N2Nat.id.
  destruct (N.eq_dec n 0) as [->|H]; [reflexivity|]. apply N.log2_spec. lia.
Qed.

Lemma digits_length d : forall n, length (digits d n) = d.
Proof. induction d as [|d IH]; intros n; cbn [digits]; [reflexivity|]. rewrite app_length, IH. cbn. lia. Qed.

Lemma digits_value d : forall n, dec_value (digits d n) = n mod pow10 d.
Proof.
  unfold pow10. induction d as [|d IH]; intros n.
  - cbn. rewrite N.mod_1_r. reflexivity.
  - cbn [digits]. rewrite dec_value_snoc, IH, Nat2N.inj_succ, N.pow_succ_r'.
    assert (P : 10 ^ N.of_nat d <> 0) by (apply N.pow_nonzero; lia).
    rewrite (N.mod_mul_r n 10 (10 ^ N.of_nat d)) by lia.
    unfold digit. generalize ((n / 10) mod 10 ^ N.of_nat d) (n mod 10). intros A B. lia.
Qed.

(** the text written by [{:.d}]: optional sign, integer part, point and exactly [d] decimals, denoting
    [scaled d q / 10^d] *)
Theorem fmt_fixed_denotes d q :
  exists I F, fmt_fixed d q = (if qltb q 0 then [45] else []) ++ I ++ (match d with O => [] | _ => 46 :: F end)
    /\ length F = d
    /\ dec_value I * pow10 d + dec_value F = scaled d q.
Proof.
  exists (udec (scaled d q / pow10 d)), (digits d (scaled d q mod pow10 d)).
  split; [reflexivity|]. split; [apply digits_length|].
  rewrite udec_value, digits_value.
  assert (P : pow10 d <> 0) by (unfold pow10; apply N.pow_nonzero; lia).
  rewrite N.mod_mod by exact P. pose proof (N.div_mod' (scaled d q) (pow10 d)). lia.
Qed.

(** ** Character data *)
Lemma chardata_app a b : chardata a -> chardata b -> chardata (a ++ b).
Proof.
  intros Ha Hb. induction Ha as [|c r Hc Hr IH|e r He Hr IH]; [exact Hb| |].
  - cbn. apply cd_char; assumption.
  - rewrite <- app_assoc. apply cd_ent; assumption.
Qed.

Lemma chardata_plain l : forallb plain_char l = true -> chardata l.
Proof.
  induction l as [|c l IH]; intros H; [constructor|]. cbn in H. apply andb_true_iff in H as [H1 H2].
  apply cd_char; [exact H1|apply IH, H2].
Qed.

Lemma plain_range c : 39 <= c -> c < 60 -> plain_char c = true.
Proof.
  intros H1 H2. unfold plain_char, bad_c0.
  destruct (N.eqb_spec c 60); [lia|]. destruct (N.eqb_spec c 38); [lia|]. destruct (N.eqb_spec c 62); [lia|].
  destruct (N.ltb_spec c 32); [lia|]. reflexivity.
Qed.

Lemma plain_digit k : k < 10 -> plain_char (digit k) = true.
Proof. intros H. apply plain_range; unfold digit; lia. Qed.

Lemma digits_plain d : forall n, forallb plain_char (digits d n) = true.
Proof.
  induction d as [|d IH]; intros n; [reflexivity|]. cbn [digits]. rewrite forallb_app, IH. cbn [forallb].
  rewrite plain_digit; [reflexivity|]. apply N.mod_lt. lia.
Qed.

Lemma udec_fuel_plain fuel : forall n, forallb plain_char (udec_fuel fuel n) = true.
Proof.
  induction fuel as [|f IH]; intros n; cbn [udec_fuel].
  - cbn [forallb]. rewrite plain_digit; [reflexivity|]. apply N.mod_lt. lia.
  - destruct (N.ltb_spec n 10) as [L|L].
    + cbn [forallb]. rewrite plain_digit by exact L. reflexivity.
    + rewrite forallb_app, IH. cbn [forallb]. rewrite plain_digit; [reflexivity|]. apply N.mod_lt. lia.
Qed.

Lemma fmt_fixed_plain d q : forallb plain_char (fmt_fixed d q) = true.
Proof.
  unfold fmt_fixed, udec. rewrite !forallb_app, udec_fuel_plain.
  assert (S : forallb plain_char (if qltb q 0 then [45] else []) = true) by (destruct (qltb q 0); reflexivity).
  rewrite S. destruct d as [|d]; [reflexivity|]. cbn [forallb]. rewrite digits_plain. reflexivity.
Qed.

Lemma sdec_plain z : forallb plain_char (sdec z) = true.
Proof. unfold sdec, udec. destruct (Z.ltb z 0); cbn [forallb]; rewrite udec_fuel_plain; reflexivity. Qed.

Lemma forallb_join (p : N -> bool) sep l :
  forallb p sep = true -> Forall (fun x => forallb p x = true) l -> forallb p (join sep l) = true.
Proof.
  intros Hs Hl. induction Hl as [|x l Hx Hl IH]; [reflexivity|]. destruct l as [|y l]; [exact Hx|].
  change (join sep (x :: y :: l)) with (x ++ sep ++ join sep (y :: l)). rewrite !forallb_app, Hx, Hs, IH. reflexivity.
Qed.

Lemma values_2f_plain v : forallb plain_char (values_2f v) = true.
Proof.
  unfold values_2f. apply forallb_join; [reflexivity|]. apply Forall_forall. intros x Hx.
  apply in_map_iff in Hx as (q & <- & _). apply fmt_fixed_plain.
Qed.

(** ** Escaping *)
Definition esc1 (c : N) : bytes :=
  if c =? 38 then bs "&amp;" else if c =? 60 then bs "&lt;" else if c =? 62 then bs "&gt;"
  else if c =? 92 then bs "&apos;" else if c =? 34 then bs "&quot;" else [c].

Lemma flat_map_comp {A B C} (f : A -> list B) (g : B -> list C) l :
  flat_map g (flat_map f l) = flat_map (fun x => flat_map g (f x)) l.
Proof. induction l as [|a l IH]; [reflexivity|]. cbn. rewrite flat_map_app, IH. reflexivity. Qed.

(** the five successive replacements amount to one pass: no replacement text contains a character that a later
    replacement looks for *)
Lemma escape_one_pass s : escape_xml s = flat_map esc1 (fix_chars s).
Proof.
  unfold escape_xml, replace1. rewrite !flat_map_comp. apply flat_map_ext. intros x. unfold esc1.
  destruct (N.eqb_spec x 38) as [->|H1]; [reflexivity|].
  cbn [flat_map app]. rewrite !app_nil_r.
  destruct (N.eqb_spec x 60) as [->|H2]; [reflexivity|].
  cbn [flat_map app]. rewrite !app_nil_r.
  destruct (N.eqb_spec x 62) as [->|H3]; [reflexivity|].
  cbn [flat_map app]. rewrite !app_nil_r.
  destruct (N.eqb_spec x 92) as [->|H4]; [reflexivity|].
  cbn [flat_map app]. rewrite !app_nil_r. reflexivity.
Qed.

Definition good (c : N) : Prop := bad_c0 c = false.

Lemma esc_chardata l : Forall good l -> chardata (flat_map esc1 l).
Proof.
  induction 1 as [|c l Hc Hl IH]; [constructor|]. cbn [flat_map]. unfold esc1.
  destruct (N.eqb_spec c 38) as [->|H1]; [apply cd_ent; [cbn; tauto|exact IH]|].
  destruct (N.eqb_spec c 60) as [->|H2]; [apply cd_ent; [cbn; tauto|exact IH]|].
  destruct (N.eqb_spec c 62) as [->|H3]; [apply cd_ent; [cbn; tauto|exact IH]|].
  destruct (N.eqb_spec c 92) as [->|H4]; [apply cd_ent; [cbn; tauto|exact IH]|].
  destruct (N.eqb_spec c 34) as [->|H5]; [apply cd_ent; [cbn; tauto|exact IH]|].
  cbn [app]. apply cd_char; [|exact IH]. unfold plain_char. red in Hc. rewrite Hc.
  destruct (N.eqb_spec c 60); [contradiction|]. destruct (N.eqb_spec c 38); [contradiction|].
  destruct (N.eqb_spec c 62); [contradiction|]. reflexivity.
Qed.

Lemma single_good a : Forall good (single a).
Proof. unfold single. destruct (bad_c0 a) eqn:E; repeat constructor. exact E. Qed.

Lemma fix_chars_1 a : fix_chars [a] = single a ++ [].
Proof. reflexivity. Qed.
Lemma fix_chars_2 a b1 : fix_chars [a; b1] = single a ++ fix_chars [b1].
Proof. reflexivity. Qed.
Lemma fix_chars_3 a b1 c r :
  fix_chars (a :: b1 :: c :: r) =
  if (a =? 239) && (b1 =? 191) && ((c =? 190) || (c =? 191)) then repl ++ fix_chars r
  else single a ++ fix_chars (b1 :: c :: r).
Proof. reflexivity. Qed.

Lemma fix_chars_good s : Forall good (fix_chars s).
Proof.
  assert (H : forall n s, (length s <= n)%nat -> Forall good (fix_chars s)).
  { induction n as [|n IH]; intros [|a [|b1 [|c r]]] L; cbn [length] in L; try lia.
    - constructor.
    - constructor.
    - rewrite fix_chars_1. apply Forall_app. split; [apply single_good|constructor].
    - rewrite fix_chars_2. apply Forall_app. split; [apply single_good|]. apply IH. cbn. lia.
    - rewrite fix_chars_3. destruct (_ && _).
      + apply Forall_app. split; [repeat constructor|]. apply IH. cbn [length]. lia.
      + apply Forall_app. split; [apply single_good|]. apply IH. cbn [length]. lia. }
  apply (H (length s)). lia.
Qed.

(** whatever the text, its escaped form is legal character data *)
Theorem escape_chardata s : chardata (escape_xml s).
Proof. rewrite escape_one_pass. apply esc_chardata, fix_chars_good. Qed.

(** text free of control characters and of the bytes of U+FFFE / U+FFFF is left in place *)
Lemma fix_chars_id s : Forall good s -> Forall (fun c => c <> 239) s -> fix_chars s = s.
Proof.
  assert (H : forall n s, (length s <= n)%nat -> Forall good s -> Forall (fun c => c <> 239) s -> fix_chars s = s).
  { induction n as [|n IH]; intros [|a [|b1 [|c r]]] L G NE; cbn [length] in L; try lia; try reflexivity.
    - rewrite fix_chars_1. inversion G as [|? ? Ga _]; subst. unfold single. rewrite Ga. reflexivity.
    - rewrite fix_chars_2. inversion G as [|? ? Ga G']; subst. inversion NE as [|? ? _ NE']; subst.
      unfold single at 1. rewrite Ga. cbn [app]. f_equal. apply IH; [cbn; lia|assumption|assumption].
    - rewrite fix_chars_3. inversion G as [|? ? Ga G']; subst. inversion NE as [|? ? Na NE']; subst.
      destruct (N.eqb_spec a 239); [contradiction|]. cbn [andb]. unfold single. rewrite Ga. cbn [app]. f_equal.
      apply IH; [cbn [length]; lia|assumption|assumption]. }
  intros. apply (H (length s)); [lia|assumption|assumption].
Qed.

(** ** Well-formedness of the documents *)
Lemma el_eq n i : el n i = tag_open (bs n) ++ i ++ tag_close (bs n).
Proof. unfold el, tag_open, tag_close. rewrite <- !app_assoc. reflexivity. Qed.

Lemma content_el n i : name_ok (bs n) = true -> content i -> content (el n i).
Proof. intros Hn Hi. rewrite el_eq. apply ct_elem; assumption. Qed.

Lemma content_plain l : forallb plain_char l = true -> content l.
Proof. intros H. apply ct_data, chardata_plain, H. Qed.

Lemma content_nil : content [].
Proof. apply ct_data. constructor. Qed.

Lemma content_join sep l : content sep -> Forall content l -> content (join sep l).
Proof.
  intros Hs Hl. induction Hl as [|x l Hx Hl IH]; [apply content_nil|]. destruct l as [|y l]; [exact Hx|].
  change (join sep (x :: y :: l)) with (x ++ sep ++ join sep (y :: l)). apply ct_app; [exact Hx|]. apply ct_app; [exact Hs|exact IH].
Qed.

Lemma content_escape s : content (escape_xml s).
Proof. apply ct_data, escape_chardata. Qed.

Lemma content_comentario c : content (comentario c).
Proof. destruct c as [|x c]; [apply content_nil|]. apply content_el; [reflexivity|apply content_escape]. Qed.

Ltac xml_parts :=
  repeat first
    [ apply content_el; [reflexivity|]
    | apply content_escape
    | apply content_comentario
    | apply content_plain; first [apply fmt_fixed_plain | apply sdec_plain | apply values_2f_plain | reflexivity]
    | apply ct_comment; reflexivity
    | apply ct_app ].

Lemma content_meta m : content (meta_xml m).
Proof. unfold meta_xml. xml_parts. Qed.

Lemma carrier_plain c : forallb plain_char (bs (carrier_name c)) = true.  Proof. destruct c; reflexivity. Qed.
Lemma service_plain c : forallb plain_char (bs (service_name c)) = true.  Proof. destruct c; reflexivity. Qed.
Lemma prodsource_plain c : forallb plain_char (bs (prodsource_name c)) = true.  Proof. destruct c; reflexivity. Qed.
Lemma source_plain c : forallb plain_char (bs (source_name c)) = true.  Proof. destruct c; reflexivity. Qed.
Lemma dest_plain c : forallb plain_char (bs (dest_name c)) = true.  Proof. destruct c; reflexivity. Qed.
Lemma step_plain c : forallb plain_char (bs (step_name c)) = true.  Proof. destruct c; reflexivity. Qed.

Ltac xml_all :=
  repeat first
    [ apply content_el; [reflexivity|]
    | apply content_escape
    | apply content_comentario
    | apply content_plain;
      first [apply fmt_fixed_plain | apply sdec_plain | apply values_2f_plain | apply carrier_plain | apply service_plain
            | apply prodsource_plain | apply source_plain | apply dest_plain | apply step_plain | reflexivity]
    | apply ct_comment; reflexivity
    | apply ct_app ].

Lemma content_factor f : content (factor_xml f).
Proof. unfold factor_xml. xml_all. Qed.

Lemma content_energy e : content (energy_xml e).
Proof. destruct e; unfold energy_xml; xml_all. Qed.

Lemma content_demanda n o : name_ok (bs n) = true -> forallb plain_char (bs n) = true -> Forall content (demanda_xml n o).
Proof. intros H1 H2. destruct o as [v|]; [|constructor]. constructor; [|constructor]. xml_all. apply content_plain, H2. Qed.

Lemma content_map {A} (f : A -> bytes) l : (forall x, content (f x)) -> Forall content (map f l).
Proof. intros H. apply Forall_forall. intros y Hy. apply in_map_iff in Hy as (x & <- & _). apply H. Qed.

Lemma content_factors f : content (factors_xml f).
Proof.
  unfold factors_xml. apply content_el; [reflexivity|].
  repeat apply ct_app; try (apply content_plain; reflexivity).
  - apply content_join; [apply content_plain; reflexivity|]. apply content_map, content_meta.
  - apply content_join; [apply content_plain; reflexivity|]. apply content_map, content_factor.
Qed.

Lemma content_components c : content (components_xml c).
Proof.
  unfold components_xml. apply content_el; [reflexivity|].
  repeat apply ct_app; try (apply content_plain; reflexivity).
  - apply content_join; [apply content_plain; reflexivity|]. apply content_map, content_meta.
  - apply content_join; [apply content_plain; reflexivity|]. apply content_map, content_energy.
  - apply content_join; [apply content_plain; reflexivity|].
    repeat (apply Forall_app; split); apply content_demanda; reflexivity.
Qed.

(** the XML document written for a result is well formed, whatever the metadata, comments and figures *)
Lemma document_el n i : name_ok (bs n) = true -> content i -> document (el n i).
Proof. intros Hn Hi. exists (bs n), i. split; [exact Hn|]. split; [exact Hi|apply el_eq]. Qed.

Theorem ep_xml_document f c k area r n : document (ep_xml f c k area r n).
Proof.
  unfold ep_xml. apply document_el; [reflexivity|].
  repeat first
    [ apply content_factors
    | apply content_components
    | apply content_el; [reflexivity|]
    | apply content_plain; first [apply fmt_fixed_plain | reflexivity]
    | apply ct_comment; reflexivity
    | apply ct_app ].
Qed.

(** ** The tables of the plain report do not depend on the order in which the entries are visited *)
Lemma bytes_leb_total a : forall b, bytes_leb a b = false -> bytes_leb b a = true.
Proof.
  induction a as [|x a IH]; intros [|y b] H; cbn in *; try discriminate; try reflexivity.
  destruct (N.ltb_spec x y); [discriminate|]. destruct (N.ltb_spec y x); [reflexivity|]. apply IH, H.
Qed.

Lemma bytes_leb_antisym a : forall b, bytes_leb a b = true -> bytes_leb b a = true -> a = b.
Proof.
  induction a as [|x a IH]; intros [|y b] H1 H2; cbn in *; try discriminate; try reflexivity.
  destruct (N.ltb_spec x y); destruct (N.ltb_spec y x); try discriminate; try lia.
  assert (x = y) by lia. subst. f_equal. apply IH; assumption.
Qed.

Lemma bytes_leb_trans a : forall b c, bytes_leb a b = true -> bytes_leb b c = true -> bytes_leb a c = true.
Proof.
  induction a as [|x a IH]; intros [|y b] [|z c] H1 H2; cbn in *; try discriminate; try reflexivity.
  destruct (N.ltb_spec x y); destruct (N.ltb_spec y z); destruct (N.ltb_spec x z); try reflexivity; try lia;
    destruct (N.ltb_spec y x); destruct (N.ltb_spec z y); destruct (N.ltb_spec z x); try discriminate; try lia.
  eapply IH; eassumption.
Qed.

Lemma insert_b_cons_le x z l : bytes_leb x z = true -> insert_b x (z :: l) = x :: z :: l.
Proof. intros H. cbn [insert_b]. rewrite H. reflexivity. Qed.
Lemma insert_b_cons_gt x z l : bytes_leb x z = false -> insert_b x (z :: l) = z :: insert_b x l.
Proof. intros H. cbn [insert_b]. rewrite H. reflexivity. Qed.

Lemma insert_b_comm x y l : insert_b x (insert_b y l) = insert_b y (insert_b x l).
Proof.
  induction l as [|z l IH].
  - cbn. destruct (bytes_leb x y) eqn:A; destruct (bytes_leb y x) eqn:B; try reflexivity.
    + rewrite (bytes_leb_antisym _ _ A B). reflexivity.
    + apply bytes_leb_total in A. congruence.
  - destruct (bytes_leb y z) eqn:Yz; destruct (bytes_leb x z) eqn:Xz.
    + rewrite (insert_b_cons_le y z l Yz), (insert_b_cons_le x z l Xz).
      destruct (bytes_leb x y) eqn:A; destruct (bytes_leb y x) eqn:B.
      * rewrite (bytes_leb_antisym _ _ A B). reflexivity.
      * rewrite (insert_b_cons_le x y _ A), (insert_b_cons_gt y x _ B), (insert_b_cons_le y z _ Yz). reflexivity.
      * rewrite (insert_b_cons_gt x y _ A), (insert_b_cons_le y x _ B), (insert_b_cons_le x z _ Xz). reflexivity.
      * apply bytes_leb_total in A. congruence.
    + assert (A : bytes_leb x y = false).
      { destruct (bytes_leb x y) eqn:A; [|reflexivity]. rewrite (bytes_leb_trans _ _ _ A Yz) in Xz. discriminate. }
      rewrite (insert_b_cons_le y z l Yz), (insert_b_cons_gt x z l Xz), (insert_b_cons_gt x y _ A),
        (insert_b_cons_gt x z l Xz), (insert_b_cons_le y z _ Yz). reflexivity.
    + assert (B : bytes_leb y x = false).
      { destruct (bytes_leb y x) eqn:B; [|reflexivity]. rewrite (bytes_leb_trans _ _ _ B Xz) in Yz. discriminate. }
      rewrite (insert_b_cons_gt y z l Yz), (insert_b_cons_le x z l Xz), (insert_b_cons_gt y x _ B),
        (insert_b_cons_gt y z l Yz), (insert_b_cons_le x z _ Xz). reflexivity.
    + rewrite (insert_b_cons_gt y z l Yz), (insert_b_cons_gt x z l Xz), (insert_b_cons_gt x z _ Xz),
        (insert_b_cons_gt y z _ Yz), IH. reflexivity.
Qed.

From Coq Require Import Permutation.
Theorem sort_b_perm l l' : Permutation l l' -> sort_b l = sort_b l'.
Proof.
  unfold sort_b. induction 1 as [|x l l' _ IH|x y l|l1 l2 l3 _ IH1 _ IH2]; cbn [fold_right].
  - reflexivity.
  - rewrite IH. reflexivity.
  - apply insert_b_comm.
  - congruence.
Qed.

(** ** Reading the escaped text back: every character is recovered, except that a backslash reads as an apostrophe *)
From Cteepbd Require Import Model.Parse.
Fixpoint unescape_fuel (fuel : nat) (s : bytes) : bytes :=
  match fuel with
  | O => []
  | S f =>
      match s with
      | [] => []
      | c :: r =>
          if c =? 38 then
            if starts_with [97; 109; 112; 59] r then 38 :: unescape_fuel f (skipn 4 r)
            else if starts_with [108; 116; 59] r then 60 :: unescape_fuel f (skipn 3 r)
            else if starts_with [103; 116; 59] r then 62 :: unescape_fuel f (skipn 3 r)
            else if starts_with [97; 112; 111; 115; 59] r then 39 :: unescape_fuel f (skipn 5 r)
            else if starts_with [113; 117; 111; 116; 59] r then 34 :: unescape_fuel f (skipn 5 r)
            else c :: unescape_fuel f r
          else c :: unescape_fuel f r
      end
  end.
Definition unescape (s : bytes) : bytes := unescape_fuel (length s) s.
Definition as_read (c : N) : N := if c =? 92 then 39 else c.

Lemma unescape_esc l : forall fuel, (length (flat_map esc1 l) <= fuel)%nat -> unescape_fuel fuel (flat_map esc1 l) = map as_read l.
Proof.
  induction l as [|c l IH]; intros fuel Hf.
  - destruct fuel; reflexivity.
  - cbn [flat_map map]. unfold esc1 at 1. unfold as_read at 1.
    cbn [flat_map] in Hf. rewrite app_length in Hf. unfold esc1 at 1 in Hf.
    destruct (N.eqb_spec c 38) as [->|N1].
    { cbn in Hf. destruct fuel as [|f]; [lia|]. cbn. f_equal. apply IH. lia. }
    destruct (N.eqb_spec c 60) as [->|N2].
    { cbn in Hf. destruct fuel as [|f]; [lia|]. cbn. f_equal. apply IH. lia. }
    destruct (N.eqb_spec c 62) as [->|N3].
    { cbn in Hf. destruct fuel as [|f]; [lia|]. cbn. f_equal. apply IH. lia. }
    destruct (N.eqb_spec c 92) as [->|N4].
    { cbn in Hf. destruct fuel as [|f]; [lia|]. cbn. f_equal. apply IH. lia. }
    destruct (N.eqb_spec c 34) as [->|N5].
    { cbn in Hf. destruct fuel as [|f]; [lia|]. cbn. f_equal. apply IH. lia. }
    cbn [length app] in Hf. destruct fuel as [|f]; [lia|]. cbn [app unescape_fuel].
    destruct (N.eqb_spec c 38); [contradiction|]. f_equal. apply IH. lia.
Qed.

Theorem unescape_escape s : unescape (escape_xml s) = map as_read (fix_chars s).
Proof. unfold unescape. rewrite escape_one_pass. apply unescape_esc. apply Nat.le_refl. Qed.
