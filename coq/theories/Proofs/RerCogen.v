(** * Nesting of the on-site and nearby perimeters with exported cogenerated electricity (C13)

    [onst_le_nrb_no_export] (RerFacts.v) needs a building that exports no electricity.  Here: the building may export
    cogenerated electricity, provided no on-site (EL_INSITU) electricity is exported and every cogeneration fuel is a
    nearby carrier that is not generated on site (biomass, densified biomass, district networks).  The renewable
    resources of the exported electricity that the nearby perimeter subtracts are then bounded by the renewable energy
    of the fuel, which the perimeter contains.  The two recorded findings (C13_nested_refuted,
    C13_nearby_negative_refuted) are exactly the two hypotheses failing. *)
From Cteepbd Require Import Model.Factors Proofs.StepFacts Proofs.ColFacts Proofs.EpFacts Proofs.Breakdown
  Proofs.FactorFacts Proofs.NeededKeys Proofs.CtxFacts Proofs.ClosedForm Proofs.DataEquiv Proofs.CompleteFacts Proofs.Refine Proofs.StripFacts
  Proofs.RerFacts.
From Cteepbd Require Import Spec.Iso52000.
Open Scope Qc_scope.

Section NearbyCogen.
  Variables (fs0 : list Factor) (c : Components) (area : Qc) (lm : bool) (n : nat) (ep : EP).
  Hypothesis Hrs : reg_set fs0.
  Hypothesis Hn : nonneg_data (c_data c).
  Hypothesis Hd : dom_data (c_data c).
  Hypothesis Hwf : wf n (c_data c).
  Hypothesis Hpos : (0 < n)%nat.
  Hypothesis Hep : energy_performance c fs0 0 area lm = Ok ep.
  Let data := c_data c.
  Let ph := phi fs0 c.

  (** a carrier whose use as cogeneration input the nearby perimeter accounts for *)
  Definition nearby_fuel (cr : Carrier) : bool := cr_is_nearby cr && negb (cr_is_onsite cr).

  Hypothesis Hfuel : forall cr, nearby_fuel cr = false -> a_cgnus (mk_ctx cr lm data) = 0.
  Hypothesis Hpv : a_exp_src (mk_ctx ELECTRICIDAD lm data) EL_INSITU = 0.

  Lemma thermal_not_el j : j = PS_TERMOSOLAR \/ j = PS_EAMBIENTE -> a_exp_src (mk_ctx ELECTRICIDAD lm data) j = 0.
  Proof.
    intros Hj. apply absent_exp_zero. intros Hin. destruct (srcs_carrier ELECTRICIDAD lm data j Hin) as [Hc _].
    destruct Hj as [-> | ->]; discriminate.
  Qed.

  Lemma onst_le_nrb_nearby_cogen : ren_onst ep <= ren_nrb ep.
  Proof.
    unfold ren_onst, ren_nrb, tot, ren_of_el.
    assert (K : ep_k ep = 0) by (now destruct (ep_ok _ _ _ _ _ _ Hep)). rewrite K.
    change (fun b => Carrier_beq (cx_cr (bc_ctx b)) ELECTRICIDAD) with is_el.
    set (O := fun b => if cr_is_onsite (cx_cr (bc_ctx b)) then ren (we_b (bc_we b)) else 0).
    set (N := fun b => if cr_is_nearby (cx_cr (bc_ctx b)) then ren (we_b (bc_we b)) else 0).
    set (h := fun b => a_cgnus (bc_ctx b) * ren (gof fs0 (cx_cr (bc_ctx b)))).
    (* termwise: what the on-site perimeter counts plus the renewable energy of the cogeneration fuel is in the nearby one *)
    assert (LB : forall b, In b (ep_bal ep) -> O b + h b <= N b).
    { intros b Hb. destruct (bal_closed fs0 c 0 area lm n ep Hrs Hn Hd Hwf Hpos Hep b Hb) as (g & Hg & Gn & Hctx & Ea & _).
      unfold O, N, h. remember (cx_cr (bc_ctx b)) as cr eqn:Ecr. fold data in Hctx.
      destruct (nearby_fuel cr) eqn:NF.
      - (* nearby, not generated on site: the balance contains the fuel *)
        unfold nearby_fuel in NF. apply andb_true_iff in NF as [Nb On]. apply negb_true_iff in On. rewrite Nb, On.
        assert (E : is_el b = false) by (unfold is_el; rewrite <- Ecr; destruct cr; try discriminate; reflexivity).
        assert (XO : XCHP cr lm data ph = rnc0) by (rewrite Ecr; apply (xchp_other fs0 c lm ep b Hb E)).
        rewrite (we_b_is_a fs0 c area lm ep Hep b Hb), Ea. fold data. fold ph. rewrite XO.
        assert (Eg : gof fs0 cr = g) by (unfold gof, lk; unfold grid_key, lookk in Hg; now rewrite Hg).
        rewrite Eg, Hctx. unfold NA. cbn [ren radd rsub rscale rnc0 one].
        pose proof (del_grid_an_nonneg cr lm data Hn) as D. destruct Gn as (G & _).
        assert (U : 0 <= used_on cr lm data) by (unfold used_on; repeat apply Qc_le_0_add; apply (used_src_an_nonneg cr lm data Hn)).
        assert (P1 : 0 <= a_del_grid (mk_ctx cr lm data) * ren g) by (now apply Qc_le_0_mul).
        revert P1 U. generalize (a_del_grid (mk_ctx cr lm data) * ren g) (used_on cr lm data) (a_cgnus (mk_ctx cr lm data) * ren g).
        intros a1 a2 a3 P1 U. qlra.
      - (* any other carrier: no cogeneration input, and what the on-site perimeter counts the nearby one counts too *)
        rewrite Hctx, (Hfuel cr NF), Qcmult_0_l.
        destruct (cr_is_onsite cr) eqn:On.
        + assert (Nb : cr_is_nearby cr = true) by (destruct cr; try discriminate; reflexivity). rewrite Nb. qlra.
        + destruct (cr_is_nearby cr) eqn:Nb; [|qlra]. unfold nearby_fuel in NF. rewrite Nb, On in NF. discriminate. }
    assert (SUM : qsum (map O (ep_bal ep)) + qsum (map h (ep_bal ep)) <= qsum (map N (ep_bal ep))).
    { rewrite <- qsum_map_add. apply qsum_map_le. exact LB. }
    (* the cogeneration input, summed over the balances = summed over the available carriers *)
    assert (S1 : qsum (map h (ep_bal ep)) = qsum (map (fun cr => a_cgnus (mk_ctx cr lm data) * ren (gof fs0 cr)) (avail_carriers data))).
    { unfold data. rewrite <- (bal_carriers fs0 c area lm ep Hep). rewrite map_map. apply qsum_map_ext. intros b Hb.
      destruct (bal_closed fs0 c 0 area lm n ep Hrs Hn Hd Hwf Hpos Hep b Hb) as (g & _ & _ & Hctx & _).
      unfold h. now rewrite <- Hctx. }
    assert (P : 0 <= qsum (map (fun cr => a_cgnus (mk_ctx cr lm data) * ren (gof fs0 cr)) (avail_carriers data))).
    { apply qsum_map_nonneg. intros cr _. apply Qc_le_0_mul; [apply (cgnus_an_nonneg cr lm data Hn)|]. now destruct (gof_nonneg fs0 Hrs cr). }
    destruct (find is_el (ep_bal ep)) as [bel|] eqn:F.
    - apply find_some in F as [Hbel Eel]. pose proof Eel as Eel'. unfold is_el in Eel'. apply Carrier_beq_eq in Eel'.
      destruct (bal_closed fs0 c 0 area lm n ep Hrs Hn Hd Hwf Hpos Hep bel Hbel) as (g & _ & (G1 & _) & Hctx & _ & _ & _ & E2 & _ & E4).
      fold data in Hctx. rewrite Eel' in Hctx.
      assert (C : 0 <= ren (we_del_cgn (bc_we bel))).
      { rewrite E2, Hctx. cbn [ren rscale]. apply Qc_le_0_mul; [apply (cgnus_an_nonneg ELECTRICIDAD lm data Hn)|exact G1]. }
      assert (X : ren (we_exp_a (bc_we bel)) = ren (XCHP ELECTRICIDAD lm data ph)).
      { rewrite E4, Hctx. change (cx_cr (mk_ctx ELECTRICIDAD lm data)) with ELECTRICIDAD. fold data. fold ph. cbn [ren radd rscale one].
        rewrite Hpv, (thermal_not_el PS_TERMOSOLAR (or_introl eq_refl)), (thermal_not_el PS_EAMBIENTE (or_intror eq_refl)). ring. }
      assert (Hav : In ELECTRICIDAD (avail_carriers data)).
      { unfold data. rewrite <- (bal_carriers fs0 c area lm ep Hep). rewrite <- Eel'. apply in_map_iff. exists bel. split; [reflexivity|exact Hbel]. }
      pose proof (xchp_bound fs0 c lm n Hn Hwf Hpos ren (fun a b => eq_refl) (fun k a => eq_refl) eq_refl
                             (fun cr => proj1 (gof_nonneg fs0 Hrs cr)) Hav) as B.
      fold data in B. fold ph in B. rewrite X.
      revert SUM S1 B C. generalize (qsum (map O (ep_bal ep))) (qsum (map h (ep_bal ep))) (qsum (map N (ep_bal ep)))
        (qsum (map (fun cr => a_cgnus (mk_ctx cr lm data) * ren (gof fs0 cr)) (avail_carriers data)))
        (ren (we_del_onst (bc_we bel))) (ren (we_del_cgn (bc_we bel))) (ren (XCHP ELECTRICIDAD lm data ph)).
      intros so sh sn sf o cg x SUM S1 B C. qlra.
    - revert SUM S1 P. generalize (qsum (map O (ep_bal ep))) (qsum (map h (ep_bal ep))) (qsum (map N (ep_bal ep)))
        (qsum (map (fun cr => a_cgnus (mk_ctx cr lm data) * ren (gof fs0 cr)) (avail_carriers data))).
      intros so sh sn sf SUM S1 P. qlra.
  Qed.
End NearbyCogen.
