(** * strip is invisible (C08); a prepared set is complete (C07) *)
From Cteepbd Require Import Model.Factors Proofs.StepFacts Proofs.ColFacts Proofs.EpFacts Proofs.Breakdown
  Proofs.FactorFacts Proofs.NeededKeys Proofs.CtxFacts Proofs.Refine Proofs.DataEquiv.
Open Scope Qc_scope.

(** ** a filter on keys that keeps a key does not change its lookup *)
Lemma lookk_filter (P : fkey -> bool) fs k : P k = true ->
  lookk (filter (fun f => P (key_of f)) fs) k = lookk fs k.
Proof.
  intros Hk. induction fs as [|f fs IH]; [reflexivity|]. cbn [filter]. rewrite lookk_cons.
  destruct (kmatch k f) eqn:M.
  - rewrite kmatch_key in M. destruct (fkey_eqb_spec (key_of f) k) as [E|]; [|discriminate].
    rewrite E, Hk. rewrite lookk_cons, kmatch_key, E.
    destruct (fkey_eqb_spec k k); [reflexivity|congruence].
  - destruct (P (key_of f)); [rewrite lookk_cons, M|]; exact IH.
Qed.

Definition strip_pred (data : list Energy) (k : fkey) : bool :=
  let '(c, s, d, _) := k in
  existsb (Carrier_beq c) (avail_carriers data)
  && (negb (Source_beq s SRC_COGEN) || existsb is_cogen_pr data)
  && (negb (Dest_beq d A_NEPB) || existsb is_nepb_use data)
  && (negb (Carrier_beq c ELECTRICIDAD) || negb (Source_beq s INSITU)
      || existsb (fun e => match e with EOut _ _ _ _ => false | _ => has_carrier ELECTRICIDAD e end && is_onsite_pr e) data).

Lemma strip_as_filter fs data : strip fs data = filter (fun f => strip_pred data (key_of f)) fs.
Proof. unfold strip. apply filter_ext'. intros f. reflexivity. Qed.

Lemma carrier_in_avail c data : In c (avail_carriers data) -> existsb (Carrier_beq c) (avail_carriers data) = true.
Proof. intros H. apply existsb_exists. exists c. split; [exact H|]. now apply Carrier_beq_eq. Qed.

Section Strip.
  Variables (data : list Energy) (lm : bool) (cr : Carrier).
  Hypothesis Hn : nonneg_data data.
  Hypothesis Ha : aux_ok data.
  Hypothesis Hcr : In cr (avail_carriers data).
  Let x := mk_ctx cr lm data.

  Lemma onsite_el_present j : In j (cx_srcs x) -> cr = ELECTRICIDAD -> ps_source j = INSITU ->
    existsb (fun e => match e with EOut _ _ _ _ => false | _ => has_carrier ELECTRICIDAD e end && is_onsite_pr e) data = true.
  Proof.
    intros Hj -> Hs. destruct (srcs_carrier ELECTRICIDAD lm data j Hj) as [Hc He].
    destruct j; try discriminate. eapply existsb_imp; [|exact He]. intros e Pe. destruct e; try discriminate.
    cbn in Pe. apply ProdSource_beq_eq in Pe. subst. reflexivity.
  Qed.

  (** every key the evaluation of this carrier may look up is kept by strip *)
  Lemma needed_kept k : In k (needed x) -> strip_pred data k = true.
  Proof.
    unfold needed. cbn [app In]. change (cx_cr x) with cr. intros [<-|H].
    - unfold strip_pred. rewrite carrier_in_avail by assumption. cbn [andb negb orb Source_beq Dest_beq].
      destruct (Carrier_beq cr ELECTRICIDAD); reflexivity.
    - apply in_app_iff in H as [H|H].
      + destruct (qeqb (a_del_onst x) 0) eqn:D; [contradiction|]. destruct H as [<-|[]].
        unfold strip_pred. rewrite carrier_in_avail by assumption. cbn [andb negb orb Source_beq Dest_beq].
        destruct (Carrier_beq cr ELECTRICIDAD) eqn:E; [|reflexivity]. apply Carrier_beq_eq in E. cbn [negb orb].
        (* electricity with on-site delivery: an on-site electricity production exists *)
        destruct (existsb (is_prod_src EL_INSITU) (filter (has_carrier cr) data)) eqn:P.
        * apply (onsite_el_present EL_INSITU); [now apply in_srcs|exact E|reflexivity].
        * exfalso. assert (Z : a_del_onst x = 0).
          { apply del_onst_zero. intros j Hc Hs. destruct j; try discriminate; subst cr; try discriminate. exact P. }
          unfold x in D. fold x in Z. unfold x in Z. rewrite Z in D. destruct (qeqb_spec 0 0); [discriminate|congruence].
      + destruct (qeqb (a_exp_ne x + a_exp_grid x) 0) eqn:EA; [contradiction|].
        apply in_flat_map in H as (j & Hj & Hk). unfold export_keys in Hk. change (cx_cr x) with cr in Hk.
        destruct (srcs_carrier cr lm data j Hj) as [Hc He].
        assert (Cg : negb (Source_beq (ps_source j) SRC_COGEN) || existsb is_cogen_pr data = true).
        { destruct j; try reflexivity. cbn. eapply existsb_imp; [|exact He]. intros e Pe. destruct e; try discriminate. exact Pe. }
        assert (El : negb (Carrier_beq cr ELECTRICIDAD) || negb (Source_beq (ps_source j) INSITU)
                     || existsb (fun e => match e with EOut _ _ _ _ => false | _ => has_carrier ELECTRICIDAD e end && is_onsite_pr e) data = true).
        { destruct (Carrier_beq cr ELECTRICIDAD) eqn:E; [|reflexivity]. apply Carrier_beq_eq in E. cbn [negb orb].
          destruct (Source_beq (ps_source j) INSITU) eqn:S; [|reflexivity]. apply Source_beq_eq in S. cbn [negb orb].
          now apply (onsite_el_present j). }
        apply in_app_iff in Hk as [Hk|Hk].
        * destruct (qeqb (a_exp_ne x) 0) eqn:NE; [contradiction|].
          assert (Np : existsb is_nepb_use data = true).
          { destruct (existsb is_nepb_use data) eqn:N; [reflexivity|]. exfalso.
            unfold x in NE. rewrite (exp_ne_zero cr lm data Hn Ha N) in NE. destruct (qeqb_spec 0 0); [discriminate|congruence]. }
          destruct Hk as [<-|[<-|[]]]; unfold strip_pred; rewrite carrier_in_avail, Cg, Np, El by assumption; reflexivity.
        * destruct (qeqb (a_exp_grid x) 0); [contradiction|].
          destruct Hk as [<-|[<-|[]]]; unfold strip_pred; rewrite carrier_in_avail, Cg, El by assumption; reflexivity.
  Qed.

  Lemma strip_needed fs extra k : In k (needed x) -> lookk (strip fs data ++ extra) k = lookk (fs ++ extra) k.
  Proof. intros H. rewrite !lookk_app, strip_as_filter, lookk_filter; [reflexivity|]. now apply needed_kept. Qed.

  Lemma strip_weighted fs extra : weighted_parts (strip fs data ++ extra) x = weighted_parts (fs ++ extra) x.
  Proof. apply weighted_parts_cong. intros k Hk. now apply strip_needed. Qed.
End Strip.

(** ** cogeneration factors are computed from kept factors *)
Lemma grid_kept data c : In c (avail_carriers data) -> strip_pred data (grid_key c) = true.
Proof.
  intros H. unfold strip_pred, grid_key. rewrite carrier_in_avail by assumption. cbn [andb negb orb Source_beq Dest_beq].
  destruct (Carrier_beq c ELECTRICIDAD); reflexivity.
Qed.

Lemma fuel_avail data c : In c (cgn_fuel_carriers data) -> In c (avail_carriers data).
Proof.
  unfold cgn_fuel_carriers, avail_carriers. rewrite !filter_In. intros [Hc H]. split; [exact Hc|].
  eapply existsb_imp; [|exact H]. intros e He. apply andb_true_iff in He as [U C]. rewrite C.
  destruct e; try discriminate. reflexivity.
Qed.

Lemma cgn_sum_strip fs data n crs : (forall c, In c crs -> In c (avail_carriers data)) ->
  cgn_sum (strip fs data) data n false crs = cgn_sum fs data n false crs.
Proof.
  induction crs as [|c crs IH]; intros H; cbn [cgn_sum andb]; [reflexivity|].
  rewrite !findf_lookk. change (c, RED, SUMINISTRO, STEP_A) with (grid_key c).
  rewrite strip_as_filter, lookk_filter by (apply grid_kept, H; now left). rewrite <- strip_as_filter.
  rewrite IH; [reflexivity|]. intros; apply H; now right.
Qed.

Lemma cogen_el_avail data : cgn_num_steps data <> 0%nat -> In ELECTRICIDAD (avail_carriers data).
Proof.
  unfold cgn_num_steps, avail_carriers. intros H. apply filter_In. split; [apply all_carriers_complete|].
  destruct (filter is_cogen_pr data) as [|e l] eqn:F; [now cbn in H|].
  assert (He : In e (filter is_cogen_pr data)) by (rewrite F; now left). apply filter_In in He as [He Pe].
  apply existsb_exists. exists e. split; [exact He|]. destruct e; try discriminate. cbn in Pe.
  apply ProdSource_beq_eq in Pe. subst. reflexivity.
Qed.

Lemma add_cgn_strip fs data :
  match add_cgn_factors fs data with
  | Ok fs1 => exists extra, fs1 = fs ++ extra /\ add_cgn_factors (strip fs data) data = Ok (strip fs data ++ extra)
  | Err e => add_cgn_factors (strip fs data) data = Err e
  end.
Proof.
  unfold add_cgn_factors, compute_cgn_exp_fP_A.
  destruct (cgn_num_steps data) as [|m] eqn:N.
  - cbn [bind]. exists []. now rewrite !app_nil_r.
  - destruct (cgn_fuel_carriers data) as [|c cs] eqn:C; [reflexivity|].
    rewrite cgn_sum_strip by (intros c0 Hc0; apply fuel_avail; now rewrite C).
    destruct (cgn_sum fs data (S m) false (c :: cs)) as [r|e]; cbn [bind]; [|reflexivity].
    rewrite !findf_lookk. change (ELECTRICIDAD, RED, SUMINISTRO, STEP_A) with (grid_key ELECTRICIDAD).
    rewrite strip_as_filter, lookk_filter by (apply grid_kept, cogen_el_avail; congruence). rewrite <- strip_as_filter.
    destruct (lookk fs (grid_key ELECTRICIDAD)); cbn [bind]; [|reflexivity].
    eexists. split; reflexivity.
Qed.

Lemma balances_strip fs extra k lm data crs :
  nonneg_data data -> aux_ok data -> (forall c, In c crs -> In c (avail_carriers data)) ->
  balances (strip fs data ++ extra) k lm data crs = balances (fs ++ extra) k lm data crs.
Proof.
  intros Hn Ha. induction crs as [|c crs IH]; intros H; cbn [balances]; [reflexivity|].
  unfold balance_for_carrier. rewrite strip_weighted by (try assumption; apply H; now left).
  rewrite IH; [reflexivity|]. intros; apply H; now right.
Qed.

(** evaluating with the simplified set gives the same error or the same balances *)
Lemma strip_invisible c fs k area lm :
  nonneg_data (c_data c) -> aux_ok (c_data c) ->
  match energy_performance c fs k area lm, energy_performance c (strip fs (c_data c)) k area lm with
  | Ok e, Ok e' => ep_bal e = ep_bal e' /\ ep_k e = ep_k e' /\ ep_area e = ep_area e' /\ ep_needs e = ep_needs e' /\ ep_data e = ep_data e'
  | Err a, Err b => a = b
  | _, _ => False
  end.
Proof.
  intros Hn Ha. unfold energy_performance. destruct (qltb area (qfrac 1 1000)); [reflexivity|].
  pose proof (add_cgn_strip fs (c_data c)) as S.
  destruct (add_cgn_factors fs (c_data c)) as [fs1|e]; cbn [bind].
  - destruct S as (extra & -> & ->). cbn [bind].
    rewrite balances_strip by (try assumption; auto).
    destruct (balances (fs ++ extra) k lm (c_data c) (avail_carriers (c_data c))); cbn [bind]; [|reflexivity].
    repeat split.
  - rewrite S. reflexivity.
Qed.
