(** * Normalisation does not depend on the order of the declared components (C10)

    Reordering the lines of a components file permutes the list of declared components.  The completions and the
    reassigned auxiliary components only depend on per-system sums and on which kinds of components a system has, and
    the final sort is stable: the normalised list of a permuted list is a permutation of the normalised list, so
    (C10_reorder) the evaluation is the same. *)
From Cteepbd Require Import Model.Components Proofs.NormFacts Proofs.DataEquiv Proofs.WfFacts Proofs.CompleteIdem Proofs.NormIdem.
From Coq Require Import Permutation.
Open Scope Qc_scope.

(** ** what only depends on the multiset of components *)
Lemma nil_perm {A B} (l l' : list A) (a b : B) : Permutation l l' ->
  match l with [] => a | _ :: _ => b end = match l' with [] => a | _ :: _ => b end.
Proof. intros P. destruct l, l'; try reflexivity; [apply Permutation_nil in P|apply Permutation_sym, Permutation_nil in P]; discriminate. Qed.

Lemma sum_at_perm l l' t : Permutation l l' -> sum_at l t = sum_at l' t.
Proof. intros P. unfold sum_at. apply qsum_perm. now apply Permutation_map. Qed.

Lemma max_len_perm l l' : Permutation l l' -> max_len l = max_len l'.
Proof.
  induction 1 as [|x l l' _ IH|x y l|l l' l'' _ IH1 _ IH2]; cbn [max_len fold_right] in *; try reflexivity.
  - unfold max_len in IH. now rewrite IH.
  - fold (max_len l). lia.
  - congruence.
Qed.

Lemma veclistsum_perm l l' : Permutation l l' -> veclistsum l = veclistsum l'.
Proof.
  intros P. unfold veclistsum. rewrite (nil_perm l l' 1%nat (max_len l) P) at 1.
  replace (match l' with [] => 1%nat | _ :: _ => max_len l end) with (match l' with [] => 1%nat | _ :: _ => max_len l' end)
    by (destruct l'; [reflexivity|symmetry; now apply max_len_perm]).
  apply map_ext. intros t. now apply sum_at_perm.
Qed.

Lemma existsb_perm {A} (p : A -> bool) l l' : Permutation l l' -> existsb p l = existsb p l'.
Proof. induction 1; cbn [existsb]; try congruence. destruct (p x), (p y); reflexivity. Qed.

Lemma unbalanced_perm env env' i : Permutation env env' -> unbalanced env i = unbalanced env' i.
Proof.
  intros P. unfold unbalanced.
  pose proof (filter_perm (fun e => has_id i e && is_used e) env env' P) as Pu.
  pose proof (filter_perm (fun e => has_id i e && is_generated e) env env' P) as Pp.
  set (u := filter (fun e => has_id i e && is_used e) env) in *. set (u' := filter (fun e => has_id i e && is_used e) env') in *.
  set (p := filter (fun e => has_id i e && is_generated e) env) in *. set (p' := filter (fun e => has_id i e && is_generated e) env') in *.
  rewrite (veclistsum_perm u u' Pu), (veclistsum_perm p p' Pp).
  destruct u as [|u0 us], u' as [|v0 vs]; try reflexivity; try (apply Permutation_nil in Pu; discriminate); try (apply Permutation_sym, Permutation_nil in Pu; discriminate).
  f_equal. destruct p as [|p0 ps], p' as [|q0 qs]; try reflexivity; [apply Permutation_nil in Pp|apply Permutation_sym, Permutation_nil in Pp]; discriminate.
Qed.

Lemma completion_perm src env env' i : Permutation env env' -> completion_for src env i = completion_for src env' i.
Proof. intros P. unfold completion_for. now rewrite (unbalanced_perm env env' i P). Qed.

Lemma ids_of_mem l j : In j (ids_of l) <-> exists e, In e l /\ e_id e = j.
Proof.
  split; [apply ids_of_in|]. intros (e & He & <-). pose proof (ids_of_complete l e He) as X.
  apply existsb_exists in X as (k & Hk & E). apply Z.eqb_eq in E. now rewrite E.
Qed.

Lemma ids_of_perm l l' : Permutation l l' -> Permutation (ids_of l) (ids_of l').
Proof.
  intros P. apply NoDup_Permutation; try apply ids_of_nodup. intros j. rewrite !ids_of_mem.
  split; intros (e & He & E); exists e; (split; [|exact E]); [apply (Permutation_in _ P He)|apply (Permutation_in _ (Permutation_sym P) He)].
Qed.

Lemma complete_perm cr data data' : Permutation data data' -> Permutation (complete cr data) (complete cr data').
Proof.
  intros P. unfold complete, complete_with. destruct (source_of_carrier cr) as [src|]; [|exact P].
  pose proof (filter_perm (has_carrier cr) data data' P) as Pe.
  apply Permutation_app; [exact P|].
  rewrite (flat_map_ext (completion_for src (filter (has_carrier cr) data)) (completion_for src (filter (has_carrier cr) data')))
    by (intros i; now apply completion_perm).
  apply Permutation_flat_map. now apply ids_of_perm.
Qed.

(** ** the assignment of the auxiliary energy of one system, on a permuted list *)
Definition res_perm (r r' : res (list Energy)) : Prop :=
  match r, r' with Ok a, Ok b => Permutation a b | Err x, Err y => x = y | _, _ => False end.

Lemma res_perm_refl r : res_perm r r.
Proof. destruct r; cbn; [apply Permutation_refl|reflexivity]. Qed.
Lemma res_perm_trans a b c : res_perm a b -> res_perm b c -> res_perm a c.
Proof. destruct a, b, c; cbn; try tauto; try congruence. apply Permutation_trans. Qed.
Lemma res_perm_sym a b : res_perm a b -> res_perm b a.
Proof. destruct a, b; cbn; try tauto; [apply Permutation_sym|congruence]. Qed.

Lemma wf_perm n d d' : Permutation d d' -> wf n d -> wf n d'.
Proof. intros P W. unfold wf in *. eapply Permutation_Forall; eassumption. Qed.

Section OneId.
  Variables (n : nat) (i : Z) (d d' : list Energy).
  Hypothesis P : Permutation d d'.
  Hypothesis W : wf n d.
  Hypothesis NE : d <> [].

  Lemma NE' : d' <> [].
  Proof. intro K. rewrite K in P. apply Permutation_sym, Permutation_nil in P. contradiction. Qed.

  Lemma used_services_perm : used_services d i = used_services d' i.
  Proof. unfold used_services. apply filter_ext. intros s. f_equal. now apply existsb_perm. Qed.
  Lemma out_services_perm : out_services d i = out_services d' i.
  Proof. unfold out_services. apply filter_ext. intros s. now apply existsb_perm. Qed.
  Lemma q_out_perm s t : q_out d i s t = q_out d' i s t.
  Proof. unfold q_out. apply sum_at_perm. now apply filter_perm. Qed.
  Lemma q_tot_perm t : q_tot d i t = q_tot d' i t.
  Proof. unfold q_tot, q_mag. rewrite out_services_perm. f_equal. apply map_ext. intros s. now rewrite q_out_perm. Qed.
  Lemma aux_share_perm s t : aux_share d i s t = aux_share d' i s t.
  Proof. unfold aux_share, q_mag. now rewrite q_tot_perm, q_out_perm. Qed.

  Theorem assign_id_perm : res_perm (assign_aux_id d i) (assign_aux_id d' i).
  Proof.
    unfold assign_aux_id. rewrite <- used_services_perm.
    rewrite (num_steps_wf n d W NE), (num_steps_wf n d' (wf_perm n d d' P W) NE').
    assert (Multi : res_perm
      (if qltb 0 (qsum (veclistsum (filter (is_aux_of i) d))) && qeqb (qsum (map (q_tot d i) (seq 0 n))) 0 then Err WrongInput
       else Ok (filter (fun e => negb (is_aux_of i e)) d
                ++ map (fun s => EAux i s (map (fun p => aux_share d i s (fst p) * snd p) (combine (seq 0 n) (veclistsum (filter (is_aux_of i) d)))) comment_aux) (out_services d i)))
      (if qltb 0 (qsum (veclistsum (filter (is_aux_of i) d'))) && qeqb (qsum (map (q_tot d' i) (seq 0 n))) 0 then Err WrongInput
       else Ok (filter (fun e => negb (is_aux_of i e)) d'
                ++ map (fun s => EAux i s (map (fun p => aux_share d' i s (fst p) * snd p) (combine (seq 0 n) (veclistsum (filter (is_aux_of i) d')))) comment_aux) (out_services d' i)))).
    { rewrite <- (veclistsum_perm _ _ (filter_perm (is_aux_of i) d d' P)), <- out_services_perm.
      rewrite <- (map_ext (q_tot d i) (q_tot d' i) q_tot_perm).
      destruct (_ && _); [reflexivity|]. cbn [res_perm]. apply Permutation_app; [now apply filter_perm|].
      rewrite (map_ext (fun s => EAux i s (map (fun p => aux_share d' i s (fst p) * snd p) (combine (seq 0 n) (veclistsum (filter (is_aux_of i) d)))) comment_aux)
                       (fun s => EAux i s (map (fun p => aux_share d i s (fst p) * snd p) (combine (seq 0 n) (veclistsum (filter (is_aux_of i) d)))) comment_aux)).
      - apply Permutation_refl.
      - intros s. f_equal. apply map_ext. intros p. now rewrite aux_share_perm. }
    destruct (used_services d i) as [|s [|s' l]]; [exact Multi| |exact Multi].
    cbn [res_perm]. now apply Permutation_map.
  Qed.
End OneId.

(** the same systems in the same order, on a permuted list *)
Lemma assign_ids_perm_data n ids : forall d d', Permutation d d' -> wf n d ->
  (forall j, In j ids -> filter (is_aux_of j) d <> []) -> NoDup ids ->
  res_perm (assign_aux_ids d ids) (assign_aux_ids d' ids).
Proof.
  induction ids as [|i ids IH]; intros d d' P W Ha ND; cbn [assign_aux_ids]; [exact P|].
  assert (Ai : filter (is_aux_of i) d <> []) by (apply Ha; now left).
  assert (NE : d <> []) by (intro K; rewrite K in Ai; now apply Ai).
  pose proof (assign_id_perm n i d d' P W NE) as R.
  destruct (assign_aux_id d i) as [d1|e] eqn:E1, (assign_aux_id d' i) as [d1'|e'] eqn:E1'; cbn [res_perm] in R; try contradiction; cbn [bind]; [|exact R].
  inversion ND as [|? ? Ni ND']; subst. apply IH; [exact R|apply (assign_aux_id_wf n d i d1 W Ai E1)| |exact ND'].
  intros j Hj. rewrite (is_aux_of_other i j d1 d); [apply Ha; now right| |apply (assign_aux_id_others d i d1 E1)]. intro K. subst j. contradiction.
Qed.

(** ** the order in which the systems are processed *)
Lemma partition_perm {A} (p : A -> bool) l : Permutation l (filter p l ++ filter (fun x => negb (p x)) l).
Proof.
  induction l as [|x l IH]; [apply Permutation_refl|]. cbn [filter]. destruct (p x); cbn [negb app].
  - now apply perm_skip.
  - eapply Permutation_trans; [apply perm_skip, IH|]. apply Permutation_middle.
Qed.

Lemma blocks_perm : forall l l', (forall k, block k l = block k l') -> Permutation l l'.
Proof.
  intros l. remember (length l) as m eqn:Hm. revert l Hm. induction m as [m IH] using lt_wf_ind. intros l Hm l' B.
  destruct l as [|x r].
  - destruct l' as [|y r']; [apply Permutation_refl|]. specialize (B (e_id y)). unfold block in B. cbn [filter] in B. unfold has_id at 1 in B. rewrite Z.eqb_refl in B. discriminate.
  - set (i := e_id x). set (p := fun e => negb (has_id i e)).
    eapply Permutation_trans; [apply (partition_perm (has_id i))|]. eapply Permutation_trans; [|apply Permutation_sym, (partition_perm (has_id i))].
    fold (block i (x :: r)). fold (block i l'). rewrite (B i). apply Permutation_app; [apply Permutation_refl|].
    apply (IH (length (filter p (x :: r)))); [|reflexivity|].
    + subst m. cbn [filter]. unfold p at 1, has_id at 1, i. rewrite Z.eqb_refl. cbn [negb length]. pose proof (filter_len_le p r). lia.
    + intros k. unfold block. rewrite !(filter_comm (has_id k) p). f_equal. apply B.
Qed.

Lemma set_aux_has_id i j s e : has_id j (set_aux_service i s e) = has_id j e.
Proof. destruct e; try reflexivity. cbn. destruct (Z.eqb _ _); reflexivity. Qed.

Lemma block_map_set i j s d : block j (map (set_aux_service i s) d) = map (set_aux_service i s) (block j d).
Proof.
  unfold block. induction d as [|e d IH]; [reflexivity|]. cbn [map filter]. rewrite set_aux_has_id. destruct (has_id j e); cbn [map]; now rewrite IH.
Qed.

Lemma assign_err d i e : assign_aux_id d i = Err e -> e = WrongInput.
Proof.
  unfold assign_aux_id. destruct (used_services d i) as [|s [|s' l]]; try discriminate; destruct (_ && _); try discriminate; intros H; now injection H as <-.
Qed.

(** what a system receives only depends on its own components *)
Lemma assign_block_det n i d d' : wf n d -> wf n d' -> d <> [] -> d' <> [] -> block i d = block i d' ->
  match assign_aux_id d i, assign_aux_id d' i with
  | Ok r, Ok r' => block i r = block i r' | Err a, Err b => a = b | _, _ => False end.
Proof.
  intros W W' NE NE' B. unfold assign_aux_id.
  rewrite <- (used_services_block i d d' B), (num_steps_wf n d W NE), (num_steps_wf n d' W' NE').
  rewrite <- (auxs_block i d d' B), <- (out_services_block i d d' B), <- (map_ext _ _ (q_tot_block i d d' B)).
  assert (N : forall tot, map (fun s => EAux i s (map (fun p => aux_share d' i s (fst p) * snd p) (combine (seq 0 n) tot)) comment_aux) (out_services d i)
                     = map (fun s => EAux i s (map (fun p => aux_share d i s (fst p) * snd p) (combine (seq 0 n) tot)) comment_aux) (out_services d i)).
  { intros tot. apply map_ext. intros s. f_equal. apply map_ext. intros p. now rewrite (aux_share_block i d d' B). }
  rewrite N.
  assert (Multi : forall news, block i (filter (fun e => negb (is_aux_of i e)) d ++ map (fun s => EAux i s (news s) comment_aux) (out_services d i))
                        = block i (filter (fun e => negb (is_aux_of i e)) d' ++ map (fun s => EAux i s (news s) comment_aux) (out_services d i))).
  { intros news.
    assert (K : forall x, block i (filter (fun e => negb (is_aux_of i e)) x ++ map (fun s => EAux i s (news s) comment_aux) (out_services d i))
                    = filter (fun e => negb (is_aux e)) (block i x) ++ block i (map (fun s => EAux i s (news s) comment_aux) (out_services d i))).
    { intros x. unfold block at 1. rewrite filter_app. fold (block i (filter (fun e => negb (is_aux_of i e)) x)). rewrite block_kept, Z.eqb_refl. reflexivity. }
    rewrite (K d), (K d'), B. reflexivity. }
  destruct (used_services d i) as [|s [|s' l]].
  - destruct (_ && _); [reflexivity|]. apply Multi.
  - rewrite !block_map_set, B. reflexivity.
  - destruct (_ && _); [reflexivity|]. apply Multi.
Qed.

Lemma aux_nonempty_block i d : filter (is_aux_of i) d <> [] -> block i d <> [].
Proof. rewrite filter_aux_of_block. intros H K. rewrite K in H. now apply H. Qed.

Lemma block_nonempty i d : block i d <> [] -> d <> [].
Proof. intros H K. rewrite K in H. now apply H. Qed.

Lemma swap_two n i j d : i <> j -> wf n d -> filter (is_aux_of i) d <> [] -> filter (is_aux_of j) d <> [] ->
  res_perm (do d1 <- assign_aux_id d i; assign_aux_id d1 j) (do d1 <- assign_aux_id d j; assign_aux_id d1 i).
Proof.
  intros Nij W Ai Aj. assert (NE : d <> []) by (apply (block_nonempty i), aux_nonempty_block, Ai).
  destruct (assign_aux_id d i) as [di|ei] eqn:Ei; destruct (assign_aux_id d j) as [dj|ej] eqn:Ej; cbn [bind].
  - (* both succeed on d *)
    assert (Wi : wf n di) by apply (assign_aux_id_wf n d i di W Ai Ei). assert (Wj : wf n dj) by apply (assign_aux_id_wf n d j dj W Aj Ej).
    assert (Bji : block j di = block j d) by (apply (first_pass_others d i di Ei j); congruence).
    assert (Bij : block i dj = block i d) by (apply (first_pass_others d j dj Ej i); congruence).
    assert (NEi : di <> []) by (apply (block_nonempty j); rewrite Bji; apply aux_nonempty_block, Aj).
    assert (NEj : dj <> []) by (apply (block_nonempty i); rewrite Bij; apply aux_nonempty_block, Ai).
    pose proof (assign_block_det n j di d Wi W NEi NE Bji) as Dj. rewrite Ej in Dj.
    pose proof (assign_block_det n i dj d Wj W NEj NE Bij) as Di. rewrite Ei in Di.
    destruct (assign_aux_id di j) as [dij|] eqn:Eij; [|contradiction]. destruct (assign_aux_id dj i) as [dji|] eqn:Eji; [|contradiction].
    cbn [res_perm]. apply blocks_perm. intros k.
    destruct (Z.eq_dec k j) as [->|Nkj].
    + rewrite Dj. symmetry. apply (first_pass_others dj i dji Eji j). congruence.
    + destruct (Z.eq_dec k i) as [->|Nki].
      * rewrite (first_pass_others di j dij Eij i) by congruence. symmetry. exact Di.
      * rewrite (first_pass_others di j dij Eij k Nkj), (first_pass_others d i di Ei k Nki).
        rewrite (first_pass_others dj i dji Eji k Nki), (first_pass_others d j dj Ej k Nkj). reflexivity.
  - (* j fails on d: it fails after i too *)
    assert (Wi : wf n di) by apply (assign_aux_id_wf n d i di W Ai Ei).
    assert (Bji : block j di = block j d) by (apply (first_pass_others d i di Ei j); congruence).
    assert (NEi : di <> []) by (apply (block_nonempty j); rewrite Bji; apply aux_nonempty_block, Aj).
    pose proof (assign_block_det n j di d Wi W NEi NE Bji) as Dj. rewrite Ej in Dj.
    destruct (assign_aux_id di j); [contradiction|exact Dj].
  - assert (Wj : wf n dj) by apply (assign_aux_id_wf n d j dj W Aj Ej).
    assert (Bij : block i dj = block i d) by (apply (first_pass_others d j dj Ej i); congruence).
    assert (NEj : dj <> []) by (apply (block_nonempty i); rewrite Bij; apply aux_nonempty_block, Ai).
    pose proof (assign_block_det n i dj d Wj W NEj NE Bij) as Di. rewrite Ei in Di.
    destruct (assign_aux_id dj i); [contradiction|]. cbn [res_perm]. congruence.
  - cbn [res_perm]. rewrite (assign_err d i ei Ei), (assign_err d j ej Ej). reflexivity.
Qed.

Lemma aux_kept_after n d i d1 j : wf n d -> assign_aux_id d i = Ok d1 -> j <> i ->
  filter (is_aux_of j) d <> [] -> filter (is_aux_of j) d1 <> [].
Proof. intros W E N H. rewrite (is_aux_of_other i j d1 d N (assign_aux_id_others d i d1 E)). exact H. Qed.

Lemma assign_ids_perm_ids n ids ids' : Permutation ids ids' -> forall d, wf n d -> NoDup ids ->
  (forall j, In j ids -> filter (is_aux_of j) d <> []) ->
  res_perm (assign_aux_ids d ids) (assign_aux_ids d ids').
Proof.
  induction 1 as [|x l l' Pl IH|x y l|l l' l'' P1 IH1 P2 IH2]; intros d W ND Ha.
  - apply res_perm_refl.
  - cbn [assign_aux_ids]. destruct (assign_aux_id d x) as [d1|e] eqn:E1; cbn [bind]; [|reflexivity].
    inversion ND as [|? ? Nx ND']; subst. apply IH; [apply (assign_aux_id_wf n d x d1 W (Ha x (or_introl eq_refl)) E1)|exact ND'|].
    intros j Hj. apply (aux_kept_after n d x d1 j W E1); [intro K; subst j; contradiction|apply Ha; now right].
  - (* y then x, against x then y *)
    cbn [assign_aux_ids].
    inversion ND as [|? ? Ny ND1]; subst. inversion ND1 as [|? ? Nx ND2]; subst.
    assert (Nxy : y <> x) by (intro K; subst; apply Ny; now left).
    assert (Ay : filter (is_aux_of y) d <> []) by (apply Ha; now left).
    assert (Ax : filter (is_aux_of x) d <> []) by (apply Ha; right; now left).
    pose proof (swap_two n y x d Nxy W Ay Ax) as S.
    destruct (assign_aux_id d y) as [dy|ey] eqn:Ey; destruct (assign_aux_id d x) as [dx|ex] eqn:Ex; cbn [bind] in S |- *.
    + destruct (assign_aux_id dy x) as [dyx|] eqn:Eyx; destruct (assign_aux_id dx y) as [dxy|] eqn:Exy; cbn [res_perm bind] in S |- *; try contradiction; [|exact S].
      assert (Wy : wf n dy) by apply (assign_aux_id_wf n d y dy W Ay Ey).
      assert (Ax' : filter (is_aux_of x) dy <> []) by (apply (aux_kept_after n d y dy x W Ey); [congruence|exact Ax]).
      apply (assign_ids_perm_data n l dyx dxy S); [apply (assign_aux_id_wf n dy x dyx Wy Ax' Eyx)| |exact ND2].
      intros j Hj. apply (aux_kept_after n dy x dyx j Wy Eyx); [intro K; subst j; contradiction|].
      apply (aux_kept_after n d y dy j W Ey); [intro K; subst j; apply Ny; now right|apply Ha; right; now right].
    + destruct (assign_aux_id dy x); cbn [res_perm bind] in S |- *; [contradiction|exact S].
    + destruct (assign_aux_id dx y); cbn [res_perm bind] in S |- *; [contradiction|exact S].
    + exact S.
  - apply (res_perm_trans _ (assign_aux_ids d l')); [now apply IH1|]. apply IH2; [exact W|apply (Permutation_NoDup P1 ND)|].
    intros j Hj. apply Ha. apply (Permutation_in _ (Permutation_sym P1) Hj).
Qed.

Lemma aux_ids_have_aux d j : In j (ids_of (filter is_aux d)) -> filter (is_aux_of j) d <> [].
Proof.
  intros Hj. apply ids_of_in in Hj as (e & He & Ee). apply filter_In in He as [He Ae].
  intro K. assert (In e (filter (is_aux_of j) d)); [|rewrite K in *; contradiction].
  apply filter_In. split; [exact He|]. unfold is_aux_of, has_id. rewrite Ae, Ee, Z.eqb_refl. reflexivity.
Qed.

Theorem assign_aux_perm n d d' : Permutation d d' -> wf n d -> res_perm (assign_aux d) (assign_aux d').
Proof.
  intros P W. unfold assign_aux.
  set (ids := ids_of (filter is_aux d)). set (ids' := ids_of (filter is_aux d')).
  apply (res_perm_trans _ (assign_aux_ids d' ids)).
  - apply (assign_ids_perm_data n ids d d' P W); [apply aux_ids_have_aux|apply ids_of_nodup].
  - apply (assign_ids_perm_ids n ids ids'); [apply ids_of_perm, filter_perm, P|apply (wf_perm n d d' P W)|apply ids_of_nodup|].
    intros j Hj. pose proof (aux_ids_have_aux d j Hj) as H. intro K. apply H.
    pose proof (filter_perm (is_aux_of j) d d' P) as Pf. rewrite K in Pf. now apply Permutation_sym, Permutation_nil in Pf.
Qed.

(** reordering the declared components: same error, or a permutation of the normalised components *)
Theorem normalize_data_perm n data data' : Permutation data data' -> wf n data ->
  res_perm (normalize_data data) (normalize_data data').
Proof.
  intros P W. unfold normalize_data.
  pose proof (complete_perm TERMOSOLAR _ _ (complete_perm EAMBIENTE data data' P)) as P2.
  pose proof (assign_aux_perm n _ _ P2 (complete_wf n TERMOSOLAR _ (complete_wf n EAMBIENTE data W))) as R.
  destruct (assign_aux (complete TERMOSOLAR (complete EAMBIENTE data))) as [d3|e]; destruct (assign_aux (complete TERMOSOLAR (complete EAMBIENTE data'))) as [d3'|e'];
    cbn [res_perm bind] in R |- *; try contradiction; [|exact R].
  eapply Permutation_trans; [apply sort_by_id_perm|]. eapply Permutation_trans; [exact R|]. apply Permutation_sym, sort_by_id_perm.
Qed.
