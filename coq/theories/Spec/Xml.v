(** * What "well-formed XML" means here: a readable grammar for the subset of XML 1.0 the program writes

    Elements without attributes, character data, the five predefined entity references and comments.
    A document is one element.  Bytes are UTF-8; that multi-byte sequences are valid UTF-8 is an invariant
    of Rust's [String] type and is not restated here. *)
From Coq Require Import String List NArith Bool.
From Cteepbd Require Import Model.Text.
Import ListNotations.
Open Scope list_scope. Open Scope N_scope.

Definition name_start (c : N) : bool := ((65 <=? c) && (c <=? 90)) || ((97 <=? c) && (c <=? 122)) || (c =? 95).
Definition name_char (c : N) : bool := name_start c || ((48 <=? c) && (c <=? 57)) || (c =? 45) || (c =? 46).
Definition name_ok (n : bytes) : bool := match n with [] => false | c :: r => name_start c && forallb name_char r end.

(** a byte that may stand for itself in character data: not [<], [&], [>] (so "]]>" cannot occur), and not a
    control character outside TAB, LF, CR *)
Definition plain_char (c : N) : bool := negb (c =? 60) && negb (c =? 38) && negb (c =? 62) && negb (bad_c0 c).
Definition entities : list bytes := [bs "&amp;"; bs "&lt;"; bs "&gt;"; bs "&apos;"; bs "&quot;"].

Inductive chardata : bytes -> Prop :=
| cd_nil : chardata []
| cd_char c r : plain_char c = true -> chardata r -> chardata (c :: r)
| cd_ent e r : In e entities -> chardata r -> chardata (e ++ r).

(** a comment body: no "--" and no trailing "-" *)
Fixpoint no_dashdash (c : bytes) : bool :=
  match c with
  | [] => true
  | x :: r => match r with
              | y :: _ => negb ((x =? 45) && (y =? 45)) && no_dashdash r
              | [] => negb (x =? 45)
              end
  end.
Definition comment_ok (c : bytes) : bool := no_dashdash c && forallb (fun x => negb (bad_c0 x)) c.

Definition tag_open (n : bytes) : bytes := [60] ++ n ++ [62].
Definition tag_close (n : bytes) : bytes := [60; 47] ++ n ++ [62].

Inductive content : bytes -> Prop :=
| ct_data t : chardata t -> content t
| ct_elem n i : name_ok n = true -> content i -> content (tag_open n ++ i ++ tag_close n)
| ct_comment c : comment_ok c = true -> content (bs "<!--" ++ c ++ bs "-->")
| ct_app a b : content a -> content b -> content (a ++ b).

Definition document (s : bytes) : Prop :=
  exists n i, name_ok n = true /\ content i /\ s = tag_open n ++ i ++ tag_close n.
