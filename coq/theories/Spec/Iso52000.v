(** * EN ISO 52000-1 balance equations, stated directly over the component list

    Written from the standard (equations (2), (9)-(14), (20)-(28), (32), E.3.6) and the
    documented assumptions of cteepbd: constant factors, on-site electricity allocated before
    cogenerated electricity, export factors averaged by each source's share of the exported
    energy, cogenerated electricity step A factor = weighted cogeneration input / cogenerated
    electricity, service shares by reverse calculation.  No accumulators, no staged records:
    every quantity is a closed expression in sums over the components. *)
From Cteepbd Require Import Model.Types.
Open Scope Qc_scope.

Section Spec.
  Variable data : list Energy.          (* all components of the building *)
  Variable look : Carrier -> Source -> Dest -> Step -> option RNC.   (* weighting factors *)
  Variable k_exp : Qc.
  Variable lm : bool.                   (* statistical load matching (B.32, monthly) on/off *)

  (** Σ over the components selected by [p] of their value at step [t] *)
  Definition E (p : Energy -> bool) (t : nat) : Qc :=
    qsum (map (fun e => nth t (e_vals e) 0) (filter p data)).

  Definition of_cr (cr : Carrier) (e : Energy) : bool := has_carrier cr e.

  (** energy used by EPB services, by non-EPB uses, as cogeneration input; produced by source *)
  Definition E_EPus cr t := E (fun e => of_cr cr e && is_epb_use e) t.
  Definition E_EPus_srv cr s t := E (fun e => of_cr cr e && (is_epb_use e && has_service s e)) t.
  Definition E_nEPus cr t :=
    E (fun e => of_cr cr e && (negb (is_generated e) && negb (is_epb_use e) && negb (is_cogen_use e))) t.
  Definition E_cgn_in cr t := E (fun e => of_cr cr e && is_cogen_use e) t.
  Definition E_pr_j cr j t := E (fun e => of_cr cr e && is_prod_src j e) t.
  Definition E_pr cr t := E_pr_j cr EL_INSITU t + E_pr_j cr EL_COGEN t + E_pr_j cr PS_TERMOSOLAR t + E_pr_j cr PS_EAMBIENTE t.

  Definition declared cr j : bool := existsb (fun e => of_cr cr e && is_prod_src j e) data.
  Definition served cr s : bool := existsb (fun e => of_cr cr e && (is_epb_use e && has_service s e)) data.

  (** (32) load matching factor, f = (x + 1/x - 1)/(x + 1/x), x = production / use *)
  Definition f_match cr t : Qc :=
    if lm then
      if qltb 0 (E_EPus cr t) then
        let x := E_pr cr t / E_EPus cr t in
        if qleb x 0 then 1 else (x + 1 / x - 1) / (x + 1 / x)
      else 1
    else 1.

  (** electricity with both sources declared: on-site first, then cogenerated (9)-(12) *)
  Definition with_priority cr : bool :=
    match cr with ELECTRICIDAD => declared cr EL_INSITU && declared cr EL_COGEN | _ => false end.

  Definition E_pr_used_j cr j t : Qc :=
    if with_priority cr then
      match j with
      | EL_INSITU => f_match cr t * qmin (E_pr_j cr EL_INSITU t) (E_EPus cr t)
      | EL_COGEN => f_match cr t * qmin (E_pr_j cr EL_COGEN t) (E_EPus cr t - qmin (E_pr_j cr EL_INSITU t) (E_EPus cr t))
      | _ => 0
      end
    else
      (* no priority: share of each source in the production of the step (14) *)
      f_match cr t * qmin (E_EPus cr t) (E_pr cr t)
      * (if qltb 0 (E_pr cr t) then E_pr_j cr j t / E_pr cr t else 0).

  Definition E_pr_used cr t : Qc :=
    if with_priority cr then E_pr_used_j cr EL_INSITU t + E_pr_used_j cr EL_COGEN t
    else f_match cr t * qmin (E_EPus cr t) (E_pr cr t).

  (** (13), (14): exported and delivered energy *)
  Definition E_exp cr t := E_pr cr t - E_pr_used cr t.
  Definition E_exp_nEPus cr t := qmin (E_exp cr t) (E_nEPus cr t).
  Definition E_exp_grid cr t := E_exp cr t - E_exp_nEPus cr t.
  Definition E_del_grid cr t := E_EPus cr t - E_pr_used cr t.
  Definition E_del_onsite cr t := E_pr_j cr EL_INSITU t + E_pr_j cr PS_TERMOSOLAR t + E_pr_j cr PS_EAMBIENTE t.
  Definition E_exp_j cr j t := E_pr_j cr j t - E_pr_used_j cr j t.

  (** annual values over [n] steps *)
  Variable n : nat.
  Definition an (f : nat -> Qc) : Qc := qsum (map f (seq 0 n)).

  (** ** Weighted energy of a carrier, (2), (20)-(28) *)
  Definition lk cr src dest step : RNC := match look cr src dest step with Some v => v | None => rnc0 end.

  Definition E_exp_an cr := an (E_exp_nEPus cr) + an (E_exp_grid cr).

  (** export factor for destination [dest], step [step]: mean of the source factors weighted by each
      source's share of the exported energy *)
  Definition f_exp cr dest step : RNC :=
    rsum (map (fun j => rscale (an (E_exp_j cr j) / E_exp_an cr) (lk cr (ps_source j) dest step))
              (filter (declared cr) all_prodsources)).

  Definition W_del cr : RNC :=
    radd (radd (rscale (an (E_del_grid cr)) (lk cr RED SUMINISTRO STEP_A))
               (if qeqb (an (E_del_onsite cr)) 0 then rnc0 else rscale (an (E_del_onsite cr)) (lk cr INSITU SUMINISTRO STEP_A)))
         (if qeqb (an (E_cgn_in cr)) 0 then rnc0 else rscale (an (E_cgn_in cr)) (lk cr RED SUMINISTRO STEP_A)).

  Definition fx cr dest step (amount : Qc) : RNC := if qeqb amount 0 then rnc0 else f_exp cr dest step.

  (** (23)-(25) step A; (26)-(28) step B minus step A *)
  Definition W_exp_A cr : RNC :=
    if qeqb (E_exp_an cr) 0 then rnc0 else
    radd (rscale (an (E_exp_nEPus cr)) (fx cr A_NEPB STEP_A (an (E_exp_nEPus cr))))
         (rscale (an (E_exp_grid cr)) (fx cr A_RED STEP_A (an (E_exp_grid cr)))).
  Definition W_exp_AB cr : RNC :=
    if qeqb (E_exp_an cr) 0 then rnc0 else
    radd (rscale (an (E_exp_nEPus cr)) (rsub (fx cr A_NEPB STEP_B (an (E_exp_nEPus cr))) (fx cr A_NEPB STEP_A (an (E_exp_nEPus cr)))))
         (rscale (an (E_exp_grid cr)) (rsub (fx cr A_RED STEP_B (an (E_exp_grid cr))) (fx cr A_RED STEP_A (an (E_exp_grid cr))))).

  (** (2), (20): E_we = E_we_del - (E_we_exp_A + k_exp * E_we_exp_AB) *)
  Definition E_we_A cr : RNC := rsub (W_del cr) (W_exp_A cr).
  Definition E_we_B cr : RNC := rsub (W_del cr) (radd (W_exp_A cr) (rscale k_exp (W_exp_AB cr))).

  (** E.3.6: share of a service in the weighted energy of a carrier *)
  Definition srv_share cr s : Qc :=
    if qltb 0 (an (E_EPus cr)) then an (E_EPus_srv cr s) / an (E_EPus cr) else 0.
End Spec.

(** cogenerated electricity, step A: weighted cogeneration input / cogenerated electricity *)
Definition spec_cgn_factor (data : list Energy) (look : Carrier -> Source -> Dest -> Step -> option RNC) (n : nat) : RNC :=
  let el := an n (E data is_cogen_pr) in
  rsum (map (fun cr =>
               rscale (if qltb 0 el then an n (E data (fun e => is_cogen_use e && has_carrier cr e)) / el else 0)
                      (lk look cr RED SUMINISTRO STEP_A))
            (filter (fun cr => existsb (fun e => is_cogen_use e && has_carrier cr e) data) all_carriers)).
